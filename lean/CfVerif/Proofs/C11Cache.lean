/-
Proofs/C11Cache: the printed table as bytes, and `TocCache.fetch` / `insert` / `TocFetcher` on top of the JSON lemmas.
Core Lean only.
-/
import CfVerif.Proofs.C11Json
import CfVerif.Proofs.C11
namespace CfVerif.C11
open CfVerif

/-! ## the bytes of a printed table -/

/-- printable ASCII or newline: what `printToc` emits -/
def Plain (c : Nat) : Prop := c < 128 ∧ c ≠ 13
instance (c : Nat) : Decidable (Plain c) := by unfold Plain; infer_instance

theorem hexDigitL_plain (n : Nat) (h : n < 16) : Plain (hexDigitL n) := by
  unfold hexDigitL Plain; split <;> omega

theorem u4_plain (x : Nat) : ∀ c ∈ u4 x, Plain c := by
  intro c hc
  simp only [u4, List.mem_cons, List.not_mem_nil, or_false] at hc
  rcases hc with h | h | h | h | h | h <;> subst h
  · decide
  · decide
  all_goals exact hexDigitL_plain _ (Nat.mod_lt _ (by decide))

theorem escChar_plain (c : Nat) : ∀ x ∈ escChar c, Plain x := by
  intro x hx
  unfold escChar at hx
  repeat' split at hx
  all_goals first
    | (simp only [List.mem_cons, List.not_mem_nil, or_false] at hx; rcases hx with h | h <;> subst h <;> decide)
    | (simp only [List.mem_singleton] at hx; subst hx; unfold Plain; omega)
    | exact u4_plain _ x hx
    | (rcases List.mem_append.1 hx with h | h <;> exact u4_plain _ x h)

theorem printStr_plain (s : Str) : ∀ x ∈ printStr s, Plain x := by
  intro x hx
  simp only [printStr, List.mem_cons, List.mem_append, List.mem_flatMap, List.not_mem_nil, or_false] at hx
  rcases hx with h | ⟨c, _, h⟩ | h
  · subst h; decide
  · exact escChar_plain c x h
  · subst h; decide

theorem natDigits_plain (n : Nat) : ∀ x ∈ natDigits n, Plain x := by
  induction n using Nat.strongRecOn with
  | _ n ih =>
    intro x hx
    by_cases h : n < 10
    · rw [natDigits_lt n h] at hx
      simp only [List.mem_singleton] at hx
      subst hx; unfold Plain; omega
    · rw [natDigits_ge n h] at hx
      rcases List.mem_append.1 hx with h1 | h1
      · exact ih (n / 10) (by omega) x h1
      · simp only [List.mem_singleton] at h1
        subst h1; unfold Plain; omega

theorem printLeaf_plain (lvl : Nat) (l : Leaf) : ∀ x ∈ printLeaf lvl l, Plain x := by
  intro x hx
  cases l with
  | str s => exact printStr_plain s x hx
  | int i =>
    cases i with
    | ofNat n => exact natDigits_plain n x hx
    | negSucc n =>
      simp only [printLeaf, intDigits, List.mem_cons] at hx
      rcases hx with h | h
      · subst h; decide
      · exact natDigits_plain _ x h
  | bool b =>
    cases b
    · simp only [printLeaf, ofString_false, List.mem_cons, List.not_mem_nil, or_false] at hx
      rcases hx with h | h | h | h | h <;> subst h <;> decide
    · simp only [printLeaf, ofString_true, List.mem_cons, List.not_mem_nil, or_false] at hx
      rcases hx with h | h | h | h <;> subst h <;> decide

theorem nlIndent_plain (lvl : Nat) : ∀ x ∈ nlIndent lvl, Plain x := by
  intro x hx
  simp only [nlIndent, List.mem_cons, List.mem_replicate] at hx
  rcases hx with h | ⟨_, h⟩ <;> subst h <;> decide

theorem printMembers_plain {α} (pv : Nat → α → Str) (hpv : ∀ lvl a, ∀ x ∈ pv lvl a, Plain x) (lvl : Nat)
    (ms : List (Str × α)) : ∀ x ∈ printMembers pv lvl ms, Plain x := by
  induction ms with
  | nil => intro x hx; cases hx
  | cons m r ih =>
    obtain ⟨k, a⟩ := m
    cases r with
    | nil =>
      intro x hx
      simp only [printMembers, List.mem_append, List.mem_cons, List.not_mem_nil, or_false] at hx
      rcases hx with (h | h | h) | h
      · exact printStr_plain k x h
      · subst h; decide
      · subst h; decide
      · exact hpv lvl a x h
    | cons y r' =>
      intro x hx
      simp only [printMembers, List.mem_append, List.mem_cons, List.not_mem_nil, or_false] at hx
      rcases hx with (((h | h | h) | h) | h | h) | h
      · exact printStr_plain k x h
      · subst h; decide
      · subst h; decide
      · exact hpv lvl a x h
      · subst h; decide
      · exact nlIndent_plain lvl x h
      · exact ih x h

theorem printObj_plain {α} (pv : Nat → α → Str) (hpv : ∀ lvl a, ∀ x ∈ pv lvl a, Plain x) (lvl : Nat)
    (ms : List (Str × α)) : ∀ x ∈ printObj pv lvl ms, Plain x := by
  intro x hx
  cases ms with
  | nil =>
    simp only [printObj, List.mem_cons, List.not_mem_nil, or_false] at hx
    rcases hx with h | h <;> subst h <;> decide
  | cons m r =>
    simp only [printObj, List.mem_cons, List.mem_append, List.not_mem_nil, or_false] at hx
    rcases hx with h | ((h | h) | h) | h
    · subst h; decide
    · exact nlIndent_plain _ x h
    · exact printMembers_plain pv hpv _ _ x h
    · exact nlIndent_plain _ x h
    · subst h; decide

theorem printToc_plain (t : Toc) : ∀ x ∈ printToc t, Plain x :=
  printObj_plain printGroup (fun lvl g => printObj_plain printElem (fun lvl e => printObj_plain printLeaf printLeaf_plain lvl _) lvl g) 0 t

/-- the last character of a printed table is `}` -/
theorem printObj_ends {α} (pv : Nat → α → Str) (lvl : Nat) (ms : List (Str × α)) :
    ∃ body, printObj pv lvl ms = body ++ [125] := by
  cases ms with
  | nil => exact ⟨[123], rfl⟩
  | cons m r => exact ⟨123 :: (nlIndent (lvl + 1) ++ printMembers pv (lvl + 1) (m :: r) ++ nlIndent lvl), by simp [printObj]⟩

theorem utf8Decode_cons_ascii (b : UInt8) (rest : List UInt8) (h : b.toNat < 0x80) :
    utf8Decode (b :: rest) = (utf8Decode rest).map (b.toNat :: ·) := by
  conv => lhs; unfold utf8Decode
  simp [h]

theorem utf8Decode_plain (s : Str) (h : ∀ x ∈ s, Plain x) : utf8Decode (encodeText s) = some s := by
  induction s with
  | nil => rfl
  | cons c r ih =>
    have hc : c < 128 := (h c (by simp)).1
    have e : (UInt8.ofNat c).toNat = c := by
      simp [UInt8.toNat_ofNat']; omega
    have ih' := ih (fun x hx => h x (by simp [hx]))
    show utf8Decode (UInt8.ofNat c :: encodeText r) = some (c :: r)
    rw [utf8Decode_cons_ascii _ _ (by rw [e]; exact hc), ih', e]
    rfl

theorem nlTranslate_cons_ne (c : Nat) (r : Str) (h : c ≠ 13) : nlTranslate (c :: r) = c :: nlTranslate r := by
  conv => lhs; unfold nlTranslate
  split <;> simp_all

theorem nlTranslate_plain (s : Str) (h : ∀ x ∈ s, Plain x) : nlTranslate s = s := by
  induction s with
  | nil => rfl
  | cons c r ih =>
    rw [nlTranslate_cons_ne c r (h c (by simp)).2, ih (fun x hx => h x (by simp [hx]))]

/-- reading back bytes that are plain text goes through `loads` unchanged -/
theorem loadBytes_plain (s : Str) (h : ∀ x ∈ s, Plain x) : loadBytes (encodeText s) = loads s := by
  unfold loadBytes
  rw [utf8Decode_plain s h]
  simp only
  rw [nlTranslate_plain s h]

theorem encodeText_take (s : Str) (k : Nat) : (encodeText s).take k = encodeText (s.take k) := by
  simp [encodeText, List.map_take]


/-! ## `fetch` in terms of the file it hits -/

theorem fetch_of_hit (fs : FS) (c : Cache) (crc : Nat) (p : Path) (bs : List UInt8)
    (hh : findHit c.files (hex08 crc ++ dotJson) = some p) (hr : fs.read p = some bs) :
    c.fetch fs crc = (match loadBytes bs with
      | .ok v => .ok v
      | .error .exc => .ok .null
      | .error .unmodelled => .error .unmodelled) := by
  unfold Cache.fetch
  rw [fetchPattern_eq]
  simp only [hh, hr]
  cases loadBytes bs with
  | ok v => rfl
  | error e => cases e <;> rfl

theorem fetch_no_hit (fs : FS) (c : Cache) (crc : Nat) (hh : findHit c.files (hex08 crc ++ dotJson) = none) :
    c.fetch fs crc = .ok .null := by
  unfold Cache.fetch
  rw [fetchPattern_eq]
  simp only [hh]

theorem fetch_vanished (fs : FS) (c : Cache) (crc : Nat) (p : Path)
    (hh : findHit c.files (hex08 crc ++ dotJson) = some p) (hr : fs.read p = none) :
    c.fetch fs crc = .ok .null := by
  unfold Cache.fetch
  rw [fetchPattern_eq]
  simp only [hh, hr]

/-- every proper prefix of the bytes of a printed table that loads raises in `json.load` -/
theorem loadBytes_truncated (t : Toc) (v : JVal) (hl : loads (printToc t) = .ok v) (k : Nat)
    (hk : k < (encodeText (printToc t)).length) :
    loadBytes ((encodeText (printToc t)).take k) = .error .exc := by
  rw [encodeText_take, loadBytes_plain _ (fun x hx => printToc_plain t x (List.mem_of_mem_take hx))]
  obtain ⟨body, hb⟩ := printObj_ends printGroup 0 t
  have hb' : printToc t = body ++ [125] := hb
  rw [hb'] at hl hk ⊢
  have : k ≤ body.length := by
    simp [encodeText] at hk; omega
  exact loads_proper_prefix body v hl k this

/-- the bytes of a printed table load as `loadToc` says -/
theorem loadBytes_printToc (t : Toc) (hv : TocValid t) : loadBytes (encodeText (printToc t)) = loadToc t := by
  rw [loadBytes_plain _ (printToc_plain t), loads_printToc t hv]

/-! ## `insert` then `fetch` -/

theorem openW_clean (fs : FS) (d p : Path) (hw : fs.canWrite d = true) (hg : fs.ghostAt p = none) :
    fs.openW d p = some fs := by
  unfold FS.openW; simp [hw, hg]

theorem insert_ok (fs fs' : FS) (c : Cache) (crc : Nat) (toc : Toc) (d : Path) (hrw : c.rw = some d)
    (ho : fs.openW d (storedName d crc) = some fs') :
    c.insert fs crc toc =
      (fs'.write (storedName d crc) (encodeText (printToc toc)), { c with files := c.files ++ [storedName d crc] }) := by
  unfold Cache.insert
  unfold storedName at ho
  simp only [hrw, insertName_eq, ho, storedName]

theorem insert_blocked (fs : FS) (c : Cache) (crc : Nat) (toc : Toc) (d : Path) (hrw : c.rw = some d)
    (ho : fs.openW d (storedName d crc) = none) : c.insert fs crc toc = (fs, c) := by
  unfold Cache.insert
  unfold storedName at ho
  simp only [hrw, insertName_eq, ho]

theorem insertCut_ok (fs fs' : FS) (c : Cache) (crc : Nat) (toc : Toc) (k : Nat) (d : Path) (hrw : c.rw = some d)
    (ho : fs.openW d (storedName d crc) = some fs') :
    c.insertCut fs crc toc k = (fs'.write (storedName d crc) ((encodeText (printToc toc)).take k), c) := by
  unfold Cache.insertCut
  unfold storedName at ho
  simp only [hrw, insertName_eq, ho, storedName]

theorem insertCut_blocked (fs : FS) (c : Cache) (crc : Nat) (toc : Toc) (k : Nat) (d : Path) (hrw : c.rw = some d)
    (ho : fs.openW d (storedName d crc) = none) : c.insertCut fs crc toc k = (fs, c) := by
  unfold Cache.insertCut
  unfold storedName at ho
  simp only [hrw, insertName_eq, ho]

theorem storedName_endsWith_self (d : Path) (crc : Nat) : endsWith (storedName d crc) (hex08 crc ++ dotJson) = true := by
  unfold storedName
  have : d ++ 47 :: (hex08 crc ++ dotJson) = (d ++ [47]) ++ (hex08 crc ++ dotJson) := by simp
  rw [this]
  exact endsWith_append_self _ _

/-- after a successful `insert`, `fetch` of the same checksum decodes exactly the bytes just written -/
theorem fetch_after_insert (fs fs' : FS) (c : Cache) (crc : Nat) (toc : Toc) (d : Path) (hrw : c.rw = some d)
    (ho : fs.openW d (storedName d crc) = some fs') :
    (c.insert fs crc toc).2.fetch (c.insert fs crc toc).1 crc =
      (match loadBytes (encodeText (printToc toc)) with
        | .ok v => .ok v
        | .error .exc => .ok .null
        | .error .unmodelled => .error .unmodelled) := by
  rw [insert_ok fs fs' c crc toc d hrw ho]
  exact fetch_of_hit _ _ crc (storedName d crc) _
    (findHit_append_match c.files _ _ (storedName_endsWith_self d crc)) (by rw [read_write]; simp)

/-! ## `TocFetcher` -/

theorem fetcher_info_hit (w : World) (nbr crc : Nat) (hs : w.f.state = .getInfo) (v : JVal)
    (hf : w.cache.fetch w.fs crc = .ok v) (ht : truthy v = .ok true) :
    fetcherStep w (.info nbr crc) =
      .ok ({ w with f := { w.f with nbr := nbr, crc := crc, toc := .loaded v, state := .done } }, [.finished]) := by
  simp only [fetcherStep, hs, ne_eq, not_true_eq_false, if_false, hf, ht]

theorem fetcher_info_miss (w : World) (nbr crc : Nat) (hs : w.f.state = .getInfo) (v : JVal)
    (hf : w.cache.fetch w.fs crc = .ok v) (ht : truthy v = .ok false) (hn : 0 < nbr) :
    fetcherStep w (.info nbr crc) =
      .ok ({ w with f := { w.f with nbr := nbr, crc := crc, state := .getElem, requested := 0 } }, [.request 0]) := by
  simp only [fetcherStep, hs, ne_eq, not_true_eq_false, if_false, hf, ht, gt_iff_lt, hn, if_true]

/-- run a sequence of received packets through the fetcher, collecting what it sends -/
def runEvents (w : World) : List Ev → Except Err (World × List Out)
  | [] => .ok (w, [])
  | e :: r =>
    match fetcherStep w e with
    | .ok (w', o) =>
      (match runEvents w' r with
       | .ok (w'', o') => .ok (w'', o ++ o')
       | .error x => .error x)
    | .error x => .error x

/-- the element replies of a device, in index order starting at `i` -/
def elemEvents (i : Nat) : List Elem → List Ev
  | [] => []
  | e :: r => .elem i e :: elemEvents (i + 1) r

/-- `Toc.add_element` for each element in order -/
def addAll (t : Toc) (es : List Elem) : Toc := es.foldl (fun t e => addElement t e.core.group e.core.name e) t

def requestsFrom (i : Nat) : Nat → List Out
  | 0 => []
  | n + 1 => .request i :: requestsFrom (i + 1) n

/-- **download**: with `n` elements outstanding the fetcher asks for each next index, adds every element, and after
the last one stores the table under the announced checksum and reports completion -/
theorem download_completes (es : List Elem) (hne : es ≠ []) (w : World) (t : Toc) (i : Nat)
    (hs : w.f.state = .getElem) (hr : w.f.requested = i) (hn : w.f.nbr = i + es.length) (ht : w.f.toc = .typed t) :
    ∃ w', runEvents w (elemEvents i es) = .ok (w', requestsFrom (i + 1) (es.length - 1) ++ [.finished]) ∧
      w'.f.toc = .typed (addAll t es) ∧ w'.f.state = .done ∧
      (w'.fs, w'.cache) = w.cache.insert w.fs w.f.crc (addAll t es) := by
  induction es generalizing w t i with
  | nil => exact absurd rfl hne
  | cons e r ih =>
    cases r with
    | nil =>
      have hnl : ¬ (w.f.requested + 1 < w.f.nbr) := by rw [hr, hn]; simp
      refine ⟨{ fs := (w.cache.insert w.fs w.f.crc (addElement t e.core.group e.core.name e)).1,
                cache := (w.cache.insert w.fs w.f.crc (addElement t e.core.group e.core.name e)).2,
                f := { w.f with toc := .typed (addElement t e.core.group e.core.name e), state := .done } }, ?_, rfl, rfl, rfl⟩
      simp only [elemEvents, runEvents, fetcherStep, hs, ht, ne_eq, not_true_eq_false, if_false]
      rw [← hr]
      simp only [hnl, if_false]
      rfl
    | cons e2 r2 =>
      have hlt : w.f.requested + 1 < w.f.nbr := by rw [hr, hn]; simp
      let w1 : World := { fs := w.fs, cache := w.cache, f := { state := .getElem, nbr := w.f.nbr, crc := w.f.crc, requested := w.f.requested + 1, toc := .typed (addElement t e.core.group e.core.name e) } }
      have hstep : fetcherStep w (.elem i e) = .ok (w1, [.request (i + 1)]) := by
        simp only [fetcherStep, hs, hr, ht, ne_eq, not_true_eq_false, if_false]
        rw [← hr]
        simp only [hlt, if_true]
        rfl
      obtain ⟨w', h1, h2, h3, h4⟩ := ih (by simp) w1 (addElement t e.core.group e.core.name e) (i + 1)
        rfl (by simp [w1, hr]) (by simp [w1, hn]; omega) rfl
      refine ⟨w', ?_, ?_, h3, ?_⟩
      · show runEvents w (.elem i e :: elemEvents (i + 1) (e2 :: r2)) = _
        rw [runEvents, hstep]
        simp only
        rw [h1]
        simp [requestsFrom]
      · rw [h2]; rfl
      · rw [h4]; rfl

/-! ## downloaded tables are dicts (duplicate-free keys) -/

theorem keys_setName (ns : List (Str × Elem)) (n : Str) (e : Elem) :
    keys (setName ns n e) = if n ∈ keys ns then keys ns else keys ns ++ [n] := by
  induction ns with
  | nil => simp [setName, keys]
  | cons x r ih =>
    obtain ⟨k, w⟩ := x
    by_cases h : k = n
    · subst h; simp [setName, keys]
    · have h' : ¬ n = k := fun e => h e.symm
      have e1 : keys (setName ((k, w) :: r) n e) = k :: keys (setName r n e) := by simp [setName, h, keys]
      have e2 : (n ∈ keys ((k, w) :: r)) ↔ n ∈ keys r := by simp [keys, h']
      rw [e1, ih]
      by_cases hm : n ∈ keys r
      · rw [if_pos hm, if_pos (e2.2 hm)]; rfl
      · have : ¬ n ∈ keys ((k, w) :: r) := fun x => hm (e2.1 x)
        rw [if_neg hm, if_neg this]; rfl

theorem nodup_setName (ns : List (Str × Elem)) (n : Str) (e : Elem) (h : (keys ns).Nodup) :
    (keys (setName ns n e)).Nodup := by
  rw [keys_setName]
  split
  · exact h
  · next hn =>
    rw [List.nodup_append]
    exact ⟨h, by simp, by intro a ha b hb; simp at hb; subst hb; intro e; subst e; exact hn ha⟩

theorem keys_addElement (t : Toc) (g n : Str) (e : Elem) :
    keys (addElement t g n e) = if g ∈ keys t then keys t else keys t ++ [g] := by
  induction t with
  | nil => simp [addElement, keys]
  | cons x r ih =>
    obtain ⟨k, ns⟩ := x
    by_cases h : k = g
    · subst h; simp [addElement, keys]
    · have h' : ¬ g = k := fun e => h e.symm
      have e1 : keys (addElement ((k, ns) :: r) g n e) = k :: keys (addElement r g n e) := by simp [addElement, h, keys]
      have e2 : (g ∈ keys ((k, ns) :: r)) ↔ g ∈ keys r := by simp [keys, h']
      rw [e1, ih]
      by_cases hm : g ∈ keys r
      · rw [if_pos hm, if_pos (e2.2 hm)]; rfl
      · have : ¬ g ∈ keys ((k, ns) :: r) := fun x => hm (e2.1 x)
        rw [if_neg hm, if_neg this]; rfl

theorem inner_addElement (t : Toc) (g n : Str) (e : Elem) (h2 : ∀ x ∈ t, (keys x.2).Nodup) :
    ∀ y ∈ addElement t g n e, (keys y.2).Nodup := by
  induction t with
  | nil =>
    intro x hx
    simp only [addElement, List.mem_singleton] at hx
    subst hx; simp [keys]
  | cons x r ih =>
    obtain ⟨k, ns⟩ := x
    intro y hy
    by_cases hk : k = g
    · simp only [addElement, hk, if_true, List.mem_cons] at hy
      rcases hy with hy | hy
      · subst hy; exact nodup_setName ns n e (h2 (k, ns) (by simp))
      · exact h2 y (by simp [hy])
    · simp only [addElement, hk, if_false, List.mem_cons] at hy
      rcases hy with hy | hy
      · subst hy; exact h2 (k, ns) (by simp)
      · exact ih (fun z hz => h2 z (by simp [hz])) y hy

theorem wf_addElement (t : Toc) (g n : Str) (e : Elem) (h : TocWF t) : TocWF (addElement t g n e) := by
  constructor
  · rw [keys_addElement]
    split
    · exact h.1
    · next hn =>
      rw [List.nodup_append]
      exact ⟨h.1, by simp, by intro a ha b hb; simp at hb; subst hb; intro e; subst e; exact hn ha⟩
  · exact inner_addElement t g n e h.2

theorem wf_addAll (t : Toc) (es : List Elem) (h : TocWF t) : TocWF (addAll t es) := by
  induction es generalizing t with
  | nil => exact h
  | cons e r ih => exact ih _ (wf_addElement t _ _ e h)

theorem wf_nil : TocWF [] := ⟨by simp [keys], by intro g hg; cases hg⟩

/-! ## a new session after a cut write -/

theorem foldl_no_match (b : List Path) (pat : Str) (init : Option Path) (h : ∀ q ∈ b, endsWith q pat = false) :
    b.foldl (fun hit name => if endsWith name pat then some name else hit) init = init := by
  induction b generalizing init with
  | nil => rfl
  | cons x r ih =>
    simp only [List.foldl_cons, h x (by simp), Bool.false_eq_true, if_false]
    exact ih init (fun q hq => h q (by simp [hq]))

theorem foldl_hit_unique (b : List Path) (pat : Str) (q : Path) (init : Option Path) (hq : q ∈ b)
    (he : endsWith q pat = true) (hu : ∀ q' ∈ b, endsWith q' pat = true → q' = q) :
    b.foldl (fun hit name => if endsWith name pat then some name else hit) init = some q := by
  induction b generalizing init with
  | nil => cases hq
  | cons x r ih =>
    simp only [List.foldl_cons]
    by_cases hr : q ∈ r
    · exact ih _ hr (fun q' hq' => hu q' (by simp [hq']))
    · simp only [List.mem_cons, hr, or_false] at hq
      subst hq
      simp only [he, if_true]
      apply foldl_no_match
      intro q' hq'
      cases hh : endsWith q' pat with
      | false => rfl
      | true =>
        have := hu q' (by simp [hq']) hh
        subst this
        exact absurd hq' hr

theorem findHit_append_unique (a b : List Path) (pat : Str) (q : Path) (hq : q ∈ b) (he : endsWith q pat = true)
    (hu : ∀ q' ∈ b, endsWith q' pat = true → q' = q) : findHit (a ++ b) pat = some q := by
  unfold findHit
  rw [List.foldl_append]
  exact foldl_hit_unique b pat q _ hq he hu

theorem dotJson_eq : ofString ".json" = dotJson := by decide

theorem hexDigitU_ne_dot (n : Nat) : hexDigitU n ≠ 46 := by
  unfold hexDigitU; split <;> omega

theorem isPrefixOf_append (a b : List Nat) : a.isPrefixOf (a ++ b) = true := by
  induction a with
  | nil => simp
  | cons x r ih => simp [ih]

/-- a stored file is found by `glob(dir + '/*.json')` -/
theorem globMatch_storedName (d : Path) (crc : Nat) (hc : crc < 4294967296) : globMatch d (storedName d crc) = true := by
  unfold globMatch storedName
  have e : d ++ 47 :: (hex08 crc ++ dotJson) = (d ++ [47]) ++ (hex08 crc ++ dotJson) := by simp
  rw [e]
  have h1 : (d ++ [47]).isPrefixOf ((d ++ [47]) ++ (hex08 crc ++ dotJson)) = true := isPrefixOf_append _ _
  have h2 : ((d ++ [47]) ++ (hex08 crc ++ dotJson)).drop (d ++ [47]).length = hex08 crc ++ dotJson := List.drop_left
  have h3 : (hex08 crc ++ dotJson).contains 47 = false := by
    have := hex08_no_slash crc
    simpa using this
  have h4 : ((hex08 crc ++ dotJson).head? != some 46) = true := by
    rw [hex08_lt crc hc]
    simp only [List.cons_append, List.head?_cons, bne_iff_ne, ne_eq, Option.some.injEq]
    exact hexDigitU_ne_dot _
  have h5 : endsWith (hex08 crc ++ dotJson) (ofString ".json") = true := by
    rw [dotJson_eq]; exact endsWith_append_self _ _
  simp only [h1, h2, h3, h4, h5, Bool.not_false, Bool.and_self]

theorem init_files (fs : FS) (ro : Option Path) (d : Path) (fs' : FS) (c : Cache)
    (h : Cache.init fs ro (some d) = .ok (fs', c)) :
    ∃ f1, c.files = f1 ++ glob fs d := by
  unfold Cache.init at h
  simp only at h
  by_cases hd : fs.dirs.contains d = true
  · simp only [hd, if_true, Except.ok.injEq, Prod.mk.injEq] at h
    exact ⟨_, by rw [← h.2]⟩
  · simp only [hd] at h
    cases hr : fs.readonly with
    | true => simp [hr] at h
    | false =>
      simp only [hr, Bool.false_eq_true, if_false, Except.ok.injEq, Prod.mk.injEq] at h
      exact ⟨_, by rw [← h.2]⟩

theorem mem_glob_write (fs : FS) (d p : Path) (b : List UInt8) (hg : globMatch d p = true) :
    p ∈ glob (fs.write p b) d := by
  unfold glob FS.write
  apply List.mem_append_left
  simp only [List.mem_map, List.mem_filter]
  have : p ∈ (writeFile fs.files p b).map (·.1) := (writeFile_paths fs.files p b p).2 (Or.inl rfl)
  obtain ⟨f, hf, hfp⟩ := List.mem_map.1 this
  exact ⟨f, ⟨hf, by rw [hfp]; exact hg⟩, hfp⟩

/-! ## where reading a printed dict breaks down when the hook raises -/

theorem topDone_run {st st' : St} (hd : TopDone st) (q : Str) (h : run st q = .ok st') : TopDone st' := by
  induction q generalizing st with
  | nil => simp only [run, Except.ok.injEq] at h; subst h; exact hd
  | cons c cs ih =>
    rw [run_cons] at h
    cases hs : step st c with
    | ok s1 => rw [hs] at h; exact ih (topDone_step hd hs) h
    | error e => rw [hs] at h; cases h

/-- **Prefix lemma, second form.**  If reading `g` ends inside a container, no prefix of `g` is a complete document. -/
theorem loads_prefix_inside (g : Str) (st : St) (hr : run initSt g = .ok st) (hs : st.stack ≠ []) (k : Nat) :
    loads (g.take k) = .error .exc := by
  have e : g = g.take k ++ g.drop k := (List.take_append_drop k g).symm
  rw [e] at hr
  obtain ⟨st1, h1, h2⟩ := run_append_ok hr
  unfold loads
  rw [h1]
  simp only
  cases hf : finish st1 with
  | error e => rw [finish_error_exc hf]
  | ok w => exact absurd (topDone_run (finish_ok_topDone hf) _ h2).1 hs

/-- reading `pv lvl a` breaks down with an exception at a `}` strictly inside it whenever `lv a` raises -/
def FailsInside {α} (pv : Nat → α → Str) (lv : α → Except Err JVal) (P : α → Prop) : Prop :=
  ∀ a, P a → lv a = .error .exc → ∀ lvl stack, ValStack stack →
    ∃ g tail st, pv lvl a = g ++ 125 :: tail ∧ run ⟨stack, .val⟩ g = .ok st ∧ st.stack ≠ [] ∧ step st 125 = .error .exc

theorem failsInside_members {α} {pv : Nat → α → Str} {lv : α → Except Err JVal} {P : α → Prop}
    (hrb : ReadsBack pv lv P) (hfi : FailsInside pv lv P)
    (lvl : Nat) (ms : List (Str × α)) (hms : MembersOk P ms)
    (d : List (Str × JVal)) (stack : List Frame) (m : Mode) (hm : m = .obj0 ∨ m = .key)
    (hfail : loadMembers lv ms d = .error .exc) :
    ∃ g tail st, printMembers pv lvl ms = g ++ 125 :: tail ∧ run ⟨.objK d :: stack, m⟩ g = .ok st ∧ st.stack ≠ [] ∧
      step st 125 = .error .exc := by
  induction ms generalizing d m with
  | nil => simp [loadMembers] at hfail
  | cons x r ih =>
    obtain ⟨k, a⟩ := x
    have hk : ValidStr k := (hms (k, a) (by simp)).1
    have ha : P a := (hms (k, a) (by simp)).2
    simp only [loadMembers] at hfail
    cases hla : lv a with
    | error e =>
      rw [hla] at hfail
      simp only [Except.error.injEq] at hfail
      subst hfail
      obtain ⟨g0, tail0, st, hp, hrun, hne, hst⟩ := hfi a ha hla lvl (.objV d k :: stack) trivial
      cases r with
      | nil =>
        refine ⟨printStr k ++ 58 :: 32 :: g0, tail0, st, ?_, ?_, hne, hst⟩
        · simp only [printMembers, hp, List.append_assoc, List.cons_append, List.nil_append]
        · rw [run_key d stack m hm k hk]; exact hrun
      | cons y r' =>
        refine ⟨printStr k ++ 58 :: 32 :: g0, tail0 ++ (44 :: nlIndent lvl) ++ printMembers pv lvl (y :: r'), st, ?_, ?_, hne, hst⟩
        · simp only [printMembers, hp, List.append_assoc, List.cons_append, List.nil_append]
        · rw [run_key d stack m hm k hk]; exact hrun
    | ok v =>
      rw [hla] at hfail
      simp only at hfail
      cases r with
      | nil => simp [loadMembers] at hfail
      | cons y r' =>
        obtain ⟨g1, tail1, st, hp, hrun, hne, hst⟩ :=
          ih (fun m hm => hms m (by simp [hm])) (dictSet d k v) .key (Or.inr rfl) hfail
        refine ⟨printStr k ++ 58 :: 32 :: (pv lvl a ++ 44 :: (nlIndent lvl ++ g1)), tail1, st, ?_, ?_, hne, hst⟩
        · simp only [printMembers, hp, List.append_assoc, List.cons_append, List.nil_append]
        · rw [run_key d stack m hm k hk]
          rw [hrb a ha lvl (.objV d k :: stack) trivial 44 (Or.inl rfl), hla]
          simp only [deliver, andThen]
          have e1 : step ⟨.objK (dictSet d k v) :: stack, .after⟩ 44 = .ok ⟨.objK (dictSet d k v) :: stack, .key⟩ := by
            simp [step, afterStep, isWs]
          rw [run_cons, e1]; dsimp only
          rw [run_nlIndent (.objK (dictSet d k v) :: stack) .key trivial]
          exact hrun

theorem hook_nil : hook [] = .ok (.obj []) := by
  simp [hook, dictGet]

theorem failsInside_printObj {α} {pv : Nat → α → Str} {lv : α → Except Err JVal} {P : α → Prop}
    (hrb : ReadsBack pv lv P) (hfi : FailsInside pv lv P) : FailsInside (printObj pv) (loadObj lv) (MembersOk P) := by
  intro ms hms hfail lvl stack _
  have e1 : step ⟨stack, .val⟩ 123 = .ok ⟨.objK [] :: stack, .obj0⟩ := by simp [step, isWs, startValue]
  cases ms with
  | nil => simp [loadObj, loadMembers, hook_nil] at hfail
  | cons x r =>
    unfold loadObj at hfail
    cases hlm : loadMembers lv (x :: r) [] with
    | error e =>
      rw [hlm] at hfail
      simp only [Except.error.injEq] at hfail
      subst hfail
      obtain ⟨g1, tail1, st, hp, hrun, hne, hst⟩ :=
        failsInside_members hrb hfi (lvl + 1) (x :: r) hms [] stack .obj0 (Or.inl rfl) hlm
      refine ⟨123 :: (nlIndent (lvl + 1) ++ g1), tail1 ++ nlIndent lvl ++ [125], st, ?_, ?_, hne, hst⟩
      · simp only [printObj, hp, List.append_assoc, List.cons_append, List.nil_append]
      · rw [run_cons, e1]; dsimp only
        rw [run_nlIndent (.objK [] :: stack) .obj0 trivial]
        exact hrun
    | ok d' =>
      rw [hlm] at hfail
      simp only at hfail
      have hmem := run_printMembers hrb (lvl + 1) (x :: r) (by simp) hms [] stack .obj0 (Or.inl rfl)
        (List.replicate (Gen.C11.indent * lvl) 32)
      rw [hlm] at hmem
      simp only at hmem
      refine ⟨123 :: (nlIndent (lvl + 1) ++ printMembers pv (lvl + 1) (x :: r) ++ nlIndent lvl), [],
        ⟨.objK d' :: stack, .after⟩, ?_, ?_, by simp, ?_⟩
      · simp only [printObj, List.append_assoc, List.cons_append, List.nil_append]
      · rw [run_cons, e1]; dsimp only
        rw [List.append_assoc, run_nlIndent (.objK [] :: stack) .obj0 trivial]
        simp only [nlIndent] at hmem ⊢
        rw [hmem, run_cons, step_ws (.objK d' :: stack) .after trivial 10 (by decide)]; dsimp only
        have := run_spaces (.objK d' :: stack) .after trivial (Gen.C11.indent * lvl) []
        rw [List.append_nil] at this
        rw [this]; rfl
      · simp only [step, afterStep, isWs, closeObj, hfail]
        simp

theorem failsInside_printElem : FailsInside printElem loadElem Elem.Valid := by
  intro e _ h
  rw [loadElem_eq] at h
  cases h

theorem failsInside_printGroup : FailsInside printGroup loadGroup GroupValid :=
  failsInside_printObj readsBack_printElem failsInside_printElem

theorem failsInside_printToc : FailsInside (printObj printGroup) (loadObj loadGroup) TocValid :=
  failsInside_printObj readsBack_printGroup failsInside_printGroup

/-- **Truncation, every table.**  `json.loads` raises on every proper prefix of the text `insert` writes for a table,
whether the complete text loads (then by the prefix lemma) or the hook raises somewhere in it (then every shorter prefix
ends inside a container and every longer one contains the raising `}`). -/
theorem loads_truncated (t : Toc) (hv : TocValid t) (hwf : TocWF t) (k : Nat) (hk : k < (printToc t).length) :
    loads ((printToc t).take k) = .error .exc := by
  rcases loadToc_cases t hwf with hok | herr
  · obtain ⟨body, hb⟩ := printObj_ends printGroup 0 t
    have hb' : printToc t = body ++ [125] := hb
    have hl : loads (body ++ [125]) = .ok (tocVal t) := by rw [← hb', loads_printToc t hv, hok]
    rw [hb'] at hk ⊢
    exact loads_proper_prefix body _ hl k (by simp at hk; omega)
  · obtain ⟨g, tail, st, hp, hrun, hne, hst⟩ := failsInside_printToc t hv herr 0 [] trivial
    have hp' : printToc t = g ++ 125 :: tail := hp
    rw [hp']
    by_cases hkg : k ≤ g.length
    · rw [List.take_append_of_le_length hkg]
      exact loads_prefix_inside g st hrun hne k
    · obtain ⟨j, hj⟩ : ∃ j, k = g.length + (j + 1) := ⟨k - g.length - 1, by omega⟩
      have e : (g ++ 125 :: tail).take k = g ++ 125 :: tail.take j := by
        subst hj
        rw [List.take_append, List.take_of_length_le (by omega)]
        simp
      rw [e]
      unfold loads
      rw [run_append]
      have hrun' : run initSt g = .ok st := hrun
      rw [hrun']
      simp only [run_cons, hst]

/-- ... on the bytes of the file -/
theorem loadBytes_truncated_all (t : Toc) (hv : TocValid t) (hwf : TocWF t) (k : Nat)
    (hk : k < (encodeText (printToc t)).length) :
    loadBytes ((encodeText (printToc t)).take k) = .error .exc := by
  rw [encodeText_take, loadBytes_plain _ (fun x hx => printToc_plain t x (List.mem_of_mem_take hx))]
  exact loads_truncated t hv hwf k (by simpa [encodeText] using hk)

/-- the write of `insert` is cut after `k` bytes (crash / write error), a new process builds a new `TocCache` over the
same directories: the checksum is a miss -/
theorem crash_restart_aux (fs fs' : FS) (c : Cache) (crc : Nat) (toc : Toc) (k : Nat) (d : Path) (ro : Option Path)
    (hrw : c.rw = some d) (ho : fs.openW d (storedName d crc) = some fs') (hcrc : crc < 4294967296)
    (hv : TocValid toc) (hwf : TocWF toc) (hk : k < (encodeText (printToc toc)).length)
    (fs2 : FS) (c2 : Cache) (hinit : Cache.init (c.insertCut fs crc toc k).1 ro (some d) = .ok (fs2, c2))
    (huniq : ∀ q ∈ glob (c.insertCut fs crc toc k).1 d, endsWith q (hex08 crc ++ dotJson) = true → q = storedName d crc) :
    c2.fetch fs2 crc = .ok .null := by
  rw [insertCut_ok fs fs' c crc toc k d hrw ho] at hinit huniq
  simp only at hinit huniq
  obtain ⟨f1, hf⟩ := init_files _ ro d fs2 c2 hinit
  have hread := (init_read _ ro (some d) fs2 c2 hinit (storedName d crc)).1
  rw [read_write] at hread
  simp only [if_true] at hread
  have hmem := mem_glob_write fs' d (storedName d crc) ((encodeText (printToc toc)).take k) (globMatch_storedName d crc hcrc)
  have hhit : findHit c2.files (hex08 crc ++ dotJson) = some (storedName d crc) := by
    rw [hf]
    exact findHit_append_unique f1 _ _ _ hmem (storedName_endsWith_self d crc) huniq
  rw [fetch_of_hit fs2 c2 crc _ _ hhit hread, loadBytes_truncated_all toc hv hwf k hk]

end CfVerif.C11

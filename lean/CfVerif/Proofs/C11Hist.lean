/-
Proofs/C11Hist: histories of cache operations on one read-write directory.
The invariant says every file of the directory is a (possibly cut) print of the table LAST written under its checksum.
Core Lean only.
-/
import CfVerif.Proofs.C11Cache
namespace CfVerif.C11
open CfVerif

/-- what a process (or a sequence of processes) does with the cache directory -/
inductive Op
  | insert (crc : Nat) (t : Toc)                 -- `TocCache.insert`, completed
  | insertCut (crc : Nat) (t : Toc) (k : Nat)    -- ... cut after `k` bytes (crash, write error)
  | restart                                      -- a new process: `TocCache(rw_cache=d)`

def applyOp (d : Path) (s : FS × Cache) : Op → FS × Cache
  | .insert crc t => s.2.insert s.1 crc t
  | .insertCut crc t k => s.2.insertCut s.1 crc t k
  | .restart =>
    match Cache.init s.1 none (some d) with
    | .ok r => r
    | .error _ => s

def applyOps (d : Path) (s : FS × Cache) (ops : List Op) : FS × Cache := ops.foldl (applyOp d) s

/-- the table last written (completely or not) under each checksum -/
def lastWritten (h : Nat → Option Toc) : List Op → Nat → Option Toc
  | [], crc => h crc
  | .insert c t :: r, crc => lastWritten (fun x => if x = c then some t else h x) r crc
  | .insertCut c t _ :: r, crc => lastWritten (fun x => if x = c then some t else h x) r crc
  | .restart :: r, crc => lastWritten h r crc

def Op.Ok : Op → Prop
  | .insert crc t => crc < 4294967296 ∧ TocValid t ∧ TocWF t
  | .insertCut crc t _ => crc < 4294967296 ∧ TocValid t ∧ TocWF t
  | .restart => True

structure Inv (d : Path) (h : Nat → Option Toc) (s : FS × Cache) : Prop where
  writable : s.1.canWrite d = true
  rw : s.2.rw = some d
  names : ∀ p ∈ s.1.files.map (·.1), ∃ crc, crc < 4294967296 ∧ p = storedName d crc
  content : ∀ crc, crc < 4294967296 → ∀ bs, s.1.read (storedName d crc) = some bs →
    ∃ t k, h crc = some t ∧ TocValid t ∧ TocWF t ∧ bs = (encodeText (printToc t)).take k
  cached : s.2.Stored

theorem storedName_inj {d : Path} {a b : Nat} (ha : a < 4294967296) (hb : b < 4294967296)
    (h : storedName d a = storedName d b) : a = b := by
  unfold storedName at h
  have h1 := List.append_cancel_left h
  simp only [List.cons.injEq, true_and] at h1
  exact hex08_inj ha hb (List.append_cancel_right h1)

theorem canWrite_write (fs : FS) (p : Path) (b : List UInt8) (d : Path) : (fs.write p b).canWrite d = fs.canWrite d := rfl

theorem inv_write (d : Path) (h : Nat → Option Toc) (fs : FS) (c c' : Cache) (crc : Nat) (t : Toc) (k : Nat)
    (hc : crc < 4294967296) (hv : TocValid t) (hwf : TocWF t) (hi : Inv d h (fs, c))
    (hrw : c'.rw = some d) (hst : c'.Stored) :
    Inv d (fun x => if x = crc then some t else h x)
      (fs.write (storedName d crc) ((encodeText (printToc t)).take k), c') := by
  refine ⟨hi.writable, hrw, ?_, ?_, hst⟩
  · intro p hp
    rcases (writeFile_paths fs.files _ _ p).1 hp with h1 | h1
    · exact ⟨crc, hc, h1⟩
    · exact hi.names p h1
  · intro crc' hc' bs hr
    simp only at hr
    rw [read_write] at hr
    by_cases he : storedName d crc' = storedName d crc
    · have := storedName_inj hc' hc he
      subst this
      simp only [if_true, Option.some.injEq] at hr
      exact ⟨t, k, by simp, hv, hwf, hr.symm⟩
    · have hne : crc' ≠ crc := fun e => he (by rw [e])
      simp only [he, if_false] at hr
      obtain ⟨t', k', h1, h2, h3, h4⟩ := hi.content crc' hc' bs hr
      exact ⟨t', k', by simp [hne, h1], h2, h3, h4⟩

theorem glob_subset (fs : FS) (d : Path) : ∀ p ∈ glob fs d, p ∈ fs.files.map (·.1) := by
  intro p hp
  unfold glob at hp
  obtain ⟨f, hf, hfp⟩ := List.mem_map.1 hp
  exact List.mem_map.2 ⟨f, (List.mem_filter.1 hf).1, hfp⟩

theorem inv_step (d : Path) (h : Nat → Option Toc) (s : FS × Cache) (op : Op) (hok : op.Ok) (hi : Inv d h s) :
    Inv d (lastWritten h [op]) (applyOp d s op) := by
  obtain ⟨fs, c⟩ := s
  cases op with
  | insert crc t =>
    obtain ⟨hc, hv, hwf⟩ := hok
    simp only [applyOp, lastWritten]
    rw [insert_ok fs c crc t d hi.rw hi.writable]
    have := inv_write d h fs c { c with files := c.files ++ [storedName d crc] } crc t (encodeText (printToc t)).length hc hv hwf hi hi.rw
      (by
        intro p hp
        rcases List.mem_append.1 hp with h1 | h1
        · exact hi.cached p h1
        · simp only [List.mem_singleton] at h1; exact ⟨d, crc, hc, h1⟩)
    rw [List.take_length] at this
    exact this
  | insertCut crc t k =>
    obtain ⟨hc, hv, hwf⟩ := hok
    simp only [applyOp, lastWritten]
    rw [insertCut_ok fs c crc t k d hi.rw hi.writable]
    exact inv_write d h fs c c crc t k hc hv hwf hi hi.rw hi.cached
  | restart =>
    simp only [applyOp, lastWritten]
    have hw := hi.writable
    unfold FS.canWrite at hw
    simp only [Bool.and_eq_true, Bool.not_eq_true'] at hw
    have e : Cache.init fs none (some d) = .ok (fs, ⟨glob fs d, some d⟩) := by
      unfold Cache.init
      simp only [List.nil_append, hw.2, if_true]
    rw [e]
    refine ⟨hi.writable, rfl, hi.names, hi.content, ?_⟩
    intro p hp
    obtain ⟨crc, hc, hp'⟩ := hi.names p (glob_subset fs d p hp)
    exact ⟨d, crc, hc, hp'⟩

theorem lastWritten_append (h : Nat → Option Toc) (a b : List Op) (crc : Nat) :
    lastWritten h (a ++ b) crc = lastWritten (lastWritten h a) b crc := by
  induction a generalizing h with
  | nil => rfl
  | cons op r ih => cases op <;> simp only [List.cons_append, lastWritten] <;> exact ih _

theorem inv_ops (d : Path) (h : Nat → Option Toc) (s : FS × Cache) (ops : List Op) (hok : ∀ op ∈ ops, op.Ok)
    (hi : Inv d h s) : Inv d (lastWritten h ops) (applyOps d s ops) := by
  induction ops generalizing h s with
  | nil => exact hi
  | cons op r ih =>
    have h1 := inv_step d h s op (hok op (by simp)) hi
    have h2 := ih (lastWritten h [op]) (applyOp d s op) (fun o ho => hok o (by simp [ho])) h1
    have e : lastWritten h (op :: r) = lastWritten (lastWritten h [op]) r := by
      funext crc
      exact lastWritten_append h [op] r crc
    rw [e]
    exact h2

theorem read_mem (fs : FS) (p : Path) (bs : List UInt8) (h : fs.read p = some bs) : p ∈ fs.files.map (·.1) := by
  unfold FS.read at h
  cases hf : fs.files.find? (·.1 = p) with
  | none => rw [hf] at h; cases h
  | some f =>
    have hm := List.mem_of_find?_eq_some hf
    have hp := List.find?_some hf
    simp only [decide_eq_true_eq] at hp
    exact List.mem_map.2 ⟨f, hm, hp⟩

/-- under the invariant `fetch` returns `None` or the table last written under that checksum -/
theorem inv_fetch (d : Path) (h : Nat → Option Toc) (s : FS × Cache) (hi : Inv d h s) (crc : Nat)
    (hc : crc < 4294967296) :
    s.2.fetch s.1 crc = .ok .null ∨ ∃ t, h crc = some t ∧ s.2.fetch s.1 crc = .ok (tocVal t) := by
  cases hh : findHit s.2.files (hex08 crc ++ dotJson) with
  | none => left; exact fetch_no_hit s.1 s.2 crc hh
  | some p =>
    obtain ⟨hm, he⟩ := findHit_some hh
    obtain ⟨d', crc', hc', hp⟩ := hi.cached p hm
    subst hp
    have := storedName_endsWith hc' hc he
    subst this
    cases hr : s.1.read (storedName d' crc') with
    | none => left; exact fetch_vanished s.1 s.2 crc' _ hh hr
    | some bs =>
      obtain ⟨crc2, hc2, hp2⟩ := hi.names _ (read_mem s.1 _ bs hr)
      have hd : d' = d ∧ crc' = crc2 := by
        unfold storedName at hp2
        have := split_last_slash (hex08_no_slash crc') (hex08_no_slash crc2) hp2
        exact ⟨this.1, hex08_inj hc' hc2 (List.append_cancel_right this.2)⟩
      obtain ⟨hd1, hd2⟩ := hd
      subst hd1; subst hd2
      obtain ⟨t, k, h1, hv, hwf, h4⟩ := hi.content crc' hc' bs hr
      rw [fetch_of_hit s.1 s.2 crc' _ bs hh hr, h4]
      by_cases hk : k < (encodeText (printToc t)).length
      · left
        rw [loadBytes_truncated_all t hv hwf k hk]
      · rw [List.take_of_length_le (by omega), loadBytes_printToc t hv]
        rcases loadToc_cases t hwf with h5 | h5
        · right; exact ⟨t, h1, by rw [h5]⟩
        · left; rw [h5]

end CfVerif.C11

/-
Proofs/C11Hist: histories of cache operations on one read-write directory.
The invariant says every file of the directory is a (possibly cut) print of the table LAST written under its checksum.
Core Lean only.
-/
import CfVerif.Proofs.C11Cache
namespace CfVerif.C11
open CfVerif

/-- what processes (and the outside world) do with the cache directory -/
inductive Op
  | insert (crc : Nat) (t : Toc)                 -- `TocCache.insert`
  | insertCut (crc : Nat) (t : Toc) (k : Nat)    -- ... cut after `k` bytes (crash, write error)
  | restart                                      -- a new process: `TocCache(rw_cache=d)`
  | unlink (crc : Nat)                           -- the file of `crc` is removed behind the cache's back (directory cleaned)
  | block (crc : Nat) (g : Ghost)                -- ... or replaced by something `open` cannot read (directory, dangling
                                                 --     link, no permission)

/-- the file system, the live `TocCache`, and (ghost state for the statement) the table whose write was last STARTED
under each checksum -/
abbrev HSt := (FS × Cache) × (Nat → Option Toc)

def FS.unlink (fs : FS) (p : Path) : FS :=
  { fs with files := fs.files.filter (fun f => f.1 ≠ p), ghosts := fs.ghosts.filter (fun g => g.1 ≠ p) }

def setH (h : Nat → Option Toc) (crc : Nat) (t : Toc) : Nat → Option Toc := fun x => if x = crc then some t else h x

def applyOp (d : Path) (s : HSt) : Op → HSt
  | .insert crc t =>
    (s.1.2.insert s.1.1 crc t, if (s.1.1.openW d (storedName d crc)).isSome then setH s.2 crc t else s.2)
  | .insertCut crc t k =>
    (s.1.2.insertCut s.1.1 crc t k, if (s.1.1.openW d (storedName d crc)).isSome then setH s.2 crc t else s.2)
  | .restart =>
    match Cache.init s.1.1 none (some d) with
    | .ok r => (r, s.2)
    | .error _ => s
  | .unlink crc => ((s.1.1.unlink (storedName d crc), s.1.2), s.2)
  | .block crc g =>
    (({ s.1.1.unlink (storedName d crc) with ghosts := (s.1.1.unlink (storedName d crc)).ghosts ++ [(storedName d crc, g)] }, s.1.2), s.2)

def applyOps (d : Path) (s : HSt) (ops : List Op) : HSt := ops.foldl (applyOp d) s

def Op.Ok : Op → Prop
  | .insert crc t => crc < 4294967296 ∧ TocValid t ∧ TocWF t
  | .insertCut crc t _ => crc < 4294967296 ∧ TocValid t ∧ TocWF t
  | .restart => True
  | .unlink crc => crc < 4294967296
  | .block crc _ => crc < 4294967296

structure Inv (d : Path) (h : Nat → Option Toc) (s : FS × Cache) : Prop where
  writable : s.1.canWrite d = true
  rw : s.2.rw = some d
  names : ∀ p ∈ s.1.files.map (·.1), ∃ crc, crc < 4294967296 ∧ p = storedName d crc
  gnames : ∀ p ∈ s.1.ghosts.map (·.1), ∃ crc, crc < 4294967296 ∧ p = storedName d crc
  content : ∀ crc, crc < 4294967296 → ∀ bs, s.1.read (storedName d crc) = some bs →
    ∃ t k, h crc = some t ∧ TocValid t ∧ TocWF t ∧ bs = (encodeText (printToc t)).take k
  cached : s.2.Stored

theorem storedName_inj {d : Path} {a b : Nat} (ha : a < 4294967296) (hb : b < 4294967296)
    (h : storedName d a = storedName d b) : a = b := by
  unfold storedName at h
  have h1 := List.append_cancel_left h
  simp only [List.cons.injEq, true_and] at h1
  exact hex08_inj ha hb (List.append_cancel_right h1)

theorem canWrite_write (fs : FS) (p : Path) (b : List UInt8) (d : Path) : (fs.write p b).canWrite d = fs.canWrite d := rfl

theorem inv_write (d : Path) (h : Nat → Option Toc) (fs : FS) (c c' : Cache) (crc : Nat) (t : Toc) (k : Nat)
    (hc : crc < 4294967296) (hv : TocValid t) (hwf : TocWF t) (hi : Inv d h (fs, c))
    (hrw : c'.rw = some d) (hst : c'.Stored) :
    Inv d (setH h crc t)
      (fs.write (storedName d crc) ((encodeText (printToc t)).take k), c') := by
  refine ⟨hi.writable, hrw, ?_, hi.gnames, ?_, hst⟩
  · intro p hp
    rcases (writeFile_paths fs.files _ _ p).1 hp with h1 | h1
    · exact ⟨crc, hc, h1⟩
    · exact hi.names p h1
  · intro crc' hc' bs hr
    simp only at hr
    rw [read_write] at hr
    by_cases he : storedName d crc' = storedName d crc
    · have := storedName_inj hc' hc he
      subst this
      simp only [if_true, Option.some.injEq] at hr
      exact ⟨t, k, by simp [setH], hv, hwf, hr.symm⟩
    · have hne : crc' ≠ crc := fun e => he (by rw [e])
      simp only [he, if_false] at hr
      obtain ⟨t', k', h1, h2, h3, h4⟩ := hi.content crc' hc' bs hr
      exact ⟨t', k', by simp [setH, hne, h1], h2, h3, h4⟩

theorem glob_subset (fs : FS) (d : Path) :
    ∀ p ∈ glob fs d, p ∈ fs.files.map (·.1) ∨ p ∈ fs.ghosts.map (·.1) := by
  intro p hp
  unfold glob at hp
  rcases List.mem_append.1 hp with h | h
  · obtain ⟨f, hf, hfp⟩ := List.mem_map.1 h
    exact Or.inl (List.mem_map.2 ⟨f, (List.mem_filter.1 hf).1, hfp⟩)
  · obtain ⟨f, hf, hfp⟩ := List.mem_map.1 h
    exact Or.inr (List.mem_map.2 ⟨f, (List.mem_filter.1 hf).1, hfp⟩)

theorem inv_openW (d : Path) (h : Nat → Option Toc) (fs fs' : FS) (c : Cache) (p : Path)
    (ho : fs.openW d p = some fs') (hi : Inv d h (fs, c)) : Inv d h (fs', c) := by
  obtain ⟨e1, e2, e3, _, e5⟩ := openW_some ho
  refine ⟨?_, hi.rw, ?_, ?_, ?_, hi.cached⟩
  · have := hi.writable; unfold FS.canWrite at this ⊢; simp only at this ⊢; rw [e2, e3]; exact this
  · simp only; rw [e1]; exact hi.names
  · intro q hq
    obtain ⟨g, hg, hgq⟩ := List.mem_map.1 hq
    exact hi.gnames q (List.mem_map.2 ⟨g, e5 g hg, hgq⟩)
  · intro crc hc bs hr
    simp only at hr
    rw [read_openW ho] at hr
    exact hi.content crc hc bs hr

theorem find_filter_ne (fl : List (Path × List UInt8)) (p q : Path) :
    ((fl.filter (fun f => f.1 ≠ p)).find? (·.1 = q)).map (·.2) = if q = p then none else (fl.find? (·.1 = q)).map (·.2) := by
  induction fl with
  | nil => simp
  | cons f r ih =>
    obtain ⟨f1, f2⟩ := f
    by_cases h1 : f1 = p
    · subst h1
      by_cases h2 : q = f1
      · subst h2; simp [List.filter_cons] at ih ⊢; first | exact ih | done
      · have : ¬ f1 = q := fun e => h2 e.symm
        simp [List.filter_cons, this, h2] at ih ⊢; exact ih
    · by_cases h2 : f1 = q
      · subst h2
        simp [List.filter_cons, h1]
      · simp only [List.filter_cons, h1, ne_eq, not_false_eq_true, decide_true, if_true, List.find?_cons, h2, decide_false]
        exact ih

theorem read_unlink (fs : FS) (p q : Path) : (fs.unlink p).read q = if q = p then none else fs.read q := by
  unfold FS.read FS.unlink
  exact find_filter_ne fs.files p q

theorem inv_unlink (d : Path) (h : Nat → Option Toc) (fs : FS) (c : Cache) (p : Path) (hi : Inv d h (fs, c)) :
    Inv d h (fs.unlink p, c) := by
  refine ⟨hi.writable, hi.rw, ?_, ?_, ?_, hi.cached⟩
  · intro q hq
    obtain ⟨f, hf, hfq⟩ := List.mem_map.1 hq
    exact hi.names q (List.mem_map.2 ⟨f, (List.mem_filter.1 hf).1, hfq⟩)
  · intro q hq
    obtain ⟨f, hf, hfq⟩ := List.mem_map.1 hq
    exact hi.gnames q (List.mem_map.2 ⟨f, (List.mem_filter.1 hf).1, hfq⟩)
  · intro crc hc bs hr
    simp only at hr
    rw [read_unlink] at hr
    split at hr
    · cases hr
    · exact hi.content crc hc bs hr

theorem inv_step (d : Path) (s : HSt) (op : Op) (hok : op.Ok) (hi : Inv d s.2 s.1) :
    Inv d (applyOp d s op).2 (applyOp d s op).1 := by
  obtain ⟨⟨fs, c⟩, h⟩ := s
  cases op with
  | insert crc t =>
    obtain ⟨hc, hv, hwf⟩ := hok
    simp only [applyOp]
    cases ho : fs.openW d (storedName d crc) with
    | none =>
      rw [insert_blocked fs c crc t d hi.rw ho]
      simpa using hi
    | some fs' =>
      rw [insert_ok fs fs' c crc t d hi.rw ho]
      have hi' := inv_openW d h fs fs' c _ ho hi
      have := inv_write d h fs' c { c with files := c.files ++ [storedName d crc] } crc t (encodeText (printToc t)).length hc hv hwf hi' hi.rw
        (by
          intro p hp
          rcases List.mem_append.1 hp with h1 | h1
          · exact hi.cached p h1
          · simp only [List.mem_singleton] at h1; exact ⟨d, crc, hc, h1⟩)
      rw [List.take_length] at this
      simpa using this
  | insertCut crc t k =>
    obtain ⟨hc, hv, hwf⟩ := hok
    simp only [applyOp]
    cases ho : fs.openW d (storedName d crc) with
    | none =>
      rw [insertCut_blocked fs c crc t k d hi.rw ho]
      simpa using hi
    | some fs' =>
      rw [insertCut_ok fs fs' c crc t k d hi.rw ho]
      have hi' := inv_openW d h fs fs' c _ ho hi
      simpa using inv_write d h fs' c c crc t k hc hv hwf hi' hi.rw hi.cached
  | restart =>
    simp only [applyOp]
    have hw := hi.writable
    unfold FS.canWrite at hw
    simp only [Bool.and_eq_true, Bool.not_eq_true'] at hw
    have e : Cache.init fs none (some d) = .ok (fs, ⟨glob fs d, some d⟩) := by
      unfold Cache.init
      simp only [List.nil_append, hw.2, if_true]
    rw [e]
    refine ⟨hi.writable, rfl, hi.names, hi.gnames, hi.content, ?_⟩
    intro p hp
    rcases glob_subset fs d p hp with h1 | h1
    · obtain ⟨crc, hc, hp'⟩ := hi.names p h1
      exact ⟨d, crc, hc, hp'⟩
    · obtain ⟨crc, hc, hp'⟩ := hi.gnames p h1
      exact ⟨d, crc, hc, hp'⟩
  | unlink crc =>
    simp only [applyOp]
    exact inv_unlink d h fs c _ hi
  | block crc g =>
    simp only [applyOp]
    have hu := inv_unlink d h fs c (storedName d crc) hi
    refine ⟨hu.writable, hu.rw, hu.names, ?_, hu.content, hu.cached⟩
    intro q hq
    simp only [List.map_append, List.map_cons, List.map_nil, List.mem_append, List.mem_singleton] at hq
    rcases hq with h1 | h1
    · exact hu.gnames q h1
    · exact ⟨crc, hok, h1⟩

theorem inv_ops (d : Path) (s : HSt) (ops : List Op) (hok : ∀ op ∈ ops, op.Ok)
    (hi : Inv d s.2 s.1) : Inv d (applyOps d s ops).2 (applyOps d s ops).1 := by
  induction ops generalizing s with
  | nil => exact hi
  | cons op r ih =>
    exact ih (applyOp d s op) (fun o ho => hok o (by simp [ho])) (inv_step d s op (hok op (by simp)) hi)

theorem read_mem (fs : FS) (p : Path) (bs : List UInt8) (h : fs.read p = some bs) : p ∈ fs.files.map (·.1) := by
  unfold FS.read at h
  cases hf : fs.files.find? (·.1 = p) with
  | none => rw [hf] at h; cases h
  | some f =>
    have hm := List.mem_of_find?_eq_some hf
    have hp := List.find?_some hf
    simp only [decide_eq_true_eq] at hp
    exact List.mem_map.2 ⟨f, hm, hp⟩

/-- under the invariant `fetch` returns `None` or the table last written under that checksum -/
theorem inv_fetch (d : Path) (h : Nat → Option Toc) (s : FS × Cache) (hi : Inv d h s) (crc : Nat)
    (hc : crc < 4294967296) :
    s.2.fetch s.1 crc = .ok .null ∨ ∃ t, h crc = some t ∧ s.2.fetch s.1 crc = .ok (tocVal t) := by
  cases hh : findHit s.2.files (hex08 crc ++ dotJson) with
  | none => left; exact fetch_no_hit s.1 s.2 crc hh
  | some p =>
    obtain ⟨hm, he⟩ := findHit_some hh
    obtain ⟨d', crc', hc', hp⟩ := hi.cached p hm
    subst hp
    have := storedName_endsWith hc' hc he
    subst this
    cases hr : s.1.read (storedName d' crc') with
    | none => left; exact fetch_vanished s.1 s.2 crc' _ hh hr
    | some bs =>
      obtain ⟨crc2, hc2, hp2⟩ := hi.names _ (read_mem s.1 _ bs hr)
      have hd : d' = d ∧ crc' = crc2 := by
        unfold storedName at hp2
        have := split_last_slash (hex08_no_slash crc') (hex08_no_slash crc2) hp2
        exact ⟨this.1, hex08_inj hc' hc2 (List.append_cancel_right this.2)⟩
      obtain ⟨hd1, hd2⟩ := hd
      subst hd1; subst hd2
      obtain ⟨t, k, h1, hv, hwf, h4⟩ := hi.content crc' hc' bs hr
      rw [fetch_of_hit s.1 s.2 crc' _ bs hh hr, h4]
      by_cases hk : k < (encodeText (printToc t)).length
      · left
        rw [loadBytes_truncated_all t hv hwf k hk]
      · rw [List.take_of_length_le (by omega), loadBytes_printToc t hv]
        rcases loadToc_cases t hwf with h5 | h5
        · right; exact ⟨t, h1, by rw [h5]⟩
        · left; rw [h5]

end CfVerif.C11

/-
Proofs/C11Json: lemmas about the JSON automaton of Model/C11.
Part 1: prefix behaviour (a document ending in `}` has no acceptable proper prefix).
Core Lean only.
-/
import CfVerif.Model.C11
namespace CfVerif.C11
open CfVerif

/-! ## `run` -/

theorem run_append (st : St) (a b : Str) :
    run st (a ++ b) = (match run st a with | .ok st' => run st' b | .error e => .error e) := by
  induction a generalizing st with
  | nil => rfl
  | cons c cs ih =>
    simp only [List.cons_append, run]
    cases step st c with
    | ok st' => exact ih st'
    | error e => rfl

theorem run_append_ok {st st' : St} {a b : Str} (h : run st (a ++ b) = .ok st') :
    ∃ st1, run st a = .ok st1 ∧ run st1 b = .ok st' := by
  rw [run_append] at h
  cases h1 : run st a with
  | ok st1 => rw [h1] at h; exact ⟨st1, rfl, h⟩
  | error e => rw [h1] at h; cases h

/-! ## states in which the document may end, and their closure -/

/-- the top-level value is complete, or is a number that may still grow -/
def TopDone (st : St) : Prop :=
  st.stack = [] ∧ ((∃ v, st.mode = .fin v) ∨ (∃ ph neg mag lex, st.mode = .num ph neg mag lex ∧ ph ≠ .sign))

theorem finish_ok_topDone {st : St} {v : JVal} (h : finish st = .ok v) : TopDone st := by
  obtain ⟨stack, mode⟩ := st
  unfold finish at h
  cases stack with
  | cons f s => simp at h
  | nil =>
    cases mode with
    | fin w => exact ⟨rfl, Or.inl ⟨w, rfl⟩⟩
    | num ph neg mag lex =>
      refine ⟨rfl, Or.inr ⟨ph, neg, mag, lex, rfl, ?_⟩⟩
      intro hp
      subst hp
      simp [numAccepting] at h
    | _ => simp at h

theorem finish_error_exc {st : St} {e : Err} (h : finish st = .error e) : e = .exc := by
  obtain ⟨stack, mode⟩ := st
  unfold finish at h
  split at h
  · cases h
  · split at h <;> cases h <;> rfl
  · cases h; rfl

theorem numNext_ne_sign {ph ph' : NumPh} {c : Nat} (h : numNext ph c = some ph') : ph' ≠ .sign := by
  intro e
  subst e
  unfold numNext at h
  cases ph <;> simp only at h <;> (repeat' split at h) <;> simp_all

theorem finStep_topDone {v : JVal} {c : Nat} {st' : St} (h : finStep v c = .ok st') : TopDone st' := by
  unfold finStep at h
  split at h
  · cases h; exact ⟨rfl, Or.inl ⟨v, rfl⟩⟩
  · cases h

theorem topDone_step {st st' : St} {c : Nat} (hd : TopDone st) (h : step st c = .ok st') : TopDone st' := by
  obtain ⟨stack, mode⟩ := st
  obtain ⟨hs, hm⟩ := hd
  simp only at hs hm
  subst hs
  rcases hm with ⟨v, hv⟩ | ⟨ph, neg, mag, lex, hm, hp⟩
  · subst hv
    simp only [step] at h
    exact finStep_topDone h
  · subst hm
    simp only [step] at h
    have : ¬ (ph = .sign ∧ c = 73) := fun x => hp x.1
    simp only [this, if_false] at h
    cases hn : numNext ph c with
    | some ph' =>
      rw [hn] at h
      simp only [Except.ok.injEq] at h
      subst h
      exact ⟨rfl, Or.inr ⟨ph', neg, _, _, rfl, numNext_ne_sign hn⟩⟩
    | none =>
      rw [hn] at h
      simp only at h
      split at h
      · simp only [deliver] at h
        exact finStep_topDone h
      · cases h

theorem numNext_brace (ph : NumPh) : numNext ph 125 = none := by
  cases ph <;> simp [numNext, isDigit]

theorem topDone_brace {st : St} (hd : TopDone st) : ∃ e, step st 125 = .error e := by
  obtain ⟨stack, mode⟩ := st
  obtain ⟨hs, hm⟩ := hd
  simp only at hs hm
  subst hs
  rcases hm with ⟨v, hv⟩ | ⟨ph, neg, mag, lex, hm, hp⟩
  · subst hv
    exact ⟨.exc, by simp [step, finStep, isWs]⟩
  · subst hm
    refine ⟨.exc, ?_⟩
    simp only [step, numNext_brace]
    have : ¬ (ph = .sign ∧ (125 : Nat) = 73) := fun x => hp x.1
    simp only [this, if_false]
    split
    · simp [deliver, finStep, isWs]
    · rfl

theorem topDone_run_brace {st : St} (hd : TopDone st) (q : Str) : ∃ e, run st (q ++ [125]) = .error e := by
  induction q generalizing st with
  | nil =>
    obtain ⟨e, he⟩ := topDone_brace hd
    exact ⟨e, by simp [run, he]⟩
  | cons c cs ih =>
    simp only [List.cons_append, run]
    cases hs : step st c with
    | ok st' => exact ih (topDone_step hd hs)
    | error e => exact ⟨e, rfl⟩

/-- **Prefix lemma.**  If a text ending in `}` is a complete JSON document for `loads`, then `loads` raises on every
proper prefix of it: the final `}` is the only position at which the top-level value is complete. -/
theorem loads_proper_prefix (t : Str) (v : JVal) (h : loads (t ++ [125]) = .ok v) (k : Nat) (hk : k ≤ t.length) :
    loads ((t ++ [125]).take k) = .error .exc := by
  have e1 : (t ++ [125]).take k = t.take k := by
    rw [List.take_append_of_le_length hk]
  have e2 : t ++ [125] = t.take k ++ (t.drop k ++ [125]) := by
    rw [← List.append_assoc, List.take_append_drop]
  rw [e1]
  unfold loads at h ⊢
  cases hr : run initSt (t ++ [125]) with
  | error e => rw [hr] at h; cases h
  | ok stf =>
    rw [e2] at hr
    obtain ⟨st1, h1, h2⟩ := run_append_ok hr
    rw [h1]
    simp only
    cases hf : finish st1 with
    | error e => rw [finish_error_exc hf]
    | ok w =>
      obtain ⟨e, he⟩ := topDone_run_brace (finish_ok_topDone hf) (t.drop k)
      rw [he] at h2
      cases h2

/-! ## Part 2: reading back what `printStr` wrote -/

/-- a Unicode scalar value (a code point that is not a surrogate) -/
def Scalar (c : Nat) : Prop := c < 0x110000 ∧ ¬ (0xD800 ≤ c ∧ c < 0xE000)
def ValidStr (s : Str) : Prop := ∀ c ∈ s, Scalar c

theorem hexVal_hexDigitL : ∀ d, d < 16 → hexVal (hexDigitL d) = some d := by decide

theorem run_cons (st : St) (c : Nat) (cs : Str) :
    run st (c :: cs) = (match step st c with | .ok st' => run st' cs | .error e => .error e) := rfl

theorem run_uni4 (stack : List Frame) (acc : Str) (hi : Option Nat) (x : Nat) (hx : x < 65536) (rest : Str) :
    run ⟨stack, .uni acc hi 0 0⟩
      (hexDigitL (x / 4096 % 16) :: hexDigitL (x / 256 % 16) :: hexDigitL (x / 16 % 16) :: hexDigitL (x % 16) :: rest)
    = run ⟨stack, uniDone acc hi x⟩ rest := by
  have h1 := hexVal_hexDigitL (x / 4096 % 16) (Nat.mod_lt _ (by decide))
  have h2 := hexVal_hexDigitL (x / 256 % 16) (Nat.mod_lt _ (by decide))
  have h3 := hexVal_hexDigitL (x / 16 % 16) (Nat.mod_lt _ (by decide))
  have h4 := hexVal_hexDigitL (x % 16) (Nat.mod_lt _ (by decide))
  have hv : (((0 * 16 + x / 4096 % 16) * 16 + x / 256 % 16) * 16 + x / 16 % 16) * 16 + x % 16 = x := by omega
  simp only [run_cons, step, h1, h2, h3, h4]
  simp only [show (0:Nat) < 3 from by decide, show (0 + 1 : Nat) < 3 from by decide, show (0 + 1 + 1 : Nat) < 3 from by decide,
    show ¬ (0 + 1 + 1 + 1 : Nat) < 3 from by decide, if_true, if_false, hv]

/-- `\uXXXX` read inside a string -/
theorem run_u4_str (stack : List Frame) (acc : Str) (x : Nat) (hx : x < 65536) (rest : Str) :
    run ⟨stack, .str acc⟩ (u4 x ++ rest) = run ⟨stack, uniDone acc none x⟩ rest := by
  simp only [u4, List.cons_append, List.nil_append]
  have e1 : step ⟨stack, .str acc⟩ 92 = .ok ⟨stack, .esc acc⟩ := by simp [step, strStep]
  have e2 : step ⟨stack, .esc acc⟩ 117 = .ok ⟨stack, .uni acc none 0 0⟩ := by simp [step, escStep]
  rw [run_cons, e1]; dsimp only
  rw [run_cons, e2]; dsimp only
  exact run_uni4 stack acc none x hx rest

/-- `\uXXXX` read right after a high surrogate -/
theorem run_u4_hi (stack : List Frame) (acc : Str) (h x : Nat) (hx : x < 65536) (rest : Str) :
    run ⟨stack, .hi acc h⟩ (u4 x ++ rest) = run ⟨stack, uniDone acc (some h) x⟩ rest := by
  simp only [u4, List.cons_append, List.nil_append]
  have e1 : step ⟨stack, .hi acc h⟩ 92 = .ok ⟨stack, .hiEsc acc h⟩ := by simp [step]
  have e2 : step ⟨stack, .hiEsc acc h⟩ 117 = .ok ⟨stack, .uni acc (some h) 0 0⟩ := by simp [step]
  rw [run_cons, e1]; dsimp only
  rw [run_cons, e2]; dsimp only
  exact run_uni4 stack acc (some h) x hx rest

theorem run_escChar (stack : List Frame) (acc : Str) (c : Nat) (hc : Scalar c) (rest : Str) :
    run ⟨stack, .str acc⟩ (escChar c ++ rest) = run ⟨stack, .str (acc ++ [c])⟩ rest := by
  obtain ⟨h1, h2⟩ := hc
  unfold escChar
  split
  · next h => subst h; simp [run_cons, step, strStep, escStep]
  split
  · next h => subst h; simp [run_cons, step, strStep, escStep]
  split
  · next h => subst h; simp [run_cons, step, strStep, escStep]
  split
  · next h => subst h; simp [run_cons, step, strStep, escStep]
  split
  · next h => subst h; simp [run_cons, step, strStep, escStep]
  split
  · next h => subst h; simp [run_cons, step, strStep, escStep]
  split
  · next h => subst h; simp [run_cons, step, strStep, escStep]
  split
  · next n1 n2 _ _ _ _ _ h =>
    have : ¬ c < 32 := by omega
    simp [run_cons, step, strStep, n1, n2, this]
  split
  · next h =>
    rw [run_u4_str stack acc c h rest]
    have : isHigh c = false := by simp [isHigh]; omega
    simp [uniDone, this]
  · next h =>
    have ha : (c - 0x10000) / 1024 < 1024 := by omega
    rw [List.append_assoc, run_u4_str stack acc _ (by omega)]
    have hh : isHigh (0xD800 + (c - 0x10000) / 1024) = true := by simp [isHigh]; omega
    simp only [uniDone, hh, if_true]
    rw [run_u4_hi stack acc _ _ (by omega)]
    have hl : isLow (0xDC00 + (c - 0x10000) % 1024) = true := by simp [isLow]; omega
    simp only [uniDone, hl, if_true]
    have : joinSurr (0xD800 + (c - 0x10000) / 1024) (0xDC00 + (c - 0x10000) % 1024) = c := by
      unfold joinSurr; omega
    rw [this]

theorem run_strBody (stack : List Frame) (acc s : Str) (hs : ValidStr s) (rest : Str) :
    run ⟨stack, .str acc⟩ (s.flatMap escChar ++ rest) = run ⟨stack, .str (acc ++ s)⟩ rest := by
  induction s generalizing acc with
  | nil => simp
  | cons c cs ih =>
    simp only [List.flatMap_cons, List.append_assoc]
    rw [run_escChar stack acc c (hs c (by simp))]
    rw [ih (acc ++ [c]) (fun x hx => hs x (by simp [hx]))]
    simp

def andThen (r : Except Err St) (rest : Str) : Except Err St :=
  match r with
  | .ok st => run st rest
  | .error e => .error e

/-- a string literal, read where a string may start -/
theorem run_printStr (stack : List Frame) (s : Str) (hs : ValidStr s) (rest : Str) :
    run ⟨stack, .str []⟩ (s.flatMap escChar ++ 34 :: rest) = andThen (endStr stack s) rest := by
  rw [run_strBody stack [] s hs]
  simp only [List.nil_append, run_cons, step, strStep, if_true]
  unfold andThen
  cases endStr stack s <;> rfl

/-! ## numbers -/

theorem natDigits_lt (n : Nat) (h : n < 10) : natDigits n = [48 + n] := by
  rw [natDigits]; simp [h]

theorem natDigits_ge (n : Nat) (h : ¬ n < 10) : natDigits n = natDigits (n / 10) ++ [48 + n % 10] := by
  rw [natDigits]; simp [h]

theorem step_int_digit (stack : List Frame) (neg : Bool) (mag : Nat) (lex : Str) (d : Nat) (hd : d < 10) :
    step ⟨stack, .num .int neg mag lex⟩ (48 + d) = .ok ⟨stack, .num .int neg (mag * 10 + d) (lex ++ [48 + d])⟩ := by
  have h1 : isDigit (48 + d) = true := by simp [isDigit]; omega
  have h2 : ¬ ((NumPh.int = NumPh.sign) ∧ 48 + d = 73) := by simp
  simp only [step, h2, if_false, numNext, h1, if_true]
  simp

theorem startValue_digit (stack : List Frame) (d : Nat) (h0 : 0 < d) (hd : d < 10) :
    startValue stack (48 + d) = .ok ⟨stack, .num .int false d [48 + d]⟩ := by
  have h1 : isDigit (48 + d) = true := by simp [isDigit]; omega
  unfold startValue
  simp only [h1, if_true]
  have : ∀ k, k < 48 ∨ k > 57 → ¬ (48 + d = k) := by intro k hk; omega
  simp [this]; omega

theorem step_sign_digit (stack : List Frame) (lex : Str) (d : Nat) (h0 : 0 < d) (hd : d < 10) :
    step ⟨stack, .num .sign true 0 lex⟩ (48 + d) = .ok ⟨stack, .num .int true d (lex ++ [48 + d])⟩ := by
  have h1 : isDigit (48 + d) = true := by simp [isDigit]; omega
  have h2 : ¬ ((NumPh.sign = NumPh.sign) ∧ 48 + d = 73) := by omega
  have h3 : ¬ 48 + d = 48 := by omega
  simp only [step, if_false, numNext, h1, h3, if_true]
  simp; omega

/-- the decimal digits of a positive number, read where a value may start -/
theorem run_natDigits_val (stack : List Frame) (n : Nat) (hn : 0 < n) (rest : Str) :
    run ⟨stack, .val⟩ (natDigits n ++ rest) = run ⟨stack, .num .int false n (natDigits n)⟩ rest := by
  induction n using Nat.strongRecOn generalizing rest with
  | _ n ih =>
    by_cases h : n < 10
    · rw [natDigits_lt n h]
      have hw : isWs (48 + n) = false := by simp [isWs]; omega
      simp only [List.singleton_append, run_cons, step, hw, startValue_digit stack n hn h]
      rfl
    · rw [natDigits_ge n h, List.append_assoc, ih (n / 10) (by omega) (by omega)]
      simp only [List.singleton_append, run_cons, step_int_digit stack false _ _ (n % 10) (Nat.mod_lt _ (by decide))]
      have : n / 10 * 10 + n % 10 = n := by omega
      rw [this]

/-- ... and after a minus sign -/
theorem run_natDigits_sign (stack : List Frame) (n : Nat) (hn : 0 < n) (rest : Str) :
    run ⟨stack, .num .sign true 0 [45]⟩ (natDigits n ++ rest) = run ⟨stack, .num .int true n (45 :: natDigits n)⟩ rest := by
  induction n using Nat.strongRecOn generalizing rest with
  | _ n ih =>
    by_cases h : n < 10
    · rw [natDigits_lt n h]
      simp only [List.singleton_append, run_cons, step_sign_digit stack [45] n hn h]
    · rw [natDigits_ge n h, List.append_assoc, ih (n / 10) (by omega) (by omega)]
      simp only [List.singleton_append, run_cons, step_int_digit stack true _ _ (n % 10) (Nat.mod_lt _ (by decide))]
      have : n / 10 * 10 + n % 10 = n := by omega
      rw [this]
      rfl

/-- `,` and newline: the characters that follow a value in what `printObj` writes -/
def Delim (c : Nat) : Prop := c = 44 ∨ c = 10

theorem numNext_delim (ph : NumPh) (c : Nat) (hc : Delim c) : numNext ph c = none := by
  rcases hc with h | h <;> subst h <;> cases ph <;> simp [numNext, isDigit]

/-- a complete number followed by a delimiter is delivered, then the delimiter is processed -/
theorem step_num_end (stack : List Frame) (ph : NumPh) (neg : Bool) (mag : Nat) (lex : Str) (c : Nat)
    (hc : Delim c) (ha : numAccepting ph = true) :
    step ⟨stack, .num ph neg mag lex⟩ c =
      (match deliver stack (numVal ph neg mag lex) with | .ok st => step st c | .error e => .error e) := by
  have h2 : ¬ (ph = .sign ∧ c = 73) := by rcases hc with h | h <;> omega
  simp only [step, h2, if_false, numNext_delim ph c hc, ha, if_true]
  cases stack with
  | nil => simp [deliver, step]
  | cons f s => cases f <;> simp [deliver, step]

/-! ## leaves -/

/-- a stack on which a value may be delivered (the top frame is not an object waiting for a key) -/
def ValStack : List Frame → Prop
  | .objK _ :: _ => False
  | _ => True

theorem endStr_valStack {stack : List Frame} (h : ValStack stack) (s : Str) : endStr stack s = deliver stack (.str s) := by
  unfold endStr
  cases stack with
  | nil => rfl
  | cons f r => cases f <;> first | rfl | exact absurd h (by simp [ValStack])

def Leaf.toVal : Leaf → JVal
  | .str s => .str s
  | .int i => .int i
  | .bool b => .bool b

def Leaf.Valid : Leaf → Prop
  | .str s => ValidStr s
  | _ => True

theorem ofString_rue : ofString "rue" = [114, 117, 101] := by decide
theorem ofString_alse : ofString "alse" = [97, 108, 115, 101] := by decide
theorem ofString_true : ofString "true" = [116, 114, 117, 101] := by decide
theorem ofString_false : ofString "false" = [102, 97, 108, 115, 101] := by decide

theorem delim_not_ws_comma : isWs 44 = false := by decide

theorem run_num_end (stack : List Frame) (ph : NumPh) (neg : Bool) (mag : Nat) (lex : Str) (c : Nat)
    (hc : Delim c) (ha : numAccepting ph = true) (rest : Str) :
    run ⟨stack, .num ph neg mag lex⟩ (c :: rest) = andThen (deliver stack (numVal ph neg mag lex)) (c :: rest) := by
  rw [run_cons, step_num_end stack ph neg mag lex c hc ha]
  generalize deliver stack (numVal ph neg mag lex) = r
  cases r <;> rfl

theorem run_lit (stack : List Frame) (l : Str) (v : JVal) (hl : l ≠ []) (rest : Str) :
    run ⟨stack, .lit l v⟩ (l ++ rest) = andThen (deliver stack v) rest := by
  induction l with
  | nil => exact absurd rfl hl
  | cons r rs ih =>
    by_cases h : rs = []
    · subst h
      simp only [List.singleton_append, run_cons, step, if_true]
      unfold andThen
      cases deliver stack v <;> rfl
    · have e : step ⟨stack, .lit (r :: rs) v⟩ r = .ok ⟨stack, .lit rs v⟩ := by simp [step, h]
      rw [List.cons_append, run_cons, e]; dsimp only
      exact ih h

/-- **leaf round trip**: a printed leaf followed by a delimiter is read back as the leaf's value -/
theorem run_printLeaf (l : Leaf) (hl : l.Valid) (lvl : Nat) (stack : List Frame) (hst : ValStack stack)
    (c : Nat) (hc : Delim c) (rest : Str) :
    run ⟨stack, .val⟩ (printLeaf lvl l ++ c :: rest) = andThen (deliver stack l.toVal) (c :: rest) := by
  cases l with
  | str s =>
    simp only [printLeaf, printStr, List.cons_append, List.append_assoc, List.singleton_append]
    have e1 : step ⟨stack, .val⟩ 34 = .ok ⟨stack, .str []⟩ := by simp [step, isWs, startValue]
    rw [run_cons, e1]; dsimp only
    rw [run_printStr stack s hl, endStr_valStack hst]
    rfl
  | bool b =>
    cases b with
    | true =>
      simp only [printLeaf, ofString_true, List.cons_append, List.nil_append]
      have e1 : step ⟨stack, .val⟩ 116 = .ok ⟨stack, .lit [114, 117, 101] (.bool true)⟩ := by
        simp [step, isWs, startValue, ofString_rue]
      rw [run_cons, e1]; dsimp only
      exact run_lit stack [114, 117, 101] (.bool true) (by simp) (c :: rest)
    | false =>
      simp only [printLeaf, ofString_false, List.cons_append, List.nil_append]
      have e1 : step ⟨stack, .val⟩ 102 = .ok ⟨stack, .lit [97, 108, 115, 101] (.bool false)⟩ := by
        simp [step, isWs, startValue, ofString_alse]
      rw [run_cons, e1]; dsimp only
      exact run_lit stack [97, 108, 115, 101] (.bool false) (by simp) (c :: rest)
  | int i =>
    simp only [printLeaf, Leaf.toVal]
    cases i with
    | ofNat n =>
      simp only [intDigits]
      by_cases hn : n = 0
      · subst hn
        rw [natDigits_lt 0 (by decide)]
        have e1 : step ⟨stack, .val⟩ 48 = .ok ⟨stack, .num .zero false 0 [48]⟩ := by simp [step, isWs, startValue]
        simp only [List.singleton_append, Nat.add_zero]
        rw [run_cons, e1]; dsimp only
        rw [run_num_end stack .zero false 0 [48] c hc rfl rest]
        rfl
      · rw [run_natDigits_val stack n (by omega)]
        rw [run_num_end stack .int false n _ c hc rfl rest]
        rfl
    | negSucc n =>
      simp only [intDigits, List.cons_append]
      have e1 : step ⟨stack, .val⟩ 45 = .ok ⟨stack, .num .sign true 0 [45]⟩ := by simp [step, isWs, startValue]
      rw [run_cons, e1]; dsimp only
      rw [run_natDigits_sign stack (n + 1) (by omega)]
      rw [run_num_end stack .int true (n + 1) _ c hc rfl rest]
      have : numVal .int true (n + 1) (45 :: natDigits (n + 1)) = .int (Int.negSucc n) := by
        simp only [numVal, if_true]
        congr 1
      rw [this]

/-! ## objects -/

/-- modes in which whitespace is skipped -/
def WsMode : Mode → Prop
  | .val | .arr0 | .obj0 | .key | .colon | .after => True
  | _ => False

theorem step_ws (stack : List Frame) (m : Mode) (hm : WsMode m) (c : Nat) (hc : isWs c = true) :
    step ⟨stack, m⟩ c = .ok ⟨stack, m⟩ := by
  cases m <;> simp only [WsMode] at hm <;> simp [step, afterStep, hc]

theorem run_spaces (stack : List Frame) (m : Mode) (hm : WsMode m) (n : Nat) (rest : Str) :
    run ⟨stack, m⟩ (List.replicate n 32 ++ rest) = run ⟨stack, m⟩ rest := by
  induction n with
  | zero => rfl
  | succ n ih =>
    rw [List.replicate_succ, List.cons_append, run_cons, step_ws stack m hm 32 (by decide)]
    exact ih

theorem run_nlIndent (stack : List Frame) (m : Mode) (hm : WsMode m) (lvl : Nat) (rest : Str) :
    run ⟨stack, m⟩ (nlIndent lvl ++ rest) = run ⟨stack, m⟩ rest := by
  unfold nlIndent
  rw [List.cons_append, run_cons, step_ws stack m hm 10 (by decide)]
  exact run_spaces stack m hm _ rest

/-- `"key": ` read where a key may start -/
theorem run_key (d : List (Str × JVal)) (stack : List Frame) (m : Mode) (hm : m = .obj0 ∨ m = .key)
    (k : Str) (hk : ValidStr k) (rest : Str) :
    run ⟨.objK d :: stack, m⟩ (printStr k ++ 58 :: 32 :: rest) = run ⟨.objV d k :: stack, .val⟩ rest := by
  have e1 : step ⟨.objK d :: stack, m⟩ 34 = .ok ⟨.objK d :: stack, .str []⟩ := by
    rcases hm with h | h <;> subst h <;> simp [step, isWs]
  have e2 : step ⟨.objV d k :: stack, .colon⟩ 58 = .ok ⟨.objV d k :: stack, .val⟩ := by simp [step, isWs]
  have e3 : step ⟨.objV d k :: stack, .val⟩ 32 = .ok ⟨.objV d k :: stack, .val⟩ := by simp [step, isWs]
  simp only [printStr, List.cons_append, List.append_assoc, List.singleton_append]
  rw [run_cons, e1]; dsimp only
  rw [run_printStr _ k hk]
  simp only [endStr, andThen, List.nil_append]
  rw [run_cons, e2]; dsimp only
  rw [run_cons, e3]

/-- what `json.loads` returns for the members of a printed dict: values loaded in order, `d[k] = v` -/
def loadMembers {α} (lv : α → Except Err JVal) : List (Str × α) → List (Str × JVal) → Except Err (List (Str × JVal))
  | [], d => .ok d
  | (k, a) :: r, d =>
    match lv a with
    | .ok v => loadMembers lv r (dictSet d k v)
    | .error e => .error e

/-- ... and for the dict: the object hook is applied to the finished dict -/
def loadObj {α} (lv : α → Except Err JVal) (ms : List (Str × α)) : Except Err JVal :=
  match loadMembers lv ms [] with
  | .ok d => hook d
  | .error e => .error e

/-- `pv` prints values that the automaton reads back as `lv` says (whenever a delimiter follows) -/
def ReadsBack {α} (pv : Nat → α → Str) (lv : α → Except Err JVal) (P : α → Prop) : Prop :=
  ∀ a, P a → ∀ lvl stack, ValStack stack → ∀ c, Delim c → ∀ rest,
    run ⟨stack, .val⟩ (pv lvl a ++ c :: rest) =
      match lv a with
      | .ok v => andThen (deliver stack v) (c :: rest)
      | .error e => .error e

def MembersOk {α} (P : α → Prop) (ms : List (Str × α)) : Prop := ∀ m ∈ ms, ValidStr m.1 ∧ P m.2

theorem run_printMembers {α} {pv : Nat → α → Str} {lv : α → Except Err JVal} {P : α → Prop}
    (hrb : ReadsBack pv lv P) (lvl : Nat) (ms : List (Str × α)) (hne : ms ≠ []) (hms : MembersOk P ms)
    (d : List (Str × JVal)) (stack : List Frame) (m : Mode) (hm : m = .obj0 ∨ m = .key) (rest : Str) :
    run ⟨.objK d :: stack, m⟩ (printMembers pv lvl ms ++ 10 :: rest) =
      match loadMembers lv ms d with
      | .ok d' => run ⟨.objK d' :: stack, .after⟩ (10 :: rest)
      | .error e => .error e := by
  induction ms generalizing d m with
  | nil => exact absurd rfl hne
  | cons x r ih =>
    obtain ⟨k, a⟩ := x
    have hk : ValidStr k := (hms (k, a) (by simp)).1
    have ha : P a := (hms (k, a) (by simp)).2
    cases r with
    | nil =>
      simp only [printMembers, List.append_assoc, List.cons_append, List.nil_append]
      rw [run_key d stack m hm k hk]
      rw [hrb a ha lvl (.objV d k :: stack) trivial 10 (Or.inr rfl)]
      simp only [loadMembers]
      cases lv a with
      | ok v => rfl
      | error e => rfl
    | cons y r' =>
      simp only [printMembers, List.append_assoc, List.cons_append, List.nil_append]
      rw [run_key d stack m hm k hk]
      rw [hrb a ha lvl (.objV d k :: stack) trivial 44 (Or.inl rfl)]
      simp only [loadMembers]
      cases lv a with
      | error e => rfl
      | ok v =>
        simp only [deliver, andThen]
        have e1 : step ⟨.objK (dictSet d k v) :: stack, .after⟩ 44 = .ok ⟨.objK (dictSet d k v) :: stack, .key⟩ := by
          simp [step, afterStep, isWs]
        rw [run_cons, e1]; dsimp only
        rw [run_nlIndent (.objK (dictSet d k v) :: stack) .key trivial]
        exact ih (by simp) (fun m hm => hms m (by simp [hm])) (dictSet d k v) .key (Or.inr rfl)

/-- **object round trip**: a printed dict is read back as `loadObj` says -/
theorem run_printObj {α} {pv : Nat → α → Str} {lv : α → Except Err JVal} {P : α → Prop}
    (hrb : ReadsBack pv lv P) (lvl : Nat) (ms : List (Str × α)) (hms : MembersOk P ms)
    (stack : List Frame) (rest : Str) :
    run ⟨stack, .val⟩ (printObj pv lvl ms ++ rest) =
      match loadObj lv ms with
      | .ok v => andThen (deliver stack v) rest
      | .error e => .error e := by
  have e1 : step ⟨stack, .val⟩ 123 = .ok ⟨.objK [] :: stack, .obj0⟩ := by simp [step, isWs, startValue]
  cases ms with
  | nil =>
    have e2 : step ⟨.objK [] :: stack, .obj0⟩ 125 = closeObj [] stack := by simp [step, isWs]
    simp only [printObj, List.cons_append, List.nil_append]
    rw [run_cons, e1]; dsimp only
    rw [run_cons, e2]
    simp only [loadObj, loadMembers, closeObj]
    cases hook [] with
    | error e => rfl
    | ok v => rfl
  | cons x r =>
    simp only [printObj, List.cons_append, List.append_assoc]
    rw [run_cons, e1]; dsimp only
    rw [run_nlIndent (.objK [] :: stack) .obj0 trivial]
    have := run_printMembers hrb (lvl + 1) (x :: r) (by simp) hms [] stack .obj0 (Or.inl rfl)
      (List.replicate (Gen.C11.indent * lvl) 32 ++ 125 :: rest)
    simp only [nlIndent, List.cons_append, List.nil_append] at this ⊢
    rw [this]
    simp only [loadObj]
    cases loadMembers lv (x :: r) [] with
    | error e => rfl
    | ok d' =>
      dsimp only
      rw [run_cons, step_ws (.objK d' :: stack) .after trivial 10 (by decide)]; dsimp only
      rw [run_spaces (.objK d' :: stack) .after trivial]
      have e2 : step ⟨.objK d' :: stack, .after⟩ 125 = closeObj d' stack := by simp [step, afterStep, isWs]
      rw [run_cons, e2]
      simp only [closeObj]
      cases hook d' with
      | error e => rfl
      | ok v => rfl

theorem readsBack_printObj {α} {pv : Nat → α → Str} {lv : α → Except Err JVal} {P : α → Prop}
    (hrb : ReadsBack pv lv P) : ReadsBack (printObj pv) (loadObj lv) (MembersOk P) := by
  intro ms hms lvl stack _ c _ rest
  exact run_printObj hrb lvl ms hms stack (c :: rest)

theorem readsBack_printLeaf : ReadsBack printLeaf (fun l => .ok l.toVal) Leaf.Valid := by
  intro l hl lvl stack hst c hc rest
  exact run_printLeaf l hl lvl stack hst c hc rest

/-! ## the table printer -/

def loadLeaf (l : Leaf) : Except Err JVal := .ok l.toVal
def loadElem (e : Elem) : Except Err JVal := loadObj loadLeaf (encoder e)
def loadGroup (g : List (Str × Elem)) : Except Err JVal := loadObj loadElem g
/-- what `json.loads(printToc t, object_hook=_decoder)` returns, by the round-trip lemmas -/
def loadToc (t : Toc) : Except Err JVal := loadObj loadGroup t

def Core.Valid (c : Core) : Prop := ValidStr c.group ∧ ValidStr c.name ∧ ValidStr c.ctype ∧ ValidStr c.pytype
def Elem.Valid (e : Elem) : Prop := e.core.Valid
def GroupValid (g : List (Str × Elem)) : Prop := ∀ m ∈ g, ValidStr m.1 ∧ m.2.Valid
def TocValid (t : Toc) : Prop := ∀ g ∈ t, ValidStr g.1 ∧ GroupValid g.2

instance (c : Nat) : Decidable (Scalar c) := by unfold Scalar; infer_instance
instance (s : Str) : Decidable (ValidStr s) := by unfold ValidStr; infer_instance

theorem encoderKeys_eq : Gen.C11.encoderKeys.map ofString =
    [ofString "__class__", ofString "ident", ofString "group", ofString "name", ofString "ctype", ofString "pytype", ofString "access"] := by decide
theorem encoderParamKeys_eq : Gen.C11.encoderParamKeys.map ofString = [ofString "extended"] := by decide

theorem k_class : ofString "__class__" = [95, 95, 99, 108, 97, 115, 115, 95, 95] := by decide
theorem k_ident : ofString "ident" = [105, 100, 101, 110, 116] := by decide
theorem k_group : ofString "group" = [103, 114, 111, 117, 112] := by decide
theorem k_name : ofString "name" = [110, 97, 109, 101] := by decide
theorem k_ctype : ofString "ctype" = [99, 116, 121, 112, 101] := by decide
theorem k_pytype : ofString "pytype" = [112, 121, 116, 121, 112, 101] := by decide
theorem k_access : ofString "access" = [97, 99, 99, 101, 115, 115] := by decide
theorem k_extended : ofString "extended" = [101, 120, 116, 101, 110, 100, 101, 100] := by decide
theorem kClass_eq : kClass = [95, 95, 99, 108, 97, 115, 115, 95, 95] := by decide
theorem clsName_log : clsName .log = [76, 111, 103, 84, 111, 99, 69, 108, 101, 109, 101, 110, 116] := by decide
theorem clsName_param : clsName .param = [80, 97, 114, 97, 109, 84, 111, 99, 69, 108, 101, 109, 101, 110, 116] := by decide
theorem decoderKeys_eq : Gen.C11.decoderKeys = ["ident", "group", "name", "ctype", "pytype", "access"] := by decide
theorem decoderParamKeys_eq : Gen.C11.decoderParamKeys = ["extended"] := by decide

theorem encoder_log (c : Core) : encoder (.log c) =
    [([95, 95, 99, 108, 97, 115, 115, 95, 95], .str (clsName .log)), ([105, 100, 101, 110, 116], .int c.ident),
     ([103, 114, 111, 117, 112], .str c.group), ([110, 97, 109, 101], .str c.name), ([99, 116, 121, 112, 101], .str c.ctype),
     ([112, 121, 116, 121, 112, 101], .str c.pytype), ([97, 99, 99, 101, 115, 115], .int c.access)] := by
  simp only [encoder, encoderKeys_eq, k_class, k_ident, k_group, k_name, k_ctype, k_pytype, k_access, Elem.core, Elem.cls]
  rfl

theorem encoder_param (c : Core) (x : Bool) : encoder (.param c x) =
    [([95, 95, 99, 108, 97, 115, 115, 95, 95], .str (clsName .param)), ([105, 100, 101, 110, 116], .int c.ident),
     ([103, 114, 111, 117, 112], .str c.group), ([110, 97, 109, 101], .str c.name), ([99, 116, 121, 112, 101], .str c.ctype),
     ([112, 121, 116, 121, 112, 101], .str c.pytype), ([97, 99, 99, 101, 115, 115], .int c.access),
     ([101, 120, 116, 101, 110, 100, 101, 100], .bool x)] := by
  simp only [encoder, encoderKeys_eq, encoderParamKeys_eq, k_class, k_ident, k_group, k_name, k_ctype, k_pytype, k_access,
    k_extended, Elem.core, Elem.cls]
  rfl

/-- **decoder ∘ encoder = id** on elements: what the hook rebuilds from the dict `_encoder` emitted -/
theorem loadElem_eq (e : Elem) : loadElem e = .ok e.toVal := by
  cases e with
  | log c =>
    simp only [loadElem, loadObj, encoder_log, loadMembers, loadLeaf, Leaf.toVal]
    simp only [dictSet, List.cons.injEq, Nat.reduceEqDiff, false_and, and_false, if_false]
    simp only [hook, kClass_eq, dictGet, if_true, clsName_log, decodeElem, decoderKeys_eq, getKey,
      k_ident, k_group, k_name, k_ctype, k_pytype, k_access]
    simp [dictGet, pyStr, Elem.toVal, bind, Except.bind, pure, Except.pure]
  | param c x =>
    simp only [loadElem, loadObj, encoder_param, loadMembers, loadLeaf, Leaf.toVal]
    simp only [dictSet, List.cons.injEq, Nat.reduceEqDiff, false_and, and_false, if_false]
    simp only [hook, kClass_eq, dictGet, if_true, clsName_log, clsName_param, decodeElem, decoderKeys_eq, decoderParamKeys_eq, getKey,
      k_ident, k_group, k_name, k_ctype, k_pytype, k_access, k_extended]
    simp [dictGet, pyStr, Elem.toVal, bind, Except.bind, pure, Except.pure]

/-! ## dicts built from duplicate-free member lists -/

def keys {α} (l : List (Str × α)) : List Str := l.map (·.1)

theorem dictSet_new (d : List (Str × JVal)) (k : Str) (v : JVal) (h : k ∉ keys d) : dictSet d k v = d ++ [(k, v)] := by
  induction d with
  | nil => rfl
  | cons x r ih =>
    obtain ⟨k', w⟩ := x
    simp only [keys, List.map_cons, List.mem_cons, not_or] at h
    have : ¬ k' = k := fun e => h.1 e.symm
    simp only [dictSet, this, if_false, List.cons_append]
    rw [ih h.2]

theorem dictGet_none (d : List (Str × JVal)) (k : Str) (h : k ∉ keys d) : dictGet d k = none := by
  induction d with
  | nil => rfl
  | cons x r ih =>
    obtain ⟨k', w⟩ := x
    simp only [keys, List.map_cons, List.mem_cons, not_or] at h
    have : ¬ k' = k := fun e => h.1 e.symm
    simp only [dictGet, this, if_false]
    exact ih h.2

theorem dictGet_mem {α} (f : α → JVal) (l : List (Str × α)) (k : Str) (h : k ∈ keys l) :
    ∃ a, dictGet (l.map fun m => (m.1, f m.2)) k = some (f a) := by
  induction l with
  | nil => cases h
  | cons x r ih =>
    obtain ⟨k', a⟩ := x
    by_cases e : k' = k
    · exact ⟨a, by simp [dictGet, e]⟩
    · simp only [keys, List.map_cons, List.mem_cons] at h
      rcases h with h | h
      · exact absurd h.symm e
      · obtain ⟨b, hb⟩ := ih h
        exact ⟨b, by simp [dictGet, e, hb]⟩

/-- loading members whose values all load, with fresh distinct keys, appends them in order -/
theorem loadMembers_all_ok {α} (lv : α → Except Err JVal) (f : α → JVal) (ms : List (Str × α))
    (hok : ∀ m ∈ ms, lv m.2 = .ok (f m.2)) (d : List (Str × JVal))
    (hnd : (keys ms).Nodup) (hdis : ∀ k ∈ keys ms, k ∉ keys d) :
    loadMembers lv ms d = .ok (d ++ ms.map fun m => (m.1, f m.2)) := by
  induction ms generalizing d with
  | nil => simp [loadMembers]
  | cons x r ih =>
    obtain ⟨k, a⟩ := x
    simp only [loadMembers, hok (k, a) (by simp)]
    simp only [keys, List.map_cons, List.nodup_cons] at hnd
    rw [dictSet_new d k (f a) (hdis k (by simp [keys]))]
    rw [ih (fun m hm => hok m (by simp [hm])) _ hnd.2]
    · simp
    · intro k' hk'
      simp only [keys, List.map_append, List.map_cons, List.map_nil, List.mem_append, List.mem_singleton, not_or]
      refine ⟨hdis k' (by simp [keys] at hk' ⊢; exact Or.inr hk'), ?_⟩
      intro e; subst e
      exact hnd.1 hk'

/-- a member that fails to load with `exc` makes the whole load fail with `exc` when the others load or fail the same way -/
theorem loadMembers_exc {α} (lv : α → Except Err JVal) (ms : List (Str × α))
    (hall : ∀ m ∈ ms, (∃ v, lv m.2 = .ok v) ∨ lv m.2 = .error .exc) (hbad : ∃ m ∈ ms, lv m.2 = .error .exc)
    (d : List (Str × JVal)) : loadMembers lv ms d = .error .exc := by
  induction ms generalizing d with
  | nil => obtain ⟨m, hm, _⟩ := hbad; cases hm
  | cons x r ih =>
    obtain ⟨k, a⟩ := x
    simp only [loadMembers]
    rcases hall (k, a) (by simp) with ⟨v, hv⟩ | he
    · rw [hv]
      simp only
      obtain ⟨m, hm, hme⟩ := hbad
      simp only [List.mem_cons] at hm
      rcases hm with hm | hm
      · subst hm; rw [hv] at hme; cases hme
      · exact ih (fun m' hm' => hall m' (by simp [hm'])) ⟨m, hm, hme⟩ _
    · rw [he]

/-! ## groups and tables -/

def groupVals (g : List (Str × Elem)) : List (Str × JVal) := g.map fun m => (m.1, m.2.toVal)

theorem groupVal_eq (g : List (Str × Elem)) : groupVal g = .obj (groupVals g) := by
  simp [groupVal, groupVals]

theorem loadGroup_plain (g : List (Str × Elem)) (hnd : (keys g).Nodup) (hc : kClass ∉ keys g) :
    loadGroup g = .ok (groupVal g) := by
  unfold loadGroup loadObj
  rw [loadMembers_all_ok loadElem Elem.toVal g (fun m _ => loadElem_eq m.2) [] hnd (by simp [keys])]
  simp only [List.nil_append, hook]
  have : kClass ∉ keys (g.map fun m => (m.1, m.2.toVal)) := by simpa [keys] using hc
  rw [dictGet_none _ _ this, groupVal_eq]
  rfl

theorem loadGroup_classKey (g : List (Str × Elem)) (hnd : (keys g).Nodup) (hc : kClass ∈ keys g) :
    loadGroup g = .error .exc := by
  unfold loadGroup loadObj
  rw [loadMembers_all_ok loadElem Elem.toVal g (fun m _ => loadElem_eq m.2) [] hnd (by simp [keys])]
  simp only [List.nil_append, hook]
  obtain ⟨e, he⟩ := dictGet_mem Elem.toVal g kClass hc
  rw [he]
  cases e <;> rfl

def TocWF (t : Toc) : Prop := (keys t).Nodup ∧ ∀ g ∈ t, (keys g.2).Nodup
def NoClassKey (t : Toc) : Prop := kClass ∉ keys t ∧ ∀ g ∈ t, kClass ∉ keys g.2

theorem tocVal_eq (t : Toc) : tocVal t = .obj (t.map fun m => (m.1, groupVal m.2)) := by
  simp [tocVal]

/-- a duplicate-free table without a `__class__` key loads as itself -/
theorem loadToc_plain (t : Toc) (hwf : TocWF t) (hc : NoClassKey t) : loadToc t = .ok (tocVal t) := by
  unfold loadToc loadObj
  rw [loadMembers_all_ok loadGroup groupVal t (fun m hm => loadGroup_plain m.2 (hwf.2 m hm) (hc.2 m hm)) [] hwf.1 (by simp [keys])]
  simp only [List.nil_append, hook]
  have : kClass ∉ keys (t.map fun m => (m.1, groupVal m.2)) := by simpa [keys] using hc.1
  rw [dictGet_none _ _ this, tocVal_eq]

/-- any duplicate-free table loads as itself or raises: never a different table, never outside the model -/
theorem loadToc_cases (t : Toc) (hwf : TocWF t) : loadToc t = .ok (tocVal t) ∨ loadToc t = .error .exc := by
  by_cases hg : ∀ g ∈ t, kClass ∉ keys g.2
  · by_cases ht : kClass ∈ keys t
    · right
      unfold loadToc loadObj
      rw [loadMembers_all_ok loadGroup groupVal t (fun m hm => loadGroup_plain m.2 (hwf.2 m hm) (hg m hm)) [] hwf.1 (by simp [keys])]
      simp only [List.nil_append, hook]
      obtain ⟨g, he⟩ := dictGet_mem groupVal t kClass ht
      rw [he, groupVal_eq]
    · left; exact loadToc_plain t hwf ⟨ht, hg⟩
  · right
    unfold loadToc loadObj
    rw [loadMembers_exc loadGroup t]
    · intro m hm
      by_cases h : kClass ∈ keys m.2
      · right; exact loadGroup_classKey m.2 (hwf.2 m hm) h
      · left; exact ⟨_, loadGroup_plain m.2 (hwf.2 m hm) h⟩
    · have : ∃ g ∈ t, kClass ∈ keys g.2 := by
        apply Classical.byContradiction
        intro hn
        exact hg fun g hgm hk => hn ⟨g, hgm, hk⟩
      obtain ⟨g, hgm, hk⟩ := this
      exact ⟨g, hgm, loadGroup_classKey g.2 (hwf.2 g hgm) hk⟩

/-! ## `loads ∘ printToc` -/

theorem encoder_membersOk (e : Elem) (he : e.Valid) : MembersOk Leaf.Valid (encoder e) := by
  obtain ⟨h1, h2, h3, h4⟩ := he
  cases e with
  | log c =>
    rw [encoder_log]
    intro m hm
    simp only [List.mem_cons, List.not_mem_nil, or_false] at hm
    rcases hm with h | h | h | h | h | h | h <;> subst h <;> refine ⟨by dsimp only; decide, ?_⟩ <;>
      first | exact h1 | exact h2 | exact h3 | exact h4 | trivial | (show ValidStr _; rw [clsName_log]; decide)
  | param c x =>
    rw [encoder_param]
    intro m hm
    simp only [List.mem_cons, List.not_mem_nil, or_false] at hm
    rcases hm with h | h | h | h | h | h | h | h <;> subst h <;> refine ⟨by dsimp only; decide, ?_⟩ <;>
      first | exact h1 | exact h2 | exact h3 | exact h4 | trivial | (show ValidStr _; rw [clsName_param]; decide)

theorem readsBack_printElem : ReadsBack printElem loadElem Elem.Valid := by
  intro e he lvl stack hst c hc rest
  exact readsBack_printObj readsBack_printLeaf (encoder e) (encoder_membersOk e he) lvl stack hst c hc rest

theorem readsBack_printGroup : ReadsBack printGroup loadGroup GroupValid := by
  intro g hg lvl stack hst c hc rest
  exact readsBack_printObj readsBack_printElem g hg lvl stack hst c hc rest

/-- **`json.loads(json.dumps(toc, indent, default=_encoder), object_hook=_decoder)`** is `loadToc toc` -/
theorem loads_printToc (t : Toc) (hv : TocValid t) : loads (printToc t) = loadToc t := by
  have h := run_printObj readsBack_printGroup 0 t hv [] []
  rw [List.append_nil] at h
  unfold loads printToc initSt
  rw [h]
  unfold loadToc
  cases loadObj loadGroup t with
  | error e => rfl
  | ok v => rfl

end CfVerif.C11

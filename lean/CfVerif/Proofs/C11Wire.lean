/-
Proofs/C11Wire: the checksum that keys the cache is the one the device announced, on both protocol generations.
Core Lean only.
-/
import CfVerif.Base.StructLemmas
import CfVerif.Proofs.C11Hist
namespace CfVerif.C11
open CfVerif

/-- what the firmware sends after the command byte (environment model): item count (one byte on the legacy protocol,
two on protocol ≥ 4) then the CRC-32 of the table, little-endian, possibly followed by further bytes -/
def infoPayload (v2 : Bool) (n crc : Nat) (extra : List UInt8) : List UInt8 :=
  leBytes (if v2 then 2 else 1) n ++ leBytes 4 crc ++ extra

theorem infoFmt_v2 : parseFmt! (infoFmt true) = [.H, .I] := by decide
theorem infoFmt_v1 : parseFmt! (infoFmt false) = [.B, .I] := by decide

theorem take_info (a b extra : List UInt8) (k : Nat) (h : (a ++ b).length = k) : (a ++ b ++ extra).take k = a ++ b := by
  rw [← h, List.take_left]

theorem decodeInfo_spec (v2 : Bool) (n crc : Nat) (extra : List UInt8)
    (hn : n < (if v2 then 65536 else 256)) (hc : crc < 4294967296) :
    decodeInfo v2 (infoPayload v2 n crc extra) = .ok (n, crc) := by
  cases v2 with
  | true =>
    simp only [if_true] at hn
    unfold decodeInfo infoPayload
    rw [infoFmt_v2]
    simp only [infoSize, if_true]
    rw [take_info _ _ _ 6 (by simp)]
    have hp : pack [.H, .I] [.int (n : Int), .int (crc : Int)] = .ok (leBytes 2 n ++ leBytes 4 crc) := by
      have h1 : packUnsigned 2 (n : Int) = .ok (leBytes 2 n) := by
        show packUnsigned 2 (Int.ofNat n) = _
        simp only [packUnsigned]; rw [if_pos (by omega)]
      have h2 : packUnsigned 4 (crc : Int) = .ok (leBytes 4 crc) := by
        show packUnsigned 4 (Int.ofNat crc) = _
        simp only [packUnsigned]; rw [if_pos (by omega)]
      simp [pack, packOne, h1, h2, bind, Except.bind, pure, Except.pure]
    rw [unpack_pack (by simp [canonVals, Val.canonFor]) hp]
    simp
  | false =>
    simp only [Bool.false_eq_true, if_false] at hn
    unfold decodeInfo infoPayload
    rw [infoFmt_v1]
    simp only [infoSize, Bool.false_eq_true, if_false]
    rw [take_info _ _ _ 5 (by simp)]
    have hp : pack [.B, .I] [.int (n : Int), .int (crc : Int)] = .ok (leBytes 1 n ++ leBytes 4 crc) := by
      have h1 : packUnsigned 1 (n : Int) = .ok (leBytes 1 n) := by
        show packUnsigned 1 (Int.ofNat n) = _
        simp only [packUnsigned]; rw [if_pos (by omega)]
      have h2 : packUnsigned 4 (crc : Int) = .ok (leBytes 4 crc) := by
        show packUnsigned 4 (Int.ofNat crc) = _
        simp only [packUnsigned]; rw [if_pos (by omega)]
      simp [pack, packOne, h1, h2, bind, Except.bind, pure, Except.pure]
    rw [unpack_pack (by simp [canonVals, Val.canonFor]) hp]
    simp

/-- **Generation independence.**  A fetcher of either protocol generation that receives the info reply of a device announcing
`n` items and checksum `crc` behaves exactly as `fetcherStep` on `(n, crc)`: the cache is consulted, and the table later
stored, under the checksum the device announced - the same number on both generations. -/
theorem info_packet_uses_announced_crc (w : World) (v2 : Bool) (n crc : Nat) (extra : List UInt8)
    (hn : n < (if v2 then 65536 else 256)) (hc : crc < 4294967296) :
    fetcherInfoPkt w v2 (infoPayload v2 n crc extra) = fetcherStep w (.info n crc) := by
  unfold fetcherInfoPkt
  rw [decodeInfo_spec v2 n crc extra hn hc]

/-- Two devices of whatever generations that announce different checksums never share a cache file: after the first
one's table is stored (by `insert` under its announced checksum) in an otherwise empty cache, the second one's info reply
is a miss and its download starts. -/
theorem other_crc_other_generation_is_miss (fs fs' : FS) (d : Path) (c1 c2 n2 : Nat) (t1 : Toc) (v2 : Bool)
    (extra : List UInt8) (f : Fetcher) (hs : f.state = .getInfo)
    (ho : fs.openW d (storedName d c1) = some fs') (h1 : c1 < 4294967296) (h2 : c2 < 4294967296) (hne : c1 ≠ c2)
    (hn : n2 < (if v2 then 65536 else 256)) (hpos : 0 < n2) :
    let s := (⟨[], some d⟩ : Cache).insert fs c1 t1
    fetcherInfoPkt ⟨s.1, s.2, f⟩ v2 (infoPayload v2 n2 c2 extra) =
      .ok (⟨s.1, s.2, { f with nbr := n2, crc := c2, state := .getElem, requested := 0 }⟩, [.request 0]) := by
  intro s
  rw [info_packet_uses_announced_crc _ v2 n2 c2 extra hn h2]
  have hs' : s = (fs'.write (storedName d c1) (encodeText (printToc t1)), ⟨[] ++ [storedName d c1], some d⟩) :=
    insert_ok fs fs' ⟨[], some d⟩ c1 t1 d rfl ho
  have hmiss : s.2.fetch s.1 c2 = .ok .null := by
    apply fetch_no_hit
    rw [hs']
    cases hh : findHit ([] ++ [storedName d c1]) (hex08 c2 ++ dotJson) with
    | none => rfl
    | some p =>
      obtain ⟨hm, he⟩ := findHit_some hh
      simp only [List.nil_append, List.mem_singleton] at hm
      subst hm
      exact absurd (storedName_endsWith h1 h2 he) hne
  exact fetcher_info_miss ⟨s.1, s.2, f⟩ n2 c2 hs .null hmiss rfl hpos

end CfVerif.C11

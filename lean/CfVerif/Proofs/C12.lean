/-
Proofs/C12: helper lemmas for the flashing theorems (Props/C12).
-/
import CfVerif.Base.StructLemmas
import CfVerif.Spec.C12
namespace CfVerif.C12
open CfVerif

variable {σ : Type}

/-- the size guard precedes every transmission -/
theorem refused_aux (P : Peer σ) (L : Link σ) (g : Geom) (image : List UInt8) (ov : Option Int) (term : List Bool)
    (hlen : 0 < image.length)
    (h : ((g.flashPages : Int) - effStart g ov) * g.pageSize < image.length) :
    internalFlash P L g image ov term = (L, .notEnoughSpace) := by
  unfold internalFlash
  have h1 : ¬ image.length = 0 := by omega
  have h2 : Gen.C12.guardRefuses image.length g.flashPages (effStart g ov) g.pageSize = true := by
    simp only [Gen.C12.guardRefuses, decide_eq_true_eq]
    exact h
  simp only [h1, if_false, h2, if_true]

end CfVerif.C12

/-
Proofs/C12: helper lemmas for the flashing theorems (Props/C12).  Core Lean only.
Part 1: facts about the regenerated constants, struct packing, `upload_buffer` against any peer,
the firmware-side decoder and the effect of load-buffer packets on the Spec target.
-/
import CfVerif.Base.StructLemmas
import CfVerif.Spec.C12
namespace CfVerif.C12
open CfVerif

variable {σ : Type}

/-! ### what the proofs use about Gen/C12 (each breaks the build when the source changes it) -/

theorem fmt_upload : parseFmt! Gen.C12.uploadFmt = [.B, .B, .H, .H] := by decide
theorem fmt_write : parseFmt! Gen.C12.writeFmt = [.B, .B, .H, .H, .H] := by decide
theorem fmt_reply : parseFmt! Gen.C12.replyFmt = [.B, .B] := by decide
theorem bootHdr_eq : bootHdr = 0xFF := by decide
theorem gen_uploadFull (c : Nat) : Gen.C12.uploadFull c = decide (c > Gen.C12.uploadFlushAt) := rfl
theorem gen_uploadNextAddr (i a : Nat) : Gen.C12.uploadNextAddr i a = i + a + 1 := rfl
theorem gen_uploadCmd : Gen.C12.uploadCmd = 0x14 ∧ Gen.C12.uploadCmd1 = 0x14 := by decide
theorem gen_uploadRoom : Gen.C12.uploadFlushAt + 1 + 6 ≤ 31 := by decide

/-! ### packing -/

theorem packU_nat (k n : Nat) (h : n < 256 ^ k) : packUnsigned k (n : Int) = .ok (leBytes k n) := by
  show (if n < 256 ^ k then _ else _) = _
  rw [if_pos h]

theorem pack_BBHH (t c p a : Nat) (ht : t < 256) (hc : c < 256) (hp : p < 65536) (ha : a < 65536) :
    pack [.B, .B, .H, .H] [.int t, .int c, .int p, .int a] =
      .ok ([UInt8.ofNat t, UInt8.ofNat c] ++ leBytes 2 p ++ leBytes 2 a) := by
  have e1 := packU_nat 1 t (by omega)
  have e2 := packU_nat 1 c (by omega)
  have e3 := packU_nat 2 p (by omega)
  have e4 := packU_nat 2 a (by omega)
  simp only [pack, packOne, e1, e2, e3, e4, bind, Except.bind, pure, Except.pure, leBytes]
  have h1 : t % 256 = t := by omega
  have h2 : c % 256 = c := by omega
  simp [h1, h2]

theorem pack_BBHHH (t c p a n : Nat) (ht : t < 256) (hc : c < 256) (hp : p < 65536) (ha : a < 65536)
    (hn : n < 65536) :
    pack [.B, .B, .H, .H, .H] [.int t, .int c, .int p, .int a, .int n] =
      .ok ([UInt8.ofNat t, UInt8.ofNat c] ++ leBytes 2 p ++ leBytes 2 a ++ leBytes 2 n) := by
  have e1 := packU_nat 1 t (by omega)
  have e2 := packU_nat 1 c (by omega)
  have e3 := packU_nat 2 p (by omega)
  have e4 := packU_nat 2 a (by omega)
  have e5 := packU_nat 2 n (by omega)
  simp only [pack, packOne, e1, e2, e3, e4, e5, bind, Except.bind, pure, Except.pure, leBytes]
  have h1 : t % 256 = t := by omega
  have h2 : c % 256 = c := by omega
  simp [h1, h2]

/-! ### `upload_buffer` against any peer -/

theorem sendAll_cons (P : Peer σ) (L : Link σ) (p : Pkt) (ps : List Pkt) :
    sendAll P L (p :: ps) = sendAll P (L.send P p) ps := rfl

theorem sendAll_append (P : Peer σ) (L : Link σ) (a b : List Pkt) :
    sendAll P L (a ++ b) = sendAll P (sendAll P L a) b := by
  simp [sendAll, List.foldl_append]

theorem sendAll_sent (P : Peer σ) (pkts : List Pkt) : ∀ L : Link σ, (sendAll P L pkts).sent = L.sent ++ pkts := by
  induction pkts with
  | nil => intro L; simp [sendAll]
  | cons p ps ih => intro L; rw [sendAll_cons, ih]; simp [Link.send]

/-- `upload_buffer` after the first header has been packed -/
def uploadRun (P : Peer σ) (tid : Int) (page address : Nat) (rest : List UInt8) (i count : Nat)
    (cur : List UInt8) (L : Link σ) : Link σ × Except PyErr Unit :=
  match uploadLoop P tid page address rest i count cur L with
  | (L1, .error e) => (L1, .error e)
  | (L1, .ok cur) => (L1.send P ⟨bootHdr, cur⟩, .ok ())

theorem loadData_ok (tid page addr : Nat) (ht : tid < 256) (hp : page < 65536) (ha : addr < 65536) :
    loadData tid 0x14 page addr = .ok ([UInt8.ofNat tid, 0x14] ++ leBytes 2 page ++ leBytes 2 addr) := by
  unfold loadData
  rw [fmt_upload]
  exact pack_BBHH tid 0x14 page addr ht (by decide) hp ha

theorem uploadRun_spec (P : Peer σ) (tid page address : Nat) (ht : tid < 256) (hp : page < 65536) :
    ∀ (rest pend : List UInt8) (i base : Nat) (L : Link σ),
      base + pend.length = address + i → pend.length ≤ Gen.C12.uploadFlushAt →
      base + pend.length + rest.length < 65536 →
      ∃ chunks : List (List UInt8), chunks.flatten = pend ++ rest ∧ chunks ≠ [] ∧
        (∀ c ∈ chunks, c.length ≤ Gen.C12.uploadFlushAt + 1) ∧
        (∀ c ∈ chunks.dropLast, c.length = Gen.C12.uploadFlushAt + 1) ∧
        (∀ c ∈ chunks.getLast?, c.length ≤ Gen.C12.uploadFlushAt) ∧
        uploadRun P tid page address rest i pend.length
          ([UInt8.ofNat tid, 0x14] ++ leBytes 2 page ++ leBytes 2 base ++ pend) L =
          (sendAll P L (loadPkts tid page base chunks), .ok ()) := by
  intro rest
  induction rest with
  | nil =>
    intro pend i base L _ hpl _
    refine ⟨[pend], by simp, by simp, ?_, by simp, by simpa using hpl, ?_⟩
    · intro c hc; simp at hc; subst hc; omega
    · simp [uploadRun, uploadLoop, loadPkts, sendAll, loadPkt, bootHdr_eq]
  | cons b rest ih =>
    intro pend i base L hbi hpl hfit
    simp only [List.length_cons] at hfit
    by_cases hc : pend.length + 1 > Gen.C12.uploadFlushAt
    · -- the packet is full: transmit it, start the next one at base + pend.length + 1
      obtain ⟨chunks, hfl, hne, hlen, hinit, hlast, hrun⟩ := ih [] (i + 1) (base + (pend ++ [b]).length)
        (L.send P ⟨bootHdr, [UInt8.ofNat tid, 0x14] ++ leBytes 2 page ++ leBytes 2 base ++ (pend ++ [b])⟩)
        (by simp; omega) (by simp) (by simp; omega)
      refine ⟨(pend ++ [b]) :: chunks, by simp [hfl], by simp, ?_, ?_, ?_, ?_⟩
      · intro c hc'
        simp only [List.mem_cons] at hc'
        rcases hc' with rfl | hc'
        · simp; omega
        · exact hlen c hc'
      · intro c hc'
        rw [List.dropLast_cons_of_ne_nil hne, List.mem_cons] at hc'
        rcases hc' with rfl | hc'
        · simp; omega
        · exact hinit c hc'
      · intro c hc'
        rw [List.getLast?_cons_of_ne_nil hne] at hc'
        exact hlast c hc'
      · have hld : loadData (tid : Int) Gen.C12.uploadCmd1 page (Gen.C12.uploadNextAddr i address) =
            .ok ([UInt8.ofNat tid, 0x14] ++ leBytes 2 page ++ leBytes 2 (base + (pend ++ [b]).length)) := by
          rw [gen_uploadCmd.2, gen_uploadNextAddr]
          have : i + address + 1 = base + (pend ++ [b]).length := by simp; omega
          rw [this]
          exact loadData_ok tid page _ ht hp (by simp; omega)
        unfold uploadRun at hrun ⊢
        unfold uploadLoop
        simp only [gen_uploadFull, hc, decide_true, if_true, hld]
        simp only [List.length_nil, List.append_nil] at hrun
        rw [loadPkts, sendAll_cons]
        simp only [List.append_assoc] at hrun ⊢
        rw [hrun]
        simp [loadPkt, bootHdr_eq]
    · have hc' : ¬ (pend.length + 1 > Gen.C12.uploadFlushAt) := hc
      obtain ⟨chunks, hfl, hne, hlen, hinit, hlast, hrun⟩ := ih (pend ++ [b]) (i + 1) base L
        (by simp; omega) (by simp; omega) (by simp; omega)
      refine ⟨chunks, by simp [hfl], hne, hlen, hinit, hlast, ?_⟩
      unfold uploadRun at hrun ⊢
      unfold uploadLoop
      simp only [gen_uploadFull, hc', decide_false, Bool.false_eq_true, if_false]
      simp only [List.length_append, List.length_cons, List.length_nil, List.append_assoc] at hrun ⊢
      exact hrun

/-- `upload_buffer` transmits `buff` as consecutive load-buffer packets of at most `uploadFlushAt + 1`
bytes at a running address, whatever the peer does. -/
theorem uploadBuffer_spec (P : Peer σ) (L : Link σ) (tid page address : Nat) (buff : List UInt8)
    (ht : tid < 256) (hp : page < 65536) (hfit : address + buff.length < 65536) :
    ∃ chunks : List (List UInt8), chunks.flatten = buff ∧ chunks ≠ [] ∧
      (∀ c ∈ chunks, c.length ≤ Gen.C12.uploadFlushAt + 1) ∧
      (∀ c ∈ chunks.dropLast, c.length = Gen.C12.uploadFlushAt + 1) ∧
      (∀ c ∈ chunks.getLast?, c.length ≤ Gen.C12.uploadFlushAt) ∧
      uploadBuffer P L tid page address buff = (sendAll P L (loadPkts tid page address chunks), .ok ()) := by
  obtain ⟨chunks, hfl, hne, hlen, hinit, hlast, hrun⟩ := uploadRun_spec P tid page address ht hp buff [] 0 address L
    (by simp) (by simp) (by simpa using hfit)
  refine ⟨chunks, by simpa using hfl, hne, hlen, hinit, hlast, ?_⟩
  unfold uploadRun at hrun
  unfold uploadBuffer
  rw [gen_uploadCmd.1, loadData_ok tid page address ht hp (by omega)]
  simp only [List.append_nil, List.length_nil] at hrun
  cases hu : uploadLoop P (↑tid) page address buff 0 0
      ([UInt8.ofNat tid, 0x14] ++ leBytes 2 page ++ leBytes 2 address) L with
  | mk L1 r =>
    rw [hu] at hrun
    cases r with
    | error e => simp at hrun
    | ok cur =>
      show (match uploadLoop P (↑tid) page address buff 0 0
          ([UInt8.ofNat tid, 0x14] ++ leBytes 2 page ++ leBytes 2 address) L with
        | (L1, Except.error e) => (L1, Except.error e)
        | (L1, Except.ok cur) => (Link.send P L1 { hdr := bootHdr, data := cur }, Except.ok ())) = _
      rw [hu]
      exact hrun

/-! ### the firmware-side decoder on well-formed packets -/

theorem le16_leBytes (p : Nat) (hp : p < 65536) :
    le16 (UInt8.ofNat (p % 256)) (UInt8.ofNat (p / 256 % 256)) = p := by
  simp only [le16, UInt8.toNat_ofNat_mod]
  omega

theorem decode_loadPkt (tid page addr : Nat) (bytes : List UInt8) (ht : tid < 256) (hp : page < 65536)
    (ha : addr < 65536) : decode tid (loadPkt tid page addr bytes) = some (.load page addr bytes) := by
  have h1 : (UInt8.ofNat tid).toNat = tid := by simp; omega
  simp [decode, loadPkt, leBytes, h1, le16_leBytes page hp, le16_leBytes addr ha]

theorem decode_writePkt (tid bp fp n : Nat) (ht : tid < 256) (hb : bp < 65536) (hf : fp < 65536)
    (hn : n < 65536) : decode tid (writePkt tid bp fp n) = some (.write bp fp n) := by
  have h1 : (UInt8.ofNat tid).toNat = tid := by simp; omega
  simp [decode, writePkt, leBytes, h1, le16_leBytes bp hb, le16_leBytes fp hf, le16_leBytes n hn]

/-! ### load-buffer packets on the Spec target -/

theorem Target.load_load (t : Target) (page a : Nat) (c r : List UInt8) :
    (t.load page a c).load page (a + c.length) r = t.load page a (c ++ r) := by
  unfold Target.load
  congr 1
  funext q o
  simp only [List.length_append, List.getD_eq_getElem?_getD]
  by_cases h1 : q = page ∧ a + c.length ≤ o ∧ o < a + c.length + r.length
  · rw [if_pos h1, if_pos (by omega)]
    rw [List.getElem?_append_right (by omega)]
    congr 2; omega
  · rw [if_neg h1]
    by_cases h2 : q = page ∧ a ≤ o ∧ o < a + c.length
    · rw [if_pos h2, if_pos (by omega)]
      rw [List.getElem?_append_left (by omega)]
    · rw [if_neg h2, if_neg (by omega)]

theorem Target.load_nil (t : Target) (page a : Nat) : t.load page a [] = t := by
  cases t with
  | mk buf flash =>
    unfold Target.load
    congr 1
    funext q o
    simp only [List.length_nil, Nat.add_zero]
    rw [if_neg (by omega)]

theorem send_load (tid page addr : Nat) (bytes : List UInt8) (L : Link Env) (ht : tid < 256)
    (hp : page < 65536) (ha : addr < 65536) :
    L.send (targetPeer tid) (loadPkt tid page addr bytes) =
      ⟨⟨L.st.tgt.load page addr bytes, L.st.script, L.st.lateQ⟩, L.inbox,
        L.sent ++ [loadPkt tid page addr bytes]⟩ := by
  simp [Link.send, targetPeer, decode_loadPkt tid page addr bytes ht hp ha]

theorem sendAll_loads (tid page : Nat) (ht : tid < 256) (hp : page < 65536) :
    ∀ (chunks : List (List UInt8)) (a : Nat) (L : Link Env), a + chunks.flatten.length < 65536 →
      sendAll (targetPeer tid) L (loadPkts tid page a chunks) =
        ⟨⟨L.st.tgt.load page a chunks.flatten, L.st.script, L.st.lateQ⟩, L.inbox,
          L.sent ++ loadPkts tid page a chunks⟩ := by
  intro chunks
  induction chunks with
  | nil => intro a L _; simp [sendAll, loadPkts, Target.load_nil]
  | cons c cs ih =>
    intro a L hfit
    simp only [List.flatten_cons, List.length_append] at hfit
    rw [loadPkts, sendAll_cons, send_load tid page a c L ht hp (by omega), ih _ _ (by show a + c.length + cs.flatten.length < 65536; omega)]
    simp [Target.load_load]

/-- the size guard precedes every transmission -/
theorem refused_aux (P : Peer σ) (L : Link σ) (g : Geom) (image : List UInt8) (ov : Option Int) (term : List Bool)
    (hlen : 0 < image.length)
    (h : ((g.flashPages : Int) - effStart g ov) * g.pageSize < image.length) :
    internalFlash P L g image ov term = (L, .notEnoughSpace) := by
  unfold internalFlash
  have h1 : ¬ image.length = 0 := by omega
  have h2 : Gen.C12.guardRefuses image.length g.flashPages (effStart g ov) g.pageSize = true := by
    simp only [Gen.C12.guardRefuses, decide_eq_true_eq]
    exact h
  simp only [h1, if_false, h2, if_true]

end CfVerif.C12

/-
Proofs/C12Abort: the run against the Spec environment with scripts free of unrelated traffic is EXACTLY the
reference run of Spec/C12 (`refRun`): same transmitted packets, same result.  Steps: the chunking of
`upload_buffer` made explicit, `write_flash` = `refFlush` (exact receive-queue tracking), induction over the
page loop.
-/
import CfVerif.Proofs.C12Flash
import CfVerif.Proofs.C12Retry
namespace CfVerif.C12
open CfVerif
variable {σ : Type}

theorem chunks_unique (k : Nat) : ∀ (cs : List (List UInt8)) (l : List UInt8) (f : Nat), cs ≠ [] →
    cs.flatten = l → (∀ c ∈ cs.dropLast, c.length = k + 1) → (∀ c ∈ cs.getLast?, c.length ≤ k) →
    l.length ≤ f → cs = chunksOf k f l := by
  intro cs
  induction cs with
  | nil => intro l f h; exact absurd rfl h
  | cons c rest ih =>
    intro l f _ hfl hinit hlast hf
    cases rest with
    | nil =>
      simp at hfl hlast
      subst hfl
      cases f with
      | zero => rfl
      | succ f => simp [chunksOf, hlast]
    | cons c2 cs =>
      have hc : c.length = k + 1 := hinit c (by simp [List.dropLast])
      simp only [List.flatten_cons] at hfl
      have hl : l.length = k + 1 + (c2 :: cs).flatten.length := by rw [← hfl]; simp [hc]
      cases f with
      | zero => omega
      | succ f =>
        have hnot : ¬ l.length ≤ k := by omega
        simp only [chunksOf, hnot, if_false]
        have htake : l.take (k + 1) = c := by rw [← hfl, ← hc]; simp
        have hdrop : l.drop (k + 1) = (c2 :: cs).flatten := by rw [← hfl, ← hc]; simp
        rw [htake, hdrop]
        congr 1
        apply ih _ f (by simp) rfl
        · intro x hx; exact hinit x (by rw [List.dropLast_cons_of_ne_nil (by simp)]; simp [hx])
        · intro x hx; exact hlast x (by rw [List.getLast?_cons_of_ne_nil (by simp)]; exact hx)
        · omega

/-- `upload_buffer` with the chunking made explicit -/
theorem uploadBuffer_chunks (P : Peer σ) (L : Link σ) (tid page address : Nat) (buff : List UInt8)
    (ht : tid < 256) (hp : page < 65536) (hfit : address + buff.length < 65536) :
    uploadBuffer P L tid page address buff =
      (sendAll P L (loadPkts tid page address (chunks Gen.C12.uploadFlushAt buff)), .ok ()) := by
  obtain ⟨cs, hfl, hne, _, hinit, hlast, hrun⟩ := uploadBuffer_spec P L tid page address buff ht hp hfit
  rw [hrun, chunks, ← chunks_unique Gen.C12.uploadFlushAt cs buff buff.length hne hfl hinit hlast (Nat.le_refl _)]


theorem wait_explicit (tid : Nat) (st : Env) (inbox sent : List Pkt) :
    (⟨st, inbox, sent⟩ : Link Env).wait (targetPeer tid) =
      match inbox with
      | [] => (⟨⟨st.tgt, st.script, []⟩, st.lateQ, sent⟩, none)
      | p :: rest => (⟨⟨st.tgt, st.script, []⟩, rest ++ st.lateQ, sent⟩, some p) := by
  cases inbox <;> simp [Link.wait, Link.poll, targetPeer]

theorem accepts_wfReply (tid : Nat) (st code : UInt8) : accepts tid (some (wfReply tid st code)) = true := by
  simp [accepts, wfReply]

theorem nextOutcome_clean (tid : Nat) (s : List Outcome) (h : ScriptClean tid s) :
    (nextOutcome tid s).1.Clean tid ∧ ScriptClean tid (nextOutcome tid s).2 := by
  cases s with
  | nil => exact ⟨fun p hp => ⟨1, 0, by cases hp; rfl⟩, fun _ h => by cases h⟩
  | cons o r => exact ⟨h o (by simp), fun x hx => h x (List.mem_cons_of_mem _ hx)⟩

theorem retryLoop_stop {σ : Type} (P : Peer σ) (tid : Nat) (ht : tid < 256) (pb tp pc : Int) (n : Nat) (r : Pkt)
    (L : Link σ) (hacc : accepts tid (some r) = true) :
    retryLoop P (tid : Int) pb tp pc n (some r) L = (L, .ok (n, some r)) := by
  cases n with
  | zero => simp [retryLoop, needRetry_eq tid ht]
  | succ n => simp [retryLoop, needRetry_eq tid ht, hacc]

theorem retryLoop_ref (tid bp fp cnt : Nat) (ht : tid < 256) (hb : bp < 65536) (hf : fp < 65536)
    (hn : cnt < 65536) :
    ∀ (n : Nat) (pending : Option Pkt) (L : Link Env), L.st.lateQ = [] → L.inbox = pending.toList →
      (∀ p ∈ pending, ∃ st code, p = wfReply tid st code) → ScriptClean tid L.st.script →
      ∃ L' pk', retryLoop (targetPeer tid) (tid : Int) (bp : Int) (fp : Int) (cnt : Int) n none L =
          (L', .ok (n - (refLoop tid n pending L.st.script).1, pk')) ∧
        (refLoop tid n pending L.st.script).1 ≤ n ∧
        L'.sent = L.sent ++ List.replicate (refLoop tid n pending L.st.script).1 (writePkt tid bp fp cnt) ∧
        L'.st.script = L.st.script.drop (refLoop tid n pending L.st.script).1 ∧ L'.st.lateQ = [] ∧
        (n - (refLoop tid n pending L.st.script).1 = 0 → (refLoop tid n pending L.st.script).2 = none) ∧
        (0 < n - (refLoop tid n pending L.st.script).1 →
          (refLoop tid n pending L.st.script).2 = pk' ∧ ∃ st code, pk' = some (wfReply tid st code)) := by
  intro n
  induction n with
  | zero =>
    intro pending L hlate _ _ _
    refine ⟨L, none, ?_, by simp [refLoop], by simp [refLoop], by simp [refLoop], hlate, by simp [refLoop], by simp [refLoop]⟩
    simp [retryLoop, needRetry_eq tid ht, refLoop]
  | succ n ih =>
    intro pending L hlate hinb hpacc hclean
    obtain ⟨st, inbox, sent⟩ := L
    simp only at hlate hinb hclean
    obtain ⟨hoc, hrc⟩ := nextOutcome_clean tid st.script hclean
    have e : (⟨bootHdr, (writePkt tid bp fp cnt).data⟩ : Pkt) = writePkt tid bp fp cnt := by
      simp [writePkt, bootHdr_eq]
    have hstep : retryLoop (targetPeer tid) (tid : Int) (bp : Int) (fp : Int) (cnt : Int) (n + 1) none ⟨st, inbox, sent⟩ =
        retryLoop (targetPeer tid) (tid : Int) (bp : Int) (fp : Int) (cnt : Int) n
          (((⟨st, inbox, sent⟩ : Link Env).send (targetPeer tid) (writePkt tid bp fp cnt)).wait (targetPeer tid)).2
          (((⟨st, inbox, sent⟩ : Link Env).send (targetPeer tid) (writePkt tid bp fp cnt)).wait (targetPeer tid)).1 := by
      simp only [retryLoop, needRetry_eq tid ht, accepts, Bool.not_false,
        writeData_ok tid bp fp cnt ht hb hf hn, e]
    rw [hstep, send_write tid bp fp cnt _ ht hb hf hn, wait_explicit]
    simp only [hlate, hinb, List.nil_append]
    generalize ho : (nextOutcome tid st.script).1 = o at hoc
    generalize hrest : (nextOutcome tid st.script).2 = rest at hrc
    have hdrop : ∀ a, rest.drop a = st.script.drop (a + 1) := by
      intro a
      have : rest = st.script.drop 1 := by rw [← hrest]; cases st.script <;> rfl
      rw [this, List.drop_drop, Nat.add_comm]
    cases pending with
    | some r =>
      obtain ⟨rs, rc, hrw⟩ := hpacc r rfl
      have hr : accepts tid (some r) = true := by rw [hrw]; exact accepts_wfReply tid rs rc
      simp only [Option.toList_some, List.cons_append, List.nil_append]
      rw [retryLoop_stop _ tid ht _ _ _ n r _ hr]
      have href : refLoop tid (n + 1) (some r) st.script = (1, if n = 0 then none else some r) := by
        simp only [refLoop]
      rw [href]
      refine ⟨_, some r, (by rw [Nat.add_sub_cancel]), by simp, by simp, ?_, rfl, ?_, ?_⟩
      · simp only; rw [← hdrop 0]; simp
      · simp only; intro h; have : n = 0 := by omega
        simp [this]
      · simp only; intro h; have : n ≠ 0 := by omega
        simp only [this, if_false, true_and]
        exact ⟨rs, rc, by rw [hrw]⟩
    | none =>
      simp only [Option.toList_none, List.nil_append]
      by_cases hl : o.late = true
      · -- the reply (if any) is late: this attempt times out, the reply is pending for the next one
        simp only [hl, if_true]
        have hacc' : ∀ p ∈ o.reply, ∃ st code, p = wfReply tid st code := fun p hp => hoc p hp
        obtain ⟨L', pk', hrun, hle, hsent, hscr, hlate', hz, hp⟩ := ih o.reply
          ⟨⟨if o.exec = true then st.tgt.writeFlash bp fp cnt else st.tgt, rest, []⟩, o.reply.toList,
            sent ++ [writePkt tid bp fp cnt]⟩ rfl rfl hacc' hrc
        simp only at hrun hle hsent hscr hz hp
        have href : refLoop tid (n + 1) none st.script =
            ((refLoop tid n o.reply rest).1 + 1, (refLoop tid n o.reply rest).2) := by
          simp only [refLoop, ho, hrest, hl, if_true]
        rw [href]
        simp only
        refine ⟨L', pk', ?_, by omega, ?_, ?_, hlate', ?_, ?_⟩
        · rw [hrun]; congr 3; omega
        · rw [hsent, List.replicate_succ]; simp
        · rw [hscr, hdrop]
        · intro h; exact hz (by omega)
        · intro h; exact hp (by omega)
      · simp only [hl, Bool.false_eq_true, if_false, List.append_nil]
        cases hrep : o.reply with
        | none =>
          simp only [Option.toList_none]
          obtain ⟨L', pk', hrun, hle, hsent, hscr, hlate', hz, hp⟩ := ih none
            ⟨⟨if o.exec = true then st.tgt.writeFlash bp fp cnt else st.tgt, rest, []⟩, [],
              sent ++ [writePkt tid bp fp cnt]⟩ rfl rfl (by intro p hp; cases hp) hrc
          simp only at hrun hle hsent hscr hz hp
          have href : refLoop tid (n + 1) none st.script =
              ((refLoop tid n none rest).1 + 1, (refLoop tid n none rest).2) := by
            simp only [refLoop, ho, hrest, hl, Bool.false_eq_true, if_false, hrep]
          rw [href]
          simp only
          refine ⟨L', pk', ?_, by omega, ?_, ?_, hlate', ?_, ?_⟩
          · rw [hrun]; congr 3; omega
          · rw [hsent, List.replicate_succ]; simp
          · rw [hscr, hdrop]
          · intro h; exact hz (by omega)
          · intro h; exact hp (by omega)
        | some r =>
          obtain ⟨rs, rc, hrw⟩ := hoc r hrep
          have hr : accepts tid (some r) = true := by rw [hrw]; exact accepts_wfReply tid rs rc
          simp only [Option.toList_some]
          rw [retryLoop_stop _ tid ht _ _ _ n r _ hr]
          have href : refLoop tid (n + 1) none st.script = (1, if n = 0 then none else some r) := by
            simp only [refLoop, ho, hl, Bool.false_eq_true, if_false, hrep]
          rw [href]
          refine ⟨_, some r, (by rw [Nat.add_sub_cancel]), by simp, by simp, ?_, rfl, ?_, ?_⟩
          · simp only; rw [← hdrop 0]; simp
          · simp only; intro h; have : n = 0 := by omega
            simp [this]
          · simp only; intro h; have : n ≠ 0 := by omega
            simp only [this, if_false, true_and]
            exact ⟨rs, rc, by rw [hrw]⟩


theorem writeFlash_ref (tid bp fp cnt : Nat) (ht : tid < 256) (hb : bp < 65536) (hf : fp < 65536)
    (hn : cnt < 65536) (L : Link Env) (hlate : L.st.lateQ = []) (hclean : ScriptClean tid L.st.script) :
    ∃ L', writeFlash (targetPeer tid) L (tid : Int) (bp : Int) (fp : Int) (cnt : Int) =
        (L', .ok ((refFlush tid (Gen.C12.retryInit + 1) bp fp cnt L.st.script).2.1,
                  (refFlush tid (Gen.C12.retryInit + 1) bp fp cnt L.st.script).2.2.1)) ∧
      L'.sent = L.sent ++ (refFlush tid (Gen.C12.retryInit + 1) bp fp cnt L.st.script).1 ∧
      L'.st.script = (refFlush tid (Gen.C12.retryInit + 1) bp fp cnt L.st.script).2.2.2 ∧
      L'.st.lateQ = [] ∧ ScriptClean tid L'.st.script := by
  obtain ⟨L', pk', hrun, hle, hsent, hscr, hlate', hz, hp⟩ := retryLoop_ref tid bp fp cnt ht hb hf hn
    (Gen.C12.retryInit + 1) none ⟨L.st, drain L.inbox, L.sent⟩ hlate (by simp [drain_eq])
    (by intro p hp; cases hp) hclean
  simp only at hrun hle hsent hscr hz hp
  have hcl' : ScriptClean tid L'.st.script := by
    rw [hscr]; intro o ho; exact hclean o (List.mem_of_mem_drop ho)
  unfold writeFlash
  dsimp only
  rw [hrun]
  simp only [refFlush]
  generalize hr : refLoop tid (Gen.C12.retryInit + 1) none L.st.script = r at hrun hle hsent hscr hz hp
  cases hm : Gen.C12.retryInit + 1 - r.1 with
  | zero =>
    have := hz hm
    simp only [this]
    exact ⟨L', rfl, hsent, hscr, hlate', hcl'⟩
  | succ m =>
    obtain ⟨h1, st, code, h2⟩ := hp (by omega)
    subst h2
    simp only [h1]
    refine ⟨L', ?_, hsent, hscr, hlate', hcl'⟩
    simp only [wfReply, List.getElem?_cons_succ, List.getElem?_cons_zero, List.getD_eq_getElem?_getD,
      Option.getD_some]
    congr 3
    rw [Bool.eq_iff_iff]
    simp only [beq_iff_eq, Option.some.injEq]
    constructor
    · intro h; exact UInt8.toNat_inj.mp h
    · intro h; rw [h]; rfl


theorem chunksOf_flatten (k : Nat) : ∀ (f : Nat) (l : List UInt8), (chunksOf k f l).flatten = l := by
  intro f
  induction f with
  | zero => intro l; simp [chunksOf]
  | succ f ih =>
    intro l
    unfold chunksOf
    by_cases h : l.length ≤ k
    · simp [h]
    · simp [h, ih]

/-- what `_internal_flash` does from a point of the page loop on -/
def runTail (P : Peer σ) (g : Geom) (image : List UInt8) (start : Int) (k i ctr : Nat) (term : List Bool)
    (L : Link σ) : Link σ × Res :=
  match pageLoop P g image start k i ctr term L with
  | (L1, .error r) => (L1, r)
  | (L1, .ok ctr) =>
    if Gen.C12.finalFlushDue ctr then
      match flushCall P L1 g (Gen.C12.finalFlushPage start image.length g.pageSize ctr) ctr with
      | (L2, .error r) => (L2, r)
      | (L2, .ok ()) => (L2, .done)
    else (L1, .done)

def resOf : Option Int → Res
  | none => .done
  | some c => .flashFailed c

theorem flushCall_ref {g : Geom} {tid S : Nat} {image : List UInt8} (hf : Fits g tid S image)
    (fp cnt : Nat) (hfp : fp < 65536) (hc : cnt < 65536) (L : Link Env) (hlate : L.st.lateQ = [])
    (hclean : ScriptClean tid L.st.script) :
    ∃ L', flushCall (targetPeer tid) L g (fp : Int) cnt =
        (L', if (refFlush tid (Gen.C12.retryInit + 1) 0 fp cnt L.st.script).2.1 then .ok ()
             else .error (.flashFailed (refFlush tid (Gen.C12.retryInit + 1) 0 fp cnt L.st.script).2.2.1)) ∧
      L'.sent = L.sent ++ (refFlush tid (Gen.C12.retryInit + 1) 0 fp cnt L.st.script).1 ∧
      L'.st.script = (refFlush tid (Gen.C12.retryInit + 1) 0 fp cnt L.st.script).2.2.2 ∧
      L'.st.lateQ = [] ∧ ScriptClean tid L'.st.script := by
  obtain ⟨L', hrun, hsent, hscr, hlate', hcl⟩ := writeFlash_ref tid 0 fp cnt hf.tid (by omega) hfp hc L hlate hclean
  refine ⟨L', ?_, hsent, hscr, hlate', hcl⟩
  unfold flushCall
  rw [hf.addr]
  have e0 : (0 : Int) = ((0 : Nat) : Int) := rfl
  rw [e0, hrun]
  cases (refFlush tid (Gen.C12.retryInit + 1) 0 fp cnt L.st.script).2.1 <;> rfl


theorem runTail_ref {g : Geom} {tid S : Nat} {image : List UInt8} (hf : Fits g tid S image) :
    ∀ (k i ctr : Nat) (L : Link Env), i + k = nPages image.length g.pageSize → ctr ≤ i → ctr < g.bufferPages →
      L.st.lateQ = [] → ScriptClean tid L.st.script →
      (runTail (targetPeer tid) g image (S : Int) k i ctr [] L).1.sent =
        L.sent ++ (refRun tid (Gen.C12.retryInit + 1) Gen.C12.uploadFlushAt g S image k i ctr L.st.script).1 ∧
      (runTail (targetPeer tid) g image (S : Int) k i ctr [] L).2 =
        resOf (refRun tid (Gen.C12.retryInit + 1) Gen.C12.uploadFlushAt g S image k i ctr L.st.script).2 := by
  have hroom := hf.room
  have hfpb := hf.fp
  have hbpb := hf.bp
  have hpsb := hf.ps
  intro k
  induction k with
  | zero =>
    intro i ctr L hik hci hcb hlate hclean
    have hin : i = nPages image.length g.pageSize := by omega
    unfold runTail refRun
    simp only [pageLoop]
    rw [gen_finalFlushDue]
    by_cases hc : ctr = 0
    · simp [hc, resOf]
    · have hc' : ctr > 0 := by omega
      simp only [hc', decide_true, if_true, hc, if_false]
      rw [gen_finalFlushPage S image.length g.pageSize ctr hf.len hc' (by omega), ← hin]
      obtain ⟨L', hrun, hsent, hscr, hlate', hcl⟩ := flushCall_ref hf (S + i - ctr) ctr (by omega) (by omega) L hlate hclean
      rw [hrun]
      cases hok : (refFlush tid (Gen.C12.retryInit + 1) 0 (S + i - ctr) ctr L.st.script).2.1
      · simp [hsent, resOf]
      · simp [hsent, resOf]
  | succ k ih =>
    intro i ctr L hik hci hcb hlate hclean
    have hcl := chunk_len image g.pageSize i
    have hup := uploadBuffer_chunks (targetPeer tid) L tid ctr 0 ((image.drop (i * g.pageSize)).take g.pageSize)
      hf.tid (by omega) (by omega)
    rw [sendAll_loads tid ctr hf.tid (by omega) _ 0 L
      (by rw [chunks, chunksOf_flatten]; omega)] at hup
    rw [← hf.addr] at hup
    generalize hL1 : (⟨⟨L.st.tgt.load ctr 0 (chunks Gen.C12.uploadFlushAt ((image.drop (i * g.pageSize)).take g.pageSize)).flatten,
          L.st.script, L.st.lateQ⟩, L.inbox,
          L.sent ++ loadPkts tid ctr 0 (chunks Gen.C12.uploadFlushAt ((image.drop (i * g.pageSize)).take g.pageSize))⟩ : Link Env) = L1 at hup
    have e1 : L1.st.script = L.st.script := by rw [← hL1]
    have e2 : L1.st.lateQ = [] := by rw [← hL1]; exact hlate
    have e3 : L1.sent = L.sent ++ loadPkts tid ctr 0 (chunks Gen.C12.uploadFlushAt ((image.drop (i * g.pageSize)).take g.pageSize)) := by
      rw [← hL1]
    have hstep : runTail (targetPeer tid) g image (S : Int) (k + 1) i ctr [] L =
        (if Gen.C12.flushDue (ctr + 1) g.bufferPages then
          match flushCall (targetPeer tid) L1 g (Gen.C12.flushPage (S : Int) i ((ctr + 1 : Nat) : Int)) (ctr + 1) with
          | (L2, .error r) => (L2, r)
          | (L2, .ok ()) => runTail (targetPeer tid) g image (S : Int) k (i + 1) 0 [] L2
        else runTail (targetPeer tid) g image (S : Int) k (i + 1) (ctr + 1) [] L1) := by
      unfold runTail
      rw [pageLoop]
      simp only [List.headD_nil, Bool.false_eq_true, if_false, chunk_eq, hup, List.tail_nil]
      by_cases hd : Gen.C12.flushDue (ctr + 1) g.bufferPages = true
      · simp only [hd, if_true]
        rcases flushCall (targetPeer tid) L1 g (Gen.C12.flushPage (S : Int) i ((ctr + 1 : Nat) : Int)) (ctr + 1) with ⟨L2, (r | u)⟩
        · rfl
        · rfl
      · simp only [hd, Bool.false_eq_true, if_false]
    rw [hstep, gen_flushDue]
    unfold refRun
    simp only [pageBytes]
    by_cases hd : ctr + 1 ≥ g.bufferPages
    · simp only [hd, decide_true, if_true]
      rw [gen_flushPage S i ctr hci]
      obtain ⟨L2, hrun, hsent, hscr, hlate2, hcl2⟩ := flushCall_ref hf (S + i - ctr) (ctr + 1) (by omega) (by omega)
        L1 e2 (by rw [e1]; exact hclean)
      rw [e1] at hrun hsent hscr
      rw [e3] at hsent
      rw [hrun]
      cases hok : (refFlush tid (Gen.C12.retryInit + 1) 0 (S + i - ctr) (ctr + 1) L.st.script).2.1
      · simp [hsent, resOf]
      · simp only [if_true]
        obtain ⟨h1, h2⟩ := ih (i + 1) 0 L2 (by omega) (by omega) hf.bp0 hlate2 hcl2
        rw [h1, h2, hsent, hscr]
        simp
    · simp only [hd, decide_false, Bool.false_eq_true, if_false]
      obtain ⟨h1, h2⟩ := ih (i + 1) (ctr + 1) L1 (by omega) (by omega) (by omega) e2 (by rw [e1]; exact hclean)
      rw [h1, h2, e1, e3]
      simp


theorem guard_passes {g : Geom} {tid S : Nat} {image : List UInt8} (hf : Fits g tid S image) :
    Gen.C12.guardRefuses image.length g.flashPages (S : Int) g.pageSize = false := by
  have hroom := hf.room
  simp only [Gen.C12.guardRefuses, decide_eq_false_iff_not, Int.not_lt]
  have h1 := nPages_mul_ge image.length g.pageSize hf.ps0
  have h2 : nPages image.length g.pageSize * g.pageSize ≤ (g.flashPages - S) * g.pageSize :=
    Nat.mul_le_mul_right _ (by omega)
  have h3 : ((g.flashPages : Int) - (S : Int)) = ((g.flashPages - S : Nat) : Int) := by omega
  rw [h3]
  exact_mod_cast Nat.le_trans h1 h2

theorem internalFlash_eq_runTail {g : Geom} {tid S : Nat} {image : List UInt8} (hf : Fits g tid S image)
    (P : Peer σ) (L : Link σ) (ov : Option Int) (hS : effStart g ov = (S : Int)) (term : List Bool) :
    internalFlash P L g image ov term =
      runTail P g image (S : Int) (nPages image.length g.pageSize) 0 0 term L := by
  have hlen := hf.len
  have hps0 := hf.ps0
  unfold internalFlash runTail
  rw [hS]
  simp only [show ¬ image.length = 0 by omega, if_false, guard_passes hf, Bool.false_eq_true,
    show ¬ g.pageSize = 0 by omega]
  rw [gen_pageCount image.length g.pageSize hlen]
  rcases pageLoop P g image (S : Int) (nPages image.length g.pageSize) 0 0 term L with ⟨L1, (r | c)⟩
  · rfl
  · simp only
    by_cases h : Gen.C12.finalFlushDue c = true
    · simp only [h, if_true]
      rcases flushCall P L1 g (Gen.C12.finalFlushPage (S : Int) image.length g.pageSize c) c with ⟨L2, (r | u)⟩ <;> rfl
    · simp only [h, Bool.false_eq_true, if_false]

theorem internalFlash_ref {g : Geom} {tid S : Nat} {image : List UInt8} (hf : Fits g tid S image)
    (ov : Option Int) (hS : effStart g ov = (S : Int)) (L : Link Env)
    (hlate : L.st.lateQ = []) (hclean : ScriptClean tid L.st.script) :
    (internalFlash (targetPeer tid) L g image ov []).1.sent =
      L.sent ++ (refRun tid (Gen.C12.retryInit + 1) Gen.C12.uploadFlushAt g S image
        (nPages image.length g.pageSize) 0 0 L.st.script).1 ∧
    (internalFlash (targetPeer tid) L g image ov []).2 =
      resOf (refRun tid (Gen.C12.retryInit + 1) Gen.C12.uploadFlushAt g S image
        (nPages image.length g.pageSize) 0 0 L.st.script).2 := by
  rw [internalFlash_eq_runTail hf _ L ov hS []]
  exact runTail_ref hf _ 0 0 L (by omega) (by omega) hf.bp0 hlate hclean

end CfVerif.C12

/-
Proofs/C12Alias: `upload_buffer` never touches a packet object after handing it to the link: against a link that
keeps the object and serialises it later (`ObjLink`) exactly the same data goes on the air as the value-level model
transmits (any peer), and with the same result.
-/
import CfVerif.Spec.C12
namespace CfVerif.C12
open CfVerif
variable {σ : Type}

theorem gen_uploadFresh : Gen.C12.uploadFreshPacket = true := rfl

/-- what is or will be on the air once the driver has drained its slot -/
def ObjLink.onAir (o : ObjLink) : List (List UInt8) := o.flush.air

/-- the object being filled is a live object whose data is `cur`, and it is not the one waiting in the slot -/
structure Own (o : ObjLink) (pk : Nat) (cur : List UInt8) : Prop where
  live : pk < o.heap.length
  data : o.heap.getD pk [] = cur
  notQueued : o.slot ≠ some pk
  slotLive : ∀ id, o.slot = some id → id < o.heap.length

theorem onAir_setData (o : ObjLink) (pk : Nat) (d : List UInt8) (h : o.slot ≠ some pk) :
    (o.setData pk d).onAir = o.onAir := by
  unfold ObjLink.onAir ObjLink.flush ObjLink.setData
  cases hs : o.slot with
  | none => simp
  | some id =>
    have hne : pk ≠ id := by intro e; apply h; rw [hs, e]
    simp only [List.getD_eq_getElem?_getD, List.getElem?_set_ne hne]

theorem own_setData {o pk cur} (h : Own o pk cur) (d : List UInt8) : Own (o.setData pk d) pk d := by
  refine ⟨by simp [ObjLink.setData]; exact h.live, ?_, h.notQueued, by intro id hid; simp [ObjLink.setData]; exact h.slotLive id hid⟩
  simp only [ObjLink.setData, List.getD_eq_getElem?_getD]
  rw [List.getElem?_set_self h.live]
  rfl

theorem onAir_send (o : ObjLink) (pk : Nat) : (o.send pk).onAir = o.onAir ++ [o.heap.getD pk []] := by
  unfold ObjLink.onAir ObjLink.send ObjLink.flush
  cases o.slot <;> simp

theorem own_alloc_after_send {o pk cur} (h : Own o pk cur) (d : List UInt8) :
    Own ((o.send pk).alloc d).1 ((o.send pk).alloc d).2 d ∧ ((o.send pk).alloc d).1.onAir = (o.send pk).onAir := by
  have hheap : (o.send pk).heap = o.heap := by unfold ObjLink.send ObjLink.flush; cases o.slot <;> rfl
  have hslot : (o.send pk).slot = some pk := rfl
  refine ⟨⟨?_, ?_, ?_, ?_⟩, ?_⟩
  · simp [ObjLink.alloc]
  · simp [ObjLink.alloc]
  · simp only [ObjLink.alloc, hslot, hheap]
    intro e; cases e
    exact absurd h.live (Nat.lt_irrefl _)
  · intro id hid
    simp only [ObjLink.alloc, hslot] at hid
    cases hid
    simp only [ObjLink.alloc, hheap, List.length_append, List.length_singleton]
    exact Nat.lt_succ_of_lt h.live
  · unfold ObjLink.onAir ObjLink.flush
    simp only [ObjLink.alloc, hslot, hheap, List.getD_eq_getElem?_getD]
    rw [List.getElem?_append_left h.live]

/-- the loop: same data on the air, same result, as the value-level loop against any peer -/
theorem uploadLoopObj_eq (P : Peer σ) (tid : Int) (page address : Nat) :
    ∀ (rest : List UInt8) (i count pk : Nat) (cur : List UInt8) (o : ObjLink) (L : Link σ), Own o pk cur →
      ∃ new : List (List UInt8),
        (uploadLoop P tid page address rest i count cur L).1.sent = L.sent ++ new.map (fun d => ⟨bootHdr, d⟩) ∧
        (uploadLoopObj tid page address rest i count pk o).1.onAir = o.onAir ++ new ∧
        (match (uploadLoop P tid page address rest i count cur L).2, (uploadLoopObj tid page address rest i count pk o).2 with
          | .ok cur', .ok pk' => Own (uploadLoopObj tid page address rest i count pk o).1 pk' cur'
          | .error e, .error e' => e = e'
          | _, _ => False) := by
  intro rest
  induction rest with
  | nil => intro i count pk cur o L h; exact ⟨[], by simp [uploadLoop], by simp [uploadLoopObj], h⟩
  | cons b rest ih =>
    intro i count pk cur o L h
    have h1 := own_setData h (cur ++ [b])
    have ha1 := onAir_setData o pk (cur ++ [b]) h.notQueued
    unfold uploadLoop uploadLoopObj
    simp only [h.data]
    by_cases hf : Gen.C12.uploadFull (count + 1) = true
    · simp only [hf, if_true, gen_uploadFresh]
      cases hld : loadData tid Gen.C12.uploadCmd1 page (Gen.C12.uploadNextAddr i address) with
      | error e =>
        refine ⟨[cur ++ [b]], by simp [Link.send], ?_, rfl⟩
        simp only
        rw [onAir_send, h1.data, ha1]
      | ok d =>
        simp only
        obtain ⟨hown, hair⟩ := own_alloc_after_send h1 d
        obtain ⟨new, e1, e2, e3⟩ := ih (i + 1) 0 _ d _ (L.send P ⟨bootHdr, cur ++ [b]⟩) hown
        refine ⟨(cur ++ [b]) :: new, ?_, ?_, e3⟩
        · rw [e1]; simp [Link.send]
        · rw [e2, hair, onAir_send, h1.data, ha1]; simp
    · simp only [hf, Bool.false_eq_true, if_false]
      obtain ⟨new, e1, e2, e3⟩ := ih (i + 1) (count + 1) pk (cur ++ [b]) _ L h1
      exact ⟨new, e1, by rw [e2, ha1], e3⟩

end CfVerif.C12

namespace CfVerif.C12
open CfVerif
variable {σ : Type}

theorem own_alloc {o : ObjLink} (hs : ∀ id, o.slot = some id → id < o.heap.length) (d : List UInt8) :
    Own (o.alloc d).1 (o.alloc d).2 d ∧ (o.alloc d).1.onAir = o.onAir := by
  refine ⟨⟨by simp [ObjLink.alloc], by simp [ObjLink.alloc], ?_, ?_⟩, ?_⟩
  · simp only [ObjLink.alloc]
    intro e
    exact absurd (hs _ e) (Nat.lt_irrefl _)
  · intro id hid
    simp only [ObjLink.alloc, List.length_append, List.length_singleton]
    exact Nat.lt_succ_of_lt (hs id hid)
  · unfold ObjLink.onAir ObjLink.flush
    simp only [ObjLink.alloc]
    cases hsl : o.slot with
    | none => rfl
    | some id =>
      simp only [List.getD_eq_getElem?_getD]
      rw [List.getElem?_append_left (hs id hsl)]

theorem uploadBufferObj_eq (P : Peer σ) (L : Link σ) (o : ObjLink) (tid : Int) (page address : Nat)
    (buff : List UInt8) (hs : ∀ id, o.slot = some id → id < o.heap.length) :
    ∃ new : List (List UInt8),
      (uploadBuffer P L tid page address buff).1.sent = L.sent ++ new.map (fun d => ⟨bootHdr, d⟩) ∧
      (uploadBufferObj o tid page address buff).1.onAir = o.onAir ++ new ∧
      (uploadBuffer P L tid page address buff).2 = (uploadBufferObj o tid page address buff).2 := by
  unfold uploadBuffer uploadBufferObj
  cases hld : loadData tid Gen.C12.uploadCmd page address with
  | error e => exact ⟨[], by simp, by simp, rfl⟩
  | ok d =>
    simp only
    obtain ⟨hown, hair⟩ := own_alloc hs d
    obtain ⟨new, e1, e2, e3⟩ := uploadLoopObj_eq P tid page address buff 0 0 _ d _ L hown
    generalize uploadLoop P tid page address buff 0 0 d L = r at e1 e3
    generalize uploadLoopObj tid page address buff 0 0 (o.alloc d).2 (o.alloc d).1 = q at e2 e3
    obtain ⟨L1, rr⟩ := r
    obtain ⟨o1, qq⟩ := q
    cases rr with
    | error e =>
      cases qq with
      | error e' => simp only at e3; exact ⟨new, e1, by rw [e2, hair], by rw [e3]⟩
      | ok pk' => simp at e3
    | ok cur' =>
      cases qq with
      | error e' => simp at e3
      | ok pk' =>
        simp only at e1 e2 e3
        refine ⟨new ++ [cur'], ?_, ?_, rfl⟩
        · simp [Link.send, e1]
        · rw [onAir_send, e3.data, e2, hair]; simp

end CfVerif.C12

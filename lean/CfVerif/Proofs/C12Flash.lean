/-
Proofs/C12Flash: `Bootloader._internal_flash` against the Spec environment: the page-loop invariant
("the last `ctr` pages are in buffers 0..ctr-1, all earlier pages are in flash at S+j, nothing outside
[S, S+n) was touched, every transmitted command is within bounds") and its consequences.
-/
import CfVerif.Proofs.C12Write
namespace CfVerif.C12
open CfVerif

/-! ### Gen expressions on casts -/

theorem gen_pageCount (len ps : Nat) (hl : 1 ≤ len) :
    (Gen.C12.pageCount (len : Int) (ps : Int)).toNat = nPages len ps := by
  unfold Gen.C12.pageCount nPages
  have : ((len : Int) - 1) = ((len - 1 : Nat) : Int) := by omega
  rw [this]
  show (((((len - 1) / ps : Nat) : Int)) + 1).toNat = _
  generalize (len - 1) / ps = q
  omega

theorem gen_flushPage (S i ctr : Nat) (h : ctr ≤ i) :
    Gen.C12.flushPage (S : Int) (i : Int) ((ctr + 1 : Nat) : Int) = ((S + i - ctr : Nat) : Int) := by
  unfold Gen.C12.flushPage
  omega

theorem gen_finalFlushPage (S len ps ctr : Nat) (hl : 1 ≤ len) (_h1 : 1 ≤ ctr) (h2 : ctr ≤ nPages len ps) :
    Gen.C12.finalFlushPage (S : Int) (len : Int) (ps : Int) (ctr : Int) = ((S + nPages len ps - ctr : Nat) : Int) := by
  unfold Gen.C12.finalFlushPage
  unfold nPages at h2 ⊢
  have : ((len : Int) - 1) = ((len - 1 : Nat) : Int) := by omega
  rw [this]
  show (S : Int) + (((len - 1) / ps : Nat) : Int) - ((ctr : Int) - 1) = _
  omega

theorem gen_lastPartial (i ps len : Nat) : Gen.C12.lastPartial i ps len = decide ((i + 1) * ps > len) := rfl
theorem gen_slices (i ps : Nat) : Gen.C12.slice0Lo i ps = i * ps ∧ Gen.C12.slice1Lo i ps = i * ps ∧
    Gen.C12.slice1Hi i ps = (i + 1) * ps := ⟨rfl, rfl, rfl⟩
theorem gen_flushDue (c b : Nat) : Gen.C12.flushDue c b = decide (c ≥ b) := rfl
theorem gen_finalFlushDue (c : Nat) : Gen.C12.finalFlushDue c = decide (c > 0) := rfl

/-- the bytes of page `i` as `_internal_flash` slices them -/
theorem chunk_eq (image : List UInt8) (ps i : Nat) :
    (if Gen.C12.lastPartial i ps image.length then image.drop (Gen.C12.slice0Lo i ps)
      else pySlice image (Gen.C12.slice1Lo i ps) (Gen.C12.slice1Hi i ps)) = (image.drop (i * ps)).take ps := by
  rw [gen_lastPartial, (gen_slices i ps).1, (gen_slices i ps).2.1, (gen_slices i ps).2.2]
  by_cases h : (i + 1) * ps > image.length
  · simp only [h, decide_true, if_true]
    rw [List.take_of_length_le]
    simp only [List.length_drop]
    rw [Nat.add_mul] at h
    omega
  · simp only [h, decide_false, Bool.false_eq_true, if_false, pySlice]
    rw [List.drop_take]
    congr 1
    rw [Nat.add_mul]; omega


/-- standing hypotheses: the geometry fits the 16-bit fields, the image fits the flash from page `S` -/
structure Fits (g : Geom) (tid S : Nat) (image : List UInt8) : Prop where
  addr : g.addr = (tid : Int)
  tid : tid < 256
  ps0 : 0 < g.pageSize
  ps : g.pageSize < 65536
  bp0 : 0 < g.bufferPages
  bp : g.bufferPages < 65536
  fp : g.flashPages < 65536
  len : 0 < image.length
  room : S + nPages image.length g.pageSize ≤ g.flashPages

/-- what holds of the link at every point of a run (and at every exit) -/
structure Safe (g : Geom) (tid S : Nat) (image : List UInt8) (F0 : Nat → Nat → UInt8) (sent0 : List Pkt)
    (L : Link Env) : Prop where
  late : L.st.lateQ = []
  gen : ScriptGenuine tid L.st.script
  out : ∀ q, (q < S ∨ S + nPages image.length g.pageSize ≤ q) → L.st.tgt.flash q = F0 q
  sent : ∃ new, L.sent = sent0 ++ new ∧ ∀ p ∈ new, CmdWithin g tid S (nPages image.length g.pageSize) p

/-- loop invariant: `i` pages handled, the last `ctr` of them are in buffers `0..ctr-1`, the others in flash -/
structure PInv (g : Geom) (tid S : Nat) (image : List UInt8) (F0 : Nat → Nat → UInt8) (sent0 : List Pkt)
    (i ctr : Nat) (L : Link Env) : Prop extends Safe g tid S image F0 sent0 L where
  ctr_le : ctr ≤ i
  i_le : i ≤ nPages image.length g.pageSize
  ctr_leB : ctr ≤ g.bufferPages
  buf : ∀ b < ctr, ∀ o < g.pageSize, (i - ctr + b) * g.pageSize + o < image.length →
          L.st.tgt.buf b o = image.getD ((i - ctr + b) * g.pageSize + o) 0
  flash : ∀ j < i - ctr, ∀ o < g.pageSize, j * g.pageSize + o < image.length →
          L.st.tgt.flash (S + j) o = image.getD (j * g.pageSize + o) 0

theorem loadPkts_within (g : Geom) (tid S n page : Nat) (ht : tid < 256) (hp : page < g.bufferPages)
    (hb : g.bufferPages < 65536) (hps : g.pageSize < 65536) :
    ∀ (chunks : List (List UInt8)) (a : Nat), a + chunks.flatten.length ≤ g.pageSize →
      (∀ c ∈ chunks, c.length ≤ Gen.C12.uploadFlushAt + 1) →
      ∀ p ∈ loadPkts tid page a chunks, CmdWithin g tid S n p := by
  intro chunks
  induction chunks with
  | nil => intro a _ _ p hp; simp [loadPkts] at hp
  | cons c cs ih =>
    intro a hfit hlen p hp'
    simp only [List.flatten_cons, List.length_append] at hfit
    simp only [loadPkts, List.mem_cons] at hp'
    rcases hp' with rfl | hp'
    · unfold CmdWithin
      rw [decode_loadPkt tid page a c ht (by omega) (by omega)]
      have := hlen c (by simp)
      have hr := gen_uploadRoom
      refine ⟨hp, by omega, ?_⟩
      simp [loadPkt]
      omega
    · exact ih (a + c.length) (by omega) (fun c' hc' => hlen c' (by simp [hc'])) p hp'

theorem chunk_len (image : List UInt8) (ps i : Nat) : ((image.drop (i * ps)).take ps).length ≤ ps := by
  simp; omega

theorem chunk_get (image : List UInt8) (ps i o : Nat) (ho : o < ps) (hlt : i * ps + o < image.length) :
    o < ((image.drop (i * ps)).take ps).length ∧
    ((image.drop (i * ps)).take ps).getD o 0 = image.getD (i * ps + o) 0 := by
  constructor
  · simp; omega
  · simp only [List.getD_eq_getElem?_getD]
    rw [List.getElem?_take_of_lt ho, List.getElem?_drop]


theorem upload_step {g : Geom} {tid S : Nat} {image : List UInt8} (hf : Fits g tid S image)
    (F0 : Nat → Nat → UInt8) (sent0 : List Pkt) (i ctr : Nat) (L : Link Env)
    (h : PInv g tid S image F0 sent0 i ctr L) (hi : i < nPages image.length g.pageSize)
    (hc : ctr < g.bufferPages) :
    ∃ L1, uploadBuffer (targetPeer tid) L g.addr ctr 0 ((image.drop (i * g.pageSize)).take g.pageSize) =
        (L1, .ok ()) ∧ PInv g tid S image F0 sent0 (i + 1) (ctr + 1) L1 := by
  have hcl := chunk_len image g.pageSize i
  have hps := hf.ps
  have hbp := hf.bp
  obtain ⟨chunks, hfl, _, hlen, _, _, hrun⟩ := uploadBuffer_spec (targetPeer tid) L tid ctr 0
    ((image.drop (i * g.pageSize)).take g.pageSize) hf.tid (by omega) (by omega)
  rw [sendAll_loads tid ctr hf.tid (by omega) chunks 0 L (by rw [hfl]; omega), hfl] at hrun
  rw [hf.addr]
  refine ⟨_, hrun, ?_⟩
  obtain ⟨new, hnew, hwithin⟩ := h.sent
  refine { late := h.late, gen := h.gen, out := h.out, sent := ?_, ctr_le := by have := h.ctr_le; omega,
           i_le := hi, ctr_leB := hc, buf := ?_, flash := ?_ }
  · refine ⟨new ++ loadPkts tid ctr 0 chunks, by simp [hnew], ?_⟩
    intro p hp
    rcases List.mem_append.mp hp with hp | hp
    · exact hwithin p hp
    · exact loadPkts_within g tid S _ ctr hf.tid hc hf.bp hf.ps chunks 0 (by rw [hfl]; omega) hlen p hp
  · intro b hb o ho hlt
    have hcle := h.ctr_le
    have e : i + 1 - (ctr + 1) + b = i - ctr + b := by omega
    rw [e] at hlt ⊢
    by_cases hbc : b = ctr
    · subst hbc
      have e2 : i - b + b = i := by omega
      rw [e2] at hlt ⊢
      obtain ⟨h1, h2⟩ := chunk_get image g.pageSize i o ho hlt
      simp only [Target.load]
      rw [if_pos ⟨trivial, by omega, by omega⟩]
      simpa using h2
    · simp only [Target.load]
      rw [if_neg (by intro hh; exact hbc hh.1)]
      exact h.buf b (by omega) o ho hlt
  · intro j hj o ho hlt
    exact h.flash j (by omega) o ho hlt


theorem flush_step {g : Geom} {tid S : Nat} {image : List UInt8} (hf : Fits g tid S image)
    (F0 : Nat → Nat → UInt8) (sent0 : List Pkt) (i c : Nat) (L : Link Env)
    (h : PInv g tid S image F0 sent0 i c L) (hc1 : 1 ≤ c) :
    ∃ L2 r, flushCall (targetPeer tid) L g ((S + i - c : Nat) : Int) c = (L2, r) ∧
      Safe g tid S image F0 sent0 L2 ∧ (r = .ok () → PInv g tid S image F0 sent0 i 0 L2) ∧
      r ≠ .error .done := by
  have hroom := hf.room
  have hfp := hf.fp
  have hbp := hf.bp
  have hcle := h.ctr_le
  have hile := h.i_le
  have hcb := h.ctr_leB
  obtain ⟨L2, r, k, hrun, hlate, hgen, htgt, hok, hk1, hk6, hsent, hscr⟩ :=
    writeFlash_env tid 0 (S + i - c) c hf.tid (by omega) (by omega) (by omega) L h.late h.gen
  have hrun' : writeFlash (targetPeer tid) L g.addr 0 ((S + i - c : Nat) : Int) (c : Int) = (L2, r) := by
    rw [hf.addr]; exact hrun
  -- flash outside the image range is untouched whichever way the command went
  have hout : ∀ q, (q < S ∨ S + nPages image.length g.pageSize ≤ q) → L2.st.tgt.flash q = F0 q := by
    intro q hq
    rcases htgt with e | e
    · rw [e]; exact h.out q hq
    · rw [e]
      funext o
      simp only [Target.writeFlash]
      rw [if_neg (by omega)]
      exact congrFun (h.out q hq) o
  have hsafe : Safe g tid S image F0 sent0 L2 := by
    obtain ⟨new, hnew, hwithin⟩ := h.sent
    refine ⟨hlate, hgen, hout, new ++ List.replicate k (writePkt tid 0 (S + i - c) c), by simp [hsent, hnew], ?_⟩
    intro p hp
    rcases List.mem_append.mp hp with hp | hp
    · exact hwithin p hp
    · rw [List.eq_of_mem_replicate hp]
      unfold CmdWithin
      rw [decode_writePkt tid 0 (S + i - c) c hf.tid (by omega) (by omega) (by omega)]
      exact ⟨by omega, by omega, by omega, hroom⟩
  unfold flushCall
  rw [hrun']
  rcases r with e | ⟨b, code⟩
  · exact ⟨L2, _, rfl, hsafe, (by intro hh; cases hh), (by intro hh; cases hh)⟩
  · cases b with
    | false => exact ⟨L2, _, rfl, hsafe, (by intro hh; cases hh), (by intro hh; cases hh)⟩
    | true =>
      refine ⟨L2, _, rfl, hsafe, fun _ => ?_, by intro hh; cases hh⟩
      have e := hok code rfl
      refine { toSafe := hsafe, ctr_le := by omega, i_le := hile, ctr_leB := by omega, buf := ?_, flash := ?_ }
      · intro b hb; omega
      · intro j hj o ho hlt
        rw [e]
        simp only [Target.writeFlash]
        by_cases hjc : j < i - c
        · rw [if_neg (by omega)]
          exact h.flash j hjc o ho hlt
        · rw [if_pos (by omega)]
          have hb := h.buf (S + j - (S + i - c)) (by omega) o ho
          have e2 : i - c + (S + j - (S + i - c)) = j := by omega
          rw [e2] at hb
          simpa using hb hlt


theorem pageLoop_inv {g : Geom} {tid S : Nat} {image : List UInt8} (hf : Fits g tid S image)
    (F0 : Nat → Nat → UInt8) (sent0 : List Pkt) :
    ∀ (k i ctr : Nat) (term : List Bool) (L : Link Env), i + k = nPages image.length g.pageSize →
      PInv g tid S image F0 sent0 i ctr L → ctr < g.bufferPages →
      ∃ L' r, pageLoop (targetPeer tid) g image (S : Int) k i ctr term L = (L', r) ∧
        Safe g tid S image F0 sent0 L' ∧
        (∀ ctr', r = .ok ctr' →
          PInv g tid S image F0 sent0 (nPages image.length g.pageSize) ctr' L' ∧ ctr' < g.bufferPages) ∧
        r ≠ .error .done := by
  intro k
  induction k with
  | zero =>
    intro i ctr term L hik h hc
    have : i = nPages image.length g.pageSize := by omega
    subst this
    exact ⟨L, _, rfl, h.toSafe, (by intro c hc'; cases hc'; exact ⟨h, hc⟩), (by intro hh; cases hh)⟩
  | succ k ih =>
    intro i ctr term L hik h hc
    unfold pageLoop
    by_cases ht : term.headD false = true
    · simp only [ht, if_true]
      exact ⟨L, _, rfl, h.toSafe, (by intro c hc'; cases hc'), (by intro hh; cases hh)⟩
    · simp only [ht, Bool.false_eq_true, if_false]
      rw [chunk_eq]
      obtain ⟨L1, hup, h1⟩ := upload_step hf F0 sent0 i ctr L h (by omega) hc
      simp only [hup]
      rw [gen_flushDue]
      by_cases hd : ctr + 1 ≥ g.bufferPages
      · simp only [hd, decide_true, if_true]
        rw [gen_flushPage S i ctr h.ctr_le]
        obtain ⟨L2, r, hfl, hsafe, hok, hnd⟩ := flush_step hf F0 sent0 (i + 1) (ctr + 1) L1 h1 (by omega)
        have e : S + (i + 1) - (ctr + 1) = S + i - ctr := by omega
        rw [e] at hfl
        rw [hfl]
        rcases r with e | u
        · exact ⟨L2, _, rfl, hsafe, (by intro c hc'; cases hc'), (by intro hh; cases hh; exact hnd rfl)⟩
        · exact ih (i + 1) 0 term.tail L2 (by omega) (hok rfl) hf.bp0
      · simp only [hd, decide_false, Bool.false_eq_true, if_false]
        exact ih (i + 1) (ctr + 1) term.tail L1 (by omega) h1 (by omega)


theorem nPages_mul_ge (len ps : Nat) (hps : 0 < ps) : len ≤ nPages len ps * ps := by
  unfold nPages
  have := Nat.div_add_mod (len - 1) ps
  have := Nat.mod_lt (len - 1) hps
  rw [Nat.add_mul, Nat.mul_comm ((len - 1) / ps) ps]
  omega

theorem content_of_inv {g : Geom} {tid S : Nat} {image : List UInt8} (hf : Fits g tid S image)
    {F0 : Nat → Nat → UInt8} {sent0 : List Pkt} {L : Link Env}
    (h : PInv g tid S image F0 sent0 (nPages image.length g.pageSize) 0 L) :
    ∀ k, k < image.length → L.st.tgt.flash (S + k / g.pageSize) (k % g.pageSize) = image.getD k 0 := by
  intro k hk
  have hj : k / g.pageSize < nPages image.length g.pageSize - 0 := by
    unfold nPages
    have : k / g.pageSize ≤ (image.length - 1) / g.pageSize := Nat.div_le_div_right (by omega)
    omega
  have ho := Nat.mod_lt k hf.ps0
  have e : k / g.pageSize * g.pageSize + k % g.pageSize = k := by
    rw [Nat.mul_comm]; exact Nat.div_add_mod k g.pageSize
  have := h.flash (k / g.pageSize) hj (k % g.pageSize) ho (by rw [e]; exact hk)
  rw [e] at this
  exact this

theorem internalFlash_env {g : Geom} {tid S : Nat} {image : List UInt8} (hf : Fits g tid S image)
    (ov : Option Int) (hS : effStart g ov = (S : Int)) (term : List Bool) (L : Link Env)
    (hlate : L.st.lateQ = []) (hgen : ScriptGenuine tid L.st.script) :
    ∃ L' r, internalFlash (targetPeer tid) L g image ov term = (L', r) ∧
      Safe g tid S image L.st.tgt.flash L.sent L' ∧
      (r = .done → ∀ k, k < image.length →
        L'.st.tgt.flash (S + k / g.pageSize) (k % g.pageSize) = image.getD k 0) := by
  have hlen := hf.len
  have hps0 := hf.ps0
  have hroom := hf.room
  have h0 : PInv g tid S image L.st.tgt.flash L.sent 0 0 L :=
    { late := hlate, gen := hgen, out := fun _ _ => rfl, sent := ⟨[], by simp, by simp⟩,
      ctr_le := by omega, i_le := by omega, ctr_leB := by omega,
      buf := by intro b hb; omega, flash := by intro j hj; omega }
  have hguard : Gen.C12.guardRefuses image.length g.flashPages (S : Int) g.pageSize = false := by
    simp only [Gen.C12.guardRefuses, decide_eq_false_iff_not, Int.not_lt]
    have h1 := nPages_mul_ge image.length g.pageSize hps0
    have h2 : nPages image.length g.pageSize * g.pageSize ≤ (g.flashPages - S) * g.pageSize :=
      Nat.mul_le_mul_right _ (by omega)
    have h3 : ((g.flashPages : Int) - (S : Int)) = ((g.flashPages - S : Nat) : Int) := by omega
    rw [h3]
    exact_mod_cast Nat.le_trans h1 h2
  unfold internalFlash
  rw [hS]
  simp only [show ¬ image.length = 0 by omega, if_false, hguard, Bool.false_eq_true,
    show ¬ g.pageSize = 0 by omega]
  rw [gen_pageCount image.length g.pageSize hlen]
  obtain ⟨L1, r, hrun, hsafe, hok, hnd⟩ := pageLoop_inv hf L.st.tgt.flash L.sent
    (nPages image.length g.pageSize) 0 0 term L (by omega) h0 hf.bp0
  rw [hrun]
  rcases r with e | ctr
  · exact ⟨L1, e, rfl, hsafe, by intro hh; subst hh; exact absurd rfl hnd⟩
  · obtain ⟨hinv, hcb⟩ := hok ctr rfl
    simp only
    rw [gen_finalFlushDue]
    by_cases hc : ctr > 0
    · simp only [hc, decide_true, if_true]
      rw [gen_finalFlushPage S image.length g.pageSize ctr hlen hc hinv.ctr_le]
      obtain ⟨L2, r2, hfl, hsafe2, hok2, hnd2⟩ := flush_step hf L.st.tgt.flash L.sent _ ctr L1 hinv hc
      rw [hfl]
      rcases r2 with e | u
      · exact ⟨L2, e, rfl, hsafe2, by intro hh; subst hh; exact absurd rfl hnd2⟩
      · exact ⟨L2, .done, rfl, hsafe2, fun _ => content_of_inv hf (hok2 rfl)⟩
    · simp only [hc, decide_false, Bool.false_eq_true, if_false]
      have : ctr = 0 := by omega
      subst this
      exact ⟨L1, .done, rfl, hsafe, fun _ => content_of_inv hf hinv⟩

end CfVerif.C12

namespace CfVerif.C12
open CfVerif

theorem loadPkts_hdr_len (tid page : Nat) :
    ∀ (chunks : List (List UInt8)), (∀ c ∈ chunks, c.length ≤ Gen.C12.uploadFlushAt + 1) → ∀ (a : Nat),
      ∀ p ∈ loadPkts tid page a chunks, p.hdr = 0xFF ∧ p.data.length ≤ 31 := by
  intro chunks
  induction chunks with
  | nil => intro _ a p hp; simp [loadPkts] at hp
  | cons c cs ih =>
    intro hlen a p hp
    simp only [loadPkts, List.mem_cons] at hp
    rcases hp with rfl | hp
    · have := hlen c (by simp)
      have hr := gen_uploadRoom
      refine ⟨rfl, ?_⟩
      simp [loadPkt]
      omega
    · exact ih (fun c' hc' => hlen c' (by simp [hc'])) (a + c.length) p hp

/-- the size guard passed ⇒ the image's pages fit in the flash from page `S` -/
theorem fits_of_guard (g : Geom) (tid S : Nat) (image : List UInt8) (haddr : g.addr = (tid : Int)) (htid : tid < 256)
    (hps : 0 < g.pageSize ∧ g.pageSize < 65536) (hbp : 0 < g.bufferPages ∧ g.bufferPages < 65536)
    (hfp : g.flashPages < 65536) (hlen : 0 < image.length)
    (hfit : (image.length : Int) ≤ ((g.flashPages : Int) - (S : Int)) * g.pageSize) : Fits g tid S image := by
  refine ⟨haddr, htid, hps.1, hps.2, hbp.1, hbp.2, hfp, hlen, ?_⟩
  -- S ≤ flashPages, else the right-hand side is ≤ 0 < len
  have hSF : S ≤ g.flashPages := by
    rcases Nat.lt_or_ge g.flashPages S with hc | hc
    · exfalso
      have h1 : ((g.flashPages : Int) - (S : Int)) ≤ 0 := by omega
      have h2 : ((g.flashPages : Int) - (S : Int)) * (g.pageSize : Int) ≤ 0 :=
        Int.mul_nonpos_of_nonpos_of_nonneg h1 (by omega)
      omega
    · exact hc
  have h3 : ((g.flashPages : Int) - (S : Int)) = ((g.flashPages - S : Nat) : Int) := by omega
  rw [h3] at hfit
  have hN : image.length ≤ (g.flashPages - S) * g.pageSize := by exact_mod_cast hfit
  have : (image.length - 1) / g.pageSize < g.flashPages - S := by
    rw [Nat.div_lt_iff_lt_mul hps.1]; omega
  unfold nPages
  omega

end CfVerif.C12

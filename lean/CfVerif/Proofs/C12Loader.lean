/-
Proofs/C12Loader: the geometry cache of the Cloader object.  (1) any predicate on links closed under
send / wait / drain survives `_internal_flash`; (2) the copter only emits genuine get-info replies, so every link
to it only ever queues genuine ones (`LinkOk`); (3) `_update_info` caches the geometry reported by the copter
of the loader's current connection; (4) over all histories of several loaders / connections / copters every cache
entry is the geometry of the copter recorded (ghost) as the one it was read from.
-/
import CfVerif.Proofs.C12Write
namespace CfVerif.C12
open CfVerif
variable {σ : Type}

/-- a predicate on links that every link primitive preserves -/
structure Closed (P : Peer σ) (Q : Link σ → Prop) : Prop where
  send : ∀ L p, Q L → Q (L.send P p)
  wait : ∀ L, Q L → Q (L.wait P).1
  drain : ∀ L : Link σ, Q L → Q { L with inbox := drain L.inbox }

theorem uploadLoop_closed {P : Peer σ} {Q : Link σ → Prop} (hc : Closed P Q) (tid : Int) (page address : Nat) :
    ∀ (rest : List UInt8) (i count : Nat) (cur : List UInt8) (L : Link σ), Q L →
      Q (uploadLoop P tid page address rest i count cur L).1 := by
  intro rest
  induction rest with
  | nil => intro i count cur L h; exact h
  | cons b rest ih =>
    intro i count cur L h
    unfold uploadLoop
    simp only
    split
    · split
      · exact hc.send _ _ h
      · exact ih _ _ _ _ (hc.send _ _ h)
    · exact ih _ _ _ _ h

theorem uploadBuffer_closed {P : Peer σ} {Q : Link σ → Prop} (hc : Closed P Q) (L : Link σ) (tid : Int)
    (page address : Nat) (buff : List UInt8) (h : Q L) : Q (uploadBuffer P L tid page address buff).1 := by
  unfold uploadBuffer
  split
  · exact h
  · rename_i d _
    have := uploadLoop_closed hc tid page address buff 0 0 d L h
    split
    · rename_i L1 e he; rw [he] at this; exact this
    · rename_i L1 cur he; rw [he] at this; exact hc.send _ _ this

theorem retryLoop_closed {P : Peer σ} {Q : Link σ → Prop} (hc : Closed P Q) (addr pb tp pc : Int) :
    ∀ (n : Nat) (pk : Option Pkt) (L : Link σ), Q L → Q (retryLoop P addr pb tp pc n pk L).1 := by
  intro n
  induction n with
  | zero => intro pk L h; unfold retryLoop; split <;> exact h
  | succ n ih =>
    intro pk L h
    unfold retryLoop
    split
    · exact h
    · exact h
    · split
      · exact h
      · exact ih _ _ (hc.wait _ (hc.send _ _ h))

theorem writeFlash_closed {P : Peer σ} {Q : Link σ → Prop} (hc : Closed P Q) (L : Link σ) (addr pb tp pc : Int)
    (h : Q L) : Q (writeFlash P L addr pb tp pc).1 := by
  have := retryLoop_closed hc addr pb tp pc (Gen.C12.retryInit + 1) none _ (hc.drain L h)
  unfold writeFlash
  dsimp only
  generalize retryLoop P addr pb tp pc (Gen.C12.retryInit + 1) none { L with inbox := drain L.inbox } = r at this
  obtain ⟨L1, res⟩ := r
  simp only at this
  rcases res with e | ⟨m, pk⟩
  · exact this
  · cases m with
    | zero => exact this
    | succ m =>
      cases pk with
      | none => exact this
      | some p =>
        simp only
        cases p.data[3]? with
        | none => exact this
        | some c =>
          cases p.data[2]? with
          | none => exact this
          | some s => exact this

theorem flushCall_closed {P : Peer σ} {Q : Link σ → Prop} (hc : Closed P Q) (L : Link σ) (g : Geom) (tp : Int)
    (ctr : Nat) (h : Q L) : Q (flushCall P L g tp ctr).1 := by
  have := writeFlash_closed hc L g.addr 0 tp ctr h
  unfold flushCall
  generalize writeFlash P L g.addr 0 tp ctr = r at this
  obtain ⟨L2, res⟩ := r
  rcases res with e | ⟨b, c⟩
  · exact this
  · cases b <;> exact this

theorem pageLoop_closed {P : Peer σ} {Q : Link σ → Prop} (hc : Closed P Q) (g : Geom) (image : List UInt8)
    (start : Int) : ∀ (k i ctr : Nat) (term : List Bool) (L : Link σ), Q L →
      Q (pageLoop P g image start k i ctr term L).1 := by
  intro k
  induction k with
  | zero => intro i ctr term L h; exact h
  | succ k ih =>
    intro i ctr term L h
    unfold pageLoop
    split
    · exact h
    · simp only
      generalize hch : (if Gen.C12.lastPartial i g.pageSize image.length = true then
          List.drop (Gen.C12.slice0Lo i g.pageSize) image
        else pySlice image (Gen.C12.slice1Lo i g.pageSize) (Gen.C12.slice1Hi i g.pageSize)) = chunk
      have hu := uploadBuffer_closed hc L g.addr ctr 0 chunk h
      generalize uploadBuffer P L g.addr ctr 0 chunk = r at hu
      obtain ⟨L1, res⟩ := r
      rcases res with e | u
      · exact hu
      · simp only
        split
        · have hf := flushCall_closed hc L1 g (Gen.C12.flushPage start i ((ctr + 1 : Nat) : Int)) (ctr + 1) hu
          generalize flushCall P L1 g (Gen.C12.flushPage start i ((ctr + 1 : Nat) : Int)) (ctr + 1) = r2 at hf
          obtain ⟨L2, res2⟩ := r2
          rcases res2 with e | u
          · exact hf
          · exact ih _ _ _ _ hf
        · exact ih _ _ _ _ hu

theorem internalFlash_closed {P : Peer σ} {Q : Link σ → Prop} (hc : Closed P Q) (L : Link σ) (g : Geom)
    (image : List UInt8) (ov : Option Int) (term : List Bool) (h : Q L) :
    Q (internalFlash P L g image ov term).1 := by
  unfold internalFlash
  simp only
  split
  · exact h
  · split
    · exact h
    · split
      · exact h
      · have hp := pageLoop_closed hc g image (effStart g ov) (Gen.C12.pageCount image.length g.pageSize).toNat 0 0 term L h
        generalize pageLoop P g image (effStart g ov) (Gen.C12.pageCount image.length g.pageSize).toNat 0 0 term L = r at hp
        obtain ⟨L1, res⟩ := r
        rcases res with e | c
        · exact hp
        · simp only
          split
          · have hf := flushCall_closed hc L1 g (Gen.C12.finalFlushPage (effStart g ov) image.length g.pageSize c) c hp
            generalize flushCall P L1 g (Gen.C12.finalFlushPage (effStart g ov) image.length g.pageSize c) c = r2 at hf
            obtain ⟨L2, res2⟩ := r2
            rcases res2 with e | u <;> exact hf
          · exact hp

/-! ### the copter only ever emits genuine get-info replies -/

/-- `p` is not a get-info reply, or it is the genuine one for the target it names -/
def InfoOk (G : Nat → Option Geom) (pr : Option Nat) (p : Pkt) : Prop :=
  ∀ tid, tid < 256 → p.hdr = 0xFF → p.data.take 2 = [UInt8.ofNat tid, 0x10] →
    ∃ g, G tid = some g ∧ p = infoPkt tid g pr

/-- well-formed copter: target ids are bytes, the reported `addr` is the id, fields fit 16 bits -/
def Copter.WF (c : Copter) : Prop :=
  ∀ ct ∈ c.targets, ct.geom.addr = (ct.tid : Int) ∧ ct.tid < 256 ∧ ct.geom.pageSize < 65536 ∧
    ct.geom.bufferPages < 65536 ∧ ct.geom.flashPages < 65536 ∧ ct.geom.startPage < 65536

/-- copter state consistent with the static view `(G, pr)` and emitting only genuine get-info replies -/
structure CopterOk (G : Nat → Option Geom) (pr : Option Nat) (c : Copter) : Prop where
  geom : c.geomOf = G
  proto : c.proto = pr
  wf : c.WF
  script : ∀ o ∈ c.infoScript, ∀ r, o.reply = some r → InfoOk G pr r
  late : ∀ p ∈ c.lateQ, InfoOk G pr p

structure LinkOk (G : Nat → Option Geom) (pr : Option Nat) (L : Link Copter) : Prop where
  cop : CopterOk G pr L.st
  inbox : ∀ p ∈ L.inbox, InfoOk G pr p

theorem find_some {c : Copter} {t : Nat} {ct : CTarget} (h : c.find t = some ct) :
    ct ∈ c.targets ∧ ct.tid = t ∧ c.geomOf t = some ct.geom := by
  unfold Copter.find at h
  have h1 := List.mem_of_find?_eq_some h
  have h2 := List.find?_some h
  simp only [decide_eq_true_eq] at h2
  exact ⟨h1, h2, by simp [Copter.geomOf, Copter.find, h]⟩

theorem setMem_view (c : Copter) (tid : Nat) (m : Target) :
    (c.setMem tid m).geomOf = c.geomOf ∧ (c.setMem tid m).proto = c.proto ∧
    (c.setMem tid m).infoScript = c.infoScript ∧ (c.setMem tid m).lateQ = c.lateQ ∧
    ((c.setMem tid m).WF ↔ c.WF) := by
  refine ⟨?_, rfl, rfl, rfl, ?_⟩
  · funext t
    simp only [Copter.geomOf, Copter.find, Copter.setMem]
    induction c.targets with
    | nil => rfl
    | cons x xs ih =>
      simp only [List.map_cons, List.find?_cons]
      by_cases hx : x.tid = tid
      · simp only [hx, if_true]
        by_cases ht : tid = t
        · simp [ht]
        · simp [ht]; simpa using ih
      · simp only [hx, if_false]
        by_cases ht : x.tid = t
        · simp [ht]
        · simp [ht]; simpa using ih
  · simp only [Copter.WF, Copter.setMem, List.mem_map]
    constructor
    · intro h ct hct
      by_cases hx : ct.tid = tid
      · have := h { ct with mem := m } ⟨ct, hct, by simp [hx]⟩
        simpa using this
      · have := h ct ⟨ct, hct, by simp [hx]⟩
        exact this
    · rintro h ct' ⟨ct, hct, rfl⟩
      have := h ct hct
      by_cases hx : ct.tid = tid
      · rw [if_pos hx]; exact this
      · rw [if_neg hx]; exact this

theorem u8_ofNat_inj {a b : Nat} (ha : a < 256) (hb : b < 256) (h : UInt8.ofNat a = UInt8.ofNat b) : a = b := by
  have := congrArg UInt8.toNat h
  simp at this
  omega

theorem infoPkt_ok {G : Nat → Option Geom} {pr : Option Nat} {c : Copter} (hc : CopterOk G pr c) {t : Nat}
    {ct : CTarget} (hf : c.find t = some ct) : InfoOk G pr (infoPkt ct.tid ct.geom pr) := by
  obtain ⟨hmem, htid, hg⟩ := find_some hf
  intro tid htl _ htake
  have hlt := (hc.wf ct hmem).2.1
  have : UInt8.ofNat ct.tid = UInt8.ofNat tid := by
    simp [infoPkt] at htake
    exact htake
  have e := u8_ofNat_inj hlt htl this
  refine ⟨ct.geom, ?_, by rw [e]⟩
  rw [← hc.geom, ← e, htid, hg]

theorem wfReply_ok (G : Nat → Option Geom) (pr : Option Nat) (t : Nat) (a b : UInt8) : InfoOk G pr (wfReply t a b) := by
  intro tid _ _ htake
  simp [wfReply] at htake

theorem copterOk_setMem {G pr c} (hc : CopterOk G pr c) (tid : Nat) (m : Target) : CopterOk G pr (c.setMem tid m) := by
  obtain ⟨h1, h2, h3, h4, h5⟩ := setMem_view c tid m
  exact ⟨by rw [h1]; exact hc.geom, by rw [h2]; exact hc.proto, h5.mpr hc.wf, by rw [h3]; exact hc.script,
    by rw [h4]; exact hc.late⟩

theorem linkOk_closed (G : Nat → Option Geom) (pr : Option Nat) : Closed copterPeer (LinkOk G pr) where
  drain := fun L h => ⟨h.cop, by intro p hp; simp [drain_eq] at hp⟩
  wait := by
    intro L h
    obtain ⟨st, inbox, sent⟩ := L
    have hc := h.cop
    have hi := h.inbox
    simp only at hc hi
    unfold Link.wait Link.poll
    cases inbox with
    | nil =>
      simp only [copterPeer, List.nil_append]
      exact ⟨⟨hc.geom, hc.proto, hc.wf, hc.script, by intro p hp; cases hp⟩, hc.late⟩
    | cons q rest =>
      simp only [copterPeer]
      refine ⟨⟨hc.geom, hc.proto, hc.wf, hc.script, by intro p hp; cases hp⟩, ?_⟩
      intro p hp
      rcases List.mem_append.mp hp with h1 | h1
      · exact hi p (List.mem_cons_of_mem _ h1)
      · exact hc.late p h1
  send := by
    intro L p h
    have hc := h.cop
    have hi := h.inbox
    have key : CopterOk G pr (copterPeer.onSend L.st p).1 ∧ ∀ q ∈ (copterPeer.onSend L.st p).2, InfoOk G pr q := by
      simp only [copterPeer]
      split
      · exact ⟨hc, by intro q hq; cases hq⟩
      · split
        · rename_i t cmd rest hd
          split
          · exact ⟨hc, by intro q hq; cases hq⟩
          · rename_i ct hf
            split
            · split
              · rename_i hs
                refine ⟨hc, ?_⟩
                intro q hq
                simp only [List.mem_singleton] at hq
                subst hq
                rw [← hc.proto]
                exact hc.proto ▸ infoPkt_ok hc hf
              · rename_i o rest' hs
                have hsub : ∀ o' ∈ rest', ∀ r, o'.reply = some r → InfoOk G pr r :=
                  fun o' ho' => hc.script o' (by rw [hs]; exact List.mem_cons_of_mem _ ho')
                have ho := hc.script o (by rw [hs]; simp)
                cases hr : o.reply with
                | none => exact ⟨⟨hc.geom, hc.proto, hc.wf, hsub, hc.late⟩, by intro q hq; cases hq⟩
                | some r =>
                  simp only
                  split
                  · refine ⟨⟨hc.geom, hc.proto, hc.wf, hsub, ?_⟩, by intro q hq; cases hq⟩
                    intro q hq
                    rcases List.mem_append.mp hq with h1 | h1
                    · exact hc.late q h1
                    · simp only [List.mem_singleton] at h1; rw [h1]; exact ho r hr
                  · refine ⟨⟨hc.geom, hc.proto, hc.wf, hsub, hc.late⟩, ?_⟩
                    intro q hq
                    simp only [List.mem_singleton] at hq; rw [hq]; exact ho r hr
            · split
              · exact ⟨copterOk_setMem hc _ _, by intro q hq; cases hq⟩
              · refine ⟨copterOk_setMem hc _ _, ?_⟩
                intro q hq
                simp only [List.mem_singleton] at hq; subst hq; exact wfReply_ok G pr _ _ _
              · exact ⟨hc, by intro q hq; cases hq⟩
        · exact ⟨hc, by intro q hq; cases hq⟩
    refine ⟨key.1, ?_⟩
    intro q hq
    simp only [Link.send] at hq
    rcases List.mem_append.mp hq with h1 | h1
    · exact hi q h1
    · exact key.2 q h1


theorem fmt_info : parseFmt! Gen.C12.infoFmt = [.B, .B, .H, .H, .H, .H] := by decide
theorem fmt_infoMatch : parseFmt! Gen.C12.infoMatchFmt = [.B, .B] := by decide
theorem gen_infoCmd : Gen.C12.infoCmd = 0x10 := by decide

theorem replyIs_true (tid cmd : Nat) (ht : tid < 256) (hcm : cmd < 256) (a : Pkt)
    (h : replyIs tid cmd a = .ok true) : a.hdr = 0xFF ∧ a.data.take 2 = [UInt8.ofNat tid, UInt8.ofNat cmd] := by
  unfold replyIs at h
  rw [gen_reply.1, fmt_infoMatch] at h
  by_cases hh : a.hdr = 0xFF
  · simp only [hh, ne_eq, not_true_eq_false, if_false] at h
    refine ⟨hh, ?_⟩
    rcases hd : a.data with _ | ⟨x, _ | ⟨y, rest⟩⟩
    · rw [hd] at h; simp [unpack, Code.size] at h
    · rw [hd] at h; simp [unpack, Code.size, bind, Except.bind] at h
    · rw [hd] at h
      simp only [List.take_succ_cons, List.take_zero, unpack, Code.size, Code.takesVal, unpackOne, leVal, bind,
        Except.bind, pure, Except.pure, List.length_cons, List.length_nil, List.drop_succ_cons, List.drop_zero] at h
      simp at h
      obtain ⟨h1, h2⟩ := h
      simp only [List.take_succ_cons, List.take_zero]
      have e1 : x.toNat = tid := by exact_mod_cast h1
      have e2 : y.toNat = cmd := by exact_mod_cast h2
      rw [(u8_eq_ofNat x tid ht).1 e1, (u8_eq_ofNat y cmd hcm).1 e2]
  · simp [hh] at h

theorem pack_BBHHHH (t c p a n m : Nat) (ht : t < 256) (hc : c < 256) (hp : p < 65536) (ha : a < 65536)
    (hn : n < 65536) (hm : m < 65536) :
    pack [.B, .B, .H, .H, .H, .H] [.int t, .int c, .int p, .int a, .int n, .int m] =
      .ok ([UInt8.ofNat t, UInt8.ofNat c] ++ leBytes 2 p ++ leBytes 2 a ++ leBytes 2 n ++ leBytes 2 m) := by
  have e1 := packU_nat 1 t (by omega)
  have e2 := packU_nat 1 c (by omega)
  have e3 := packU_nat 2 p (by omega)
  have e4 := packU_nat 2 a (by omega)
  have e5 := packU_nat 2 n (by omega)
  have e6 := packU_nat 2 m (by omega)
  simp only [pack, packOne, e1, e2, e3, e4, e5, e6, bind, Except.bind, pure, Except.pure, leBytes]
  have h1 : t % 256 = t := by omega
  have h2 : c % 256 = c := by omega
  simp [h1, h2]

theorem parseInfo_infoPkt (tid : Nat) (g : Geom) (pr : Option Nat) (ht : tid < 256) (ha : g.addr = (tid : Int))
    (h1 : g.pageSize < 65536) (h2 : g.bufferPages < 65536) (h3 : g.flashPages < 65536) (h4 : g.startPage < 65536) :
    ∃ pv, parseInfo tid (infoPkt tid g pr) = .ok (g, pv) := by
  have hpack := pack_BBHHHH tid 0x10 g.pageSize g.bufferPages g.flashPages g.startPage ht (by omega) h1 h2 h3 h4
  have hun := unpack_pack (f := [.B, .B, .H, .H, .H, .H]) (by simp [canonVals, Val.canonFor]) hpack
  have hs0 : pySlice (infoPkt tid g pr).data 0 10 =
      [UInt8.ofNat tid, UInt8.ofNat 0x10] ++ leBytes 2 g.pageSize ++ leBytes 2 g.bufferPages ++
        leBytes 2 g.flashPages ++ leBytes 2 g.startPage := by
    simp [pySlice, infoPkt, leBytes]
  have hs1 : (pySlice (infoPkt tid g pr).data 10 22).length = 12 := by
    simp [pySlice, infoPkt, leBytes]
  unfold parseInfo
  rw [fmt_info, hs0, hun]
  simp only [hs1, ne_eq, not_true_eq_false, if_false]
  refine ⟨if (infoPkt tid g pr).data.length > 22 then Option.map UInt8.toNat (infoPkt tid g pr).data[22]? else none, ?_⟩
  congr 2
  cases g
  simp only at ha
  simp [ha]


theorem wait_head_ok {G pr} {L : Link Copter} (h : LinkOk G pr L) :
    ∀ a, (L.wait copterPeer).2 = some a → InfoOk G pr a := by
  intro a ha
  obtain ⟨st, inbox, sent⟩ := L
  unfold Link.wait Link.poll at ha
  cases inbox with
  | nil => simp at ha
  | cons q rest =>
    simp at ha
    subst ha
    exact h.inbox q (by simp)

theorem infoLoop_ok (G : Nat → Option Geom) (pr : Option Nat) (tid : Nat) (req : Pkt) :
    ∀ (fuel elapsed : Nat) (L : Link Copter), LinkOk G pr L →
      LinkOk G pr (infoLoop copterPeer tid req fuel elapsed L).1 ∧
      ∀ a, (infoLoop copterPeer tid req fuel elapsed L).2 = some (.ok (some a)) →
        InfoOk G pr a ∧ replyIs tid Gen.C12.infoCmd a = .ok true := by
  have hcl := linkOk_closed G pr
  intro fuel
  induction fuel with
  | zero => intro e L h; exact ⟨h, by intro a ha; simp [infoLoop] at ha⟩
  | succ fuel ih =>
    intro e L h
    unfold infoLoop
    split
    · exact ⟨h, by intro a ha; simp at ha⟩
    · have hw := hcl.wait L h
      have hh := wait_head_ok h
      simp only
      split
      · exact ih _ _ (hcl.send _ _ hw)
      · rename_i a ha
        split
        · exact ⟨hw, by intro a' ha'; simp at ha'⟩
        · rename_i hr
          refine ⟨hw, ?_⟩
          intro a' ha'
          simp at ha'
          subst ha'
          exact ⟨hh a ha, hr⟩
        · exact ih _ _ hw

theorem updateMapping_ok {G pr} {L : Link Copter} (h : LinkOk G pr L) (tid : Nat) :
    LinkOk G pr (updateMapping copterPeer L tid).1 := by
  have hcl := linkOk_closed G pr
  have := hcl.wait _ (hcl.send L ⟨bootHdr, [UInt8.ofNat tid, UInt8.ofNat Gen.C12.mappingCmd]⟩ h)
  unfold updateMapping
  simp only
  split
  · exact this
  · split
    · exact this
    · split
      · exact this
      · exact this
      · split <;> exact this

/-- every cache entry after `_update_info` is an old one or the genuine geometry of the connected copter's target -/
theorem updateInfo_ok (G : Nat → Option Geom) (pr : Option Nat) (fuel : Nat) (ld : Loader Copter) (tid : Nat)
    (ht : tid < 256) (hl : ∀ L, ld.link = some L → LinkOk G pr L)
    (hwf : ∀ t g, G t = some g → g.addr = (t : Int) ∧ g.pageSize < 65536 ∧ g.bufferPages < 65536 ∧
      g.flashPages < 65536 ∧ g.startPage < 65536) :
    (∀ L, (updateInfo copterPeer fuel ld tid).1.link = some L → LinkOk G pr L) ∧
    ((updateInfo copterPeer fuel ld tid).1.link.isSome = ld.link.isSome) ∧
    ((updateInfo copterPeer fuel ld tid).1.targets = ld.targets ∨
      ∃ g, G tid = some g ∧ (updateInfo copterPeer fuel ld tid).1.targets = (tid, g) :: ld.targets) := by
  have hcl := linkOk_closed G pr
  unfold updateInfo
  cases hlk : ld.link with
  | none => exact ⟨(by intro L hL; rw [hlk] at hL; cases hL), (by simp [hlk]), Or.inl rfl⟩
  | some L =>
    have h0 := hl L hlk
    simp only
    have hs := hcl.send L ⟨bootHdr, [UInt8.ofNat tid, UInt8.ofNat Gen.C12.infoCmd]⟩ h0
    obtain ⟨h1, h2⟩ := infoLoop_ok G pr tid ⟨bootHdr, [UInt8.ofNat tid, UInt8.ofNat Gen.C12.infoCmd]⟩ fuel 0 _ hs
    generalize infoLoop copterPeer tid ⟨bootHdr, [UInt8.ofNat tid, UInt8.ofNat Gen.C12.infoCmd]⟩ fuel 0
      (L.send copterPeer ⟨bootHdr, [UInt8.ofNat tid, UInt8.ofNat Gen.C12.infoCmd]⟩) = r at h1 h2
    obtain ⟨L1, res⟩ := r
    simp only at h1 h2
    have hsimple : ∀ (x : Option (Except PyErr Bool)),
        (∀ L', ({ ld with link := some L1 } : Loader Copter).link = some L' → LinkOk G pr L') ∧
        (({ ld with link := some L1 } : Loader Copter).link.isSome = (some L).isSome) ∧
        (({ ld with link := some L1 } : Loader Copter).targets = ld.targets ∨
          ∃ g, G tid = some g ∧ ({ ld with link := some L1 } : Loader Copter).targets = (tid, g) :: ld.targets) := by
      intro _
      exact ⟨by intro L' hL'; simp at hL'; subst hL'; exact h1, rfl, Or.inl rfl⟩
    rcases res with _ | (e | (_ | a))
    · exact hsimple none
    · exact hsimple none
    · exact hsimple none
    · obtain ⟨hok, hrep⟩ := h2 a rfl
      have hm := replyIs_true tid Gen.C12.infoCmd ht (by decide) a hrep
      rw [gen_infoCmd] at hm
      obtain ⟨g, hg, ha⟩ := hok tid ht hm.1 hm.2
      obtain ⟨w1, w2, w3, w4, w5⟩ := hwf tid g hg
      obtain ⟨pv, hp⟩ := parseInfo_infoPkt tid g pr ht w1 w2 w3 w4 w5
      simp only [ha, hp]
      cases pv with
      | none =>
        dsimp only
        by_cases hcf : ld.protocolVersion = Gen.C12.protoCF2 ∧ tid = Gen.C12.targetSTM32
        · rw [if_pos hcf]
          have hmp := updateMapping_ok h1 tid
          generalize updateMapping copterPeer L1 tid = rm at hmp
          obtain ⟨L2, rr⟩ := rm
          rcases rr with e | u
          · exact ⟨by intro L' hL'; simp at hL'; subst hL'; exact hmp, rfl, Or.inr ⟨g, hg, rfl⟩⟩
          · exact ⟨by intro L' hL'; simp at hL'; subst hL'; exact hmp, rfl, Or.inr ⟨g, hg, rfl⟩⟩
        · rw [if_neg hcf]
          exact ⟨by intro L' hL'; simp at hL'; subst hL'; exact h1, rfl, Or.inr ⟨g, hg, rfl⟩⟩
      | some v =>
        dsimp only
        by_cases hcf : v = Gen.C12.protoCF2 ∧ tid = Gen.C12.targetSTM32
        · rw [if_pos hcf]
          have hmp := updateMapping_ok h1 tid
          generalize updateMapping copterPeer L1 tid = rm at hmp
          obtain ⟨L2, rr⟩ := rm
          rcases rr with e | u
          · exact ⟨by intro L' hL'; simp at hL'; subst hL'; exact hmp, rfl, Or.inr ⟨g, hg, rfl⟩⟩
          · exact ⟨by intro L' hL'; simp at hL'; subst hL'; exact hmp, rfl, Or.inr ⟨g, hg, rfl⟩⟩
        · rw [if_neg hcf]
          exact ⟨by intro L' hL'; simp at hL'; subst hL'; exact h1, rfl, Or.inr ⟨g, hg, rfl⟩⟩


/-- cache entries paired with the ghost record of the copter each was read from -/
inductive Aligned (Gs : Nat → Nat → Option Geom) : List (Nat × Geom) → List (Nat × Nat) → Prop
  | nil : Aligned Gs [] []
  | cons {tid c g ts rs} : Gs c tid = some g → Aligned Gs ts rs → Aligned Gs ((tid, g) :: ts) ((tid, c) :: rs)

theorem Aligned.lookup {Gs ts rs} (h : Aligned Gs ts rs) (key : Nat) (g : Geom) (hl : lookupT ts key = some g) :
    ∃ c, lookupN rs key = some c ∧ Gs c key = some g := by
  induction h with
  | nil => simp [lookupT] at hl
  | @cons tid c g' ts rs hg _ ih =>
    unfold lookupT at hl
    unfold lookupN
    by_cases hk : tid = key
    · rw [if_pos hk] at hl ⊢
      cases hl
      exact ⟨c, rfl, hk ▸ hg⟩
    · rw [if_neg hk] at hl ⊢
      exact ih hl

theorem lookupN_mem {rs : List (Nat × Nat)} {key c : Nat} (h : lookupN rs key = some c) : (key, c) ∈ rs := by
  induction rs with
  | nil => simp [lookupN] at h
  | cons x xs ih =>
    obtain ⟨a, b⟩ := x
    unfold lookupN at h
    by_cases hk : a = key
    · rw [if_pos hk] at h; cases h; simp [hk]
    · rw [if_neg hk] at h; exact List.mem_cons_of_mem _ (ih h)

/-- `repaired`: with the repaired `open_bootloader_uri` every cache entry was read on the loader's CURRENT connection -/
structure LoaderOk (repaired : Bool) (Gs : Nat → Nat → Option Geom) (prs : Nat → Option Nat) (ls : LoaderSt) : Prop where
  aligned : Aligned Gs ls.ld.targets ls.readFrom
  link : ∀ L, ls.ld.link = some L → ∃ c, ls.conn = some c ∧ LinkOk (Gs c) (prs c) L
  fresh : repaired = true → ∀ e ∈ ls.readFrom, ∀ c, ls.conn = some c → e.2 = c

structure WorldOk (repaired : Bool) (Gs : Nat → Nat → Option Geom) (prs : Nat → Option Nat) (w : World) : Prop where
  copters : ∀ c cop, w.copters[c]? = some cop → CopterOk (Gs c) (prs c) cop
  loaders : ∀ ls ∈ w.loaders, LoaderOk repaired Gs prs ls
  wf : ∀ c t g, Gs c t = some g → g.addr = (t : Int) ∧ g.pageSize < 65536 ∧ g.bufferPages < 65536 ∧
    g.flashPages < 65536 ∧ g.startPage < 65536

theorem release_loaders (w : World) (k : Nat) : (w.release k).loaders = w.loaders := by
  unfold World.release
  split
  · split <;> rfl
  · rfl

theorem release_ok {rp Gs prs w} (h : WorldOk rp Gs prs w) (k : Nat) : WorldOk rp Gs prs (w.release k) := by
  refine ⟨?_, by rw [release_loaders]; exact h.loaders, h.wf⟩
  unfold World.release
  cases hk : w.loaders[k]? with
  | none => exact h.copters
  | some ls =>
    simp only
    cases hL : ls.ld.link with
    | none => exact h.copters
    | some L =>
      cases hc : ls.conn with
      | none => exact h.copters
      | some c =>
        simp only
        have hls := h.loaders ls (List.mem_of_getElem? hk)
        obtain ⟨c', hc', hlk⟩ := hls.link L hL
        rw [hc] at hc'
        cases hc'
        intro c2 cop hget
        rw [List.getElem?_set] at hget
        by_cases hcc : c = c2
        · subst hcc
          split at hget
          · split at hget
            · cases hget; exact hlk.cop
            · cases hget
          · exact h.copters _ _ hget
        · rw [if_neg hcc] at hget
          exact h.copters _ _ hget

theorem set_loader_ok {rp Gs prs} {w : World} (h : WorldOk rp Gs prs w) (k : Nat) (ls' : LoaderSt)
    (hl : LoaderOk rp Gs prs ls') : WorldOk rp Gs prs { w with loaders := w.loaders.set k ls' } := by
  refine ⟨h.copters, ?_, h.wf⟩
  intro ls hls
  rcases List.mem_or_eq_of_mem_set hls with h1 | h1
  · exact h.loaders ls h1
  · rw [h1]; exact hl

theorem noteRead_ok {rp Gs prs} {ls : LoaderSt} (h : LoaderOk rp Gs prs ls) (ld' : Loader Copter)
    (hlink : ∀ L, ld'.link = some L → ∃ c, ls.conn = some c ∧ LinkOk (Gs c) (prs c) L)
    (ht : ld'.targets = ls.ld.targets ∨
      ∃ tid g c, ls.conn = some c ∧ Gs c tid = some g ∧ ld'.targets = (tid, g) :: ls.ld.targets) :
    LoaderOk rp Gs prs (noteRead ls ld') := by
  unfold noteRead
  rcases ht with e | ⟨tid, g, c, hc, hg, e⟩
  · refine ⟨?_, hlink, ?_⟩
    · simp only [e, if_true]
      exact h.aligned
    · simp only [e, if_true]
      exact h.fresh
  · refine ⟨?_, hlink, ?_⟩
    · simp only [e, List.length_cons, List.head?_cons, hc]
      rw [if_neg (by omega)]
      exact Aligned.cons hg h.aligned
    · simp only [e, List.length_cons, List.head?_cons, hc]
      rw [if_neg (by omega)]
      intro hr x hx c' hc'
      rcases List.mem_cons.mp hx with h1 | h1
      · rw [h1]; simp only; cases hc'; rfl
      · exact h.fresh hr x h1 c' (by rw [hc]; exact hc')


/-- target ids in the operations are bytes (they are packed into one) -/
def HOp.TidOk : HOp → Prop
  | .update _ tid => tid < 256
  | .request _ tid => tid < 256
  | _ => True

theorem gen_stm32_byte : Gen.C12.targetSTM32 < 256 := by decide

theorem update_step_ok {rp Gs prs} {w : World} (h : WorldOk rp Gs prs w) (fuel : Nat) (ls : LoaderSt)
    (hls : LoaderOk rp Gs prs ls) (tid : Nat) (ht : tid < 256) :
    LoaderOk rp Gs prs (noteRead ls (updateInfo copterPeer fuel ls.ld tid).1) := by
  cases hL : ls.ld.link with
  | none =>
    have : (updateInfo copterPeer fuel ls.ld tid).1 = ls.ld := by simp [updateInfo, hL]
    rw [this]
    exact noteRead_ok hls ls.ld hls.link (Or.inl rfl)
  | some L =>
    obtain ⟨c, hc, hlk⟩ := hls.link L hL
    obtain ⟨h1, _, h3⟩ := updateInfo_ok (Gs c) (prs c) fuel ls.ld tid ht
      (by intro L' hL'; rw [hL] at hL'; cases hL'; exact hlk) (h.wf c)
    refine noteRead_ok hls _ (fun L' hL' => ⟨c, hc, h1 L' hL'⟩) ?_
    rcases h3 with e | ⟨g, hg, e⟩
    · exact Or.inl e
    · exact Or.inr ⟨tid, g, c, hc, hg, e⟩

theorem request_fst (fuel : Nat) (ld : Loader Copter) (tid : Nat) :
    (requestInfoUpdate copterPeer fuel ld tid).1 = ld ∨
    (requestInfoUpdate copterPeer fuel ld tid).1 = (updateInfo copterPeer fuel ld tid).1 := by
  unfold requestInfoUpdate
  split
  · exact Or.inl rfl
  · right
    generalize updateInfo copterPeer fuel ld tid = r
    obtain ⟨ld1, res⟩ := r
    rcases res with _ | (e | b)
    · rfl
    · rfl
    · simp only
      split <;> rfl

theorem step_ok {rp Gs prs} {w : World} (h : WorldOk rp Gs prs w) (fuel : Nat) (op : HOp) (hop : op.TidOk) :
    WorldOk rp Gs prs (w.step rp fuel op).1 := by
  cases op with
  | new =>
    refine ⟨h.copters, ?_, h.wf⟩
    intro ls hls
    simp only [World.step, List.mem_append, List.mem_singleton] at hls
    rcases hls with h1 | h1
    · exact h.loaders ls h1
    · rw [h1]; exact ⟨Aligned.nil, (by intro L hL; simp [Loader.new] at hL), (by intro _ e he; cases he)⟩
  | openLink k c =>
    simp only [World.step]
    split
    · split
      · exact h
      · have h1 := release_ok h k
        split
        · rename_i ls cop hk hc
          apply set_loader_ok h1
          rw [release_loaders] at hk
          have hls := h.loaders ls (List.mem_of_getElem? hk)
          have hcop := h1.copters c cop hc
          have hL0 : LinkOk (Gs c) (prs c) ({ st := { cop with lateQ := [] }, inbox := [], sent := [] } : Link Copter) :=
            ⟨⟨hcop.geom, hcop.proto, hcop.wf, hcop.script, by intro p hp; cases hp⟩, by intro p hp; cases hp⟩
          cases rp with
          | true =>
            refine ⟨Aligned.nil, ?_, (by intro _ e he; cases he)⟩
            intro L hL
            simp only [Loader.openLink, if_true, Option.some.injEq] at hL
            subst hL
            exact ⟨c, rfl, hL0⟩
          | false =>
            refine ⟨hls.aligned, ?_, (by intro hr; cases hr)⟩
            intro L hL
            simp only [Loader.openLinkKeep, Bool.false_eq_true, if_false, Option.some.injEq] at hL
            subst hL
            exact ⟨c, rfl, hL0⟩
        · exact h
    · exact h
  | closeLink k =>
    simp only [World.step]
    split
    · rename_i ls hk
      apply set_loader_ok (release_ok h k)
      have hls := h.loaders ls (List.mem_of_getElem? hk)
      exact ⟨hls.aligned, (by intro L hL; simp at hL), (by intro _ e _ c hc; simp at hc)⟩
    · exact h
  | update k tid =>
    simp only [World.step]
    split
    · rename_i ls hk
      exact set_loader_ok h k _ (update_step_ok h fuel ls (h.loaders ls (List.mem_of_getElem? hk)) tid hop)
    · exact h
  | check k =>
    simp only [World.step]
    split
    · rename_i ls hk
      exact set_loader_ok h k _ (update_step_ok h fuel ls (h.loaders ls (List.mem_of_getElem? hk)) _ gen_stm32_byte)
    · exact h
  | request k tid =>
    simp only [World.step]
    split
    · rename_i ls hk
      have hls := h.loaders ls (List.mem_of_getElem? hk)
      apply set_loader_ok h k
      rcases request_fst fuel ls.ld tid with e | e
      · rw [e]; exact noteRead_ok hls ls.ld hls.link (Or.inl rfl)
      · rw [e]; exact update_step_ok h fuel ls hls tid hop
    · exact h
  | flash k key image ov =>
    simp only [World.step]
    split
    · rename_i ls hk
      have hls := h.loaders ls (List.mem_of_getElem? hk)
      apply set_loader_ok h k
      unfold flashOn
      split
      · exact hls
      · split
        · rename_i hL
          split
          · exact hls
          · split
            · exact hls
            · split
              · exact hls
              · split <;> exact hls
        · rename_i g _ _ L hL
          obtain ⟨c, hc, hlk⟩ := hls.link L hL
          refine ⟨hls.aligned, ?_, hls.fresh⟩
          intro L' hL'
          simp only [Option.some.injEq] at hL'
          subst hL'
          exact ⟨c, hc, internalFlash_closed (linkOk_closed _ _) L g image ov [] hlk⟩
    · exact h

theorem run_ok {rp Gs prs} (fuel : Nat) : ∀ (ops : List HOp) (w : World), WorldOk rp Gs prs w → (∀ op ∈ ops, op.TidOk) →
    WorldOk rp Gs prs (World.run rp fuel w ops).1 := by
  intro ops
  induction ops with
  | nil => intro w h _; exact h
  | cons op ops ih =>
    intro w h hops
    simp only [World.run]
    exact ih _ (step_ok h fuel op (hops op (by simp))) (fun o ho => hops o (by simp [ho]))

end CfVerif.C12

/-
Proofs/C12Retry: what the target sees of `upload_buffer` (byte writes), bounded retries of `write_flash`
against any peer, and "success only if acknowledged" against the Spec environment (no assumption on the script).
-/
import CfVerif.Proofs.C12Write
namespace CfVerif.C12
open CfVerif

theorem byteWrites_loadPkts (tid page : Nat) (ht : tid < 256) (hp : page < 65536) :
    ∀ (chunks : List (List UInt8)) (a : Nat), a + chunks.flatten.length < 65536 →
      byteWrites tid (loadPkts tid page a chunks) = (chunks.flatten.zipIdx a).map fun x => (page, x.2, x.1) := by
  intro chunks
  induction chunks with
  | nil => intro a _; simp [byteWrites, loadPkts]
  | cons c cs ih =>
    intro a hfit
    simp only [List.flatten_cons, List.length_append] at hfit
    have := ih (a + c.length) (by omega)
    simp only [byteWrites] at this ⊢
    simp only [loadPkts, List.flatMap_cons, this, decode_loadPkt tid page a c ht hp (by omega),
      List.flatten_cons, List.zipIdx_append, List.map_append]
variable {σ : Type}

/-! ### bounded retries, against any peer -/

/-- the data of the flash-write packet (empty if the arguments cannot be packed: then nothing is sent) -/
def writeDataOr (addr pb tp pc : Int) : List UInt8 :=
  match writeData addr pb tp pc with
  | .ok d => d
  | .error _ => []

theorem wait_sent (P : Peer σ) (L : Link σ) : (L.wait P).1.sent = L.sent := by
  unfold Link.wait Link.poll
  cases L.inbox <;> rfl

theorem retryLoop_sent (P : Peer σ) (addr pb tp pc : Int) :
    ∀ (n : Nat) (pk : Option Pkt) (L : Link σ),
      ∃ k, k ≤ n ∧ ((retryLoop P addr pb tp pc n pk L).1).sent =
        L.sent ++ List.replicate k ⟨bootHdr, writeDataOr addr pb tp pc⟩ := by
  intro n
  induction n with
  | zero =>
    intro pk L
    refine ⟨0, by omega, ?_⟩
    unfold retryLoop
    cases needRetry addr pk <;> simp
  | succ n ih =>
    intro pk L
    unfold retryLoop
    cases hnr : needRetry addr pk with
    | error e => exact ⟨0, by omega, by simp⟩
    | ok b =>
      cases b with
      | false => exact ⟨0, by omega, by simp⟩
      | true =>
        cases hw : writeData addr pb tp pc with
        | error e => exact ⟨0, by omega, by simp⟩
        | ok d =>
          simp only
          obtain ⟨k, hk, hs⟩ := ih ((L.send P ⟨bootHdr, d⟩).wait P).2 ((L.send P ⟨bootHdr, d⟩).wait P).1
          refine ⟨k + 1, by omega, ?_⟩
          rw [hs, wait_sent]
          have : writeDataOr addr pb tp pc = d := by simp [writeDataOr, hw]
          rw [this]
          simp [Link.send, List.replicate_succ]

/-- `write_flash` transmits its command at most `retryInit + 1` times and nothing else, whatever the peer does. -/
theorem writeFlash_sent (P : Peer σ) (L : Link σ) (addr pb tp pc : Int) :
    ∃ k, k ≤ Gen.C12.retryInit + 1 ∧ ((writeFlash P L addr pb tp pc).1).sent =
      L.sent ++ List.replicate k ⟨bootHdr, writeDataOr addr pb tp pc⟩ := by
  obtain ⟨k, hk, hs⟩ := retryLoop_sent P addr pb tp pc (Gen.C12.retryInit + 1) none
    (⟨L.st, drain L.inbox, L.sent⟩ : Link σ)
  refine ⟨k, hk, ?_⟩
  unfold writeFlash
  dsimp only
  generalize retryLoop P addr pb tp pc (Gen.C12.retryInit + 1) none
    (⟨L.st, drain L.inbox, L.sent⟩ : Link σ) = r at hs ⊢
  obtain ⟨L1, res⟩ := r
  simp only at hs
  rcases res with e | ⟨m, pk⟩
  · exact hs
  · cases m with
    | zero => exact hs
    | succ m =>
      cases pk with
      | none => exact hs
      | some p =>
        simp only
        cases p.data[3]? with
        | none => exact hs
        | some c =>
          cases p.data[2]? with
          | none => exact hs
          | some s => exact hs


/-- the outcome the `i`-th flash-write transmission of a script meets -/
def outcomeAt (tid : Nat) (s : List Outcome) (i : Nat) : Outcome := (nextOutcome tid (s.drop i)).1

/-- packet `p` is the reply of one of the first `c` outcomes of `s0` -/
def Prov (tid : Nat) (s0 : List Outcome) (c : Nat) (p : Pkt) : Prop :=
  ∃ i, i < c ∧ (outcomeAt tid s0 i).reply = some p

theorem Prov.mono {tid s0 c c' p} (h : Prov tid s0 c p) (hc : c ≤ c') : Prov tid s0 c' p := by
  obtain ⟨i, hi, hr⟩ := h; exact ⟨i, by omega, hr⟩

theorem retryLoop_m_le {σ : Type} (P : Peer σ) (addr pb tp pc : Int) :
    ∀ (n : Nat) (pk : Option Pkt) (L : Link σ) L' m pk',
      retryLoop P addr pb tp pc n pk L = (L', .ok (m, pk')) → m ≤ n := by
  intro n
  induction n with
  | zero =>
    intro pk L L' m pk' h
    unfold retryLoop at h
    cases hn : needRetry addr pk <;> rw [hn] at h <;> simp at h
    omega
  | succ n ih =>
    intro pk L L' m pk' h
    unfold retryLoop at h
    cases hn : needRetry addr pk with
    | error e => rw [hn] at h; simp at h
    | ok b =>
      rw [hn] at h
      cases b with
      | false => simp at h; omega
      | true =>
        cases hw : writeData addr pb tp pc with
        | error e => rw [hw] at h; simp at h
        | ok d =>
          rw [hw] at h
          have := ih _ _ _ _ _ h
          omega

theorem nextOutcome_snd_drop (tid : Nat) (s : List Outcome) (c : Nat) :
    (nextOutcome tid (s.drop c)).2 = s.drop (c + 1) := by
  cases h : s.drop c with
  | nil =>
    have : s.length ≤ c := List.drop_eq_nil_iff.mp h
    simp [nextOutcome, List.drop_eq_nil_iff.mpr (show s.length ≤ c + 1 by omega)]
  | cons o r =>
    simp only [nextOutcome]
    have : s.drop (c + 1) = (s.drop c).drop 1 := by simp [List.drop_drop]
    rw [this, h]; rfl

theorem retryLoop_prov (tid bp fp cnt : Nat) (ht : tid < 256) (hb : bp < 65536) (hf : fp < 65536)
    (hn : cnt < 65536) (s0 : List Outcome) :
    ∀ (n : Nat) (pk : Option Pkt) (L : Link Env) (c : Nat), L.st.script = s0.drop c →
      (∀ p, (pk = some p ∨ p ∈ L.inbox ∨ p ∈ L.st.lateQ) → Prov tid s0 c p) →
      ∀ L' m pk', retryLoop (targetPeer tid) (tid : Int) (bp : Int) (fp : Int) (cnt : Int) n pk L =
          (L', .ok (m, pk')) → ∀ p, pk' = some p → Prov tid s0 (c + (n - m)) p := by
  intro n
  induction n with
  | zero =>
    intro pk L c _ hpool L' m pk' hrun p hp
    simp only [retryLoop, needRetry_eq tid ht] at hrun
    cases hrun
    exact (hpool p (Or.inl hp)).mono (by omega)
  | succ n ih =>
    intro pk L c hscr hpool L' m pk' hrun p hp
    by_cases ha : accepts tid pk = true
    · simp only [retryLoop, needRetry_eq tid ht, ha, Bool.not_true] at hrun
      cases hrun
      exact (hpool p (Or.inl hp)).mono (by omega)
    · have ha' : accepts tid pk = false := by simpa using ha
      simp only [retryLoop, needRetry_eq tid ht, ha', Bool.not_false,
        writeData_ok tid bp fp cnt ht hb hf hn] at hrun
      have e : (⟨bootHdr, (writePkt tid bp fp cnt).data⟩ : Pkt) = writePkt tid bp fp cnt := by
        simp [writePkt, bootHdr_eq]
      rw [e] at hrun
      have hs := send_write tid bp fp cnt L ht hb hf hn
      generalize hL1 : L.send (targetPeer tid) (writePkt tid bp fp cnt) = L1 at hs hrun
      obtain ⟨hpool1, hst, _⟩ := wait_pool tid L1
      generalize hr : L1.wait (targetPeer tid) = r at hpool1 hst hrun
      have hm : m ≤ n := retryLoop_m_le _ _ _ _ _ _ _ _ _ _ _ hrun
      have := ih r.2 r.1 (c + 1) (by rw [hst, hs]; simp only; rw [hscr, nextOutcome_snd_drop]) ?_ L' m pk' hrun p hp
      · exact this.mono (by omega)
      · intro q hq
        have hq' : q ∈ L1.inbox ++ L1.st.lateQ := by
          apply hpool1 q
          rcases hq with h | h | h
          · exact Or.inl h
          · exact Or.inr h
          · rw [hst] at h; simp at h
        rw [hs] at hq'
        simp only [List.mem_append] at hq'
        have hcur : (nextOutcome tid L.st.script).1 = outcomeAt tid s0 c := by rw [hscr]; rfl
        have : q ∈ L.inbox ∨ q ∈ L.st.lateQ ∨ (nextOutcome tid L.st.script).1.reply = some q := by
          rcases hq' with (h1 | h2) | (h3 | h4)
          · exact Or.inl h1
          · right; right
            split at h2
            · cases h2
            · simpa [Option.mem_toList] using h2
          · exact Or.inr (Or.inl h3)
          · right; right
            split at h4
            · simpa [Option.mem_toList] using h4
            · cases h4
        rcases this with h | h | h
        · exact (hpool q (Or.inr (Or.inl h))).mono (by omega)
        · exact (hpool q (Or.inr (Or.inr h))).mono (by omega)
        · exact ⟨c, by omega, by rw [← hcur]; exact h⟩


theorem retryLoop_exit {σ : Type} (P : Peer σ) (addr pb tp pc : Int) :
    ∀ (n : Nat) (pk : Option Pkt) (L : Link σ) L' m pk',
      retryLoop P addr pb tp pc n pk L = (L', .ok (m, pk')) → 0 < m → needRetry addr pk' = .ok false := by
  intro n
  induction n with
  | zero =>
    intro pk L L' m pk' h hm
    unfold retryLoop at h
    cases hn : needRetry addr pk <;> rw [hn] at h <;> simp at h
    omega
  | succ n ih =>
    intro pk L L' m pk' h hm
    unfold retryLoop at h
    cases hn : needRetry addr pk with
    | error e => rw [hn] at h; simp at h
    | ok b =>
      rw [hn] at h
      cases b with
      | false => simp at h; rw [← h.2.2]; exact hn
      | true =>
        cases hw : writeData addr pb tp pc with
        | error e => rw [hw] at h; simp at h
        | ok d =>
          rw [hw] at h
          exact ih _ _ _ _ _ h hm

/-- `write_flash` reports success only if one of the first `retryInit` transmissions of this call was answered
by a packet that passes for a positive reply (so: unanswered or negatively answered commands are failures;
a positive answer to the last, `retryInit + 1`-th, attempt comes too late). -/
theorem writeFlash_acked (tid bp fp cnt : Nat) (ht : tid < 256) (hb : bp < 65536) (hf : fp < 65536)
    (hn : cnt < 65536) (L : Link Env) (hlate : L.st.lateQ = []) (L' : Link Env) (c : Int)
    (h : writeFlash (targetPeer tid) L (tid : Int) (bp : Int) (fp : Int) (cnt : Int) = (L', .ok (true, c))) :
    ∃ i p, i < Gen.C12.retryInit ∧ (outcomeAt tid L.st.script i).reply = some p ∧ Positive tid p := by
  unfold writeFlash at h
  dsimp only at h
  cases hr : retryLoop (targetPeer tid) (tid : Int) (bp : Int) (fp : Int) (cnt : Int) (Gen.C12.retryInit + 1) none
    (⟨L.st, drain L.inbox, L.sent⟩ : Link Env) with
  | mk L1 res =>
    rw [hr] at h
    rcases res with e | ⟨m, pk⟩
    · simp at h
    · cases m with
      | zero => simp at h
      | succ m =>
        cases pk with
        | none => simp at h
        | some p =>
          simp only at h
          have hex := retryLoop_exit _ _ _ _ _ _ _ _ _ _ _ hr (by omega)
          rw [needRetry_eq tid ht] at hex
          have hacc : accepts tid (some p) = true := by simpa using hex
          have hprov := retryLoop_prov tid bp fp cnt ht hb hf hn L.st.script (Gen.C12.retryInit + 1) none
            (⟨L.st, drain L.inbox, L.sent⟩ : Link Env) 0 (by simp)
            (by intro q hq; simp [drain_eq, hlate] at hq) L1 (m + 1) (some p) hr p rfl
          obtain ⟨i, hi, hrep⟩ := hprov
          refine ⟨i, p, by omega, hrep, ?_⟩
          simp only [accepts, Bool.and_eq_true, beq_iff_eq] at hacc
          cases h3 : p.data[3]? with
          | none => rw [h3] at h; simp at h
          | some c3 =>
            rw [h3] at h
            cases h2 : p.data[2]? with
            | none => rw [h2] at h; simp at h
            | some s =>
              rw [h2] at h
              simp only [Prod.mk.injEq, Except.ok.injEq, beq_iff_eq] at h
              refine ⟨hacc.1, hacc.2, ?_⟩
              have : s.toNat = (1 : UInt8).toNat := h.2.1
              rw [h2, UInt8.toNat_inj.mp this]

end CfVerif.C12

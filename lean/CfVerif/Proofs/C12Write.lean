/-
Proofs/C12Write: `Cloader.write_flash` against the Spec environment.  The invariant of the retry loop:
the target's flash is either untouched or holds the command's result (the command is idempotent while the
buffers are unchanged), and a positive reply is in the receive queue only if the latter is the case -
which is what the downlink flush at the start of `write_flash` establishes.
-/
import CfVerif.Proofs.C12
namespace CfVerif.C12
open CfVerif

theorem gen_reply : Gen.C12.replyHeader = 0xFF ∧ Gen.C12.replyMinLen = 2 ∧ Gen.C12.replyCmd = 0x18 := by decide
theorem gen_writeCmd : Gen.C12.writeCmd = 0x18 := by decide

/-- the packets the retry loop of `write_flash` takes for a reply of target `tid` -/
def accepts (tid : Nat) : Option Pkt → Bool
  | none => false
  | some p => p.hdr == 0xFF && p.data.take 2 == [UInt8.ofNat tid, 0x18]

theorem u8_eq_ofNat (a : UInt8) (n : Nat) (hn : n < 256) : a.toNat = n ↔ a = UInt8.ofNat n := by
  constructor
  · intro h; subst h; simp
  · intro h; subst h; simp; omega

theorem needRetry_eq (tid : Nat) (ht : tid < 256) (pk : Option Pkt) :
    needRetry (tid : Int) pk = .ok (!accepts tid pk) := by
  cases pk with
  | none => rfl
  | some p =>
    unfold needRetry accepts
    rw [gen_reply.1, gen_reply.2.1, gen_reply.2.2, fmt_reply]
    by_cases hh : p.hdr = 0xFF
    · simp only [hh, ne_eq, not_true_eq_false, if_false, beq_self_eq_true, Bool.true_and]
      rcases hd : p.data with _ | ⟨a, _ | ⟨b, rest⟩⟩
      · simp
      · simp
      · have hlen : ¬ (a :: b :: rest).length < 2 := by simp
        rw [if_neg hlen]
        simp only [List.take_succ_cons, List.take_zero]
        simp only [unpack, Code.size, Code.takesVal, unpackOne, leVal, bind, Except.bind, pure, Except.pure,
          List.length_cons, List.length_nil, List.drop_succ_cons, List.drop_zero, List.take_succ_cons, List.take_zero]
        have e1 : decide ((a.toNat : Int) = (tid : Int)) = (a == UInt8.ofNat tid) := by
          rw [Bool.eq_iff_iff]
          have := u8_eq_ofNat a tid ht
          simp only [decide_eq_true_eq, beq_iff_eq]
          constructor
          · intro h; exact this.1 (by exact_mod_cast h)
          · intro h; have := this.2 h; exact_mod_cast this
        have e2 : decide ((b.toNat : Int) = 24) = (b == 24) := by
          rw [Bool.eq_iff_iff]
          have := u8_eq_ofNat b 24 (by omega)
          simp only [decide_eq_true_eq, beq_iff_eq]
          constructor
          · intro h; exact this.1 (by exact_mod_cast h)
          · intro h; have := this.2 h; exact_mod_cast this
        simp [e1, e2]
    · simp [hh]

theorem okNow_genuine (tid : Nat) : (Outcome.okNow tid).Genuine tid := fun _ _ _ => rfl

theorem nextOutcome_genuine (tid : Nat) (s : List Outcome) (h : ScriptGenuine tid s) :
    (nextOutcome tid s).1.Genuine tid ∧ ScriptGenuine tid (nextOutcome tid s).2 := by
  cases s with
  | nil => exact ⟨okNow_genuine tid, fun _ h => by cases h⟩
  | cons o r => exact ⟨h o (by simp), fun x hx => h x (List.mem_cons_of_mem _ hx)⟩

theorem send_write (tid bp fp n : Nat) (L : Link Env) (ht : tid < 256) (hb : bp < 65536) (hf : fp < 65536)
    (hn : n < 65536) :
    L.send (targetPeer tid) (writePkt tid bp fp n) =
      ⟨⟨if (nextOutcome tid L.st.script).1.exec then L.st.tgt.writeFlash bp fp n else L.st.tgt,
          (nextOutcome tid L.st.script).2,
          L.st.lateQ ++ (if (nextOutcome tid L.st.script).1.late then (nextOutcome tid L.st.script).1.reply.toList else [])⟩,
        L.inbox ++ (if (nextOutcome tid L.st.script).1.late then [] else (nextOutcome tid L.st.script).1.reply.toList),
        L.sent ++ [writePkt tid bp fp n]⟩ := by
  simp only [Link.send, targetPeer, decode_writePkt tid bp fp n ht hb hf hn]
  rcases hr : (nextOutcome tid L.st.script).1.reply with _ | r
  · simp
  · by_cases hl : (nextOutcome tid L.st.script).1.late = true
    · simp [hl]
    · simp [hl]

theorem wait_pool (tid : Nat) (L : Link Env) :
    (∀ p, ((L.wait (targetPeer tid)).2 = some p ∨ p ∈ (L.wait (targetPeer tid)).1.inbox) →
      p ∈ L.inbox ++ L.st.lateQ) ∧
    (L.wait (targetPeer tid)).1.st = ⟨L.st.tgt, L.st.script, []⟩ ∧
    (L.wait (targetPeer tid)).1.sent = L.sent := by
  obtain ⟨st, inbox, sent⟩ := L
  unfold Link.wait Link.poll
  cases inbox with
  | nil => simp [targetPeer]
  | cons q rest =>
    simp only [targetPeer]
    refine ⟨?_, trivial, trivial⟩
    intro p hp
    simp only [Option.some.injEq, List.mem_append] at hp
    simp only [List.cons_append, List.mem_cons, List.mem_append]
    rcases hp with h | h | h
    · exact Or.inl h.symm
    · exact Or.inr (Or.inl h)
    · exact Or.inr (Or.inr h)

theorem Target.writeFlash_idem (t : Target) (bp fp n : Nat) :
    (t.writeFlash bp fp n).writeFlash bp fp n = t.writeFlash bp fp n := by
  unfold Target.writeFlash
  congr 1
  funext q o
  by_cases h : fp ≤ q ∧ q < fp + n <;> simp [h]


structure WInv (tid : Nat) (T0 T1 : Target) (pk : Option Pkt) (L : Link Env) : Prop where
  late : L.st.lateQ = []
  tgt : L.st.tgt = T0 ∨ L.st.tgt = T1
  pos : ∀ p, (pk = some p ∨ p ∈ L.inbox) → Positive tid p → L.st.tgt = T1
  gen : ScriptGenuine tid L.st.script

theorem writeData_ok (tid bp fp cnt : Nat) (ht : tid < 256) (hb : bp < 65536) (hf : fp < 65536)
    (hn : cnt < 65536) :
    writeData (tid : Int) (bp : Int) (fp : Int) (cnt : Int) = .ok (writePkt tid bp fp cnt).data := by
  unfold writeData
  rw [fmt_write, gen_writeCmd]
  exact pack_BBHHH tid 0x18 bp fp cnt ht (by decide) hb hf hn

theorem step_inv (tid bp fp cnt : Nat) (ht : tid < 256) (hb : bp < 65536) (hf : fp < 65536)
    (hn : cnt < 65536) (T0 : Target) (pk : Option Pkt) (L : Link Env)
    (h : WInv tid T0 (T0.writeFlash bp fp cnt) pk L) :
    WInv tid T0 (T0.writeFlash bp fp cnt)
      ((L.send (targetPeer tid) (writePkt tid bp fp cnt)).wait (targetPeer tid)).2
      ((L.send (targetPeer tid) (writePkt tid bp fp cnt)).wait (targetPeer tid)).1 ∧
    ((L.send (targetPeer tid) (writePkt tid bp fp cnt)).wait (targetPeer tid)).1.sent =
      L.sent ++ [writePkt tid bp fp cnt] ∧
    ((L.send (targetPeer tid) (writePkt tid bp fp cnt)).wait (targetPeer tid)).1.st.script =
      L.st.script.drop 1 := by
  have hs := send_write tid bp fp cnt L ht hb hf hn
  generalize hL1 : L.send (targetPeer tid) (writePkt tid bp fp cnt) = L1 at hs ⊢
  generalize hr : L1.wait (targetPeer tid) = r
  obtain ⟨hpool, hst, hsent⟩ := wait_pool tid L1
  rw [hr] at hpool hst hsent
  obtain ⟨hog, hrg⟩ := nextOutcome_genuine tid L.st.script h.gen
  have hdrop : (nextOutcome tid L.st.script).2 = L.st.script.drop 1 := by
    cases L.st.script <;> rfl
  generalize ho : (nextOutcome tid L.st.script).1 = o at hs hog
  have e_tgt : L1.st.tgt = if o.exec = true then L.st.tgt.writeFlash bp fp cnt else L.st.tgt := by rw [hs]
  have e_scr : L1.st.script = L.st.script.drop 1 := by rw [hs, ← hdrop]
  have e_late : L1.st.lateQ = if o.late = true then o.reply.toList else [] := by rw [hs]; simp [h.late]
  have e_inb : L1.inbox = L.inbox ++ (if o.late = true then [] else o.reply.toList) := by rw [hs]
  have e_sent : L1.sent = L.sent ++ [writePkt tid bp fp cnt] := by rw [hs]
  clear hs
  -- the target after this transmission
  have htgt' : (L1.st.tgt = T0 ∨ L1.st.tgt = T0.writeFlash bp fp cnt) ∧
      (L.st.tgt = T0.writeFlash bp fp cnt → L1.st.tgt = T0.writeFlash bp fp cnt) ∧
      (o.exec = true → L1.st.tgt = T0.writeFlash bp fp cnt) := by
    rw [e_tgt]
    rcases h.tgt with h0 | h1
    · cases o.exec
      · simp only [Bool.false_eq_true, if_false, h0, true_or, false_imp_iff, and_true, true_and]
        intro hh; exact hh
      · simp [h0]
    · cases o.exec <;> simp [h1, Target.writeFlash_idem]
  obtain ⟨ht1, ht2, ht3⟩ := htgt'
  have hst' : r.1.st = ⟨L1.st.tgt, L1.st.script, []⟩ := hst
  refine ⟨⟨by rw [hst'], by rw [hst']; exact ht1, ?_, by rw [hst']; simp only; rw [e_scr, ← hdrop]; exact hrg⟩,
    hsent.trans e_sent, by rw [hst']; exact e_scr⟩
  intro p hp hpos
  have hmem := hpool p hp
  rw [hst']
  simp only [e_inb, e_late, List.mem_append] at hmem
  have hrep : p ∈ L.inbox ∨ o.reply = some p := by
    rcases hmem with (h1 | h2) | h3
    · exact Or.inl h1
    · right
      split at h2
      · cases h2
      · simpa [Option.mem_toList] using h2
    · right
      split at h3
      · simpa [Option.mem_toList] using h3
      · cases h3
  rcases hrep with h1 | h2
  · exact ht2 (h.pos p (Or.inr h1) hpos)
  · exact ht3 (hog p h2 hpos)


theorem retryLoop_inv (tid bp fp cnt : Nat) (ht : tid < 256) (hb : bp < 65536) (hf : fp < 65536)
    (hn : cnt < 65536) (T0 : Target) :
    ∀ (n : Nat) (pk : Option Pkt) (L : Link Env), WInv tid T0 (T0.writeFlash bp fp cnt) pk L →
      ∃ L' m pk' k, retryLoop (targetPeer tid) (tid : Int) (bp : Int) (fp : Int) (cnt : Int) n pk L =
          (L', .ok (m, pk')) ∧
        WInv tid T0 (T0.writeFlash bp fp cnt) pk' L' ∧ (0 < m → accepts tid pk' = true) ∧ m + k = n ∧
        L'.sent = L.sent ++ List.replicate k (writePkt tid bp fp cnt) ∧
        L'.st.script = L.st.script.drop k ∧ (pk = none → 0 < n → 0 < k) := by
  intro n
  induction n with
  | zero =>
    intro pk L h
    refine ⟨L, 0, pk, 0, ?_, h, by omega, rfl, by simp, by simp, by omega⟩
    simp [retryLoop, needRetry_eq tid ht]
  | succ n ih =>
    intro pk L h
    by_cases ha : accepts tid pk = true
    · refine ⟨L, n + 1, pk, 0, ?_, h, fun _ => ha, rfl, by simp, by simp, ?_⟩
      · simp [retryLoop, needRetry_eq tid ht, ha]
      · intro hpk; subst hpk; simp [accepts] at ha
    · obtain ⟨hinv, hsent, hscr⟩ := step_inv tid bp fp cnt ht hb hf hn T0 pk L h
      obtain ⟨L', m, pk', k, hrun, hinv', hacc, hmk, hsent', hscr', _⟩ := ih _ _ hinv
      refine ⟨L', m, pk', k + 1, ?_, hinv', hacc, by omega, ?_, ?_, fun _ _ => by omega⟩
      · have ha' : accepts tid pk = false := by simpa using ha
        simp only [retryLoop, needRetry_eq tid ht, ha', Bool.not_false,
          writeData_ok tid bp fp cnt ht hb hf hn]
        have : (⟨bootHdr, (writePkt tid bp fp cnt).data⟩ : Pkt) = writePkt tid bp fp cnt := by
          simp [writePkt, bootHdr_eq]
        rw [this]
        exact hrun
      · rw [hsent', hsent, List.replicate_succ]; simp
      · rw [hscr', hscr]; simp


theorem drain_eq (l : List Pkt) : drain l = [] := by
  induction l with
  | nil => rfl
  | cons _ _ ih => simpa [drain] using ih

theorem writeFlash_env (tid bp fp cnt : Nat) (ht : tid < 256) (hb : bp < 65536) (hf : fp < 65536)
    (hn : cnt < 65536) (L : Link Env) (hlate : L.st.lateQ = []) (hgen : ScriptGenuine tid L.st.script) :
    ∃ L' r k, writeFlash (targetPeer tid) L (tid : Int) (bp : Int) (fp : Int) (cnt : Int) = (L', r) ∧
      L'.st.lateQ = [] ∧ ScriptGenuine tid L'.st.script ∧
      (L'.st.tgt = L.st.tgt ∨ L'.st.tgt = L.st.tgt.writeFlash bp fp cnt) ∧
      (∀ c, r = .ok (true, c) → L'.st.tgt = L.st.tgt.writeFlash bp fp cnt) ∧
      1 ≤ k ∧ k ≤ Gen.C12.retryInit + 1 ∧
      L'.sent = L.sent ++ List.replicate k (writePkt tid bp fp cnt) ∧
      L'.st.script = L.st.script.drop k := by
  have h0 : WInv tid L.st.tgt (L.st.tgt.writeFlash bp fp cnt) none
      (⟨L.st, drain L.inbox, L.sent⟩ : Link Env) :=
    ⟨hlate, Or.inl rfl, by intro p hp; rw [drain_eq] at hp; simp at hp, hgen⟩
  obtain ⟨L', m, pk', k, hrun, hinv, hacc, hmk, hsent, hscr, hk⟩ :=
    retryLoop_inv tid bp fp cnt ht hb hf hn L.st.tgt (Gen.C12.retryInit + 1) none _ h0
  have hk1 : 1 ≤ k := hk rfl (by omega)
  unfold writeFlash
  simp only [hrun]
  have hfalse : ∀ (r : Except PyErr (Bool × Int)), (∀ c, r ≠ .ok (true, c)) →
      ∃ L'' r' k', (L', r) = (L'', r') ∧ L''.st.lateQ = [] ∧ ScriptGenuine tid L''.st.script ∧
      (L''.st.tgt = L.st.tgt ∨ L''.st.tgt = L.st.tgt.writeFlash bp fp cnt) ∧
      (∀ c, r' = .ok (true, c) → L''.st.tgt = L.st.tgt.writeFlash bp fp cnt) ∧
      1 ≤ k' ∧ k' ≤ Gen.C12.retryInit + 1 ∧
      L''.sent = L.sent ++ List.replicate k' (writePkt tid bp fp cnt) ∧
      L''.st.script = L.st.script.drop k' := by
    intro r hr
    exact ⟨L', r, k, rfl, hinv.late, hinv.gen, hinv.tgt, fun c hc => absurd hc (hr c), hk1, by omega, hsent, hscr⟩
  cases m with
  | zero => exact hfalse _ (by intro c hc; simp at hc)
  | succ m =>
    have hacc' := hacc (by omega)
    cases pk' with
    | none => simp [accepts] at hacc'
    | some p =>
      simp only
      cases h3 : p.data[3]? with
      | none => exact hfalse _ (by intro c hc; simp at hc)
      | some c3 =>
        cases h2 : p.data[2]? with
        | none => exact hfalse _ (by intro c hc; simp at hc)
        | some s =>
          refine ⟨L', _, k, rfl, hinv.late, hinv.gen, hinv.tgt, ?_, hk1, by omega, hsent, hscr⟩
          intro c hc
          simp only [Except.ok.injEq, Prod.mk.injEq, beq_iff_eq] at hc
          apply hinv.pos p (Or.inl rfl)
          simp only [accepts, Bool.and_eq_true, beq_iff_eq] at hacc'
          refine ⟨hacc'.1, hacc'.2, ?_⟩
          rw [h2]
          congr 1
          have : s.toNat = (1 : UInt8).toNat := hc.1
          exact UInt8.toNat_inj.mp this

end CfVerif.C12

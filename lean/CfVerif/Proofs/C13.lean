/-
Proofs/C13: helper lemmas for the C13 property theorems.
-/
import CfVerif.Proofs.C13H00
import CfVerif.Proofs.C13H01
import CfVerif.Proofs.C13H02
import CfVerif.Proofs.C13H03
import CfVerif.Proofs.C13H04
import CfVerif.Proofs.C13H05
import CfVerif.Proofs.C13H06
import CfVerif.Proofs.C13H07
import CfVerif.Proofs.C13H08
import CfVerif.Proofs.C13H09
import CfVerif.Proofs.C13H10
import CfVerif.Proofs.C13H11
import CfVerif.Proofs.C13H12
import CfVerif.Proofs.C13H13
import CfVerif.Proofs.C13H14
import CfVerif.Proofs.C13H15
import CfVerif.Model.C13
namespace CfVerif.C13
open CfVerif CfVerif.C13.Spec

/-- all 65 536 patterns (lifted from the 16 kernel-evaluated chunks) -/
theorem half_all (h : Nat) (hh : h < 65536) : halfOk h = true ∧ halfOkSigned h = true := by
  have key : ∀ c lo, checkRange lo 4096 = true → lo = c * 4096 → h / 4096 = c → halfOk h = true ∧ halfOkSigned h = true := by
    intro c lo hc hlo hq
    exact checkRange_spec hc h (by omega) (by omega)
  have hq : h / 4096 < 16 := by omega
  rcases Nat.lt_or_ge (h / 4096) 8 with h8 | h8
  · rcases Nat.lt_or_ge (h / 4096) 4 with h4 | h4
    · rcases Nat.lt_or_ge (h / 4096) 2 with h2 | h2
      · rcases Nat.lt_or_ge (h / 4096) 1 with h1 | h1
        · exact key 0 _ half_chunk_00 rfl (by omega)
        · exact key 1 _ half_chunk_01 rfl (by omega)
      · rcases Nat.lt_or_ge (h / 4096) 3 with h1 | h1
        · exact key 2 _ half_chunk_02 rfl (by omega)
        · exact key 3 _ half_chunk_03 rfl (by omega)
    · rcases Nat.lt_or_ge (h / 4096) 6 with h2 | h2
      · rcases Nat.lt_or_ge (h / 4096) 5 with h1 | h1
        · exact key 4 _ half_chunk_04 rfl (by omega)
        · exact key 5 _ half_chunk_05 rfl (by omega)
      · rcases Nat.lt_or_ge (h / 4096) 7 with h1 | h1
        · exact key 6 _ half_chunk_06 rfl (by omega)
        · exact key 7 _ half_chunk_07 rfl (by omega)
  · rcases Nat.lt_or_ge (h / 4096) 12 with h4 | h4
    · rcases Nat.lt_or_ge (h / 4096) 10 with h2 | h2
      · rcases Nat.lt_or_ge (h / 4096) 9 with h1 | h1
        · exact key 8 _ half_chunk_08 rfl (by omega)
        · exact key 9 _ half_chunk_09 rfl (by omega)
      · rcases Nat.lt_or_ge (h / 4096) 11 with h1 | h1
        · exact key 10 _ half_chunk_10 rfl (by omega)
        · exact key 11 _ half_chunk_11 rfl (by omega)
    · rcases Nat.lt_or_ge (h / 4096) 14 with h2 | h2
      · rcases Nat.lt_or_ge (h / 4096) 13 with h1 | h1
        · exact key 12 _ half_chunk_12 rfl (by omega)
        · exact key 13 _ half_chunk_13 rfl (by omega)
      · rcases Nat.lt_or_ge (h / 4096) 15 with h1 | h1
        · exact key 14 _ half_chunk_14 rfl (by omega)
        · exact key 15 _ half_chunk_15 rfl (by omega)

theorem fp16_exact_aux (h : Nat) (hh : h < 65536) :
    ∃ bits, fp16ToFloat (h : Int) = .ok (.f32 bits) ∧ bits < 2 ^ 32 ∧
      (singleValue bits).same (halfValue h) = true := by
  have h1 := (half_all h hh).1
  unfold halfOk at h1
  unfold fp16ToFloat ofRet
  cases hg : Gen.C13.fp16_to_float (h : Int) with
  | int v => rw [hg] at h1; simp at h1
  | none => rw [hg] at h1; simp at h1
  | fuel => rw [hg] at h1; simp at h1
  | f32 b =>
    rw [hg] at h1
    cases b with
    | negSucc n => simp at h1
    | ofNat n =>
      simp only [Bool.and_eq_true, decide_eq_true_eq] at h1
      exact ⟨n, by simp [reinterpret, h1.1], h1.1, h1.2⟩

theorem fp16_signed_arg_aux (v : Int) (h1 : -32768 ≤ v) (h2 : v < 0) :
    fp16ToFloat v = fp16ToFloat (v + 65536) := by
  obtain ⟨n, rfl⟩ : ∃ n : Nat, v = (n : Int) - 65536 := ⟨(v + 65536).toNat, by omega⟩
  have hn : n < 65536 := by omega
  have h := (half_all n hn).2
  unfold halfOkSigned at h
  have : ¬ n < 32768 := by omega
  simp [this] at h
  unfold fp16ToFloat
  rw [h]; congr 2; omega

end CfVerif.C13

import CfVerif.Proofs.C13Half
namespace CfVerif.C13
/-- half-float patterns 0 … 4095, by kernel evaluation -/
theorem half_chunk_00 : checkRange 0 4096 = true := by decide +kernel
end CfVerif.C13

import CfVerif.Proofs.C13Half
namespace CfVerif.C13
/-- half-float patterns 4096 … 8191, by kernel evaluation -/
theorem half_chunk_01 : checkRange 4096 4096 = true := by decide +kernel
end CfVerif.C13

import CfVerif.Proofs.C13Half
namespace CfVerif.C13
/-- half-float patterns 8192 … 12287, by kernel evaluation -/
theorem half_chunk_02 : checkRange 8192 4096 = true := by decide +kernel
end CfVerif.C13

import CfVerif.Proofs.C13Half
namespace CfVerif.C13
/-- half-float patterns 12288 … 16383, by kernel evaluation -/
theorem half_chunk_03 : checkRange 12288 4096 = true := by decide +kernel
end CfVerif.C13

import CfVerif.Proofs.C13Half
namespace CfVerif.C13
/-- half-float patterns 16384 … 20479, by kernel evaluation -/
theorem half_chunk_04 : checkRange 16384 4096 = true := by decide +kernel
end CfVerif.C13

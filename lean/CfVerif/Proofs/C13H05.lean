import CfVerif.Proofs.C13Half
namespace CfVerif.C13
/-- half-float patterns 20480 … 24575, by kernel evaluation -/
theorem half_chunk_05 : checkRange 20480 4096 = true := by decide +kernel
end CfVerif.C13

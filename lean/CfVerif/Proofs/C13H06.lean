import CfVerif.Proofs.C13Half
namespace CfVerif.C13
/-- half-float patterns 24576 … 28671, by kernel evaluation -/
theorem half_chunk_06 : checkRange 24576 4096 = true := by decide +kernel
end CfVerif.C13

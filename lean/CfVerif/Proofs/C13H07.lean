import CfVerif.Proofs.C13Half
namespace CfVerif.C13
/-- half-float patterns 28672 … 32767, by kernel evaluation -/
theorem half_chunk_07 : checkRange 28672 4096 = true := by decide +kernel
end CfVerif.C13

import CfVerif.Proofs.C13Half
namespace CfVerif.C13
/-- half-float patterns 32768 … 36863, by kernel evaluation -/
theorem half_chunk_08 : checkRange 32768 4096 = true := by decide +kernel
end CfVerif.C13

import CfVerif.Proofs.C13Half
namespace CfVerif.C13
/-- half-float patterns 36864 … 40959, by kernel evaluation -/
theorem half_chunk_09 : checkRange 36864 4096 = true := by decide +kernel
end CfVerif.C13

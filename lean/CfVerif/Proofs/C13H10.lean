import CfVerif.Proofs.C13Half
namespace CfVerif.C13
/-- half-float patterns 40960 … 45055, by kernel evaluation -/
theorem half_chunk_10 : checkRange 40960 4096 = true := by decide +kernel
end CfVerif.C13

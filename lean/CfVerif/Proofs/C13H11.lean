import CfVerif.Proofs.C13Half
namespace CfVerif.C13
/-- half-float patterns 45056 … 49151, by kernel evaluation -/
theorem half_chunk_11 : checkRange 45056 4096 = true := by decide +kernel
end CfVerif.C13

import CfVerif.Proofs.C13Half
namespace CfVerif.C13
/-- half-float patterns 49152 … 53247, by kernel evaluation -/
theorem half_chunk_12 : checkRange 49152 4096 = true := by decide +kernel
end CfVerif.C13

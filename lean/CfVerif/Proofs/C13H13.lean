import CfVerif.Proofs.C13Half
namespace CfVerif.C13
/-- half-float patterns 53248 … 57343, by kernel evaluation -/
theorem half_chunk_13 : checkRange 53248 4096 = true := by decide +kernel
end CfVerif.C13

import CfVerif.Proofs.C13Half
namespace CfVerif.C13
/-- half-float patterns 57344 … 61439, by kernel evaluation -/
theorem half_chunk_14 : checkRange 57344 4096 = true := by decide +kernel
end CfVerif.C13

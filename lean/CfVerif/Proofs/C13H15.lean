import CfVerif.Proofs.C13Half
namespace CfVerif.C13
/-- half-float patterns 61440 … 65535, by kernel evaluation -/
theorem half_chunk_15 : checkRange 61440 4096 = true := by decide +kernel
end CfVerif.C13

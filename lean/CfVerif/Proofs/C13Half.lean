/-
Proofs/C13Half: the Bool-valued checker behind `fp16_exact` (finite-core pattern), stated directly on the translated
function of Gen/C13 so that the chunks are rebuilt only when the source changes.  The 65 536 patterns are
checked by kernel evaluation in 16 chunks (Proofs/C13H00 … C13H15, built in parallel).
-/
import CfVerif.Gen.C13
import CfVerif.Spec.C13
namespace CfVerif.C13
open CfVerif CfVerif.C13.Spec

/-- pattern `h`: the decoder returns a float whose binary32 value is the binary16 value of `h` -/
def halfOk (h : Nat) : Bool :=
  match Gen.C13.fp16_to_float (h : Int) with
  | .f32 (.ofNat bits) => bits < 2 ^ 32 && (singleValue bits).same (halfValue h)
  | _ => false

/-- the signed reading of the same 16 bits (`struct` code `h`, as `_decode_lh_angle` passes it) decodes identically -/
def halfOkSigned (h : Nat) : Bool :=
  h < 32768 || Gen.C13.fp16_to_float ((h : Int) - 65536) == Gen.C13.fp16_to_float (h : Int)

def checkRange (lo n : Nat) : Bool :=
  (List.range n).all fun i => halfOk (lo + i) && halfOkSigned (lo + i)

theorem checkRange_spec {lo n : Nat} (hc : checkRange lo n = true) (h : Nat) (h1 : lo ≤ h) (h2 : h < lo + n) :
    halfOk h = true ∧ halfOkSigned h = true := by
  unfold checkRange at hc
  rw [List.all_eq_true] at hc
  have := hc (h - lo) (List.mem_range.mpr (by omega))
  have e : lo + (h - lo) = h := by omega
  rw [e] at this
  simpa using this

end CfVerif.C13

/-
Proofs/C13Hist: repeated use of one object — every call in a history, not only the first.  Core Lean only.
-/
import CfVerif.Model.C13
namespace CfVerif.C13
open CfVerif

theorem pack_state (e : TrajElem) : e.pack.1 = e := by cases e <;> rfl

theorem packN_idem (e : TrajElem) (n : Nat) : packN e n = (e, List.replicate n e.pack.2) := by
  induction n with
  | zero => rfl
  | succ n ih => simp only [packN, pack_state, ih, List.replicate_succ]

theorem writeTraj_state (els : List TrajElem) : (writeTraj els).1 = els := by
  induction els with
  | nil => rfl
  | cons e es ih =>
    simp only [writeTraj]
    split <;> simp [pack_state, ih]

theorem uploadN_idem (els : List TrajElem) (n : Nat) : uploadN els n = (els, List.replicate n (writeTraj els).2) := by
  induction n with
  | zero => rfl
  | succ n ih => simp only [uploadN, writeTraj_state, ih, List.replicate_succ]

/-- the bytes of every element, or the first exception -/
def packAll : List TrajElem → Except PyErr (List (List UInt8))
  | [] => .ok []
  | e :: es =>
    match e.pack.2 with
    | .error err => .error err
    | .ok a => (packAll es).map (a :: ·)

theorem writeTraj_eq (els : List TrajElem) : (writeTraj els).2 = (packAll els).map List.flatten := by
  induction els with
  | nil => rfl
  | cons e es ih =>
    simp only [writeTraj, packAll]
    cases h : e.pack.2 with
    | error err => rfl
    | ok a =>
      simp only [ih]
      cases packAll es <;> simp [Except.map]

/-- state after a history of operations on one LED ring object -/
def ledFinal (s : List Led) : List LedOp → List Led
  | [] => s
  | op :: ops => ledFinal (ledStep s op).1 ops

theorem ledRun_append (s : List Led) (a b : List LedOp) : ledRun s (a ++ b) = ledRun s a ++ ledRun (ledFinal s a) b := by
  induction a generalizing s with
  | nil => rfl
  | cons op ops ih =>
    simp only [List.cons_append, ledRun, ledFinal]
    cases h : (ledStep s op).2 <;> simp [ih]

theorem ledFinal_ignores_writes (s : List Led) (ops : List LedOp) :
    ledFinal s ops = ledFinal s (ops.filter (· ≠ LedOp.write)) := by
  induction ops generalizing s with
  | nil => rfl
  | cons op ops ih =>
    cases op with
    | write => simp [ledFinal, ledStep, ih]
    | set i r g b it => simp [ledFinal, ih]
    | intensity i v => simp [ledFinal, ih]

theorem ledRun_writes (s : List Led) (n : Nat) : ledRun s (List.replicate n LedOp.write) = List.replicate n (ledWriteData s) := by
  induction n with
  | zero => rfl
  | succ n ih => simp [List.replicate_succ, ledRun, ledStep, ih]

theorem timingRun_writes (s : List Timing) (n : Nat) :
    timingRun s (List.replicate n TimingOp.write) = List.replicate n (timingsWriteData s) := by
  induction n with
  | zero => rfl
  | succ n ih => simp [List.replicate_succ, timingRun, ih]

theorem timingRun_append_write (s : List Timing) (adds : List Timing) (ops : List TimingOp) :
    timingRun s (adds.map TimingOp.add ++ TimingOp.write :: ops) =
      timingsWriteData (s ++ adds) :: timingRun (s ++ adds) ops := by
  induction adds generalizing s with
  | nil => simp [timingRun]
  | cons t ts ih => simp [timingRun, ih]

end CfVerif.C13

/-
Proofs/C13Led: facts about the RGB888 -> RGB565 mapping, lifted from the kernel-evaluated finite tables.  Core Lean only.
-/
import CfVerif.Proofs.C13LedP0
import CfVerif.Proofs.C13LedP1
import CfVerif.Proofs.C13LedP2
import CfVerif.Proofs.C13LedP3
import CfVerif.Proofs.C13LedT
namespace CfVerif.C13
open CfVerif

theorem led_divisors : 0 < Gen.C13.ledR5Divisor ∧ 0 < Gen.C13.ledG6Divisor ∧ 0 < Gen.C13.ledB5Divisor := by decide

theorem ledLevel (c : Nat) (hc : c < 256) : ledLevelOk c = true := by
  have h := led_levels
  rw [List.all_eq_true] at h
  exact h c (List.mem_range.mpr hc)

theorem ledScale (v i : Nat) (hv : v < 64) (hi : i ≤ 100) :
    ledScaleOk Gen.C13.ledR5Divisor v i = true ∧ ledScaleOk Gen.C13.ledG6Divisor v i = true ∧
    ledScaleOk Gen.C13.ledB5Divisor v i = true := by
  have h := led_scales
  rw [List.all_eq_true] at h
  have h1 := h v (List.mem_range.mpr hv)
  rw [List.all_eq_true] at h1
  have := h1 i (List.mem_range.mpr (by omega))
  simp only [Bool.and_eq_true] at this
  exact ⟨this.1.1, this.1.2, this.2⟩

theorem ledPackCell (r g b : Nat) (hr : r < 32) (hg : g < 64) (hb : b < 32) : ledPackOk r g b = true := by
  rcases Nat.lt_or_ge r 16 with h16 | h16
  · rcases Nat.lt_or_ge r 8 with h8 | h8
    · exact ledPackRange_spec led_pack_chunk_0 r g b (by omega) (by omega) hg hb
    · exact ledPackRange_spec led_pack_chunk_1 r g b (by omega) (by omega) hg hb
  · rcases Nat.lt_or_ge r 24 with h8 | h8
    · exact ledPackRange_spec led_pack_chunk_2 r g b (by omega) (by omega) hg hb
    · exact ledPackRange_spec led_pack_chunk_3 r g b (by omega) (by omega) hg hb

/-- the scaled channel values as plain naturals: `component(c) * intensity / 100` (integer division) -/
def ledChanR (c i : Nat) : Nat := (Gen.C13.ledR5 c).toNat * i / Gen.C13.ledR5Divisor
def ledChanG (c i : Nat) : Nat := (Gen.C13.ledG6 c).toNat * i / Gen.C13.ledG6Divisor
def ledChanB (c i : Nat) : Nat := (Gen.C13.ledB5 c).toNat * i / Gen.C13.ledB5Divisor

theorem mono_of_step (f : Nat → Int) (n : Nat) (h : ∀ c, c < n → f c ≤ f (c + 1)) :
    ∀ c c', c ≤ c' → c' ≤ n → f c ≤ f c' := by
  intro c c' hcc hn
  induction c' with
  | zero => have : c = 0 := by omega
            subst this; exact Int.le_refl _
  | succ k ih =>
    rcases Nat.lt_or_ge c (k + 1) with hlt | hge
    · exact Int.le_trans (ih (by omega) (by omega)) (h k (by omega))
    · have : c = k + 1 := by omega
      subst this; exact Int.le_refl _

theorem level_facts (fR fG fB : Int → Int) (c : Nat) (h : levelOk fR fG fB c = true) :
    (0 ≤ fR c ∧ fR c ≤ 31 ∧ 0 ≤ fG c ∧ fG c ≤ 63 ∧ 0 ≤ fB c ∧ fB c ≤ 31) ∧
    (c < 255 → fR c ≤ fR (c + 1 : Nat) ∧ fG c ≤ fG (c + 1 : Nat) ∧ fB c ≤ fB (c + 1 : Nat)) := by
  unfold levelOk at h
  simp only [Bool.and_eq_true, Bool.or_eq_true, decide_eq_true_eq, beq_iff_eq] at h
  obtain ⟨⟨⟨⟨⟨⟨a1, a2⟩, a3⟩, a4⟩, a5⟩, a6⟩, hm⟩ := h
  refine ⟨⟨a1, a2, a3, a4, a5, a6⟩, ?_⟩
  intro hlt
  rcases hm with hm | hm
  · omega
  · exact ⟨hm.1.1, hm.1.2, hm.2⟩

theorem ledLevel_facts (c : Nat) (hc : c < 256) :
    (0 ≤ Gen.C13.ledR5 c ∧ Gen.C13.ledR5 c ≤ 31 ∧ 0 ≤ Gen.C13.ledG6 c ∧ Gen.C13.ledG6 c ≤ 63 ∧
      0 ≤ Gen.C13.ledB5 c ∧ Gen.C13.ledB5 c ≤ 31) ∧
    (c < 255 → Gen.C13.ledR5 c ≤ Gen.C13.ledR5 (c + 1 : Nat) ∧ Gen.C13.ledG6 c ≤ Gen.C13.ledG6 (c + 1 : Nat) ∧
      Gen.C13.ledB5 c ≤ Gen.C13.ledB5 (c + 1 : Nat)) := by
  have h := ledLevel c hc
  unfold ledLevelOk at h
  rw [Bool.and_eq_true] at h
  exact level_facts _ _ _ c h.1

theorem ledtLevel_facts (c : Nat) (hc : c < 256) :
    (0 ≤ Gen.C13.ledtR5 c ∧ Gen.C13.ledtR5 c ≤ 31 ∧ 0 ≤ Gen.C13.ledtG6 c ∧ Gen.C13.ledtG6 c ≤ 63 ∧
      0 ≤ Gen.C13.ledtB5 c ∧ Gen.C13.ledtB5 c ≤ 31) ∧
    (c < 255 → Gen.C13.ledtR5 c ≤ Gen.C13.ledtR5 (c + 1 : Nat) ∧ Gen.C13.ledtG6 c ≤ Gen.C13.ledtG6 (c + 1 : Nat) ∧
      Gen.C13.ledtB5 c ≤ Gen.C13.ledtB5 (c + 1 : Nat)) := by
  have h := ledLevel c hc
  unfold ledLevelOk at h
  rw [Bool.and_eq_true] at h
  exact level_facts _ _ _ c h.2

theorem led_comp_mono (c c' : Nat) (h : c ≤ c') (hc' : c' < 256) :
    Gen.C13.ledR5 c ≤ Gen.C13.ledR5 c' ∧ Gen.C13.ledG6 c ≤ Gen.C13.ledG6 c' ∧ Gen.C13.ledB5 c ≤ Gen.C13.ledB5 c' := by
  refine ⟨mono_of_step (fun n => Gen.C13.ledR5 n) 255 ?_ c c' h (by omega),
          mono_of_step (fun n => Gen.C13.ledG6 n) 255 ?_ c c' h (by omega),
          mono_of_step (fun n => Gen.C13.ledB5 n) 255 ?_ c c' h (by omega)⟩
  · intro k hk; exact ((ledLevel_facts k (by omega)).2 hk).1
  · intro k hk; exact ((ledLevel_facts k (by omega)).2 hk).2.1
  · intro k hk; exact ((ledLevel_facts k (by omega)).2 hk).2.2

/-- the timings driver's channel values (no intensity) -/
def ledtChanR (c : Nat) : Nat := (Gen.C13.ledtR5 c).toNat
def ledtChanG (c : Nat) : Nat := (Gen.C13.ledtG6 c).toNat
def ledtChanB (c : Nat) : Nat := (Gen.C13.ledtB5 c).toNat

theorem ledtChan_mono (c c' : Nat) (h : c ≤ c') (hc' : c' < 256) :
    ledtChanR c ≤ ledtChanR c' ∧ ledtChanG c ≤ ledtChanG c' ∧ ledtChanB c ≤ ledtChanB c' := by
  have m1 := mono_of_step (fun n => Gen.C13.ledtR5 n) 255 (fun k hk => ((ledtLevel_facts k (by omega)).2 hk).1) c c' h (by omega)
  have m2 := mono_of_step (fun n => Gen.C13.ledtG6 n) 255 (fun k hk => ((ledtLevel_facts k (by omega)).2 hk).2.1) c c' h (by omega)
  have m3 := mono_of_step (fun n => Gen.C13.ledtB5 n) 255 (fun k hk => ((ledtLevel_facts k (by omega)).2 hk).2.2) c c' h (by omega)
  obtain ⟨⟨a1, _, a3, _, a5, _⟩, _⟩ := ledtLevel_facts c (by omega)
  unfold ledtChanR ledtChanG ledtChanB
  omega

theorem div_mono_both {a a' i i' d : Nat} (ha : a ≤ a') (hi : i ≤ i') : a * i / d ≤ a' * i' / d :=
  Nat.div_le_div_right (Nat.mul_le_mul ha hi)

theorem ledChan_mono (c c' i i' : Nat) (hc : c ≤ c') (hc' : c' < 256) (hi : i ≤ i') :
    ledChanR c i ≤ ledChanR c' i' ∧ ledChanG c i ≤ ledChanG c' i' ∧ ledChanB c i ≤ ledChanB c' i' := by
  obtain ⟨h1, h2, h3⟩ := led_comp_mono c c' hc hc'
  obtain ⟨⟨a1, _, a3, _, a5, _⟩, _⟩ := ledLevel_facts c (by omega)
  unfold ledChanR ledChanG ledChanB
  exact ⟨div_mono_both (by omega) hi, div_mono_both (by omega) hi, div_mono_both (by omega) hi⟩

theorem led_div100 : Gen.C13.ledR5Divisor = 100 ∧ Gen.C13.ledG6Divisor = 100 ∧ Gen.C13.ledB5Divisor = 100 := by decide

theorem ledChan_le (c i : Nat) (hc : c < 256) (hi : i ≤ 100) :
    ledChanR c i ≤ 31 ∧ ledChanG c i ≤ 63 ∧ ledChanB c i ≤ 31 := by
  obtain ⟨⟨a1, a2, a3, a4, a5, a6⟩, _⟩ := ledLevel_facts c hc
  obtain ⟨d1, d2, d3⟩ := led_div100
  unfold ledChanR ledChanG ledChanB
  rw [d1, d2, d3]
  have key : ∀ v m : Nat, v ≤ m → v * i / 100 ≤ m := by
    intro v m hv
    have : v * i ≤ v * 100 := Nat.mul_le_mul_left v hi
    have : v * i / 100 ≤ v := by
      apply Nat.div_le_of_le_mul; rw [Nat.mul_comm 100 v]; exact this
    omega
  exact ⟨key _ 31 (by omega), key _ 63 (by omega), key _ 31 (by omega)⟩

theorem toBytes_pair (a b : Nat) (ha : a < 256) (hb : b < 256) :
    toBytes [(a : Int), (b : Int)] = .ok [UInt8.ofNat a, UInt8.ofNat b] := by
  show toBytes [Int.ofNat a, Int.ofNat b] = _
  simp [toBytes, ha, hb, Except.map]

/-- the word and bytes produced for one LED with in-range colour levels and intensity -/
theorem led565_eq (r g b i : Nat) (hr : r < 256) (hg : g < 256) (hb : b < 256) (hi : i ≤ 100) :
    let w := ledChanR r i * 2048 + ledChanG g i * 32 + ledChanB b i
    led565 ⟨r, g, b, i⟩ = .ok (w : Int) ∧
    ledBytes ⟨r, g, b, i⟩ = .ok [UInt8.ofNat (w / 256), UInt8.ofNat (w % 256)] := by
  intro w
  obtain ⟨⟨r1, r2, _, _, _, _⟩, _⟩ := ledLevel_facts r hr
  obtain ⟨⟨_, _, g1, g2, _, _⟩, _⟩ := ledLevel_facts g hg
  obtain ⟨⟨_, _, _, _, b1, b2⟩, _⟩ := ledLevel_facts b hb
  have hR := (ledScale (Gen.C13.ledR5 r).toNat i (by omega) hi).1
  have hG := (ledScale (Gen.C13.ledG6 g).toNat i (by omega) hi).2.1
  have hB := (ledScale (Gen.C13.ledB5 b).toNat i (by omega) hi).2.2
  unfold ledScaleOk at hR hG hB
  simp only [beq_iff_eq] at hR hG hB
  rw [Int.toNat_of_nonneg r1] at hR
  rw [Int.toNat_of_nonneg g1] at hG
  rw [Int.toNat_of_nonneg b1] at hB
  obtain ⟨l1, _, _⟩ := ledChan_le r i hr hi
  obtain ⟨_, l2, _⟩ := ledChan_le g i hg hi
  obtain ⟨_, _, l3⟩ := ledChan_le b i hb hi
  have hp := ledPackCell (ledChanR r i) (ledChanG g i) (ledChanB b i) (by omega) (by omega) (by omega)
  unfold ledPackOk at hp
  simp only [Bool.and_eq_true, beq_iff_eq] at hp
  obtain ⟨⟨⟨p1, _⟩, p3⟩, p4⟩ := hp
  have h565 : led565 ⟨r, g, b, i⟩ = .ok (w : Int) := by
    unfold led565
    show (do let r5 ← scaleComp (Gen.C13.ledR5 (r : Int)) i Gen.C13.ledR5Divisor
             let g6 ← scaleComp (Gen.C13.ledG6 (g : Int)) i Gen.C13.ledG6Divisor
             let b5 ← scaleComp (Gen.C13.ledB5 (b : Int)) i Gen.C13.ledB5Divisor
             pure (Gen.C13.ledPack r5 g6 b5)) = _
    rw [hR, hG, hB]
    exact congrArg Except.ok p1
  refine ⟨h565, ?_⟩
  unfold ledBytes
  rw [h565]
  show toBytes [Gen.C13.ledHi (w : Int), Gen.C13.ledLo (w : Int)] = _
  rw [p3, p4]
  exact toBytes_pair _ _ (by omega) (Nat.mod_lt _ (by decide))

/-- the word the timings driver packs for in-range colour levels -/
theorem timing565_eq (t : Timing) (r g b : Nat) (hr : r < 256) (hg : g < 256) (hb : b < 256)
    (htr : t.r = r) (htg : t.g = g) (htb : t.b = b) :
    ledtChanR r ≤ 31 ∧ ledtChanG g ≤ 63 ∧ ledtChanB b ≤ 31 ∧
    timing565 t = ((ledtChanR r * 2048 + ledtChanG g * 32 + ledtChanB b : Nat) : Int) := by
  obtain ⟨⟨r1, r2, _, _, _, _⟩, _⟩ := ledtLevel_facts r hr
  obtain ⟨⟨_, _, g1, g2, _, _⟩, _⟩ := ledtLevel_facts g hg
  obtain ⟨⟨_, _, _, _, b1, b2⟩, _⟩ := ledtLevel_facts b hb
  have hp := ledPackCell (Gen.C13.ledtR5 r).toNat (Gen.C13.ledtG6 g).toNat (Gen.C13.ledtB5 b).toNat (by omega) (by omega) (by omega)
  unfold ledPackOk at hp
  simp only [Bool.and_eq_true, beq_iff_eq] at hp
  obtain ⟨⟨⟨_, p2⟩, _⟩, _⟩ := hp
  rw [Int.toNat_of_nonneg r1, Int.toNat_of_nonneg g1, Int.toNat_of_nonneg b1] at p2
  refine ⟨by unfold ledtChanR; omega, by unfold ledtChanG; omega, by unfold ledtChanB; omega, ?_⟩
  unfold timing565
  rw [htr, htg, htb, p2]
  rfl

end CfVerif.C13

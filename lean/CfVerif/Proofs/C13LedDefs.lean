/-
Proofs/C13LedDefs: Bool-valued checkers for the RGB888 -> RGB565 mapping of the LED-ring drivers (finite-core pattern).
Evaluated by the kernel in Proofs/C13LedP0..P3 (packing of all 65 536 field combinations) and Proofs/C13Led.
-/
import CfVerif.Model.C13
namespace CfVerif.C13
open CfVerif

/-- level `c` of three component expressions: non-negative, within their 5/6/5-bit fields, monotone (adjacent step) -/
def levelOk (fR fG fB : Int → Int) (c : Nat) : Bool :=
  (0 ≤ fR c && fR c ≤ 31 && 0 ≤ fG c && fG c ≤ 63 && 0 ≤ fB c && fB c ≤ 31) &&
  (c == 255 || (fR c ≤ fR (c + 1 : Nat) && fG c ≤ fG (c + 1 : Nat) && fB c ≤ fB (c + 1 : Nat)))

/-- the ring driver's and (independently) the timings driver's component expressions -/
def ledLevelOk (c : Nat) : Bool :=
  levelOk Gen.C13.ledR5 Gen.C13.ledG6 Gen.C13.ledB5 c && levelOk Gen.C13.ledtR5 Gen.C13.ledtG6 Gen.C13.ledtB5 c

/-- component value `v` at intensity `i`: the model's binary64 path `int(v * i / 100)` is plain integer division -/
def ledScaleOk (dv v i : Nat) : Bool := scaleComp (v : Int) i dv == .ok ((v * i / dv : Nat) : Int)

/-- packing of in-range fields: no overlap (`(r << 11) | (g << 5) | b = 2048 r + 32 g + b`), for both drivers,
and the two transmitted items are the big-endian halves of the word -/
def ledPackOk (r g b : Nat) : Bool :=
  let w := r * 2048 + g * 32 + b
  Gen.C13.ledPack r g b == (w : Int) && Gen.C13.ledtPack r g b == (w : Int) &&
  Gen.C13.ledHi (w : Int) == ((w / 256 : Nat) : Int) && Gen.C13.ledLo (w : Int) == ((w % 256 : Nat) : Int)

def ledPackRange (lo n : Nat) : Bool :=
  (List.range n).all (fun r => (List.range 64).all (fun g => (List.range 32).all (fun b => ledPackOk (lo + r) g b)))

theorem ledPackRange_spec {lo n : Nat} (h : ledPackRange lo n = true) (r g b : Nat) (h1 : lo ≤ r) (h2 : r < lo + n)
    (hg : g < 64) (hb : b < 32) : ledPackOk r g b = true := by
  unfold ledPackRange at h
  rw [List.all_eq_true] at h
  have h1' := h (r - lo) (List.mem_range.mpr (by omega))
  rw [List.all_eq_true] at h1'
  have h2' := h1' g (List.mem_range.mpr hg)
  rw [List.all_eq_true] at h2'
  have := h2' b (List.mem_range.mpr hb)
  have e : lo + (r - lo) = r := by omega
  rwa [e] at this

end CfVerif.C13

import CfVerif.Proofs.C13LedDefs
namespace CfVerif.C13
/-- RGB565 packing for red fields 0 … 7, every green and blue field, by kernel evaluation -/
theorem led_pack_chunk_0 : ledPackRange 0 8 = true := by decide +kernel
end CfVerif.C13

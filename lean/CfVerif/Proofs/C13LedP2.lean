import CfVerif.Proofs.C13LedDefs
namespace CfVerif.C13
/-- RGB565 packing for red fields 16 … 23, every green and blue field, by kernel evaluation -/
theorem led_pack_chunk_2 : ledPackRange 16 8 = true := by decide +kernel
end CfVerif.C13

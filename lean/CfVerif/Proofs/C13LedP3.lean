import CfVerif.Proofs.C13LedDefs
namespace CfVerif.C13
/-- RGB565 packing for red fields 24 … 31, every green and blue field, by kernel evaluation -/
theorem led_pack_chunk_3 : ledPackRange 24 8 = true := by decide +kernel
end CfVerif.C13

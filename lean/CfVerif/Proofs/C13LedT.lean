/- Proofs/C13LedT: the level table (256) and the intensity-scaling table (64 x 101), by kernel evaluation. -/
import CfVerif.Proofs.C13LedDefs
namespace CfVerif.C13
open CfVerif

theorem led_levels : (List.range 256).all ledLevelOk = true := by decide +kernel

theorem led_scales : (List.range 64).all (fun v => (List.range 101).all (fun i =>
    ledScaleOk Gen.C13.ledR5Divisor v i && ledScaleOk Gen.C13.ledG6Divisor v i && ledScaleOk Gen.C13.ledB5Divisor v i)) = true := by
  decide +kernel

end CfVerif.C13

/-
Proofs/C13Loc: decoding of the range-report and lighthouse angle-stream packets.  Core Lean only.
-/
import CfVerif.Proofs.C13
import CfVerif.Base.StructLemmas
namespace CfVerif.C13
open CfVerif CfVerif.C13.Spec

/-- the dict a range report builds: later entries for the same anchor overwrite earlier ones -/
def dictOf (anchors : List (Nat × Nat)) : List (Nat × Nat) :=
  anchors.foldl (fun d a => dictSet d a.1 a.2) []

theorem inc_fmts : parseFmt! (Gen.C13.incFmts.getD 0 "") = [Code.B] ∧ parseFmt! (Gen.C13.incFmts.getD 1 "") = [Code.B, Code.f] ∧
    parseFmt! Gen.C13.lhFmt = [Code.B, Code.f, Code.h, Code.h, Code.h, Code.f, Code.h, Code.h, Code.h] := by decide

theorem unpack_cons_append (c : Code) (cs : Fmt) (a r : List UInt8) (ha : a.length = c.size) (hv : c.takesVal = true) :
    unpack (c :: cs) (a ++ r) = (unpack cs r).map (fun rest => unpackOne c a :: rest) := by
  have h1 : ¬ (a ++ r).length < c.size := by simp [ha]
  have h2 : (a ++ r).drop c.size = r := by rw [← ha]; exact List.drop_left
  have h3 : (a ++ r).take c.size = a := by rw [← ha]; exact List.take_left
  simp only [unpack, h1, if_false, h2, h3, hv, if_true, bind, Except.bind, pure, Except.pure]
  cases unpack cs r <;> rfl

theorem leVal4 (d : Nat) (hd : d < 2 ^ 32) : leVal (leBytes 4 d) = d :=
  leVal_leBytes_of_lt (by have : (256 : Nat) ^ 4 = 2 ^ 32 := by decide
                          omega)

theorem unpack_Bf (i : UInt8) (d : Nat) (hd : d < 2 ^ 32) :
    unpack [Code.B, Code.f] (i :: leBytes 4 d) = .ok [.int i.toNat, .flt d] := by
  have e : i :: leBytes 4 d = [i] ++ (leBytes 4 d ++ []) := by simp
  rw [e, unpack_cons_append _ _ _ _ rfl rfl, unpack_cons_append _ _ _ _ (by simp [Code.size]) rfl]
  simp [unpack, Except.map, unpackOne, leVal, leVal4 d hd]

def encAnchors (anchors : List (Nat × Nat)) : List UInt8 :=
  (anchors.map fun a => UInt8.ofNat a.1 :: leBytes 4 a.2).flatten

theorem encAnchors_length (anchors : List (Nat × Nat)) : (encAnchors anchors).length = 5 * anchors.length := by
  induction anchors with
  | nil => rfl
  | cons a as ih => simp [encAnchors] at ih ⊢; omega

theorem decodeRanges_enc (anchors : List (Nat × Nat)) (h : ∀ a ∈ anchors, a.1 < 256 ∧ a.2 < 2 ^ 32) (d : List (Nat × Nat)) :
    decodeRanges anchors.length (encAnchors anchors) d = .ok (anchors.foldl (fun d a => dictSet d a.1 a.2) d) := by
  induction anchors generalizing d with
  | nil => rfl
  | cons a as ih =>
    obtain ⟨h1, h2⟩ := h a List.mem_cons_self
    have e : encAnchors (a :: as) = (UInt8.ofNat a.1 :: leBytes 4 a.2) ++ encAnchors as := by simp [encAnchors]
    have ht : (encAnchors (a :: as)).take 5 = UInt8.ofNat a.1 :: leBytes 4 a.2 := by
      rw [e]; exact List.take_left' (by simp)
    have hdrop : (encAnchors (a :: as)).drop 5 = encAnchors as := by
      rw [e]; exact List.drop_left' (by simp)
    have hid : (UInt8.ofNat a.1).toNat = a.1 := by simp; omega
    simp only [List.length_cons, decodeRanges, inc_fmts.2.1, ht, unpack_Bf _ _ h2, hdrop, hid, Int.toNat_natCast, List.foldl_cons]
    exact ih (fun b hb => h b (List.mem_cons_of_mem _ hb)) _

theorem incoming_range (anchors : List (Nat × Nat)) (h : ∀ a ∈ anchors, a.1 < 256 ∧ a.2 < 2 ^ 32) :
    incoming (encodeRangeReport anchors) = .ok (.packet 0 (encAnchors anchors) (.ranges (dictOf anchors))) := by
  have he : encodeRangeReport anchors = 0 :: encAnchors anchors := rfl
  have hu : unpack [Code.B] [(0 : UInt8)] = .ok [.int 0] := by decide
  have ht : Gen.C13.locRangeStreamReport = 0 := by decide
  have hl := encAnchors_length anchors
  have hmod : ¬ (encAnchors anchors).length % 5 ≠ 0 := by rw [hl]; omega
  have hdiv : (encAnchors anchors).length / 5 = anchors.length := by rw [hl]; omega
  unfold incoming
  rw [he]
  simp only [List.length_cons, List.take_succ_cons, List.take_zero, inc_fmts.1, hu, List.drop_succ_cons, List.drop_zero,
    Int.toNat_zero, ht, if_true, hmod, if_false, hdiv, decodeRanges_enc anchors h, Except.map, dictOf]
  simp

theorem dictSet_of_new (d : List (Nat × Nat)) (k v : Nat) (h : ∀ e ∈ d, e.1 ≠ k) : dictSet d k v = d ++ [(k, v)] := by
  unfold dictSet
  rw [if_neg]
  simp only [List.any_eq_true, beq_iff_eq, not_exists, not_and]
  intro e he; exact h e he

/-- with pairwise distinct anchor ids the decoded dict is exactly the reported list -/
theorem foldl_dictSet_nodup (anchors d : List (Nat × Nat)) (hn : (anchors.map (·.1)).Nodup)
    (hd : ∀ a ∈ anchors, ∀ e ∈ d, e.1 ≠ a.1) :
    anchors.foldl (fun d a => dictSet d a.1 a.2) d = d ++ anchors := by
  induction anchors generalizing d with
  | nil => simp
  | cons a as ih =>
    simp only [List.map_cons, List.nodup_cons] at hn
    simp only [List.foldl_cons]
    rw [dictSet_of_new d a.1 a.2 (fun e he => hd a List.mem_cons_self e he)]
    rw [ih (d ++ [(a.1, a.2)]) hn.2]
    · simp
    · intro b hb e he
      rcases List.mem_append.mp he with he | he
      · exact hd b (List.mem_cons_of_mem _ hb) e he
      · simp only [List.mem_singleton] at he
        subst he
        intro heq
        exact hn.1 (List.mem_map.mpr ⟨b, hb, heq.symm⟩)

theorem dictOf_nodup (anchors : List (Nat × Nat)) (hn : (anchors.map (·.1)).Nodup) : dictOf anchors = anchors := by
  unfold dictOf
  rw [foldl_dictSet_nodup anchors [] hn (by simp)]
  simp

theorem lookup_map_replace (d : List (Nat × Nat)) (k v k' : Nat) :
    (d.map (fun e => if e.1 == k then (k, v) else e)).lookup k' =
      if k' = k then (if d.any (·.1 == k) then some v else none) else d.lookup k' := by
  induction d with
  | nil => simp
  | cons e es ih =>
    obtain ⟨a, b⟩ := e
    simp only [beq_iff_eq] at ih
    by_cases hak : a = k
    · subst hak
      by_cases hk : k' = a
      · subst hk; simp
      · have : (k' == a) = false := by simpa using hk
        simp [List.lookup_cons, this, hk, ih]
    · have hak' : (a == k) = false := by simpa using hak
      by_cases hk : k' = k
      · subst hk
        have : (k' == a) = false := by simpa using (Ne.symm hak)
        simp [List.lookup_cons, this, hak, ih]
        simp only [hak', Bool.false_or]
      · by_cases hka : k' = a
        · subst hka; simp [List.lookup_cons, hak, hak', hk]
        · have : (k' == a) = false := by simpa using hka
          simp [List.lookup_cons, this, hak, hak', hk, ih]

theorem lookup_dictSet (d : List (Nat × Nat)) (k v k' : Nat) :
    (dictSet d k v).lookup k' = if k' = k then some v else d.lookup k' := by
  unfold dictSet
  split
  · rename_i h
    rw [lookup_map_replace]
    simp [h]
  · rename_i h
    rw [List.lookup_append]
    by_cases hk : k' = k
    · subst hk
      have hnone : d.lookup k' = none := by
        rw [List.lookup_eq_none_iff]
        intro e he
        simp only [bne_iff_ne, ne_eq]
        intro heq
        apply h
        simp only [List.any_eq_true, beq_iff_eq]
        exact ⟨e, he, heq.symm⟩
      simp [hnone, List.lookup_cons]
    · have : (k' == k) = false := by simpa using hk
      simp [List.lookup_cons, this, hk]

/-- the decoded dict maps each anchor id to the LAST distance reported for it in the packet -/
theorem lookup_foldl_dictSet (anchors d : List (Nat × Nat)) (id : Nat) :
    (anchors.foldl (fun d a => dictSet d a.1 a.2) d).lookup id = (anchors.reverse.lookup id).or (d.lookup id) := by
  induction anchors generalizing d with
  | nil => simp
  | cons a as ih =>
    obtain ⟨a1, a2⟩ := a
    simp only [List.foldl_cons, List.reverse_cons]
    rw [ih, lookup_dictSet, List.lookup_append]
    by_cases h : id = a1
    · have : (id == a1) = true := by simpa using h
      cases hl : List.lookup id as.reverse <;> simp [List.lookup_cons, this, h]
    · have : (id == a1) = false := by simpa using h
      cases hl : List.lookup id as.reverse <;> simp [List.lookup_cons, this, h]

theorem dictOf_lookup (anchors : List (Nat × Nat)) (id : Nat) :
    (dictOf anchors).lookup id = anchors.reverse.lookup id := by
  unfold dictOf
  rw [lookup_foldl_dictSet]
  simp

/-! ### lighthouse angle stream -/

/-- the binary32 pattern that `fp16_to_float` produces for half pattern `h` -/
def halfAsSingle (h : Nat) : Nat :=
  match fp16ToFloat (h : Int) with
  | .ok (.f32 b) => b
  | _ => 0

theorem halfAsSingle_spec (h : Nat) (hh : h < 65536) :
    fp16ToFloat (h : Int) = .ok (.f32 (halfAsSingle h)) ∧ halfAsSingle h < 2 ^ 32 ∧
    (singleValue (halfAsSingle h)).same (halfValue h) = true := by
  obtain ⟨b, hb, hlt, hs⟩ := fp16_exact_aux h hh
  have : halfAsSingle h = b := by unfold halfAsSingle; rw [hb]
  rw [this]; exact ⟨hb, hlt, hs⟩

/-- the decoder reads the offset with `struct` code `h` (signed) and still gets the value of the 16 bits -/
theorem fp16_of_unpacked (h : Nat) (hh : h < 65536) :
    fp16ToFloat (unpackSigned 2 (leBytes 2 h)) = .ok (.f32 (halfAsSingle h)) := by
  have hv : leVal (leBytes 2 h) = h := leVal_leBytes_of_lt (by have : (256 : Nat) ^ 2 = 65536 := by decide
                                                               omega)
  have e : (256 ^ 2 / 2 : Nat) = 32768 := by decide
  have e2 : (256 ^ 2 : Nat) = 65536 := by decide
  unfold unpackSigned
  rw [hv, e, e2]
  split
  · exact (halfAsSingle_spec h hh).1
  · have hneg : Int.negSucc (65536 - 1 - h) = (h : Int) - 65536 := by rw [Int.negSucc_eq]; omega
    rw [hneg, fp16_signed_arg_aux _ (by omega) (by omega)]
    have : (h : Int) - 65536 + 65536 = (h : Int) := by omega
    rw [this]; exact (halfAsSingle_spec h hh).1

theorem incoming_lh (bs bx x1 x2 x3 by_ y1 y2 y3 : Nat) (hbs : bs < 256) (hbx : bx < 2 ^ 32) (hby : by_ < 2 ^ 32)
    (hx1 : x1 < 65536) (hx2 : x2 < 65536) (hx3 : x3 < 65536) (hy1 : y1 < 65536) (hy2 : y2 < 65536) (hy3 : y3 < 65536) :
    incoming (encodeLhAngle bs bx x1 x2 x3 by_ y1 y2 y3) =
      .ok (.packet 10 ((encodeLhAngle bs bx x1 x2 x3 by_ y1 y2 y3).drop 1)
        (.lhAngle bs
          [.base bx, .sub bx (.f32 (halfAsSingle x1)), .sub bx (.f32 (halfAsSingle x2)), .sub bx (.f32 (halfAsSingle x3))]
          [.base by_, .sub by_ (.f32 (halfAsSingle y1)), .sub by_ (.f32 (halfAsSingle y2)), .sub by_ (.f32 (halfAsSingle y3))])) := by
  have hu : unpack [Code.B] [(10 : UInt8)] = .ok [.int 10] := by decide
  have ht : Gen.C13.locRangeStreamReport ≠ 10 ∧ Gen.C13.locLhPersistData ≠ 10 ∧ Gen.C13.locLhAngleStream = 10 := by decide
  have hdata : (encodeLhAngle bs bx x1 x2 x3 by_ y1 y2 y3).drop 1 =
      [UInt8.ofNat bs] ++ (leBytes 4 bx ++ (leBytes 2 x1 ++ (leBytes 2 x2 ++ (leBytes 2 x3 ++
        (leBytes 4 by_ ++ (leBytes 2 y1 ++ (leBytes 2 y2 ++ (leBytes 2 y3 ++ [])))))))) := by
    simp [encodeLhAngle]
  have hdec : decodeLhAngle ((encodeLhAngle bs bx x1 x2 x3 by_ y1 y2 y3).drop 1) = .ok (.lhAngle bs
          [.base bx, .sub bx (.f32 (halfAsSingle x1)), .sub bx (.f32 (halfAsSingle x2)), .sub bx (.f32 (halfAsSingle x3))]
          [.base by_, .sub by_ (.f32 (halfAsSingle y1)), .sub by_ (.f32 (halfAsSingle y2)), .sub by_ (.f32 (halfAsSingle y3))]) := by
    unfold decodeLhAngle
    rw [hdata, inc_fmts.2.2]
    rw [unpack_cons_append _ _ _ _ rfl rfl, unpack_cons_append _ _ _ _ (by simp [Code.size]) rfl,
      unpack_cons_append _ _ _ _ (by simp [Code.size]) rfl, unpack_cons_append _ _ _ _ (by simp [Code.size]) rfl,
      unpack_cons_append _ _ _ _ (by simp [Code.size]) rfl, unpack_cons_append _ _ _ _ (by simp [Code.size]) rfl,
      unpack_cons_append _ _ _ _ (by simp [Code.size]) rfl, unpack_cons_append _ _ _ _ (by simp [Code.size]) rfl,
      unpack_cons_append _ _ _ _ (by simp [Code.size]) rfl]
    have hid : (UInt8.ofNat bs).toNat = bs := by simp; omega
    simp only [unpack, Except.map, unpackOne, leVal4 bx hbx, leVal4 by_ hby, leVal, hid, Nat.mul_zero, Nat.add_zero, angleSub,
      fp16_of_unpacked x1 hx1, fp16_of_unpacked x2 hx2, fp16_of_unpacked x3 hx3,
      fp16_of_unpacked y1 hy1, fp16_of_unpacked y2 hy2, fp16_of_unpacked y3 hy3, bind, Except.bind, pure, Except.pure,
      Int.toNat_natCast]
  unfold incoming
  have hlen : ¬ (encodeLhAngle bs bx x1 x2 x3 by_ y1 y2 y3).length < 1 := by simp [encodeLhAngle]
  have htake : (encodeLhAngle bs bx x1 x2 x3 by_ y1 y2 y3).take 1 = [10] := by simp [encodeLhAngle]
  rw [if_neg hlen, htake, inc_fmts.1, hu]
  simp only [show (10 : Int).toNat = 10 from rfl, if_neg ht.1.symm, if_neg ht.2.1.symm, ht.2.2, if_true, hdec, Except.map]

end CfVerif.C13

/-
Proofs/C13Quat: the real-number quaternion codec (`compressR`, `decompressR`) and its round-trip bound.

`compressR`/`decompressR` are `compress_quaternion`/`decompress_quaternion` read over ℝ: the same index scan
(`largestIdx`), the same bit packing/unpacking (`assemble`, `decompressParts` of Model/C13, i.e. the expressions
regenerated from the source), and the code's arithmetic expressions with real-number `/`, `sqrt`, `abs` and
`int()` = floor (the argument is ≥ 0.5).  binary64 rounding inside numpy is outside the statement.
-/
import CfVerif.Proofs.C13QuatBits
import CfVerif.Proofs.C13QuatReal
import Mathlib.Tactic.FinCases
namespace CfVerif.C13
open CfVerif

/-- `np.linalg.norm(quat)` -/
noncomputable def qnorm (q : Fin 4 → ℝ) : ℝ := Real.sqrt (q 0 ^ 2 + q 1 ^ 2 + q 2 ^ 2 + q 3 ^ 2)

/-- `mag = int(((1 << 9) - 1) * (abs(quat_n[i]) / M_SQRT1_2) + 0.5)` with `M_SQRT1_2 = 1.0 / np.sqrt(2)` -/
noncomputable def magR (x : ℝ) : ℕ := ⌊((Gen.C13.cqScale : ℤ) : ℝ) * (|x| / (1 / Real.sqrt 2)) + 1 / 2⌋₊

/-- `compress_quaternion(quat)` over the reals -/
noncomputable def compressR (q : Fin 4 → ℝ) : Int :=
  let x : Fin 4 → ℝ := fun i => q i / qnorm q
  let iL := largestIdx (fun i => |x i|)
  let negate := decide (x iL < 0)
  assemble iL (fun i => (decide (x i < 0)) ^^ negate) (fun i => magR (x i))

/-- `q[i] = mag / mask / np.sqrt(2); if negbit == 1: q[i] = -q[i]` -/
noncomputable def compVal (c : QComp) : ℝ :=
  (if c.neg then -1 else 1) * ((c.mag : ℝ) / ((Gen.C13.dqMask : ℤ) : ℝ) / Real.sqrt 2)

/-- `decompress_quaternion(comp)` over the reals (for a word `comp ≥ 0`; 0 where the code raises) -/
noncomputable def decompressR (comp : Nat) : Fin 4 → ℝ := fun j =>
  match decompressParts comp with
  | .ok (iL, comps) =>
    if j.val = iL then Real.sqrt (1 - (comps.map (fun c => compVal c * compVal c)).sum)
    else match comps.find? (fun c => c.idx = j.val) with
      | some c => compVal c
      | none => 0
  | .error _ => 0

/-- the quantisation step: `1/511 · 1/√2` -/
noncomputable def qstep : ℝ := 1 / (511 * Real.sqrt 2)

theorem largestIdx_max {α : Type} [LinearOrder α] (a : Fin 4 → α) (i : Fin 4) : a i ≤ a (largestIdx a) := by
  unfold largestIdx
  have key : ∀ (j k : Fin 4), a j ≤ a (if a j < a k then k else j) ∧ a k ≤ a (if a j < a k then k else j) := by
    intro j k
    split
    · rename_i h; exact ⟨le_of_lt h, le_refl _⟩
    · rename_i h; exact ⟨le_refl _, not_lt.mp h⟩
  obtain ⟨p0, p1⟩ := key 0 1
  obtain ⟨p2, p3⟩ := key (if a 0 < a 1 then 1 else 0) 2
  obtain ⟨p4, p5⟩ := key (if a (if a 0 < a 1 then 1 else 0) < a 2 then 2 else (if a 0 < a 1 then 1 else 0)) 3
  fin_cases i
  · exact le_trans p0 (le_trans p2 p4)
  · exact le_trans p1 (le_trans p2 p4)
  · exact le_trans p3 p4
  · exact p5

theorem assemble_congr (iL : Fin 4) (neg neg' : Fin 4 → Bool) (mag mag' : Fin 4 → Nat)
    (h : ∀ i, i ≠ iL → neg i = neg' i ∧ mag i = mag' i) : assemble iL neg mag = assemble iL neg' mag' := by
  unfold assemble
  simp only [List.foldl]
  have step : ∀ (i : Fin 4) (c : Int),
      (if i ≠ iL then Gen.C13.cqPush c (if neg i then 1 else 0) (mag i) else c) =
      (if i ≠ iL then Gen.C13.cqPush c (if neg' i then 1 else 0) (mag' i) else c) := by
    intro i c
    by_cases hi : i = iL
    · simp [hi]
    · obtain ⟨a, b⟩ := h i hi
      simp [hi, a, b]
  rw [step 0, step 1, step 2, step 3]

theorem stored_props : ∀ iL i1 i2 i3 : Fin 4, stored iL = [i1, i2, i3] →
    i1 ≠ iL ∧ i2 ≠ iL ∧ i3 ≠ iL ∧ i1 ≠ i2 ∧ i1 ≠ i3 ∧ i2 ≠ i3 ∧ ∀ j, j = iL ∨ j = i1 ∨ j = i2 ∨ j = i3 := by
  decide

theorem stored_three : ∀ iL : Fin 4, ∃ i1 i2 i3, stored iL = [i1, i2, i3] := by decide

theorem perm_sum (iL i1 i2 i3 : Fin 4) (hst : stored iL = [i1, i2, i3]) (g : Fin 4 → ℝ) :
    g 0 + g 1 + g 2 + g 3 = g iL + g i1 + g i2 + g i3 := by
  fin_cases iL <;> simp [stored] at hst <;> obtain ⟨rfl, rfl, rfl⟩ := hst <;> simp only [Fin.reduceFinMk] <;> ring

theorem qnorm_pos (q : Fin 4 → ℝ) (hq : q ≠ 0) : 0 < qnorm q := by
  unfold qnorm
  apply Real.sqrt_pos.mpr
  obtain ⟨i, hi⟩ := Function.ne_iff.mp hq
  have hi' : 0 < q i ^ 2 := lt_of_le_of_ne (sq_nonneg _) (Ne.symm (pow_ne_zero 2 hi))
  have h0 := sq_nonneg (q 0); have h1 := sq_nonneg (q 1); have h2 := sq_nonneg (q 2); have h3 := sq_nonneg (q 3)
  fin_cases i <;> simp only [Fin.reduceFinMk] at hi' <;> linarith

theorem sqrt2_facts : 1 ≤ Real.sqrt 2 ∧ Real.sqrt 2 ^ 2 = 2 ∧ 0 < Real.sqrt 2 := by
  refine ⟨?_, Real.sq_sqrt (by norm_num : (0 : ℝ) ≤ 2), Real.sqrt_pos.mpr (by norm_num : (0 : ℝ) < 2)⟩
  nlinarith [Real.sq_sqrt (show (0 : ℝ) ≤ 2 by norm_num), Real.sqrt_nonneg 2]

theorem qstep_facts : 0 < qstep ∧ qstep ≤ 1 / 10 ∧ (511 * qstep) ^ 2 = 1 / 2 := by
  obtain ⟨h1, h2, h3⟩ := sqrt2_facts
  unfold qstep
  refine ⟨by positivity, ?_, ?_⟩
  · rw [div_le_div_iff₀ (by positivity) (by norm_num)]; nlinarith
  · have e : (511 * (1 / (511 * Real.sqrt 2))) ^ 2 = 1 / Real.sqrt 2 ^ 2 := by field_simp
    rw [e, h2]

theorem magR_eq (t : ℝ) : magR t = ⌊|t| / qstep + 1 / 2⌋₊ := by
  obtain ⟨_, _, h3⟩ := sqrt2_facts
  unfold magR qstep
  rw [cqScale_eq]
  congr 2
  push_cast
  field_simp

theorem compVal_eq (i : Nat) (b : Bool) (m : Nat) :
    compVal ⟨i, b, m⟩ = (if b then -1 else 1) * ((m : ℝ) * qstep) := by
  obtain ⟨_, _, h3⟩ := sqrt2_facts
  unfold compVal qstep
  rw [dqMask_eq]
  push_cast
  field_simp

theorem sign_case (xL xj d : ℝ) :
    |(if xL < 0 then (-1 : ℝ) else 1) * xj - (if ((decide (xj < 0)) ^^ (decide (xL < 0))) = true then -1 else 1) * d|
      = |(|xj| - d)| := by
  by_cases hL : xL < 0 <;> by_cases hj : xj < 0
  · simp only [hL, hj, if_true, decide_true, Bool.xor_self, Bool.false_eq_true, if_false, abs_of_neg hj]; ring_nf
  · simp only [hL, hj, if_true, decide_true, decide_false, Bool.false_xor, abs_of_nonneg (not_lt.mp hj)]
    rw [← abs_neg]; ring_nf
  · simp only [hL, hj, if_false, decide_true, decide_false, Bool.xor_false, if_true, abs_of_neg hj]
    rw [← abs_neg]; ring_nf
  · simp only [hL, hj, if_false, decide_false, Bool.xor_self, Bool.false_eq_true, abs_of_nonneg (not_lt.mp hj)]; ring_nf

theorem quat_roundtrip_aux (q : Fin 4 → ℝ) (hq : q ≠ 0) :
    ∃ w : Nat, compressR q = (w : Int) ∧ w < 2 ^ 32 ∧
      ∃ s : ℝ, (s = 1 ∨ s = -1) ∧ ∀ j, |s * (q j / qnorm q) - decompressR w j| ≤ 2 * qstep := by
  have hN := qnorm_pos q hq
  obtain ⟨hδ, hδs, h511⟩ := qstep_facts
  -- the normalised quaternion
  obtain ⟨x, hx⟩ : ∃ x : Fin 4 → ℝ, x = fun i => q i / qnorm q := ⟨_, rfl⟩
  have hsum : x 0 ^ 2 + x 1 ^ 2 + x 2 ^ 2 + x 3 ^ 2 = 1 := by
    have hn2 : qnorm q ^ 2 = q 0 ^ 2 + q 1 ^ 2 + q 2 ^ 2 + q 3 ^ 2 := by
      unfold qnorm; exact Real.sq_sqrt (by positivity)
    rw [hx]; simp only [div_pow]
    rw [← add_div, ← add_div, ← add_div, ← hn2]
    exact div_self (pow_ne_zero 2 (ne_of_gt hN))
  obtain ⟨iL, hiL⟩ : ∃ iL, iL = largestIdx (fun i => |x i|) := ⟨_, rfl⟩
  have hmax : ∀ i, |x i| ≤ |x iL| := by intro i; rw [hiL]; exact largestIdx_max (fun i => |x i|) i
  obtain ⟨i1, i2, i3, hst⟩ := stored_three iL
  obtain ⟨n1, n2, n3, n12, n13, n23, hall⟩ := stored_props iL i1 i2 i3 hst
  have hs4 : |x iL| ^ 2 + |x i1| ^ 2 + |x i2| ^ 2 + |x i3| ^ 2 = 1 := by
    have := perm_sum iL i1 i2 i3 hst (fun i => x i ^ 2)
    simp only [sq_abs]; linarith
  -- every stored component is at most 1/√2 = 511 steps
  have hle : ∀ i, i ≠ iL → |x i| ≤ 511 * qstep := by
    intro i hi
    have hm := hmax i
    have h0 := abs_nonneg (x i)
    have hsq : |x i| ^ 2 ≤ 1 / 2 := by
      have a1 := sq_nonneg |x i1|; have a2 := sq_nonneg |x i2|; have a3 := sq_nonneg |x i3|
      have hLi : |x i| ^ 2 ≤ |x iL| ^ 2 := pow_le_pow_left₀ h0 hm 2
      rcases hall i with h | h | h | h
      · exact absurd h hi
      · subst h; linarith
      · subst h; linarith
      · subst h; linarith
    by_contra hc
    rw [not_le] at hc
    have : (511 * qstep) ^ 2 < |x i| ^ 2 := pow_lt_pow_left₀ hc (by positivity) (by norm_num)
    linarith
  -- the fields
  obtain ⟨neg, hneg⟩ : ∃ neg : Fin 4 → Bool, neg = fun i => (decide (x i < 0)) ^^ (decide (x iL < 0)) := ⟨_, rfl⟩
  obtain ⟨mag, hmag⟩ : ∃ mag : Fin 4 → ℕ, mag = fun i => magR (x i) := ⟨_, rfl⟩
  have hcomp : compressR q = assemble iL neg mag := by
    unfold compressR; rw [hneg, hmag, hiL, hx]
  have hm511 : ∀ i, i ≠ iL → mag i ≤ 511 := by
    intro i hi
    rw [hmag]; simp only; rw [magR_eq]
    exact QuatReal.round_le qstep |x i| hδ (abs_nonneg _) 511 (by push_cast; exact hle i hi)
  have herr : ∀ i, |(mag i : ℝ) * qstep - (|x i|)| ≤ qstep / 2 := by
    intro i; rw [hmag]; simp only; rw [magR_eq]
    exact QuatReal.round_step qstep |x i| hδ (abs_nonneg _)
  obtain ⟨mag', hmag'⟩ : ∃ mag' : Fin 4 → ℕ, mag' = fun i => if i = iL then 0 else mag i := ⟨_, rfl⟩
  have hcongr : assemble iL neg mag = assemble iL neg mag' :=
    assemble_congr iL neg neg mag mag' (fun i hi => ⟨rfl, by rw [hmag']; simp [hi]⟩)
  have hm' : ∀ i, mag' i ≤ 511 := by
    intro i; rw [hmag']; by_cases h : i = iL
    · simp [h]
    · simp only [h, if_false]; exact hm511 i h
  obtain ⟨w, hw, hwlt, hparts⟩ := decompress_assemble iL neg mag' hm'
  refine ⟨w, by rw [hcomp, hcongr, hw], hwlt, if x iL < 0 then -1 else 1, ?_, ?_⟩
  · by_cases h : x iL < 0
    · right; simp [h]
    · left; simp [h]
  rw [hst] at hparts
  simp only [List.reverse_cons, List.reverse_nil, List.nil_append, List.cons_append, List.map_cons, List.map_nil] at hparts
  have hmi : ∀ i, i ≠ iL → mag' i = mag i := by intro i hi; rw [hmag']; simp [hi]
  rw [hmi i1 n1, hmi i2 n2, hmi i3 n3] at hparts
  have hxj : ∀ j, q j / qnorm q = x j := by intro j; rw [hx]
  intro j
  rw [hxj]
  unfold decompressR
  rw [hparts]
  by_cases hj : j = iL
  · -- the reconstructed component
    subst hj
    simp only [if_true, List.map_cons, List.map_nil, List.sum_cons, List.sum_nil, compVal_eq]
    have hsL : (if x j < 0 then (-1 : ℝ) else 1) * x j = |x j| := by
      by_cases h : x j < 0
      · simp [h, abs_of_neg h]
      · simp [h, abs_of_nonneg (not_lt.mp h)]
    rw [hsL]
    have hsq : ∀ (b : Bool) (t : ℝ), (if b then (-1 : ℝ) else 1) * t * ((if b then (-1 : ℝ) else 1) * t) = t ^ 2 := by
      intro b t; cases b <;> simp <;> ring
    rw [hsq, hsq, hsq]
    have hb := QuatReal.recon_bound qstep |x j| |x i1| |x i2| |x i3| (mag i1 * qstep) (mag i2 * qstep) (mag i3 * qstep)
      hδ hδs (abs_nonneg _) (abs_nonneg _) (abs_nonneg _) (hmax i1) (hmax i2) (hmax i3) hs4 (herr i1) (herr i2) (herr i3)
    rw [abs_sub_comm]
    have e : (mag i3 * qstep) ^ 2 + ((mag i2 * qstep) ^ 2 + ((mag i1 * qstep) ^ 2 + 0)) =
        (mag i1 * qstep) ^ 2 + (mag i2 * qstep) ^ 2 + (mag i3 * qstep) ^ 2 := by ring
    rw [e]; exact hb
  · -- a stored component
    have hjv : ¬ j.val = iL.val := fun h => hj (Fin.ext h)
    simp only [hjv, if_false]
    have key : ∀ i, i ≠ iL →
        |(if x iL < 0 then (-1 : ℝ) else 1) * x i - compVal ⟨i.val, neg i, mag i⟩| ≤ 2 * qstep := by
      intro i hi
      rw [compVal_eq, hneg]
      simp only
      rw [sign_case (x iL) (x i) ((mag i : ℝ) * qstep), abs_sub_comm]
      have := herr i
      linarith
    rcases hall j with h | h | h | h
    · exact absurd h hj
    · subst h
      have a3 : ¬ (i3.val = j.val) := fun h => n13 (Fin.ext h).symm
      have a2 : ¬ (i2.val = j.val) := fun h => n12 (Fin.ext h).symm
      simp only [List.find?, a3, a2, decide_false, decide_true]
      exact key j hj
    · subst h
      have a3 : ¬ (i3.val = j.val) := fun h => n23 (Fin.ext h).symm
      simp only [List.find?, a3, decide_false, decide_true]
      exact key j hj
    · subst h
      simp only [List.find?, decide_true]
      exact key j hj

end CfVerif.C13

/-
Proofs/C13QuatBits: the integer part of the quaternion codec — three 10-bit fields and a 2-bit index pack into a word
below 2^32 and unpack to the same fields.  Core Lean only.
-/
import CfVerif.Model.C13
namespace CfVerif.C13
open CfVerif

theorem or_eq_add (a b : Nat) (i : Nat) (hb : b < 2 ^ i) : a * 2 ^ i ||| b = a * 2 ^ i + b := by
  rw [← Nat.shiftLeft_eq]; exact (Nat.shiftLeft_add_eq_or_of_lt hb a).symm

/-- `(comp << 10) | (negbit << 9) | mag` on in-range fields is `1024·comp + 512·negbit + mag` -/
theorem cqPush_eq (c n m : Nat) (hn : n ≤ 1) (hm : m < 512) :
    Gen.C13.cqPush (c : Int) (n : Int) (m : Int) = ((c * 1024 + n * 512 + m : Nat) : Int) := by
  show Gen.C13.pyOr (Gen.C13.pyOr (Gen.C13.shl (Int.ofNat c) 10) (Gen.C13.shl (Int.ofNat n) 9)) (Int.ofNat m) = _
  have s1 : Gen.C13.shl (Int.ofNat c) 10 = Int.ofNat (c * 2 ^ 10) := by
    unfold Gen.C13.shl; exact (Int.natCast_mul c (2 ^ 10)).symm
  have s2 : Gen.C13.shl (Int.ofNat n) 9 = Int.ofNat (n * 2 ^ 9) := by
    unfold Gen.C13.shl; exact (Int.natCast_mul n (2 ^ 9)).symm
  rw [s1, s2]
  simp only [Gen.C13.pyOr]
  congr 1
  have h1 : c * 2 ^ 10 ||| n * 2 ^ 9 = c * 2 ^ 10 + n * 2 ^ 9 := or_eq_add c (n * 2 ^ 9) 10 (by omega)
  rw [h1]
  have h2 : c * 2 ^ 10 + n * 2 ^ 9 = (c * 2 + n) * 2 ^ 9 := by omega
  rw [h2, or_eq_add _ m 9 (by omega)]

theorem dqMask_eq : Gen.C13.dqMask = 511 := by decide
theorem cqScale_eq : Gen.C13.cqScale = 511 := by decide

/-- the unpacking expressions on a non-negative word -/
theorem dq_nat (w : Nat) :
    Gen.C13.dqMag (w : Int) = ((w % 512 : Nat) : Int) ∧ Gen.C13.dqNegbit (w : Int) = ((w / 512 % 2 : Nat) : Int) ∧
    Gen.C13.dqNext (w : Int) = ((w / 1024 : Nat) : Int) ∧ Gen.C13.dqLargest (w : Int) = ((w / 2 ^ 30 : Nat) : Int) := by
  refine ⟨?_, ?_, ?_, ?_⟩
  · show Gen.C13.pyAnd (Int.ofNat w) Gen.C13.dqMask = _
    rw [dqMask_eq]
    show Int.ofNat (w &&& 511) = _
    have := Nat.and_two_pow_sub_one_eq_mod w 9
    simp only [show (2 : Nat) ^ 9 - 1 = 511 from rfl, show (2 : Nat) ^ 9 = 512 from rfl] at this
    rw [this]; rfl
  · show Gen.C13.pyAnd (Gen.C13.shr (Int.ofNat w) 9) (Int.ofNat 1) = _
    show Int.ofNat ((w >>> 9) &&& 1) = _
    have := Nat.and_two_pow_sub_one_eq_mod (w >>> 9) 1
    simp only [show (2 : Nat) ^ 1 - 1 = 1 from rfl, show (2 : Nat) ^ 1 = 2 from rfl] at this
    rw [this, Nat.shiftRight_eq_div_pow]; rfl
  · show Int.ofNat (w >>> 10) = _
    rw [Nat.shiftRight_eq_div_pow]; rfl
  · show Int.ofNat (w >>> 30) = _
    rw [Nat.shiftRight_eq_div_pow]; rfl

/-- the word as a natural number -/
def wordOf (iL : Nat) (f1 f2 f3 : Nat × Nat) : Nat :=
  ((iL * 1024 + f1.1 * 512 + f1.2) * 1024 + f2.1 * 512 + f2.2) * 1024 + f3.1 * 512 + f3.2

def b2n (b : Bool) : Nat := if b then 1 else 0

theorem b2n_cast (b : Bool) : ((b2n b : Nat) : Int) = (if b then 1 else 0 : Int) := by cases b <;> rfl
theorem b2n_le (b : Bool) : b2n b ≤ 1 := by cases b <;> decide

/-- the three stored components in the order `compress_quaternion` pushes them (ascending index) -/
def stored (iL : Fin 4) : List (Fin 4) := ([0, 1, 2, 3] : List (Fin 4)).filter (· ≠ iL)

theorem assemble_eq (iL : Fin 4) (neg : Fin 4 → Bool) (mag : Fin 4 → Nat) (hm : ∀ i, mag i ≤ 511) :
    ∃ i1 i2 i3, stored iL = [i1, i2, i3] ∧
      assemble iL neg mag = ((wordOf iL.val (b2n (neg i1), mag i1) (b2n (neg i2), mag i2) (b2n (neg i3), mag i3) : Nat) : Int) := by
  have push : ∀ (c : Nat) (i : Fin 4), Gen.C13.cqPush (c : Int) (if neg i then 1 else 0) (mag i : Int) =
      ((c * 1024 + b2n (neg i) * 512 + mag i : Nat) : Int) := by
    intro c i
    rw [← b2n_cast, cqPush_eq c (b2n (neg i)) (mag i) (b2n_le _) (by have := hm i; omega)]
  rcases iL with ⟨_ | _ | _ | _ | n, h⟩
  · refine ⟨1, 2, 3, rfl, ?_⟩
    simp only [assemble, List.foldl, show ((0 : Fin 4) ≠ ⟨0, h⟩) = False by simp, if_false,
      show ((1 : Fin 4) ≠ ⟨0, h⟩) = True by simp, show ((2 : Fin 4) ≠ ⟨0, h⟩) = True by simp,
      show ((3 : Fin 4) ≠ ⟨0, h⟩) = True by simp, if_true, push, wordOf]
  · refine ⟨0, 2, 3, rfl, ?_⟩
    simp only [assemble, List.foldl, show ((1 : Fin 4) ≠ ⟨1, h⟩) = False by simp, if_false,
      show ((0 : Fin 4) ≠ ⟨1, h⟩) = True by simp, show ((2 : Fin 4) ≠ ⟨1, h⟩) = True by simp,
      show ((3 : Fin 4) ≠ ⟨1, h⟩) = True by simp, if_true, push, wordOf]
  · refine ⟨0, 1, 3, rfl, ?_⟩
    simp only [assemble, List.foldl, show ((2 : Fin 4) ≠ ⟨2, h⟩) = False by simp, if_false,
      show ((0 : Fin 4) ≠ ⟨2, h⟩) = True by simp, show ((1 : Fin 4) ≠ ⟨2, h⟩) = True by simp,
      show ((3 : Fin 4) ≠ ⟨2, h⟩) = True by simp, if_true, push, wordOf]
  · refine ⟨0, 1, 2, rfl, ?_⟩
    simp only [assemble, List.foldl, show ((3 : Fin 4) ≠ ⟨3, h⟩) = False by simp, if_false,
      show ((0 : Fin 4) ≠ ⟨3, h⟩) = True by simp, show ((1 : Fin 4) ≠ ⟨3, h⟩) = True by simp,
      show ((2 : Fin 4) ≠ ⟨3, h⟩) = True by simp, if_true, push, wordOf]
  · omega

theorem unpackComps_step (iL i : Nat) (is : List Nat) (c : Nat) (b : Bool) (m : Nat) (hne : i ≠ iL) (hm : m < 512) :
    unpackComps iL (i :: is) ((c * 1024 + b2n b * 512 + m : Nat) : Int) = ⟨i, b, m⟩ :: unpackComps iL is (c : Int) := by
  obtain ⟨h1, h2, h3, _⟩ := dq_nat (c * 1024 + b2n b * 512 + m)
  have hb := b2n_le b
  have e1 : (c * 1024 + b2n b * 512 + m) % 512 = m := by omega
  have e2 : (c * 1024 + b2n b * 512 + m) / 512 % 2 = b2n b := by omega
  have e3 : (c * 1024 + b2n b * 512 + m) / 1024 = c := by omega
  simp only [unpackComps, hne, ne_eq, not_false_eq_true, if_true, h1, h2, h3, e1, e2, e3, Int.toNat_natCast]
  congr 2
  cases b <;> rfl

theorem unpackComps_skip (iL : Nat) (is : List Nat) (c : Int) : unpackComps iL (iL :: is) c = unpackComps iL is c := by
  simp [unpackComps]

/-- Packing the fields the compressor computes and unpacking them again returns the same index, sign bits and
magnitudes (in the decompressor's processing order 3 → 0), and the word fits 32 bits. -/
theorem decompress_assemble (iL : Fin 4) (neg : Fin 4 → Bool) (mag : Fin 4 → Nat) (hm : ∀ i, mag i ≤ 511) :
    ∃ w : Nat, assemble iL neg mag = (w : Int) ∧ w < 2 ^ 32 ∧
      decompressParts w = .ok (iL.val, (stored iL).reverse.map (fun i => ⟨i.val, neg i, mag i⟩)) := by
  obtain ⟨i1, i2, i3, hst, hw⟩ := assemble_eq iL neg mag hm
  refine ⟨_, hw, ?_, ?_⟩
  · have h1 := hm i1; have h2 := hm i2; have h3 := hm i3
    have b1 := b2n_le (neg i1); have b2 := b2n_le (neg i2); have b3 := b2n_le (neg i3)
    have := iL.isLt
    simp only [wordOf]; omega
  · have hL : (Gen.C13.dqLargest ((wordOf iL.val (b2n (neg i1), mag i1) (b2n (neg i2), mag i2) (b2n (neg i3), mag i3) : Nat) : Int)).toNat
        = iL.val := by
      rw [(dq_nat _).2.2.2, Int.toNat_natCast]
      have h1 := hm i1; have h2 := hm i2; have h3 := hm i3
      have b1 := b2n_le (neg i1); have b2 := b2n_le (neg i2); have b3 := b2n_le (neg i3)
      have := iL.isLt
      simp only [wordOf]; omega
    unfold decompressParts
    simp only [hL, iL.isLt, if_true, hst]
    have m1 : mag i1 < 512 := by have := hm i1; omega
    have m2 : mag i2 < 512 := by have := hm i2; omega
    have m3 : mag i3 < 512 := by have := hm i3; omega
    congr 2
    rcases iL with ⟨_ | _ | _ | _ | n, h⟩
    · obtain ⟨rfl, rfl, rfl⟩ : (1 : Fin 4) = i1 ∧ (2 : Fin 4) = i2 ∧ (3 : Fin 4) = i3 := by
        have : stored ⟨0, h⟩ = [1, 2, 3] := rfl
        rw [this] at hst; simpa using hst
      simp only [wordOf]
      rw [unpackComps_step _ 3 _ _ _ _ (by decide) m3, unpackComps_step _ 2 _ _ _ _ (by decide) m2,
        unpackComps_step _ 1 _ _ _ _ (by decide) m1, unpackComps_skip]
      rfl
    · obtain ⟨rfl, rfl, rfl⟩ : (0 : Fin 4) = i1 ∧ (2 : Fin 4) = i2 ∧ (3 : Fin 4) = i3 := by
        have : stored ⟨1, h⟩ = [0, 2, 3] := rfl
        rw [this] at hst; simpa using hst
      simp only [wordOf]
      rw [unpackComps_step _ 3 _ _ _ _ (by decide) m3, unpackComps_step _ 2 _ _ _ _ (by decide) m2,
        unpackComps_skip, unpackComps_step _ 0 _ _ _ _ (by decide) m1]
      rfl
    · obtain ⟨rfl, rfl, rfl⟩ : (0 : Fin 4) = i1 ∧ (1 : Fin 4) = i2 ∧ (3 : Fin 4) = i3 := by
        have : stored ⟨2, h⟩ = [0, 1, 3] := rfl
        rw [this] at hst; simpa using hst
      simp only [wordOf]
      rw [unpackComps_step _ 3 _ _ _ _ (by decide) m3, unpackComps_skip,
        unpackComps_step _ 1 _ _ _ _ (by decide) m2, unpackComps_step _ 0 _ _ _ _ (by decide) m1]
      rfl
    · obtain ⟨rfl, rfl, rfl⟩ : (0 : Fin 4) = i1 ∧ (1 : Fin 4) = i2 ∧ (2 : Fin 4) = i3 := by
        have : stored ⟨3, h⟩ = [0, 1, 2] := rfl
        rw [this] at hst; simpa using hst
      simp only [wordOf]
      rw [unpackComps_skip, unpackComps_step _ 2 _ _ _ _ (by decide) m3,
        unpackComps_step _ 1 _ _ _ _ (by decide) m2, unpackComps_step _ 0 _ _ _ _ (by decide) m1]
      rfl
    · omega

end CfVerif.C13

/-
Proofs/C13QuatInt: the executable integer model `compressInt` (Model/C13, used by the correspondence) computes
exactly the real-number function `compressR` on quaternions with integer components.
-/
import CfVerif.Proofs.C13Quat
namespace CfVerif.C13
open CfVerif

/-- exact evaluation of the magnitude: `⌊511·(a/√n)/(1/√2) + 1/2⌋ = (isqrt(8·511²·a²/n) + 1) / 2` -/
theorem quatMag_eq (a n : ℕ) (hn : 0 < n) :
    ⌊(511 : ℝ) * ((a : ℝ) / Real.sqrt n / (1 / Real.sqrt 2)) + 1 / 2⌋₊ = quatMag 511 (a ^ 2) n := by
  obtain ⟨_, hs2, hs2pos⟩ := sqrt2_facts
  have hnR : (0 : ℝ) < n := by exact_mod_cast hn
  have hsn : 0 < Real.sqrt n := Real.sqrt_pos.mpr hnR
  have hsn2 : Real.sqrt n ^ 2 = n := Real.sq_sqrt hnR.le
  obtain ⟨y, hy⟩ : ∃ y : ℝ, y = (511 : ℝ) * ((a : ℝ) / Real.sqrt n / (1 / Real.sqrt 2)) := ⟨_, rfl⟩
  have hy0 : 0 ≤ y := by rw [hy]; positivity
  have hy2 : (2 * y) ^ 2 = (8 * 511 ^ 2 * a ^ 2 : ℝ) / n := by
    rw [hy]; field_simp; rw [hs2, hsn2]; ring
  rw [← hy]
  unfold quatMag
  obtain ⟨X, hX⟩ : ∃ X : ℕ, X = 8 * 511 ^ 2 * a ^ 2 / n := ⟨_, rfl⟩
  rw [← hX]
  have hX1 : (X : ℝ) ≤ (2 * y) ^ 2 := by
    rw [hy2, le_div_iff₀ hnR]
    have : X * n ≤ 8 * 511 ^ 2 * a ^ 2 := by rw [hX]; exact Nat.div_mul_le_self _ _
    exact_mod_cast this
  have hX2 : (2 * y) ^ 2 < (X : ℝ) + 1 := by
    rw [hy2, div_lt_iff₀ hnR]
    have : 8 * 511 ^ 2 * a ^ 2 < n * (X + 1) := by rw [hX]; exact Nat.lt_mul_div_succ _ hn
    have : ((8 * 511 ^ 2 * a ^ 2 : ℕ) : ℝ) < ((n * (X + 1) : ℕ) : ℝ) := by exact_mod_cast this
    push_cast at this; linarith
  have hr1 : (Nat.sqrt X : ℝ) ^ 2 ≤ X := by exact_mod_cast Nat.sqrt_le' X
  have hr2 : (X : ℝ) + 1 ≤ ((Nat.sqrt X : ℝ) + 1) ^ 2 := by
    have := Nat.lt_succ_sqrt' X
    have : X + 1 ≤ (Nat.sqrt X + 1) ^ 2 := this
    exact_mod_cast this
  have hrle : (Nat.sqrt X : ℝ) ≤ 2 * y := by
    have h := Real.sqrt_le_sqrt (le_trans hr1 hX1)
    rwa [Real.sqrt_sq (by positivity), Real.sqrt_sq (by positivity)] at h
  have hrlt : 2 * y < (Nat.sqrt X : ℝ) + 1 :=
    lt_of_pow_lt_pow_left₀ 2 (by positivity) (lt_of_lt_of_le hX2 hr2)
  obtain ⟨r, hr⟩ : ∃ r : ℕ, r = Nat.sqrt X := ⟨_, rfl⟩
  rw [← hr] at hrle hrlt ⊢
  have hm1 : 2 * ((r + 1) / 2) ≤ r + 1 := by omega
  have hm2 : r ≤ 2 * ((r + 1) / 2) := by omega
  have hm1R : (2 : ℝ) * ((r + 1) / 2 : ℕ) ≤ (r : ℝ) + 1 := by exact_mod_cast hm1
  have hm2R : (r : ℝ) ≤ 2 * ((r + 1) / 2 : ℕ) := by exact_mod_cast hm2
  rw [Nat.floor_eq_iff (by positivity)]
  constructor <;> linarith

theorem largestIdx_congr {α β : Type} [LT α] [DecidableRel (α := α) (· < ·)] [LT β] [DecidableRel (α := β) (· < ·)]
    (a : Fin 4 → α) (b : Fin 4 → β) (h : ∀ i j, a i < a j ↔ b i < b j) : largestIdx a = largestIdx b := by
  unfold largestIdx
  simp only [h]

/-- On a quaternion with integer components the executable model is the real-number compressor. -/
theorem compressInt_eq (v : Fin 4 → Int) (hv : v ≠ 0) :
    compressInt v = .ok (compressR (fun i => (v i : ℝ))) := by
  obtain ⟨n, hn⟩ : ∃ n : ℕ, n = (v 0).natAbs ^ 2 + (v 1).natAbs ^ 2 + (v 2).natAbs ^ 2 + (v 3).natAbs ^ 2 := ⟨_, rfl⟩
  have hnpos : 0 < n := by
    obtain ⟨i, hi⟩ := Function.ne_iff.mp hv
    have hi' : 0 < (v i).natAbs ^ 2 := Nat.pow_pos (Int.natAbs_pos.mpr hi)
    rw [hn]
    fin_cases i <;> simp only [Fin.reduceFinMk] at hi' <;> omega
  have hnorm : qnorm (fun i => (v i : ℝ)) = Real.sqrt n := by
    unfold qnorm
    congr 1
    rw [hn]; push_cast
    simp only [Nat.cast_natAbs, Int.cast_abs, sq_abs]
  have hN : 0 < Real.sqrt n := Real.sqrt_pos.mpr (by exact_mod_cast hnpos)
  have habs : ∀ i, |(v i : ℝ) / Real.sqrt n| = ((v i).natAbs : ℝ) / Real.sqrt n := by
    intro i
    rw [abs_div, abs_of_pos hN, Nat.cast_natAbs, Int.cast_abs]
  have hidx : largestIdx (fun i => (v i).natAbs) = largestIdx (fun i => |(v i : ℝ) / Real.sqrt n|) := by
    apply largestIdx_congr
    intro i j
    simp only [habs]
    rw [div_lt_div_iff_of_pos_right hN, Nat.cast_lt]
  have hsign : ∀ i, ((v i : ℝ) / Real.sqrt n < 0) ↔ v i < 0 := by
    intro i
    rw [div_neg_iff]
    constructor
    · rintro (⟨_, h⟩ | ⟨h, _⟩)
      · exact absurd h (not_lt.mpr hN.le)
      · exact_mod_cast h
    · intro h; right; exact ⟨by exact_mod_cast h, hN⟩
  unfold compressInt
  simp only [← hn, Nat.ne_of_gt hnpos, if_false]
  unfold compressR
  simp only [hnorm]
  rw [← hidx]
  congr 2
  · funext i
    simp only [hsign]
  · funext i
    unfold magR
    rw [cqScale_eq, habs]
    have := quatMag_eq (v i).natAbs n hnpos
    simp only [show (Int.toNat 511) = 511 from rfl]
    push_cast
    exact this.symm

end CfVerif.C13

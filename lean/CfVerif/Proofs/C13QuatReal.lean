/-
Proofs/C13QuatReal: the real-number analysis behind the quaternion round trip (no reference to the model).
δ is the quantisation step 1/(511·√2).
-/
import Mathlib.Analysis.SpecialFunctions.Sqrt
import Mathlib.Tactic.Linarith
import Mathlib.Tactic.Ring
import Mathlib.Tactic.Positivity
import Mathlib.Tactic.FieldSimp
import Mathlib.Tactic.NormNum
import Mathlib.Algebra.Order.Floor.Semiring
namespace CfVerif.C13.QuatReal

/-- rounding to the nearest multiple of δ: `m = ⌊x/δ + 1/2⌋` gives `|m·δ - x| ≤ δ/2` -/
theorem round_step (δ x : ℝ) (hδ : 0 < δ) (hx : 0 ≤ x) :
    |(⌊x / δ + 1 / 2⌋₊ : ℝ) * δ - x| ≤ δ / 2 := by
  have h0 : 0 ≤ x / δ + 1 / 2 := by positivity
  have h1 : (⌊x / δ + 1 / 2⌋₊ : ℝ) ≤ x / δ + 1 / 2 := Nat.floor_le h0
  have h2 : x / δ + 1 / 2 < (⌊x / δ + 1 / 2⌋₊ : ℝ) + 1 := Nat.lt_floor_add_one _
  have hx' : x / δ * δ = x := by field_simp
  rw [abs_le]
  constructor
  · nlinarith
  · nlinarith

/-- the magnitude fits 9 bits when `x ≤ 511·δ` (i.e. `x ≤ 1/√2`) -/
theorem round_le (δ x : ℝ) (hδ : 0 < δ) (hx : 0 ≤ x) (n : ℕ) (hle : x ≤ n * δ) : ⌊x / δ + 1 / 2⌋₊ ≤ n := by
  have h0 : 0 ≤ x / δ + 1 / 2 := by positivity
  have h1 : (⌊x / δ + 1 / 2⌋₊ : ℝ) ≤ x / δ + 1 / 2 := Nat.floor_le h0
  have h3 : x / δ ≤ n := by rw [div_le_iff₀ hδ]; exact hle
  have : (⌊x / δ + 1 / 2⌋₊ : ℝ) < (n : ℝ) + 1 := by linarith
  have : ⌊x / δ + 1 / 2⌋₊ < n + 1 := by exact_mod_cast this
  omega

theorem sq_diff_bound (δ L x d : ℝ) (hδ : 0 ≤ δ) (hx0 : 0 ≤ x) (hxL : x ≤ L) (hd : |d - x| ≤ δ / 2) :
    x ^ 2 - d ^ 2 ≤ δ * L ∧ d ^ 2 - x ^ 2 ≤ δ * L + δ ^ 2 / 4 := by
  rw [abs_le] at hd
  obtain ⟨h1, h2⟩ := hd
  constructor
  · nlinarith [mul_nonneg hδ hx0, sq_nonneg (d - x)]
  · nlinarith [mul_nonneg hδ hx0, sq_nonneg (d - x), mul_nonneg (by linarith : 0 ≤ δ / 2 - (d - x)) (by linarith : 0 ≤ δ / 2 + (d - x))]

/-- the reconstructed component: `|√(1 - Σ dᵢ²) - L| ≤ 2δ` -/
theorem recon_bound (δ L x1 x2 x3 d1 d2 d3 : ℝ) (hδ : 0 < δ) (hδs : δ ≤ 1 / 10)
    (h1 : 0 ≤ x1) (h2 : 0 ≤ x2) (h3 : 0 ≤ x3) (l1 : x1 ≤ L) (l2 : x2 ≤ L) (l3 : x3 ≤ L)
    (hsum : L ^ 2 + x1 ^ 2 + x2 ^ 2 + x3 ^ 2 = 1)
    (e1 : |d1 - x1| ≤ δ / 2) (e2 : |d2 - x2| ≤ δ / 2) (e3 : |d3 - x3| ≤ δ / 2) :
    |Real.sqrt (1 - (d1 ^ 2 + d2 ^ 2 + d3 ^ 2)) - L| ≤ 2 * δ := by
  have hL0 : 0 ≤ L := le_trans h1 l1
  have hL : 1 / 2 ≤ L := by
    by_contra hc
    rw [not_le] at hc
    nlinarith [mul_nonneg h1 (sub_nonneg.mpr l1), mul_nonneg h2 (sub_nonneg.mpr l2), mul_nonneg h3 (sub_nonneg.mpr l3),
      mul_nonneg h1 hL0, mul_nonneg h2 hL0, mul_nonneg h3 hL0]
  obtain ⟨a1, b1⟩ := sq_diff_bound δ L x1 d1 hδ.le h1 l1 e1
  obtain ⟨a2, b2⟩ := sq_diff_bound δ L x2 d2 hδ.le h2 l2 e2
  obtain ⟨a3, b3⟩ := sq_diff_bound δ L x3 d3 hδ.le h3 l3 e3
  have hlo : (L - 2 * δ) ^ 2 ≤ 1 - (d1 ^ 2 + d2 ^ 2 + d3 ^ 2) := by nlinarith
  have hhi : 1 - (d1 ^ 2 + d2 ^ 2 + d3 ^ 2) ≤ (L + 2 * δ) ^ 2 := by nlinarith
  have hpos : 0 ≤ L - 2 * δ := by linarith
  rw [abs_le]
  constructor
  · have := Real.sqrt_le_sqrt hlo
    rw [Real.sqrt_sq hpos] at this
    linarith
  · have := Real.sqrt_le_sqrt hhi
    rw [Real.sqrt_sq (by linarith : 0 ≤ L + 2 * δ)] at this
    linarith

end CfVerif.C13.QuatReal

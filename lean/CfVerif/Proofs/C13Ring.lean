/-
Proofs/C13Ring: ring-level / sequence-level statements — `write_data` is a map over the LEDs (timings): item i of the
written image is the encoding of LED i alone, whatever the other LEDs are.  Core Lean only.
-/
import CfVerif.Proofs.C13Led
namespace CfVerif.C13
open CfVerif

/-- an LED whose colour levels are 8-bit and whose intensity is 0..100 -/
def Led.InRange (l : Led) : Prop := 0 ≤ l.r ∧ l.r < 256 ∧ 0 ≤ l.g ∧ l.g < 256 ∧ 0 ≤ l.b ∧ l.b < 256 ∧ l.intensity ≤ 100

instance (l : Led) : Decidable l.InRange := by unfold Led.InRange; infer_instance

/-- the RGB565 word of ONE led (the per-LED function of `led_rgb565`) -/
def Led.word (l : Led) : Nat :=
  ledChanR l.r.toNat l.intensity * 2048 + ledChanG l.g.toNat l.intensity * 32 + ledChanB l.b.toNat l.intensity

/-- the two bytes transmitted for one LED -/
def Led.bytes (l : Led) : List UInt8 := [UInt8.ofNat (l.word / 256), UInt8.ofNat (l.word % 256)]

theorem ledBytes_inRange (l : Led) (h : l.InRange) : ledBytes l = .ok l.bytes := by
  obtain ⟨r0, r1, g0, g1, b0, b1, hi⟩ := h
  have e : l = ⟨(l.r.toNat : Int), (l.g.toNat : Int), (l.b.toNat : Int), l.intensity⟩ := by
    cases l; simp only [Led.mk.injEq]
    exact ⟨(Int.toNat_of_nonneg r0).symm, (Int.toNat_of_nonneg g0).symm, (Int.toNat_of_nonneg b0).symm, trivial⟩
  have := (led565_eq l.r.toNat l.g.toNat l.b.toNat l.intensity (by omega) (by omega) (by omega) hi).2
  rw [← e] at this
  exact this

/-- the per-LED results, or the first exception -/
def ledBytesAll : List Led → Except PyErr (List (List UInt8))
  | [] => .ok []
  | l :: ls =>
    match ledBytes l with
    | .error e => .error e
    | .ok a => (ledBytesAll ls).map (a :: ·)

/-- for ANY ring content: the image is the concatenation of the per-LED encodings (or the first per-LED exception) -/
theorem ledWriteData_is_map (ring : List Led) : ledWriteData ring = (ledBytesAll ring).map List.flatten := by
  induction ring with
  | nil => rfl
  | cons l ls ih =>
    simp only [ledWriteData, ledBytesAll, bind, Except.bind]
    cases ledBytes l with
    | error e => rfl
    | ok a =>
      simp only [ih]
      cases ledBytesAll ls <;> simp [Except.map, pure, Except.pure]

theorem ledWriteData_inRange (ring : List Led) (h : ∀ l ∈ ring, l.InRange) :
    ledWriteData ring = .ok (ring.flatMap Led.bytes) := by
  induction ring with
  | nil => rfl
  | cons l ls ih =>
    have hl := ledBytes_inRange l (h l List.mem_cons_self)
    have := ih (fun x hx => h x (List.mem_cons_of_mem _ hx))
    simp only [ledWriteData, hl, this, bind, Except.bind, pure, Except.pure, List.flatMap_cons]

theorem flatMap_pair_getElem? {α β : Type} (f : α → β × β) (xs : List α) (k : Nat) (hk : k < xs.length) :
    (xs.flatMap (fun x => [(f x).1, (f x).2]))[2 * k]? = some (f xs[k]).1 ∧
    (xs.flatMap (fun x => [(f x).1, (f x).2]))[2 * k + 1]? = some (f xs[k]).2 := by
  induction xs generalizing k with
  | nil => simp at hk
  | cons x xs ih =>
    cases k with
    | zero => simp
    | succ k =>
      have := ih k (by simpa using hk)
      have e1 : 2 * (k + 1) = (2 * k) + 2 := by omega
      have e2 : 2 * (k + 1) + 1 = (2 * k + 1) + 2 := by omega
      simp only [List.flatMap_cons, e1]
      exact ⟨by simpa using this.1, by simpa using this.2⟩

/-- the timing entries: each timing contributes its own four items (or nothing), then the terminator -/
def timingEntry (t : Timing) : List Int :=
  let led := timing565 t
  let extra := Gen.C13.ledtExtra t.leds (if t.fade then 1 else 0) t.rotate
  if Gen.C13.ledtKeep t.time led extra then Gen.C13.ledtEntry t.time led extra else []

theorem timingInts_is_map (ts : List Timing) : timingInts ts = ts.flatMap timingEntry ++ Gen.C13.ledtTerminator := by
  induction ts with
  | nil => rfl
  | cons t ts ih => simp only [timingInts, ih, List.flatMap_cons, List.append_assoc, timingEntry]

end CfVerif.C13

/-
Proofs/C13Traj: `int(RN64(x))` (Model `truncRn`) is within one unit of `x` whenever |x| < 2^53, and is huge otherwise.
Core Lean only.
-/
import CfVerif.Model.C13
import CfVerif.Base.StructLemmas
namespace CfVerif.C13
open CfVerif

theorem rhe_bounds (a d : Nat) (hd : 0 < d) :
    a / d ≤ rhe a d ∧ rhe a d ≤ a / d + 1 ∧ (a % d = 0 → rhe a d = a / d) := by
  unfold rhe
  refine ⟨?_, ?_, ?_⟩
  · show a / d ≤ if 2 * (a % d) < d then a / d else if d < 2 * (a % d) then a / d + 1 else if a / d % 2 = 0 then a / d else a / d + 1
    repeat' split
    all_goals omega
  · show (if 2 * (a % d) < d then a / d else if d < 2 * (a % d) then a / d + 1 else if a / d % 2 = 0 then a / d else a / d + 1) ≤ a / d + 1
    repeat' split
    all_goals omega
  · intro h
    show (if 2 * (a % d) < d then a / d else if d < 2 * (a % d) then a / d + 1 else if a / d % 2 = 0 then a / d else a / d + 1) = a / d
    rw [h, if_pos (by omega)]

theorem floorLog2_le (a d : Nat) (hd : 0 < d) (hlt : a < d * 2 ^ 53) : floorLog2 a d ≤ 52 := by
  unfold floorLog2
  split
  · rename_i hda
    have h1 : a / d < 2 ^ 53 := (Nat.div_lt_iff_lt_mul hd).mpr (by rw [Nat.mul_comm]; exact hlt)
    have h0 : a / d ≠ 0 := by
      have : 0 < a / d := Nat.div_pos hda hd
      omega
    have := (Nat.log2_lt h0).mpr h1
    omega
  · omega

theorem truncRnPos_small (a d : Nat) (hd : 0 < d) (hlt : a < d * 2 ^ 53) :
    ∃ R, truncRnPos a d = .ok R ∧ (R = a / d ∨ (R = a / d + 1 ∧ a % d ≠ 0)) := by
  have hfl := floorLog2_le a d hd hlt
  unfold truncRnPos
  cases he : rn64Exp a d with
  | ofNat k =>
    have hk : k = 0 := by
      unfold rn64Exp at he
      have : max (floorLog2 a d - 52) (-1074) ≤ 0 := by omega
      rw [he] at this
      have : (k : Int) ≤ 0 := this
      omega
    subst hk
    simp only [Nat.pow_zero, Nat.mul_one]
    obtain ⟨h1, h2, h3⟩ := rhe_bounds a d hd
    have hq : a / d < 2 ^ 53 := (Nat.div_lt_iff_lt_mul hd).mpr (by rw [Nat.mul_comm]; exact hlt)
    have hv : rhe a d ≤ 2 ^ 53 := by omega
    have hbig : rhe a d < 2 ^ 1024 :=
      Nat.lt_of_le_of_lt hv (Nat.pow_lt_pow_right (by decide : 1 < 2) (by decide : 53 < 1024))
    rw [if_pos hbig]
    refine ⟨_, rfl, ?_⟩
    by_cases hm : a % d = 0
    · left; exact h3 hm
    · by_cases hr : rhe a d = a / d
      · left; exact hr
      · right; exact ⟨by omega, hm⟩
  | negSucc k =>
    simp only
    refine ⟨_, rfl, ?_⟩
    have hs : 0 < 2 ^ (k + 1) := Nat.pow_pos (by decide)
    generalize 2 ^ (k + 1) = s at hs
    obtain ⟨h1, h2, h3⟩ := rhe_bounds (a * s) d hd
    have hn : a / d * d ≤ a := Nat.div_mul_le_self a d
    have hn2 : a < (a / d + 1) * d := by
      have := Nat.lt_succ_iff.mpr (Nat.le_refl (a / d))
      exact (Nat.div_lt_iff_lt_mul hd).mp this
    -- n*s ≤ (a*s)/d
    have hlo : a / d * s ≤ a * s / d := by
      apply (Nat.le_div_iff_mul_le hd).mpr
      calc a / d * s * d = a / d * d * s := by ac_rfl
        _ ≤ a * s := Nat.mul_le_mul_right s hn
    have hhi : a * s / d < (a / d + 1) * s := by
      apply (Nat.div_lt_iff_lt_mul hd).mpr
      calc a * s < (a / d + 1) * d * s := Nat.mul_lt_mul_of_pos_right hn2 hs
        _ = (a / d + 1) * s * d := by ac_rfl
    have hR1 : a / d ≤ rhe (a * s) d / s := (Nat.le_div_iff_mul_le hs).mpr (by omega)
    have hR2 : rhe (a * s) d / s ≤ a / d + 1 := by
      have : rhe (a * s) d / s < a / d + 1 + 1 := (Nat.div_lt_iff_lt_mul hs).mpr (by
        have : (a / d + 1 + 1) * s = (a / d + 1) * s + s := by rw [Nat.add_mul (a / d + 1) 1 s, Nat.one_mul]
        omega)
      omega
    by_cases hR : rhe (a * s) d / s = a / d
    · left; exact hR
    · right
      refine ⟨by omega, ?_⟩
      intro hm
      -- a = n*d, so (a*s) % d = 0 and rhe = n*s exactly
      have ha : a = a / d * d := by
        have := Nat.div_add_mod a d
        rw [hm, Nat.add_zero, Nat.mul_comm] at this; exact this.symm
      have hmod : a * s % d = 0 := by
        rw [ha, Nat.mul_assoc, Nat.mul_comm d s, ← Nat.mul_assoc]; exact Nat.mul_mod_left _ _
      have hq : a * s / d = a / d * s := by
        conv => lhs; rw [ha, Nat.mul_assoc, Nat.mul_comm d s, ← Nat.mul_assoc]
        exact Nat.mul_div_cancel _ hd
      have := h3 hmod
      rw [hq] at this
      rw [this, Nat.mul_div_cancel _ hs] at hR
      exact hR rfl

theorem truncRnPos_big (a d : Nat) (hd : 0 < d) (hge : d * 2 ^ 53 ≤ a) (R : Nat) (h : truncRnPos a d = .ok R) :
    2 ^ 52 ≤ R := by
  unfold truncRnPos at h
  cases he : rn64Exp a d with
  | ofNat k =>
    rw [he] at h
    simp only at h
    split at h
    · cases h
      -- k = log2 (a/d) - 52 and 2^log2 (a/d) ≤ a/d
      have hda : d ≤ a := by
        have : d * 1 ≤ d * 2 ^ 53 := Nat.mul_le_mul_left d (Nat.one_le_two_pow)
        omega
      have hn0 : a / d ≠ 0 := by have := Nat.div_pos hda hd; omega
      have hk : (k : Int) = (Nat.log2 (a / d) : Int) - 52 ∨ (k : Int) = -1074 := by
        unfold rn64Exp floorLog2 at he
        rw [if_pos hda] at he
        have : (Int.ofNat k) = max ((Nat.log2 (a / d) : Int) - 52) (-1074) := he.symm
        have h2 : (Int.ofNat k) = (k : Int) := rfl
        omega
      have hk' : Nat.log2 (a / d) = k + 52 := by omega
      have hpow : 2 ^ (k + 52) ≤ a / d := by rw [← hk']; exact Nat.log2_self_le hn0
      -- (a / (d*2^k)) ≥ 2^52
      have hq : 2 ^ 52 ≤ a / (d * 2 ^ k) := by
        rw [← Nat.div_div_eq_div_mul]
        apply (Nat.le_div_iff_mul_le (Nat.pow_pos (by decide))).mpr
        rw [← Nat.pow_add, Nat.add_comm]; exact hpow
      obtain ⟨h1, _, _⟩ := rhe_bounds a (d * 2 ^ k) (Nat.mul_pos hd (Nat.pow_pos (by decide)))
      calc 2 ^ 52 ≤ rhe a (d * 2 ^ k) := Nat.le_trans hq h1
        _ = rhe a (d * 2 ^ k) * 1 := (Nat.mul_one _).symm
        _ ≤ rhe a (d * 2 ^ k) * 2 ^ k := Nat.mul_le_mul_left _ Nat.one_le_two_pow
    · cases h
  | negSucc k =>
    rw [he] at h
    simp only at h
    cases h
    have hs : 0 < 2 ^ (k + 1) := Nat.pow_pos (by decide)
    generalize 2 ^ (k + 1) = s at hs
    obtain ⟨h1, _, _⟩ := rhe_bounds (a * s) d hd
    apply (Nat.le_div_iff_mul_le hs).mpr
    refine Nat.le_trans ?_ h1
    apply (Nat.le_div_iff_mul_le hd).mpr
    calc 2 ^ 52 * s * d = d * 2 ^ 52 * s := by ac_rfl
      _ ≤ a * s := Nat.mul_le_mul_right s (by
          exact Nat.le_trans (Nat.mul_le_mul_left d (Nat.pow_le_pow_right (by decide) (by decide))) hge)

/-- positive case of `truncRn_error`, on naturals: `|R - a/d| < 1`, i.e. `|R·d - a| < d` -/
theorem truncRnPos_error (a d : Nat) (hd : 0 < d) (R : Nat) (h : truncRnPos a d = .ok R) (hfit : R < 2 ^ 52) :
    R * d ≤ a + d ∧ a ≤ R * d + d ∧ (R * d < a + d) ∧ (a < R * d + d) := by
  by_cases hlt : a < d * 2 ^ 53
  · obtain ⟨R', hR', hcase⟩ := truncRnPos_small a d hd hlt
    rw [hR'] at h; cases h
    have h1 := Nat.div_add_mod a d
    have h2 := Nat.mod_lt a hd
    have hc : d * (a / d) = a / d * d := Nat.mul_comm _ _
    rcases hcase with rfl | ⟨rfl, hm⟩
    · generalize a / d * d = m at *
      omega
    · rw [Nat.add_mul, Nat.one_mul]
      generalize a / d * d = m at *
      omega
  · have := truncRnPos_big a d hd (by omega) R h
    omega

/-- `int(RN64(x))` is less than one unit away from `x` (stated without division: `|e·den - num| < den`)
whenever the result is below 2^52 in magnitude -/
theorem truncRn_error (x : Q) (hd : 0 < x.den) (e : Int) (h : truncRn x = .ok e) (hfit : e.natAbs < 2 ^ 52) :
    (e * x.den - x.num).natAbs < x.den := by
  unfold truncRn at h
  split at h
  · rename_i hx; cases h; rw [hx]; simpa using hd
  · rename_i a hx
    rw [hx]
    cases hr : truncRnPos (a + 1) x.den with
    | error err => rw [hr] at h; cases h
    | ok R =>
      rw [hr] at h; cases h
      have := truncRnPos_error (a + 1) x.den hd R hr (by simpa using hfit)
      have e1 : (Int.ofNat R * (x.den : Int) - Int.ofNat (a + 1)) = ((R * x.den : Nat) : Int) - ((a + 1 : Nat) : Int) := by
        simp
      rw [e1]
      generalize R * x.den = m at *
      omega
  · rename_i a hx
    rw [hx]
    cases hr : truncRnPos (a + 1) x.den with
    | error err => rw [hr] at h; cases h
    | ok R =>
      rw [hr] at h; cases h
      have := truncRnPos_error (a + 1) x.den hd R hr (by simpa using hfit)
      have e1 : (-(R : Int) * (x.den : Int) - Int.negSucc a) = ((a + 1 : Nat) : Int) - ((R * x.den : Nat) : Int) := by
        rw [Int.negSucc_eq]; simp [Int.neg_mul]; omega
      rw [e1]
      generalize R * x.den = m at *
      omega

/-! ### int16 packing: out of range raises, in range is recovered exactly by the decoder -/

def fitsInt16 (v : Int) : Prop := -32768 ≤ v ∧ v ≤ 32767
instance (v : Int) : Decidable (fitsInt16 v) := by unfold fitsInt16; infer_instance

theorem packSigned2_err (v : Int) (h : ¬ fitsInt16 v) : packSigned 2 v = .error .structError := by
  unfold fitsInt16 at h
  cases v with
  | ofNat n =>
    simp only [packSigned]
    have : (256 ^ 2 / 2 : Nat) = 32768 := by decide
    rw [this, if_neg]
    have : (Int.ofNat n) = (n : Int) := rfl
    omega
  | negSucc n =>
    simp only [packSigned]
    have : (256 ^ 2 / 2 : Nat) = 32768 := by decide
    rw [this, if_neg]
    rw [Int.negSucc_eq] at h
    omega

theorem packSigned2_fits (v : Int) (bs) (h : packSigned 2 v = .ok bs) : fitsInt16 v := by
  have := packSigned_ok h
  have e : (256 ^ 2 / 2 : Nat) = 32768 := by decide
  rw [e] at this
  unfold fitsInt16; omega

theorem packSigned2_ok_of_fits (v : Int) (h : fitsInt16 v) : ∃ a, packSigned 2 v = .ok a := by
  unfold fitsInt16 at h
  have e : (256 ^ 2 / 2 : Nat) = 32768 := by decide
  cases v with
  | ofNat n =>
    simp only [packSigned]; rw [e, if_pos]; exact ⟨_, rfl⟩
    have : (Int.ofNat n) = (n : Int) := rfl
    omega
  | negSucc n =>
    simp only [packSigned]; rw [e, if_pos]; exact ⟨_, rfl⟩
    rw [Int.negSucc_eq] at h; omega

/-- packing a list of ints with `h` codes succeeds only if all fit -/
theorem pack_hs_fits : ∀ (vs : List Int) (bs : List UInt8),
    pack (List.replicate vs.length Code.h) (vs.map Val.int) = .ok bs → ∀ v ∈ vs, fitsInt16 v
  | [], _, _ => by simp
  | v :: vs, bs, h => by
    simp only [List.length_cons, List.replicate_succ, List.map_cons, pack, packOne, bind, Except.bind] at h
    cases hv : packSigned 2 v with
    | error e => rw [hv] at h; cases h
    | ok a =>
      rw [hv] at h
      cases hr : pack (List.replicate vs.length Code.h) (vs.map Val.int) with
      | error e => rw [hr] at h; cases h
      | ok r =>
        intro w hw
        rcases List.mem_cons.mp hw with rfl | hw
        · exact packSigned2_fits _ _ hv
        · exact pack_hs_fits vs r hr w hw

/-- … and raises `struct.error` as soon as one does not fit (never wraps) -/
theorem pack_hs_err : ∀ (vs : List Int), (∃ v ∈ vs, ¬ fitsInt16 v) →
    pack (List.replicate vs.length Code.h) (vs.map Val.int) = .error .structError
  | [], h => by simp at h
  | v :: vs, h => by
    simp only [List.length_cons, List.replicate_succ, List.map_cons, pack, packOne, bind, Except.bind]
    by_cases hv : fitsInt16 v
    · have hrest : ∃ w ∈ vs, ¬ fitsInt16 w := by
        obtain ⟨w, hw, hn⟩ := h
        rcases List.mem_cons.mp hw with rfl | hw
        · exact absurd hv hn
        · exact ⟨w, hw, hn⟩
      rw [pack_hs_err vs hrest]
      obtain ⟨a, ha⟩ := packSigned2_ok_of_fits v hv
      rw [ha]
    · rw [packSigned2_err v hv]

theorem canon_hs : ∀ (vs : List Int), canonVals (List.replicate vs.length Code.h) (vs.map Val.int) = true
  | [] => rfl
  | v :: vs => by
    simp only [List.length_cons, List.replicate_succ, List.map_cons, canonVals, Val.canonFor, canon_hs vs, Bool.and_self]

/-- what the firmware reads back (`unpack`) from a successful pack is exactly the list of encoded integers -/
theorem unpack_pack_hs (vs : List Int) (bs : List UInt8)
    (h : pack (List.replicate vs.length Code.h) (vs.map Val.int) = .ok bs) :
    unpack (List.replicate vs.length Code.h) bs = .ok (vs.map Val.int) ∧ bs.length = 2 * vs.length := by
  refine ⟨unpack_pack (canon_hs vs) h, ?_⟩
  have := pack_length h
  rw [this]
  clear h this
  induction vs with
  | nil => rfl
  | cons v vs ih =>
    simp only [List.length_cons, List.replicate_succ, Fmt.size, List.map_cons, List.sum_cons, Code.size] at ih ⊢
    omega

theorem pack_hs_ok (vs : List Int) (h : ∀ v ∈ vs, fitsInt16 v) :
    ∃ bs, pack (List.replicate vs.length Code.h) (vs.map Val.int) = .ok bs := by
  induction vs with
  | nil => exact ⟨[], rfl⟩
  | cons v vs ih =>
    obtain ⟨r, hr⟩ := ih (fun w hw => h w (List.mem_cons_of_mem _ hw))
    obtain ⟨a, ha⟩ := packSigned2_ok_of_fits v (h v (List.mem_cons_self))
    refine ⟨a ++ r, ?_⟩
    simp only [List.length_cons, List.replicate_succ, List.map_cons, pack, packOne, bind, Except.bind, ha, hr, pure, Except.pure]

theorem startFmt_hs : parseFmt! Gen.C13.startFmt = List.replicate 4 Code.h := by decide
theorem segElemFmt_hs : parseFmt! Gen.C13.segElemFmt = [Code.h] := by decide

/-- `CompressedStart.pack`: if every encoded value fits int16 the bytes decode (firmware side: `unpack`) to exactly
the encoded values; otherwise `struct.error` is raised — nothing wraps -/
theorem packStart_spec (x y z w : Q) (ex ey ez ew : Int)
    (hx : encodeSpatial x = .ok ex) (hy : encodeSpatial y = .ok ey) (hz : encodeSpatial z = .ok ez)
    (hw : encodeYawDeg w = .ok ew) :
    ((∀ v ∈ [ex, ey, ez, ew], fitsInt16 v) →
      ∃ bs, packStart x y z w = .ok bs ∧ bs.length = 8 ∧
        unpack (parseFmt! Gen.C13.startFmt) bs = .ok [.int ex, .int ey, .int ez, .int ew]) ∧
    ((∃ v ∈ [ex, ey, ez, ew], ¬ fitsInt16 v) → packStart x y z w = .error .structError) := by
  have hp : packStart x y z w = pack (List.replicate [ex, ey, ez, ew].length Code.h) ([ex, ey, ez, ew].map Val.int) := by
    unfold packStart
    rw [hx, hy, hz, hw, startFmt_hs]
    rfl
  constructor
  · intro hfit
    obtain ⟨bs, hbs⟩ := pack_hs_ok _ hfit
    obtain ⟨hu, hl⟩ := unpack_pack_hs _ bs hbs
    exact ⟨bs, by rw [hp, hbs], by simpa using hl, by rw [startFmt_hs]; exact hu⟩
  · intro hbad
    rw [hp]; exact pack_hs_err _ hbad

theorem packElement_eq_pack (enc : Q → Except PyErr Int) (f : Q → Int) :
    ∀ (ps : List Q), (∀ p ∈ ps, enc p = .ok (f p)) →
      packElement enc ps = pack (List.replicate (ps.map f).length Code.h) ((ps.map f).map Val.int)
  | [], _ => rfl
  | p :: ps, h => by
    have hp := h p List.mem_cons_self
    have ih := packElement_eq_pack enc f ps (fun q hq => h q (List.mem_cons_of_mem _ hq))
    simp only [packElement, hp, segElemFmt_hs, ih, bind, Except.bind, List.map_cons, List.length_cons,
      List.replicate_succ, pack, packOne, pure, Except.pure]
    cases packSigned 2 (f p) with
    | error e => rfl
    | ok a =>
      simp only [List.append_nil]

/-- one trajectory element (`_pack_element(map(encode, element))`): same statement for any number of parts -/
theorem packElement_spec (enc : Q → Except PyErr Int) (f : Q → Int) (ps : List Q) (h : ∀ p ∈ ps, enc p = .ok (f p)) :
    ((∀ p ∈ ps, fitsInt16 (f p)) →
      ∃ bs, packElement enc ps = .ok bs ∧ bs.length = 2 * ps.length ∧
        unpack (List.replicate ps.length Code.h) bs = .ok (ps.map (fun p => Val.int (f p)))) ∧
    ((∃ p ∈ ps, ¬ fitsInt16 (f p)) → packElement enc ps = .error .structError) := by
  rw [packElement_eq_pack enc f ps h]
  constructor
  · intro hfit
    obtain ⟨bs, hbs⟩ := pack_hs_ok (ps.map f) (by simpa using hfit)
    obtain ⟨hu, hl⟩ := unpack_pack_hs _ bs hbs
    refine ⟨bs, hbs, by simpa using hl, ?_⟩
    have hm : List.map (fun p => Val.int (f p)) ps = List.map Val.int (List.map f ps) := by simp
    rw [hm]; simpa using hu
  · intro hbad
    obtain ⟨p, hp, hn⟩ := hbad
    exact pack_hs_err _ ⟨f p, List.mem_map.mpr ⟨p, hp, rfl⟩, hn⟩

end CfVerif.C13

/-
Proofs/C13Val: what `FpVal.same` means, in ℚ.
-/
import CfVerif.Spec.C13
import Mathlib.Tactic.FieldSimp
import Mathlib.Tactic.Ring
import Mathlib.Data.Rat.Defs
import Mathlib.Algebra.Order.Field.Basic
namespace CfVerif.C13.Spec

/-- two finite data denote the same value iff they have the same sign and `n/2^k = m/2^l` as rationals -/
theorem same_fin_iff (a b : Bool) (n m k l : Nat) :
    (FpVal.fin a n k).same (.fin b m l) = true ↔ a = b ∧ (n : ℚ) / 2 ^ k = (m : ℚ) / 2 ^ l := by
  simp only [FpVal.same, Bool.and_eq_true, beq_iff_eq]
  have hk : (2 : ℚ) ^ k ≠ 0 := pow_ne_zero _ (by norm_num)
  have hl : (2 : ℚ) ^ l ≠ 0 := pow_ne_zero _ (by norm_num)
  rw [div_eq_div_iff hk hl]
  constructor
  · rintro ⟨h1, h2⟩; exact ⟨h1, by exact_mod_cast h2⟩
  · rintro ⟨h1, h2⟩; exact ⟨h1, by exact_mod_cast h2⟩

end CfVerif.C13.Spec

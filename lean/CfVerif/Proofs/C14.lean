/- Proofs/C14 — helper lemmas for Props/C14 (part 1: list/slice/struct helpers, EEPROM image). -/
import CfVerif.Spec.C14
import CfVerif.Base.StructLemmas
namespace CfVerif.C14
open CfVerif

theorem len_succ {α} {l : List α} {n} (h : l.length = n+1) : ∃ a t, l = a :: t ∧ t.length = n := by
  cases l with
  | nil => cases h
  | cons a t => exact ⟨a, t, rfl, by simpa using h⟩

theorem unpack_hdr (bs : List UInt8) (h : bs.length = 11) :
    unpack [.B,.B,.B,.f,.f] bs = .ok [.int (bs.getD 0 0).toNat, .int (bs.getD 1 0).toNat, .int (bs.getD 2 0).toNat,
      .flt (leVal (slice bs 3 7)), .flt (leVal (slice bs 7 11))] := by
  obtain ⟨b0, t1, rfl, h1⟩ := len_succ h
  obtain ⟨b1, t2, rfl, h2⟩ := len_succ h1
  obtain ⟨b2, t3, rfl, h3⟩ := len_succ h2
  obtain ⟨b3, t4, rfl, h4⟩ := len_succ h3
  obtain ⟨b4, t5, rfl, h5⟩ := len_succ h4
  obtain ⟨b5, t6, rfl, h6⟩ := len_succ h5
  obtain ⟨b6, t7, rfl, h7⟩ := len_succ h6
  obtain ⟨b7, t8, rfl, h8⟩ := len_succ h7
  obtain ⟨b8, t9, rfl, h9⟩ := len_succ h8
  obtain ⟨b9, t10, rfl, h10⟩ := len_succ h9
  obtain ⟨b10, t11, rfl, h11⟩ := len_succ h10
  have : t11 = [] := List.eq_nil_of_length_eq_zero h11
  subst this
  simp [unpack, Code.size, Code.takesVal, unpackOne, leVal, slice, bind, Except.bind, pure, Except.pure]

theorem unpack_BI (bs : List UInt8) (h : bs.length = 5) :
    unpack [.B,.I] bs = .ok [.int (bs.getD 0 0).toNat, .int (leVal (slice bs 1 5))] := by
  obtain ⟨b0, t1, rfl, h1⟩ := len_succ h
  obtain ⟨b1, t2, rfl, h2⟩ := len_succ h1
  obtain ⟨b2, t3, rfl, h3⟩ := len_succ h2
  obtain ⟨b3, t4, rfl, h4⟩ := len_succ h3
  obtain ⟨b4, t5, rfl, h5⟩ := len_succ h4
  have : t5 = [] := List.eq_nil_of_length_eq_zero h5
  subst this
  simp [unpack, Code.size, Code.takesVal, unpackOne, leVal, slice, bind, Except.bind, pure, Except.pure]

theorem slice_length (l : List UInt8) (a b : Nat) (h : b ≤ l.length) : (slice l a b).length = b - a := by
  simp [slice]; omega

theorem getD_slice (l : List UInt8) (a b i : Nat) (h : a + i < b) : (slice l a b).getD i 0 = l.getD (a + i) 0 := by
  simp [slice, List.getD_eq_getElem?_getD, List.getElem?_drop, h]

theorem slice_slice (l : List UInt8) (a b c d : Nat) (h : a + d ≤ b) : slice (slice l a b) c d = slice l (a + c) (a + d) := by
  simp only [slice]
  rw [List.take_drop, List.take_take, List.drop_drop, Nat.min_eq_left h]

theorem slice_take (l : List UInt8) (n a b : Nat) (h : b ≤ n) : slice (l.take n) a b = slice l a b := by
  simp [slice, List.take_take, Nat.min_eq_left h]

theorem slice_append_slice (l : List UInt8) (a b c : Nat) (h1 : a ≤ b) (h2 : b ≤ c) (h3 : c ≤ l.length) :
    slice l a b ++ slice l b c = slice l a c := by
  simp only [slice]
  have h : l.take c = l.take b ++ (l.drop b).take (c - b) := by
    have := List.take_add (l := l) (i := b) (j := c - b)
    rwa [show b + (c - b) = c by omega] at this
  have hb : (l.take b).length = b := by simp; omega
  rw [h, List.drop_append_of_le_length (by omega), List.drop_append_of_le_length (by omega),
    List.drop_eq_nil_of_le (as := l.take b) (i := b) (by omega), List.nil_append]

theorem getD_take (l : List UInt8) (n i : Nat) (h : i < n) : (l.take n).getD i 0 = l.getD i 0 := by
  simp [List.getD_eq_getElem?_getD, h]

theorem fmt_i2cHdr : parseFmt! Gen.C14.i2cHdrFmt = [.B,.B,.B,.f,.f] := by decide
theorem fmt_i2cAddr : parseFmt! Gen.C14.i2cAddrFmt = [.B,.I] := by decide
theorem fmt_i2cW0 : parseFmt! Gen.C14.i2cW0Fmt = [.B,.B,.B,.f,.f] := by decide
theorem fmt_i2cW1 : parseFmt! Gen.C14.i2cW1Fmt = [.B,.B,.B,.f,.f,.B,.I] := by decide
theorem fmt_i2cWck : parseFmt! Gen.C14.i2cWckFmt = [.B] := by decide
theorem gen_i2cRead1 : Gen.C14.i2cRead1 = [0, 16] := by decide
theorem gen_i2cRead2 : Gen.C14.i2cRead2 = [16, 5] := by decide
theorem gen_token : eepromToken = [0x30, 0x78, 0x42, 0x43] := by decide
theorem gen_mod : Gen.C14.i2cChecksumMod = 256 := by decide

set_option maxRecDepth 16384 in
/-- every path that ends an update calls the callback and clears the pending record (D141 repaired: also the unknown version) -/
theorem gen_i2c_paths : Gen.C14.i2cCbCalls.contains i2cPathUnknown = true ∧ Gen.C14.i2cCbClears.contains i2cPathUnknown = true ∧
    Gen.C14.i2cCbCalls.contains i2cPathBadToken = true ∧ Gen.C14.i2cCbClears.contains i2cPathBadToken = true ∧
    Gen.C14.i2cCbCalls.contains i2cPathDone = true ∧ Gen.C14.i2cCbClears.contains i2cPathDone = true := by decide

theorem i2cUpdate_eq_decode (m : Mem) (hm : 21 ≤ m.length) : i2cUpdate m = .ok (i2cDecode m) := by
  unfold i2cUpdate i2cDecode
  simp only [gen_i2cRead1, gen_i2cRead2, List.getD_cons_zero, List.getD_cons_succ, Mem.read, List.drop_zero,
    fmt_i2cHdr, fmt_i2cAddr, gen_token]
  have h04 : slice (m.take 16) 0 4 = m.take 4 := by simp [slice, List.take_take]
  rw [h04]
  by_cases htok : m.take 4 = [0x30, 0x78, 0x42, 0x43]
  · rw [if_pos htok, if_pos htok]
    have hb : (slice (m.take 16) 4 15).length = 11 := by rw [slice_length _ _ _ (by simp; omega)]
    rw [unpack_hdr _ hb]
    simp only
    have e0 : (slice (m.take 16) 4 15).getD 0 0 = m.getD 4 0 := by rw [getD_slice _ _ _ _ (by omega), getD_take _ _ _ (by omega)]
    have e1 : (slice (m.take 16) 4 15).getD 1 0 = m.getD 5 0 := by rw [getD_slice _ _ _ _ (by omega), getD_take _ _ _ (by omega)]
    have e2 : (slice (m.take 16) 4 15).getD 2 0 = m.getD 6 0 := by rw [getD_slice _ _ _ _ (by omega), getD_take _ _ _ (by omega)]
    have e3 : slice (slice (m.take 16) 4 15) 3 7 = slice m 7 11 := by rw [slice_slice _ _ _ _ _ (by omega), slice_take _ _ _ _ (by omega)]
    have e4 : slice (slice (m.take 16) 4 15) 7 11 = slice m 11 15 := by rw [slice_slice _ _ _ _ _ (by omega), slice_take _ _ _ _ (by omega)]
    rw [e0, e1, e2, e3, e4]
    have hz : ∀ b : UInt8, ((b.toNat : Int) = 0) ↔ b = 0 := by
      intro b; constructor
      · intro h; have : b.toNat = 0 := by exact_mod_cast h
        exact UInt8.toNat_inj.mp (by simpa using this)
      · rintro rfl; rfl
    have h1 : ∀ b : UInt8, ((b.toNat : Int) = 1) ↔ b = 1 := by
      intro b; constructor
      · intro h; have : b.toNat = 1 := by exact_mod_cast h
        exact UInt8.toNat_inj.mp (by simpa using this)
      · rintro rfl; rfl
    simp only [hz, h1]
    by_cases hv0 : m.getD 4 0 = 0
    · rw [if_pos hv0, if_pos hv0]
      simp only [i2cFinish, checksum256, gen_mod, List.length_take, Nat.min_eq_left (show 16 ≤ m.length by omega)]
      rw [List.take_take, getD_take _ _ _ (by omega)]
      rfl
    · rw [if_neg hv0, if_neg hv0]
      by_cases hv1 : m.getD 4 0 = 1
      · rw [if_pos hv1, if_pos hv1]
        have hl : (slice (m.take 16) 15 16 ++ slice ((m.drop 16).take 5) 0 4).length = 5 := by
          simp [slice]; omega
        rw [unpack_BI _ hl]
        simp only
        have hcat : m.take 16 ++ (m.drop 16).take 5 = m.take 21 := (List.take_add (l := m) (i := 16) (j := 5)).symm
        have hs : slice (m.take 16) 15 16 ++ slice ((m.drop 16).take 5) 0 4 = slice m 15 20 := by
          rw [slice_take _ _ _ _ (by omega)]
          have : slice ((m.drop 16).take 5) 0 4 = slice m 16 20 := by
            simp only [slice, List.drop_zero, List.take_take]
            rw [List.take_drop]; rfl
          rw [this, slice_append_slice _ _ _ _ (by omega) (by omega) (by omega)]
        rw [hs, hcat, getD_slice _ _ _ _ (by omega), slice_slice _ _ _ _ _ (by omega)]
        simp only [i2cFinish, checksum256, gen_mod, List.length_take, Nat.min_eq_left (show 21 ≤ m.length by omega)]
        rw [List.take_take, getD_take _ _ _ (by omega)]
        have hj : Gen.C14.i2cAddrJoin (m.getD 15 0).toNat (leVal (slice m 16 20)) = (m.getD 15 0).toNat * 2 ^ 32 + leVal (slice m 16 20) := by
          have hl : leVal (slice m 16 20) < 2 ^ 32 := by
            have := leVal_lt (slice m 16 20)
            rw [slice_length _ _ _ (by omega)] at this
            simpa using this
          unfold Gen.C14.i2cAddrJoin
          rw [← Nat.shiftLeft_add_eq_or_of_lt hl, Nat.shiftLeft_eq]
        simp only [Int.toNat_natCast]
        rw [hj]
        rfl
      · rw [if_neg hv1, if_neg hv1, gen_i2c_paths.1]
  · rw [if_neg htok, if_neg htok]
theorem pack_cons_ok {c : Code} {cs : Fmt} {v : Val} {vs : List Val} {bs : List UInt8} (hx : c ≠ .x)
    (h : pack (c :: cs) (v :: vs) = .ok bs) : ∃ a r, packOne c v = .ok a ∧ pack cs vs = .ok r ∧ bs = a ++ r := by
  have hp : pack (c :: cs) (v :: vs) = (do let a ← packOne c v; let r ← pack cs vs; pure (a ++ r)) := by
    cases c <;> first | exact absurd rfl hx | rfl
  rw [hp] at h
  simp only [bind, Except.bind] at h
  split at h
  · cases h
  · rename_i a ha
    split at h
    · cases h
    · rename_i r hr
      cases h
      exact ⟨a, r, ha, hr, rfl⟩

theorem pack_nil_ok {bs : List UInt8} (h : pack [] [] = .ok bs) : bs = [] := by cases h; rfl

theorem packB_ok {v : Int} {a} (h : packOne .B (.int v) = .ok a) : 0 ≤ v ∧ v < 256 ∧ a = [UInt8.ofNat v.toNat] := by
  obtain ⟨h0, h1, h2, rfl⟩ := packUnsigned_ok h
  refine ⟨h0, by simpa using h1, ?_⟩
  have : v.toNat % 256 = v.toNat := Nat.mod_eq_of_lt (by simpa using h2)
  simp [leBytes, this]

theorem packf_ok {v : Nat} {a} (h : packOne .f (.flt v) = .ok a) : v < 2 ^ 32 ∧ a = leBytes 4 v := by
  obtain ⟨h1, rfl⟩ := packFlt_ok h
  exact ⟨by simpa using h1, rfl⟩

/-- the 15 bytes before the checksum of a version-0 image -/
def i2cPre0 (e : I2CElems) : List UInt8 :=
  0x30 :: 0x78 :: 0x42 :: 0x43 :: 0 :: UInt8.ofNat e.channel.toNat :: UInt8.ofNat e.speed.toNat ::
      (leBytes 4 e.pitch ++ leBytes 4 e.roll)

theorem i2c_image_v0 {e : I2CElems} {img} (hv : e.version = 0) (h : i2cImage e = .ok img) :
    0 ≤ e.channel ∧ e.channel < 256 ∧ 0 ≤ e.speed ∧ e.speed < 256 ∧ e.pitch < 2 ^ 32 ∧ e.roll < 2 ^ 32 ∧
    img = i2cPre0 e ++ [UInt8.ofNat (byteSum (i2cPre0 e) % 256)] := by
  unfold i2cImage at h
  simp only [hv, if_true, fmt_i2cW0, fmt_i2cWck, bind, Except.bind] at h
  split at h
  · cases h
  · rename_i body hb
    obtain ⟨a0, r0, h0, hb0, rfl⟩ := pack_cons_ok (by decide) hb
    obtain ⟨a1, r1, h1, hb1, rfl⟩ := pack_cons_ok (by decide) hb0
    obtain ⟨a2, r2, h2, hb2, rfl⟩ := pack_cons_ok (by decide) hb1
    obtain ⟨a3, r3, h3, hb3, rfl⟩ := pack_cons_ok (by decide) hb2
    obtain ⟨a4, r4, h4, hb4, rfl⟩ := pack_cons_ok (by decide) hb3
    have := pack_nil_ok hb4; subst this
    obtain ⟨_, _, rfl⟩ := packB_ok h0
    obtain ⟨c0, c1, rfl⟩ := packB_ok h1
    obtain ⟨s0, s1, rfl⟩ := packB_ok h2
    obtain ⟨p1, rfl⟩ := packf_ok h3
    obtain ⟨q1, rfl⟩ := packf_ok h4
    split at h
    · cases h
    · rename_i ck hck
      obtain ⟨a5, r5, h5, hck1, rfl⟩ := pack_cons_ok (by decide) hck
      have := pack_nil_ok hck1; subst this
      obtain ⟨_, _, rfl⟩ := packB_ok h5
      cases h
      refine ⟨c0, c1, s0, s1, p1, q1, ?_⟩
      simp [gen_token, i2cPre0, checksum256, gen_mod]
      congr 1
theorem Mem.write_zero (m : Mem) (d : List UInt8) : Mem.write m 0 d = d ++ m.drop d.length := by
  simp [Mem.write]

theorem Mem.write_zero_length (m : Mem) (d : List UInt8) : m.length ≤ (Mem.write m 0 d).length := by
  rw [Mem.write_zero]; simp; omega

theorem i2cPre0_length (e : I2CElems) : (i2cPre0 e).length = 15 := by simp [i2cPre0]

theorem ofNat_toNat_of_lt {n : Nat} (h : n < 256) : (UInt8.ofNat n).toNat = n := by
  simp [Nat.mod_eq_of_lt h]

theorem len4 {l : List UInt8} (h : l.length = 4) : ∃ a b c d, l = [a, b, c, d] := by
  obtain ⟨a, t1, rfl, h1⟩ := len_succ h
  obtain ⟨b, t2, rfl, h2⟩ := len_succ h1
  obtain ⟨c, t3, rfl, h3⟩ := len_succ h2
  obtain ⟨d, t4, rfl, h4⟩ := len_succ h3
  have : t4 = [] := List.eq_nil_of_length_eq_zero h4
  subst this
  exact ⟨a, b, c, d, rfl⟩

theorem i2cDecode_shape0 (c s k : UInt8) (P R rest : List UInt8) (hP : P.length = 4) (hR : R.length = 4) :
    i2cDecode (0x30 :: 0x78 :: 0x42 :: 0x43 :: 0 :: c :: s :: (P ++ (R ++ (k :: rest)))) =
      { fields := some (0, c.toNat, s.toNat, leVal P, leVal R), address := none,
        valid := byteSum (0x30 :: 0x78 :: 0x42 :: 0x43 :: 0 :: c :: s :: (P ++ R)) % 256 == k.toNat, called := true } := by
  obtain ⟨p0, p1, p2, p3, rfl⟩ := len4 hP
  obtain ⟨r0, r1, r2, r3, rfl⟩ := len4 hR
  simp [i2cDecode, slice]

theorem i2cDecode_shape1 (c s u k : UInt8) (P R L rest : List UInt8) (hP : P.length = 4) (hR : R.length = 4) (hL : L.length = 4) :
    i2cDecode (0x30 :: 0x78 :: 0x42 :: 0x43 :: 1 :: c :: s :: (P ++ (R ++ (u :: (L ++ (k :: rest)))))) =
      { fields := some (1, c.toNat, s.toNat, leVal P, leVal R), address := some (u.toNat * 2 ^ 32 + leVal L),
        valid := byteSum (0x30 :: 0x78 :: 0x42 :: 0x43 :: 1 :: c :: s :: (P ++ (R ++ (u :: L)))) % 256 == k.toNat, called := true } := by
  obtain ⟨p0, p1, p2, p3, rfl⟩ := len4 hP
  obtain ⟨r0, r1, r2, r3, rfl⟩ := len4 hR
  obtain ⟨l0, l1, l2, l3, rfl⟩ := len4 hL
  simp [i2cDecode, slice]

theorem i2c_roundtrip_v0_aux (e : I2CElems) (hv : e.version = 0) (img : List UInt8) (h : i2cImage e = .ok img)
    (m : Mem) (hm : 21 ≤ m.length) :
    i2cUpdate (m.write 0 img) = .ok { fields := some (0, e.channel, e.speed, e.pitch, e.roll), address := none,
                                        valid := true, called := true } := by
  rw [i2cUpdate_eq_decode _ (Nat.le_trans hm (Mem.write_zero_length m img))]
  obtain ⟨c0, c1, s0, s1, p1, q1, rfl⟩ := i2c_image_v0 hv h
  rw [Mem.write_zero]
  have hc : (UInt8.ofNat e.channel.toNat).toNat = e.channel.toNat := ofNat_toNat_of_lt (by omega)
  have hs : (UInt8.ofNat e.speed.toNat).toNat = e.speed.toNat := ofNat_toNat_of_lt (by omega)
  simp only [i2cPre0, List.cons_append, List.append_assoc]
  rw [i2cDecode_shape0 _ _ _ _ _ _ (leBytes_length 4 _) (leBytes_length 4 _)]
  rw [hc, hs, leVal_leBytes_of_lt (by simpa using p1), leVal_leBytes_of_lt (by simpa using q1),
    Int.toNat_of_nonneg c0, Int.toNat_of_nonneg s0]
  rw [ofNat_toNat_of_lt (Nat.mod_lt _ (by decide))]
  simp

theorem packI_ok {v : Int} {a} (h : packOne .I (.int v) = .ok a) : 0 ≤ v ∧ v.toNat < 2 ^ 32 ∧ a = leBytes 4 v.toNat := by
  obtain ⟨h0, _, h2, rfl⟩ := packUnsigned_ok h
  exact ⟨h0, by simpa using h2, rfl⟩

/-- the 20 bytes before the checksum of a version-1 image -/
def i2cPre1 (e : I2CElems) (a : Nat) : List UInt8 :=
  0x30 :: 0x78 :: 0x42 :: 0x43 :: 1 :: UInt8.ofNat e.channel.toNat :: UInt8.ofNat e.speed.toNat ::
      (leBytes 4 e.pitch ++ (leBytes 4 e.roll ++ (UInt8.ofNat (a / 2 ^ 32) :: leBytes 4 (a % 2 ^ 32))))

theorem i2cAddrHi_eq (a : Nat) : Gen.C14.i2cAddrHi a = a / 2 ^ 32 := by
  simp [Gen.C14.i2cAddrHi, Nat.shiftRight_eq_div_pow]

theorem i2cAddrLo_eq (a : Nat) : Gen.C14.i2cAddrLo a = a % 2 ^ 32 := by
  unfold Gen.C14.i2cAddrLo
  exact Nat.and_two_pow_sub_one_eq_mod a 32

theorem i2c_image_v1 {e : I2CElems} {img} (hv : e.version = 1) (h : i2cImage e = .ok img) :
    ∃ a : Nat, e.address = some (a : Int) ∧ a < 2 ^ 40 ∧
    0 ≤ e.channel ∧ e.channel < 256 ∧ 0 ≤ e.speed ∧ e.speed < 256 ∧ e.pitch < 2 ^ 32 ∧ e.roll < 2 ^ 32 ∧
    img = i2cPre1 e a ++ [UInt8.ofNat (byteSum (i2cPre1 e a) % 256)] := by
  unfold i2cImage at h
  have h10 : ¬ ((1 : Int) = 0) := by decide
  simp only [hv, h10, if_true, if_false, fmt_i2cW1, fmt_i2cWck, bind, Except.bind] at h
  cases hadr : e.address with
  | none => rw [hadr] at h; cases h
  | some a =>
    rw [hadr] at h
    cases a with
      | negSucc n =>
        exfalso
        simp only at h
        split at h
        · cases h
        · rename_i body hb
          obtain ⟨a0, r0, h0, hb0, rfl⟩ := pack_cons_ok (by decide) hb
          obtain ⟨a1, r1, h1, hb1, rfl⟩ := pack_cons_ok (by decide) hb0
          obtain ⟨a2, r2, h2, hb2, rfl⟩ := pack_cons_ok (by decide) hb1
          obtain ⟨a3, r3, h3, hb3, rfl⟩ := pack_cons_ok (by decide) hb2
          obtain ⟨a4, r4, h4, hb4, rfl⟩ := pack_cons_ok (by decide) hb3
          obtain ⟨a5, r5, h5, hb5, rfl⟩ := pack_cons_ok (by decide) hb4
          obtain ⟨hn, _⟩ := packB_ok h5
          have : pyShr (Int.negSucc n) 32 < 0 := by
            unfold pyShr
            rw [Int.negSucc_shiftRight]
            exact Int.negSucc_lt_zero _
          omega
      | ofNat a =>
        simp only at h
        split at h
        · cases h
        rename_i body hb
        obtain ⟨a0, r0, h0, hb0, rfl⟩ := pack_cons_ok (by decide) hb
        obtain ⟨a1, r1, h1, hb1, rfl⟩ := pack_cons_ok (by decide) hb0
        obtain ⟨a2, r2, h2, hb2, rfl⟩ := pack_cons_ok (by decide) hb1
        obtain ⟨a3, r3, h3, hb3, rfl⟩ := pack_cons_ok (by decide) hb2
        obtain ⟨a4, r4, h4, hb4, rfl⟩ := pack_cons_ok (by decide) hb3
        obtain ⟨a5, r5, h5, hb5, rfl⟩ := pack_cons_ok (by decide) hb4
        obtain ⟨a6, r6, h6, hb6, rfl⟩ := pack_cons_ok (by decide) hb5
        have := pack_nil_ok hb6; subst this
        obtain ⟨_, _, rfl⟩ := packB_ok h0
        obtain ⟨c0, c1, rfl⟩ := packB_ok h1
        obtain ⟨s0, s1, rfl⟩ := packB_ok h2
        obtain ⟨p1, rfl⟩ := packf_ok h3
        obtain ⟨q1, rfl⟩ := packf_ok h4
        obtain ⟨_, u1, rfl⟩ := packB_ok h5
        obtain ⟨_, l1, rfl⟩ := packI_ok h6
        split at h
        · cases h
        · rename_i ck hck
          obtain ⟨a7, r7, h7, hck1, rfl⟩ := pack_cons_ok (by decide) hck
          have := pack_nil_ok hck1; subst this
          obtain ⟨_, _, rfl⟩ := packB_ok h7
          cases h
          rw [i2cAddrHi_eq] at u1
          refine ⟨a, rfl, ?_, c0, c1, s0, s1, p1, q1, ?_⟩
          · have : a / 2 ^ 32 < 256 := Int.ofNat_lt.mp u1
            omega
          · simp only [i2cAddrHi_eq, i2cAddrLo_eq, Int.toNat_natCast, gen_token, i2cPre1, checksum256, gen_mod,
              List.cons_append, List.append_assoc, List.nil_append, List.append_nil, Int.toNat_one]
            rfl

theorem i2cPre1_length (e : I2CElems) (a : Nat) : (i2cPre1 e a).length = 20 := by simp [i2cPre1]

theorem i2c_roundtrip_v1_aux (e : I2CElems) (hv : e.version = 1) (img : List UInt8) (h : i2cImage e = .ok img)
    (m : Mem) (hm : 21 ≤ m.length) :
    ∃ a : Nat, e.address = some (a : Int) ∧
    i2cUpdate (m.write 0 img) = .ok { fields := some (1, e.channel, e.speed, e.pitch, e.roll), address := some a,
                                        valid := true, called := true } := by
  rw [i2cUpdate_eq_decode _ (Nat.le_trans hm (Mem.write_zero_length m img))]
  obtain ⟨a, hadr, ha, c0, c1, s0, s1, p1, q1, rfl⟩ := i2c_image_v1 hv h
  refine ⟨a, hadr, ?_⟩
  rw [Mem.write_zero]
  have hc : (UInt8.ofNat e.channel.toNat).toNat = e.channel.toNat := ofNat_toNat_of_lt (by omega)
  have hs : (UInt8.ofNat e.speed.toNat).toNat = e.speed.toNat := ofNat_toNat_of_lt (by omega)
  have hu : (UInt8.ofNat (a / 2 ^ 32)).toNat = a / 2 ^ 32 := ofNat_toNat_of_lt (by omega)
  simp only [i2cPre1, List.cons_append, List.append_assoc]
  rw [i2cDecode_shape1 _ _ _ _ _ _ _ _ (leBytes_length 4 _) (leBytes_length 4 _) (leBytes_length 4 _)]
  rw [hc, hs, hu, leVal_leBytes_of_lt (by simpa using p1), leVal_leBytes_of_lt (by simpa using q1),
    leVal_leBytes_of_lt (show a % 2 ^ 32 < 256 ^ 4 from Nat.mod_lt _ (by decide)),
    Int.toNat_of_nonneg c0, Int.toNat_of_nonneg s0]
  rw [ofNat_toNat_of_lt (Nat.mod_lt _ (by decide))]
  have : a / 2 ^ 32 * 2 ^ 32 + a % 2 ^ 32 = a := by omega
  rw [this]
  simp
theorem byteSum_cons (a : UInt8) (l : List UInt8) : byteSum (a :: l) = a.toNat + byteSum l := by
  simp [byteSum]

theorem getD_set_ne (l : List UInt8) (i j : Nat) (b : UInt8) (h : i ≠ j) : (l.set i b).getD j 0 = l.getD j 0 := by
  simp [List.getD_eq_getElem?_getD, List.getElem?_set_ne h]

theorem getD_set_eq (l : List UInt8) (i : Nat) (b : UInt8) (h : i < l.length) : (l.set i b).getD i 0 = b := by
  simp [List.getD_eq_getElem?_getD, h]

theorem take_set_of_le (l : List UInt8) (i n : Nat) (b : UInt8) (h : n ≤ i) : (l.set i b).take n = l.take n := by
  exact List.take_set_of_le h

theorem byteSum_take_set : ∀ (l : List UInt8) (i n : Nat) (b : UInt8), i < n → i < l.length →
    byteSum ((l.set i b).take n) + (l.getD i 0).toNat = byteSum (l.take n) + b.toNat
  | [], _, _, _, _, h => by simp at h
  | a :: l, 0, n + 1, b, _, _ => by
    simp only [List.set_cons_zero, List.take_succ_cons, byteSum_cons, List.getD_cons_zero]; omega
  | a :: l, i + 1, n + 1, b, h1, h2 => by
    have := byteSum_take_set l i n b (by omega) (by simpa using h2)
    simp only [List.set_cons_succ, List.take_succ_cons, byteSum_cons, List.getD_cons_succ]; omega

theorem take_set_ne (l : List UInt8) (i n : Nat) (b : UInt8) (h1 : i < n) (h2 : i < l.length) (hb : b ≠ l.getD i 0) :
    (l.set i b).take n ≠ l.take n := by
  intro h
  have h3 := congrArg (fun x => x.getD i 0) h
  simp only [getD_take _ _ _ h1, getD_set_eq _ _ _ h2] at h3
  exact hb h3

/-- validity as the spec decoder sees it, spelled out -/
theorem i2cDecode_valid (m : Mem) : (i2cDecode m).valid = true ↔
    m.take 4 = [0x30, 0x78, 0x42, 0x43] ∧
      ((m.getD 4 0 = 0 ∧ byteSum (m.take 15) % 256 = (m.getD 15 0).toNat) ∨
       (m.getD 4 0 = 1 ∧ byteSum (m.take 20) % 256 = (m.getD 20 0).toNat)) := by
  unfold i2cDecode
  by_cases ht : m.take 4 = [0x30, 0x78, 0x42, 0x43]
  · rw [if_pos ht]
    by_cases h0 : m.getD 4 0 = 0
    · rw [if_pos h0]
      have h01 : ¬ ((0 : UInt8) = 1) := by decide
      simp only [h0, ht, h01, beq_iff_eq, true_and, false_and, or_false]
    · rw [if_neg h0]
      by_cases h1 : m.getD 4 0 = 1
      · rw [if_pos h1]
        have h10 : ¬ ((1 : UInt8) = 0) := by decide
        simp only [h1, ht, h10, beq_iff_eq, true_and, false_and, false_or]
      · rw [if_neg h1]
        constructor
        · intro h; cases h
        · rintro ⟨_, ⟨h, _⟩ | ⟨h, _⟩⟩
          · exact absurd h h0
          · exact absurd h h1
  · rw [if_neg ht]
    constructor
    · intro h; cases h
    · intro h; exact absurd h.1 ht

theorem i2c_corruption_aux (m : Mem) (i : Nat) (b : UInt8) (hv : (i2cDecode m).valid = true)
    (hi : i ≠ 4) (hlen : i < m.length)
    (hrange : (m.getD 4 0 = 0 → i < 16) ∧ (m.getD 4 0 = 1 → i < 21)) (hb : b ≠ m.getD i 0) :
    (i2cDecode (m.set i b)).valid = false := by
  rw [Bool.eq_false_iff]
  intro hv'
  rw [i2cDecode_valid] at hv hv'
  obtain ⟨ht, hc⟩ := hv
  obtain ⟨ht', hc'⟩ := hv'
  have hlt : 4 ≤ i := by
    by_cases h : i < 4
    · exact absurd (ht'.trans ht.symm) (take_set_ne m i 4 b h hlen hb)
    · omega
  rw [getD_set_ne _ _ _ _ hi] at hc'
  have hbn : b.toNat ≠ (m.getD i 0).toNat := fun h => hb (UInt8.toNat_inj.mp h)
  have hb1 := b.toNat_lt
  have hb2 := (m.getD i 0).toNat_lt
  rcases hc with ⟨h0, hs⟩ | ⟨h1, hs⟩
  · have hi16 := hrange.1 h0
    rcases hc' with ⟨_, hs'⟩ | ⟨h1', _⟩
    · by_cases h15 : i = 15
      · subst h15
        rw [take_set_of_le _ _ _ _ (by omega), getD_set_eq _ _ _ hlen] at hs'
        omega
      · have := byteSum_take_set m i 15 b (by omega) hlen
        rw [getD_set_ne _ _ _ _ h15] at hs'
        omega
    · rw [h0] at h1'; exact absurd h1' (by decide)
  · have hi21 := hrange.2 h1
    rcases hc' with ⟨h0', _⟩ | ⟨_, hs'⟩
    · rw [h1] at h0'; exact absurd h0' (by decide)
    · by_cases h20 : i = 20
      · subst h20
        rw [take_set_of_le _ _ _ _ (by omega), getD_set_eq _ _ _ hlen] at hs'
        omega
      · have := byteSum_take_set m i 20 b (by omega) hlen
        rw [getD_set_ne _ _ _ _ h20] at hs'
        omega
theorem packB_total {v : Int} (h0 : 0 ≤ v) (h1 : v < 256) : packOne .B (.int v) = .ok [UInt8.ofNat v.toNat] := by
  obtain ⟨n, rfl⟩ := Int.eq_ofNat_of_zero_le h0
  have hn : n < 256 := by omega
  have : n % 256 = n := Nat.mod_eq_of_lt hn
  simp [packOne, packUnsigned, hn, leBytes, this]

theorem packf_total {v : Nat} (h : v < 2 ^ 32) : packOne .f (.flt v) = .ok (leBytes 4 v) := by
  have : v < 256 ^ 4 := by simpa using h
  simp [packOne, packFlt, this]

theorem packI_total {n : Nat} (h : n < 2 ^ 32) : packOne .I (.int (n : Int)) = .ok (leBytes 4 n) := by
  have : n < 256 ^ 4 := by simpa using h
  simp only [packOne]
  show packUnsigned 4 (Int.ofNat n) = _
  simp [packUnsigned, this]

theorem pack_cons_total {c : Code} {cs : Fmt} {v : Val} {vs : List Val} {a r : List UInt8} (hx : c ≠ .x)
    (h1 : packOne c v = .ok a) (h2 : pack cs vs = .ok r) : pack (c :: cs) (v :: vs) = .ok (a ++ r) := by
  have hp : pack (c :: cs) (v :: vs) = (do let a ← packOne c v; let r ← pack cs vs; pure (a ++ r)) := by
    cases c <;> first | exact absurd rfl hx | rfl
  rw [hp, h1, h2]; rfl

theorem i2c_image_total_aux (e : I2CElems) (hv : e.version = 0 ∨ e.version = 1)
    (hc : 0 ≤ e.channel ∧ e.channel < 256) (hs : 0 ≤ e.speed ∧ e.speed < 256) (hp : e.pitch < 2 ^ 32) (hr : e.roll < 2 ^ 32)
    (ha : e.version = 1 → ∃ a : Nat, e.address = some (a : Int) ∧ a < 2 ^ 40) :
    ∃ img, i2cImage e = .ok img ∧ img.length = (if e.version = 0 then 16 else 21) := by
  have hck : ∀ n : Nat, n < 256 → pack [.B] [.int (n : Int)] = .ok [UInt8.ofNat n] := by
    intro n hn
    have := pack_cons_total (cs := []) (vs := []) (by decide)
      (packB_total (v := (n : Int)) (by omega) (by omega)) rfl
    simpa using this
  have hmod : ∀ l : List UInt8, byteSum l % 256 < 256 := fun l => Nat.mod_lt _ (by decide)
  rcases hv with hv | hv
  · have hb := pack_cons_total (by decide) (packB_total (v := 0) (by decide) (by decide))
      (pack_cons_total (by decide) (packB_total hc.1 hc.2)
        (pack_cons_total (by decide) (packB_total hs.1 hs.2)
          (pack_cons_total (by decide) (packf_total hp)
            (pack_cons_total (cs := []) (vs := []) (by decide) (packf_total hr) rfl))))
    unfold i2cImage
    simp only [hv, if_true, fmt_i2cW0, fmt_i2cWck, hb, bind, Except.bind, checksum256, gen_mod, hck _ (hmod _), pure, Except.pure]
    exact ⟨_, rfl, by simp [gen_token]⟩
  · obtain ⟨a, hadr, ha⟩ := ha hv
    have h10 : ¬ ((1 : Int) = 0) := by decide
    have hhi : Gen.C14.i2cAddrHi a < 256 := by rw [i2cAddrHi_eq]; omega
    have hlo : Gen.C14.i2cAddrLo a < 2 ^ 32 := by rw [i2cAddrLo_eq]; exact Nat.mod_lt _ (by decide)
    have hb := pack_cons_total (by decide) (packB_total (v := 1) (by decide) (by decide))
      (pack_cons_total (by decide) (packB_total hc.1 hc.2)
        (pack_cons_total (by decide) (packB_total hs.1 hs.2)
          (pack_cons_total (by decide) (packf_total hp)
            (pack_cons_total (by decide) (packf_total hr)
              (pack_cons_total (by decide) (packB_total (v := (Gen.C14.i2cAddrHi a : Nat)) (by omega) (by omega))
                (pack_cons_total (cs := []) (vs := []) (by decide) (packI_total hlo) rfl))))))
    have hadr' : e.address = some (Int.ofNat a) := hadr
    unfold i2cImage
    simp only [hv, h10, if_true, if_false, hadr', fmt_i2cW1, fmt_i2cWck, bind, Except.bind, checksum256, gen_mod, pure, Except.pure]
    rw [hb]
    simp only [hck _ (hmod _)]
    exact ⟨_, rfl, by simp [gen_token]⟩
end CfVerif.C14

/- Proofs/C14Deck — helper lemmas for the deck-memory info section theorem of Props/C14. -/
import CfVerif.Proofs.C14Lh
import CfVerif.Proofs.C14Ow
namespace CfVerif.C14
open CfVerif

theorem fmt_deckBits : parseFmt! Gen.C14.deckBitsFmt = [.B, .B] := by decide
theorem fmt_deckRec : parseFmt! Gen.C14.deckRecFmt = [.I, .I, .I, .s 18] := by decide
theorem fmt_deckVersion : parseFmt! Gen.C14.deckVersionFmt = [.B] := by decide

theorem utf8Decode_ascii : ∀ (l : List UInt8), (∀ b ∈ l, b.toNat < 128) → utf8Decode l = some (l.map UInt8.toNat)
  | [], _ => rfl
  | b :: l, h => by
    have hb : b.toNat < 0x80 := h b (by simp)
    have ih := utf8Decode_ascii l (fun x hx => h x (by simp [hx]))
    unfold utf8Decode
    simp only [hb, if_true, ih, Option.map_some, List.map_cons]

theorem takeWhile_name (l : List UInt8) (k : Nat) (h : ∀ b ∈ l, b ≠ 0) :
    (l ++ List.replicate k 0).takeWhile (· != 0) = l := by
  induction l with
  | nil => cases k <;> simp [List.replicate, List.takeWhile]
  | cons b l ih =>
    have hb : b ≠ 0 := h b (by simp)
    simp only [List.cons_append, List.takeWhile_cons, bne_iff_ne, ne_eq, hb, not_false_eq_true, if_true]
    rw [ih (fun x hx => h x (by simp [hx]))]

theorem fitBytes_short (n : Nat) (l : List UInt8) (h : l.length ≤ n) : fitBytes n l = l ++ List.replicate (n - l.length) 0 := by
  unfold fitBytes
  rw [List.take_append]
  simp [List.take_of_length_le h, List.take_replicate, Nat.min_eq_left (Nat.sub_le _ _)]

/-- the bit tests of the library against the firmware's bit positions: all 2^7 x 2^2 combinations -/
theorem deck_flags_all : ∀ (a b c d e f g h i : Bool),
    let r : DeckRec := ⟨a, b, c, d, e, f, g, h, i, 0, 0, 0, []⟩
    (r.info 0).flags = [a, b, c, d, e, f, g, h, i] ∧ r.bf1 < 128 ∧ r.bf2 < 4 := by decide

theorem fitBytes_length (n : Nat) (l : List UInt8) : (fitBytes n l).length = n := by
  simp [fitBytes]

theorem DeckRec.encode_length (r : DeckRec) : r.encode.length = 32 := by
  simp [DeckRec.encode, fitBytes_length]

theorem bf1_lt (r : DeckRec) : r.bf1 < 128 := by
  have := deck_flags_all r.isValid r.isStarted r.supportsRead r.supportsWrite r.supportsUpgrade r.upgradeRequired r.bootloaderActive r.resetToFw r.resetToBootloader
  exact this.2.1
theorem bf2_lt (r : DeckRec) : r.bf2 < 4 := by
  have := deck_flags_all r.isValid r.isStarted r.supportsRead r.supportsWrite r.supportsUpgrade r.upgradeRequired r.bootloaderActive r.resetToFw r.resetToBootloader
  exact this.2.2
theorem bf1_valid (r : DeckRec) : (r.bf1 &&& Gen.C14.deckMaskIsValid != 0) = r.isValid := by
  have := (deck_flags_all r.isValid r.isStarted r.supportsRead r.supportsWrite r.supportsUpgrade r.upgradeRequired r.bootloaderActive r.resetToFw r.resetToBootloader).1
  simp only [DeckInfo.flags, DeckRec.info] at this
  exact (List.cons.inj this).1

theorem unpack_deckRec (h l b : Nat) (nm : List UInt8) (hh : h < 2 ^ 32) (hl : l < 2 ^ 32) (hb : b < 2 ^ 32) (hn : nm.length = 18) :
    unpack [.I, .I, .I, .s 18] (leBytes 4 h ++ (leBytes 4 l ++ (leBytes 4 b ++ nm))) =
      .ok [.int h, .int l, .int b, .bytes nm] := by
  have := unpack_pack (f := [.I, .I, .I, .s 18]) (vs := [.int h, .int l, .int b, .bytes nm])
    (bs := leBytes 4 h ++ (leBytes 4 l ++ (leBytes 4 b ++ nm))) (by simp [canonVals, Val.canonFor, hn]) ?_
  · exact this
  · have e : ∀ n : Nat, n < 2 ^ 32 → packOne .I (.int (n : Int)) = .ok (leBytes 4 n) := fun n hn => packI_total hn
    have hs : packOne (.s 18) (.bytes nm) = .ok nm := by
      simp only [packOne, fitBytes]
      rw [List.take_append_of_le_length (by omega), List.take_of_length_le (by omega)]
    have := pack_cons_total (by decide) (e h hh) (pack_cons_total (by decide) (e l hl) (pack_cons_total (by decide) (e b hb)
      (pack_cons_total (cs := []) (vs := []) (by decide) hs rfl)))
    simpa using this

theorem deckParseOne_encode (r : DeckRec) (hwf : r.WF) (cmd : Nat) :
    deckParseOne r.encode cmd = .ok (if r.isValid then some { r.info 0 with cmdBase := cmd } else none) := by
  obtain ⟨hh, hl, hb, hn, hname⟩ := hwf
  unfold deckParseOne
  have h1 : slice r.encode 0 2 = [UInt8.ofNat r.bf1, UInt8.ofNat r.bf2] := by
    simp [DeckRec.encode, slice]
  rw [fmt_deckBits, h1, unpack_BB' _ rfl]
  simp only [List.getD_cons_zero, List.getD_cons_succ, Int.toNat_natCast]
  rw [ofNat_toNat_of_lt (by have := bf1_lt r; omega), ofNat_toNat_of_lt (by have := bf2_lt r; omega), bf1_valid]
  cases hv : r.isValid
  · simp
  · simp only [if_true]
    have h2 : r.encode.drop 2 = leBytes 4 r.hash ++ (leBytes 4 r.len ++ (leBytes 4 r.base ++ fitBytes 18 r.name)) := by
      simp [DeckRec.encode]
    rw [fmt_deckRec, h2, unpack_deckRec _ _ _ _ hh hl hb (fitBytes_length _ _)]
    simp only [Int.toNat_natCast]
    rw [fitBytes_short _ _ hn, takeWhile_name _ _ (fun b hb => (hname b hb).1), utf8Decode_ascii _ (fun b hb => (hname b hb).2)]
    rfl

theorem deckStart_eq (i : Nat) : Gen.C14.deckStart i = 1 + 32 * i ∧ Gen.C14.deckEnd (Gen.C14.deckStart i) = 1 + 32 * i + 32 ∧
    Gen.C14.deckCmdBase i = 0x1000 + i * 0x20 := by
  simp [Gen.C14.deckStart, Gen.C14.deckEnd, Gen.C14.deckCmdBase, Gen.C14.deckSizeOfVersion, Gen.C14.deckSizeOfDeckMemInfo,
    Gen.C14.deckCommandSectionAddress, Gen.C14.deckSizeOfCommandSection]

theorem slice_mid (pre a post : List UInt8) (k n : Nat) (hk : pre.length = k) (hn : a.length = n) :
    slice (pre ++ (a ++ post)) k (k + n) = a := by
  have := slice_skip pre (a ++ post) k 0 n hk
  rw [Nat.add_zero] at this
  rw [this, slice_left a post n hn]

theorem deckLoop_encode : ∀ (recs : List DeckRec) (pre post : List UInt8) (i : Nat),
    (∀ r ∈ recs, r.WF) → pre.length = 1 + 32 * i →
    deckLoop (pre ++ ((recs.map DeckRec.encode).flatten ++ post)) i recs.length = .ok (deckExpected recs i)
  | [], _, _, _, _, _ => rfl
  | r :: rs, pre, post, i, hwf, hpre => by
    simp only [List.length_cons, deckLoop, List.map_cons, List.flatten_cons, List.append_assoc, bind, Except.bind]
    obtain ⟨e1, e2, e3⟩ := deckStart_eq i
    rw [e1] at e2
    rw [e1, e2, e3, slice_mid pre r.encode _ (1 + 32 * i) 32 hpre r.encode_length,
      deckParseOne_encode r (hwf r (by simp))]
    simp only
    have ih := deckLoop_encode rs (pre ++ r.encode) post (i + 1) (fun x hx => hwf x (by simp [hx]))
      (by simp [hpre, r.encode_length]; omega)
    rw [List.append_assoc] at ih
    rw [ih]
    cases hv : r.isValid <;> simp [deckExpected, hv, DeckRec.info, pure, Except.pure]

theorem deck_info_parse_aux (recs : List DeckRec) (hlen : recs.length = 8) (hwf : ∀ r ∈ recs, r.WF) (post : List UInt8) :
    deckParseInfo (deckSection recs ++ post) = .ok (.decks (deckExpected recs 0)) := by
  unfold deckParseInfo deckSection
  have h1 : slice (3 :: (recs.map DeckRec.encode).flatten ++ post) 0 1 = [3] := by simp [slice]
  rw [fmt_deckVersion, h1]
  have hu : unpack [.B] [(3 : UInt8)] = .ok [.int 3] := by decide
  rw [hu]
  have hv : ¬ ((3 : Int).toNat ≠ Gen.C14.deckSupportedVersion) := by decide
  simp only [hv, if_false]
  have hk : Gen.C14.deckMaxNrOfDeckMemInfos = recs.length := by rw [hlen]; rfl
  rw [hk]
  have := deckLoop_encode recs [3] post 0 hwf rfl
  simp only [List.cons_append, List.nil_append] at this ⊢
  rw [this]
  rfl

theorem deck_unsupported_aux (v : UInt8) (hv : v.toNat ≠ Gen.C14.deckSupportedVersion) (rest : List UInt8) :
    deckParseInfo (v :: rest) = .ok (.unsupported v.toNat) := by
  unfold deckParseInfo
  have h1 : slice (v :: rest) 0 1 = [v] := by simp [slice]
  rw [fmt_deckVersion, h1]
  have hu : unpack [.B] [v] = .ok [.int v.toNat] := by
    simp [unpack, Code.size, Code.takesVal, unpackOne, leVal, bind, Except.bind, pure, Except.pure]
  rw [hu]
  simp only [Int.toNat_natCast, hv, ne_eq, not_false_eq_true, if_true]
end CfVerif.C14

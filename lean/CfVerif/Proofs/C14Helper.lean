/- Proofs/C14Helper — LighthouseMemHelper writer/reader objects: run-to-completion = layout, caller data untouched. -/
import CfVerif.Proofs.C14Lh
import CfVerif.Proofs.C14Ow
namespace CfVerif.C14
open CfVerif


theorem gen_writer_copies : lhWriterAliases = false := by decide

/-- `_write_next_object` followed by serving whatever it requested -/
def lhwGo (k : LhKind) (fuel : Nat) (s : LhW) (m : Mem) (acks : List Bool) : Except PyErr (LhW × Mem × Option Bool) :=
  match lhwNext k s with
  | .error e => .error e
  | .ok (s', o) => lhwServe k fuel s' o m acks

theorem lhwGo_spec (k : LhKind) : ∀ (rest : Dict LhObj) (s : LhW) (m : Mem) (acks : List Bool) (fuel : Nat),
    s.queue = some rest → s.lhBusy = false → rest.length ≤ fuel →
    lhwGo k fuel s m acks =
      (lhWriteSpec k m rest acks s.failed).map fun r => (⟨none, false, false, s.caller⟩, r.1, some r.2)
  | [], s, m, acks, fuel, hq, hb, _ => by
    obtain ⟨q, f, b, c⟩ := s
    simp only at hq hb; subst hq; subst hb
    cases fuel <;> simp [lhwGo, lhwNext, lhwServe, lhWriteSpec, Except.map]
  | (bs, o) :: rest, s, m, acks, fuel, hq, hb, hf => by
    obtain ⟨q, f, b, c⟩ := s
    simp only at hq hb; subst hq; subst hb
    obtain ⟨fuel, rfl⟩ : ∃ n, fuel = n + 1 := ⟨fuel - 1, by simp at hf; omega⟩
    simp only [lhwGo, lhwNext, gen_writer_copies, Bool.false_eq_true, if_false, lhWriteSpec]
    cases hi : objImage o with
    | error e => simp [Except.map]
    | ok img =>
      simp only [lhwServe]
      cases hack : acks.headD true with
      | true =>
        simp only [if_true, lhwStep, Bool.or_false, Bool.not_true]
        have ih := lhwGo_spec k rest ⟨some rest, f, false, c⟩ (m.write (k.writeAddr bs) img) acks.tail fuel rfl rfl
          (by simp at hf; omega)
        unfold lhwGo at ih
        cases hn : lhwNext k ⟨some rest, f, false, c⟩ with
        | error e => rw [hn] at ih; simp only [Except.map]; exact ih
        | ok r => rw [hn] at ih; obtain ⟨s', o'⟩ := r; simp only [Except.map]; exact ih
      | false =>
        simp only [Bool.false_eq_true, if_false, lhwStep, if_true, Bool.not_false, Bool.or_true]
        have ih := lhwGo_spec k rest ⟨some rest, true, false, c⟩ m acks.tail fuel rfl rfl (by simp at hf; omega)
        unfold lhwGo at ih
        cases hn : lhwNext k ⟨some rest, true, false, c⟩ with
        | error e => rw [hn] at ih; simp only [Except.map]; exact ih
        | ok r => rw [hn] at ih; obtain ⟨s', o'⟩ := r; simp only [Except.map]; exact ih

theorem lhRunWrite_spec (k : LhKind) (s : LhW) (hq : s.queue = none) (hb : s.lhBusy = false) (d : Dict LhObj) (m : Mem)
    (acks : List Bool) :
    lhRunWrite k s d m acks = (lhWriteSpec k m d acks false).map fun r => (⟨none, false, false, d⟩, r.1, some r.2) := by
  have h := lhwGo_spec k d ⟨some d, false, false, d⟩ m acks (d.length + 1) rfl rfl (by omega)
  obtain ⟨q, f, b, c⟩ := s
  simp only at hq hb; subst hq; subst hb
  unfold lhRunWrite
  simp only [lhwStep, Option.isSome_none, Bool.false_eq_true, if_false]
  unfold lhwGo at h
  cases hn : lhwNext k ⟨some d, false, false, d⟩ with
  | error e => rw [hn] at h; simp only [Except.map]; exact h
  | ok r => rw [hn] at h; obtain ⟨s', o'⟩ := r; simp only [Except.map]; exact h

theorem gen_reader_channels : Gen.C14.lhReaderNrOfChannels = 16 := by decide

def lhrGo (k : LhKind) (m : Mem) (fails : List Nat) (fuel : Nat) (s : LhR) (ch : Nat) : Except PyErr (LhR × Option (Dict LhObj)) :=
  match lhrGet k s ch with
  | .error e => .error e
  | .ok (s', o) => lhrServe k m fails fuel s' o

theorem lhrGo_spec (k : LhKind) (m : Mem) (fails : List Nat) : ∀ (n ch fuel : Nat) (s : LhR),
    ch + n = 16 → n ≤ fuel → s.lhBusy = false → (∀ p ∈ s.result, p.1 < ch) →
    lhrGo k m fails fuel s ch = (lhReadSpec k m fails ch n s.result).map fun r => (⟨none, [], false⟩, some r)
  | 0, ch, fuel, s, hc, _, hb, _ => by
    obtain ⟨nx, res, b⟩ := s
    simp only at hb; subst hb
    have : ¬ ch < 16 := by omega
    cases fuel <;> simp [lhrGo, lhrGet, gen_reader_channels, this, lhrServe, lhReadSpec, Except.map]
  | n + 1, ch, fuel, s, hc, hf, hb, hk => by
    obtain ⟨nx, res, b⟩ := s
    simp only at hb hk; subst hb
    obtain ⟨fuel, rfl⟩ : ∃ f, fuel = f + 1 := ⟨fuel - 1, by omega⟩
    have hlt : ch < 16 := by omega
    simp only [lhrGo, lhrGet, gen_reader_channels, hlt, if_true, Bool.false_eq_true, if_false, lhrServe, Option.getD_some, lhReadSpec]
    by_cases hfail : fails.contains ch = true
    · simp only [hfail, if_true, lhrStep]
      have ih := lhrGo_spec k m fails n (ch + 1) fuel ⟨some ch, res, false⟩ (by omega) (by omega) rfl
        (fun p hp => Nat.lt_succ_of_lt (hk p hp))
      unfold lhrGo at ih
      cases hg : lhrGet k ⟨some ch, res, false⟩ (ch + 1) with
      | error e => rw [hg] at ih; simp only [Except.map]; exact ih
      | ok r => rw [hg] at ih; obtain ⟨s', o'⟩ := r; simp only [Except.map]; exact ih
    · simp only [hfail, Bool.false_eq_true, if_false, lhrStep]
      cases hp : lhNewData (k.readAddr ch) (m.read (k.readAddr ch) k.readLen) with
      | error e => simp [Except.map]
      | ok obj =>
        simp only [if_true]
        rw [dictSet_fresh res ch obj (fun p hp' => Nat.ne_of_lt (hk p hp'))]
        have ih := lhrGo_spec k m fails n (ch + 1) fuel ⟨some ch, res ++ [(ch, obj)], false⟩ (by omega) (by omega) rfl
          (by
            intro p hp'
            rcases List.mem_append.mp hp' with h | h
            · exact Nat.lt_succ_of_lt (hk p h)
            · simp only [List.mem_singleton] at h; subst h; exact Nat.lt_succ_self _)
        unfold lhrGo at ih
        cases hg : lhrGet k ⟨some ch, res ++ [(ch, obj)], false⟩ (ch + 1) with
        | error e => rw [hg] at ih; simp only [Except.map]; exact ih
        | ok r => rw [hg] at ih; obtain ⟨s', o'⟩ := r; simp only [Except.map]; exact ih

theorem lhRunRead_spec (k : LhKind) (s : LhR) (hn : s.next = none) (hb : s.lhBusy = false) (m : Mem) (fails : List Nat) :
    lhRunRead k s m fails = (lhReadSpec k m fails 0 16 []).map fun r => (⟨none, [], false⟩, some r) := by
  obtain ⟨nx, res, b⟩ := s
  simp only at hn hb; subst hn; subst hb
  have h := lhrGo_spec k m fails 16 0 17 ⟨none, [], false⟩ rfl (by omega) rfl (by simp)
  unfold lhRunRead
  simp only [lhrStep, Option.isSome_none, Bool.false_eq_true, if_false, gen_reader_channels]
  unfold lhrGo at h
  cases hg : lhrGet k ⟨none, [], false⟩ 0 with
  | error e => rw [hg] at h; simp only [Except.map]; exact h
  | ok r => rw [hg] at h; obtain ⟨s', o'⟩ := r; simp only [Except.map]; exact h

/-- every served channel is in the result with the parsed content of its page; nothing else is -/
theorem lhReadSpec_mem (k : LhKind) (m : Mem) (fails : List Nat) : ∀ (n ch : Nat) (acc res : Dict LhObj),
    lhReadSpec k m fails ch n acc = .ok res →
    ∀ p, p ∈ res ↔ p ∈ acc ∨ (ch ≤ p.1 ∧ p.1 < ch + n ∧ fails.contains p.1 = false ∧
      lhNewData (k.readAddr p.1) (m.read (k.readAddr p.1) k.readLen) = .ok p.2)
  | 0, ch, acc, res, h, p => by
    simp only [lhReadSpec] at h; cases h
    constructor
    · intro hp; exact Or.inl hp
    · rintro (hp | ⟨h1, h2, _⟩)
      · exact hp
      · omega
  | n + 1, ch, acc, res, h, p => by
    simp only [lhReadSpec] at h
    by_cases hfail : fails.contains ch = true
    · simp only [hfail, if_true] at h
      rw [lhReadSpec_mem k m fails n (ch + 1) acc res h p]
      constructor
      · rintro (hp | ⟨h1, h2, h3, h4⟩)
        · exact Or.inl hp
        · exact Or.inr ⟨by omega, by omega, h3, h4⟩
      · rintro (hp | ⟨h1, h2, h3, h4⟩)
        · exact Or.inl hp
        · by_cases he : p.1 = ch
          · rw [he, hfail] at h3; cases h3
          · exact Or.inr ⟨by omega, by omega, h3, h4⟩
    · simp only [hfail, Bool.false_eq_true, if_false] at h
      cases hp : lhNewData (k.readAddr ch) (m.read (k.readAddr ch) k.readLen) with
      | error e => rw [hp] at h; cases h
      | ok obj =>
        rw [hp] at h
        simp only at h
        rw [lhReadSpec_mem k m fails n (ch + 1) _ res h p]
        have hf' : fails.contains ch = false := by simpa using hfail
        constructor
        · rintro (hp' | ⟨h1, h2, h3, h4⟩)
          · rcases List.mem_append.mp hp' with h' | h'
            · exact Or.inl h'
            · simp only [List.mem_singleton] at h'; subst h'
              exact Or.inr ⟨Nat.le_refl _, by omega, hf', hp⟩
          · exact Or.inr ⟨by omega, by omega, h3, h4⟩
        · rintro (hp' | ⟨h1, h2, h3, h4⟩)
          · exact Or.inl (List.mem_append.mpr (Or.inl hp'))
          · by_cases he : p.1 = ch
            · left
              apply List.mem_append.mpr; right
              rw [he, hp] at h4
              simp only [List.mem_singleton]
              cases h4
              exact Prod.ext he rfl
            · exact Or.inr ⟨by omega, by omega, h3, h4⟩

/-- with every write accepted, the upload of geometries is the page-by-page layout `lhWriteGeos` -/
theorem lhWriteSpec_geos : ∀ (d : List (Nat × Geo)) (m : Mem) (f : Bool),
    lhWriteSpec .geo m (d.map fun p => (p.1, LhObj.geo p.2)) [] f = (lhWriteGeos m d).map fun m' => (m', !f)
  | [], m, f => rfl
  | (bs, g) :: rest, m, f => by
    simp only [List.map_cons, lhWriteSpec, objImage, lhWriteGeos, lhWriteGeo, bind, Except.bind]
    cases hi : geoImage g with
    | error e => rfl
    | ok img =>
      simp only [List.headD_nil, if_true, Bool.not_true, Bool.or_false, List.tail_nil, Except.map, LhKind.writeAddr]
      exact lhWriteSpec_geos rest _ f

theorem lhWriteSpec_calibs : ∀ (d : List (Nat × Calib)) (m : Mem) (f : Bool),
    lhWriteSpec .calib m (d.map fun p => (p.1, LhObj.calib p.2)) [] f = (lhWriteCalibs m d).map fun m' => (m', !f)
  | [], m, f => rfl
  | (bs, c) :: rest, m, f => by
    simp only [List.map_cons, lhWriteSpec, objImage, lhWriteCalibs, lhWriteCalib, bind, Except.bind]
    cases hi : calibImage c with
    | error e => rfl
    | ok img =>
      simp only [List.headD_nil, if_true, Bool.not_true, Bool.or_false, List.tail_nil, Except.map, LhKind.writeAddr]
      exact lhWriteSpec_calibs rest _ f

/-- `_prepare_geos`: the caller's entries, then an `empty` entry for every missing base station below `nr` -/
theorem lhPrepare_mem (d : Dict LhObj) (empty : LhObj) (nr : Nat) (p : Nat × LhObj) :
    p ∈ lhPrepare d empty nr ↔ p ∈ d ∨ (p.1 < nr ∧ (∀ q ∈ d, q.1 ≠ p.1) ∧ p.2 = empty) := by
  unfold lhPrepare
  simp only [List.mem_append, List.mem_map, List.mem_filter, List.mem_range, Bool.not_eq_true', List.any_eq_false, beq_iff_eq]
  constructor
  · rintro (h | ⟨i, ⟨hi, hn⟩, rfl⟩)
    · exact Or.inl h
    · exact Or.inr ⟨hi, fun q hq => by simpa using hn q hq, rfl⟩
  · rintro (h | ⟨h1, h2, h3⟩)
    · exact Or.inl h
    · exact Or.inr ⟨p.1, ⟨h1, fun q hq => by simpa using h2 q hq⟩, by rw [← h3]⟩

theorem lh_write_then_read_aux (d : List (Nat × Geo)) (hnd : (d.map (·.1)).Nodup) (hlt : ∀ p ∈ d, p.1 < Gen.C14.lhNrOfChannels)
    (m m' : Mem) (hw : lhWriteGeos m d = .ok m') (fails : List Nat) (res : Dict LhObj)
    (hr : lhReadSpec .geo m' fails 0 16 [] = .ok res) :
    ∀ p ∈ d, fails.contains p.1 = false → (p.1, LhObj.geo p.2) ∈ res := by
  intro p hp hf
  have h1 := (lhWriteGeos_read d m m' hw hnd hlt p hp).1
  have h16 : p.1 < 16 := hlt p hp
  rw [lhReadSpec_mem .geo m' fails 16 0 [] res hr (p.1, LhObj.geo p.2)]
  right
  exact ⟨Nat.zero_le _, by simpa using h16, hf, h1⟩
end CfVerif.C14

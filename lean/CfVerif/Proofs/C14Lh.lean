/- Proofs/C14Lh — helper lemmas for the lighthouse memory-layout theorems of Props/C14. -/
import CfVerif.Proofs.C14
namespace CfVerif.C14
open CfVerif

theorem fmt_lhVecW : parseFmt! Gen.C14.lhVecWFmt = [.f, .f, .f] := by decide
theorem fmt_lhVecR : parseFmt! Gen.C14.lhVecRFmt = [.f, .f, .f] := by decide
theorem fmt_lhGeoValidW : parseFmt! Gen.C14.lhGeoValidWFmt = [.bool] := by decide
theorem fmt_lhGeoValidR : parseFmt! Gen.C14.lhGeoValidRFmt = [.bool] := by decide
theorem fmt_lhSweepW : parseFmt! Gen.C14.lhSweepWFmt = [.f, .f, .f, .f, .f, .f, .f] := by decide
theorem fmt_lhSweepR : parseFmt! Gen.C14.lhSweepRFmt = [.f, .f, .f, .f, .f, .f, .f] := by decide
theorem fmt_lhCalibTailW : parseFmt! Gen.C14.lhCalibTailWFmt = [.I, .bool] := by decide
theorem fmt_lhCalibTailR : parseFmt! Gen.C14.lhCalibTailRFmt = [.I, .bool] := by decide
theorem gen_lhSizes : Gen.C14.lhSizeVector = 12 ∧ Gen.C14.lhSizeGeometry = 49 ∧ Gen.C14.lhSizeSweep = 28 ∧
    Gen.C14.lhSizeCalibration = 61 := by decide

/-! ### memory -/

theorem Mem.write_length (m : Mem) (a : Nat) (d : List UInt8) :
    (m.write a d).length = max m.length (a + d.length) := by
  simp only [Mem.write, List.length_append, List.length_take, List.length_replicate, List.length_drop]
  omega

theorem Mem.read_write_same (m : Mem) (a : Nat) (d : List UInt8) : (m.write a d).read a d.length = d := by
  unfold Mem.write Mem.read
  have hx : ((m ++ List.replicate (a - m.length) 0).take a).length = a := by
    simp only [List.length_take, List.length_append, List.length_replicate]; omega
  rw [List.append_assoc, List.drop_left' hx, List.take_left' rfl]

/-- a write does not disturb a read that lies entirely after it -/
theorem Mem.read_write_after (m : Mem) (a b n : Nat) (d : List UInt8) (h : a + d.length ≤ b) :
    (m.write a d).read b n = m.read b n := by
  unfold Mem.write Mem.read
  have hx : ((m ++ List.replicate (a - m.length) 0).take a ++ d).length = a + d.length := by
    simp only [List.length_take, List.length_append, List.length_replicate]; omega
  have hb : b = (a + d.length) + (b - (a + d.length)) := by omega
  rw [hb, ← List.drop_drop, List.drop_left' hx, List.drop_drop]

/-- ... nor one that lies entirely before it, inside the old memory -/
theorem Mem.read_write_before (m : Mem) (a b n : Nat) (d : List UInt8) (h : b + n ≤ a) (hm : b + n ≤ m.length) :
    (m.write a d).read b n = m.read b n := by
  unfold Mem.write Mem.read
  rw [List.append_assoc]
  have h1 : ∀ (X Y : List UInt8), b + n ≤ X.length → ((X ++ Y).drop b).take n = (X.drop b).take n := by
    intro X Y hX
    rw [List.drop_append_of_le_length (by omega), List.take_append_of_le_length (by simp; omega)]
  rw [h1 _ _ (by simp only [List.length_take, List.length_append, List.length_replicate]; omega)]
  rw [List.drop_take, List.take_take, Nat.min_eq_left (by omega)]
  rw [List.drop_append_of_le_length (by omega), List.take_append_of_le_length (by simp; omega)]

/-! ### slices of concatenations -/

theorem slice_left (a l : List UInt8) (n : Nat) (h : a.length = n) : slice (a ++ l) 0 n = a := by
  simp [slice, ← h]

theorem slice_skip (a l : List UInt8) (k i j : Nat) (h : a.length = k) : slice (a ++ l) (k + i) (k + j) = slice l i j := by
  subst h
  simp only [slice]
  rw [List.take_append, List.drop_append]
  simp [List.take_of_length_le, List.drop_eq_nil_of_le]

theorem drop_skip (a l : List UInt8) (k : Nat) (h : a.length = k) : (a ++ l).drop k = l := by
  subst h; simp

/-! ### vectors and sweeps -/

theorem packV3_roundtrip {v : V3} {bs} (h : packV3 v = .ok bs) : unpackV3 bs = .ok v ∧ bs.length = 12 := by
  unfold packV3 at h
  rw [fmt_lhVecW] at h
  have h1 := unpack_pack (f := [.f, .f, .f]) (by rfl) h
  have h2 := pack_length h
  unfold unpackV3
  rw [fmt_lhVecR, h1]
  exact ⟨rfl, h2⟩

theorem packSweep_roundtrip {s : Sweep} {bs} (h : packSweep s = .ok bs) : unpackSweep bs = .ok s ∧ bs.length = 28 := by
  unfold packSweep at h
  rw [fmt_lhSweepW] at h
  have h1 := unpack_pack (f := [.f, .f, .f, .f, .f, .f, .f]) (by rfl) h
  have h2 := pack_length h
  unfold unpackSweep
  rw [fmt_lhSweepR, h1]
  exact ⟨rfl, h2⟩

theorem geo_roundtrip_aux {g : Geo} {img} (h : geoImage g = .ok img) : geoParse img = .ok g ∧ img.length = 49 := by
  unfold geoImage at h
  simp only [bind, Except.bind, fmt_lhGeoValidW] at h
  split at h
  · cases h
  rename_i a ha
  split at h
  · cases h
  rename_i b hb
  split at h
  · cases h
  rename_i c hc
  split at h
  · cases h
  rename_i d hd
  split at h
  · cases h
  rename_i e he
  cases h
  obtain ⟨ha1, ha2⟩ := packV3_roundtrip ha
  obtain ⟨hb1, hb2⟩ := packV3_roundtrip hb
  obtain ⟨hc1, hc2⟩ := packV3_roundtrip hc
  obtain ⟨hd1, hd2⟩ := packV3_roundtrip hd
  have he1 := unpack_pack (f := [.bool]) (by rfl) he
  have he2 := pack_length he
  refine ⟨?_, by simp [ha2, hb2, hc2, hd2, he2, Fmt.size, Code.size]⟩
  unfold geoParse
  simp only [gen_lhSizes.1, List.append_assoc, bind, Except.bind, fmt_lhGeoValidR]
  rw [slice_left a _ _ ha2, ha1]
  simp only
  rw [show (1 * 12 = 12 + 0) from rfl, show (2 * 12 = 12 + 12) from rfl, slice_skip a _ 12 0 12 ha2, slice_left b _ _ hb2, hb1]
  simp only
  rw [show (3 * 12 = 12 + (12 + 12)) from rfl, show (12 + 12 = 12 + (12 + 0)) from rfl, slice_skip a _ 12 _ _ ha2,
    slice_skip b _ 12 _ _ hb2, slice_left c _ _ hc2, hc1]
  simp only
  rw [show (4 * 12 = 12 + (12 + (12 + 12))) from rfl, show (12 + (12 + 12) = 12 + (12 + (12 + 0))) from rfl,
    slice_skip a _ 12 _ _ ha2, slice_skip b _ 12 _ _ hb2, slice_skip c _ 12 _ _ hc2, slice_left d _ _ hd2, hd1]
  simp only
  rw [show (12 + (12 + (12 + 12)) = 12 + 12 + 12 + 12) from rfl]
  rw [← List.drop_drop, ← List.drop_drop, ← List.drop_drop, drop_skip a _ 12 ha2, drop_skip b _ 12 hb2, drop_skip c _ 12 hc2,
    drop_skip d _ 12 hd2, he1]
  rfl

theorem calib_roundtrip_aux {c : Calib} {img} (h : calibImage c = .ok img) : calibParse img = .ok c ∧ img.length = 61 := by
  unfold calibImage at h
  simp only [bind, Except.bind, fmt_lhCalibTailW] at h
  split at h
  · cases h
  rename_i a ha
  split at h
  · cases h
  rename_i b hb
  split at h
  · cases h
  rename_i t ht
  cases h
  obtain ⟨ha1, ha2⟩ := packSweep_roundtrip ha
  obtain ⟨hb1, hb2⟩ := packSweep_roundtrip hb
  have ht1 := unpack_pack (f := [.I, .bool]) (by rfl) ht
  have ht2 := pack_length ht
  refine ⟨?_, by simp [ha2, hb2, ht2, Fmt.size, Code.size]⟩
  unfold calibParse
  simp only [gen_lhSizes.2.2.1, List.append_assoc, bind, Except.bind, fmt_lhCalibTailR]
  rw [slice_left a _ _ ha2, ha1]
  simp only
  rw [show (28 * 2 = 28 + 28) from rfl, show ((28 : Nat) = 28 + 0) from rfl, slice_skip a _ 28 0 _ ha2]
  simp only [Nat.add_zero]
  rw [slice_left b _ _ hb2, hb1]
  simp only
  rw [← List.drop_drop, drop_skip a _ 28 ha2, drop_skip b _ 28 hb2, ht1]
  rfl

/-! ### through the memory -/

theorem lhGeoAddr_lt (bs : Nat) (h : bs < Gen.C14.lhNrOfChannels) : Gen.C14.lhGeoReadAddr bs < Gen.C14.lhCalibStart := by
  have : Gen.C14.lhNrOfChannels = 16 := by decide
  simp only [Gen.C14.lhGeoReadAddr, Gen.C14.lhGeoStart, Gen.C14.lhPageSize, Gen.C14.lhCalibStart]
  omega

theorem lhCalibAddr_ge (bs : Nat) : ¬ Gen.C14.lhCalibReadAddr bs < Gen.C14.lhCalibStart := by
  simp only [Gen.C14.lhCalibReadAddr, Gen.C14.lhCalibStart]
  omega

theorem lh_geo_roundtrip_aux (m : Mem) (bs : Nat) (hbs : bs < Gen.C14.lhNrOfChannels) (g : Geo) (m' : Mem)
    (h : lhWriteGeo m bs g = .ok m') : lhReadGeo m' bs = .ok (.geo g) := by
  unfold lhWriteGeo at h
  cases hi : geoImage g with
  | error e => rw [hi] at h; cases h
  | ok img =>
    rw [hi] at h; cases h
    obtain ⟨hp, hl⟩ := geo_roundtrip_aux hi
    unfold lhReadGeo lhNewData
    rw [if_pos (lhGeoAddr_lt bs hbs)]
    have : Gen.C14.lhGeoReadAddr bs = Gen.C14.lhGeoWriteAddr bs := rfl
    rw [this, gen_lhSizes.2.1, ← hl, Mem.read_write_same, hp]
    rfl

theorem lh_calib_roundtrip_aux (m : Mem) (bs : Nat) (c : Calib) (m' : Mem)
    (h : lhWriteCalib m bs c = .ok m') : lhReadCalib m' bs = .ok (.calib c) := by
  unfold lhWriteCalib at h
  cases hi : calibImage c with
  | error e => rw [hi] at h; cases h
  | ok img =>
    rw [hi] at h; cases h
    obtain ⟨hp, hl⟩ := calib_roundtrip_aux hi
    unfold lhReadCalib lhNewData
    rw [if_neg (lhCalibAddr_ge bs)]
    have : Gen.C14.lhCalibReadAddr bs = Gen.C14.lhCalibWriteAddr bs := rfl
    rw [this, gen_lhSizes.2.2.2, ← hl, Mem.read_write_same, hp]
    rfl

theorem frame_one (m : Mem) (a : Nat) (d : List UInt8) (b n : Nat) (hdis : a + d.length ≤ b ∨ b + n ≤ a)
    (hlen : b + n ≤ m.length) : (m.write a d).read b n = m.read b n ∧ b + n ≤ (m.write a d).length := by
  refine ⟨?_, by rw [Mem.write_length]; omega⟩
  rcases hdis with h | h
  · exact Mem.read_write_after m a b n d h
  · exact Mem.read_write_before m a b n d h hlen

theorem geoAddr_eq (bs : Nat) : Gen.C14.lhGeoWriteAddr bs = bs * 256 ∧ Gen.C14.lhGeoReadAddr bs = bs * 256 := by
  simp [Gen.C14.lhGeoWriteAddr, Gen.C14.lhGeoReadAddr, Gen.C14.lhGeoStart, Gen.C14.lhPageSize]
theorem calibAddr_eq (bs : Nat) : Gen.C14.lhCalibWriteAddr bs = 4096 + bs * 256 ∧ Gen.C14.lhCalibReadAddr bs = 4096 + bs * 256 := by
  simp [Gen.C14.lhCalibWriteAddr, Gen.C14.lhCalibReadAddr, Gen.C14.lhCalibStart, Gen.C14.lhPageSize]

/-- writing further geometries on other pages leaves a page that is already in the memory untouched -/
theorem lhWriteGeos_frame : ∀ (gs : List (Nat × Geo)) (m m' : Mem), lhWriteGeos m gs = .ok m' →
    ∀ (b n : Nat), (∀ p ∈ gs, p.1 * 256 + 49 ≤ b ∨ b + n ≤ p.1 * 256) → b + n ≤ m.length →
    m'.read b n = m.read b n ∧ b + n ≤ m'.length
  | [], m, m', h, b, n, _, hl => by cases h; exact ⟨rfl, hl⟩
  | (bs, g) :: rest, m, m', h, b, n, hd, hl => by
    simp only [lhWriteGeos, bind, Except.bind] at h
    split at h
    · cases h
    rename_i m1 h1
    unfold lhWriteGeo at h1
    cases hi : geoImage g with
    | error e => rw [hi] at h1; cases h1
    | ok img =>
      rw [hi] at h1; cases h1
      have hl49 := (geo_roundtrip_aux hi).2
      have hf := frame_one m (Gen.C14.lhGeoWriteAddr bs) img b n
        (by rw [(geoAddr_eq bs).1, hl49]; exact hd (bs, g) (by simp)) hl
      have ih := lhWriteGeos_frame rest _ m' h b n (fun p hp => hd p (by simp [hp])) hf.2
      exact ⟨ih.1.trans hf.1, ih.2⟩

theorem lhWriteCalibs_frame : ∀ (cs : List (Nat × Calib)) (m m' : Mem), lhWriteCalibs m cs = .ok m' →
    ∀ (b n : Nat), (∀ p ∈ cs, 4096 + p.1 * 256 + 61 ≤ b ∨ b + n ≤ 4096 + p.1 * 256) → b + n ≤ m.length →
    m'.read b n = m.read b n ∧ b + n ≤ m'.length
  | [], m, m', h, b, n, _, hl => by cases h; exact ⟨rfl, hl⟩
  | (bs, c) :: rest, m, m', h, b, n, hd, hl => by
    simp only [lhWriteCalibs, bind, Except.bind] at h
    split at h
    · cases h
    rename_i m1 h1
    unfold lhWriteCalib at h1
    cases hi : calibImage c with
    | error e => rw [hi] at h1; cases h1
    | ok img =>
      rw [hi] at h1; cases h1
      have hl61 := (calib_roundtrip_aux hi).2
      have hf := frame_one m (Gen.C14.lhCalibWriteAddr bs) img b n
        (by rw [(calibAddr_eq bs).1, hl61]; exact hd (bs, c) (by simp)) hl
      have ih := lhWriteCalibs_frame rest _ m' h b n (fun p hp => hd p (by simp [hp])) hf.2
      exact ⟨ih.1.trans hf.1, ih.2⟩

theorem lhReadGeo_congr (m m' : Mem) (bs : Nat)
    (h : m'.read (bs * 256) 49 = m.read (bs * 256) 49) : lhReadGeo m' bs = lhReadGeo m bs := by
  unfold lhReadGeo
  rw [(geoAddr_eq bs).2, gen_lhSizes.2.1, h]

theorem lhReadCalib_congr (m m' : Mem) (bs : Nat)
    (h : m'.read (4096 + bs * 256) 61 = m.read (4096 + bs * 256) 61) : lhReadCalib m' bs = lhReadCalib m bs := by
  unfold lhReadCalib
  rw [(calibAddr_eq bs).2, gen_lhSizes.2.2.2, h]

theorem lhWriteGeos_read : ∀ (gs : List (Nat × Geo)) (m m' : Mem), lhWriteGeos m gs = .ok m' →
    (gs.map (·.1)).Nodup → (∀ p ∈ gs, p.1 < Gen.C14.lhNrOfChannels) →
    ∀ p ∈ gs, lhReadGeo m' p.1 = .ok (.geo p.2) ∧ p.1 * 256 + 49 ≤ m'.length
  | [], _, _, _, _, _, p, hp => by cases hp
  | (bs, g) :: rest, m, m', h, hnd, hlt, p, hp => by
    simp only [lhWriteGeos, bind, Except.bind] at h
    split at h
    · cases h
    rename_i m1 h1
    have hnd' := (List.nodup_cons.mp hnd)
    rcases List.mem_cons.mp hp with rfl | hp
    · have hr := lh_geo_roundtrip_aux m bs (hlt (bs, g) (by simp)) g m1 h1
      have hlen : bs * 256 + 49 ≤ m1.length := by
        unfold lhWriteGeo at h1
        cases hi : geoImage g with
        | error e => rw [hi] at h1; cases h1
        | ok img =>
          rw [hi] at h1; cases h1
          rw [Mem.write_length, (geoAddr_eq bs).1, (geo_roundtrip_aux hi).2]; omega
      have hf := lhWriteGeos_frame rest m1 m' h (bs * 256) 49 (by
        intro q hq
        have : q.1 ≠ bs := fun e => hnd'.1 (by rw [← e]; exact List.mem_map_of_mem (f := (·.1)) hq)
        omega) hlen
      exact ⟨(lhReadGeo_congr m1 m' bs hf.1).trans hr, hf.2⟩
    · exact lhWriteGeos_read rest m1 m' h hnd'.2 (fun q hq => hlt q (by simp [hq])) p hp

theorem lhWriteCalibs_read : ∀ (cs : List (Nat × Calib)) (m m' : Mem), lhWriteCalibs m cs = .ok m' →
    (cs.map (·.1)).Nodup →
    ∀ p ∈ cs, lhReadCalib m' p.1 = .ok (.calib p.2)
  | [], _, _, _, _, p, hp => by cases hp
  | (bs, c) :: rest, m, m', h, hnd, p, hp => by
    simp only [lhWriteCalibs, bind, Except.bind] at h
    split at h
    · cases h
    rename_i m1 h1
    have hnd' := (List.nodup_cons.mp hnd)
    rcases List.mem_cons.mp hp with rfl | hp
    · have hr := lh_calib_roundtrip_aux m bs c m1 h1
      have hlen : 4096 + bs * 256 + 61 ≤ m1.length := by
        unfold lhWriteCalib at h1
        cases hi : calibImage c with
        | error e => rw [hi] at h1; cases h1
        | ok img =>
          rw [hi] at h1; cases h1
          rw [Mem.write_length, (calibAddr_eq bs).1, (calib_roundtrip_aux hi).2]; omega
      have hf := lhWriteCalibs_frame rest m1 m' h (4096 + bs * 256) 61 (by
        intro q hq
        have : q.1 ≠ bs := fun e => hnd'.1 (by rw [← e]; exact List.mem_map_of_mem (f := (·.1)) hq)
        omega) hlen
      exact (lhReadCalib_congr m1 m' bs hf.1).trans hr
    · exact lhWriteCalibs_read rest m1 m' h hnd'.2 p hp

/-- geometries for any set of base stations, then calibrations for any set: everything reads back -/
theorem lh_config_roundtrip_aux (gs : List (Nat × Geo)) (cs : List (Nat × Calib)) (m mg mc : Mem)
    (hg : lhWriteGeos m gs = .ok mg) (hc : lhWriteCalibs mg cs = .ok mc)
    (hgn : (gs.map (·.1)).Nodup) (hcn : (cs.map (·.1)).Nodup) (hlt : ∀ p ∈ gs, p.1 < Gen.C14.lhNrOfChannels) :
    (∀ p ∈ gs, lhReadGeo mc p.1 = .ok (.geo p.2)) ∧ (∀ p ∈ cs, lhReadCalib mc p.1 = .ok (.calib p.2)) := by
  refine ⟨?_, lhWriteCalibs_read cs mg mc hc hcn⟩
  intro p hp
  obtain ⟨hr, hl⟩ := lhWriteGeos_read gs m mg hg hgn hlt p hp
  have h16 : p.1 < 16 := hlt p hp
  have hf := lhWriteCalibs_frame cs mg mc hc (p.1 * 256) 49 (by intro q _; omega) hl
  exact (lhReadGeo_congr mg mc p.1 hf.1).trans hr
end CfVerif.C14

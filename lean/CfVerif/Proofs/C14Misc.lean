/- Proofs/C14Misc — helper lemmas for the loco, trajectory and LED-timing theorems of Props/C14. -/
import CfVerif.Proofs.C14Deck
namespace CfVerif.C14
open CfVerif

theorem fmt_locoAnchor : parseFmt! Gen.C14.locoAnchorFmt = [.f, .f, .f, .bool] := by decide
theorem fmt_loco2Anchor : parseFmt! Gen.C14.loco2AnchorFmt = [.f, .f, .f, .bool] := by decide

theorem anchorParse_encode (fmt : String) (hf : parseFmt! fmt = [.f, .f, .f, .bool]) (a : Anchor) (hw : a.WF) :
    anchorParse fmt a.encode = .ok a := by
  obtain ⟨hx, hy, hz⟩ := hw
  have hb : packOne .bool (.bool a.valid) = .ok [if a.valid then 1 else 0] := rfl
  have hp := pack_cons_total (by decide) (packf_total hx) (pack_cons_total (by decide) (packf_total hy)
    (pack_cons_total (by decide) (packf_total hz) (pack_cons_total (cs := []) (vs := []) (by decide) hb rfl)))
  have hu := unpack_pack (f := [.f, .f, .f, .bool]) (by rfl) hp
  unfold anchorParse Anchor.encode
  rw [hf]
  simp only [List.append_nil] at hu
  rw [hu]

theorem locoAddr (p : Nat) : Gen.C14.locoPageOf (Gen.C14.locoPageAddr p) = p ∧ Gen.C14.locoPageAddr p = 0x1000 + 0x100 * p := by
  simp only [Gen.C14.locoPageOf, Gen.C14.locoPageAddr, Gen.C14.locoAnchorBase, Gen.C14.locoPageSize]
  constructor
  · rw [Nat.add_sub_cancel_left, Nat.mul_div_cancel_left _ (by decide)]
  · trivial

theorem set_take_replicate (as : List Anchor) (p : Nat) (hp : p < as.length) (d : Anchor) :
    (as.take p ++ List.replicate (as.length - p) d).set p as[p] = as.take (p + 1) ++ List.replicate (as.length - (p + 1)) d := by
  have h1 : (as.take p).length = p := by simp; omega
  rw [List.set_append_right _ _ (by omega), h1, Nat.sub_self]
  obtain ⟨k, hk⟩ : ∃ k, as.length - p = k + 1 := ⟨as.length - p - 1, by omega⟩
  rw [hk, List.replicate_succ, List.set_cons_zero, List.take_succ_eq_append_getElem hp, List.append_assoc]
  congr 2
  have : as.length - (p + 1) = k := by omega
  rw [this]
  rfl

theorem locoRun_spec (m : Mem) (as : List Anchor)
    (hp : ∀ i (h : i < as.length), m.read (0x1000 + 0x100 * i) 13 = as[i].encode) (hw : ∀ a ∈ as, a.WF) :
    ∀ (k p fuel : Nat), p + k = as.length → 0 < k → k ≤ fuel →
      locoRun m as.length fuel (Gen.C14.locoPageAddr p) (as.take p ++ List.replicate (as.length - p) Anchor.default) = .ok as
  | 0, _, _, _, h, _ => by omega
  | k + 1, p, 0, _, _, h => by omega
  | k + 1, p, fuel + 1, hpk, _, hf => by
    have hlt : p < as.length := by omega
    obtain ⟨e1, e2⟩ := locoAddr p
    rw [locoRun]
    simp only [e1]
    rw [e2, show Gen.C14.locoPageLen = 13 from rfl, hp p hlt, anchorParse_encode _ fmt_locoAnchor _ (hw _ (List.getElem_mem hlt))]
    simp only
    have hlen : p < (as.take p ++ List.replicate (as.length - p) Anchor.default).length := by simp; omega
    rw [if_pos hlen, set_take_replicate as p hlt]
    by_cases hnext : p + 1 < as.length
    · rw [if_pos hnext]
      exact locoRun_spec m as hp hw k (p + 1) fuel (by omega) (by omega) (by omega)
    · rw [if_neg hnext]
      have : p + 1 = as.length := by omega
      rw [this, List.take_length, Nat.sub_self]
      simp

theorem loco_parse_aux (m : Mem) (as : List Anchor) (hn : as.length < 256)
    (h0 : m.read 0 1 = [UInt8.ofNat as.length])
    (hp : ∀ i (h : i < as.length), m.read (0x1000 + 0x100 * i) 13 = as[i].encode) (hw : ∀ a ∈ as, a.WF) :
    locoUpdate m = .ok ⟨as.length, as, true⟩ := by
  unfold locoUpdate
  rw [show Gen.C14.locoInfo = 0 from rfl, show Gen.C14.locoInfoLen = 1 from rfl, h0]
  simp only [ofNat_toNat_of_lt hn]
  by_cases hz : as.length = 0
  · rw [if_pos hz]
    have : as = [] := List.eq_nil_of_length_eq_zero hz
    subst this; rfl
  · rw [if_neg hz]
    have := locoRun_spec m as hp hw as.length 0 as.length (by omega) (by omega) (Nat.le_refl _)
    simp only [List.take_zero, List.nil_append, Nat.sub_zero] at this
    rw [this]

/-! ### loco 2 -/

theorem loco2_ids_aux (data : List UInt8) (ids pad : List UInt8) (h : data = UInt8.ofNat ids.length :: (ids ++ pad))
    (hn : ids.length < 256) : loco2Ids data = .ok (ids.map UInt8.toNat) := by
  subst h
  unfold loco2Ids
  simp only [ofNat_toNat_of_lt hn, List.length_append]
  rw [if_pos (by omega), List.take_left' rfl]

theorem loco2Addr (p : Nat) : Gen.C14.loco2IdOf (Gen.C14.loco2PageAddr p) = p ∧ Gen.C14.loco2PageAddr p = 0x2000 + 0x100 * p := by
  simp only [Gen.C14.loco2IdOf, Gen.C14.loco2PageAddr, Gen.C14.loco2AnchorBase, Gen.C14.loco2PageSize]
  constructor
  · rw [Nat.add_sub_cancel_left, Nat.mul_div_cancel_left _ (by decide)]
  · trivial

theorem loco2Fetch_spec (m : Mem) (a : Nat → Anchor) : ∀ (ids : List Nat) (d : Dict Anchor),
    (∀ id ∈ ids, m.read (0x2000 + 0x100 * id) 13 = (a id).encode ∧ (a id).WF) →
    ids.Nodup → (∀ p ∈ d, ∀ id ∈ ids, p.1 ≠ id) →
    loco2Fetch m ids d = .ok (d ++ ids.map fun id => (id, a id))
  | [], d, _, _, _ => by simp [loco2Fetch]
  | id :: rest, d, hp, hnd, hdis => by
    obtain ⟨e1, e2⟩ := loco2Addr id
    rw [loco2Fetch]
    simp only [e1]
    rw [e2, show Gen.C14.loco2PageLen = 13 from rfl, (hp id (by simp)).1,
      anchorParse_encode _ fmt_loco2Anchor _ (hp id (by simp)).2]
    simp only
    rw [dictSet_fresh d id _ (fun p hp' => hdis p hp' id (by simp))]
    have hnd' := List.nodup_cons.mp hnd
    rw [loco2Fetch_spec m a rest _ (fun x hx => hp x (by simp [hx])) hnd'.2 ?_]
    · simp
    · intro p hp' x hx
      rcases List.mem_append.mp hp' with h | h
      · exact hdis p h x (by simp [hx])
      · simp only [List.mem_singleton] at h
        subst h
        intro e
        have e' : id = x := e
        exact hnd'.1 (by rw [e']; exact hx)

/-! ### Poly4D -/

theorem pack_floats : ∀ (l : List Nat), (∀ v ∈ l, v < 2 ^ 32) →
    pack (List.replicate l.length .f) (l.map .flt) = .ok ((l.map (leBytes 4)).flatten)
  | [], _ => rfl
  | v :: l, h => by
    have ih := pack_floats l (fun x hx => h x (by simp [hx]))
    simp only [List.length_cons, List.replicate_succ, List.map_cons, List.flatten_cons]
    exact pack_cons_total (by decide) (packf_total (h v (by simp))) ih

theorem gen_polyFmts : Gen.C14.polyFmts.map parseFmt! = [List.replicate 8 .f, List.replicate 8 .f, List.replicate 8 .f,
    List.replicate 8 .f, [.f]] := by decide

theorem poly4d_layout_aux (x y z yaw : List Nat) (d : Nat) (hx : x.length = 8) (hy : y.length = 8) (hz : z.length = 8)
    (hw : yaw.length = 8) (hv : ∀ v ∈ x ++ y ++ z ++ yaw ++ [d], v < 2 ^ 32) :
    poly4dPack x y z yaw d = .ok (poly4dLayout x y z yaw d) ∧ (poly4dLayout x y z yaw d).length = 132 := by
  have hf := gen_polyFmts
  simp only [Gen.C14.polyFmts, List.map_cons, List.map_nil, List.cons.injEq, and_true] at hf
  obtain ⟨f0, f1, f2, f3, f4⟩ := hf
  have px := pack_floats x (fun v h => hv v (by simp [h]))
  have py := pack_floats y (fun v h => hv v (by simp [h]))
  have pz := pack_floats z (fun v h => hv v (by simp [h]))
  have pw := pack_floats yaw (fun v h => hv v (by simp [h]))
  have pd := pack_floats [d] (fun v h => hv v (by simp at h; simp [h]))
  rw [hx] at px; rw [hy] at py; rw [hz] at pz; rw [hw] at pw
  constructor
  · unfold poly4dPack
    simp only [Gen.C14.polyFmts, List.getD_cons_zero, List.getD_cons_succ, f0, f4, px, py, pz, pw, bind, Except.bind]
    have : pack [.f] [.flt d] = .ok ((List.map (leBytes 4) [d]).flatten) := pd
    rw [this]
    simp [poly4dLayout, pure, Except.pure]
  · have hl : ∀ l : List Nat, ((l.map (leBytes 4)).flatten).length = 4 * l.length := by
      intro l; induction l with
      | nil => rfl
      | cons a l ih => simp [ih]; omega
    unfold poly4dLayout
    rw [hl]; simp [hx, hy, hz, hw]
theorem and_lt_of_mask (a m : Nat) : a &&& m ≤ m := Nat.and_le_right

theorem ledR5_lt (c : Nat) : Gen.C14.ledR5 c < 32 := by
  unfold Gen.C14.ledR5; exact Nat.lt_succ_of_le Nat.and_le_right
theorem ledG6_lt (c : Nat) : Gen.C14.ledG6 c < 64 := by
  unfold Gen.C14.ledG6; exact Nat.lt_succ_of_le Nat.and_le_right
theorem ledB5_lt (c : Nat) : Gen.C14.ledB5 c < 32 := by
  unfold Gen.C14.ledB5; exact Nat.lt_succ_of_le Nat.and_le_right

/-- RGB565: red in bits 15..11, green in bits 10..5, blue in bits 4..0 -/
theorem ledWord_eq (r g b : Nat) (hg : g < 64) (hb : b < 32) :
    Gen.C14.ledWord r g b = r * 2048 + g * 32 + b := by
  unfold Gen.C14.ledWord
  have h1 : r <<< 11 ||| g <<< 5 = r <<< 11 + g <<< 5 := by
    rw [Nat.shiftLeft_add_eq_or_of_lt (by rw [Nat.shiftLeft_eq]; omega)]
  have h2 : r <<< 11 + g <<< 5 = (r * 64 + g) <<< 5 := by
    simp only [Nat.shiftLeft_eq]; omega
  rw [h1, h2, Nat.shiftLeft_zero, ← Nat.shiftLeft_add_eq_or_of_lt (by omega), Nat.shiftLeft_eq]
  omega

/-- the `extra` byte: leds in bits 3..0, fade in bit 4, rotate in bits 7..5 -/
theorem ledExtra_eq (l f r : Nat) : Gen.C14.ledExtra l f r = l % 16 + 16 * (f % 2) + 32 * (r % 8) := by
  unfold Gen.C14.ledExtra
  have h1 : l &&& 15 = l % 16 := Nat.and_two_pow_sub_one_eq_mod l 4
  have h2 : (f <<< 4) &&& 16 = (f % 2) <<< 4 := by
    rw [show (16 : Nat) = 1 <<< 4 from rfl, ← Nat.shiftLeft_and_distrib, Nat.and_one_is_mod]
  have h3 : (r <<< 5) &&& 224 = (r % 8) <<< 5 := by
    rw [show (224 : Nat) = 7 <<< 5 from rfl, ← Nat.shiftLeft_and_distrib]
    congr 1
    exact Nat.and_two_pow_sub_one_eq_mod r 3
  rw [h1, h2, h3]
  have hl : l % 16 < 2 ^ 4 := Nat.mod_lt _ (by decide)
  have e1 : l % 16 ||| (f % 2) <<< 4 = (f % 2) <<< 4 + l % 16 := by
    rw [Nat.or_comm, Nat.shiftLeft_add_eq_or_of_lt hl]
  have hlt : (f % 2) <<< 4 + l % 16 < 2 ^ 5 := by
    rw [Nat.shiftLeft_eq]; omega
  rw [e1, Nat.or_comm, ← Nat.shiftLeft_add_eq_or_of_lt hlt]
  simp only [Nat.shiftLeft_eq]
  omega

theorem ledWord_lt (t : LedTiming) : t.word < 65536 := by
  unfold LedTiming.word
  rw [ledWord_eq _ _ _ (ledG6_lt _) (ledB5_lt _)]
  have := ledR5_lt (t.r &&& 255); have := ledG6_lt (t.g &&& 255); have := ledB5_lt (t.b &&& 255)
  omega

theorem ledExtra_lt (t : LedTiming) : t.extra < 256 := by
  unfold LedTiming.extra; rw [ledExtra_eq]; omega

theorem led_record_bytes (t : LedTiming) : ∀ v ∈ t.record, v < 256 := by
  intro v hv
  unfold LedTiming.record at hv
  split at hv
  · simp only [List.mem_cons, List.mem_nil_iff, or_false] at hv
    have h1 : t.time &&& 255 ≤ 255 := Nat.and_le_right
    have h2 : t.word &&& 255 ≤ 255 := Nat.and_le_right
    have h3 := ledWord_lt t
    have h4 := ledExtra_lt t
    have h5 : t.word >>> 8 < 256 := by rw [Nat.shiftRight_eq_div_pow]; omega
    rcases hv with rfl | rfl | rfl | rfl <;> omega
  · cases hv

theorem ledImage_ok (ts : List LedTiming) :
    ledImage ts = .ok (((ts.map LedTiming.record).flatten ++ [0, 0, 0, 0]).map UInt8.ofNat) := by
  unfold ledImage
  rw [if_pos]
  rw [List.all_eq_true]
  intro v hv
  rcases List.mem_append.mp hv with h | h
  · obtain ⟨l, hl, hvl⟩ := List.mem_flatten.mp h
    obtain ⟨t, _, rfl⟩ := List.mem_map.mp hl
    simpa using led_record_bytes t v hvl
  · simp at h; subst h; simp

/-- an emitted record is never the all-zero terminator, and a timing is dropped only if its record would be -/
theorem led_record_cases (t : LedTiming) :
    (t.record = [t.time % 256, t.word / 256, t.word % 256, t.extra] ∧ t.record ≠ [0, 0, 0, 0]) ∨
    (t.record = [] ∧ t.time % 256 = 0 ∧ t.word = 0 ∧ t.extra = 0) := by
  have e1 : t.time &&& 255 = t.time % 256 := Nat.and_two_pow_sub_one_eq_mod _ 8
  have e2 : t.word &&& 255 = t.word % 256 := Nat.and_two_pow_sub_one_eq_mod _ 8
  have e3 : t.word >>> 8 = t.word / 256 := by rw [Nat.shiftRight_eq_div_pow]
  unfold LedTiming.record
  rw [e1, e2, e3]
  by_cases h : t.time % 256 ≠ 0 ∨ t.word ≠ 0 ∨ t.extra ≠ 0
  · rw [if_pos h]
    refine Or.inl ⟨rfl, ?_⟩
    intro hz
    simp only [List.cons.injEq, and_true] at hz
    obtain ⟨z1, z2, z3, z4⟩ := hz
    rcases h with h | h | h
    · exact h z1
    · exact h (by omega)
    · exact h z4
  · rw [if_neg h]
    refine Or.inr ⟨rfl, ?_⟩
    omega
end CfVerif.C14

/- Proofs/C14Ow — helper lemmas for the 1-wire (OWElement) theorems of Props/C14. -/
import CfVerif.Proofs.C14
namespace CfVerif.C14
open CfVerif

theorem fmt_owWHdr : parseFmt! Gen.C14.owWHdrFmt = [.B, .I, .B, .B] := by decide
theorem fmt_owWHdrCrc : parseFmt! Gen.C14.owWHdrCrcFmt = [.B] := by decide
theorem fmt_owWKeyLen : parseFmt! Gen.C14.owWKeyLenFmt = [.B, .B] := by decide
theorem fmt_owWArea : parseFmt! Gen.C14.owWAreaFmt = [.B, .B] := by decide
theorem fmt_owWAreaCrc : parseFmt! Gen.C14.owWAreaCrcFmt = [.B] := by decide
theorem fmt_owRHdr : parseFmt! Gen.C14.owRHdrFmt = [.B, .I, .B, .B, .B] := by decide
theorem fmt_owRTlv : parseFmt! Gen.C14.owRTlvFmt = [.B, .B] := by decide
theorem fmt_owLen : parseFmt! Gen.C14.owLenFmt = [.B, .B] := by decide
theorem gen_owMasks : maskOf Gen.C14.owWCrcMasks 0 = 255 ∧ maskOf Gen.C14.owWCrcMasks 1 = 255 ∧
    maskOf Gen.C14.owRHdrCrcMasks 0 = 255 ∧ maskOf Gen.C14.owRElemCrcMasks 0 = 255 := by decide
theorem gen_owRead1 : Gen.C14.owRead1 = [0, 11] := by decide
theorem gen_owRead2 : Gen.C14.owRead2Addr = 8 ∧ ∀ n, Gen.C14.owRead2Len n = n + 3 := ⟨by decide, fun _ => rfl⟩
theorem gen_owMagic : Gen.C14.owMagic = 0xEB ∧ Gen.C14.owWMagic = 0xEB := by decide
theorem gen_owIds : Gen.C14.owIds = [1, 2, 3] := by decide

theorem and255 (n : Nat) : n &&& 255 = n % 256 := Nat.and_two_pow_sub_one_eq_mod n 8

theorem unpack_BB' (bs : List UInt8) (h : bs.length = 2) :
    unpack [.B, .B] bs = .ok [.int (bs.getD 0 0).toNat, .int (bs.getD 1 0).toNat] := by
  obtain ⟨b0, t1, rfl, h1⟩ := len_succ h
  obtain ⟨b1, t2, rfl, h2⟩ := len_succ h1
  have : t2 = [] := List.eq_nil_of_length_eq_zero h2
  subst this
  simp [unpack, Code.size, Code.takesVal, unpackOne, leVal, bind, Except.bind, pure, Except.pure]

theorem unpack_BB_short (bs : List UInt8) (h : bs.length < 2) : unpack [.B, .B] bs = .error .structError := by
  match bs, h with
  | [], _ => simp [unpack, Code.size]
  | [a], _ => simp [unpack, Code.size, bind, Except.bind]

theorem unpack_owHdr (bs : List UInt8) (h : bs.length = 8) :
    unpack [.B, .I, .B, .B, .B] bs = .ok [.int (bs.getD 0 0).toNat, .int (leVal (slice bs 1 5)), .int (bs.getD 5 0).toNat,
      .int (bs.getD 6 0).toNat, .int (bs.getD 7 0).toNat] := by
  obtain ⟨b0, t1, rfl, h1⟩ := len_succ h
  obtain ⟨b1, t2, rfl, h2⟩ := len_succ h1
  obtain ⟨b2, t3, rfl, h3⟩ := len_succ h2
  obtain ⟨b3, t4, rfl, h4⟩ := len_succ h3
  obtain ⟨b4, t5, rfl, h5⟩ := len_succ h4
  obtain ⟨b5, t6, rfl, h6⟩ := len_succ h5
  obtain ⟨b6, t7, rfl, h7⟩ := len_succ h6
  obtain ⟨b7, t8, rfl, h8⟩ := len_succ h7
  have : t8 = [] := List.eq_nil_of_length_eq_zero h8
  subst this
  simp [unpack, Code.size, Code.takesVal, unpackOne, leVal, slice, bind, Except.bind, pure, Except.pure]

/-- header stage, positionally -/
theorem owHeader_eq (d : List UInt8) (h : d.length = 8) :
    owHeader d = .ok (leVal (slice d 1 5), (d.getD 5 0).toNat, (d.getD 6 0).toNat,
      decide ((d.getD 0 0).toNat = 0xEB) && decide ((d.getD 7 0).toNat = crc32 (d.take 7) % 256)) := by
  unfold owHeader
  rw [fmt_owRHdr, unpack_owHdr d h]
  simp only [Int.toNat_natCast, gen_owMasks.2.2.1, and255, gen_owMagic.1, h]

/-- `_parse_and_check_elements` on `body ++ [crc]` -/
theorem owElements_snoc (body : List UInt8) (c : UInt8) (d : Dict (List UInt8)) :
    owElements (body ++ [c]) d =
      if crc32 body % 256 = c.toNat then
        (match owTlv (body.drop 2).length (body.drop 2) d with
         | .ok d' => .ok (some d')
         | .error e => .error e)
      else .ok none := by
  unfold owElements
  simp only [List.getLast?_append, List.getLast?_singleton, Option.some_or, List.length_append, List.length_singleton,
    Nat.add_sub_cancel, List.take_left', gen_owMasks.2.2.2, and255]
  rfl

theorem owTlv_step (f : Nat) (eid elen : UInt8) (t : List UInt8) (d : Dict (List UInt8))
    (h : Gen.C14.owIds.contains eid.toNat = true) :
    owTlv (f + 1) (eid :: elen :: t) d = owTlv f (t.drop elen.toNat) (dictSet d eid.toNat (t.take elen.toNat)) := by
  rw [owTlv]
  · simp only [fmt_owRTlv, List.take_succ_cons, List.take_zero]
    rw [unpack_BB' _ rfl]
    simp only [List.getD_cons_zero, List.getD_cons_succ, Int.toNat_natCast, h, if_true, slice]
    congr 1
    · simp [Nat.add_comm 2]
    · simp [Nat.add_comm 2]
  · simp

theorem owTlv_step_bad (f : Nat) (eid elen : UInt8) (t : List UInt8) (d : Dict (List UInt8))
    (h : Gen.C14.owIds.contains eid.toNat = false) :
    owTlv (f + 1) (eid :: elen :: t) d = .error .keyError := by
  rw [owTlv]
  · simp only [fmt_owRTlv, List.take_succ_cons, List.take_zero]
    rw [unpack_BB' _ rfl]
    simp only [List.getD_cons_zero, List.getD_cons_succ, Int.toNat_natCast, h]
    rfl
  · simp

theorem owTlv_step_short (f : Nat) (a : UInt8) (d : Dict (List UInt8)) :
    owTlv (f + 1) [a] d = .error .structError := by
  rw [owTlv]
  · simp only [fmt_owRTlv]
    rw [unpack_BB_short _ (by simp)]
  · simp

/-- dict insertion of a fresh key appends -/
theorem dictSet_fresh {α} (d : Dict α) (k : Nat) (v : α) (h : ∀ p ∈ d, p.1 ≠ k) : dictSet d k v = d ++ [(k, v)] := by
  induction d with
  | nil => rfl
  | cons p d ih =>
    obtain ⟨k', v'⟩ := p
    have hk : k' ≠ k := h (k', v') (by simp)
    simp only [dictSet, if_neg hk, List.cons_append]
    rw [ih (fun p hp => h p (by simp [hp]))]

theorem encodeLatin1_ok {s : List Nat} {bs} (h : encodeLatin1 s = .ok bs) : bs = s.map UInt8.ofNat ∧ bs.length = s.length := by
  unfold encodeLatin1 at h
  split at h
  · cases h; simp
  · cases h

/-- the dict the parser builds from the elements `write_data` encoded -/
def owExpect (es : Dict (List Nat)) : Dict (List UInt8) := es.map fun (k, s) => (k, s.map UInt8.ofNat)

theorem owTlv_encode : ∀ (es : Dict (List Nat)) (bs : List UInt8) (d : Dict (List UInt8)) (fuel : Nat),
    owEncodeElems es = .ok bs → bs.length ≤ fuel →
    (es.map (·.1)).Nodup → (∀ p ∈ d, ∀ q ∈ es, p.1 ≠ q.1) →
    owTlv fuel bs d = .ok (d ++ owExpect es)
  | [], bs, d, fuel, h, _, _, _ => by
    cases h
    cases fuel <;> simp [owTlv, owExpect]
  | (k, s) :: rest, bs, d, fuel, h, hf, hnd, hdis => by
    simp only [owEncodeElems, bind, Except.bind, fmt_owWKeyLen] at h
    split at h
    · cases h
    · rename_i hk
      simp only [Bool.not_eq_true, Bool.not_eq_false, Decidable.not_not] at hk
      split at h
      · cases h
      · rename_i kl hkl
        split at h
        · cases h
        · rename_i enc henc
          split at h
          · cases h
          · rename_i r hr
            cases h
            obtain ⟨a0, r0, h0, hb0, rfl⟩ := pack_cons_ok (by decide) hkl
            obtain ⟨a1, r1, h1, hb1, rfl⟩ := pack_cons_ok (by decide) hb0
            have := pack_nil_ok hb1; subst this
            obtain ⟨k0, k1, rfl⟩ := packB_ok h0
            obtain ⟨l0, l1, rfl⟩ := packB_ok h1
            obtain ⟨rfl, hel⟩ := encodeLatin1_ok henc
            have hkk : (UInt8.ofNat (k : Int).toNat).toNat = k := by
              rw [Int.toNat_natCast]; exact ofNat_toNat_of_lt (by omega)
            have hll : (UInt8.ofNat (s.length : Int).toNat).toNat = s.length := by
              rw [Int.toNat_natCast]; exact ofNat_toNat_of_lt (by omega)
            obtain ⟨f, rfl⟩ : ∃ f, fuel = f + 1 := ⟨fuel - 1, by simp at hf; omega⟩
            simp only [List.cons_append, List.nil_append, List.append_nil, List.append_assoc, List.singleton_append]
            rw [owTlv_step _ _ _ _ _ (by rw [hkk]; exact hk), hkk, hll]
            have hlen : (s.map UInt8.ofNat).length = s.length := by simp
            rw [List.drop_left' hlen, List.take_left' hlen]
            have hfresh : ∀ p ∈ d, p.1 ≠ k := fun p hp => hdis p hp (k, s) (by simp)
            rw [dictSet_fresh d k _ hfresh]
            have hnd' : (rest.map (·.1)).Nodup := (List.nodup_cons.mp hnd).2
            have hk_notin : ∀ q ∈ rest, k ≠ q.1 := by
              intro q hq hkq
              exact (List.nodup_cons.mp hnd).1 (by rw [hkq]; exact List.mem_map_of_mem (f := (·.1)) hq)
            rw [owTlv_encode rest r (d ++ [(k, s.map UInt8.ofNat)]) f hr (by simp at hf; omega) hnd' ?_]
            · simp [owExpect]
            · intro p hp q hq
              rcases List.mem_append.mp hp with hp | hp
              · exact hdis p hp q (by simp [hq])
              · simp only [List.mem_singleton] at hp
                subst hp
                exact hk_notin q hq
theorem slice_snoc (l : List UInt8) (a b : Nat) (h1 : a ≤ b) (h2 : b < l.length) :
    slice l a (b + 1) = slice l a b ++ [l.getD b 0] := by
  rw [← slice_append_slice l a b (b + 1) h1 (by omega) (by omega)]
  congr 1
  simp only [slice]
  rw [List.take_succ_eq_append_getElem h2, List.drop_append_of_le_length (by simp; omega)]
  simp [List.getD_eq_getElem?_getD, List.getElem?_eq_getElem h2]

theorem read_eq_slice (m : Mem) (a n : Nat) : m.read a n = slice m a (a + n) := by
  simp [Mem.read, slice, List.take_drop]

def owHdrOK (m : Mem) : Bool :=
  decide ((m.getD 0 0).toNat = 0xEB) && decide ((m.getD 7 0).toNat = crc32 (m.take 7) % 256)
def owSectLen (m : Mem) : Nat := (m.getD 9 0).toNat
def owSectOK (m : Mem) : Bool :=
  decide (crc32 (slice m 8 (10 + owSectLen m)) % 256 = (m.getD (10 + owSectLen m) 0).toNat)

/-- the 1-wire memory as the firmware lays it out, positionally (the TLV walk is `owTlv`) -/
def owDecode (m : Mem) : Except PyErr OWParsed :=
  let pins := leVal (slice m 1 5)
  let vid := (m.getD 5 0).toNat
  let pid := (m.getD 6 0).toNat
  if owHdrOK m then
    if owSectOK m then
      match owTlv (owSectLen m) (slice m 10 (10 + owSectLen m)) [] with
      | .ok d => .ok { pins, vid, pid, elements := d, valid := true, called := true }
      | .error e => .error e
    else .ok { pins, vid, pid, elements := [], valid := false, called := true }
  else .ok { pins, vid, pid, elements := [], valid := false, called := true }

theorem owStage2_eq (m : Mem) (pins vid pid : Nat) (hL : 11 + owSectLen m ≤ m.length) :
    owStage2 m pins vid pid (owSectLen m) =
      if owSectOK m then
        match owTlv (owSectLen m) (slice m 10 (10 + owSectLen m)) [] with
        | .ok d => .ok { pins, vid, pid, elements := d, valid := true, called := true }
        | .error e => .error e
      else .ok { pins, vid, pid, elements := [], valid := false, called := true } := by
  unfold owStage2
  rw [gen_owRead2.1, gen_owRead2.2, read_eq_slice]
  have h1 : slice m 8 (8 + (owSectLen m + 3)) = slice m 8 (10 + owSectLen m) ++ [m.getD (10 + owSectLen m) 0] := by
    rw [show 8 + (owSectLen m + 3) = (10 + owSectLen m) + 1 by omega]
    exact slice_snoc m 8 _ (by omega) (by omega)
  simp only [h1]
  rw [owElements_snoc]
  have h2 : (slice m 8 (10 + owSectLen m)).drop 2 = slice m 10 (10 + owSectLen m) := by
    simp [slice, List.drop_drop]
  have h3 : (slice m 10 (10 + owSectLen m)).length = owSectLen m := by
    rw [slice_length _ _ _ (by omega)]; omega
  rw [h2, h3]
  unfold owSectOK
  by_cases hc : crc32 (slice m 8 (10 + owSectLen m)) % 256 = (m.getD (10 + owSectLen m) 0).toNat
  · simp only [hc, if_true, decide_true]
    cases hr : owTlv (owSectLen m) (slice m 10 (10 + owSectLen m)) [] <;> rfl
  · simp only [hc, if_false, decide_false]
    simp

theorem owUpdate_eq_decode (m : Mem) (hL : 11 + owSectLen m ≤ m.length) : owUpdate m = owDecode m := by
  unfold owUpdate owDecode
  simp only [gen_owRead1, List.getD_cons_zero, List.getD_cons_succ, Mem.read, List.drop_zero]
  have h8 : slice (m.take 11) 0 8 = m.take 8 := by simp [slice, List.take_take]
  have hl8 : (m.take 8).length = 8 := by simp; omega
  rw [h8, owHeader_eq _ hl8]
  have e1 : slice (m.take 8) 1 5 = slice m 1 5 := slice_take _ _ _ _ (by omega)
  have e5 : (m.take 8).getD 5 0 = m.getD 5 0 := getD_take _ _ _ (by omega)
  have e6 : (m.take 8).getD 6 0 = m.getD 6 0 := getD_take _ _ _ (by omega)
  have e0 : (m.take 8).getD 0 0 = m.getD 0 0 := getD_take _ _ _ (by omega)
  have e7 : (m.take 8).getD 7 0 = m.getD 7 0 := getD_take _ _ _ (by omega)
  have e77 : (m.take 8).take 7 = m.take 7 := by simp [List.take_take]
  rw [e1, e5, e6, e0, e7, e77]
  have hok : (decide ((m.getD 0 0).toNat = 0xEB) && decide ((m.getD 7 0).toNat = crc32 (m.take 7) % 256)) = owHdrOK m := rfl
  rw [hok]
  cases hh : owHdrOK m
  · simp
  · simp only [if_true]
    have hl2 : (slice (m.take 11) 8 10).length = 2 := by rw [slice_length _ _ _ (by simp; omega)]
    rw [fmt_owLen, unpack_BB' _ hl2]
    have e9 : (slice (m.take 11) 8 10).getD 1 0 = m.getD 9 0 := by
      rw [getD_slice _ _ _ _ (by omega), getD_take _ _ _ (by omega)]
    simp only [e9]
    have hz : (((m.getD 9 0).toNat : Int) = 0) ↔ owSectLen m = 0 := by
      unfold owSectLen; omega
    simp only [hz, Int.toNat_natCast]
    have hst := owStage2_eq m (leVal (slice m 1 5)) (m.getD 5 0).toNat (m.getD 6 0).toNat hL
    unfold owSectLen at hst
    by_cases h0 : owSectLen m = 0
    · rw [if_pos h0]
      have h811 : slice (m.take 11) 8 11 = slice m 8 (10 + owSectLen m) ++ [m.getD (10 + owSectLen m) 0] := by
        rw [slice_take _ _ _ _ (by omega), h0]
        exact slice_snoc m 8 10 (by omega) (by omega)
      rw [h811, owElements_snoc]
      have h2 : (slice m 8 (10 + owSectLen m)).drop 2 = [] := by
        rw [h0]; simp [slice]
      rw [h2]
      by_cases hc : crc32 (slice m 8 (10 + owSectLen m)) % 256 = (m.getD (10 + owSectLen m) 0).toNat
      · have hs : owSectOK m = true := by unfold owSectOK; simp [hc]
        rw [if_pos hc, hs]
        simp only [List.length_nil, if_true, h0]
        simp [owTlv, slice]
      · have hs : owSectOK m = false := by unfold owSectOK; exact decide_eq_false hc
        rw [if_neg hc]
        simp only
        unfold owSectLen at h0 ⊢
        rw [hst]
    · rw [if_neg h0]
      unfold owSectLen
      rw [hst]
/-- header bytes before the header CRC -/
def owHdr7 (o : OWData) : List UInt8 :=
  0xEB :: (leBytes 4 o.pins.toNat ++ [UInt8.ofNat o.vid.toNat, UInt8.ofNat o.pid.toNat])

/-- element section before its CRC -/
def owSect (elem : List UInt8) : List UInt8 := 0 :: UInt8.ofNat elem.length :: elem

theorem owImage_shape {o : OWData} {img} (h : owImage o = .ok img) :
    ∃ elem, owEncodeElems o.elements.reverse = .ok elem ∧ elem.length < 256 ∧
      0 ≤ o.pins ∧ o.pins.toNat < 2 ^ 32 ∧ 0 ≤ o.vid ∧ o.vid < 256 ∧ 0 ≤ o.pid ∧ o.pid < 256 ∧
      img = owHdr7 o ++ [UInt8.ofNat (crc32 (owHdr7 o) % 256)] ++
            (owSect elem ++ [UInt8.ofNat (crc32 (owSect elem) % 256)]) := by
  unfold owImage at h
  simp only [fmt_owWHdr, fmt_owWHdrCrc, fmt_owWArea, fmt_owWAreaCrc, gen_owMasks.1, gen_owMasks.2.1, and255,
    gen_owMagic.2, bind, Except.bind] at h
  split at h
  · cases h
  rename_i hdr hhdr
  split at h
  · cases h
  rename_i hcrc hhcrc
  split at h
  · cases h
  rename_i elem helem
  split at h
  · cases h
  rename_i area harea
  split at h
  · cases h
  rename_i acrc hacrc
  cases h
  obtain ⟨a0, r0, h0, hb0, rfl⟩ := pack_cons_ok (by decide) hhdr
  obtain ⟨a1, r1, h1, hb1, rfl⟩ := pack_cons_ok (by decide) hb0
  obtain ⟨a2, r2, h2, hb2, rfl⟩ := pack_cons_ok (by decide) hb1
  obtain ⟨a3, r3, h3, hb3, rfl⟩ := pack_cons_ok (by decide) hb2
  have := pack_nil_ok hb3; subst this
  obtain ⟨_, _, rfl⟩ := packB_ok h0
  obtain ⟨p0, p1, rfl⟩ := packI_ok h1
  obtain ⟨v0, v1, rfl⟩ := packB_ok h2
  obtain ⟨i0, i1, rfl⟩ := packB_ok h3
  obtain ⟨c0, cr, hc0, hcb, rfl⟩ := pack_cons_ok (by decide) hhcrc
  have := pack_nil_ok hcb; subst this
  obtain ⟨_, _, rfl⟩ := packB_ok hc0
  obtain ⟨e0, er, he0, heb, rfl⟩ := pack_cons_ok (by decide) harea
  obtain ⟨e1, er1, he1, heb1, rfl⟩ := pack_cons_ok (by decide) heb
  have := pack_nil_ok heb1; subst this
  obtain ⟨_, _, rfl⟩ := packB_ok he0
  obtain ⟨l0, l1, rfl⟩ := packB_ok he1
  obtain ⟨d0, dr, hd0, hdb, rfl⟩ := pack_cons_ok (by decide) hacrc
  have := pack_nil_ok hdb; subst this
  obtain ⟨_, _, rfl⟩ := packB_ok hd0
  refine ⟨elem, helem, by omega, p0, p1, v0, v1, i0, i1, ?_⟩
  simp only [owHdr7, owSect, Int.toNat_natCast, List.cons_append, List.nil_append, List.append_nil, List.append_assoc,
    List.singleton_append, pure, Except.pure]
  rfl

theorem ow_roundtrip_aux (o : OWData) (img : List UInt8) (h : owImage o = .ok img)
    (hnd : (o.elements.map (·.1)).Nodup) (m : Mem) :
    owUpdate (m.write 0 img) = .ok ⟨o.pins.toNat, o.vid.toNat, o.pid.toNat, owExpect o.elements.reverse, true, true⟩ := by
  obtain ⟨elem, helem, hlen, p0, p1, v0, v1, i0, i1, rfl⟩ := owImage_shape h
  rw [Mem.write_zero]
  obtain ⟨q0, q1, q2, q3, hq⟩ := len4 (leBytes_length 4 o.pins.toNat)
  have hpins : leVal [q0, q1, q2, q3] = o.pins.toNat := by
    rw [← hq]; exact leVal_leBytes_of_lt (by simpa using p1)
  have hLm : (UInt8.ofNat elem.length).toNat = elem.length := ofNat_toNat_of_lt hlen
  generalize hrest : List.drop _ m = rest
  simp only [owHdr7, owSect, hq, List.cons_append, List.nil_append, List.append_assoc, List.singleton_append] at hrest ⊢
  generalize hhc : UInt8.ofNat (crc32 [235, q0, q1, q2, q3, UInt8.ofNat o.vid.toNat, UInt8.ofNat o.pid.toNat] % 256) = hc
  generalize hsc : UInt8.ofNat (crc32 (0 :: UInt8.ofNat elem.length :: elem) % 256) = sc
  -- the memory, as an explicit list
  have hLen : owSectLen (235 :: q0 :: q1 :: q2 :: q3 :: UInt8.ofNat o.vid.toNat :: UInt8.ofNat o.pid.toNat :: hc :: 0 ::
      UInt8.ofNat elem.length :: (elem ++ sc :: rest)) = elem.length := by
    simp [owSectLen, hLm]
  rw [owUpdate_eq_decode _ (by rw [hLen]; simp; omega)]
  unfold owDecode
  rw [hLen]
  have hslice : ∀ (pre : List UInt8) (tl : List UInt8), slice (235 :: q0 :: q1 :: q2 :: q3 :: UInt8.ofNat o.vid.toNat ::
      UInt8.ofNat o.pid.toNat :: hc :: 0 :: UInt8.ofNat elem.length :: (elem ++ tl)) 10 (10 + elem.length) = elem := by
    intro _ tl
    simp [slice, Nat.add_comm 10]
  have hhok : owHdrOK (235 :: q0 :: q1 :: q2 :: q3 :: UInt8.ofNat o.vid.toNat :: UInt8.ofNat o.pid.toNat :: hc :: 0 ::
      UInt8.ofNat elem.length :: (elem ++ sc :: rest)) = true := by
    simp only [owHdrOK, List.getD_cons_zero, List.getD_cons_succ, List.take_succ_cons, List.take_zero, ← hhc]
    rw [ofNat_toNat_of_lt (Nat.mod_lt _ (by decide))]
    simp
  have hsok : owSectOK (235 :: q0 :: q1 :: q2 :: q3 :: UInt8.ofNat o.vid.toNat :: UInt8.ofNat o.pid.toNat :: hc :: 0 ::
      UInt8.ofNat elem.length :: (elem ++ sc :: rest)) = true := by
    unfold owSectOK
    rw [hLen]
    have h1 : slice (235 :: q0 :: q1 :: q2 :: q3 :: UInt8.ofNat o.vid.toNat :: UInt8.ofNat o.pid.toNat :: hc :: 0 ::
      UInt8.ofNat elem.length :: (elem ++ sc :: rest)) 8 (10 + elem.length) = 0 :: UInt8.ofNat elem.length :: elem := by
      simp [slice, Nat.add_comm 10]
    have h2 : (235 :: q0 :: q1 :: q2 :: q3 :: UInt8.ofNat o.vid.toNat :: UInt8.ofNat o.pid.toNat :: hc :: 0 ::
      UInt8.ofNat elem.length :: (elem ++ sc :: rest)).getD (10 + elem.length) 0 = sc := by
      simp [Nat.add_comm 10, List.getD_eq_getElem?_getD]
    rw [h1, h2, ← hsc, ofNat_toNat_of_lt (Nat.mod_lt _ (by decide))]
    simp
  simp only [hhok, hsok, if_true, hslice [] _]
  have hnd' : ((o.elements.reverse).map (·.1)).Nodup := by
    rw [List.map_reverse]
    exact List.pairwise_reverse.mpr (List.Pairwise.imp (fun h => Ne.symm h) hnd)
  rw [owTlv_encode _ _ [] _ helem (Nat.le_refl _) hnd' (by simp)]
  simp only [List.nil_append, slice, List.getD_cons_zero, List.getD_cons_succ, List.take_succ_cons, List.take_zero,
    List.drop_succ_cons, List.drop_zero, hpins]
  rw [ofNat_toNat_of_lt (by omega), ofNat_toNat_of_lt (by omega)]

theorem ow_valid_iff_aux (m : Mem) (hL : 11 + owSectLen m ≤ m.length) (r : OWParsed) (h : owUpdate m = .ok r) :
    r.valid = true ↔ owHdrOK m = true ∧ owSectOK m = true := by
  rw [owUpdate_eq_decode m hL] at h
  unfold owDecode at h
  cases hh : owHdrOK m
  · simp only [hh] at h; cases h; simp
  · cases hs : owSectOK m
    · simp only [hh, hs] at h; cases h; simp
    · simp only [hh, hs, if_true] at h
      split at h
      · cases h; simp
      · cases h
def owSectLenOf (es : Dict (List Nat)) : Nat := (es.map fun p => 2 + p.2.length).sum

theorem packB_nat {n : Nat} (h : n < 256) : packOne .B (.int (n : Int)) = .ok [UInt8.ofNat n] := by
  have := packB_total (v := (n : Int)) (by omega) (by omega)
  simpa using this

theorem pack_BB_nat {a b : Nat} (ha : a < 256) (hb : b < 256) :
    pack [.B, .B] [.int (a : Int), .int (b : Int)] = .ok [UInt8.ofNat a, UInt8.ofNat b] := by
  have := pack_cons_total (by decide) (packB_nat ha) (pack_cons_total (cs := []) (vs := []) (by decide) (packB_nat hb) rfl)
  simpa using this

theorem pack_B_nat {a : Nat} (ha : a < 256) : pack [.B] [.int (a : Int)] = .ok [UInt8.ofNat a] := by
  have := pack_cons_total (cs := []) (vs := []) (by decide) (packB_nat ha) rfl
  simpa using this

theorem owEncodeElems_total : ∀ (es : Dict (List Nat)),
    (∀ p ∈ es, p.1 ∈ Gen.C14.owIds ∧ p.2.length < 256 ∧ ∀ c ∈ p.2, c < 256) →
    ∃ bs, owEncodeElems es = .ok bs ∧ bs.length = owSectLenOf es
  | [], _ => ⟨[], rfl, rfl⟩
  | (k, s) :: rest, h => by
    obtain ⟨hk, hl, hc⟩ := h (k, s) (by simp)
    obtain ⟨r, hr, hrl⟩ := owEncodeElems_total rest (fun p hp => h p (by simp [hp]))
    have hk256 : k < 256 := by
      rw [gen_owIds] at hk
      simp at hk; omega
    have hcont : Gen.C14.owIds.contains k = true := List.contains_iff_mem.mpr hk
    have henc : encodeLatin1 s = .ok (s.map UInt8.ofNat) := by
      unfold encodeLatin1
      rw [if_pos]
      rw [List.all_eq_true]
      intro c hc'
      simpa using hc c hc'
    refine ⟨[UInt8.ofNat k, UInt8.ofNat s.length] ++ s.map UInt8.ofNat ++ r, ?_, ?_⟩
    · simp only [owEncodeElems, fmt_owWKeyLen, hcont, not_true_eq_false, if_false, pack_BB_nat hk256 hl, henc, hr, bind, Except.bind,
        pure, Except.pure]
    · simp [owSectLenOf, hrl]; omega

/-- `write_data` produces an image for EVERY representable content -/
theorem ow_image_total_aux (o : OWData) (hp : 0 ≤ o.pins ∧ o.pins < 2 ^ 32) (hv : 0 ≤ o.vid ∧ o.vid < 256) (hi : 0 ≤ o.pid ∧ o.pid < 256)
    (he : ∀ p ∈ o.elements, p.1 ∈ Gen.C14.owIds ∧ p.2.length < 256 ∧ ∀ c ∈ p.2, c < 256)
    (hs : owSectLenOf o.elements < 256) :
    ∃ img, owImage o = .ok img ∧ img.length = 11 + owSectLenOf o.elements := by
  obtain ⟨elem, helem, hel⟩ := owEncodeElems_total o.elements.reverse (fun p hp' => he p (by simpa using hp'))
  have hrev : owSectLenOf o.elements.reverse = owSectLenOf o.elements := by
    simp [owSectLenOf, List.map_reverse, List.sum_reverse]
  rw [hrev] at hel
  obtain ⟨pn, hpe⟩ := Int.eq_ofNat_of_zero_le hp.1
  have hpn : pn < 2 ^ 32 := by have := hp.2; omega
  have hhdr := pack_cons_total (by decide) (packB_nat (n := 0xEB) (by decide))
    (pack_cons_total (by decide) (packI_total hpn)
      (pack_cons_total (by decide) (packB_total hv.1 hv.2)
        (pack_cons_total (cs := []) (vs := []) (by decide) (packB_total hi.1 hi.2) rfl)))
  have hmod : ∀ l : List UInt8, crc32 l % 256 < 256 := fun l => Nat.mod_lt _ (by decide)
  unfold owImage
  simp only [fmt_owWHdr, fmt_owWHdrCrc, fmt_owWArea, fmt_owWAreaCrc, gen_owMasks.1, gen_owMasks.2.1, and255, gen_owMagic.2,
    bind, Except.bind]
  rw [hpe, show ((235 : Nat) : Int) = ((0xEB : Nat) : Int) from rfl, hhdr]
  simp only [pack_B_nat (hmod _), helem]
  rw [show (0 : Int) = ((0 : Nat) : Int) from rfl, pack_BB_nat (by decide) (by omega)]
  exact ⟨_, rfl, by simp [hel]; omega⟩
end CfVerif.C14

/- Proofs/C14State — long-lived element objects: what a completed update() reports does not depend on the history. -/
import CfVerif.Proofs.C14Ow
namespace CfVerif.C14
open CfVerif

theorem gen_i2cInit : Gen.C14.i2cUpdateInit.contains "self._update_finished_cb = update_finished_cb" = true ∧
    Gen.C14.i2cUpdateInit.contains "self.valid = False" = true := by decide

/-- on each of the three paths that end an update the callback fires and the pending record is cleared -/
theorem i2c_cb_done (s : I2CObj) (h : s.pending = true) : s.callback i2cPathDone = ({ s with pending := false }, [.done]) := by
  unfold I2CObj.callback; rw [if_pos h, gen_i2c_paths.2.2.2.2.1, gen_i2c_paths.2.2.2.2.2]; rfl
theorem i2c_cb_bad (s : I2CObj) (h : s.pending = true) : s.callback i2cPathBadToken = ({ s with pending := false }, [.done]) := by
  unfold I2CObj.callback; rw [if_pos h, gen_i2c_paths.2.2.1, gen_i2c_paths.2.2.2.1]; rfl
theorem i2c_cb_unk (s : I2CObj) (h : s.pending = true) : s.callback i2cPathUnknown = ({ s with pending := false }, [.done]) := by
  unfold I2CObj.callback; rw [if_pos h, gen_i2c_paths.1, gen_i2c_paths.2.1]; rfl

theorem gen_i2c_unk_mem : i2cPathUnknown ∈ Gen.C14.i2cCbCalls := List.contains_iff_mem.mp gen_i2c_paths.1

/-- the object right after `update()` on a non-pending object -/
theorem i2cStep_update (s : I2CObj) (hs : s.pending = false) :
    i2cStep s .update = .ok ({ s with pending := true, valid := false }, [.read 0 16]) := by
  unfold i2cStep
  simp only [hs, gen_i2cInit.1, gen_i2cInit.2, gen_i2cRead1, Bool.false_eq_true, not_false_eq_true, if_true, Bool.true_or,
    List.getD_cons_zero, List.getD_cons_succ]

theorem unpack_cons_ok {c : Code} {cs : Fmt} {bs : List UInt8} {vals : List Val} (htv : c.takesVal = true)
    (h : unpack (c :: cs) bs = .ok vals) :
    ∃ r, vals = unpackOne c (bs.take c.size) :: r ∧ unpack cs (bs.drop c.size) = .ok r := by
  rw [unpack] at h
  split at h
  · cases h
  · simp only [bind, Except.bind, htv, if_true] at h
    split at h
    · cases h
    · rename_i r hr; cases h; exact ⟨r, rfl, hr⟩

theorem unpack_nil_ok {bs : List UInt8} {vals : List Val} (h : unpack [] bs = .ok vals) : vals = [] := by
  cases bs with
  | nil => cases h; rfl
  | cons a t => cases h

theorem unpack_hdr_shape {bs : List UInt8} {vals : List Val} (h : unpack [.B, .B, .B, .f, .f] bs = .ok vals) :
    ∃ v ch sp : Int, ∃ p r : Nat, vals = [.int v, .int ch, .int sp, .flt p, .flt r] := by
  obtain ⟨r0, rfl, h0⟩ := unpack_cons_ok rfl h
  obtain ⟨r1, rfl, h1⟩ := unpack_cons_ok rfl h0
  obtain ⟨r2, rfl, h2⟩ := unpack_cons_ok rfl h1
  obtain ⟨r3, rfl, h3⟩ := unpack_cons_ok rfl h2
  obtain ⟨r4, rfl, h4⟩ := unpack_cons_ok rfl h3
  have := unpack_nil_ok h4; subst this
  exact ⟨_, _, _, _, _, rfl⟩

theorem unpack_BI_shape {bs : List UInt8} {vals : List Val} (h : unpack [.B, .I] bs = .ok vals) :
    ∃ up lo : Int, vals = [.int up, .int lo] := by
  obtain ⟨r0, rfl, h0⟩ := unpack_cons_ok rfl h
  obtain ⟨r1, rfl, h1⟩ := unpack_cons_ok rfl h0
  have := unpack_nil_ok h1; subst this
  exact ⟨_, _, rfl⟩

/-- everything an `update()` leaves on the object, for ANY prior state: explicit in the prior state and the two reads -/
def i2cAfter (s : I2CObj) (d0 d1 : List UInt8) : Except PyErr (I2CObj × Bool) :=
  if slice d0 0 4 = eepromToken then
    match unpack (parseFmt! Gen.C14.i2cHdrFmt) (slice d0 4 15) with
    | .error e => .error e
    | .ok [.int v, .int ch, .int sp, .flt p, .flt r] =>
      if v = 0 then
        .ok ({ s with fields := some (v, ch, sp, p, r), valid := (i2cFinish d0 (v, ch, sp, p, r) none).valid, pending := false }, true)
      else if v = 1 then
        match unpack (parseFmt! Gen.C14.i2cAddrFmt) (slice d0 15 16 ++ slice d1 0 4) with
        | .error e => .error e
        | .ok [.int up, .int lo] =>
          .ok ({ fields := some (v, ch, sp, p, r), address := some (Gen.C14.i2cAddrJoin up.toNat lo.toNat : Nat),
                 valid := (i2cFinish (d0 ++ d1) (v, ch, sp, p, r) none).valid, pending := false, datav0 := some d0 }, true)
        | .ok _ => .error .valueError
      else .ok ({ s with fields := some (v, ch, sp, p, r), valid := false, pending := false }, true)
    | .ok _ => .error .valueError
  else .ok ({ s with valid := false, pending := false }, true)

theorem i2cRunUpdate_eq (s : I2CObj) (hs : s.pending = false) (m0 m1 : Mem) :
    i2cRunUpdate s m0 m1 = i2cAfter s (m0.read 0 16) (m1.read 16 5) := by
  unfold i2cRunUpdate
  rw [i2cStep_update s hs]
  simp only [i2cServe]
  unfold i2cAfter
  simp only [i2cStep, if_true]
  by_cases ht : slice (m0.read 0 16) 0 4 = eepromToken
  · simp only [ht, if_true]
    cases hu : unpack (parseFmt! Gen.C14.i2cHdrFmt) (slice (m0.read 0 16) 4 15) with
    | error e => rfl
    | ok vals =>
      rw [fmt_i2cHdr] at hu
      obtain ⟨v, ch, sp, p, r, rfl⟩ := unpack_hdr_shape hu
      simp only
      by_cases h0 : v = 0
      · simp only [h0, if_true]
        cases hv : (i2cFinish (m0.read 0 16) (0, ch, sp, p, r) none).valid <;> simp [i2cServe, i2c_cb_done]
      · simp only [h0, if_false]
        by_cases h1 : v = 1
        · simp only [h1, if_true, gen_i2cRead2, List.getD_cons_zero, List.getD_cons_succ, List.nil_append, i2cServe, i2cStep]
          have h16 : ¬ ((16 : Nat) = 0) := by decide
          simp only [h16, if_false, if_true]
          cases hu2 : unpack (parseFmt! Gen.C14.i2cAddrFmt) (slice (m0.read 0 16) 15 16 ++ slice (m1.read 16 5) 0 4) with
          | error e => rfl
          | ok vals2 =>
            rw [fmt_i2cAddr] at hu2
            obtain ⟨up, lo, rfl⟩ := unpack_BI_shape hu2
            simp only [i2cFinish]
            cases hv : (checksum256 (List.take ((m0.read 0 16 ++ m1.read 16 5).length - 1) (m0.read 0 16 ++ m1.read 16 5)) ==
              ((m0.read 0 16 ++ m1.read 16 5).getD ((m0.read 0 16 ++ m1.read 16 5).length - 1) 0).toNat) <;> simp [i2cServe, i2c_cb_done]
        · simp [h1, i2cServe, gen_i2c_unk_mem, i2c_cb_unk]
  · simp [ht, i2cServe, i2c_cb_bad]

theorem i2cAfter_report (s s' : I2CObj) (d0 d1 : List UInt8) :
    (i2cAfter s d0 d1).map I2CObj.report = (i2cAfter s' d0 d1).map I2CObj.report := by
  unfold i2cAfter
  by_cases ht : slice d0 0 4 = eepromToken
  · simp only [ht, if_true]
    cases hu : unpack (parseFmt! Gen.C14.i2cHdrFmt) (slice d0 4 15) with
    | error e => rfl
    | ok vals =>
      rw [fmt_i2cHdr] at hu
      obtain ⟨v, ch, sp, p, r, rfl⟩ := unpack_hdr_shape hu
      simp only
      by_cases h0 : v = 0
      · have h01 : ¬ ((0 : Int) = 1) := by decide
        simp only [h0, if_true, Except.map, I2CObj.report, h01, if_false, Option.map_some]
      · simp only [h0, if_false]
        by_cases h1 : v = 1
        · simp only [h1, if_true]
        · simp only [h1, if_false, Except.map, I2CObj.report, Bool.false_eq_true, if_false]
  · simp only [ht, if_false, Except.map, I2CObj.report, Bool.false_eq_true, if_false]

/-- the observable result of a completed read, in the vocabulary of the single-shot parser -/
def I2CObj.parsed (r : I2CObj × Bool) : I2CParsed := ⟨r.1.fields, r.1.address.map Int.toNat, r.1.valid, r.2⟩

theorem i2cAfter_fresh (m : Mem) :
    (i2cAfter I2CObj.fresh (m.read 0 16) (m.read 16 5)).map I2CObj.parsed = i2cUpdate m := by
  unfold i2cAfter i2cUpdate
  simp only [gen_i2cRead1, gen_i2cRead2, List.getD_cons_zero, List.getD_cons_succ]
  by_cases ht : slice (m.read 0 16) 0 4 = eepromToken
  · simp only [ht, if_true]
    cases hu : unpack (parseFmt! Gen.C14.i2cHdrFmt) (slice (m.read 0 16) 4 15) with
    | error e => rfl
    | ok vals =>
      rw [fmt_i2cHdr] at hu
      obtain ⟨v, ch, sp, p, r, rfl⟩ := unpack_hdr_shape hu
      simp only
      by_cases h0 : v = 0
      · simp [h0, Except.map, I2CObj.parsed, I2CObj.fresh, i2cFinish]
      · simp only [h0, if_false]
        by_cases h1 : v = 1
        · simp only [h1, if_true]
          cases hu2 : unpack (parseFmt! Gen.C14.i2cAddrFmt) (slice (m.read 0 16) 15 16 ++ slice (m.read 16 5) 0 4) with
          | error e => rfl
          | ok vals2 =>
            rw [fmt_i2cAddr] at hu2
            obtain ⟨up, lo, rfl⟩ := unpack_BI_shape hu2
            simp [Except.map, I2CObj.parsed, i2cFinish]
        · simp [h1, Except.map, I2CObj.parsed, I2CObj.fresh, gen_i2c_unk_mem]
  · simp [ht, Except.map, I2CObj.parsed, I2CObj.fresh]
theorem gen_owInit : Gen.C14.owUpdateInit.contains "self._update_finished_cb = update_finished_cb" = true ∧
    Gen.C14.owUpdateInit.contains "self.valid = False" = true ∧
    Gen.C14.owUpdateInit.contains "self.elements = {}" = true := by decide

set_option maxRecDepth 16384 in
theorem gen_ow_paths : Gen.C14.owCbCalls.contains owPathShortcut = true ∧ Gen.C14.owCbClears.contains owPathShortcut = true ∧
    Gen.C14.owCbCalls.contains owPathBadHeader = true ∧ Gen.C14.owCbClears.contains owPathBadHeader = true ∧
    Gen.C14.owCbCalls.contains owPathSection = true ∧ Gen.C14.owCbClears.contains owPathSection = true := by decide

theorem ow_cb_shortcut (s : OWObj) (h : s.pending = true) : s.callback owPathShortcut = ({ s with pending := false }, [.done]) := by
  unfold OWObj.callback; rw [if_pos h, gen_ow_paths.1, gen_ow_paths.2.1]; rfl
theorem ow_cb_bad (s : OWObj) (h : s.pending = true) : s.callback owPathBadHeader = ({ s with pending := false }, [.done]) := by
  unfold OWObj.callback; rw [if_pos h, gen_ow_paths.2.2.1, gen_ow_paths.2.2.2.1]; rfl
theorem ow_cb_section (s : OWObj) (h : s.pending = true) : s.callback owPathSection = ({ s with pending := false }, [.done]) := by
  unfold OWObj.callback; rw [if_pos h, gen_ow_paths.2.2.2.2.1, gen_ow_paths.2.2.2.2.2]; rfl

theorem owStep_update (s : OWObj) (hs : s.pending = false) :
    owStep s .update = .ok ({ s with pending := true, valid := false, elements := [] }, [.read 0 11]) := by
  unfold owStep
  simp only [hs, gen_owInit.1, gen_owInit.2.1, gen_owInit.2.2, gen_owRead1, Bool.false_eq_true, not_false_eq_true, if_true,
    Bool.true_or, List.getD_cons_zero, List.getD_cons_succ]

/-- the reply to the first read does not look at the identity fields of the object -/
theorem owStep_newData0_congr (p v i p' v' i' : Option Nat) (e : Dict (List UInt8)) (va pe : Bool) (d : List UInt8) :
    owStep ⟨p, v, i, e, va, pe⟩ (.newData 0 d) = owStep ⟨p', v', i', e, va, pe⟩ (.newData 0 d) := by
  simp only [owStep, if_true, OWObj.callback]

/-- With the state re-initialised by `update()`, everything the object holds after the read - identity fields,
elements, validity, pending flag - and whether the callback fired is the same as on a brand-new object. -/
theorem ow_update_history_free_aux (s : OWObj) (hs : s.pending = false) (m0 m1 : Mem) :
    owRunUpdate s m0 m1 = owRunUpdate OWObj.fresh m0 m1 := by
  unfold owRunUpdate
  rw [owStep_update s hs, owStep_update OWObj.fresh rfl]
  simp only [owServe]
  obtain ⟨p, v, i, e, va, pe⟩ := s
  rw [owStep_newData0_congr p v i none none none]
  rfl

def OWObj.parsed (r : OWObj × Bool) : OWParsed :=
  ⟨r.1.pins.getD 0, r.1.vid.getD 0, r.1.pid.getD 0, r.1.elements, r.1.valid, r.2⟩

theorem unpack_BB_shape {bs : List UInt8} {vals : List Val} (h : unpack [.B, .B] bs = .ok vals) :
    ∃ a b : Int, vals = [.int a, .int b] := by
  rw [unpack] at h
  split at h
  · cases h
  · simp only [bind, Except.bind] at h
    split at h
    · cases h
    · rename_i r hr
      rw [unpack] at hr
      split at hr
      · cases hr
      · simp only [bind, Except.bind] at hr
        split at hr
        · cases hr
        · rename_i r2 hr2
          have : r2 = [] := by
            cases hd : List.drop Code.B.size (List.drop Code.B.size bs) with
            | nil => rw [hd] at hr2; cases hr2; rfl
            | cons a t => rw [hd] at hr2; cases hr2
          subst this
          cases hr; cases h
          exact ⟨_, _, rfl⟩

theorem owStage2_stateful (m : Mem) (pins vid pid : Nat) (len : Nat) :
    Except.map OWObj.parsed (match owStep ⟨some pins, some vid, some pid, [], false, true⟩ (.newData 8 (m.read 8 (len + 3))) with
      | .error e => (Except.error e : Except PyErr (OWObj × Bool))
      | .ok (s', outs) => owServe 2 s' outs [] false) = owStage2 m pins vid pid len := by
  unfold owStage2
  rw [gen_owRead2.1, gen_owRead2.2]
  have h80 : ¬ ((8 : Nat) = 0) := by decide
  simp only [owStep, h80, if_false, if_true]
  cases he : owElements (m.read 8 (len + 3)) [] with
  | error e => rfl
  | ok o =>
    cases o with
    | none => simp [ow_cb_section, owServe, Except.map, OWObj.parsed]
    | some d => simp [ow_cb_section, owServe, Except.map, OWObj.parsed]

theorem owRunUpdate_fresh (m : Mem) : (owRunUpdate OWObj.fresh m m).map OWObj.parsed = owUpdate m := by
  unfold owRunUpdate owUpdate
  rw [owStep_update OWObj.fresh rfl]
  simp only [owServe, gen_owRead1, List.getD_cons_zero, List.getD_cons_succ, OWObj.fresh]
  simp only [owStep, if_true]
  cases hh : owHeader (slice (m.read 0 11) 0 8) with
  | error e => rfl
  | ok r =>
    obtain ⟨pins, vid, pid, ok⟩ := r
    cases ok with
    | false => simp [ow_cb_bad, owServe, Except.map, OWObj.parsed]
    | true =>
      simp only [if_true]
      cases hu : unpack (parseFmt! Gen.C14.owLenFmt) (slice (m.read 0 11) 8 10) with
      | error e => rfl
      | ok vals =>
        rw [fmt_owLen] at hu
        obtain ⟨a, b, rfl⟩ := unpack_BB_shape hu
        simp only
        have hst := owStage2_stateful m pins vid pid b.toNat
        rw [gen_owRead2.1, gen_owRead2.2]
        by_cases hb : b = 0
        · simp only [hb, if_true]
          cases he : owElements (slice (m.read 0 11) 8 11) [] with
          | error e => rfl
          | ok o =>
            cases o with
            | some d => simp [ow_cb_shortcut, owServe, Except.map, OWObj.parsed]
            | none =>
              simp only [List.nil_append, owServe]
              rw [hb] at hst
              exact hst
        · simp only [hb, if_false, List.nil_append, owServe]
          exact hst

/-! transfer lemmas -/
theorem map_eq_ok {α β} {f : α → β} {a b : Except PyErr α} {y : α} (h : a.map f = b.map f) (hb : b = .ok y) :
    ∃ x, a = .ok x ∧ f x = f y := by
  subst hb
  cases a with
  | error e => cases h
  | ok x => exact ⟨x, rfl, by simpa [Except.map] using h⟩

theorem i2c_reupdate_aux (s : I2CObj) (hs : s.pending = false) (m : Mem) (hm : 21 ≤ m.length) :
    ∃ r, i2cRunUpdate s m m = .ok r ∧ r.1.valid = (i2cDecode m).valid ∧ r.2 = (i2cDecode m).called ∧
      (r.1.valid = true → r.1.fields = (i2cDecode m).fields ∧
        (∀ f, r.1.fields = some f → f.1 = 1 → r.1.address.map Int.toNat = (i2cDecode m).address)) := by
  have hf := i2cAfter_fresh m
  rw [i2cUpdate_eq_decode m hm] at hf
  cases hfr : i2cAfter I2CObj.fresh (m.read 0 16) (m.read 16 5) with
  | error e => rw [hfr] at hf; cases hf
  | ok y =>
    rw [hfr] at hf
    have hy : I2CObj.parsed y = i2cDecode m := by simpa [Except.map] using hf
    have hrep := i2cAfter_report s I2CObj.fresh (m.read 0 16) (m.read 16 5)
    obtain ⟨x, hx, hxy⟩ := map_eq_ok hrep hfr
    refine ⟨x, by rw [i2cRunUpdate_eq s hs, hx], ?_⟩
    have hp : (I2CObj.parsed y).valid = y.1.valid ∧ (I2CObj.parsed y).called = y.2 ∧ (I2CObj.parsed y).fields = y.1.fields ∧
        (I2CObj.parsed y).address = y.1.address.map Int.toNat := ⟨rfl, rfl, rfl, rfl⟩
    rw [hy] at hp
    simp only [I2CObj.report, Prod.mk.injEq] at hxy
    obtain ⟨h1, h2, h3⟩ := hxy
    refine ⟨by rw [h2, hp.1], by rw [h1, hp.2.1], ?_⟩
    intro hv
    have hvy : y.1.valid = true := by rw [← h2]; exact hv
    rw [if_pos hv, if_pos hvy] at h3
    cases hxf : x.1.fields with
    | none =>
      rw [hxf] at h3
      cases hyf : y.1.fields with
      | none => rw [hp.2.2.1, hyf]; exact ⟨rfl, fun f hf => by cases hf⟩
      | some g => rw [hyf] at h3; cases h3
    | some f =>
      rw [hxf] at h3
      cases hyf : y.1.fields with
      | none => rw [hyf] at h3; cases h3
      | some g =>
        rw [hyf] at h3
        simp only [Option.map_some, Option.some.injEq, Prod.mk.injEq] at h3
        obtain ⟨hfg, hadr⟩ := h3
        subst hfg
        refine ⟨by rw [hp.2.2.1, hyf], ?_⟩
        intro f' hf' h1'
        cases hf'
        rw [if_pos h1', if_pos h1'] at hadr
        rw [hadr, hp.2.2.2]

theorem ow_reupdate_aux (s : OWObj) (hs : s.pending = false) (m : Mem) :
    (owRunUpdate s m m).map OWObj.parsed = owUpdate m := by
  rw [ow_update_history_free_aux s hs, owRunUpdate_fresh]
theorem i2cAfter_ok_completes (s : I2CObj) (d0 d1 : List UInt8) (s' : I2CObj) (c : Bool)
    (h : i2cAfter s d0 d1 = .ok (s', c)) : c = true ∧ s'.pending = false := by
  unfold i2cAfter at h
  by_cases ht : slice d0 0 4 = eepromToken
  · simp only [ht, if_true] at h
    cases hu : unpack (parseFmt! Gen.C14.i2cHdrFmt) (slice d0 4 15) with
    | error e => rw [hu] at h; cases h
    | ok vals =>
      rw [hu] at h
      rw [fmt_i2cHdr] at hu
      obtain ⟨v, ch, sp, p, r, rfl⟩ := unpack_hdr_shape hu
      simp only at h
      by_cases h0 : v = 0
      · simp only [h0, if_true] at h; cases h; exact ⟨rfl, rfl⟩
      · simp only [h0, if_false] at h
        by_cases h1 : v = 1
        · simp only [h1, if_true] at h
          cases hu2 : unpack (parseFmt! Gen.C14.i2cAddrFmt) (slice d0 15 16 ++ slice d1 0 4) with
          | error e => rw [hu2] at h; cases h
          | ok vals2 =>
            rw [hu2] at h
            rw [fmt_i2cAddr] at hu2
            obtain ⟨up, lo, rfl⟩ := unpack_BI_shape hu2
            simp only at h; cases h; exact ⟨rfl, rfl⟩
        · simp only [h1, if_false] at h; cases h; exact ⟨rfl, rfl⟩
  · simp only [ht, if_false] at h; cases h; exact ⟨rfl, rfl⟩

theorem ow_fresh_ok_completes (m0 m1 : Mem) (s' : OWObj) (c : Bool)
    (h : owRunUpdate OWObj.fresh m0 m1 = .ok (s', c)) : c = true ∧ s'.pending = false := by
  unfold owRunUpdate at h
  rw [owStep_update OWObj.fresh rfl] at h
  simp only [owServe, OWObj.fresh] at h
  simp only [owStep, if_true] at h
  cases hh : owHeader (slice (m0.read 0 11) 0 8) with
  | error e => rw [hh] at h; cases h
  | ok r =>
    rw [hh] at h
    obtain ⟨pins, vid, pid, ok⟩ := r
    cases ok with
    | false =>
      simp [ow_cb_bad, owServe] at h
      obtain ⟨rfl, rfl⟩ := h; exact ⟨rfl, rfl⟩
    | true =>
      simp only [if_true] at h
      cases hu : unpack (parseFmt! Gen.C14.owLenFmt) (slice (m0.read 0 11) 8 10) with
      | error e => rw [hu] at h; cases h
      | ok vals =>
        rw [hu] at h
        rw [fmt_owLen] at hu
        obtain ⟨a, b, rfl⟩ := unpack_BB_shape hu
        simp only at h
        have h80 : ¬ ((8 : Nat) = 0) := by decide
        have stage2 : ∀ (sx : OWObj) (cx : Bool),
            (match owStep ⟨some pins, some vid, some pid, [], false, true⟩ (.newData Gen.C14.owRead2Addr (m1.read Gen.C14.owRead2Addr (Gen.C14.owRead2Len b.toNat))) with
              | .error e => (Except.error e : Except PyErr (OWObj × Bool))
              | .ok (s2, outs) => owServe 2 s2 outs [] false) = .ok (sx, cx) → cx = true ∧ sx.pending = false := by
          intro sx cx hx
          rw [gen_owRead2.1] at hx
          simp only [owStep, h80, if_false, if_true] at hx
          cases he : owElements (m1.read 8 (Gen.C14.owRead2Len b.toNat)) [] with
          | error e => rw [he] at hx; cases hx
          | ok o =>
            rw [he] at hx
            cases o with
            | none => simp [ow_cb_section, owServe] at hx; obtain ⟨rfl, rfl⟩ := hx; exact ⟨rfl, rfl⟩
            | some d => simp [ow_cb_section, owServe] at hx; obtain ⟨rfl, rfl⟩ := hx; exact ⟨rfl, rfl⟩
        by_cases hb : b = 0
        · simp only [hb, if_true] at h
          cases he : owElements (slice (m0.read 0 11) 8 11) [] with
          | error e => rw [he] at h; cases h
          | ok o =>
            rw [he] at h
            cases o with
            | some d => simp [ow_cb_shortcut, owServe] at h; obtain ⟨rfl, rfl⟩ := h; exact ⟨rfl, rfl⟩
            | none =>
              simp only [List.nil_append, owServe] at h
              rw [hb] at stage2
              exact stage2 s' c h
        · simp only [hb, if_false, List.nil_append, owServe] at h
          exact stage2 s' c h
end CfVerif.C14

/- Proofs/C14Yaml — helper lemmas for the YAML file theorems of Props/C14. -/
import CfVerif.Model.C14
namespace CfVerif.C14
open CfVerif

theorem len_succ' {α} {l : List α} {n} (h : l.length = n+1) : ∃ a t, l = a :: t ∧ t.length = n := by
  cases l with
  | nil => cases h
  | cons a t => exact ⟨a, t, rfl, by simpa using h⟩

theorem insEntry_map {α β} (h : α → β) (e : Key × α) (l : List (Key × α)) :
    (insEntry e l).map (fun p => (p.1, h p.2)) = insEntry (e.1, h e.2) (l.map fun p => (p.1, h p.2)) := by
  induction l with
  | nil => rfl
  | cons f r ih =>
    simp only [insEntry, List.map_cons]
    split
    · simp [ih]
    · simp

theorem sortEntries_map {α β} (h : α → β) (l : List (Key × α)) :
    (sortEntries l).map (fun p => (p.1, h p.2)) = sortEntries (l.map fun p => (p.1, h p.2)) := by
  induction l with
  | nil => rfl
  | cons e r ih => simp only [sortEntries, List.map_cons, insEntry_map, ih]

theorem mapItems_ok {α} (f : Y → Except FileErr α) (g : Y → α) (l : List (Key × Y)) (h : ∀ p ∈ l, f p.2 = .ok (g p.2)) :
    mapItems f l = .ok (l.map fun p => (p.1, g p.2)) := by
  induction l with
  | nil => rfl
  | cons e r ih =>
    obtain ⟨k, v⟩ := e
    simp only [mapItems, bind, Except.bind, h (k, v) (by simp), ih (fun p hp => h p (by simp [hp])), List.map_cons, pure, Except.pure]

theorem mem_insEntry {α} (e : Key × α) (l : List (Key × α)) (p : Key × α) : p ∈ insEntry e l ↔ p = e ∨ p ∈ l := by
  induction l with
  | nil => simp [insEntry]
  | cons f r ih =>
    simp only [insEntry]
    split
    · simp only [List.mem_cons, ih]
      constructor
      · rintro (h | h | h) <;> simp [h]
      · rintro (h | h | h) <;> simp [h]
    · simp

theorem mem_sortEntries {α} (l : List (Key × α)) (p : Key × α) : p ∈ sortEntries l ↔ p ∈ l := by
  induction l with
  | nil => simp [sortEntries]
  | cons e r ih => simp [sortEntries, mem_insEntry, ih]

theorem canonEntries_map {α} (l : List α) (k : α → Key) (v : α → Y) :
    canonEntries (l.map fun a => (k a, v a)) = l.map fun a => (k a, (v a).canon) := by
  induction l with
  | nil => rfl
  | cons a r ih => simp only [List.map_cons, canonEntries, ih]

-- concrete: geometry object
theorem gen_lhfGeoIds : Gen.C14.lhfGeoIds = ["origin", "rotation"] := by decide
theorem sort_geo_keys : sortEntries [((Key.str "origin"), (0 : Nat)), (.str "rotation", 1)] = [(.str "origin", 0), (.str "rotation", 1)] := by decide

theorem FGeo_canon (g : FGeo) : g.asFile.canon = .dict [(.str "origin", g.origin.canon), (.str "rotation", g.rotation.canon)] := by
  have h := sortEntries_map (fun i : Nat => [g.origin.canon, g.rotation.canon].getD i Y.null) [((Key.str "origin"), (0 : Nat)), (.str "rotation", 1)]
  rw [sort_geo_keys] at h
  simp only [List.map_cons, List.map_nil, List.getD_cons_zero, List.getD_cons_succ] at h
  simp only [FGeo.asFile, gen_lhfGeoIds, List.getD_cons_zero, List.getD_cons_succ, Y.canon, canonEntries]
  rw [← h]

theorem FGeo_roundtrip (g : FGeo) : FGeo.fromFile g.asFile.canon = .ok ⟨g.origin.canon, g.rotation.canon, true⟩ := by
  rw [FGeo_canon]
  simp [FGeo.fromFile, gen_lhfGeoIds, Y.getStr, dlookup, bind, Except.bind, pure, Except.pure]

/-! sweeps and calibration objects -/
theorem gen_lhfSweepIds : Gen.C14.lhfSweepIds = ["phase", "tilt", "curve", "gibmag", "gibphase", "ogeemag", "ogeephase"] := by decide
theorem gen_lhfCalibIds : Gen.C14.lhfCalibIds = ["sweeps", "uid"] := by decide

theorem sort_sweep_keys : sortEntries [((Key.str "phase"), (0 : Nat)), (.str "tilt", 1), (.str "curve", 2), (.str "gibmag", 3),
      (.str "gibphase", 4), (.str "ogeemag", 5), (.str "ogeephase", 6)] =
    [(.str "curve", 2), (.str "gibmag", 3), (.str "gibphase", 4), (.str "ogeemag", 5), (.str "ogeephase", 6), (.str "phase", 0),
     (.str "tilt", 1)] := by decide

theorem FSweep_canon (a b c d e f g : Y) : (FSweep.asFile ⟨[a, b, c, d, e, f, g]⟩).canon =
    .dict [(.str "curve", c.canon), (.str "gibmag", d.canon), (.str "gibphase", e.canon), (.str "ogeemag", f.canon),
      (.str "ogeephase", g.canon), (.str "phase", a.canon), (.str "tilt", b.canon)] := by
  have h := sortEntries_map (fun i : Nat => [a.canon, b.canon, c.canon, d.canon, e.canon, f.canon, g.canon].getD i Y.null)
    [((Key.str "phase"), (0 : Nat)), (.str "tilt", 1), (.str "curve", 2), (.str "gibmag", 3), (.str "gibphase", 4),
     (.str "ogeemag", 5), (.str "ogeephase", 6)]
  rw [sort_sweep_keys] at h
  simp only [List.map_cons, List.map_nil, List.getD_cons_zero, List.getD_cons_succ] at h
  simp only [FSweep.asFile, gen_lhfSweepIds, List.zip_cons_cons, List.zip_nil_right, List.map_cons, List.map_nil, Y.canon, canonEntries]
  rw [← h]

def FSweep.canon (s : FSweep) : FSweep := ⟨s.f.map Y.canon⟩

theorem FSweep_roundtrip (s : FSweep) (h7 : s.f.length = 7) : FSweep.fromFile s.asFile.canon = .ok s.canon := by
  obtain ⟨l⟩ := s
  simp only at h7
  obtain ⟨a, t1, rfl, h1⟩ := len_succ' h7
  obtain ⟨b, t2, rfl, h2⟩ := len_succ' h1
  obtain ⟨c, t3, rfl, h3⟩ := len_succ' h2
  obtain ⟨d, t4, rfl, h4⟩ := len_succ' h3
  obtain ⟨e, t5, rfl, h5⟩ := len_succ' h4
  obtain ⟨f, t6, rfl, h6⟩ := len_succ' h5
  obtain ⟨g, t7, rfl, h7'⟩ := len_succ' h6
  have : t7 = [] := List.eq_nil_of_length_eq_zero h7'
  subst this
  rw [FSweep_canon]
  simp [FSweep.fromFile, FSweep.canon, gen_lhfSweepIds, Y.getStr, dlookup, bind, Except.bind, pure, Except.pure, List.mapM_cons]

def FCalib.canon (c : FCalib) : FCalib := ⟨c.s0.canon, c.s1.canon, c.uid.canon, true⟩

theorem sort_calib_keys : sortEntries [((Key.str "sweeps"), (0 : Nat)), (.str "uid", 1)] = [(.str "sweeps", 0), (.str "uid", 1)] := by decide

theorem FCalib_canon (c : FCalib) : c.asFile.canon =
    .dict [(.str "sweeps", .list [c.s0.asFile.canon, c.s1.asFile.canon]), (.str "uid", c.uid.canon)] := by
  have h := sortEntries_map (fun i : Nat => [Y.list [c.s0.asFile.canon, c.s1.asFile.canon], c.uid.canon].getD i Y.null)
    [((Key.str "sweeps"), (0 : Nat)), (.str "uid", 1)]
  rw [sort_calib_keys] at h
  simp only [List.map_cons, List.map_nil, List.getD_cons_zero, List.getD_cons_succ] at h
  simp only [FCalib.asFile, gen_lhfCalibIds, List.getD_cons_zero, List.getD_cons_succ, Y.canon, canonEntries, canonList]
  rw [← h]

theorem FCalib_roundtrip (c : FCalib) (h0 : c.s0.f.length = 7) (h1 : c.s1.f.length = 7) :
    FCalib.fromFile c.asFile.canon = .ok c.canon := by
  rw [FCalib_canon]
  simp only [FCalib.fromFile, gen_lhfCalibIds, List.getD_cons_zero, List.getD_cons_succ, Y.getStr, dlookup, bind, Except.bind,
    if_true, Y.getIdx, List.getElem?_cons_zero, List.getElem?_cons_succ, FSweep_roundtrip _ h0, FSweep_roundtrip _ h1]
  simp [FCalib.canon, pure, Except.pure]

/-! top level -/
theorem gen_lhf_consts : Gen.C14.lhfTypeId = "type" ∧ Gen.C14.lhfVersionId = "version" ∧ Gen.C14.lhfSystemTypeId = "systemType" ∧
    Gen.C14.lhfGeosId = "geos" ∧ Gen.C14.lhfCalibsId = "calibs" := by decide

theorem sort_top_keys : sortEntries [((Key.str "type"), (0 : Nat)), (.str "version", 1), (.str "systemType", 2), (.str "geos", 3),
      (.str "calibs", 4)] = [(.str "calibs", 4), (.str "geos", 3), (.str "systemType", 2), (.str "type", 0), (.str "version", 1)] := by
  decide

def geoEntries (geos : List (Int × FGeo)) : List (Key × FGeo) :=
  (geos.filter (·.2.valid)).map fun p => (Key.int p.1, (⟨p.2.origin.canon, p.2.rotation.canon, true⟩ : FGeo))
def calibEntries (calibs : List (Int × FCalib)) : List (Key × FCalib) :=
  (calibs.filter (·.2.valid)).map fun p => (Key.int p.1, p.2.canon)

theorem lhFileDoc_canon (geos : List (Int × FGeo)) (calibs : List (Int × FCalib)) (st : Y) :
    (lhFileDoc geos calibs st).canon = .dict [
      (.str "calibs", .dict (sortEntries ((calibs.filter (·.2.valid)).map fun p => (Key.int p.1, p.2.asFile.canon)))),
      (.str "geos", .dict (sortEntries ((geos.filter (·.2.valid)).map fun p => (Key.int p.1, p.2.asFile.canon)))),
      (.str "systemType", st.canon), (.str "type", .str Gen.C14.lhfType), (.str "version", .str Gen.C14.lhfVersion)] := by
  obtain ⟨c1, c2, c3, c4, c5⟩ := gen_lhf_consts
  have hg := canonEntries_map (geos.filter (·.2.valid)) (fun p => Key.int p.1) (fun p => p.2.asFile)
  have hc := canonEntries_map (calibs.filter (·.2.valid)) (fun p => Key.int p.1) (fun p => p.2.asFile)
  have h := sortEntries_map (fun i : Nat => [Y.str Gen.C14.lhfType, Y.str Gen.C14.lhfVersion, st.canon,
      Y.dict (sortEntries ((geos.filter (·.2.valid)).map fun p => (Key.int p.1, p.2.asFile.canon))),
      Y.dict (sortEntries ((calibs.filter (·.2.valid)).map fun p => (Key.int p.1, p.2.asFile.canon)))].getD i Y.null)
    [((Key.str "type"), (0 : Nat)), (.str "version", 1), (.str "systemType", 2), (.str "geos", 3), (.str "calibs", 4)]
  rw [sort_top_keys] at h
  simp only [List.map_cons, List.map_nil, List.getD_cons_zero, List.getD_cons_succ] at h
  simp only [lhFileDoc, c1, c2, c3, c4, c5, Y.canon, canonEntries]
  rw [hg, hc, ← h]

theorem lh_file_roundtrip_aux (geos : List (Int × FGeo)) (calibs : List (Int × FCalib)) (st : Y)
    (h7 : ∀ p ∈ calibs, p.2.s0.f.length = 7 ∧ p.2.s1.f.length = 7) :
    lhFileRead (lhFileDoc geos calibs st).canon =
      .ok (sortEntries (geoEntries geos), sortEntries (calibEntries calibs), st.canon) := by
  obtain ⟨c1, c2, c3, c4, c5⟩ := gen_lhf_consts
  rw [lhFileDoc_canon]
  have hgeo : mapItems FGeo.fromFile (sortEntries ((geos.filter (·.2.valid)).map fun p => (Key.int p.1, p.2.asFile.canon))) =
      .ok (sortEntries (geoEntries geos)) := by
    let E := (geos.filter (·.2.valid)).map fun p => (Key.int p.1, (⟨p.2.origin, p.2.rotation, true⟩ : FGeo))
    have e1 : ((geos.filter (·.2.valid)).map fun p => (Key.int p.1, p.2.asFile.canon)) = E.map fun p => (p.1, p.2.asFile.canon) := by
      simp only [E, List.map_map]; rfl
    have e2 : geoEntries geos = E.map fun p => (p.1, (⟨p.2.origin.canon, p.2.rotation.canon, true⟩ : FGeo)) := by
      simp only [E, geoEntries, List.map_map]; rfl
    have s1 := sortEntries_map (fun g : FGeo => g.asFile.canon) E
    have s2 := sortEntries_map (fun g : FGeo => (⟨g.origin.canon, g.rotation.canon, true⟩ : FGeo)) E
    rw [e1, e2, ← s1, ← s2]
    rw [mapItems_ok FGeo.fromFile (fun y => match FGeo.fromFile y with | .ok g => g | .error _ => ⟨.null, .null, false⟩)]
    · rw [List.map_map]
      congr 1
    · intro p hp
      obtain ⟨q, _, rfl⟩ := List.mem_map.mp hp
      simp only [FGeo_roundtrip]
  have hcal : mapItems FCalib.fromFile (sortEntries ((calibs.filter (·.2.valid)).map fun p => (Key.int p.1, p.2.asFile.canon))) =
      .ok (sortEntries (calibEntries calibs)) := by
    have e1 : ((calibs.filter (·.2.valid)).map fun p => (Key.int p.1, p.2.asFile.canon)) =
        ((calibs.filter (·.2.valid)).map fun p => (Key.int p.1, p.2)).map fun p => (p.1, p.2.asFile.canon) := by
      simp only [List.map_map]; rfl
    have e2 : calibEntries calibs = ((calibs.filter (·.2.valid)).map fun p => (Key.int p.1, p.2)).map fun p => (p.1, p.2.canon) := by
      simp only [calibEntries, List.map_map]; rfl
    have s1 := sortEntries_map (fun g : FCalib => g.asFile.canon) ((calibs.filter (·.2.valid)).map fun p => (Key.int p.1, p.2))
    have s2 := sortEntries_map (fun g : FCalib => g.canon) ((calibs.filter (·.2.valid)).map fun p => (Key.int p.1, p.2))
    rw [e1, e2, ← s1, ← s2]
    rw [mapItems_ok FCalib.fromFile (fun y => match FCalib.fromFile y with | .ok g => g | .error _ => ⟨⟨[]⟩, ⟨[]⟩, .null, false⟩)]
    · rw [List.map_map]
      congr 1
      apply List.map_congr_left
      intro p hp
      have hp' := (mem_sortEntries _ p).mp hp
      obtain ⟨q, hq, rfl⟩ := List.mem_map.mp hp'
      have := h7 q (List.mem_filter.mp hq).1
      simp only [Function.comp, FCalib_roundtrip _ this.1 this.2]
    · intro p hp
      obtain ⟨q, hq, rfl⟩ := List.mem_map.mp hp
      have hq' := (mem_sortEntries _ q).mp hq
      obtain ⟨r, hr, rfl⟩ := List.mem_map.mp hq'
      have := h7 r (List.mem_filter.mp hr).1
      simp only [FCalib_roundtrip _ this.1 this.2]
  simp only [lhFileRead, checkEnvelope, c1, c2, c3, c4, c5, Y.containsStr, Y.getStr, dlookup, Y.isStr, Y.items, bind, Except.bind,
    pure, Except.pure]
  simp only [Key.str.injEq, String.reduceEq, if_false, if_true, Option.isSome, beq_self_eq_true, not_true_eq_false]
  rw [hgeo]
  simp only
  rw [hcal]

/-! rejection branches (no assumption about PyYAML) -/
theorem gen_msgs : Gen.C14.lhfReadMessages = ["Type field missing", "Unsupported file type", "Version field missing", "Unsupported file version"] ∧
    Gen.C14.pfReadMessages = ["Type field missing", "Unsupported file type", "Version field missing", "Unsupported file version"] := by decide

theorem envelope_type_missing (l : List (Key × Y)) (tid t vid v : String) (msgs : List String)
    (h : dlookup l (.str tid) = none) : checkEnvelope (.dict l) tid t vid v msgs = .error (.msg (msgs.getD 0 "")) := by
  simp [checkEnvelope, Y.containsStr, h, bind, Except.bind]

theorem envelope_type_wrong (l : List (Key × Y)) (tid t vid v : String) (msgs : List String) (x : Y)
    (h : dlookup l (.str tid) = some x) (hx : x.isStr t = false) :
    checkEnvelope (.dict l) tid t vid v msgs = .error (.msg (msgs.getD 1 "")) := by
  simp [checkEnvelope, Y.containsStr, Y.getStr, h, hx, bind, Except.bind]

theorem envelope_version_missing (l : List (Key × Y)) (tid t vid v : String) (msgs : List String) (x : Y)
    (h : dlookup l (.str tid) = some x) (hx : x.isStr t = true) (hv : dlookup l (.str vid) = none) :
    checkEnvelope (.dict l) tid t vid v msgs = .error (.msg (msgs.getD 2 "")) := by
  simp [checkEnvelope, Y.containsStr, Y.getStr, h, hx, hv, bind, Except.bind]

theorem envelope_version_wrong (l : List (Key × Y)) (tid t vid v : String) (msgs : List String) (x y : Y)
    (h : dlookup l (.str tid) = some x) (hx : x.isStr t = true) (hv : dlookup l (.str vid) = some y) (hy : y.isStr v = false) :
    checkEnvelope (.dict l) tid t vid v msgs = .error (.msg (msgs.getD 3 "")) := by
  simp [checkEnvelope, Y.containsStr, Y.getStr, h, hx, hv, hy, bind, Except.bind]

theorem lhFileRead_of_envelope_error (data : Y) (e : FileErr)
    (h : checkEnvelope data Gen.C14.lhfTypeId Gen.C14.lhfType Gen.C14.lhfVersionId Gen.C14.lhfVersion Gen.C14.lhfReadMessages = .error e) :
    lhFileRead data = .error e := by
  simp [lhFileRead, h, bind, Except.bind]

theorem paramFileRead_of_envelope_error (data : Y) (e : FileErr)
    (h : checkEnvelope data Gen.C14.pfTypeId Gen.C14.pfType Gen.C14.pfVersionId Gen.C14.pfVersion Gen.C14.pfReadMessages = .error e) :
    paramFileRead data = .error e := by
  simp [paramFileRead, h, bind, Except.bind]

/-! persistent parameter file -/
theorem gen_pf_consts : Gen.C14.pfTypeId = "type" ∧ Gen.C14.pfVersionId = "version" ∧ Gen.C14.pfParamsId = "params" := by decide

def PState.canon (p : PState) : PState := ⟨p.isStored.canon, p.defaultValue.canon, p.storedValue.canon⟩

theorem sort_pstate_keys : sortEntries [((Key.str "is_stored"), (0 : Nat)), (.str "default_value", 1), (.str "stored_value", 2)] =
    [(.str "default_value", 1), (.str "is_stored", 0), (.str "stored_value", 2)] := by decide

theorem PState_canon (p : PState) : p.asFile.canon =
    .dict [(.str "default_value", p.defaultValue.canon), (.str "is_stored", p.isStored.canon), (.str "stored_value", p.storedValue.canon)] := by
  have h := sortEntries_map (fun i : Nat => [p.isStored.canon, p.defaultValue.canon, p.storedValue.canon].getD i Y.null)
    [((Key.str "is_stored"), (0 : Nat)), (.str "default_value", 1), (.str "stored_value", 2)]
  rw [sort_pstate_keys] at h
  simp only [List.map_cons, List.map_nil, List.getD_cons_zero, List.getD_cons_succ] at h
  simp only [PState.asFile, Y.canon, canonEntries]
  rw [← h]

theorem PState_roundtrip (p : PState) : PState.fromFile p.asFile.canon = .ok p.canon := by
  rw [PState_canon]
  simp [PState.fromFile, PState.canon, Y.getStr, dlookup, bind, Except.bind, pure, Except.pure]

theorem sort_pf_keys : sortEntries [((Key.str "type"), (0 : Nat)), (.str "version", 1), (.str "params", 2)] =
    [(.str "params", 2), (.str "type", 0), (.str "version", 1)] := by decide

def paramEntries (params : List (String × PState)) : List (Key × PState) := params.map fun p => (Key.str p.1, p.2.canon)

theorem param_file_roundtrip_aux (params : List (String × PState)) :
    paramFileRead (paramFileDoc params).canon = .ok (sortEntries (paramEntries params)) := by
  obtain ⟨c1, c2, c3⟩ := gen_pf_consts
  have hc := canonEntries_map params (fun p => Key.str p.1) (fun p => p.2.asFile)
  have h := sortEntries_map (fun i : Nat => [Y.str Gen.C14.pfType, Y.str Gen.C14.pfVersion,
      Y.dict (sortEntries (params.map fun p => (Key.str p.1, p.2.asFile.canon)))].getD i Y.null)
    [((Key.str "type"), (0 : Nat)), (.str "version", 1), (.str "params", 2)]
  rw [sort_pf_keys] at h
  simp only [List.map_cons, List.map_nil, List.getD_cons_zero, List.getD_cons_succ] at h
  have hdoc : (paramFileDoc params).canon = .dict [(.str "params", .dict (sortEntries (params.map fun p => (Key.str p.1, p.2.asFile.canon)))),
      (.str "type", .str Gen.C14.pfType), (.str "version", .str Gen.C14.pfVersion)] := by
    simp only [paramFileDoc, c1, c2, c3, Y.canon, canonEntries]
    rw [hc, ← h]
  have hitems : mapItems PState.fromFile (sortEntries (params.map fun p => (Key.str p.1, p.2.asFile.canon))) =
      .ok (sortEntries (paramEntries params)) := by
    have e1 : (params.map fun p => (Key.str p.1, p.2.asFile.canon)) =
        (params.map fun p => (Key.str p.1, p.2)).map fun p => (p.1, p.2.asFile.canon) := by
      simp only [List.map_map]; rfl
    have e2 : paramEntries params = (params.map fun p => (Key.str p.1, p.2)).map fun p => (p.1, p.2.canon) := by
      simp only [paramEntries, List.map_map]; rfl
    have s1 := sortEntries_map (fun g : PState => g.asFile.canon) (params.map fun p => (Key.str p.1, p.2))
    have s2 := sortEntries_map (fun g : PState => g.canon) (params.map fun p => (Key.str p.1, p.2))
    rw [e1, e2, ← s1, ← s2]
    rw [mapItems_ok PState.fromFile (fun y => match PState.fromFile y with | .ok g => g | .error _ => ⟨.null, .null, .null⟩)]
    · rw [List.map_map]
      congr 1
    · intro p hp
      obtain ⟨q, _, rfl⟩ := List.mem_map.mp hp
      simp only [PState_roundtrip]
  rw [hdoc]
  simp only [paramFileRead, checkEnvelope, c1, c2, c3, Y.containsStr, Y.getStr, dlookup, Y.isStr, Y.items, bind, Except.bind,
    pure, Except.pure]
  simp only [Key.str.injEq, String.reduceEq, if_false, if_true, Option.isSome, beq_self_eq_true, not_true_eq_false]
  rw [hitems]
end CfVerif.C14

/-
Proofs/C15Angles — real-number lemmas about LighthouseBsVector: V1 <-> V2 sweep angles (tilt T),
cartesian direction, image-plane projection.  Model terms are instantiated at ℝ (Proofs/C15Real).
-/
import CfVerif.Proofs.C15Real
namespace CfVerif.C15
open CfVerif

/-! ## trigonometric core -/

/-- `√(1 + tan² h) = 1 / cos h` when `cos h > 0` -/
theorem sqrt_one_add_tan_sq {h : ℝ} (hc : 0 < Real.cos h) : √(1 + Real.tan h ^ 2) = (Real.cos h)⁻¹ := by
  have e : 1 + Real.tan h ^ 2 = ((Real.cos h)⁻¹) ^ 2 := by
    have := Real.sin_sq_add_cos_sq h
    rw [Real.tan_eq_sin_div_cos]; field_simp; linarith
  rw [e, Real.sqrt_sq (inv_pos.mpr hc).le]

theorem cos_pos_of_abs_lt {h : ℝ} (hh : |h| < Real.pi / 2) : 0 < Real.cos h :=
  Real.cos_pos_of_mem_Ioo ⟨(abs_lt.mp hh).1, (abs_lt.mp hh).2⟩

/-- the vertical angle computed by `from_lh2` from the sweep angles `h ∓ β` -/
theorem lh2_vert_core {T h β : ℝ} (hT : 0 < Real.tan T) (hh : 0 < Real.cos h) (hβ : 0 < Real.cos β) :
    atan2R (Real.sin ((h + β) - (h - β))) (Real.tan T * (Real.cos (h - β) + Real.cos (h + β))) =
      Real.arctan (Real.sin β / (Real.tan T * Real.cos h)) := by
  have e1 : (h + β) - (h - β) = 2 * β := by ring
  have e2 : Real.cos (h - β) + Real.cos (h + β) = 2 * Real.cos h * Real.cos β := by
    rw [Real.cos_sub, Real.cos_add]; ring
  rw [e1, e2, Real.sin_two_mul]
  have hx : 0 < Real.tan T * (2 * Real.cos h * Real.cos β) := by positivity
  rw [atan2R_of_pos _ hx]
  congr 1
  field_simp

/-- `|tan v · cos h · tan T| < 1` in the field of view: both V2 sweeps exist -/
theorem v2_arg_bound {T h v : ℝ} (hT0 : 0 < T) (hT1 : T < Real.pi / 2) (hh : |h| < Real.pi / 2)
    (hv : |v| < Real.pi / 2 - T) :
    -1 < Real.tan v * Real.cos h * Real.tan T ∧ Real.tan v * Real.cos h * Real.tan T < 1 := by
  have hc := cos_pos_of_abs_lt hh
  have hc1 : Real.cos h ≤ 1 := Real.cos_le_one h
  have htT : 0 < Real.tan T := Real.tan_pos_of_pos_of_lt_pi_div_two hT0 hT1
  obtain ⟨hv1, hv2⟩ := abs_lt.mp hv
  have hpi := Real.pi_pos
  have u1 : Real.tan v < (Real.tan T)⁻¹ := by
    rw [← Real.tan_pi_div_two_sub]
    exact Real.tan_lt_tan_of_lt_of_lt_pi_div_two (by linarith) (by linarith) hv2
  have u2 : -(Real.tan T)⁻¹ < Real.tan v := by
    rw [← Real.tan_pi_div_two_sub, ← Real.tan_neg]
    exact Real.tan_lt_tan_of_lt_of_lt_pi_div_two (by linarith) (by linarith) hv1
  have w1 : Real.tan v * Real.tan T < 1 := by
    have := mul_lt_mul_of_pos_right u1 htT
    rwa [inv_mul_cancel₀ htT.ne'] at this
  have w2 : -1 < Real.tan v * Real.tan T := by
    have := mul_lt_mul_of_pos_right u2 htT
    rwa [neg_mul, inv_mul_cancel₀ htT.ne'] at this
  constructor
  · nlinarith [mul_pos hc htT]
  · nlinarith [mul_pos hc htT]

/-! ## the model's partial operations in the field of view -/

theorem q_real {h v : ℝ} (hc : 0 < Real.cos h) : (BsVec.mk h v).q = .ok (Real.tan v * Real.cos h) := by
  have h0 : (0:ℝ) ≤ 1 + Real.tan h ^ 2 := by positivity
  have h1 : √(1 + Real.tan h ^ 2) ≠ 0 := by rw [sqrt_one_add_tan_sq hc]; exact (inv_pos.mpr hc).ne'
  simp only [BsVec.q, Gen.C15.qExpr, nat_real, pow_real, tan_real, Nat.cast_one]
  rw [sqrtE_real_ok h0]
  simp only [bind, Except.bind]
  rw [divE_real_ok h1, sqrt_one_add_tan_sq hc]
  simp [div_eq_mul_inv]

theorem v2Angle1Expr_real {h q T : ℝ} (h1 : -1 ≤ q * Real.tan T) (h2 : q * Real.tan T ≤ 1) :
    Gen.C15.v2Angle1Expr h q T = .ok (h - Real.arcsin (q * Real.tan T)) := by
  simp only [Gen.C15.v2Angle1Expr, tan_real, Real.tan_neg, mul_neg]
  rw [asinE_real_ok (by linarith) (by linarith), Real.arcsin_neg]
  simp [bind, Except.bind, pure, Except.pure, sub_eq_add_neg]

theorem v2Angle2Expr_real {h q T : ℝ} (h1 : -1 ≤ q * Real.tan T) (h2 : q * Real.tan T ≤ 1) :
    Gen.C15.v2Angle2Expr h q T = .ok (h + Real.arcsin (q * Real.tan T)) := by
  simp only [Gen.C15.v2Angle2Expr, tan_real]
  rw [asinE_real_ok h1 h2]
  simp [bind, Except.bind, pure, Except.pure]

/-- the V2 sweep angles of a direction, for any tilt, whenever `|q · tan T| ≤ 1` -/
theorem v2_real {T h v : ℝ} (hc : 0 < Real.cos h)
    (h1 : -1 ≤ Real.tan v * Real.cos h * Real.tan T) (h2 : Real.tan v * Real.cos h * Real.tan T ≤ 1) :
    (do let q ← (BsVec.mk h v).q
        let a1 ← Gen.C15.v2Angle1Expr h q T
        let a2 ← Gen.C15.v2Angle2Expr h q T
        pure (a1, a2) : Except PyErr (ℝ × ℝ)) =
      .ok (h - Real.arcsin (Real.tan v * Real.cos h * Real.tan T), h + Real.arcsin (Real.tan v * Real.cos h * Real.tan T)) := by
  rw [q_real hc]
  simp only [bind, Except.bind]
  rw [v2Angle1Expr_real h1 h2, v2Angle2Expr_real h1 h2]
  rfl

theorem tilt_real : (tilt : ℝ) = Real.pi / 6 := by
  simp [tilt, Gen.C15.tilt]

theorem tilt_pos : 0 < (tilt : ℝ) := by rw [tilt_real]; positivity
theorem tilt_lt : (tilt : ℝ) < Real.pi / 2 := by rw [tilt_real]; linarith [Real.pi_pos]
theorem tan_tilt_pos : 0 < Real.tan (tilt : ℝ) := Real.tan_pos_of_pos_of_lt_pi_div_two tilt_pos tilt_lt

/-- `BsVec.v2` unfolded into one do-block -/
theorem v2_unfold (b : BsVec ℝ) :
    b.v2 = (do let q ← b.q
               let a1 ← Gen.C15.v2Angle1Expr b.h q tilt
               let a2 ← Gen.C15.v2Angle2Expr b.h q tilt
               pure (a1, a2)) := by
  simp only [BsVec.v2, BsVec.v2Angle1, BsVec.v2Angle2]
  cases hq : b.q with
  | error e => rfl
  | ok q => rfl

/-- V2 angles of a direction with `cos h > 0` and `|tan v · cos h · tan T| ≤ 1` -/
theorem v2_ok {h v : ℝ} (hc : 0 < Real.cos h)
    (h1 : -1 ≤ Real.tan v * Real.cos h * Real.tan tilt) (h2 : Real.tan v * Real.cos h * Real.tan tilt ≤ 1) :
    (BsVec.mk h v).v2 =
      .ok (h - Real.arcsin (Real.tan v * Real.cos h * Real.tan tilt), h + Real.arcsin (Real.tan v * Real.cos h * Real.tan tilt)) := by
  rw [v2_unfold]; exact v2_real hc h1 h2

/-- outside the domain (`tan v · cos h · tan T > 1` or `< -1`) the V2 angle raises `ValueError`, as `math.asin` does -/
theorem v2_err {h v : ℝ} (hc : 0 < Real.cos h)
    (hs : 1 < Real.tan v * Real.cos h * Real.tan tilt ∨ Real.tan v * Real.cos h * Real.tan tilt < -1) :
    (BsVec.mk h v).v2 = .error .valueError := by
  rw [v2_unfold, q_real hc]
  simp only [bind, Except.bind, Gen.C15.v2Angle1Expr, tan_real, Real.tan_neg, mul_neg]
  rw [asinE_real_err (by rcases hs with hs | hs <;> [right; left] <;> linarith)]

/-! ## V1 -> V2 -> V1 -/

theorem fromLh2_of_v2 {h v : ℝ} (hh : |h| < Real.pi / 2) (hv : |v| < Real.pi / 2 - tilt) :
    ∃ a1 a2, (BsVec.mk h v).v2 = .ok (a1, a2) ∧ BsVec.fromLh2 a1 a2 = ⟨h, v⟩ ∧
      |a1 + a2| < Real.pi ∧ |a2 - a1| < Real.pi := by
  have hc := cos_pos_of_abs_lt hh
  obtain ⟨b1, b2⟩ := v2_arg_bound tilt_pos tilt_lt hh hv
  set s := Real.tan v * Real.cos h * Real.tan tilt with hs
  set β := Real.arcsin s with hβ
  have hβ1 : -(Real.pi / 2) < β := Real.neg_pi_div_two_lt_arcsin.mpr b1
  have hβ2 : β < Real.pi / 2 := Real.arcsin_lt_pi_div_two.mpr b2
  have hcβ : 0 < Real.cos β := Real.cos_pos_of_mem_Ioo ⟨hβ1, hβ2⟩
  have hv' : |v| < Real.pi / 2 := by linarith [tilt_pos]
  refine ⟨h - β, h + β, v2_ok hc b1.le b2.le, ?_, ?_, ?_⟩
  · ext
    · simp [BsVec.fromLh2, Gen.C15.fromLh2Horiz]
    · simp only [BsVec.fromLh2, Gen.C15.fromLh2Vert, atan2_real, sin_real, cos_real, tan_real]
      rw [lh2_vert_core tan_tilt_pos hc hcβ, hβ, Real.sin_arcsin b1.le b2.le, hs]
      have : Real.tan v * Real.cos h * Real.tan tilt / (Real.tan tilt * Real.cos h) = Real.tan v := by
        have := tan_tilt_pos.ne'; have := hc.ne'
        field_simp
      rw [this, Real.arctan_tan (abs_lt.mp hv').1 (abs_lt.mp hv').2]
  · have : h - β + (h + β) = 2 * h := by ring
    rw [this, abs_mul, abs_two]; linarith
  · have : h + β - (h - β) = 2 * β := by ring
    rw [this, abs_mul, abs_two]
    have : |β| < Real.pi / 2 := abs_lt.mpr ⟨hβ1, hβ2⟩
    linarith

/-! ## V2 -> V1 -> V2 -/

theorem v2_of_fromLh2_core {h β : ℝ} (hh : |h| < Real.pi / 2) (hβ : |β| < Real.pi / 2) :
    (BsVec.fromLh2 (h - β) (h + β)).v2 = .ok (h - β, h + β) := by
  have hc := cos_pos_of_abs_lt hh
  have hcβ := cos_pos_of_abs_lt hβ
  have htT := tan_tilt_pos
  have e : BsVec.fromLh2 (h - β) (h + β) = ⟨h, Real.arctan (Real.sin β / (Real.tan tilt * Real.cos h))⟩ := by
    ext
    · simp [BsVec.fromLh2, Gen.C15.fromLh2Horiz]
    · simp only [BsVec.fromLh2, Gen.C15.fromLh2Vert, atan2_real, sin_real, cos_real, tan_real]
      rw [lh2_vert_core htT hc hcβ]
  have s_eq : Real.tan (Real.arctan (Real.sin β / (Real.tan tilt * Real.cos h))) * Real.cos h * Real.tan tilt = Real.sin β := by
    rw [Real.tan_arctan]
    have := htT.ne'; have := hc.ne'
    field_simp
  rw [e, v2_ok hc (by rw [s_eq]; exact Real.neg_one_le_sin β) (by rw [s_eq]; exact Real.sin_le_one β), s_eq,
    Real.arcsin_sin (abs_lt.mp hβ).1.le (abs_lt.mp hβ).2.le]

theorem v2_of_fromLh2 {a1 a2 : ℝ} (h1 : |a1 + a2| < Real.pi) (h2 : |a2 - a1| < Real.pi) :
    (BsVec.fromLh2 a1 a2).v2 = .ok (a1, a2) := by
  have e1 : a1 = (a1 + a2) / 2 - (a2 - a1) / 2 := by ring
  have e2 : a2 = (a1 + a2) / 2 + (a2 - a1) / 2 := by ring
  have hh : |(a1 + a2) / 2| < Real.pi / 2 := by rw [abs_div, abs_two]; linarith
  have hb : |(a2 - a1) / 2| < Real.pi / 2 := by rw [abs_div, abs_two]; linarith
  have := v2_of_fromLh2_core hh hb
  rwa [← e1, ← e2] at this

/-! ## cartesian direction -/

theorem cart_real (h v : ℝ) :
    (BsVec.mk h v).cart =
      ⟨1 / √(1 + Real.tan h ^ 2 + Real.tan v ^ 2), Real.tan h / √(1 + Real.tan h ^ 2 + Real.tan v ^ 2),
       Real.tan v / √(1 + Real.tan h ^ 2 + Real.tan v ^ 2)⟩ := by
  simp [BsVec.cart, BsVec.cartPre, V3.norm, Gen.C15.cartPre0, Gen.C15.cartPre1, Gen.C15.cartPre2, ← pow_two]

theorem cart_norm_pos (h v : ℝ) : 0 < √(1 + Real.tan h ^ 2 + Real.tan v ^ 2) :=
  Real.sqrt_pos.mpr (by positivity)

theorem cart_unit_real (h v : ℝ) : V3.dot (BsVec.mk h v).cart (BsVec.mk h v).cart = 1 := by
  rw [cart_real]
  have hn := cart_norm_pos h v
  have hs : √(1 + Real.tan h ^ 2 + Real.tan v ^ 2) ^ 2 = 1 + Real.tan h ^ 2 + Real.tan v ^ 2 :=
    Real.sq_sqrt (by positivity)
  simp only [V3.dot]
  field_simp
  linarith [hs]

theorem cart_x_pos (h v : ℝ) : 0 < (BsVec.mk h v).cart.x := by
  rw [cart_real]; exact div_pos one_pos (cart_norm_pos h v)

theorem fromCart_cart {h v : ℝ} (hh : |h| < Real.pi / 2) (hv : |v| < Real.pi / 2) :
    BsVec.fromCart (BsVec.mk h v).cart = ⟨h, v⟩ := by
  rw [cart_real]
  have hn := cart_norm_pos h v
  ext
  · simp only [BsVec.fromCart, Gen.C15.fromCartHoriz, atan2_real]
    rw [atan2R_div_pos _ _ _ hn, atan2R_of_pos _ one_pos, div_one, Real.arctan_tan (abs_lt.mp hh).1 (abs_lt.mp hh).2]
  · simp only [BsVec.fromCart, Gen.C15.fromCartVert, atan2_real]
    rw [atan2R_div_pos _ _ _ hn, atan2R_of_pos _ one_pos, div_one, Real.arctan_tan (abs_lt.mp hv).1 (abs_lt.mp hv).2]

/-- cartesian -> V1 -> cartesian normalises the vector (and returns it unchanged when it is a unit vector) -/
theorem cart_fromCart {c : V3 ℝ} (hx : 0 < c.x) :
    (BsVec.fromCart c).cart = ⟨c.x / V3.norm c, c.y / V3.norm c, c.z / V3.norm c⟩ := by
  have hb : BsVec.fromCart c = ⟨Real.arctan (c.y / c.x), Real.arctan (c.z / c.x)⟩ := by
    ext <;> simp [BsVec.fromCart, Gen.C15.fromCartHoriz, Gen.C15.fromCartVert, atan2R_of_pos _ hx]
  have hN : 0 < c.x * c.x + c.y * c.y + c.z * c.z := by
    nlinarith [mul_pos hx hx, mul_self_nonneg c.y, mul_self_nonneg c.z]
  have hn : √(1 + (c.y / c.x) ^ 2 + (c.z / c.x) ^ 2) = √(c.x * c.x + c.y * c.y + c.z * c.z) / c.x := by
    have : 1 + (c.y / c.x) ^ 2 + (c.z / c.x) ^ 2 = (c.x * c.x + c.y * c.y + c.z * c.z) / c.x ^ 2 := by
      field_simp
    rw [this, Real.sqrt_div hN.le, Real.sqrt_sq hx.le]
  have hs : 0 < √(c.x * c.x + c.y * c.y + c.z * c.z) := Real.sqrt_pos.mpr hN
  rw [hb, cart_real, Real.tan_arctan, Real.tan_arctan, hn]
  simp only [V3.norm, sqrt_real]
  ext <;> simp <;> field_simp

/-! ## image-plane projection -/

theorem projection_real (h v : ℝ) : (BsVec.mk h v).projection = (Real.tan h, Real.tan v) := by
  simp [BsVec.projection, Gen.C15.projExpr0, Gen.C15.projExpr1]

theorem fromProjection_real (y z : ℝ) : BsVec.fromProjection y z = ⟨Real.arctan y, Real.arctan z⟩ := by
  simp [BsVec.fromProjection, Gen.C15.fromProjHoriz, Gen.C15.fromProjVert]

end CfVerif.C15

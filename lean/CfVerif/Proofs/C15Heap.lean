/-
Proofs/C15Heap — frame properties of the object-level (heap) model of `Pose`: no event ever writes into a pose-owned
array, the library's events never write into a caller's array, an event on one Pose object leaves every other object's
attributes alone; hence the observable VALUE of a Pose is unaffected by whatever happens to other poses and to the
arrays it was built from — over all histories.  Generic in the number type; no Mathlib.
-/
import CfVerif.Model.C15
namespace CfVerif.C15
open CfVerif

set_option linter.unusedSectionVars false
section
variable {α : Type} [Add α] [Sub α] [Mul α]

/-- every Pose object refers to a pose-owned matrix cell and a pose-owned vector cell -/
def Heap.WF (h : Heap α) : Prop :=
  ∀ o ∈ h.objs, (∃ m, h.cells[o.r]? = some (.pose, .mat m)) ∧ (∃ v, h.cells[o.t]? = some (.pose, .vec v))

theorem Heap.empty_wf : (Heap.empty : Heap α).WF := by
  intro o ho; simp [Heap.empty] at ho

/-- is this event a write of the caller to cell `i`? -/
def HOp.writesCell (i : Nat) : HOp α → Prop
  | .callerWrite j _ => j = i
  | _ => False

/-- is this event `scale` on object `p`? -/
def HOp.scales (p : Nat) : HOp α → Prop
  | .scale q _ => q = p
  | _ => False

theorem getElem?_append_of_some {β : Type} {l : List β} {i : Nat} {b : β} (l' : List β) (h : l[i]? = some b) :
    (l ++ l')[i]? = some b := by
  have hi : i < l.length := by
    rcases Nat.lt_or_ge i l.length with hlt | hge
    · exact hlt
    · rw [List.getElem?_eq_none hge] at h; cases h
  rw [List.getElem?_append_left hi]; exact h

/-- (1) pose-owned arrays are immutable: no event — not even a caller's write — changes a cell owned by a pose -/
theorem step_pose_cells {h h' : Heap α} {op : HOp α} (hs : h.step op = .ok h') {i : Nat} {a : Arr α}
    (hc : h.cells[i]? = some (.pose, a)) : h'.cells[i]? = some (.pose, a) := by
  cases op with
  | newArr b => simp only [Heap.step] at hs; cases hs; exact getElem?_append_of_some _ hc
  | callerWrite j b =>
    simp only [Heap.step] at hs
    split at hs
    · next hj =>
      cases hs
      have hne : j ≠ i := by intro e; subst e; rw [hc] at hj; cases hj
      simp only [List.getElem?_set_ne hne]; exact hc
    · next hj =>
      cases hs
      have hne : j ≠ i := by intro e; subst e; rw [hc] at hj; cases hj
      simp only [List.getElem?_set_ne hne]; exact hc
    · cases hs
  | construct r t =>
    simp only [Heap.step] at hs
    split at hs
    · cases hs; exact getElem?_append_of_some _ hc
    · cases hs
  | copyObj p =>
    simp only [Heap.step] at hs
    split at hs
    · cases hs; exact hc
    · cases hs
  | scale p k =>
    simp only [Heap.step] at hs
    split at hs
    · split at hs
      · cases hs; exact getElem?_append_of_some _ hc
      · cases hs
    · cases hs
  | compose p q =>
    simp only [Heap.step] at hs
    split at hs
    · cases hs; exact getElem?_append_of_some _ hc
    · cases hs
  | invCompose p q =>
    simp only [Heap.step] at hs
    split at hs
    · cases hs; exact getElem?_append_of_some _ hc
    · cases hs
  | transform p x =>
    simp only [Heap.step] at hs
    split at hs
    · cases hs; exact getElem?_append_of_some _ hc
    · cases hs
  | invTransform p x =>
    simp only [Heap.step] at hs
    split at hs
    · cases hs; exact getElem?_append_of_some _ hc
    · cases hs

/-- (2) no event other than the caller's own write to cell `i` changes cell `i` (whoever owns it) -/
theorem step_cells_frame {h h' : Heap α} {op : HOp α} (hs : h.step op = .ok h') {i : Nat} {c : Owner × Arr α}
    (hc : h.cells[i]? = some c) (hw : ¬ op.writesCell i) : h'.cells[i]? = some c := by
  cases op with
  | callerWrite j b =>
    have hne : j ≠ i := fun e => hw e
    simp only [Heap.step] at hs
    split at hs
    · cases hs; simp only [List.getElem?_set_ne hne]; exact hc
    · cases hs; simp only [List.getElem?_set_ne hne]; exact hc
    · cases hs
  | newArr b => simp only [Heap.step] at hs; cases hs; exact getElem?_append_of_some _ hc
  | construct r t =>
    simp only [Heap.step] at hs
    split at hs
    · cases hs; exact getElem?_append_of_some _ hc
    · cases hs
  | copyObj p =>
    simp only [Heap.step] at hs
    split at hs
    · cases hs; exact hc
    · cases hs
  | scale p k =>
    simp only [Heap.step] at hs
    split at hs
    · split at hs
      · cases hs; exact getElem?_append_of_some _ hc
      · cases hs
    · cases hs
  | compose p q =>
    simp only [Heap.step] at hs
    split at hs
    · cases hs; exact getElem?_append_of_some _ hc
    · cases hs
  | invCompose p q =>
    simp only [Heap.step] at hs
    split at hs
    · cases hs; exact getElem?_append_of_some _ hc
    · cases hs
  | transform p x =>
    simp only [Heap.step] at hs
    split at hs
    · cases hs; exact getElem?_append_of_some _ hc
    · cases hs
  | invTransform p x =>
    simp only [Heap.step] at hs
    split at hs
    · cases hs; exact getElem?_append_of_some _ hc
    · cases hs

/-- (3) no event other than `scale` on object `q` itself changes the attributes of object `q` -/
theorem step_objs_frame {h h' : Heap α} {op : HOp α} (hs : h.step op = .ok h') {q : Nat} {o : PoseObj}
    (ho : h.objs[q]? = some o) (hq : ¬ op.scales q) : h'.objs[q]? = some o := by
  cases op with
  | scale p k =>
    have hne : p ≠ q := fun e => hq e
    simp only [Heap.step] at hs
    split at hs
    · split at hs
      · cases hs; simp only [List.getElem?_set_ne hne]; exact ho
      · cases hs
    · cases hs
  | newArr b => simp only [Heap.step] at hs; cases hs; exact ho
  | callerWrite j b =>
    simp only [Heap.step] at hs
    split at hs
    · cases hs; exact ho
    · cases hs; exact ho
    · cases hs
  | construct r t =>
    simp only [Heap.step] at hs
    split at hs
    · cases hs; exact getElem?_append_of_some _ ho
    · cases hs
  | copyObj p =>
    simp only [Heap.step] at hs
    split at hs
    · cases hs; exact getElem?_append_of_some _ ho
    · cases hs
  | compose p q' =>
    simp only [Heap.step] at hs
    split at hs
    · cases hs; exact getElem?_append_of_some _ ho
    · cases hs
  | invCompose p q' =>
    simp only [Heap.step] at hs
    split at hs
    · cases hs; exact getElem?_append_of_some _ ho
    · cases hs
  | transform p x =>
    simp only [Heap.step] at hs
    split at hs
    · cases hs; exact ho
    · cases hs
  | invTransform p x =>
    simp only [Heap.step] at hs
    split at hs
    · cases hs; exact ho
    · cases hs

/-! ## well-formedness is an invariant -/

theorem newPose_wf {h : Heap α} (hw : h.WF) (m : M3 α) (v : V3 α) : (h.newPose m v).WF := by
  intro o ho
  simp only [Heap.newPose, List.mem_append, List.mem_singleton] at ho
  rcases ho with ho | ho
  · obtain ⟨⟨m', hm⟩, ⟨v', hv⟩⟩ := hw o ho
    exact ⟨⟨m', getElem?_append_of_some _ hm⟩, ⟨v', getElem?_append_of_some _ hv⟩⟩
  · subst ho
    refine ⟨⟨m, ?_⟩, ⟨v, ?_⟩⟩ <;> simp [Heap.newPose]

theorem step_wf {h h' : Heap α} {op : HOp α} (hw : h.WF) (hs : h.step op = .ok h') : h'.WF := by
  -- old objects keep their (pose-owned, immutable) cells; new / rebound attributes point to fresh pose-owned cells
  have old : ∀ o, o ∈ h.objs → (∃ m, h'.cells[o.r]? = some (.pose, .mat m)) ∧ (∃ v, h'.cells[o.t]? = some (.pose, .vec v)) := by
    intro o ho
    obtain ⟨⟨m, hm⟩, ⟨v, hv⟩⟩ := hw o ho
    exact ⟨⟨m, step_pose_cells hs hm⟩, ⟨v, step_pose_cells hs hv⟩⟩
  cases op with
  | newArr b => simp only [Heap.step] at hs; cases hs; exact fun o ho => old o ho
  | callerWrite j b =>
    have hobjs : h'.objs = h.objs := by
      simp only [Heap.step] at hs
      split at hs <;> cases hs <;> rfl
    intro o ho; rw [hobjs] at ho; exact old o ho
  | construct r t =>
    simp only [Heap.step] at hs
    split at hs
    · cases hs; exact newPose_wf hw _ _
    · cases hs
  | copyObj p =>
    simp only [Heap.step] at hs
    split at hs
    · next o' ho' =>
      cases hs
      intro o ho
      simp only [List.mem_append, List.mem_singleton] at ho
      rcases ho with ho | ho
      · exact hw o ho
      · subst ho; exact hw _ (List.mem_of_getElem? ho')
    · cases hs
  | scale p k =>
    simp only [Heap.step] at hs
    split at hs
    · next o' ho' =>
      split at hs
      · next v hv =>
        have hs' := hs
        cases hs
        intro o ho
        rcases List.mem_or_eq_of_mem_set ho with ho | ho
        · exact old o ho
        · subst ho
          obtain ⟨⟨m, hm⟩, _⟩ := hw o' (List.mem_of_getElem? ho')
          refine ⟨⟨m, getElem?_append_of_some _ hm⟩, ⟨Gen.C15.poseScaleT v k, ?_⟩⟩
          simp
      · cases hs
    · cases hs
  | compose p q =>
    simp only [Heap.step] at hs
    split at hs
    · cases hs; exact newPose_wf hw _ _
    · cases hs
  | invCompose p q =>
    simp only [Heap.step] at hs
    split at hs
    · cases hs; exact newPose_wf hw _ _
    · cases hs
  | transform p x =>
    have hobjs : h'.objs = h.objs := by
      simp only [Heap.step] at hs
      split at hs <;> cases hs <;> rfl
    intro o ho; rw [hobjs] at ho; exact old o ho
  | invTransform p x =>
    have hobjs : h'.objs = h.objs := by
      simp only [Heap.step] at hs
      split at hs <;> cases hs <;> rfl
    intro o ho; rw [hobjs] at ho; exact old o ho

theorem run_wf {h h' : Heap α} {ops : List (HOp α)} (hw : h.WF) (hr : h.run ops = .ok h') : h'.WF := by
  induction ops generalizing h with
  | nil => simp only [Heap.run] at hr; cases hr; exact hw
  | cons op ops ih =>
    simp only [Heap.run] at hr
    split at hr
    · next h1 hs => exact ih (step_wf hw hs) hr
    · cases hr

/-! ## the value of a Pose object is unaffected by events on anything else -/

theorem deref_of_cells {h h' : Heap α} {q : Nat} {o : PoseObj} (ho : h.objs[q]? = some o) (ho' : h'.objs[q]? = some o)
    (hr : h'.cells[o.r]? = h.cells[o.r]?) (ht : h'.cells[o.t]? = h.cells[o.t]?) : h'.deref q = h.deref q := by
  simp only [Heap.deref, ho, ho', Heap.mat?, Heap.vec?, hr, ht]

/-- one event that is not `scale` on object `q` itself leaves `q`'s value unchanged — in particular `scale` on another
object sharing its arrays (`copy.copy`), constructing further poses from `q.rot_matrix` / `q.translation`, and the caller
overwriting the arrays `q` was constructed from -/
theorem step_deref_frame {h h' : Heap α} {op : HOp α} (hw : h.WF) (hs : h.step op = .ok h') {q : Nat}
    (hq : q < h.objs.length) (hn : ¬ op.scales q) : h'.deref q = h.deref q := by
  obtain ⟨o, ho⟩ : ∃ o, h.objs[q]? = some o := ⟨h.objs[q], List.getElem?_eq_getElem hq⟩
  obtain ⟨⟨m, hm⟩, ⟨v, hv⟩⟩ := hw o (List.mem_of_getElem? ho)
  exact deref_of_cells ho (step_objs_frame hs ho hn)
    (by rw [step_pose_cells hs hm, hm]) (by rw [step_pose_cells hs hv, hv])

theorem step_objs_length {h h' : Heap α} {op : HOp α} (hs : h.step op = .ok h') : h.objs.length ≤ h'.objs.length := by
  cases op <;> simp only [Heap.step] at hs <;> (repeat' split at hs) <;> cases hs <;> simp [Heap.newPose]

theorem step_cells_length {h h' : Heap α} {op : HOp α} (hs : h.step op = .ok h') : h.cells.length ≤ h'.cells.length := by
  cases op <;> simp only [Heap.step] at hs <;> (repeat' split at hs) <;> cases hs <;> simp [Heap.newPose]

/-- ALL histories: whatever is constructed, copied, composed, transformed, scaled or overwritten by the caller afterwards,
as long as `scale` is not called on object `q` itself, `q` keeps its value -/
theorem run_deref_frame {h h' : Heap α} {ops : List (HOp α)} (hw : h.WF) (hr : h.run ops = .ok h') {q : Nat}
    (hq : q < h.objs.length) (hn : ∀ op ∈ ops, ¬ op.scales q) : h'.deref q = h.deref q := by
  induction ops generalizing h with
  | nil => simp only [Heap.run] at hr; cases hr; rfl
  | cons op ops ih =>
    simp only [Heap.run] at hr
    split at hr
    · next h1 hs =>
      have h1q := step_deref_frame hw hs hq (hn op (List.mem_cons_self ..))
      rw [ih (step_wf hw hs) hr (Nat.lt_of_lt_of_le hq (step_objs_length hs))
        (fun op' hop => hn op' (List.mem_cons_of_mem _ hop)), h1q]
    · cases hr

/-- ALL histories: the library never changes an array of the caller — a cell changes only by the caller's own write to it -/
theorem run_cells_frame {h h' : Heap α} {ops : List (HOp α)} (hr : h.run ops = .ok h') {i : Nat} {c : Owner × Arr α}
    (hc : h.cells[i]? = some c) (hn : ∀ op ∈ ops, ¬ op.writesCell i) : h'.cells[i]? = some c := by
  induction ops generalizing h with
  | nil => simp only [Heap.run] at hr; cases hr; exact hc
  | cons op ops ih =>
    simp only [Heap.run] at hr
    split at hr
    · next h1 hs =>
      exact ih hr (step_cells_frame hs hc (hn op (List.mem_cons_self ..))) (fun op' hop => hn op' (List.mem_cons_of_mem _ hop))
    · cases hr

/-! ## value semantics of the events on the object they target -/

theorem deref_newPose_old {h : Heap α} (hw : h.WF) (m : M3 α) (v : V3 α) {q : Nat} (hq : q < h.objs.length) :
    (h.newPose m v).deref q = h.deref q := by
  obtain ⟨o, ho⟩ : ∃ o, h.objs[q]? = some o := ⟨h.objs[q], List.getElem?_eq_getElem hq⟩
  obtain ⟨⟨m', hm⟩, ⟨v', hv⟩⟩ := hw o (List.mem_of_getElem? ho)
  exact deref_of_cells ho (getElem?_append_of_some _ ho)
    (by simp only [Heap.newPose]; rw [getElem?_append_of_some _ hm, hm])
    (by simp only [Heap.newPose]; rw [getElem?_append_of_some _ hv, hv])

/-- the object made by the constructor has exactly the value passed in -/
theorem deref_newPose_new (h : Heap α) (m : M3 α) (v : V3 α) : (h.newPose m v).deref h.objs.length = some ⟨m, v⟩ := by
  simp [Heap.deref, Heap.newPose, Heap.mat?, Heap.vec?]

/-- `scale` on object `p`: the object's new value is the value-level `Pose.scale` of its old value -/
theorem step_scale_deref {h h' : Heap α} {p : Nat} {k : α} (hw : h.WF) (hs : h.step (.scale p k) = .ok h') :
    ∃ P, h.deref p = some P ∧ h'.deref p = some ⟨P.R, Gen.C15.poseScaleT P.t k⟩ := by
  simp only [Heap.step] at hs
  split at hs
  · next o ho =>
    split at hs
    · next v hv =>
      cases hs
      obtain ⟨⟨m, hm⟩, _⟩ := hw o (List.mem_of_getElem? ho)
      have hp : p < h.objs.length := by
        rcases Nat.lt_or_ge p h.objs.length with hlt | hge
        · exact hlt
        · rw [List.getElem?_eq_none hge] at ho; cases ho
      refine ⟨⟨m, v⟩, ?_, ?_⟩
      · simp [Heap.deref, ho, Heap.mat?, hm, hv]
      · simp [Heap.deref, hp, Heap.mat?, Heap.vec?, getElem?_append_of_some _ hm]
    · cases hs
  · cases hs

/-- `Pose(R_matrix=<cell r>, t_vec=<cell t>)`: the new object has the values of the two cells at construction time -/
theorem step_construct_deref {h h' : Heap α} {r t : Nat} (hs : h.step (.construct r t) = .ok h') :
    ∃ m v, h.mat? r = some m ∧ h.vec? t = some v ∧ h'.deref h.objs.length = some ⟨m, v⟩ := by
  simp only [Heap.step] at hs
  split at hs
  · next m v hm hv => cases hs; exact ⟨m, v, hm, hv, deref_newPose_new h m v⟩
  · cases hs

/-- `p.rotate_translate_pose(q)`: the new object's value is the value-level composition of the two values -/
theorem step_compose_deref {h h' : Heap α} {p q : Nat} (hs : h.step (.compose p q) = .ok h') :
    ∃ P Q, h.deref p = some P ∧ h.deref q = some Q ∧ h'.deref h.objs.length = some (P.rotateTranslatePose Q) := by
  simp only [Heap.step] at hs
  split at hs
  · next P Q hP hQ => cases hs; exact ⟨P, Q, hP, hQ, deref_newPose_new h _ _⟩
  · cases hs

theorem step_invCompose_deref {h h' : Heap α} {p q : Nat} (hs : h.step (.invCompose p q) = .ok h') :
    ∃ P Q, h.deref p = some P ∧ h.deref q = some Q ∧ h'.deref h.objs.length = some (P.invRotateTranslatePose Q) := by
  simp only [Heap.step] at hs
  split at hs
  · next P Q hP hQ => cases hs; exact ⟨P, Q, hP, hQ, deref_newPose_new h _ _⟩
  · cases hs

/-- `copy.copy(p)`: the copy has the same value -/
theorem step_copy_deref {h h' : Heap α} {p : Nat} (hs : h.step (.copyObj p) = .ok h') :
    h'.deref h.objs.length = h.deref p := by
  simp only [Heap.step] at hs
  split at hs
  · next o ho => cases hs; simp [Heap.deref, ho, Heap.mat?, Heap.vec?]
  · cases hs

end
end CfVerif.C15

/-
Proofs/C15Ippe — IppeCf's CF <-> IPPE/OpenCV axis permutation over ℝ.
-/
import CfVerif.Proofs.C15Pose
namespace CfVerif.C15
open CfVerif

theorem ippeVecToIppe_real (v : V3 ℝ) : ippeVecToIppe v = ⟨-v.y, -v.z, v.x⟩ := by
  ext <;> simp [ippeVecToIppe, Gen.C15.ippeVecToIppe, Gen.C15.cfToIppe, Gen.C15.ippeToCf, M3.mulVec, M3.transpose,
    M3.col0, M3.col1, M3.col2, V3.dot]

theorem ippeVecToCf_real (v : V3 ℝ) : ippeVecToCf v = ⟨v.z, -v.x, -v.y⟩ := by
  ext <;> simp [ippeVecToCf, Gen.C15.ippeVecToCf, Gen.C15.ippeToCf, M3.mulVec, V3.dot]

theorem ippeToCf_orthogonal : (Gen.C15.ippeToCf : M3 ℝ).IsOrthogonal := by
  unfold M3.IsOrthogonal
  ext <;> simp [Gen.C15.ippeToCf, M3.mul, M3.transpose, M3.one, M3.col0, M3.col1, M3.col2, V3.dot]

theorem cfToIppe_eq : (Gen.C15.cfToIppe : M3 ℝ) = (Gen.C15.ippeToCf : M3 ℝ).transpose := rfl

theorem ippeRotToCf_real (R : M3 ℝ) :
    ippeRotToCf R = (Gen.C15.ippeToCf : M3 ℝ).mul (R.mul (Gen.C15.ippeToCf : M3 ℝ).transpose) := rfl

theorem ippeToCf_det : M3.det (Gen.C15.ippeToCf : M3 ℝ) = 1 := by
  simp [M3.det, Gen.C15.ippeToCf]

end CfVerif.C15

/-
Proofs/C15Pose — rigid-motion algebra of `Pose` over ℝ: matrix/vector identities, orthogonality, and the
laws of point transformation, composition and inversion.  Model terms are instantiated at ℝ (Proofs/C15Real).
-/
import Mathlib.LinearAlgebra.Matrix.NonsingularInverse
import CfVerif.Proofs.C15Real
namespace CfVerif.C15
open CfVerif

/-- `Rᵀ R = I` -/
def M3.IsOrthogonal (R : M3 ℝ) : Prop := M3.mul (M3.transpose R) R = M3.one

/-- a pose whose rotation part is an orthogonal matrix -/
def Pose.IsRigid (P : Pose ℝ) : Prop := M3.IsOrthogonal P.R

/-- determinant of a 3x3 matrix -/
def M3.det (m : M3 ℝ) : ℝ :=
  m.r0.x * (m.r1.y * m.r2.z - m.r1.z * m.r2.y) - m.r0.y * (m.r1.x * m.r2.z - m.r1.z * m.r2.x) +
    m.r0.z * (m.r1.x * m.r2.y - m.r1.y * m.r2.x)

/-! ## 3x3 algebra by components -/

theorem M3.mulVec_mulVec (A B : M3 ℝ) (p : V3 ℝ) : A.mulVec (B.mulVec p) = (A.mul B).mulVec p := by
  ext <;> simp [M3.mulVec, M3.mul, V3.dot, M3.col0, M3.col1, M3.col2] <;> ring

theorem M3.one_mulVec (p : V3 ℝ) : (M3.one : M3 ℝ).mulVec p = p := by
  ext <;> simp [M3.mulVec, M3.one, V3.dot]

theorem M3.mul_assoc (A B C : M3 ℝ) : (A.mul B).mul C = A.mul (B.mul C) := by
  ext <;> simp [M3.mul, V3.dot, M3.col0, M3.col1, M3.col2] <;> ring

theorem M3.one_mul (A : M3 ℝ) : (M3.one : M3 ℝ).mul A = A := by
  ext <;> simp [M3.mul, M3.one, V3.dot, M3.col0, M3.col1, M3.col2]

theorem M3.mul_one (A : M3 ℝ) : A.mul (M3.one : M3 ℝ) = A := by
  ext <;> simp [M3.mul, M3.one, V3.dot, M3.col0, M3.col1, M3.col2]

theorem M3.transpose_transpose (A : M3 ℝ) : A.transpose.transpose = A := by
  ext <;> simp [M3.transpose, M3.col0, M3.col1, M3.col2]

theorem M3.transpose_mul (A B : M3 ℝ) : (A.mul B).transpose = B.transpose.mul A.transpose := by
  ext <;> simp [M3.mul, M3.transpose, V3.dot, M3.col0, M3.col1, M3.col2] <;> ring

theorem M3.transpose_one : (M3.one : M3 ℝ).transpose = M3.one := by
  ext <;> simp [M3.transpose, M3.one, M3.col0, M3.col1, M3.col2]

theorem M3.mulVec_add (A : M3 ℝ) (p q : V3 ℝ) : A.mulVec (V3.add p q) = V3.add (A.mulVec p) (A.mulVec q) := by
  ext <;> simp [M3.mulVec, V3.add, V3.dot] <;> ring

theorem M3.mulVec_sub (A : M3 ℝ) (p q : V3 ℝ) : A.mulVec (V3.sub p q) = V3.sub (A.mulVec p) (A.mulVec q) := by
  ext <;> simp [M3.mulVec, V3.sub, V3.dot] <;> ring

theorem V3.add_sub_cancel (a t : V3 ℝ) : V3.sub (V3.add a t) t = a := by
  ext <;> simp [V3.add, V3.sub]

theorem V3.sub_add_cancel (a t : V3 ℝ) : V3.add (V3.sub a t) t = a := by
  ext <;> simp [V3.add, V3.sub]

theorem V3.add_zero (a : V3 ℝ) : V3.add a V3.zero = a := by
  ext <;> simp [V3.add, V3.zero]

theorem V3.add_assoc (a b c : V3 ℝ) : V3.add (V3.add a b) c = V3.add a (V3.add b c) := by
  ext <;> simp [V3.add] <;> ring

theorem M3.mulVec_zero (A : M3 ℝ) : A.mulVec V3.zero = V3.zero := by
  ext <;> simp [M3.mulVec, V3.zero, V3.dot]

/-- `(A p) · (A q) = p · (Aᵀ A q)` -/
theorem M3.dot_mulVec (A : M3 ℝ) (p q : V3 ℝ) :
    V3.dot (A.mulVec p) (A.mulVec q) = V3.dot p ((A.transpose.mul A).mulVec q) := by
  simp [M3.mulVec, M3.mul, M3.transpose, V3.dot, M3.col0, M3.col1, M3.col2]; ring

/-! ## bridge to Mathlib matrices: a left inverse of a square matrix is a right inverse -/

def M3.toMatrix (m : M3 ℝ) : Matrix (Fin 3) (Fin 3) ℝ :=
  !![m.r0.x, m.r0.y, m.r0.z; m.r1.x, m.r1.y, m.r1.z; m.r2.x, m.r2.y, m.r2.z]

theorem M3.toMatrix_mul (A B : M3 ℝ) : (A.mul B).toMatrix = A.toMatrix * B.toMatrix := by
  ext i j
  fin_cases i <;> fin_cases j <;>
    simp [M3.toMatrix, M3.mul, V3.dot, M3.col0, M3.col1, M3.col2, Matrix.mul_apply, Fin.sum_univ_three]

theorem M3.toMatrix_one : (M3.one : M3 ℝ).toMatrix = 1 := by
  ext i j
  fin_cases i <;> fin_cases j <;> simp [M3.toMatrix, M3.one]

theorem M3.toMatrix_injective {A B : M3 ℝ} (h : A.toMatrix = B.toMatrix) : A = B := by
  have e := fun i j => congrFun (congrFun h i) j
  ext
  · simpa [M3.toMatrix] using e 0 0
  · simpa [M3.toMatrix] using e 0 1
  · simpa [M3.toMatrix] using e 0 2
  · simpa [M3.toMatrix] using e 1 0
  · simpa [M3.toMatrix] using e 1 1
  · simpa [M3.toMatrix] using e 1 2
  · simpa [M3.toMatrix] using e 2 0
  · simpa [M3.toMatrix] using e 2 1
  · simpa [M3.toMatrix] using e 2 2

theorem M3.mul_eq_one_comm {A B : M3 ℝ} (h : A.mul B = M3.one) : B.mul A = M3.one := by
  apply M3.toMatrix_injective
  rw [M3.toMatrix_mul, M3.toMatrix_one]
  have : A.toMatrix * B.toMatrix = 1 := by rw [← M3.toMatrix_mul, h, M3.toMatrix_one]
  exact (_root_.mul_eq_one_comm).mp this

/-- for an orthogonal matrix also `R Rᵀ = I` -/
theorem M3.IsOrthogonal.mul_transpose {R : M3 ℝ} (h : R.IsOrthogonal) : R.mul R.transpose = M3.one :=
  M3.mul_eq_one_comm h

theorem M3.IsOrthogonal.transpose {R : M3 ℝ} (h : R.IsOrthogonal) : R.transpose.IsOrthogonal := by
  unfold M3.IsOrthogonal; rw [M3.transpose_transpose]; exact h.mul_transpose

theorem M3.IsOrthogonal.mul {A B : M3 ℝ} (hA : A.IsOrthogonal) (hB : B.IsOrthogonal) : (A.mul B).IsOrthogonal := by
  unfold M3.IsOrthogonal at *
  rw [M3.transpose_mul, M3.mul_assoc, ← M3.mul_assoc A.transpose, hA, M3.one_mul, hB]

theorem M3.isOrthogonal_one : (M3.one : M3 ℝ).IsOrthogonal := by
  unfold M3.IsOrthogonal; rw [M3.transpose_one, M3.one_mul]

/-! ## Pose methods at ℝ -/

theorem rotateTranslate_real (P : Pose ℝ) (p : V3 ℝ) : P.rotateTranslate p = V3.add (P.R.mulVec p) P.t := rfl
theorem invRotateTranslate_real (P : Pose ℝ) (p : V3 ℝ) :
    P.invRotateTranslate p = P.R.transpose.mulVec (V3.sub p P.t) := rfl
theorem rotateTranslatePose_real (P Q : Pose ℝ) :
    P.rotateTranslatePose Q = ⟨P.R.mul Q.R, V3.add (P.R.mulVec Q.t) P.t⟩ := rfl
theorem invRotateTranslatePose_real (P Q : Pose ℝ) :
    P.invRotateTranslatePose Q = ⟨P.R.transpose.mul Q.R, P.R.transpose.mulVec (V3.sub Q.t P.t)⟩ := rfl

theorem inv_rt_rt {P : Pose ℝ} (hP : P.IsRigid) (p : V3 ℝ) :
    P.invRotateTranslate (P.rotateTranslate p) = p := by
  rw [rotateTranslate_real, invRotateTranslate_real, V3.add_sub_cancel, M3.mulVec_mulVec, hP, M3.one_mulVec]

theorem rt_inv_rt {P : Pose ℝ} (hP : P.IsRigid) (p : V3 ℝ) :
    P.rotateTranslate (P.invRotateTranslate p) = p := by
  rw [rotateTranslate_real, invRotateTranslate_real, M3.mulVec_mulVec, M3.IsOrthogonal.mul_transpose hP, M3.one_mulVec,
    V3.sub_add_cancel]

theorem inv_rtp_rtp {P : Pose ℝ} (hP : P.IsRigid) (Q : Pose ℝ) :
    P.invRotateTranslatePose (P.rotateTranslatePose Q) = Q := by
  rw [rotateTranslatePose_real, invRotateTranslatePose_real]
  simp only
  rw [← M3.mul_assoc, hP, M3.one_mul, V3.add_sub_cancel, M3.mulVec_mulVec, hP, M3.one_mulVec]

theorem rtp_inv_rtp {P : Pose ℝ} (hP : P.IsRigid) (Q : Pose ℝ) :
    P.rotateTranslatePose (P.invRotateTranslatePose Q) = Q := by
  rw [invRotateTranslatePose_real, rotateTranslatePose_real]
  simp only
  rw [← M3.mul_assoc, M3.IsOrthogonal.mul_transpose hP, M3.one_mul, M3.mulVec_mulVec,
    M3.IsOrthogonal.mul_transpose hP, M3.one_mulVec, V3.sub_add_cancel]

theorem rtp_assoc (P Q S : Pose ℝ) :
    (P.rotateTranslatePose Q).rotateTranslatePose S = P.rotateTranslatePose (Q.rotateTranslatePose S) := by
  simp only [rotateTranslatePose_real]
  rw [M3.mul_assoc, M3.mulVec_add, M3.mulVec_mulVec, V3.add_assoc]

theorem rtp_rt (P Q : Pose ℝ) (p : V3 ℝ) :
    (P.rotateTranslatePose Q).rotateTranslate p = P.rotateTranslate (Q.rotateTranslate p) := by
  simp only [rotateTranslatePose_real, rotateTranslate_real]
  rw [M3.mulVec_add, M3.mulVec_mulVec, V3.add_assoc]

theorem inv_rtp_rt (P Q : Pose ℝ) (p : V3 ℝ) :
    (P.invRotateTranslatePose Q).rotateTranslate p = P.invRotateTranslate (Q.rotateTranslate p) := by
  simp only [invRotateTranslatePose_real, rotateTranslate_real, invRotateTranslate_real]
  ext <;> simp [M3.mulVec, M3.mul, M3.transpose, V3.dot, V3.add, V3.sub, M3.col0, M3.col1, M3.col2] <;> ring

theorem rtp_rigid {P Q : Pose ℝ} (hP : P.IsRigid) (hQ : Q.IsRigid) : (P.rotateTranslatePose Q).IsRigid :=
  M3.IsOrthogonal.mul hP hQ

theorem inv_rtp_rigid {P Q : Pose ℝ} (hP : P.IsRigid) (hQ : Q.IsRigid) : (P.invRotateTranslatePose Q).IsRigid :=
  M3.IsOrthogonal.mul (M3.IsOrthogonal.transpose hP) hQ

theorem identity_rigid : (Pose.identity : Pose ℝ).IsRigid := M3.isOrthogonal_one

theorem identity_rt (p : V3 ℝ) : (Pose.identity : Pose ℝ).rotateTranslate p = p := by
  rw [rotateTranslate_real]; simp only [Pose.identity]; rw [M3.one_mulVec, V3.add_zero]

theorem identity_rtp (Q : Pose ℝ) : (Pose.identity : Pose ℝ).rotateTranslatePose Q = Q := by
  rw [rotateTranslatePose_real]; simp only [Pose.identity]; rw [M3.one_mul, M3.one_mulVec, V3.add_zero]

theorem rtp_identity (P : Pose ℝ) : P.rotateTranslatePose (Pose.identity : Pose ℝ) = P := by
  rw [rotateTranslatePose_real]; simp only [Pose.identity]; rw [M3.mul_one, M3.mulVec_zero]
  ext <;> simp [V3.add, V3.zero]

theorem scale_real (P : Pose ℝ) (k : ℝ) : P.scale k = ⟨P.R, V3.smul k P.t⟩ := rfl

theorem scale_rigid {P : Pose ℝ} (hP : P.IsRigid) (k : ℝ) : (P.scale k).IsRigid := hP

/-- a rigid pose preserves distances between points -/
theorem rt_dist {P : Pose ℝ} (hP : P.IsRigid) (p q : V3 ℝ) :
    V3.dot (V3.sub (P.rotateTranslate p) (P.rotateTranslate q)) (V3.sub (P.rotateTranslate p) (P.rotateTranslate q)) =
      V3.dot (V3.sub p q) (V3.sub p q) := by
  have e : V3.sub (P.rotateTranslate p) (P.rotateTranslate q) = P.R.mulVec (V3.sub p q) := by
    rw [rotateTranslate_real, rotateTranslate_real, M3.mulVec_sub]
    ext <;> simp [V3.add, V3.sub]
  rw [e, M3.dot_mulVec, hP, M3.one_mulVec]

end CfVerif.C15

/-
Proofs/C15Quat — the quaternion view: the matrix of a (normalised) quaternion is orthogonal, insensitive to sign and
positive scaling, and the quaternion of a rotation vector has the same matrix as the rotation vector.
These are statements about the SPECIFICATION of the scipy conversions cflib delegates to (Model/C15: `quatMatrix`,
`rotVecQuat`, `rotVecMatrix`), which the correspondence validates against scipy.
-/
import CfVerif.Proofs.C15Solver
namespace CfVerif.C15
open CfVerif

/-- squared norm of a quaternion -/
def Quat.normSq (q : Quat ℝ) : ℝ := q.x * q.x + q.y * q.y + q.z * q.z + q.w * q.w

/-- the matrix of a unit quaternion, without the normalisation step -/
theorem quatMatrix_of_unit (q : Quat ℝ) (hq : q.normSq = 1) :
    quatMatrix q =
      ⟨⟨q.x * q.x - q.y * q.y - q.z * q.z + q.w * q.w, 2 * (q.x * q.y - q.z * q.w), 2 * (q.x * q.z + q.y * q.w)⟩,
       ⟨2 * (q.x * q.y + q.z * q.w), -(q.x * q.x) + q.y * q.y - q.z * q.z + q.w * q.w, 2 * (q.y * q.z - q.x * q.w)⟩,
       ⟨2 * (q.x * q.z - q.y * q.w), 2 * (q.y * q.z + q.x * q.w), -(q.x * q.x) - q.y * q.y + q.z * q.z + q.w * q.w⟩⟩ := by
  unfold Quat.normSq at hq
  simp only [quatMatrix, sqrt_real, hq, Real.sqrt_one, div_one, nat_real]
  ext <;> simp

/-- normalising a non-zero quaternion gives a unit quaternion with the same matrix -/
theorem quatMatrix_normalize (q : Quat ℝ) (hq : 0 < q.normSq) :
    let n := √q.normSq
    let u : Quat ℝ := ⟨q.x / n, q.y / n, q.z / n, q.w / n⟩
    u.normSq = 1 ∧ quatMatrix q = quatMatrix u := by
  intro n u
  have hn : 0 < n := Real.sqrt_pos.mpr hq
  have hn2 : n * n = q.normSq := Real.mul_self_sqrt hq.le
  have hu : u.normSq = 1 := by
    simp only [Quat.normSq, u]
    unfold Quat.normSq at hn2
    field_simp
    linarith
  refine ⟨hu, ?_⟩
  rw [quatMatrix_of_unit u hu]
  simp only [quatMatrix, sqrt_real, nat_real, u]
  rfl

/-- the matrix of a unit quaternion is orthogonal -/
theorem quatMatrix_unit_orthogonal (q : Quat ℝ) (hq : q.normSq = 1) : (quatMatrix q).IsOrthogonal := by
  rw [quatMatrix_of_unit q hq]
  unfold Quat.normSq at hq
  obtain ⟨x, y, z, w⟩ := q
  simp only at hq
  unfold M3.IsOrthogonal
  ext <;> simp [M3.mul, M3.transpose, M3.one, V3.dot, M3.col0, M3.col1, M3.col2] <;>
    first
    | ring1
    | linear_combination (x * x + y * y + z * z + w * w + 1) * hq

/-- the matrix of ANY non-zero quaternion (what `Pose.from_quat` stores) is orthogonal -/
theorem quatMatrix_orthogonal (q : Quat ℝ) (hq : 0 < q.normSq) : (quatMatrix q).IsOrthogonal := by
  obtain ⟨hu, he⟩ := quatMatrix_normalize q hq
  rw [he]
  exact quatMatrix_unit_orthogonal _ hu

/-- `q` and `-q` are the same rotation -/
theorem quatMatrix_neg (q : Quat ℝ) : quatMatrix ⟨-q.x, -q.y, -q.z, -q.w⟩ = quatMatrix q := by
  simp only [quatMatrix, sqrt_real, nat_real, neg_mul_neg]
  ext <;> simp <;> ring

/-- the quaternion of a rotation vector is a unit quaternion -/
theorem rotVecQuat_unit (r : V3 ℝ) : (rotVecQuat r).normSq = 1 := by
  have hcs := Real.sin_sq_add_cos_sq (V3.norm r / 2)
  by_cases hn : V3.norm r = 0
  · have ha := axis_of_norm_zero hn
    simp only [axis] at ha
    simp [rotVecQuat, Quat.normSq, hn]
  · have hw := axis_unit hn
    simp only [axis] at hw
    simp only [rotVecQuat, Quat.normSq, nat_real, sin_real, cos_real, Nat.cast_ofNat, Nat.cast_zero]
    linear_combination (Real.sin (V3.norm r / 2)) ^ 2 * hw + hcs

/-- rotation-vector view and quaternion view of one rotation give the same rotation matrix -/
theorem quatMatrix_rotVecQuat (r : V3 ℝ) : quatMatrix (rotVecQuat r) = rotVecMatrix r := by
  rw [quatMatrix_of_unit _ (rotVecQuat_unit r), rotVecMatrix_real]
  have hcs := Real.sin_sq_add_cos_sq (V3.norm r / 2)
  have hc : Real.cos (V3.norm r) = Real.cos (V3.norm r / 2) ^ 2 - Real.sin (V3.norm r / 2) ^ 2 := by
    have h2 := Real.cos_two_mul (V3.norm r / 2)
    have e : 2 * (V3.norm r / 2) = V3.norm r := by ring
    rw [e] at h2
    linarith
  have hs : Real.sin (V3.norm r) = 2 * Real.sin (V3.norm r / 2) * Real.cos (V3.norm r / 2) := by
    rw [← Real.sin_two_mul]; congr 1; ring
  by_cases hn : V3.norm r = 0
  · have ha := axis_of_norm_zero hn
    simp only [rotVecQuat, ha, hn, nat_real, sin_real, cos_real]
    ext <;> simp
  · have hw := axis_unit hn
    simp only [rotVecQuat, nat_real, sin_real, cos_real, Nat.cast_ofNat, Nat.cast_zero]
    rw [hc, hs]
    simp only [axis] at hw ⊢
    generalize V3.divNanToNum (0:ℝ) 0 r (V3.norm r) = v at hw
    generalize Real.sin (V3.norm r / 2) = sh at hcs
    generalize Real.cos (V3.norm r / 2) = ch at hcs
    obtain ⟨vx, vy, vz⟩ := v
    simp only at hw
    ext <;> simp
    · linear_combination (-(sh ^ 2)) * hw + (vx * vx) * hcs
    · linear_combination (vx * vy) * hcs
    · linear_combination (vx * vz) * hcs
    · linear_combination (vy * vx) * hcs
    · linear_combination (-(sh ^ 2)) * hw + (vy * vy) * hcs
    · linear_combination (vy * vz) * hcs
    · linear_combination (vz * vx) * hcs
    · linear_combination (vz * vy) * hcs
    · linear_combination (-(sh ^ 2)) * hw + (vz * vz) * hcs

end CfVerif.C15

/-
Proofs/C15Real — the real-number instance of the `RealOps` interface (Spec/C15.lean) and the rewriting
lemmas that turn model terms instantiated at ℝ into ordinary Mathlib terms.

TRUSTED READING: this instance says what the Python/numpy float operations *mean* over the reals
(`math.atan2` by the usual case split, `np.float32` = identity, comparisons exact).  The theorems of C15 are
about the model instantiated here; the correspondence runs the same model instantiated with binary64.
-/
import Mathlib.Analysis.SpecialFunctions.Trigonometric.Arctan
import Mathlib.Analysis.SpecialFunctions.Trigonometric.Inverse
import Mathlib.Tactic.Ring
import Mathlib.Tactic.FieldSimp
import Mathlib.Tactic.Linarith
import CfVerif.Model.C15
namespace CfVerif.C15
open CfVerif

/-- `math.atan2(y, x)` over the reals: the angle of the point `(x, y)` in `(-π, π]`, `atan2(0, 0) = 0` -/
noncomputable def atan2R (y x : ℝ) : ℝ :=
  if 0 < x then Real.arctan (y / x)
  else if x < 0 then (if 0 ≤ y then Real.arctan (y / x) + Real.pi else Real.arctan (y / x) - Real.pi)
  else if 0 < y then Real.pi / 2
  else if y < 0 then -(Real.pi / 2)
  else 0

noncomputable instance instRealOpsReal : RealOps ℝ where
  nat := fun n => (n : ℝ)
  pi := Real.pi
  sin := Real.sin
  cos := Real.cos
  tan := Real.tan
  atan := Real.arctan
  asin := Real.arcsin
  sqrt := Real.sqrt
  atan2 := atan2R
  pow := fun x n => x ^ n
  f32 := fun x => x
  isZero := fun x => decide (x = 0)
  ltb := fun a b => decide (a < b)
  fmax := 2 ^ 1024 - 2 ^ 971

/-! rewriting the interface operations at ℝ into Mathlib's -/
@[simp] theorem nat_real (n : Nat) : (RealOps.nat n : ℝ) = (n : ℝ) := rfl
@[simp] theorem pi_real : (RealOps.pi : ℝ) = Real.pi := rfl
@[simp] theorem sin_real (x : ℝ) : RealOps.sin x = Real.sin x := rfl
@[simp] theorem cos_real (x : ℝ) : RealOps.cos x = Real.cos x := rfl
@[simp] theorem tan_real (x : ℝ) : RealOps.tan x = Real.tan x := rfl
@[simp] theorem atan_real (x : ℝ) : RealOps.atan x = Real.arctan x := rfl
@[simp] theorem asin_real (x : ℝ) : RealOps.asin x = Real.arcsin x := rfl
@[simp] theorem sqrt_real (x : ℝ) : RealOps.sqrt x = Real.sqrt x := rfl
@[simp] theorem atan2_real (y x : ℝ) : RealOps.atan2 y x = atan2R y x := rfl
@[simp] theorem pow_real (x : ℝ) (n : Nat) : RealOps.pow x n = x ^ n := rfl
@[simp] theorem f32_real (x : ℝ) : RealOps.f32 x = x := rfl
@[simp] theorem isZero_real (x : ℝ) : RealOps.isZero x = decide (x = 0) := rfl
@[simp] theorem ltb_real (a b : ℝ) : RealOps.ltb a b = decide (a < b) := rfl

/-! ## atan2 -/

theorem atan2R_of_pos {x : ℝ} (y : ℝ) (hx : 0 < x) : atan2R y x = Real.arctan (y / x) := by
  simp [atan2R, hx]

/-- scaling both arguments by a positive factor does not change the angle -/
theorem atan2R_div_pos (y x n : ℝ) (hn : 0 < n) : atan2R (y / n) (x / n) = atan2R y x := by
  have e : y / n / (x / n) = y / x := by
    by_cases hx : x = 0
    · simp [hx]
    · field_simp
  have h1 : (0 < x / n) ↔ 0 < x := by rw [lt_div_iff₀ hn, zero_mul]
  have h2 : (x / n < 0) ↔ x < 0 := by rw [div_lt_iff₀ hn, zero_mul]
  have h3 : (0 < y / n) ↔ 0 < y := by rw [lt_div_iff₀ hn, zero_mul]
  have h4 : (y / n < 0) ↔ y < 0 := by rw [div_lt_iff₀ hn, zero_mul]
  have h5 : (0 ≤ y / n) ↔ 0 ≤ y := by
    rw [← not_lt, ← not_lt, h4]
  simp only [atan2R, e, h1, h2, h3, h4, h5]

theorem sqrt_one_add_div_sq {x y : ℝ} (hx : x ≠ 0) : √(1 + (y / x) ^ 2) = √(x ^ 2 + y ^ 2) / |x| := by
  have : 1 + (y / x) ^ 2 = (x ^ 2 + y ^ 2) / x ^ 2 := by field_simp
  rw [this, Real.sqrt_div (by positivity), Real.sqrt_sq_eq_abs]

/-- `atan2R y x` is THE angle of the point (x, y): for (x, y) ≠ (0, 0), with r = √(x² + y²),
`r·cos θ = x`, `r·sin θ = y` and `-π < θ ≤ π`. -/
theorem atan2R_spec (y x : ℝ) (h : x ≠ 0 ∨ y ≠ 0) :
    √(x ^ 2 + y ^ 2) * Real.cos (atan2R y x) = x ∧ √(x ^ 2 + y ^ 2) * Real.sin (atan2R y x) = y ∧
    -Real.pi < atan2R y x ∧ atan2R y x ≤ Real.pi := by
  have hpi := Real.pi_pos
  rcases lt_trichotomy x 0 with hx | hx | hx
  · -- x < 0
    have hx0 : x ≠ 0 := hx.ne
    have hr : 0 < √(x ^ 2 + y ^ 2) := Real.sqrt_pos.mpr (by nlinarith [sq_nonneg y, mul_pos_of_neg_of_neg hx hx])
    have hs := sqrt_one_add_div_sq (y := y) hx.ne
    have hs0 : 0 < √(1 + (y / x) ^ 2) := Real.sqrt_pos.mpr (by positivity)
    rw [abs_of_neg hx] at hs
    have b1 := Real.neg_pi_div_two_lt_arctan (y / x)
    have b2 := Real.arctan_lt_pi_div_two (y / x)
    by_cases hy : 0 ≤ y
    · have e : atan2R y x = Real.arctan (y / x) + Real.pi := by simp [atan2R, not_lt.mpr hx.le, hx, hy]
      have hle : y / x ≤ 0 := div_nonpos_of_nonneg_of_nonpos hy hx.le
      have b3 : Real.arctan (y / x) ≤ 0 := by
        have := Real.arctan_strictMono.monotone hle
        rwa [Real.arctan_zero] at this
      rw [e, Real.cos_add_pi, Real.sin_add_pi, Real.cos_arctan, Real.sin_arctan, hs]
      refine ⟨?_, ?_, by linarith, by linarith⟩
      · field_simp
      · field_simp
    · have hy' : y < 0 := not_le.mp hy
      have e : atan2R y x = Real.arctan (y / x) - Real.pi := by simp [atan2R, not_lt.mpr hx.le, hx, hy]
      have hpos : 0 < y / x := div_pos_of_neg_of_neg hy' hx
      have b3 : 0 < Real.arctan (y / x) := Real.arctan_pos.mpr hpos
      rw [e, Real.cos_sub_pi, Real.sin_sub_pi, Real.cos_arctan, Real.sin_arctan, hs]
      refine ⟨?_, ?_, by linarith, by linarith⟩
      · field_simp
      · field_simp
  · -- x = 0
    subst hx
    have hy : y ≠ 0 := by rcases h with h | h; exact absurd rfl h; exact h
    rcases lt_or_gt_of_ne hy with hy | hy
    · have e : atan2R y 0 = -(Real.pi / 2) := by simp [atan2R, hy, not_lt.mpr hy.le]
      rw [e]
      simp only [ne_eq, zero_pow, zero_add, Real.cos_neg, Real.cos_pi_div_two, Real.sin_neg,
        Real.sin_pi_div_two, OfNat.ofNat_ne_zero, not_false_eq_true, Real.sqrt_sq_eq_abs, abs_of_neg hy]
      refine ⟨by ring, by ring, by linarith, by linarith⟩
    · have e : atan2R y 0 = Real.pi / 2 := by simp [atan2R, hy]
      rw [e]
      simp only [ne_eq, OfNat.ofNat_ne_zero, not_false_eq_true, zero_pow, zero_add, Real.cos_pi_div_two, Real.sin_pi_div_two,
        Real.sqrt_sq_eq_abs, abs_of_pos hy]
      refine ⟨by ring, by ring, by linarith, by linarith⟩
  · -- x > 0
    have hs := sqrt_one_add_div_sq (y := y) hx.ne'
    rw [abs_of_pos hx] at hs
    have hr : 0 < √(x ^ 2 + y ^ 2) := Real.sqrt_pos.mpr (by positivity)
    have b1 := Real.neg_pi_div_two_lt_arctan (y / x)
    have b2 := Real.arctan_lt_pi_div_two (y / x)
    rw [atan2R_of_pos _ hx, Real.cos_arctan, Real.sin_arctan, hs]
    refine ⟨?_, ?_, by linarith, by linarith⟩
    · field_simp
    · field_simp

/-! ## partial operations at ℝ -/

theorem divE_real_ok {a b : ℝ} (hb : b ≠ 0) : divE a b = .ok (a / b) := by
  simp [divE, hb]

theorem sqrtE_real_ok {a : ℝ} (ha : 0 ≤ a) : sqrtE a = .ok (Real.sqrt a) := by
  simp [sqrtE, not_lt.mpr ha]

theorem asinE_real_ok {a : ℝ} (h1 : -1 ≤ a) (h2 : a ≤ 1) : asinE a = .ok (Real.arcsin a) := by
  simp [asinE, not_lt.mpr h1, not_lt.mpr h2]

theorem asinE_real_err {a : ℝ} (h : 1 < a ∨ a < -1) : asinE a = .error .valueError := by
  rcases h with h | h <;> simp [asinE, h]

end CfVerif.C15

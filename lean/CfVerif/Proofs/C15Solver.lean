/-
Proofs/C15Solver — the geometry solver's Rodrigues rotation (`_rotate_translate`) and vectorised projection
(`_calc_angle_pairs`) over ℝ: the zero-rotation (nan_to_num) branch, linearity (= rotation matrix of the rotation
vector), negated rotation vector = transposed matrix, orthogonality, and equality with the projection defined by
`Pose` / `LighthouseBsVector`.
-/
import CfVerif.Proofs.C15Pose
namespace CfVerif.C15
open CfVerif

/-! ## `np.nan_to_num(r / theta)` over ℝ -/

/-- over ℝ, with both infinities replaced by 0: the quotient, or 0 when theta = 0 -/
theorem nanToNum_npDiv_real (a θ : ℝ) :
    nanToNum (0:ℝ) 0 (npDiv a θ) = if θ = 0 then 0 else a / θ := by
  by_cases hθ : θ = 0 <;> by_cases ha : a = 0 <;> by_cases hn : a < 0 <;>
    simp [npDiv, nanToNum, hθ, ha, hn]

theorem nanToNum_npDiv_neg (a θ : ℝ) :
    nanToNum (0:ℝ) 0 (npDiv (-a) θ) = -nanToNum (0:ℝ) 0 (npDiv a θ) := by
  rw [nanToNum_npDiv_real, nanToNum_npDiv_real]
  by_cases hθ : θ = 0 <;> simp [hθ, neg_div]

theorem norm_sq_real (r : V3 ℝ) : V3.norm r ^ 2 = r.x * r.x + r.y * r.y + r.z * r.z := by
  simp only [V3.norm, sqrt_real]
  exact Real.sq_sqrt (by nlinarith [mul_self_nonneg r.x, mul_self_nonneg r.y, mul_self_nonneg r.z])

theorem norm_neg_real (r : V3 ℝ) : V3.norm (V3.neg r) = V3.norm r := by
  simp [V3.norm, V3.neg]

/-- over ℝ the norm vanishes only for the zero vector -/
theorem norm_eq_zero_real {r : V3 ℝ} (h : V3.norm r = 0) : r.x = 0 ∧ r.y = 0 ∧ r.z = 0 := by
  have h2 := norm_sq_real r
  rw [h] at h2
  have hx := mul_self_nonneg r.x; have hy := mul_self_nonneg r.y; have hz := mul_self_nonneg r.z
  refine ⟨?_, ?_, ?_⟩ <;> apply mul_self_eq_zero.mp <;> nlinarith

/-- the rotation axis computed by `_rotate_translate` -/
noncomputable def axis (r : V3 ℝ) : V3 ℝ := V3.divNanToNum (0:ℝ) 0 r (V3.norm r)

theorem axis_neg (r : V3 ℝ) : axis (V3.neg r) = V3.neg (axis r) := by
  simp only [axis, norm_neg_real, V3.divNanToNum]
  ext <;> simp [V3.neg, nanToNum_npDiv_neg]

/-- theta = 0 (only possible for the zero vector): the NaN produced by 0/0 is replaced by 0 -/
theorem axis_of_norm_zero {r : V3 ℝ} (h : V3.norm r = 0) : axis r = ⟨0, 0, 0⟩ := by
  simp only [axis, V3.divNanToNum, nanToNum_npDiv_real, h]
  ext <;> simp

/-- theta ≠ 0: the axis is a unit vector -/
theorem axis_unit {r : V3 ℝ} (h : V3.norm r ≠ 0) :
    (axis r).x * (axis r).x + (axis r).y * (axis r).y + (axis r).z * (axis r).z = 1 := by
  have h2 := norm_sq_real r
  simp only [axis, V3.divNanToNum, nanToNum_npDiv_real, h, if_false]
  field_simp
  linarith

/-! ## Rodrigues rotation -/

theorem rodrigues_real (p r t : V3 ℝ) :
    rodrigues p r t =
      V3.add (V3.add (V3.add (V3.smul (Real.cos (V3.norm r)) p) (V3.smul (Real.sin (V3.norm r)) (V3.cross (axis r) p)))
        (V3.smul (V3.sum (V3.mul p (axis r)) * (1 - Real.cos (V3.norm r))) (axis r))) t := by
  simp [rodrigues, Gen.C15.rtTheta, Gen.C15.rtAxis, Gen.C15.rtDot, Gen.C15.rtCos, Gen.C15.rtSin, Gen.C15.rtResult, axis]

theorem rotVecMatrix_real (r : V3 ℝ) :
    rotVecMatrix r =
      (let v := axis r; let c := Real.cos (V3.norm r); let s := Real.sin (V3.norm r); let k := 1 - c
       ⟨⟨c + k * v.x * v.x, k * v.x * v.y - s * v.z, k * v.x * v.z + s * v.y⟩,
        ⟨k * v.y * v.x + s * v.z, c + k * v.y * v.y, k * v.y * v.z - s * v.x⟩,
        ⟨k * v.z * v.x - s * v.y, k * v.z * v.y + s * v.x, c + k * v.z * v.z⟩⟩) := by
  simp [rotVecMatrix, axis]

/-- the solver's rotation is the linear map given by the rotation matrix of the rotation vector, plus translation -/
theorem rodrigues_eq_matrix (p r t : V3 ℝ) :
    rodrigues p r t = V3.add ((rotVecMatrix r).mulVec p) t := by
  rw [rodrigues_real, rotVecMatrix_real]
  ext <;> simp [V3.add, V3.smul, V3.cross, V3.sum, V3.mul, M3.mulVec, V3.dot] <;> ring

/-- zero rotation vector (the `nan_to_num` path): the points are only translated -/
theorem rodrigues_zero_real (p t : V3 ℝ) : rodrigues p ⟨0, 0, 0⟩ t = V3.add p t := by
  have hn : V3.norm (⟨0, 0, 0⟩ : V3 ℝ) = 0 := by simp [V3.norm]
  rw [rodrigues_real, axis_of_norm_zero hn, hn]
  ext <;> simp [V3.add, V3.smul, V3.cross, V3.sum, V3.mul]

theorem rotVecMatrix_zero : rotVecMatrix (⟨0, 0, 0⟩ : V3 ℝ) = M3.one := by
  have hn : V3.norm (⟨0, 0, 0⟩ : V3 ℝ) = 0 := by simp [V3.norm]
  rw [rotVecMatrix_real, axis_of_norm_zero hn, hn]
  ext <;> simp [M3.one]

/-- negating the rotation vector transposes (= inverts) the rotation matrix -/
theorem rotVecMatrix_neg (r : V3 ℝ) : rotVecMatrix (V3.neg r) = (rotVecMatrix r).transpose := by
  rw [rotVecMatrix_real, rotVecMatrix_real, axis_neg, norm_neg_real]
  ext <;> simp [V3.neg, M3.transpose, M3.col0, M3.col1, M3.col2] <;> ring

/-- the rotation matrix of any rotation vector is orthogonal -/
theorem rotVecMatrix_orthogonal (r : V3 ℝ) : (rotVecMatrix r).IsOrthogonal := by
  unfold M3.IsOrthogonal
  by_cases hn : V3.norm r = 0
  · have hr : r = ⟨0, 0, 0⟩ := by
      obtain ⟨hx, hy, hz⟩ := norm_eq_zero_real hn
      ext <;> assumption
    rw [hr, rotVecMatrix_zero, M3.transpose_one, M3.one_mul]
  · have hw := axis_unit hn
    have hcs := Real.cos_sq_add_sin_sq (V3.norm r)
    rw [rotVecMatrix_real]
    generalize axis r = v at hw
    generalize Real.cos (V3.norm r) = c at hcs
    generalize Real.sin (V3.norm r) = s at hcs
    obtain ⟨vx, vy, vz⟩ := v
    simp only at hw
    ext <;> simp [M3.mul, M3.transpose, M3.one, V3.dot, M3.col0, M3.col1, M3.col2]
    · linear_combination (1 - vx * vx) * hcs + (s ^ 2 + vx * vx * (1 - c) ^ 2) * hw
    · linear_combination (0 - vx * vy) * hcs + (vx * vy * (1 - c) ^ 2) * hw
    · linear_combination (0 - vx * vz) * hcs + (vx * vz * (1 - c) ^ 2) * hw
    · linear_combination (0 - vy * vx) * hcs + (vy * vx * (1 - c) ^ 2) * hw
    · linear_combination (1 - vy * vy) * hcs + (s ^ 2 + vy * vy * (1 - c) ^ 2) * hw
    · linear_combination (0 - vy * vz) * hcs + (vy * vz * (1 - c) ^ 2) * hw
    · linear_combination (0 - vz * vx) * hcs + (vz * vx * (1 - c) ^ 2) * hw
    · linear_combination (0 - vz * vy) * hcs + (vz * vy * (1 - c) ^ 2) * hw
    · linear_combination (1 - vz * vz) * hcs + (s ^ 2 + vz * vz * (1 - c) ^ 2) * hw

/-- ... and proper: determinant +1 (a rotation, not a reflection) -/
theorem rotVecMatrix_det (r : V3 ℝ) : M3.det (rotVecMatrix r) = 1 := by
  by_cases hn : V3.norm r = 0
  · have hr : r = ⟨0, 0, 0⟩ := by
      obtain ⟨hx, hy, hz⟩ := norm_eq_zero_real hn
      ext <;> assumption
    rw [hr, rotVecMatrix_zero]
    simp [M3.det, M3.one]
  · have hw := axis_unit hn
    have hcs := Real.cos_sq_add_sin_sq (V3.norm r)
    rw [rotVecMatrix_real]
    generalize axis r = v at hw
    generalize Real.cos (V3.norm r) = c at hcs
    generalize Real.sin (V3.norm r) = s at hcs
    obtain ⟨vx, vy, vz⟩ := v
    simp only at hw
    simp only [M3.det]
    linear_combination (1 + (1 - c) * (vx * vx + vy * vy + vz * vz - 1)) * hcs +
      ((1 - c) + s ^ 2 + (1 - c) * s ^ 2 * (vx * vx + vy * vy + vz * vz - 1)) * hw

theorem fromRotVec_rigid (r t : V3 ℝ) : (Pose.fromRotVec r t).IsRigid := rotVecMatrix_orthogonal r

/-! ## the vectorised projection equals the projection defined by the types -/

theorem calcAnglePair_eq_types (bs cf : Params ℝ) (sens : V3 ℝ) :
    calcAnglePair bs cf sens =
      (let b := BsVec.fromCart ((Pose.fromRotVec bs.rotVec bs.trans).invRotateTranslate
                  ((Pose.fromRotVec cf.rotVec cf.trans).rotateTranslate sens))
       (b.h, b.v)) := by
  simp only [calcAnglePair, rodrigues_eq_matrix, rotVecMatrix_neg, rotateTranslate_real, invRotateTranslate_real,
    Pose.fromRotVec, BsVec.fromCart, Gen.C15.fromCartHoriz, Gen.C15.fromCartVert]
  rw [V3.add_zero]

end CfVerif.C15

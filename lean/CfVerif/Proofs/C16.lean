/-
Proofs/C16 — linear-algebra lemmas over ℝ for the C16 model: 3×3 matrices as structures, orthogonality, rigid maps
preserve distances and relative orientation, closed form of the residual vector.
-/
import CfVerif.Spec.C16
import Mathlib.Analysis.Real.Sqrt
import Mathlib.Tactic.Ring
import Mathlib.Tactic.Linarith
namespace CfVerif.C16

noncomputable instance : HasSqrt ℝ := ⟨Real.sqrt⟩

theorem natCast_real (n : Nat) : (natCast n : ℝ) = n := by
  induction n with
  | zero => simp [natCast]
  | succ k ih => simp [natCast, ih]

/-! ### matrix algebra -/

theorem Mat3.mul_assoc' (a b c : Mat3 ℝ) : (a.mul b).mul c = a.mul (b.mul c) := by
  simp only [Mat3.mul, Mat3.mk.injEq]
  refine ⟨?_, ?_, ?_, ?_, ?_, ?_, ?_, ?_, ?_⟩ <;> ring

theorem Mat3.mulVec_mul (a b : Mat3 ℝ) (v : Vec3 ℝ) : (a.mul b).mulVec v = a.mulVec (b.mulVec v) := by
  simp only [Mat3.mul, Mat3.mulVec, Vec3.mk.injEq]
  refine ⟨?_, ?_, ?_⟩ <;> ring

theorem Mat3.transpose_mul (a b : Mat3 ℝ) : (a.mul b).transpose = b.transpose.mul a.transpose := by
  simp only [Mat3.mul, Mat3.transpose, Mat3.mk.injEq]
  refine ⟨?_, ?_, ?_, ?_, ?_, ?_, ?_, ?_, ?_⟩ <;> ring

theorem Mat3.det_mul (a b : Mat3 ℝ) : (a.mul b).det = a.det * b.det := by
  simp only [Mat3.mul, Mat3.det]; ring

theorem Mat3.one_mul' (a : Mat3 ℝ) : Mat3.one.mul a = a := by
  cases a; simp [Mat3.mul, Mat3.one]

theorem Mat3.mul_one' (a : Mat3 ℝ) : a.mul Mat3.one = a := by
  cases a; simp [Mat3.mul, Mat3.one]

theorem Mat3.one_mulVec (v : Vec3 ℝ) : (Mat3.one : Mat3 ℝ).mulVec v = v := by
  cases v; simp [Mat3.mulVec, Mat3.one]

theorem Mat3.mulVec_sub (m : Mat3 ℝ) (a b : Vec3 ℝ) : m.mulVec (a.sub b) = (m.mulVec a).sub (m.mulVec b) := by
  simp only [Mat3.mulVec, Vec3.sub, Vec3.mk.injEq]
  refine ⟨?_, ?_, ?_⟩ <;> ring

theorem Mat3.dot_mulVec (m : Mat3 ℝ) (u v : Vec3 ℝ) :
    (m.mulVec u).dot (m.mulVec v) = u.dot ((m.transpose.mul m).mulVec v) := by
  simp only [Mat3.mulVec, Mat3.mul, Mat3.transpose, Vec3.dot]; ring

theorem Mat3.one_isProper : (Mat3.one : Mat3 ℝ).IsProper := by
  constructor
  · simp [Mat3.mul, Mat3.one, Mat3.transpose]
  · simp [Mat3.det, Mat3.one]

theorem Mat3.IsProper.mul {a b : Mat3 ℝ} (ha : a.IsProper) (hb : b.IsProper) : (a.mul b).IsProper := by
  constructor
  · rw [Mat3.transpose_mul, Mat3.mul_assoc', ← Mat3.mul_assoc' a.transpose, ha.1, Mat3.one_mul', hb.1]
  · rw [Mat3.det_mul, ha.2, hb.2]; ring

/-- an orthogonal matrix preserves the dot product -/
theorem Mat3.dot_preserved {m : Mat3 ℝ} (h : m.transpose.mul m = Mat3.one) (u v : Vec3 ℝ) :
    (m.mulVec u).dot (m.mulVec v) = u.dot v := by
  rw [Mat3.dot_mulVec, h, Mat3.one_mulVec]

theorem Mat3.norm_preserved {m : Mat3 ℝ} (h : m.transpose.mul m = Mat3.one) (u : Vec3 ℝ) :
    (m.mulVec u).norm = u.norm := by
  simp only [Vec3.norm, Mat3.dot_preserved h]

/-! ### poses as maps -/

theorem Pose.rotateTranslate_sub (T : Pose ℝ) (a b : Vec3 ℝ) :
    (T.rotateTranslate a).sub (T.rotateTranslate b) = T.R.mulVec (a.sub b) := by
  simp only [Pose.rotateTranslate, Vec3.add, Vec3.sub, Mat3.mulVec, Vec3.mk.injEq]
  refine ⟨?_, ?_, ?_⟩ <;> ring

/-- `rotate_translate_pose` is composition of maps: applying the composed pose = applying one after the other -/
theorem Pose.rotateTranslatePose_apply (T p : Pose ℝ) (v : Vec3 ℝ) :
    (T.rotateTranslatePose p).rotateTranslate v = T.rotateTranslate (p.rotateTranslate v) := by
  simp only [Pose.rotateTranslatePose, Pose.rotateTranslate, Mat3.mul, Vec3.add, Mat3.mulVec, Vec3.mk.injEq]
  refine ⟨?_, ?_, ?_⟩ <;> ring

/-- the translation of a transformed pose is the transformed translation -/
theorem Pose.rotateTranslatePose_t (T p : Pose ℝ) : (T.rotateTranslatePose p).t = T.rotateTranslate p.t := rfl

/-- a rigid map preserves distances -/
theorem dist_preserved {T : Pose ℝ} (h : T.R.transpose.mul T.R = Mat3.one) (a b : Vec3 ℝ) :
    dist3 (T.rotateTranslate a) (T.rotateTranslate b) = dist3 a b := by
  simp only [dist3, Pose.rotateTranslate_sub, Mat3.norm_preserved h]

/-- a rigid map preserves relative orientation -/
theorem relOrientation_preserved {T : Pose ℝ} (h : T.R.transpose.mul T.R = Mat3.one) (p q : Pose ℝ) :
    relOrientation (T.rotateTranslatePose p) (T.rotateTranslatePose q) = relOrientation p q := by
  simp only [relOrientation, Pose.rotateTranslatePose]
  rw [Mat3.transpose_mul, Mat3.mul_assoc', ← Mat3.mul_assoc' T.R.transpose, h, Mat3.one_mul']

/-! ### the residual vector in closed form -/

theorem mapE_ok {β γ : Type} (f : β → γ) (l : List β) : mapE (fun b => Except.ok (f b)) l = .ok (l.map f) := by
  induction l with
  | nil => rfl
  | cons b bs ih => simp [mapE, ih]

/-- with the slices / index of the current source (`x[1:3]`, `x[2]`) the residual never raises and is
`T(origin)` (3 numbers), then `(y, z)` of every transformed x-axis sample, then `z` of every transformed plane sample -/
theorem calcResidualOf_eq (hlo : Gen.C16.xSliceLo = 1) (hhi : Gen.C16.xSliceHi = 3) (hidx : Gen.C16.planeIdx = 2)
    (T : Pose ℝ) (origin : Vec3 ℝ) (xs pl : List (Vec3 ℝ)) :
    calcResidualOf T origin xs pl = .ok ((T.rotateTranslate origin).toList ++
      (xs.map fun x => [(T.rotateTranslate x).y, (T.rotateTranslate x).z]).flatten ++
      pl.map fun p => (T.rotateTranslate p).z) := by
  unfold calcResidualOf
  rw [hlo, hhi, hidx]
  have h1 : (fun x : Vec3 ℝ => pyIndex x.toList 2) = fun x => Except.ok x.z := by
    funext x; rfl
  have h2 : (fun x : Vec3 ℝ => pySlice x.toList 1 3) = fun x => [x.y, x.z] := by
    funext x; rfl
  simp only [h1, h2, mapE_ok, List.map_map, bind, Except.bind, pure, Except.pure]
  rfl

theorem all_zero_append {l₁ l₂ : List ℝ} : (∀ c ∈ l₁ ++ l₂, c = 0) ↔ (∀ c ∈ l₁, c = 0) ∧ ∀ c ∈ l₂, c = 0 := by
  simp only [List.mem_append]
  constructor
  · intro h; exact ⟨fun c hc => h c (Or.inl hc), fun c hc => h c (Or.inr hc)⟩
  · rintro ⟨h1, h2⟩ c (hc | hc)
    · exact h1 c hc
    · exact h2 c hc

theorem toList_all_zero (v : Vec3 ℝ) : (∀ c ∈ v.toList, c = 0) ↔ v = Vec3.zero := by
  obtain ⟨a, b, c⟩ := v
  simp only [Vec3.toList, Vec3.zero, List.mem_cons, List.not_mem_nil, or_false, Vec3.mk.injEq]
  constructor
  · intro h; exact ⟨h a (Or.inl rfl), h b (Or.inr (Or.inl rfl)), h c (Or.inr (Or.inr rfl))⟩
  · rintro ⟨rfl, rfl, rfl⟩ d (h | h | h) <;> exact h

theorem pairs_all_zero (f g : Vec3 ℝ → ℝ) (xs : List (Vec3 ℝ)) :
    (∀ c ∈ (xs.map fun x => [f x, g x]).flatten, c = 0) ↔ ∀ x ∈ xs, f x = 0 ∧ g x = 0 := by
  induction xs with
  | nil => simp
  | cons x xs ih =>
    simp only [List.map_cons, List.flatten_cons, all_zero_append, ih, List.mem_cons, List.not_mem_nil, or_false]
    constructor
    · rintro ⟨h1, h2⟩ y (rfl | hy)
      · exact ⟨h1 _ (Or.inl rfl), h1 _ (Or.inr rfl)⟩
      · exact h2 y hy
    · intro h
      refine ⟨?_, fun y hy => h y (Or.inr hy)⟩
      rintro c (rfl | rfl)
      · exact (h x (Or.inl rfl)).1
      · exact (h x (Or.inl rfl)).2

theorem map_all_zero (f : Vec3 ℝ → ℝ) (xs : List (Vec3 ℝ)) :
    (∀ c ∈ xs.map f, c = 0) ↔ ∀ x ∈ xs, f x = 0 := by
  simp only [List.mem_map]
  constructor
  · intro h x hx; exact h _ ⟨x, hx, rfl⟩
  · rintro h c ⟨x, hx, rfl⟩; exact h x hx

theorem residual_zero_iff_aux (hlo : Gen.C16.xSliceLo = 1) (hhi : Gen.C16.xSliceHi = 3) (hidx : Gen.C16.planeIdx = 2)
    (T : Pose ℝ) (origin : Vec3 ℝ) (xs pl : List (Vec3 ℝ)) :
    (∃ r, calcResidualOf T origin xs pl = .ok r ∧ ∀ c ∈ r, c = 0) ↔ Aligned T origin xs pl := by
  rw [calcResidualOf_eq hlo hhi hidx]
  have key : ∀ r : List ℝ, r = ((T.rotateTranslate origin).toList ++
      (xs.map fun x => [(T.rotateTranslate x).y, (T.rotateTranslate x).z]).flatten ++
      pl.map fun p => (T.rotateTranslate p).z) → ((∀ c ∈ r, c = 0) ↔ Aligned T origin xs pl) := by
    intro r hr
    rw [hr, all_zero_append, all_zero_append, toList_all_zero,
      pairs_all_zero (fun x => (T.rotateTranslate x).y) (fun x => (T.rotateTranslate x).z),
      map_all_zero (fun p => (T.rotateTranslate p).z)]
    unfold Aligned
    exact and_assoc
  constructor
  · rintro ⟨r, hr, hz⟩
    injection hr with hr
    exact (key r hr.symm).1 hz
  · intro h
    exact ⟨_, rfl, (key _ rfl).2 h⟩

end CfVerif.C16

/-
Proofs/C16Align — `align` as a whole (for an arbitrary optimiser), means under affine maps, x-axis samples on a ray.
-/
import CfVerif.Proofs.C16Deflip
import Mathlib.Tactic.FieldSimp
namespace CfVerif.C16

theorem poseFromParams_isProper {params : List ℝ} {raw : Pose ℝ} (h : poseFromParams params = .ok raw) :
    raw.IsProperRigid := by
  unfold poseFromParams at h
  split at h
  · injection h with h; rw [← h]; exact Pose.fromRotVec_isProperRigid _ _
  · exact absurd h (by simp)

/-- six parameters always give a pose (with the split `params[:3]`, `params[3:]` of the current source) -/
theorem poseFromParams_six (hr : Gen.C16.rotHi = 3) (ht : Gen.C16.transLo = 3) (a b c d e f : ℝ) :
    poseFromParams [a, b, c, d, e, f] = .ok (Pose.fromRotVec ⟨a, b, c⟩ ⟨d, e, f⟩) := by
  unfold poseFromParams; rw [hr, ht]; rfl

section
variable (hi1 : Gen.C16.deflip1Idx = 0) (ha1 : Gen.C16.flip1Axis = 2) (hi2 : Gen.C16.deflip2Idx = 2)
  (ha2 : Gen.C16.flip2Axis = 0)
include hi1 ha1 hi2 ha2

/-- everything `align` can return, for ANY optimiser: the transformation is the optimiser's pose followed by the
de-flip, and every base station pose is that one transformation applied to the input pose (same ids, same order) -/
theorem align_ok {lsq : Lsq ℝ} {origin : Vec3 ℝ} {xs pl : List (Vec3 ℝ)} {bs res : List (Nat × Pose ℝ)} {T : Pose ℝ}
    (h : align lsq origin xs pl bs = .ok (res, T)) :
    ∃ raw x xs' k b bs', findTransformation lsq origin xs pl = .ok raw ∧ raw.IsProperRigid ∧
      xs = x :: xs' ∧ bs = (k, b) :: bs' ∧ T = deFlipSpec raw (meanVec xs) b.t ∧
      res = bs.map (fun kv => (kv.1, T.rotateTranslatePose kv.2)) := by
  unfold align at h
  cases hr : findTransformation lsq origin xs pl with
  | error e => rw [hr] at h; exact absurd h (by simp [bind, Except.bind])
  | ok raw =>
    rw [hr] at h
    simp only [bind, Except.bind] at h
    have hp : raw.IsProperRigid := poseFromParams_isProper hr
    unfold alignWith at h
    cases xs with
    | nil => rw [deFlip_no_x] at h; exact absurd h (by simp [bind, Except.bind])
    | cons x xs' =>
      cases bs with
      | nil => rw [deFlip_no_bs hi1] at h; exact absurd h (by simp [bind, Except.bind])
      | cons kb bs' =>
        obtain ⟨k, b⟩ := kb
        rw [deFlip_eq hi1 ha1 hi2 ha2] at h
        simp only [bind, Except.bind, pure, Except.pure] at h
        injection h with h
        injection h with h1 h2
        exact ⟨raw, x, xs', k, b, bs', rfl, hp, rfl, rfl, h2.symm, by rw [← h1, ← h2]⟩

/-- `align` raises exactly when the optimiser's answer is not six numbers, or there is no x-axis sample (ValueError),
or no base station (IndexError); otherwise it returns -/
theorem align_total (hr : Gen.C16.rotHi = 3) (ht : Gen.C16.transLo = 3) (lsq : Lsq ℝ) (origin : Vec3 ℝ)
    (x : Vec3 ℝ) (xs pl : List (Vec3 ℝ)) (k : Nat) (b : Pose ℝ) (bs : List (Nat × Pose ℝ))
    (hlen : ∃ a b c d e f, lsq (fun p => calcResidual p origin (x :: xs) pl) (List.replicate Gen.C16.nParams 0) = [a, b, c, d, e, f]) :
    ∃ res T, align lsq origin (x :: xs) pl ((k, b) :: bs) = .ok (res, T) := by
  obtain ⟨a, b', c, d, e, f, hl⟩ := hlen
  unfold align findTransformation
  rw [hl, poseFromParams_six hr ht]
  simp only [bind, Except.bind, alignWith, deFlip_eq hi1 ha1 hi2 ha2, pure, Except.pure]
  exact ⟨_, _, rfl⟩

end

/-! ### means and affine maps -/

theorem foldl_add (l : List (Vec3 ℝ)) (a : Vec3 ℝ) : l.foldl Vec3.add a = a.add (vsum l) := by
  induction l generalizing a with
  | nil => simp [vsum, Vec3.add, Vec3.zero]
  | cons v l ih =>
    simp only [vsum, List.foldl_cons]
    rw [ih, ih (Vec3.zero.add v)]
    simp only [Vec3.add, Vec3.zero, Vec3.mk.injEq]
    refine ⟨?_, ?_, ?_⟩ <;> ring

theorem vsum_cons (v : Vec3 ℝ) (l : List (Vec3 ℝ)) : vsum (v :: l) = v.add (vsum l) := by
  have hz : (Vec3.zero : Vec3 ℝ).add v = v := by cases v; simp [Vec3.add, Vec3.zero]
  show (v :: l).foldl Vec3.add Vec3.zero = v.add (vsum l)
  rw [List.foldl_cons, foldl_add, hz]

/-- samples on a common ray from `o` in direction `u`: the sum of `o + c·u` over a list of `c` -/
theorem vsum_ray (o u : Vec3 ℝ) (cs : List ℝ) :
    vsum (cs.map fun c => o.add (u.smul c)) = (o.smul (cs.length : ℝ)).add (u.smul cs.sum) := by
  induction cs with
  | nil => simp [vsum, Vec3.smul, Vec3.add, Vec3.zero]
  | cons c cs ih =>
    rw [List.map_cons, vsum_cons, ih]
    simp only [Vec3.add, Vec3.smul, List.length_cons, List.sum_cons, Nat.cast_succ, Vec3.mk.injEq]
    refine ⟨?_, ?_, ?_⟩ <;> ring

theorem list_sum_pos {cs : List ℝ} (hne : cs ≠ []) (hpos : ∀ c ∈ cs, 0 < c) : 0 < cs.sum := by
  induction cs with
  | nil => exact absurd rfl hne
  | cons c cs ih =>
    rw [List.sum_cons]
    have hc := hpos c (List.mem_cons_self ..)
    by_cases h : cs = []
    · subst h; simpa using hc
    · have := ih h (fun d hd => hpos d (List.mem_cons_of_mem _ hd)); linarith

/-- Where an affine map that sends `o` to 0 sends the mean of samples `o + c·u`: to (mean c)·(R u) -/
theorem mean_ray_image (T : Pose ℝ) (o u : Vec3 ℝ) (cs : List ℝ) (hne : cs ≠ [])
    (ho : T.rotateTranslate o = Vec3.zero) :
    T.rotateTranslate (meanVec (cs.map fun c => o.add (u.smul c))) = (T.R.mulVec u).smul (cs.sum / cs.length) := by
  have hn : (cs.length : ℝ) ≠ 0 := by
    have : cs.length ≠ 0 := by simpa [List.length_eq_zero_iff] using hne
    exact_mod_cast this
  unfold meanVec
  rw [vsum_ray, List.length_map, natCast_real]
  simp only [Pose.rotateTranslate, Mat3.mulVec, Vec3.add, Vec3.zero, Vec3.mk.injEq] at ho
  obtain ⟨h1, h2, h3⟩ := ho
  simp only [Pose.rotateTranslate, Mat3.mulVec, Vec3.add, Vec3.smul, Vec3.divS, Vec3.mk.injEq]
  refine ⟨?_, ?_, ?_⟩
  · field_simp; linear_combination (cs.length : ℝ) * h1
  · field_simp; linear_combination (cs.length : ℝ) * h2
  · field_simp; linear_combination (cs.length : ℝ) * h3

theorem ray_image (T : Pose ℝ) (o u : Vec3 ℝ) (c : ℝ) (ho : T.rotateTranslate o = Vec3.zero) :
    T.rotateTranslate (o.add (u.smul c)) = (T.R.mulVec u).smul c := by
  simp only [Pose.rotateTranslate, Mat3.mulVec, Vec3.add, Vec3.zero, Vec3.mk.injEq] at ho
  obtain ⟨h1, h2, h3⟩ := ho
  simp only [Pose.rotateTranslate, Mat3.mulVec, Vec3.add, Vec3.smul, Vec3.mk.injEq]
  refine ⟨?_, ?_, ?_⟩
  · linear_combination h1
  · linear_combination h2
  · linear_combination h3

/-- x-axis samples taken on one ray from the origin sample: a rigid transformation with zero residual that puts their
mean at X ≥ 0 maps EACH of them onto the non-negative X axis, at its distance from the origin sample -/
theorem x_samples_image {T : Pose ℝ} (horth : T.R.transpose.mul T.R = Mat3.one) (o u : Vec3 ℝ) (cs : List ℝ)
    (hne : cs ≠ []) (hpos : ∀ c ∈ cs, 0 < c) (pl : List (Vec3 ℝ))
    (hal : Aligned T o (cs.map fun c => o.add (u.smul c)) pl)
    (hmean : 0 ≤ (T.rotateTranslate (meanVec (cs.map fun c => o.add (u.smul c)))).x) :
    ∀ c ∈ cs, T.rotateTranslate (o.add (u.smul c)) = ⟨dist3 o (o.add (u.smul c)), 0, 0⟩ := by
  obtain ⟨ho, hx, _⟩ := hal
  rw [mean_ray_image T o u cs hne ho] at hmean
  have hs := list_sum_pos hne hpos
  have hl : (0 : ℝ) < cs.length := by
    have : cs.length ≠ 0 := by simpa [List.length_eq_zero_iff] using hne
    exact_mod_cast Nat.pos_of_ne_zero this
  -- w = R u has no y, z components and a non-negative x component
  obtain ⟨c0, hc0⟩ := List.exists_mem_of_ne_nil cs hne
  have h0 := hx _ (List.mem_map.mpr ⟨c0, hc0, rfl⟩)
  rw [ray_image T o u c0 ho] at h0
  simp only [Vec3.smul] at h0 hmean
  have hc0p := hpos c0 hc0
  have hwy : (T.R.mulVec u).y = 0 := by
    rcases mul_eq_zero.mp h0.1 with h | h
    · exact h
    · linarith
  have hwz : (T.R.mulVec u).z = 0 := by
    rcases mul_eq_zero.mp h0.2 with h | h
    · exact h
    · linarith
  have hwx : 0 ≤ (T.R.mulVec u).x := by
    have hq : 0 < cs.sum / cs.length := div_pos hs hl
    by_contra hneg
    have := mul_neg_of_neg_of_pos (not_le.mp hneg) hq
    linarith
  intro c hc
  have hcp := hpos c hc
  rw [ray_image T o u c ho]
  -- the distance: |o - (o + c u)| = c |u| = c |R u| = c (R u).x
  have hnorm : (T.R.mulVec u).norm = u.norm := Mat3.norm_preserved horth u
  have hwn : (T.R.mulVec u).norm = (T.R.mulVec u).x := by
    simp only [Vec3.norm, Vec3.dot, HasSqrt.sqrt, hwy, hwz]
    rw [show (T.R.mulVec u).x * (T.R.mulVec u).x + 0 * 0 + 0 * 0 = (T.R.mulVec u).x * (T.R.mulVec u).x by ring]
    exact Real.sqrt_mul_self hwx
  have hd : dist3 o (o.add (u.smul c)) = c * u.norm := by
    simp only [dist3, Vec3.norm, Vec3.sub, Vec3.add, Vec3.smul, Vec3.dot, HasSqrt.sqrt]
    rw [show (o.x - (o.x + u.x * c)) * (o.x - (o.x + u.x * c)) + (o.y - (o.y + u.y * c)) * (o.y - (o.y + u.y * c)) +
        (o.z - (o.z + u.z * c)) * (o.z - (o.z + u.z * c)) = c * c * (u.x * u.x + u.y * u.y + u.z * u.z) by ring]
    rw [Real.sqrt_mul (mul_self_nonneg c), Real.sqrt_mul_self hcp.le]
  rw [hd, ← hnorm, hwn]
  simp only [Vec3.smul, hwy, hwz, Vec3.mk.injEq]
  refine ⟨by ring, by ring, by ring⟩

end CfVerif.C16

/-
Proofs/C16Deflip — `_de_flip_transformation` and `align` over ℝ.
-/
import CfVerif.Proofs.C16Rot
namespace CfVerif.C16

/-- half turn about Z / about X as poses -/
def flipZ : Pose ℝ := ⟨⟨-1, 0, 0, 0, -1, 0, 0, 0, 1⟩, Vec3.zero⟩
def flipX : Pose ℝ := ⟨⟨1, 0, 0, 0, -1, 0, 0, 0, -1⟩, Vec3.zero⟩

theorem flipZ_isProper : flipZ.R.IsProper := by
  constructor <;> simp [flipZ, Mat3.mul, Mat3.transpose, Mat3.one, Mat3.det]
theorem flipX_isProper : flipX.R.IsProper := by
  constructor <;> simp [flipX, Mat3.mul, Mat3.transpose, Mat3.one, Mat3.det]

theorem flipZ_apply (T : Pose ℝ) (v : Vec3 ℝ) :
    (flipZ.rotateTranslatePose T).rotateTranslate v = ⟨-(T.rotateTranslate v).x, -(T.rotateTranslate v).y, (T.rotateTranslate v).z⟩ := by
  rw [Pose.rotateTranslatePose_apply]
  simp [flipZ, Pose.rotateTranslate, Mat3.mulVec, Vec3.add, Vec3.zero]
theorem flipX_apply (T : Pose ℝ) (v : Vec3 ℝ) :
    (flipX.rotateTranslatePose T).rotateTranslate v = ⟨(T.rotateTranslate v).x, -(T.rotateTranslate v).y, -(T.rotateTranslate v).z⟩ := by
  rw [Pose.rotateTranslatePose_apply]
  simp [flipX, Pose.rotateTranslate, Mat3.mulVec, Vec3.add, Vec3.zero]

/-- the de-flipped transformation as a function of the two tests (both on the RAW transformation) -/
noncomputable def deFlipSpec (raw : Pose ℝ) (xMean bs0 : Vec3 ℝ) : Pose ℝ :=
  let t1 := if (raw.rotateTranslate xMean).x < 0 then flipZ.rotateTranslatePose raw else raw
  if (raw.rotateTranslate bs0).z < 0 then flipX.rotateTranslatePose t1 else t1

theorem pyIndex_toList_0 (v : Vec3 ℝ) : pyIndex v.toList 0 = .ok v.x := rfl
theorem pyIndex_toList_2 (v : Vec3 ℝ) : pyIndex v.toList 2 = .ok v.z := rfl

/-- `_de_flip_transformation` in closed form (given the indices / flip axes of the current source) -/
theorem deFlip_eq (hi1 : Gen.C16.deflip1Idx = 0) (ha1 : Gen.C16.flip1Axis = 2) (hi2 : Gen.C16.deflip2Idx = 2)
    (ha2 : Gen.C16.flip2Axis = 0) (raw : Pose ℝ) (x : Vec3 ℝ) (xs : List (Vec3 ℝ)) (k : Nat) (b : Pose ℝ)
    (bs : List (Nat × Pose ℝ)) :
    deFlip raw (x :: xs) ((k, b) :: bs) = .ok (deFlipSpec raw (meanVec (x :: xs)) b.t) := by
  unfold deFlip
  rw [hi1, ha1, hi2, ha2, flipPose_z, flipPose_x]
  simp only [List.isEmpty_cons, pyIndex_toList_0, pyIndex_toList_2, bind, Except.bind, pure, Except.pure]
  rfl

theorem deFlip_no_x (raw : Pose ℝ) (bs : List (Nat × Pose ℝ)) : deFlip raw [] bs = .error .valueError := rfl

theorem deFlip_no_bs (hi1 : Gen.C16.deflip1Idx = 0) (raw : Pose ℝ) (x : Vec3 ℝ) (xs : List (Vec3 ℝ)) :
    deFlip raw (x :: xs) [] = .error .indexError := by
  unfold deFlip
  rw [hi1]
  simp only [List.isEmpty_cons, pyIndex_toList_0, bind, Except.bind]
  rfl

/-- the de-flipped transformation is the raw one followed by one of four diagonal ±1 rotations -/
theorem deFlipSpec_cases (raw : Pose ℝ) (m b : Vec3 ℝ) :
    deFlipSpec raw m b = raw ∨ deFlipSpec raw m b = flipZ.rotateTranslatePose raw ∨
    deFlipSpec raw m b = flipX.rotateTranslatePose raw ∨
    deFlipSpec raw m b = flipX.rotateTranslatePose (flipZ.rotateTranslatePose raw) := by
  unfold deFlipSpec
  by_cases h1 : (raw.rotateTranslate m).x < 0 <;> by_cases h2 : (raw.rotateTranslate b).z < 0 <;> simp [h1, h2]

theorem rotateTranslatePose_isProper {F T : Pose ℝ} (hF : F.R.IsProper) (hT : T.R.IsProper) :
    (F.rotateTranslatePose T).R.IsProper := Mat3.IsProper.mul hF hT

theorem deFlipSpec_isProper {raw : Pose ℝ} (h : raw.IsProperRigid) (m b : Vec3 ℝ) : (deFlipSpec raw m b).IsProperRigid := by
  unfold Pose.IsProperRigid at *
  rcases deFlipSpec_cases raw m b with e | e | e | e <;> rw [e]
  · exact h
  · exact rotateTranslatePose_isProper flipZ_isProper h
  · exact rotateTranslatePose_isProper flipX_isProper h
  · exact rotateTranslatePose_isProper flipX_isProper (rotateTranslatePose_isProper flipZ_isProper h)

/-- where the de-flipped transformation sends any point: the raw image with signs fixed by the two tests -/
theorem deFlipSpec_apply (raw : Pose ℝ) (m b v : Vec3 ℝ) :
    (deFlipSpec raw m b).rotateTranslate v =
      ⟨(if (raw.rotateTranslate m).x < 0 then -1 else 1) * (raw.rotateTranslate v).x,
       (if (raw.rotateTranslate m).x < 0 then -1 else 1) * (if (raw.rotateTranslate b).z < 0 then -1 else 1) * (raw.rotateTranslate v).y,
       (if (raw.rotateTranslate b).z < 0 then -1 else 1) * (raw.rotateTranslate v).z⟩ := by
  unfold deFlipSpec
  by_cases h1 : (raw.rotateTranslate m).x < 0 <;> by_cases h2 : (raw.rotateTranslate b).z < 0 <;>
    simp [h1, h2, flipZ_apply, flipX_apply]

/-- the x-axis mean ends up at X ≥ 0 and the first base station at Z ≥ 0 — for EVERY raw transformation -/
theorem deFlipSpec_signs (raw : Pose ℝ) (m b : Vec3 ℝ) :
    0 ≤ ((deFlipSpec raw m b).rotateTranslate m).x ∧ 0 ≤ ((deFlipSpec raw m b).rotateTranslate b).z := by
  rw [deFlipSpec_apply, deFlipSpec_apply]
  constructor
  · by_cases h1 : (raw.rotateTranslate m).x < 0
    · simp only [h1, if_true]; linarith
    · simp only [h1, if_false]; linarith [not_lt.mp h1]
  · by_cases h2 : (raw.rotateTranslate b).z < 0
    · simp only [h2, if_true]; linarith
    · simp only [h2, if_false]; linarith [not_lt.mp h2]

/-- de-flipping keeps a zero residual zero -/
theorem deFlipSpec_aligned {raw : Pose ℝ} {origin : Vec3 ℝ} {xs pl : List (Vec3 ℝ)} (h : Aligned raw origin xs pl)
    (m b : Vec3 ℝ) : Aligned (deFlipSpec raw m b) origin xs pl := by
  obtain ⟨ho, hx, hp⟩ := h
  refine ⟨?_, ?_, ?_⟩
  · rw [deFlipSpec_apply, ho]; simp [Vec3.zero]
  · intro x hxm
    rw [deFlipSpec_apply]
    simp [(hx x hxm).1, (hx x hxm).2]
  · intro p hpm
    rw [deFlipSpec_apply]
    simp [hp p hpm]

end CfVerif.C16

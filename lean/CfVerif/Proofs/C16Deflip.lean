/-
Proofs/C16Deflip — `_de_flip_transformation` and `align` over ℝ.
-/
import CfVerif.Proofs.C16Rot
namespace CfVerif.C16

/-- half turn about Z / about X as poses -/
def flipZ : Pose ℝ := ⟨⟨-1, 0, 0, 0, -1, 0, 0, 0, 1⟩, Vec3.zero⟩
def flipX : Pose ℝ := ⟨⟨1, 0, 0, 0, -1, 0, 0, 0, -1⟩, Vec3.zero⟩

theorem flipZ_isProper : flipZ.R.IsProper := by
  constructor <;> simp [flipZ, Mat3.mul, Mat3.transpose, Mat3.one, Mat3.det]
theorem flipX_isProper : flipX.R.IsProper := by
  constructor <;> simp [flipX, Mat3.mul, Mat3.transpose, Mat3.one, Mat3.det]

theorem flipZ_apply (T : Pose ℝ) (v : Vec3 ℝ) :
    (flipZ.rotateTranslatePose T).rotateTranslate v = ⟨-(T.rotateTranslate v).x, -(T.rotateTranslate v).y, (T.rotateTranslate v).z⟩ := by
  rw [Pose.rotateTranslatePose_apply]
  simp [flipZ, Pose.rotateTranslate, Mat3.mulVec, Vec3.add, Vec3.zero]
theorem flipX_apply (T : Pose ℝ) (v : Vec3 ℝ) :
    (flipX.rotateTranslatePose T).rotateTranslate v = ⟨(T.rotateTranslate v).x, -(T.rotateTranslate v).y, -(T.rotateTranslate v).z⟩ := by
  rw [Pose.rotateTranslatePose_apply]
  simp [flipX, Pose.rotateTranslate, Mat3.mulVec, Vec3.add, Vec3.zero]

/-- the de-flipped transformation as a function of the two tests (both on the RAW transformation) -/
noncomputable def deFlipSpec (raw : Pose ℝ) (xMean bs0 : Vec3 ℝ) : Pose ℝ :=
  let t1 := if (raw.rotateTranslate xMean).x < 0 then flipZ.rotateTranslatePose raw else raw
  if (raw.rotateTranslate bs0).z < 0 then flipX.rotateTranslatePose t1 else t1

theorem pyIndex_toList_0 (v : Vec3 ℝ) : pyIndex v.toList 0 = .ok v.x := rfl
theorem pyIndex_toList_2 (v : Vec3 ℝ) : pyIndex v.toList 2 = .ok v.z := rfl

/-- `_de_flip_transformation` in closed form (given the indices / flip axes of the current source) -/
theorem deFlip_eq (hi1 : Gen.C16.deflip1Idx = 0) (ha1 : Gen.C16.flip1Axis = 2) (hi2 : Gen.C16.deflip2Idx = 2)
    (ha2 : Gen.C16.flip2Axis = 0) (raw : Pose ℝ) (x : Vec3 ℝ) (xs : List (Vec3 ℝ)) (k : Nat) (b : Pose ℝ)
    (bs : List (Nat × Pose ℝ)) :
    deFlip raw (x :: xs) ((k, b) :: bs) = .ok (deFlipSpec raw (meanVec (x :: xs)) b.t) := by
  unfold deFlip
  rw [hi1, ha1, hi2, ha2, flipPose_z, flipPose_x]
  simp only [List.isEmpty_cons, pyIndex_toList_0, pyIndex_toList_2, bind, Except.bind, pure, Except.pure]
  rfl

theorem deFlip_no_x (raw : Pose ℝ) (bs : List (Nat × Pose ℝ)) : deFlip raw [] bs = .error .valueError := rfl

theorem deFlip_no_bs (hi1 : Gen.C16.deflip1Idx = 0) (raw : Pose ℝ) (x : Vec3 ℝ) (xs : List (Vec3 ℝ)) :
    deFlip raw (x :: xs) [] = .error .indexError := by
  unfold deFlip
  rw [hi1]
  simp only [List.isEmpty_cons, pyIndex_toList_0, bind, Except.bind]
  rfl

/-- the de-flipped transformation is the raw one followed by one of four diagonal ±1 rotations -/
theorem deFlipSpec_cases (raw : Pose ℝ) (m b : Vec3 ℝ) :
    deFlipSpec raw m b = raw ∨ deFlipSpec raw m b = flipZ.rotateTranslatePose raw ∨
    deFlipSpec raw m b = flipX.rotateTranslatePose raw ∨
    deFlipSpec raw m b = flipX.rotateTranslatePose (flipZ.rotateTranslatePose raw) := by
  unfold deFlipSpec
  by_cases h1 : (raw.rotateTranslate m).x < 0 <;> by_cases h2 : (raw.rotateTranslate b).z < 0 <;> simp [h1, h2]

theorem rotateTranslatePose_isProper {F T : Pose ℝ} (hF : F.R.IsProper) (hT : T.R.IsProper) :
    (F.rotateTranslatePose T).R.IsProper := Mat3.IsProper.mul hF hT

theorem deFlipSpec_isProper {raw : Pose ℝ} (h : raw.IsProperRigid) (m b : Vec3 ℝ) : (deFlipSpec raw m b).IsProperRigid := by
  unfold Pose.IsProperRigid at *
  rcases deFlipSpec_cases raw m b with e | e | e | e <;> rw [e]
  · exact h
  · exact rotateTranslatePose_isProper flipZ_isProper h
  · exact rotateTranslatePose_isProper flipX_isProper h
  · exact rotateTranslatePose_isProper flipX_isProper (rotateTranslatePose_isProper flipZ_isProper h)

/-- where the de-flipped transformation sends any point: the raw image with signs fixed by the two tests -/
theorem deFlipSpec_apply (raw : Pose ℝ) (m b v : Vec3 ℝ) :
    (deFlipSpec raw m b).rotateTranslate v =
      ⟨(if (raw.rotateTranslate m).x < 0 then -1 else 1) * (raw.rotateTranslate v).x,
       (if (raw.rotateTranslate m).x < 0 then -1 else 1) * (if (raw.rotateTranslate b).z < 0 then -1 else 1) * (raw.rotateTranslate v).y,
       (if (raw.rotateTranslate b).z < 0 then -1 else 1) * (raw.rotateTranslate v).z⟩ := by
  unfold deFlipSpec
  by_cases h1 : (raw.rotateTranslate m).x < 0 <;> by_cases h2 : (raw.rotateTranslate b).z < 0 <;>
    simp [h1, h2, flipZ_apply, flipX_apply]

/-- the x-axis mean ends up at X ≥ 0 and the first base station at Z ≥ 0 — for EVERY raw transformation -/
theorem deFlipSpec_signs (raw : Pose ℝ) (m b : Vec3 ℝ) :
    0 ≤ ((deFlipSpec raw m b).rotateTranslate m).x ∧ 0 ≤ ((deFlipSpec raw m b).rotateTranslate b).z := by
  rw [deFlipSpec_apply, deFlipSpec_apply]
  constructor
  · by_cases h1 : (raw.rotateTranslate m).x < 0
    · simp only [h1, if_true]; linarith
    · simp only [h1, if_false]; linarith [not_lt.mp h1]
  · by_cases h2 : (raw.rotateTranslate b).z < 0
    · simp only [h2, if_true]; linarith
    · simp only [h2, if_false]; linarith [not_lt.mp h2]

/-- de-flipping keeps a zero residual zero -/
theorem deFlipSpec_aligned {raw : Pose ℝ} {origin : Vec3 ℝ} {xs pl : List (Vec3 ℝ)} (h : Aligned raw origin xs pl)
    (m b : Vec3 ℝ) : Aligned (deFlipSpec raw m b) origin xs pl := by
  obtain ⟨ho, hx, hp⟩ := h
  refine ⟨?_, ?_, ?_⟩
  · rw [deFlipSpec_apply, ho]; simp [Vec3.zero]
  · intro x hxm
    rw [deFlipSpec_apply]
    simp [(hx x hxm).1, (hx x hxm).2]
  · intro p hpm
    rw [deFlipSpec_apply]
    simp [hp p hpm]

end CfVerif.C16

namespace CfVerif.C16

/-! ### approximate convergence: the de-flip keeps every residual component's magnitude -/

theorem all_append_iff {P : ℝ → Prop} {l₁ l₂ : List ℝ} : (∀ c ∈ l₁ ++ l₂, P c) ↔ (∀ c ∈ l₁, P c) ∧ ∀ c ∈ l₂, P c := by
  simp only [List.mem_append]
  constructor
  · intro h; exact ⟨fun c hc => h c (Or.inl hc), fun c hc => h c (Or.inr hc)⟩
  · rintro ⟨h1, h2⟩ c (hc | hc)
    · exact h1 c hc
    · exact h2 c hc

theorem toList_all (P : ℝ → Prop) (v : Vec3 ℝ) : (∀ c ∈ v.toList, P c) ↔ P v.x ∧ P v.y ∧ P v.z := by
  obtain ⟨a, b, c⟩ := v
  simp only [Vec3.toList, List.mem_cons, List.not_mem_nil, or_false]
  constructor
  · intro h; exact ⟨h a (Or.inl rfl), h b (Or.inr (Or.inl rfl)), h c (Or.inr (Or.inr rfl))⟩
  · rintro ⟨h1, h2, h3⟩ d (rfl | rfl | rfl)
    · exact h1
    · exact h2
    · exact h3

theorem pairs_all (P : ℝ → Prop) (f g : Vec3 ℝ → ℝ) (xs : List (Vec3 ℝ)) :
    (∀ c ∈ (xs.map fun x => [f x, g x]).flatten, P c) ↔ ∀ x ∈ xs, P (f x) ∧ P (g x) := by
  induction xs with
  | nil => simp
  | cons x xs ih =>
    simp only [List.map_cons, List.flatten_cons, all_append_iff, ih, List.mem_cons, List.not_mem_nil, or_false]
    constructor
    · rintro ⟨h1, h2⟩ y (rfl | hy)
      · exact ⟨h1 _ (Or.inl rfl), h1 _ (Or.inr rfl)⟩
      · exact h2 y hy
    · intro h
      refine ⟨?_, fun y hy => h y (Or.inr hy)⟩
      rintro c (rfl | rfl)
      · exact (h x (Or.inl rfl)).1
      · exact (h x (Or.inl rfl)).2

theorem map_all (P : ℝ → Prop) (f : Vec3 ℝ → ℝ) (xs : List (Vec3 ℝ)) : (∀ c ∈ xs.map f, P c) ↔ ∀ x ∈ xs, P (f x) := by
  simp only [List.mem_map]
  constructor
  · intro h x hx; exact h _ ⟨x, hx, rfl⟩
  · rintro h c ⟨x, hx, rfl⟩; exact h x hx

/-- every component of the residual satisfies `P` ⇔ the corresponding coordinates of the transformed samples do -/
theorem residual_all_iff (hlo : Gen.C16.xSliceLo = 1) (hhi : Gen.C16.xSliceHi = 3) (hidx : Gen.C16.planeIdx = 2)
    (P : ℝ → Prop) (T : Pose ℝ) (origin : Vec3 ℝ) (xs pl : List (Vec3 ℝ)) :
    (∃ r, calcResidualOf T origin xs pl = .ok r ∧ ∀ c ∈ r, P c) ↔
      (P (T.rotateTranslate origin).x ∧ P (T.rotateTranslate origin).y ∧ P (T.rotateTranslate origin).z) ∧
      (∀ x ∈ xs, P (T.rotateTranslate x).y ∧ P (T.rotateTranslate x).z) ∧ ∀ p ∈ pl, P (T.rotateTranslate p).z := by
  rw [calcResidualOf_eq hlo hhi hidx]
  have key : (∀ c ∈ ((T.rotateTranslate origin).toList ++
      (xs.map fun x => [(T.rotateTranslate x).y, (T.rotateTranslate x).z]).flatten ++
      pl.map fun p => (T.rotateTranslate p).z), P c) ↔
      ((P (T.rotateTranslate origin).x ∧ P (T.rotateTranslate origin).y ∧ P (T.rotateTranslate origin).z) ∧
      (∀ x ∈ xs, P (T.rotateTranslate x).y ∧ P (T.rotateTranslate x).z) ∧ ∀ p ∈ pl, P (T.rotateTranslate p).z) := by
    rw [all_append_iff, all_append_iff, toList_all,
      pairs_all P (fun x => (T.rotateTranslate x).y) (fun x => (T.rotateTranslate x).z),
      map_all P (fun p => (T.rotateTranslate p).z)]
    exact and_assoc
  constructor
  · rintro ⟨r, hr, hz⟩
    injection hr with hr
    subst hr
    exact key.1 hz
  · intro h
    exact ⟨_, rfl, key.2 h⟩

/-- the de-flipped transformation's residual components are, up to sign, those of the raw transformation: a bound on
their magnitude carries over -/
theorem deFlipSpec_residual_bound (hlo : Gen.C16.xSliceLo = 1) (hhi : Gen.C16.xSliceHi = 3) (hidx : Gen.C16.planeIdx = 2)
    (ε : ℝ) (raw : Pose ℝ) (origin : Vec3 ℝ) (xs pl : List (Vec3 ℝ)) (m b : Vec3 ℝ)
    (h : ∃ r, calcResidualOf raw origin xs pl = .ok r ∧ ∀ c ∈ r, |c| ≤ ε) :
    ∃ r, calcResidualOf (deFlipSpec raw m b) origin xs pl = .ok r ∧ ∀ c ∈ r, |c| ≤ ε := by
  rw [residual_all_iff hlo hhi hidx (fun c => |c| ≤ ε)] at h ⊢
  have sgn : ∀ (s : ℝ) (a : ℝ), (s = 1 ∨ s = -1) → |s * a| = |a| := by
    rintro s a (rfl | rfl) <;> simp
  have s1 : ∀ c : Prop, [Decidable c] → ((if c then (-1 : ℝ) else 1) = 1 ∨ (if c then (-1 : ℝ) else 1) = -1) := by
    intro c _; by_cases hc : c <;> simp [hc]
  have s12 : ∀ c d : Prop, [Decidable c] → [Decidable d] →
      ((if c then (-1 : ℝ) else 1) * (if d then (-1 : ℝ) else 1) = 1 ∨ (if c then (-1 : ℝ) else 1) * (if d then (-1 : ℝ) else 1) = -1) := by
    intro c d _ _; by_cases hc : c <;> by_cases hd : d <;> simp [hc, hd]
  obtain ⟨⟨h1, h2, h3⟩, hx, hp⟩ := h
  simp only [deFlipSpec_apply]
  refine ⟨⟨?_, ?_, ?_⟩, ?_, ?_⟩
  · rw [sgn _ _ (s1 _)]; exact h1
  · rw [sgn _ _ (s12 _ _)]; exact h2
  · rw [sgn _ _ (s1 _)]; exact h3
  · intro x hxm
    exact ⟨by rw [sgn _ _ (s12 _ _)]; exact (hx x hxm).1, by rw [sgn _ _ (s1 _)]; exact (hx x hxm).2⟩
  · intro p hpm
    rw [sgn _ _ (s1 _)]; exact hp p hpm

end CfVerif.C16

/-
Proofs/C16Flight — several `align` calls in flight: whatever the schedule, every call ends with exactly the result of
running it alone, and the shared state is untouched (non-interference).
-/
import CfVerif.Proofs.C16Rot
namespace CfVerif.C16

variable {o : Optimiser ℝ}

/-- what a call in flight will return if it is run to completion on its own -/
noncomputable def Flight.finish (fl : Flight ℝ o) : Except PyErr (List (Nat × Pose ℝ) × Pose ℝ) := do
  let raw ← poseFromParams (o.runFrom (fun p => calcResidual p fl.origin fl.xAxis fl.xyPlane) fl.fuel fl.s)
  alignWith raw fl.xAxis fl.bsPoses

/-- a call that has just started will return what `align` returns with this optimiser as `least_squares` -/
theorem Flight.finish_start (fuel : Nat) (origin : Vec3 ℝ) (xs pl : List (Vec3 ℝ)) (bs : List (Nat × Pose ℝ)) :
    (Flight.start o fuel origin xs pl bs).finish = align (o.lsq fuel) origin xs pl bs := rfl

/-- a step of the call itself does not change what it will return -/
theorem Flight.finish_step (fl : Flight ℝ o) : fl.step.finish = fl.finish := by
  unfold Flight.step
  split
  · rename_i n q hf hn
    unfold Flight.finish
    simp only [hf, Optimiser.runFrom, hn]
  · rfl

/-- the step keeps the call's own arguments -/
theorem Flight.step_args (fl : Flight ℝ o) :
    fl.step.origin = fl.origin ∧ fl.step.xAxis = fl.xAxis ∧ fl.step.xyPlane = fl.xyPlane ∧ fl.step.bsPoses = fl.bsPoses := by
  unfold Flight.step
  split <;> simp

/-- once the optimiser is done, the call returns what running it alone returns -/
theorem Flight.result_of_done (fl : Flight ℝ o) (hd : fl.done = true) : fl.result = fl.finish := by
  unfold Flight.done at hd
  unfold Flight.result Flight.finish
  cases hf : fl.fuel with
  | zero => simp [Optimiser.runFrom]
  | succ n =>
    cases hn : o.next fl.s with
    | none => simp [Optimiser.runFrom, hn]
    | some q => rw [hf, hn] at hd; exact absurd hd (by simp)

theorem modifyAt_length {β : Type} (f : β → β) (i : Nat) (l : List β) : (modifyAt f i l).length = l.length := by
  induction l generalizing i with
  | nil => cases i <;> rfl
  | cons b bs ih => cases i <;> simp [modifyAt, ih]

theorem modifyAt_getElem? {β : Type} (f : β → β) (i j : Nat) (l : List β) :
    (modifyAt f i l)[j]? = if i = j then l[j]?.map f else l[j]? := by
  induction l generalizing i j with
  | nil => cases i <;> simp [modifyAt]
  | cons b bs ih =>
    cases i with
    | zero => cases j <;> simp [modifyAt]
    | succ i =>
      cases j with
      | zero => simp [modifyAt]
      | succ j => simp [modifyAt, ih]

variable {G : Type}

/-- one scheduling step: shared state untouched, same number of calls, every call keeps its arguments and its eventual result -/
theorem World.step_inv (w : World ℝ o G) (i : Nat) :
    (w.step i).shared = w.shared ∧ (w.step i).flights.length = w.flights.length ∧
    ∀ (j : Nat) (fl : Flight ℝ o), w.flights[j]? = some fl → ∃ fl' : Flight ℝ o, (w.step i).flights[j]? = some fl' ∧ fl'.finish = fl.finish ∧
      fl'.origin = fl.origin ∧ fl'.xAxis = fl.xAxis ∧ fl'.xyPlane = fl.xyPlane ∧ fl'.bsPoses = fl.bsPoses := by
  refine ⟨rfl, modifyAt_length _ _ _, ?_⟩
  intro j fl hj
  simp only [World.step, modifyAt_getElem?]
  by_cases hij : i = j
  · simp only [hij, if_true, hj, Option.map_some]
    exact ⟨_, rfl, Flight.finish_step fl, Flight.step_args fl⟩
  · simp only [hij, if_false]
    exact ⟨fl, hj, rfl, rfl, rfl, rfl, rfl⟩

/-- any schedule -/
theorem World.run_inv (schedule : List Nat) : ∀ (w : World ℝ o G),
    (w.run schedule).shared = w.shared ∧ (w.run schedule).flights.length = w.flights.length ∧
    ∀ (j : Nat) (fl : Flight ℝ o), w.flights[j]? = some fl → ∃ fl' : Flight ℝ o, (w.run schedule).flights[j]? = some fl' ∧ fl'.finish = fl.finish ∧
      fl'.origin = fl.origin ∧ fl'.xAxis = fl.xAxis ∧ fl'.xyPlane = fl.xyPlane ∧ fl'.bsPoses = fl.bsPoses := by
  induction schedule with
  | nil => intro w; exact ⟨rfl, rfl, fun j fl hj => ⟨fl, hj, rfl, rfl, rfl, rfl, rfl⟩⟩
  | cons i rest ih =>
    intro w
    obtain ⟨s1, l1, f1⟩ := World.step_inv w i
    obtain ⟨s2, l2, f2⟩ := ih (w.step i)
    refine ⟨by simp only [World.run, List.foldl_cons] at s2 ⊢; rw [s2, s1],
      by simp only [World.run, List.foldl_cons] at l2 ⊢; rw [l2, l1], ?_⟩
    intro j fl hj
    obtain ⟨fl1, h1, e1, a1, a2, a3, a4⟩ := f1 j fl hj
    obtain ⟨fl2, h2, e2, b1, b2, b3, b4⟩ := f2 j fl1 h1
    exact ⟨fl2, by simpa only [World.run, List.foldl_cons] using h2, e2.trans e1, b1.trans a1, b2.trans a2, b3.trans a3, b4.trans a4⟩

end CfVerif.C16

/-
Proofs/C16Heap — the object-level model of `_scale_system`: existing arrays are never written, existing objects never
rebound, results are fresh objects whose values are the scaled input poses (refinement to the value-level `scaleSystem`).
-/
import CfVerif.Proofs.C16
namespace CfVerif.C16

theorem getElem?_append_some {β : Type} {l l' : List β} {i : Nat} {a : β} (h : l[i]? = some a) : (l ++ l')[i]? = some a := by
  have hi : i < l.length := by
    rcases Nat.lt_or_ge i l.length with hlt | hge
    · exact hlt
    · rw [List.getElem?_eq_none_iff.mpr hge] at h; exact absurd h (by simp)
  rw [List.getElem?_append_left hi]; exact h

/-- `h'` extends `h`: every array and every object of `h` is still there, unchanged, at the same address -/
def Heap.Extends (h h' : Heap ℝ) : Prop := (∃ ea, h'.arrays = h.arrays ++ ea) ∧ (∃ eo, h'.objs = h.objs ++ eo)

/-- weaker: arrays extended, number of objects not smaller, objects below address `n` unchanged -/
def Heap.Frame (n : Nat) (h h' : Heap ℝ) : Prop :=
  (∃ ea, h'.arrays = h.arrays ++ ea) ∧ h.objs.length ≤ h'.objs.length ∧ ∀ i, i < n → h'.objs[i]? = h.objs[i]?

theorem Heap.Frame.refl (n : Nat) (h : Heap ℝ) : Heap.Frame n h h := ⟨⟨[], by simp⟩, Nat.le_refl _, fun _ _ => rfl⟩

theorem Heap.Frame.trans {n : Nat} {h1 h2 h3 : Heap ℝ} (a : Heap.Frame n h1 h2) (b : Heap.Frame n h2 h3) : Heap.Frame n h1 h3 := by
  obtain ⟨⟨e1, a1⟩, a2, a3⟩ := a
  obtain ⟨⟨e2, b1⟩, b2, b3⟩ := b
  exact ⟨⟨e1 ++ e2, by rw [b1, a1, List.append_assoc]⟩, Nat.le_trans a2 b2, fun i hi => by rw [b3 i hi, a3 i hi]⟩

/-- values that can be read in `h` read the same in `h'` -/
def Heap.Preserves (h h' : Heap ℝ) : Prop := ∀ q pose, h.deref q = some pose → h'.deref q = some pose

theorem deref_some {h : Heap ℝ} {q : Nat} {pose : Pose ℝ} (hd : h.deref q = some pose) :
    ∃ o, h.objs[q]? = some o ∧ h.arrays[o.r]? = some (.mat pose.R) ∧ h.arrays[o.t]? = some (.vec pose.t) := by
  unfold Heap.deref at hd
  cases ho : h.objs[q]? with
  | none => rw [ho] at hd; exact absurd hd (by simp)
  | some o =>
    rw [ho] at hd
    simp only at hd
    cases hr : h.arrays[o.r]? with
    | none => rw [hr] at hd; exact absurd hd (by simp)
    | some ar =>
      cases ht : h.arrays[o.t]? with
      | none => rw [hr, ht] at hd; cases ar <;> exact absurd hd (by simp)
      | some at' =>
        rw [hr, ht] at hd
        cases ar <;> cases at' <;> simp at hd
        subst hd
        exact ⟨o, rfl, hr, ht⟩

theorem deref_of {h : Heap ℝ} {q : Nat} {o : PoseObj} {m : Mat3 ℝ} {v : Vec3 ℝ} (ho : h.objs[q]? = some o)
    (hr : h.arrays[o.r]? = some (.mat m)) (ht : h.arrays[o.t]? = some (.vec v)) : h.deref q = some ⟨m, v⟩ := by
  unfold Heap.deref; rw [ho]; simp only; rw [hr, ht]

/-! ### `copy.copy(pose)` -/

theorem copyPose_spec {h h1 : Heap ℝ} {p q : Nat} (hc : h.copyPose p = .ok (h1, q)) :
    ∃ o, h.objs[p]? = some o ∧ h1 = { h with objs := h.objs ++ [o] } ∧ q = h.objs.length := by
  unfold Heap.copyPose at hc
  cases ho : h.objs[p]? with
  | none => rw [ho] at hc; exact absurd hc (by simp)
  | some o =>
    rw [ho] at hc
    injection hc with hc
    injection hc with h1e h2e
    exact ⟨o, rfl, h1e.symm, h2e.symm⟩

theorem copyAll_spec (ps : List Nat) : ∀ (h h1 : Heap ℝ) (qs : List Nat), h.copyAll ps = .ok (h1, qs) →
    h1.arrays = h.arrays ∧ (∃ eo, h1.objs = h.objs ++ eo ∧ eo.length = ps.length) ∧
    qs = List.range' h.objs.length ps.length ∧ Heap.Preserves h h1 ∧
    (∀ pq ∈ ps.zip qs, ∀ pose, h.deref pq.1 = some pose → h1.deref pq.2 = some pose) := by
  induction ps with
  | nil =>
    intro h h1 qs hc
    simp only [Heap.copyAll] at hc
    injection hc with hc; injection hc with e1 e2
    subst e1; subst e2
    exact ⟨rfl, ⟨[], by simp, rfl⟩, rfl, fun _ _ hd => hd, by simp⟩
  | cons p ps ih =>
    intro h h1 qs hc
    simp only [Heap.copyAll, bind, Except.bind] at hc
    cases hcp : h.copyPose p with
    | error e => rw [hcp] at hc; exact absurd hc (by simp)
    | ok r =>
      obtain ⟨h', q⟩ := r
      rw [hcp] at hc
      simp only at hc
      cases hca : h'.copyAll ps with
      | error e => rw [hca] at hc; exact absurd hc (by simp)
      | ok r2 =>
        obtain ⟨h2, qs'⟩ := r2
        rw [hca] at hc
        simp only [pure, Except.pure] at hc
        injection hc with hc; injection hc with e1 e2
        subst e1; subst e2
        obtain ⟨o, ho, hh', hq⟩ := copyPose_spec hcp
        obtain ⟨ia, ⟨eo, ieo, ilen⟩, iqs, ipres, izip⟩ := ih h' h2 qs' hca
        have hpres' : Heap.Preserves h h' := by
          intro q0 pose hd
          obtain ⟨o0, h0, hr0, ht0⟩ := deref_some hd
          subst hh'
          exact deref_of (getElem?_append_some h0) hr0 ht0
        have hlen' : h'.objs.length = h.objs.length + 1 := by subst hh'; simp
        refine ⟨by rw [ia]; subst hh'; rfl, ⟨o :: eo, ?_, by simp [ilen]⟩, ?_, fun q0 pose hd => ipres _ _ (hpres' _ _ hd), ?_⟩
        · rw [ieo]; subst hh'; simp
        · rw [iqs, hq, hlen']; simp [List.range']
        · intro pq hpq pose hd
          simp only [List.zip_cons_cons, List.mem_cons] at hpq
          rcases hpq with rfl | hpq
          · -- the copy made first: created in h', preserved afterwards
            apply ipres
            obtain ⟨o0, h0, hr0, ht0⟩ := deref_some hd
            rw [ho] at h0; injection h0 with h0; subst h0
            subst hh'; subst hq
            exact deref_of (by simp) hr0 ht0
          · exact izip pq hpq pose (hpres' _ _ hd)

/-! ### `pose.scale(f)` -/

theorem scalePose_spec {h h1 : Heap ℝ} {q : Nat} {f : ℝ} (hs : h.scalePose q f = .ok h1) :
    ∃ o v, h.objs[q]? = some o ∧ h.arrays[o.t]? = some (.vec v) ∧
      h1 = { arrays := h.arrays ++ [.vec ⟨v.x * f, v.y * f, v.z * f⟩], objs := h.objs.set q { o with t := h.arrays.length } } := by
  unfold Heap.scalePose at hs
  cases ho : h.objs[q]? with
  | none => rw [ho] at hs; exact absurd hs (by simp)
  | some o =>
    rw [ho] at hs
    simp only at hs
    cases ht : h.arrays[o.t]? with
    | none => rw [ht] at hs; exact absurd hs (by simp)
    | some a =>
      rw [ht] at hs
      cases a with
      | mat m => exact absurd hs (by simp)
      | vec v =>
        simp only at hs
        injection hs with hs
        exact ⟨o, v, rfl, ht, hs.symm⟩

theorem scalePose_effect {h h1 : Heap ℝ} {q : Nat} {f : ℝ} (hs : h.scalePose q f = .ok h1) :
    h1.objs.length = h.objs.length ∧ (∃ ea, h1.arrays = h.arrays ++ ea) ∧ (∀ i, i ≠ q → h1.objs[i]? = h.objs[i]?) ∧
    (∀ pose, h.deref q = some pose → h1.deref q = some (pose.scale f)) ∧
    (∀ q', q' ≠ q → ∀ pose, h.deref q' = some pose → h1.deref q' = some pose) := by
  obtain ⟨o, v, ho, ht, rfl⟩ := scalePose_spec hs
  have hq : q < h.objs.length := by
    rcases Nat.lt_or_ge q h.objs.length with hlt | hge
    · exact hlt
    · rw [List.getElem?_eq_none_iff.mpr hge] at ho; exact absurd ho (by simp)
  refine ⟨by simp, ⟨_, rfl⟩, fun i hi => by simp [List.getElem?_set_ne (Ne.symm hi)], ?_, ?_⟩
  · intro pose hd
    obtain ⟨o0, h0, hr0, ht0⟩ := deref_some hd
    rw [ho] at h0; injection h0 with h0; subst h0
    rw [ht] at ht0; injection ht0 with ht0; injection ht0 with ht0
    have : (pose.scale f) = ⟨pose.R, ⟨v.x * f, v.y * f, v.z * f⟩⟩ := by rw [ht0]; rfl
    rw [this]
    apply deref_of (o := { o with t := h.arrays.length })
    · simp [List.getElem?_set_self hq]
    · exact getElem?_append_some hr0
    · simp
  · intro q' hne pose hd
    obtain ⟨o0, h0, hr0, ht0⟩ := deref_some hd
    exact deref_of (by simp [List.getElem?_set_ne (Ne.symm hne), h0]) (getElem?_append_some hr0) (getElem?_append_some ht0)

theorem scaleAll_spec (f : ℝ) (qs : List Nat) : ∀ (h h2 : Heap ℝ), h.scaleAll f qs = .ok h2 → qs.Nodup →
    h2.objs.length = h.objs.length ∧ (∃ ea, h2.arrays = h.arrays ++ ea) ∧ (∀ i, i ∉ qs → h2.objs[i]? = h.objs[i]?) ∧
    (∀ q ∈ qs, ∀ pose, h.deref q = some pose → h2.deref q = some (pose.scale f)) ∧
    (∀ q, q ∉ qs → ∀ pose, h.deref q = some pose → h2.deref q = some pose) := by
  induction qs with
  | nil =>
    intro h h2 hs _
    simp only [Heap.scaleAll] at hs
    injection hs with hs; subst hs
    exact ⟨rfl, ⟨[], by simp⟩, fun _ _ => rfl, by simp, fun _ _ _ hd => hd⟩
  | cons q qs ih =>
    intro h h2 hs hnd
    simp only [Heap.scaleAll, bind, Except.bind] at hs
    cases hsp : h.scalePose q f with
    | error e => rw [hsp] at hs; exact absurd hs (by simp)
    | ok h1 =>
      rw [hsp] at hs
      simp only at hs
      obtain ⟨hqn, hnd'⟩ := List.nodup_cons.mp hnd
      obtain ⟨l1, ⟨ea1, a1⟩, o1, d1, p1⟩ := scalePose_effect hsp
      obtain ⟨l2, ⟨ea2, a2⟩, o2, d2, p2⟩ := ih h1 h2 hs hnd'
      refine ⟨by rw [l2, l1], ⟨ea1 ++ ea2, by rw [a2, a1, List.append_assoc]⟩, ?_, ?_, ?_⟩
      · intro i hi
        simp only [List.mem_cons, not_or] at hi
        rw [o2 i hi.2, o1 i hi.1]
      · intro q' hq' pose hd
        simp only [List.mem_cons] at hq'
        rcases hq' with rfl | hq'
        · exact p2 _ hqn _ (d1 pose hd)
        · have hne : q' ≠ q := fun e => hqn (e ▸ hq')
          exact d2 q' hq' pose (p1 q' hne pose hd)
      · intro q' hq' pose hd
        simp only [List.mem_cons, not_or] at hq'
        exact p2 q' hq'.2 pose (p1 q' hq'.1 pose hd)

theorem range'_nodup (s n : Nat) : (List.range' s n).Nodup := List.nodup_range' (step := 1) (by decide)

theorem mem_range'_ge {s n q : Nat} (h : q ∈ List.range' s n) : s ≤ q ∧ q < s + n := by
  simp [List.mem_range'_1] at h; exact h

/-- NOT the code: what `pose.scale` would do if it were written `self._t_vec *= scale` (in-place on the shared array) -/
def Heap.scalePoseInPlace (h : Heap ℝ) (p : Nat) (f : ℝ) : Except PyErr (Heap ℝ) :=
  match h.objs[p]? with
  | some o =>
    match h.arrays[o.t]? with
    | some (.vec v) => .ok { h with arrays := h.arrays.set o.t (.vec ⟨v.x * f, v.y * f, v.z * f⟩) }
    | _ => .error .other
  | none => .error .other

/-! ### `_scale_system` on the heap -/

/-- the complete statement about `scaleSystemH`; the pieces are restated one by one in Props/C16 -/
theorem scaleSystemH_spec {h h' : Heap ℝ} {bs rb : List (Nat × Nat)} {cf rc : List Nat} {f : ℝ}
    (hs : scaleSystemH h bs cf f = .ok (h', rb, rc)) :
    Heap.Frame h.objs.length h h' ∧
    rb.map (·.1) = bs.map (·.1) ∧ rb.length = bs.length ∧ rc.length = cf.length ∧
    (∀ q ∈ rb.map (·.2) ++ rc, h.objs.length ≤ q) ∧
    (∀ pq ∈ (bs.map (·.2)).zip (rb.map (·.2)) ++ cf.zip rc, ∀ pose, h.deref pq.1 = some pose → h'.deref pq.2 = some (pose.scale f)) ∧
    (∀ p, p < h.objs.length → ∀ pose, h.deref p = some pose → h'.deref p = some pose) := by
  unfold scaleSystemH at hs
  simp only [bind, Except.bind] at hs
  cases hc1 : h.copyAll (bs.map (·.2)) with
  | error e => rw [hc1] at hs; exact absurd hs (by simp)
  | ok r1 =>
    obtain ⟨h1, qb⟩ := r1
    rw [hc1] at hs; simp only at hs
    cases hs1 : h1.scaleAll f qb with
    | error e => rw [hs1] at hs; exact absurd hs (by simp)
    | ok h2 =>
      rw [hs1] at hs; simp only at hs
      cases hc2 : h2.copyAll cf with
      | error e => rw [hc2] at hs; exact absurd hs (by simp)
      | ok r2 =>
        obtain ⟨h3, qc⟩ := r2
        rw [hc2] at hs; simp only at hs
        cases hs2 : h3.scaleAll f qc with
        | error e => rw [hs2] at hs; exact absurd hs (by simp)
        | ok h4 =>
          rw [hs2] at hs
          simp only [pure, Except.pure] at hs
          injection hs with hs; injection hs with e1 e2; injection e2 with e2 e3
          subst e1; subst e2; subst e3
          obtain ⟨a1, ⟨eo1, o1, len1⟩, q1, pr1, z1⟩ := copyAll_spec _ _ _ _ hc1
          have nd1 : qb.Nodup := q1 ▸ range'_nodup _ _
          obtain ⟨l2, ⟨ea2, a2⟩, o2, d2, p2⟩ := scaleAll_spec f qb h1 h2 hs1 nd1
          obtain ⟨a3, ⟨eo3, o3, len3⟩, q3, pr3, z3⟩ := copyAll_spec _ _ _ _ hc2
          have nd3 : qc.Nodup := q3 ▸ range'_nodup _ _
          obtain ⟨l4, ⟨ea4, a4⟩, o4, d4, p4⟩ := scaleAll_spec f qc h3 h4 hs2 nd3
          have hqb : ∀ q ∈ qb, h.objs.length ≤ q ∧ q < h2.objs.length := by
            intro q hq; rw [q1] at hq
            have := mem_range'_ge hq
            rw [l2, o1, List.length_append, len1]
            simpa using this
          have hqc : ∀ q ∈ qc, h2.objs.length ≤ q := by
            intro q hq; rw [q3] at hq; exact (mem_range'_ge hq).1
          have hlen12 : h.objs.length ≤ h2.objs.length := by rw [l2, o1]; simp
          have hlb : qb.length = bs.length := by rw [q1]; simp
          have hlc : qc.length = cf.length := by rw [q3]; simp
          refine ⟨?_, ?_, ?_, hlc, ?_, ?_, ?_⟩
          · -- frame
            refine ⟨⟨ea2 ++ ea4, by rw [a4, a3, a2, a1, List.append_assoc]⟩, ?_, ?_⟩
            · rw [l4, o3, List.length_append]; omega
            · intro i hi
              have hib : i ∉ qb := fun hm => by have := (hqb i hm).1; omega
              have hic : i ∉ qc := fun hm => by have := hqc i hm; omega
              rw [o4 i hic, o3, List.getElem?_append_left (by omega), o2 i hib, o1, List.getElem?_append_left hi]
          · rw [List.map_fst_zip]; simp [hlb]
          · simp [hlb]
          · intro q hq
            rw [List.map_snd_zip (by simp [hlb])] at hq
            rcases List.mem_append.mp hq with hq | hq
            · exact (hqb q hq).1
            · exact Nat.le_trans hlen12 (hqc q hq)
          · intro pq hpq pose hd
            rw [List.map_snd_zip (by simp [hlb])] at hpq
            rcases List.mem_append.mp hpq with hpq | hpq
            · have hq2 : pq.2 ∈ qb := (List.of_mem_zip hpq).2
              have h1d := z1 pq hpq pose hd
              have h2d := d2 pq.2 hq2 pose h1d
              have h3d := pr3 _ _ h2d
              have hnc : pq.2 ∉ qc := fun hm => by have := hqc _ hm; have := (hqb _ hq2).2; omega
              exact p4 _ hnc _ h3d
            · have hq2 : pq.2 ∈ qc := (List.of_mem_zip hpq).2
              have hp1 : pq.1 < h.objs.length := by
                obtain ⟨o0, h0, _, _⟩ := deref_some hd
                rcases Nat.lt_or_ge pq.1 h.objs.length with hlt | hge
                · exact hlt
                · rw [List.getElem?_eq_none_iff.mpr hge] at h0; exact absurd h0 (by simp)
              have hnb : pq.1 ∉ qb := fun hm => by have := (hqb _ hm).1; omega
              have h2d := p2 _ hnb _ (pr1 _ _ hd)
              exact d4 _ hq2 _ (z3 pq hpq pose h2d)
          · intro p hp pose hd
            have hnb : p ∉ qb := fun hm => by have := (hqb _ hm).1; omega
            have hnc : p ∉ qc := fun hm => by have := hqc _ hm; omega
            exact p4 _ hnc _ (pr3 _ _ (p2 _ hnb _ (pr1 _ _ hd)))

/-- objects below the old heap size unchanged + same-or-larger size = the old object list is a prefix -/
theorem prefix_of_frame {h h' : Heap ℝ} (hf : Heap.Frame h.objs.length h h') : Heap.Extends h h' := by
  obtain ⟨ha, hl, ho⟩ := hf
  refine ⟨ha, h'.objs.drop h.objs.length, ?_⟩
  have : h'.objs.take h.objs.length = h.objs := by
    apply List.ext_getElem?
    intro i
    rw [List.getElem?_take]
    split
    · rename_i hi; exact ho i hi
    · rename_i hi; rw [List.getElem?_eq_none_iff.mpr (Nat.le_of_not_lt hi)]
  conv => lhs; rw [← List.take_append_drop h.objs.length h'.objs]
  rw [this]

end CfVerif.C16

/-
Proofs/C16Rot — the rotation-vector stand-in over ℝ: every rotation vector gives a proper rotation; the two flip
rotation vectors of `_de_flip_transformation` give diag(-1,-1,1) and diag(1,-1,-1).
-/
import CfVerif.Proofs.C16
import Mathlib.Analysis.SpecialFunctions.Trigonometric.Basic
namespace CfVerif.C16

noncomputable instance : HasTrig ℝ := ⟨Real.sin, Real.cos, Real.pi⟩

/-- scipy's quaternion → matrix formula yields `|q|²` times a rotation -/
theorem quatToMat_orth (x y z w : ℝ) :
    (quatToMat x y z w).transpose.mul (quatToMat x y z w) =
      (let n := x * x + y * y + z * z + w * w; ⟨n * n, 0, 0, 0, n * n, 0, 0, 0, n * n⟩ : Mat3 ℝ) := by
  simp only [quatToMat, Mat3.transpose, Mat3.mul, Mat3.mk.injEq]
  refine ⟨?_, ?_, ?_, ?_, ?_, ?_, ?_, ?_, ?_⟩ <;> ring

theorem quatToMat_det (x y z w : ℝ) :
    (quatToMat x y z w).det = (x * x + y * y + z * z + w * w) ^ 3 := by
  simp only [quatToMat, Mat3.det]; ring

theorem quatToMat_isProper {x y z w : ℝ} (h : x * x + y * y + z * z + w * w = 1) : (quatToMat x y z w).IsProper := by
  constructor
  · rw [quatToMat_orth]; simp only [h]; simp [Mat3.one]
  · rw [quatToMat_det, h]; ring

theorem Vec3.dot_self_nonneg (v : Vec3 ℝ) : 0 ≤ v.dot v := by
  simp only [Vec3.dot]; nlinarith [mul_self_nonneg v.x, mul_self_nonneg v.y, mul_self_nonneg v.z]

theorem rotVecToMat_of_pos (v : Vec3 ℝ) (θ : ℝ) (hθ : v.norm = θ) (hpos : 0 < θ) :
    rotVecToMat v = quatToMat (Real.sin (θ / 2) / θ * v.x) (Real.sin (θ / 2) / θ * v.y) (Real.sin (θ / 2) / θ * v.z)
      (Real.cos (θ / 2)) := by
  have h2 : (1 + 1 : ℝ) = 2 := by norm_num
  simp only [rotVecToMat, hθ, if_pos hpos, HasTrig.sin, HasTrig.cos, h2]

theorem rotVecToMat_of_zero (v : Vec3 ℝ) (hθ : v.norm = 0) :
    rotVecToMat v = quatToMat (1 / 2 * v.x) (1 / 2 * v.y) (1 / 2 * v.z) 1 := by
  have h2 : (1 + 1 : ℝ) = 2 := by norm_num
  simp only [rotVecToMat, hθ, lt_irrefl, if_false, HasTrig.cos, h2, zero_div, Real.cos_zero]

/-- LIBRARY STAND-IN is a rotation: for EVERY rotation vector the matrix is proper orthogonal -/
theorem rotVecToMat_isProper (v : Vec3 ℝ) : (rotVecToMat v).IsProper := by
  have hd := Vec3.dot_self_nonneg v
  have hn : v.norm = Real.sqrt (v.dot v) := rfl
  have hsq : v.norm * v.norm = v.dot v := by rw [hn]; exact Real.mul_self_sqrt hd
  have hdot : v.dot v = v.x * v.x + v.y * v.y + v.z * v.z := rfl
  by_cases hpos : 0 < v.norm
  · rw [rotVecToMat_of_pos v v.norm rfl hpos]
    apply quatToMat_isProper
    have hne : v.norm ≠ 0 := ne_of_gt hpos
    have hsc := Real.sin_sq_add_cos_sq (v.norm / 2)
    have e : Real.sin (v.norm / 2) / v.norm * v.x * (Real.sin (v.norm / 2) / v.norm * v.x)
        + Real.sin (v.norm / 2) / v.norm * v.y * (Real.sin (v.norm / 2) / v.norm * v.y)
        + Real.sin (v.norm / 2) / v.norm * v.z * (Real.sin (v.norm / 2) / v.norm * v.z)
        = Real.sin (v.norm / 2) ^ 2 * ((v.x * v.x + v.y * v.y + v.z * v.z) / (v.norm * v.norm)) := by
      field_simp
    rw [e, ← hdot, ← hsq, div_self (mul_ne_zero hne hne)]
    nlinarith [hsc]
  · have h0 : v.norm = 0 := le_antisymm (not_lt.mp hpos) (by rw [hn]; exact Real.sqrt_nonneg _)
    rw [rotVecToMat_of_zero v h0]
    apply quatToMat_isProper
    have hv : v.x * v.x + v.y * v.y + v.z * v.z = 0 := by rw [← hdot, ← hsq, h0]; ring
    nlinarith [hv]

theorem Pose.fromRotVec_isProperRigid (rv t : Vec3 ℝ) : (Pose.fromRotVec rv t).IsProperRigid :=
  rotVecToMat_isProper rv

theorem norm_pi_axis_z : (⟨0, 0, Real.pi⟩ : Vec3 ℝ).norm = Real.pi := by
  show Real.sqrt (0 * 0 + 0 * 0 + Real.pi * Real.pi) = Real.pi
  rw [show (0 : ℝ) * 0 + 0 * 0 + Real.pi * Real.pi = Real.pi * Real.pi by ring]
  exact Real.sqrt_mul_self Real.pi_pos.le

theorem norm_pi_axis_x : (⟨Real.pi, 0, 0⟩ : Vec3 ℝ).norm = Real.pi := by
  show Real.sqrt (Real.pi * Real.pi + 0 * 0 + 0 * 0) = Real.pi
  rw [show Real.pi * Real.pi + (0 : ℝ) * 0 + 0 * 0 = Real.pi * Real.pi by ring]
  exact Real.sqrt_mul_self Real.pi_pos.le

/-- `Pose.from_rot_vec(R_vec=(0.0, 0.0, np.pi))` is the half turn about Z: diag(-1, -1, 1) -/
theorem flipPose_z : (flipPose 2 : Pose ℝ) = ⟨⟨-1, 0, 0, 0, -1, 0, 0, 0, 1⟩, Vec3.zero⟩ := by
  have hv : (flipVec 2 : Vec3 ℝ) = ⟨0, 0, Real.pi⟩ := by simp [flipVec, HasTrig.pi]
  have hp : 1 / Real.pi * Real.pi = 1 := by field_simp
  simp only [flipPose, Pose.fromRotVec, hv, rotVecToMat_of_pos _ _ norm_pi_axis_z Real.pi_pos, Real.sin_pi_div_two,
    Real.cos_pi_div_two, hp, mul_zero, quatToMat]
  norm_num

/-- `Pose.from_rot_vec(R_vec=(np.pi, 0.0, 0.0))` is the half turn about X: diag(1, -1, -1) -/
theorem flipPose_x : (flipPose 0 : Pose ℝ) = ⟨⟨1, 0, 0, 0, -1, 0, 0, 0, -1⟩, Vec3.zero⟩ := by
  have hv : (flipVec 0 : Vec3 ℝ) = ⟨Real.pi, 0, 0⟩ := by simp [flipVec, HasTrig.pi]
  have hp : 1 / Real.pi * Real.pi = 1 := by field_simp
  simp only [flipPose, Pose.fromRotVec, hv, rotVecToMat_of_pos _ _ norm_pi_axis_x Real.pi_pos, Real.sin_pi_div_two,
    Real.cos_pi_div_two, hp, mul_zero, quatToMat]
  norm_num

end CfVerif.C16

/-
Proofs/C16Scale — the scaler over ℝ: uniform scaling, exactness of the reference distance / mean sensor diagonal,
ray ∩ deck-plane intersection.
-/
import CfVerif.Proofs.C16
import Mathlib.Tactic.FieldSimp
import Mathlib.Tactic.LinearCombination
namespace CfVerif.C16

theorem Vec3.norm_nonneg (v : Vec3 ℝ) : 0 ≤ v.norm := Real.sqrt_nonneg _

theorem Vec3.norm_smul (v : Vec3 ℝ) (f : ℝ) : (v.smul f).norm = |f| * v.norm := by
  simp only [Vec3.norm, Vec3.smul, Vec3.dot, HasSqrt.sqrt]
  rw [show v.x * f * (v.x * f) + v.y * f * (v.y * f) + v.z * f * (v.z * f) = f * f * (v.x * v.x + v.y * v.y + v.z * v.z) by ring,
    Real.sqrt_mul (mul_self_nonneg f), Real.sqrt_mul_self_eq_abs]

theorem Vec3.smul_sub (a b : Vec3 ℝ) (f : ℝ) : (a.smul f).sub (b.smul f) = (a.sub b).smul f := by
  simp only [Vec3.smul, Vec3.sub, Vec3.mk.injEq]
  refine ⟨?_, ?_, ?_⟩ <;> ring

/-- scaling the reference pose by `|expected| / |actual|` puts it exactly at the expected distance -/
theorem reference_distance_exact (expected t : Vec3 ℝ) (ht : t.norm ≠ 0) :
    (t.smul (expected.norm / t.norm)).norm = expected.norm := by
  rw [Vec3.norm_smul, abs_of_nonneg (div_nonneg expected.norm_nonneg t.norm_nonneg)]
  field_simp

/-! ### intersection of a base-station ray with the deck plane -/

theorem deckNormalVec_eq (h : Gen.C16.deckNormal = [0, 0, 1]) : (deckNormalVec : Except PyErr (Vec3 ℝ)) = .ok ⟨0, 0, 1⟩ := by
  unfold deckNormalVec; rw [h]; simp [natCast]

/-- the deck normal in the global frame: third column of the Crazyflie's rotation matrix -/
def deckNormalOf (cf : Pose ℝ) : Vec3 ℝ := cf.R.mulVec ⟨0, 0, 1⟩

/-- the intersection parameter `dist_on_line` -/
noncomputable def distOnLine (cart : Vec3 ℝ) (bs cf : Pose ℝ) : ℝ :=
  (cf.t.sub bs.t).dot (deckNormalOf cf) / (bs.R.mulVec cart).dot (deckNormalOf cf)

theorem calcIntersectionPoint_eq (h : Gen.C16.deckNormal = [0, 0, 1]) (cart : Vec3 ℝ) (bs cf : Pose ℝ) :
    calcIntersectionPoint cart bs cf = .ok (bs.t.add ((bs.R.mulVec cart).smul (distOnLine cart bs cf))) := by
  unfold calcIntersectionPoint
  rw [deckNormalVec_eq h]
  rfl

/-- the returned point lies in the deck plane (through the Crazyflie position, normal = deck z axis) whenever the ray is
not parallel to the deck -/
theorem intersection_on_plane (cart : Vec3 ℝ) (bs cf : Pose ℝ) (hnp : (bs.R.mulVec cart).dot (deckNormalOf cf) ≠ 0) :
    ((bs.t.add ((bs.R.mulVec cart).smul (distOnLine cart bs cf))).sub cf.t).dot (deckNormalOf cf) = 0 := by
  unfold distOnLine
  generalize deckNormalOf cf = n at *
  generalize bs.R.mulVec cart = l at *
  have hd : ((cf.t.sub bs.t).dot n / l.dot n) * l.dot n = (cf.t.sub bs.t).dot n := div_mul_cancel₀ _ hnp
  generalize (cf.t.sub bs.t).dot n / l.dot n = d at *
  simp only [Vec3.dot, Vec3.sub, Vec3.add, Vec3.smul] at *
  linear_combination hd

/-- it is the ONLY point of the line `bs.t + s · (R_bs · cart)` in that plane -/
theorem intersection_unique (cart : Vec3 ℝ) (bs cf : Pose ℝ) (hnp : (bs.R.mulVec cart).dot (deckNormalOf cf) ≠ 0) (s : ℝ)
    (hs : ((bs.t.add ((bs.R.mulVec cart).smul s)).sub cf.t).dot (deckNormalOf cf) = 0) : s = distOnLine cart bs cf := by
  unfold distOnLine
  generalize deckNormalOf cf = n at *
  generalize bs.R.mulVec cart = l at *
  rw [eq_div_iff hnp]
  simp only [Vec3.dot, Vec3.sub, Vec3.add, Vec3.smul] at *
  linear_combination hs

/-! ### scaling the whole system scales every intersection point, hence every diagonal -/

theorem distOnLine_scale (cart : Vec3 ℝ) (bs cf : Pose ℝ) (f : ℝ) :
    distOnLine cart (bs.scale f) (cf.scale f) = distOnLine cart bs cf * f := by
  unfold distOnLine deckNormalOf Pose.scale
  simp only []
  rw [Vec3.smul_sub]
  generalize cf.R.mulVec ⟨0, 0, 1⟩ = n
  generalize bs.R.mulVec cart = l
  generalize cf.t.sub bs.t = d
  simp only [Vec3.dot, Vec3.smul]
  ring

theorem intersection_scale (cart : Vec3 ℝ) (bs cf : Pose ℝ) (f : ℝ) :
    (bs.scale f).t.add (((bs.scale f).R.mulVec cart).smul (distOnLine cart (bs.scale f) (cf.scale f))) =
      (bs.t.add ((bs.R.mulVec cart).smul (distOnLine cart bs cf))).smul f := by
  rw [distOnLine_scale]
  simp only [Pose.scale, Vec3.add, Vec3.smul, Vec3.mk.injEq]
  refine ⟨?_, ?_, ?_⟩ <;> ring

theorem calcIntersectionDistance_scale (h : Gen.C16.deckNormal = [0, 0, 1]) (c1 c2 : Vec3 ℝ) (bs cf : Pose ℝ) (f : ℝ) :
    calcIntersectionDistance c1 c2 (bs.scale f) (cf.scale f) = (calcIntersectionDistance c1 c2 bs cf).map (|f| * ·) := by
  unfold calcIntersectionDistance
  simp only [calcIntersectionPoint_eq h, bind, Except.bind, pure, Except.pure, Except.map]
  rw [intersection_scale, intersection_scale, Vec3.smul_sub, Vec3.norm_smul]

theorem lookupBs_scale (bs : List (Nat × Pose ℝ)) (f : ℝ) (k : Nat) :
    lookupBs (bs.map fun kv => (kv.1, kv.2.scale f)) k = (lookupBs bs k).map (·.scale f) := by
  unfold lookupBs
  induction bs with
  | nil => rfl
  | cons kv bs ih =>
    simp only [List.map_cons, List.find?_cons]
    by_cases hk : (kv.1 == k) = true
    · simp [hk, Except.map]
    · simp only [hk]; exact ih

theorem oneDiagonal_scale (h : Gen.C16.deckNormal = [0, 0, 1]) (bs : List (Nat × Pose ℝ)) (cf : Pose ℝ) (f : ℝ) (k : Nat)
    (vectors : List (Vec3 ℝ)) (ij : Nat × Nat) :
    oneDiagonal (bs.map fun kv => (kv.1, kv.2.scale f)) (cf.scale f) k vectors ij =
      (oneDiagonal bs cf k vectors ij).map (|f| * ·) := by
  unfold oneDiagonal
  rw [lookupBs_scale]
  cases vectors[ij.1]? <;> cases vectors[ij.2]? <;> cases lookupBs bs k <;>
    simp [bind, Except.bind, pure, Except.pure, throw, throwThe, MonadExceptOf.throw, Except.map, calcIntersectionDistance_scale h]

theorem mapE_exceptMap {β γ δ : Type} (g : β → Except PyErr γ) (hf : γ → δ) (l : List β) :
    mapE (fun b => (g b).map hf) l = (mapE g l).map (List.map hf) := by
  induction l with
  | nil => rfl
  | cons b bs ih =>
    simp only [mapE, ih]
    cases g b <;> cases mapE g bs <;> simp [Except.map]

theorem mapE_congr {β γ : Type} {g g' : β → Except PyErr γ} (l : List β) (h : ∀ b ∈ l, g b = g' b) : mapE g l = mapE g' l := by
  induction l with
  | nil => rfl
  | cons b bs ih =>
    simp only [mapE, h b (List.mem_cons_self ..), ih (fun c hc => h c (List.mem_cons_of_mem _ hc))]

theorem mapE_zip_scale {γ σ : Type} (g : Pose ℝ × σ → Except PyErr γ) (cf : List (Pose ℝ)) (samples : List σ) (f : ℝ) :
    mapE g ((cf.map (·.scale f)).zip samples) = mapE (fun cs => g (cs.1.scale f, cs.2)) (cf.zip samples) := by
  induction cf generalizing samples with
  | nil => rfl
  | cons c cf ih =>
    cases samples with
    | nil => rfl
    | cons s samples => simp only [List.map_cons, List.zip_cons_cons, mapE, ih]

theorem diagonals_scale (h : Gen.C16.deckNormal = [0, 0, 1]) (bs : List (Nat × Pose ℝ)) (cf : List (Pose ℝ))
    (samples : List (List (Nat × List (Vec3 ℝ)))) (f : ℝ) :
    diagonals (bs.map fun kv => (kv.1, kv.2.scale f)) (cf.map (·.scale f)) samples =
      (diagonals bs cf samples).map (List.map (|f| * ·)) := by
  unfold diagonals
  rw [mapE_zip_scale]
  simp only [oneDiagonal_scale h, mapE_exceptMap]
  cases mapE (fun cs : Pose ℝ × List (Nat × List (Vec3 ℝ)) =>
      mapE (fun bv => mapE (fun ij => oneDiagonal bs cs.1 bv.1 bv.2 ij) Gen.C16.diagPairs) cs.2) (cf.zip samples) with
  | error e => rfl
  | ok per =>
    simp only [Except.map, bind, Except.bind, pure, Except.pure, List.map_flatten]

theorem foldl_add_real (l : List ℝ) (a : ℝ) : l.foldl (· + ·) a = a + lsum l := by
  induction l generalizing a with
  | nil => simp [lsum]
  | cons v l ih =>
    simp only [lsum, List.foldl_cons]
    rw [ih, ih (0 + v)]; ring

theorem lsum_cons (v : ℝ) (l : List ℝ) : lsum (v :: l) = v + lsum l := by
  show (v :: l).foldl (· + ·) 0 = v + lsum l
  rw [List.foldl_cons, foldl_add_real]; ring

theorem lsum_map_mul (a : ℝ) (l : List ℝ) : lsum (l.map (a * ·)) = a * lsum l := by
  induction l with
  | nil => simp [lsum]
  | cons v l ih => rw [List.map_cons, lsum_cons, lsum_cons, ih]; ring

theorem meanList_map_mul (a : ℝ) (l : List ℝ) : meanList (l.map (a * ·)) = a * meanList l := by
  unfold meanList
  rw [lsum_map_mul, List.length_map, mul_div_assoc]

/-- scaling every translation by `f` multiplies the mean sensor diagonal by `|f|` -/
theorem calculateMeanDiagonal_scale (h : Gen.C16.deckNormal = [0, 0, 1]) (bs : List (Nat × Pose ℝ)) (cf : List (Pose ℝ))
    (samples : List (List (Nat × List (Vec3 ℝ)))) (f : ℝ) :
    calculateMeanDiagonal (bs.map fun kv => (kv.1, kv.2.scale f)) (cf.map (·.scale f)) samples =
      (calculateMeanDiagonal bs cf samples).map (|f| * ·) := by
  unfold calculateMeanDiagonal
  rw [diagonals_scale h]
  cases diagonals bs cf samples with
  | error e => rfl
  | ok l => simp only [Except.map, bind, Except.bind, pure, Except.pure, meanList_map_mul]

/-- `scale_diagonals`: the mean sensor diagonal of the scaled system is exactly the expected one -/
theorem scaleDiagonals_exact (h : Gen.C16.deckNormal = [0, 0, 1]) (bs : List (Nat × Pose ℝ)) (cf : List (Pose ℝ))
    (samples : List (List (Nat × List (Vec3 ℝ)))) (expected est : ℝ) (hest : calculateMeanDiagonal bs cf samples = .ok est)
    (hpos : 0 < est) (hexp : 0 ≤ expected) :
    ∃ bs' cf', scaleDiagonals bs cf samples expected = .ok (bs', cf', expected / est) ∧
      calculateMeanDiagonal bs' cf' samples = .ok expected := by
  refine ⟨bs.map fun kv => (kv.1, kv.2.scale (expected / est)), cf.map (·.scale (expected / est)), ?_, ?_⟩
  · unfold scaleDiagonals
    rw [hest]; rfl
  · rw [calculateMeanDiagonal_scale h, hest]
    simp only [Except.map]
    rw [abs_of_nonneg (div_nonneg hexp hpos.le)]
    congr 1
    field_simp

end CfVerif.C16

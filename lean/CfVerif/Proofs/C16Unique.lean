/-
Proofs/C16Unique — the aligned transformation is unique: two proper rigid maps with zero residual that both put an x-axis
sample at X > 0 and a reference point (the first base station) at Z > 0 are EQUAL, provided some plane sample is off the
X axis.  Hence, after convergence, `align` returns THE alignment: every base station is where it truly is (above the floor).
-/
import CfVerif.Proofs.C16Align
import Mathlib.Tactic.LinearCombination
namespace CfVerif.C16

def Mat3.adj (m : Mat3 ℝ) : Mat3 ℝ :=
  ⟨m.a22 * m.a33 - m.a23 * m.a32, m.a13 * m.a32 - m.a12 * m.a33, m.a12 * m.a23 - m.a13 * m.a22,
   m.a23 * m.a31 - m.a21 * m.a33, m.a11 * m.a33 - m.a13 * m.a31, m.a13 * m.a21 - m.a11 * m.a23,
   m.a21 * m.a32 - m.a22 * m.a31, m.a12 * m.a31 - m.a11 * m.a32, m.a11 * m.a22 - m.a12 * m.a21⟩

theorem Mat3.mul_adj (m : Mat3 ℝ) : m.mul m.adj = ⟨m.det, 0, 0, 0, m.det, 0, 0, 0, m.det⟩ := by
  simp only [Mat3.mul, Mat3.adj, Mat3.det, Mat3.mk.injEq]
  refine ⟨?_, ?_, ?_, ?_, ?_, ?_, ?_, ?_, ?_⟩ <;> ring

theorem Mat3.det_transpose (m : Mat3 ℝ) : m.transpose.det = m.det := by
  simp only [Mat3.transpose, Mat3.det]; ring

theorem Mat3.transpose_transpose (m : Mat3 ℝ) : m.transpose.transpose = m := rfl

/-- a left inverse of a 3×3 real matrix is a right inverse: `RᵀR = I → RRᵀ = I` -/
theorem Mat3.mul_transpose_of_orth {m : Mat3 ℝ} (h : m.transpose.mul m = Mat3.one) (hd : m.det ≠ 0) :
    m.mul m.transpose = Mat3.one := by
  have h1 : (m.mul m.transpose).mul (m.mul m.adj) = m.mul m.adj := by
    rw [← Mat3.mul_assoc' (m.mul m.transpose), Mat3.mul_assoc' m m.transpose m, h, Mat3.mul_one']
  rw [Mat3.mul_adj] at h1
  generalize m.mul m.transpose = M at h1
  obtain ⟨a, b, c, d, e, f, g, i, j⟩ := M
  simp only [Mat3.mul, Mat3.mk.injEq, mul_zero, add_zero, zero_add] at h1
  obtain ⟨h11, h12, h13, h21, h22, h23, h31, h32, h33⟩ := h1
  simp only [Mat3.one, Mat3.mk.injEq]
  refine ⟨?_, ?_, ?_, ?_, ?_, ?_, ?_, ?_, ?_⟩
  · exact mul_right_cancel₀ hd (by linarith)
  · exact (mul_eq_zero.mp h12).resolve_right hd
  · exact (mul_eq_zero.mp h13).resolve_right hd
  · exact (mul_eq_zero.mp h21).resolve_right hd
  · exact mul_right_cancel₀ hd (by linarith)
  · exact (mul_eq_zero.mp h23).resolve_right hd
  · exact (mul_eq_zero.mp h31).resolve_right hd
  · exact (mul_eq_zero.mp h32).resolve_right hd
  · exact mul_right_cancel₀ hd (by linarith)

theorem Mat3.IsProper.transpose {m : Mat3 ℝ} (h : m.IsProper) : m.transpose.IsProper := by
  refine ⟨?_, by rw [Mat3.det_transpose]; exact h.2⟩
  rw [Mat3.transpose_transpose]
  exact Mat3.mul_transpose_of_orth h.1 (by rw [h.2]; norm_num)

/-- a proper rotation that keeps the positive X axis, keeps a point off the X axis inside the plane Z = 0, and keeps
some point on the positive side of that plane is the identity -/
theorem rot_fix_unique {Q : Mat3 ℝ} (hQ : Q.IsProper) {α β e1 e2 g1 g2 g3 : ℝ} (hα : 0 < α) (hβ : 0 ≤ β)
    (hx : Q.mulVec ⟨α, 0, 0⟩ = ⟨β, 0, 0⟩) (he : (Q.mulVec ⟨e1, e2, 0⟩).z = 0) (he2 : e2 ≠ 0) (hg : 0 < g3)
    (hk : 0 ≤ (Q.mulVec ⟨g1, g2, g3⟩).z) : Q = Mat3.one := by
  obtain ⟨horth, hdet⟩ := hQ
  obtain ⟨q11, q12, q13, q21, q22, q23, q31, q32, q33⟩ := Q
  simp only [Mat3.mulVec, Vec3.mk.injEq, mul_zero, add_zero] at hx he hk
  obtain ⟨hx1, hx2, hx3⟩ := hx
  have h21 : q21 = 0 := (mul_eq_zero.mp hx2).resolve_right (ne_of_gt hα)
  have h31 : q31 = 0 := (mul_eq_zero.mp hx3).resolve_right (ne_of_gt hα)
  subst h21; subst h31
  simp only [Mat3.transpose, Mat3.mul, Mat3.one, Mat3.mk.injEq, mul_zero, zero_mul, add_zero] at horth
  obtain ⟨o11, o12, o13, _, o22, o23, _, _, o33⟩ := horth
  have hq11 : q11 = 1 := by
    have hp : 0 ≤ q11 := by
      by_contra hn
      have : q11 * α < 0 := mul_neg_of_neg_of_pos (not_le.mp hn) hα
      linarith
    nlinarith [o11]
  subst hq11
  have h12 : q12 = 0 := by linarith
  have h13 : q13 = 0 := by linarith
  subst h12; subst h13
  have h32 : q32 = 0 := by
    simp only [zero_mul, zero_add] at he
    exact (mul_eq_zero.mp he).resolve_right he2
  subst h32
  simp only [mul_zero, zero_mul, add_zero, zero_add] at o22 o23 o33 hk
  simp only [Mat3.det, mul_zero, zero_mul, sub_zero, add_zero, one_mul] at hdet
  have hq22 : q22 ≠ 0 := by intro h; rw [h] at o22; norm_num at o22
  have h23 : q23 = 0 := (mul_eq_zero.mp o23).resolve_left hq22
  subst h23
  simp only [mul_zero, zero_add] at o33
  have hq33p : 0 ≤ q33 := by
    by_contra hn
    have : q33 * g3 < 0 := mul_neg_of_neg_of_pos (not_le.mp hn) hg
    linarith
  have hq33 : q33 = 1 := by nlinarith [o33]
  subst hq33
  have hq22' : q22 = 1 := by linarith
  subst hq22'
  rfl

/-- images under a rigid map that sends `o` to 0, expressed through the rotation only -/
theorem image_eq_rot_sub {T : Pose ℝ} {o : Vec3 ℝ} (ho : T.rotateTranslate o = Vec3.zero) (p : Vec3 ℝ) :
    T.rotateTranslate p = T.R.mulVec (p.sub o) := by
  rw [← Pose.rotateTranslate_sub, ho]
  simp [Vec3.sub, Vec3.zero]

/-- two rigid maps that both send `o` to 0 differ by the rotation `R₂ R₁ᵀ` -/
theorem image_rel {T1 T2 : Pose ℝ} (h1 : T1.R.transpose.mul T1.R = Mat3.one) {o : Vec3 ℝ}
    (ho1 : T1.rotateTranslate o = Vec3.zero) (ho2 : T2.rotateTranslate o = Vec3.zero) (p : Vec3 ℝ) :
    T2.rotateTranslate p = (T2.R.mul T1.R.transpose).mulVec (T1.rotateTranslate p) := by
  rw [image_eq_rot_sub ho1, image_eq_rot_sub ho2, Mat3.mulVec_mul, ← Mat3.mulVec_mul T1.R.transpose, h1, Mat3.one_mulVec]

theorem vec_x_only (v : Vec3 ℝ) (hy : v.y = 0) (hz : v.z = 0) : v = ⟨v.x, 0, 0⟩ := by
  obtain ⟨a, b, c⟩ := v
  simp only at hy hz
  subst hy; subst hz; rfl

theorem vec_xy_only (v : Vec3 ℝ) (hz : v.z = 0) : v = ⟨v.x, v.y, 0⟩ := by
  obtain ⟨a, b, c⟩ := v
  simp only at hz
  subst hz; rfl

/-- **uniqueness of the alignment**: two proper rigid maps sending `o` to 0, a point `m` onto the X axis (one strictly
positive, the other non-negative), a point `p` off the X axis into the plane Z = 0, and a point `g` to the non-negative
side of it (one strictly) are equal -/
theorem aligned_unique_aux {T1 T2 : Pose ℝ} (hT1 : T1.IsProperRigid) (hT2 : T2.IsProperRigid) {o m p g : Vec3 ℝ}
    (ho1 : T1.rotateTranslate o = Vec3.zero) (ho2 : T2.rotateTranslate o = Vec3.zero)
    (hm1 : (T1.rotateTranslate m).y = 0 ∧ (T1.rotateTranslate m).z = 0) (hm1p : 0 < (T1.rotateTranslate m).x)
    (hm2 : (T2.rotateTranslate m).y = 0 ∧ (T2.rotateTranslate m).z = 0) (hm2p : 0 ≤ (T2.rotateTranslate m).x)
    (hp1 : (T1.rotateTranslate p).z = 0) (hp1y : (T1.rotateTranslate p).y ≠ 0) (hp2 : (T2.rotateTranslate p).z = 0)
    (hg1 : 0 < (T1.rotateTranslate g).z) (hg2 : 0 ≤ (T2.rotateTranslate g).z) : T1 = T2 := by
  have hrel := image_rel hT1.1 ho1 ho2
  have hQ : (T2.R.mul T1.R.transpose).IsProper := Mat3.IsProper.mul hT2 (Mat3.IsProper.transpose hT1)
  have hQ1 : T2.R.mul T1.R.transpose = Mat3.one := by
    have ex1 : T1.rotateTranslate m = ⟨(T1.rotateTranslate m).x, 0, 0⟩ := vec_x_only _ hm1.1 hm1.2
    have ex2 : T2.rotateTranslate m = ⟨(T2.rotateTranslate m).x, 0, 0⟩ := vec_x_only _ hm2.1 hm2.2
    have ep1 : T1.rotateTranslate p = ⟨(T1.rotateTranslate p).x, (T1.rotateTranslate p).y, 0⟩ := vec_xy_only _ hp1
    have eg1 : T1.rotateTranslate g = ⟨(T1.rotateTranslate g).x, (T1.rotateTranslate g).y, (T1.rotateTranslate g).z⟩ := rfl
    refine rot_fix_unique hQ (e1 := (T1.rotateTranslate p).x) (g1 := (T1.rotateTranslate g).x)
      (g2 := (T1.rotateTranslate g).y) hm1p hm2p ?_ ?_ hp1y hg1 ?_
    · rw [← ex1, ← hrel, ← ex2]
    · rw [← ep1, ← hrel]; exact hp2
    · rw [← eg1, ← hrel]; exact hg2
  have hR : T2.R = T1.R := by
    have := congrArg (fun M => M.mul T1.R) hQ1
    simp only [Mat3.mul_assoc', hT1.1, Mat3.mul_one', Mat3.one_mul'] at this
    exact this
  have ht : T2.t = T1.t := by
    have e1 := ho1
    have e2 := ho2
    simp only [Pose.rotateTranslate, hR] at e1 e2
    generalize T1.R.mulVec o = w at e1 e2
    simp only [Vec3.add, Vec3.zero, Vec3.mk.injEq] at e1 e2
    obtain ⟨a1, a2, a3⟩ := e1
    obtain ⟨b1, b2, b3⟩ := e2
    cases h1 : T1.t; cases h2 : T2.t
    simp only [h1, h2] at a1 a2 a3 b1 b2 b3
    simp only [Vec3.mk.injEq]
    exact ⟨by linarith, by linarith, by linarith⟩
  cases T1; cases T2
  simp only at hR ht
  rw [hR, ht]

/-! ### the mean of the x-axis samples under an affine map -/

theorem vsum_map_image (T : Pose ℝ) (xs : List (Vec3 ℝ)) :
    vsum (xs.map T.rotateTranslate) = (T.R.mulVec (vsum xs)).add (T.t.smul (xs.length : ℝ)) := by
  induction xs with
  | nil => simp [vsum, Mat3.mulVec, Vec3.add, Vec3.smul, Vec3.zero]
  | cons x xs ih =>
    rw [List.map_cons, vsum_cons, vsum_cons, ih]
    simp only [Pose.rotateTranslate, Mat3.mulVec, Vec3.add, Vec3.smul, List.length_cons, Nat.cast_succ, Vec3.mk.injEq]
    refine ⟨?_, ?_, ?_⟩ <;> ring

/-- an affine map sends the mean to the mean of the images -/
theorem mean_image (T : Pose ℝ) (xs : List (Vec3 ℝ)) (hne : xs ≠ []) :
    T.rotateTranslate (meanVec xs) = meanVec (xs.map T.rotateTranslate) := by
  have hn : (xs.length : ℝ) ≠ 0 := by
    have : xs.length ≠ 0 := by simpa [List.length_eq_zero_iff] using hne
    exact_mod_cast this
  unfold meanVec
  rw [vsum_map_image, List.length_map, natCast_real]
  simp only [Pose.rotateTranslate, Mat3.mulVec, Vec3.add, Vec3.smul, Vec3.divS, Vec3.mk.injEq]
  refine ⟨?_, ?_, ?_⟩ <;> field_simp

theorem vsum_comp (l : List (Vec3 ℝ)) :
    (vsum l).x = (l.map (·.x)).sum ∧ (vsum l).y = (l.map (·.y)).sum ∧ (vsum l).z = (l.map (·.z)).sum := by
  induction l with
  | nil => simp [vsum, Vec3.zero]
  | cons v l ih => rw [vsum_cons]; simp [Vec3.add, ih.1, ih.2.1, ih.2.2]

theorem sum_zero_of_all_zero (l : List ℝ) (h : ∀ c ∈ l, c = 0) : l.sum = 0 := by
  induction l with
  | nil => rfl
  | cons c l ih =>
    rw [List.sum_cons, h c (List.mem_cons_self ..), ih (fun d hd => h d (List.mem_cons_of_mem _ hd))]; ring

/-- the mean of points on the X axis is on the X axis; of points with X > 0 has X > 0 -/
theorem mean_on_axis (l : List (Vec3 ℝ)) (h : ∀ v ∈ l, v.y = 0 ∧ v.z = 0) :
    (meanVec l).y = 0 ∧ (meanVec l).z = 0 := by
  obtain ⟨_, hy, hz⟩ := vsum_comp l
  simp only [meanVec, Vec3.divS, hy, hz]
  rw [sum_zero_of_all_zero _ (by intro c hc; obtain ⟨v, hv, rfl⟩ := List.mem_map.mp hc; exact (h v hv).1),
    sum_zero_of_all_zero _ (by intro c hc; obtain ⟨v, hv, rfl⟩ := List.mem_map.mp hc; exact (h v hv).2)]
  simp

theorem mean_x_pos (l : List (Vec3 ℝ)) (hne : l ≠ []) (h : ∀ v ∈ l, 0 < v.x) : 0 < (meanVec l).x := by
  obtain ⟨hx, _, _⟩ := vsum_comp l
  simp only [meanVec, Vec3.divS, hx, natCast_real]
  have hl : (0 : ℝ) < l.length := by
    have : l.length ≠ 0 := by simpa [List.length_eq_zero_iff] using hne
    exact_mod_cast Nat.pos_of_ne_zero this
  apply div_pos _ hl
  apply list_sum_pos (by simpa using hne)
  intro c hc
  obtain ⟨v, hv, rfl⟩ := List.mem_map.mp hc
  exact h v hv

end CfVerif.C16

/-
Proofs/C17 — helper lemmas for the C17 property theorems (MotionCommander machine, part 1:
code-shape predicates, the "ends on the ground command" invariant).
-/
import CfVerif.Model.C17
import Mathlib.Tactic.Linarith
import Mathlib.Tactic.FieldSimp
import Mathlib.Tactic.Ring
namespace CfVerif.C17
open CfVerif CfVerif.Sched

/-! ### code-shape predicates -/

/-- the cleanup stages after `putTerm` (they only ever occur at the head of the code) -/
def isLate : Instr → Bool
  | .cleanup .putTerm => false
  | .cleanup _ => true
  | _ => false

def noLate (l : List Instr) : Bool := l.all (fun i => !isLate i)

/-- handlers that catch a propagating exception and land -/
def isHandler : Instr → Bool
  | .exitCtx => true
  | .landFinally => true
  | .takeoffExcept => true
  | _ => false

/-- unwinding from this code reaches a landing handler (before the end of `__enter__`) -/
def pu : List Instr → Bool
  | [] => false
  | i :: rest => isHandler i || (i != .enterEnd && pu rest)

/-- instructions that start the final cleanup whatever happens next -/
def discharges : Instr → Bool
  | .exitCtx => true
  | .landFinally => true
  | .cleanup _ => true
  | .prim (.land _) => true
  | _ => false

/-- markers that do nothing in normal flow and cannot raise -/
def transparent : Instr → Bool
  | .takeoffExcept => true
  | .enterEnd => true
  | _ => false

/-- "guaranteed": every way of running this code - normally, or raising at any instruction - reaches the cleanup -/
def G : List Instr → Bool
  | [] => false
  | i :: rest => discharges i || (G rest && (transparent i || pu rest))

/-- every thread start happens with `_is_flying` set and with guaranteed code behind it -/
def Safe : Bool → List Instr → Bool
  | _, [] => true
  | f, .startThread :: rest => f && G rest && Safe f rest
  | _, .setFlying :: rest => Safe true rest
  | f, .param _ :: rest => Safe f rest
  | f, .sleep _ :: rest => Safe f rest
  | _, .prim (.takeOff _ _) :: rest => G rest && Safe false rest
  | _, _ :: rest => Safe false rest

def basic : Instr → Bool
  | .setVel _ => true
  | .sleep _ => true
  | _ => false

theorem Safe_mono : ∀ (l : List Instr), Safe false l = true → Safe true l = true
  | [] => fun _ => rfl
  | i :: rest => by
    intro h
    cases i with
    | prim p => cases p <;> simpa [Safe] using h
    | startThread => simp [Safe] at h
    | param v => simp only [Safe] at h ⊢; exact Safe_mono rest h
    | sleep d => simp only [Safe] at h ⊢; exact Safe_mono rest h
    | _ => simpa [Safe] using h

theorem Safe_any (f : Bool) (l : List Instr) (h : Safe false l = true) : Safe f l = true := by
  cases f
  · exact h
  · exact Safe_mono l h

theorem Safe_cons (f : Bool) (i : Instr) (rest : List Instr) (h : Safe f (i :: rest) = true) :
    ∃ f', Safe f' rest = true := by
  cases i with
  | prim p => cases p <;> first | exact ⟨false, by simpa [Safe] using h⟩ | exact ⟨false, by simp [Safe] at h; exact h.2⟩
  | startThread => simp only [Safe, Bool.and_eq_true] at h; exact ⟨f, h.2⟩
  | setFlying => exact ⟨true, by simpa [Safe] using h⟩
  | param v => exact ⟨f, by simpa [Safe] using h⟩
  | sleep d => exact ⟨f, by simpa [Safe] using h⟩
  | _ => exact ⟨false, by simpa [Safe] using h⟩

/-! ### unwinding -/

theorem unwind_pu (e : Err) : ∀ (l : List Instr), pu l = true →
    (unwind e l).2 = none ∧ G (unwind e l).1 = true
  | [], h => by simp [pu] at h
  | i :: rest, h => by
    cases i with
    | exitCtx => simp [unwind, G, discharges]
    | landFinally => simp [unwind, G, discharges]
    | takeoffExcept => simp [unwind, G, discharges]
    | enterEnd => simp [pu, isHandler] at h
    | _ =>
      simp only [pu, isHandler, Bool.false_or, Bool.and_eq_true] at h
      simpa [unwind] using unwind_pu e rest h.2

theorem noLate_cons (i : Instr) (l : List Instr) : noLate (i :: l) = (!isLate i && noLate l) := by
  simp [noLate]

theorem noLate_append (a b : List Instr) : noLate (a ++ b) = (noLate a && noLate b) := by
  simp [noLate]

theorem unwind_noLate (e : Err) : ∀ (l : List Instr), noLate l = true → noLate (unwind e l).1 = true
  | [], _ => by simp [unwind, noLate]
  | i :: rest, h => by
    rw [noLate_cons] at h
    simp only [Bool.and_eq_true] at h
    cases i with
    | exitCtx => simp [unwind, noLate_cons, isLate, h.2]
    | landFinally => simp [unwind, noLate_cons, isLate, h.2]
    | takeoffExcept => simp [unwind, noLate_cons, isLate, h.2]
    | enterEnd => simp [unwind, noLate]
    | _ => simpa [unwind] using unwind_noLate e rest h.2

theorem unwind_Safe (e : Err) (f' : Bool) : ∀ (l : List Instr) (f : Bool), Safe f l = true → Safe f' (unwind e l).1 = true
  | [], _, _ => by simp [unwind, Safe]
  | i :: rest, f, h => by
    obtain ⟨f'', h'⟩ := Safe_cons f i rest h
    cases i with
    | exitCtx => simp only [Safe] at h; simp [unwind, Safe, h]
    | landFinally => simp only [Safe] at h; simp [unwind, Safe, h]
    | takeoffExcept => simp only [Safe] at h; simp [unwind, Safe, h]
    | enterEnd => simp [unwind, Safe]
    | _ => simpa [unwind] using unwind_Safe e f' rest f'' h'

/-! ### expansions -/

theorem G_basic_append : ∀ (is rest : List Instr), is.all basic = true → G rest = true → pu rest = true →
    G (is ++ rest) = true ∧ pu (is ++ rest) = true
  | [], rest, _, hg, hp => ⟨hg, hp⟩
  | i :: is, rest, hb, hg, hp => by
    simp only [List.all_cons, Bool.and_eq_true] at hb
    obtain ⟨ih1, ih2⟩ := G_basic_append is rest hb.2 hg hp
    cases i <;> simp_all [G, pu, basic, discharges, transparent, isHandler]

theorem Safe_basic_append : ∀ (is rest : List Instr) (f : Bool), is.all basic = true → Safe false rest = true →
    Safe f (is ++ rest) = true
  | [], rest, f, _, h => Safe_any f rest h
  | i :: is, rest, f, hb, h => by
    simp only [List.all_cons, Bool.and_eq_true] at hb
    have ih := fun f => Safe_basic_append is rest f hb.2 h
    cases i with
    | setVel s => simpa [Safe] using ih false
    | sleep d => simpa [Safe] using ih f
    | _ => simp [basic] at hb

theorem noLate_basic : ∀ (is : List Instr), is.all basic = true → noLate is = true
  | [], _ => rfl
  | i :: is, hb => by
    simp only [List.all_cons, Bool.and_eq_true] at hb
    rw [noLate_cons, noLate_basic is hb.2]
    cases i <;> simp_all [basic, isLate]

def Prim.special : Prim → Bool
  | .land _ => true
  | .takeOff _ _ => true
  | _ => false

theorem moveInstrs_basic (st : Static) (dx dy dz v : Q) (is : List Instr)
    (h : moveInstrs st dx dy dz v = .ok is) : is.all basic = true := by
  unfold moveInstrs at h
  simp only at h
  split at h
  · cases h
  · split at h
    · cases h
    · cases h; rfl

theorem turnInstrs_basic (s : Side) (a r : Q) (is : List Instr)
    (h : turnInstrs s a r = .ok is) : is.all basic = true := by
  unfold turnInstrs at h
  split at h
  · cases h
  · cases h; rfl

theorem startCircleInstrs_basic (st : Static) (s : Side) (r v : Q) (is : List Instr)
    (h : startCircleInstrs st s r v = .ok is) : is.all basic = true := by
  unfold startCircleInstrs at h
  simp only at h
  split at h
  · cases h
  · cases h; rfl

theorem circleInstrs_basic (st : Static) (s : Side) (r v a : Q) (is : List Instr)
    (h : circleInstrs st s r v a = .ok is) : is.all basic = true := by
  unfold circleInstrs at h
  split at h
  · cases h
  · split at h
    · cases h
    · rename_i is' h'
      cases h
      have := startCircleInstrs_basic st s r v is' h'
      simp [List.all_append, this, basic]

theorem expand_basic (st : Static) (fl : Bool) (p : Prim) (is : List Instr) (hs : p.special = false)
    (h : expand st fl p = .ok is) : is.all basic = true := by
  cases p with
  | go dir d v => exact moveInstrs_basic _ _ _ _ _ _ h
  | move dx dy dz v => exact moveInstrs_basic _ _ _ _ _ _ h
  | turn s a r => exact turnInstrs_basic _ _ _ _ h
  | circle s r v a => exact circleInstrs_basic _ _ _ _ _ _ h
  | start dir v => simp only [expand] at h; cases h; rfl
  | startLinear vx vy vz yaw => simp only [expand] at h; cases h; rfl
  | startTurn s r => simp only [expand] at h; cases h; rfl
  | startCircle s r v => exact startCircleInstrs_basic _ _ _ _ _ h
  | stop => simp only [expand] at h; cases h; rfl
  | wait d => simp only [expand] at h; cases h; rfl
  | takeOff h' v => simp [Prim.special] at hs
  | land v => simp [Prim.special] at hs
  | raise => simp [expand] at h

end CfVerif.C17

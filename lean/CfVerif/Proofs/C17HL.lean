/-
Proofs/C17HL — PositionHlCommander: go-to commands target the dead-reckoned position with duration
distance / velocity, the position is the start plus the sum of the commanded displacements, and leaving the
context ends with the stop command.
-/
import CfVerif.Model.C17
import Mathlib.Tactic.Linarith
import Mathlib.Tactic.Ring
namespace CfVerif.C17
open CfVerif

theorem hlDelta_eq (x0 y0 z0 x y z : Q) : Gen.C17.hlDelta x0 y0 z0 x y z = (x - x0, y - y0, z - z0) := rfl

/-- the distance `go_to` computes -/
def hlDist (st : HStatic) (s : HL) (x y z : Q) : Q := st.sqrt (Gen.C17.hlNorm2 (x - s.x) (y - s.y) (z - s.z))

theorem hlGoTo_still (st : HStatic) (s : HL) (x y : Q) (z v : Option Q)
    (h : ¬ 0 < hlDist st s x y (z.getD s.defHeight)) : hlGoTo st s x y z v = (s, none) := by
  unfold hlGoTo
  simp only [hlDelta_eq]
  unfold hlDist at h
  simp only [h, if_false]

theorem hlGoTo_zero_velocity (st : HStatic) (s : HL) (x y : Q) (z v : Option Q)
    (h : 0 < hlDist st s x y (z.getD s.defHeight)) (hv : v.getD s.defVel = 0) :
    hlGoTo st s x y z v = (s, some .zeroDiv) := by
  unfold hlGoTo
  simp only [hlDelta_eq]
  unfold hlDist at h
  simp only [h, if_true, hv]

theorem hlGoTo_moves (st : HStatic) (s : HL) (x y : Q) (z v : Option Q)
    (h : 0 < hlDist st s x y (z.getD s.defHeight)) (hv : v.getD s.defVel ≠ 0) :
    let zt := z.getD s.defHeight
    let dur := hlDist st s x y zt / v.getD s.defVel
    let r := hlGoTo st s x y z v
    r.1.trace = (s.now, HCmd.goTo x y zt 0 dur) :: s.trace ∧
    (0 ≤ dur → r.2 = none ∧ r.1.x = x ∧ r.1.y = y ∧ r.1.z = zt ∧ r.1.now = s.now + dur) ∧
    (dur < 0 → r.2 = some .valueError ∧ r.1.x = s.x ∧ r.1.y = s.y ∧ r.1.z = s.z) := by
  intro zt dur r
  have hr : r = hlGoTo st s x y z v := rfl
  unfold hlGoTo at hr
  simp only [hlDelta_eq] at hr
  unfold hlDist at h
  simp only [h, if_true, hv, if_false] at hr
  by_cases hd : dur < 0
  · have hd' : st.sqrt (Gen.C17.hlNorm2 (x - s.x) (y - s.y) (z.getD s.defHeight - s.z)) / v.getD s.defVel < 0 := hd
    simp only [hd', if_true] at hr
    rw [hr]
    exact ⟨rfl, fun h0 => absurd hd (not_lt.mpr h0), fun _ => ⟨rfl, rfl, rfl, rfl⟩⟩
  · have hd' : ¬ st.sqrt (Gen.C17.hlNorm2 (x - s.x) (y - s.y) (z.getD s.defHeight - s.z)) / v.getD s.defVel < 0 := hd
    simp only [hd', if_false] at hr
    rw [hr]
    exact ⟨rfl, fun _ => ⟨rfl, rfl, rfl, rfl, rfl⟩, fun h0 => absurd h0 hd⟩

/-- everything `go_to` can do to the trace: nothing, or exactly one go-to command -/
theorem hlGoTo_trace (st : HStatic) (s : HL) (x y : Q) (z v : Option Q) :
    (hlGoTo st s x y z v).1.trace = s.trace ∨
    (hlGoTo st s x y z v).1.trace =
      (s.now, HCmd.goTo x y (z.getD s.defHeight) 0 (hlDist st s x y (z.getD s.defHeight) / v.getD s.defVel)) :: s.trace := by
  by_cases h : 0 < hlDist st s x y (z.getD s.defHeight)
  · by_cases hv : v.getD s.defVel = 0
    · rw [hlGoTo_zero_velocity st s x y z v h hv]; exact Or.inl rfl
    · exact Or.inr (hlGoTo_moves st s x y z v h hv).1
  · rw [hlGoTo_still st s x y z v h]; exact Or.inl rfl

theorem hlMoveTarget_eq (x y z dx dy dz : Q) : Gen.C17.hlMoveTarget x y z dx dy dz = (x + dx, y + dy, z + dz) := rfl

theorem sumsq_zero {a b c : Q} (h : ¬ 0 < Gen.C17.hlNorm2 a b c) : a = 0 ∧ b = 0 ∧ c = 0 := by
  have h' : a * a + b * b + c * c ≤ 0 := not_lt.mp h
  have ha := mul_self_nonneg a
  have hb := mul_self_nonneg b
  have hc := mul_self_nonneg c
  refine ⟨mul_self_eq_zero.mp (by linarith), mul_self_eq_zero.mp (by linarith), mul_self_eq_zero.mp (by linarith)⟩

/-- a relative move that returns normally displaces the reported position by exactly the requested vector -/
theorem hlMove_displacement (st : HStatic) (hsqrt : ∀ a, 0 < a → 0 < st.sqrt a) (s s' : HL) (dx dy dz : Q) (v : Option Q)
    (h : hlMove st s dx dy dz v = (s', none)) : s'.x = s.x + dx ∧ s'.y = s.y + dy ∧ s'.z = s.z + dz := by
  unfold hlMove at h
  simp only [hlMoveTarget_eq, Option.getD_some] at h
  by_cases hD : 0 < hlDist st s (s.x + dx) (s.y + dy) (s.z + dz)
  · by_cases hv : v.getD s.defVel = 0
    · rw [hlGoTo_zero_velocity st s _ _ _ v (by simpa using hD) hv] at h; cases h
    · have hm := hlGoTo_moves st s (s.x + dx) (s.y + dy) (some (s.z + dz)) v (by simpa using hD) hv
      simp only [Option.getD_some] at hm
      by_cases hd : hlDist st s (s.x + dx) (s.y + dy) (s.z + dz) / v.getD s.defVel < 0
      · have := (hm.2.2 hd).1; rw [h] at this; cases this
      · have := hm.2.1 (not_lt.mp hd); rw [h] at this; exact ⟨this.2.1, this.2.2.1, this.2.2.2.1⟩
  · rw [hlGoTo_still st s _ _ _ v (by simpa using hD)] at h
    cases h
    have : ¬ 0 < Gen.C17.hlNorm2 (s.x + dx - s.x) (s.y + dy - s.y) (s.z + dz - s.z) :=
      fun hp => hD (hsqrt _ hp)
    obtain ⟨h1, h2, h3⟩ := sumsq_zero this
    refine ⟨by linarith, by linarith, by linarith⟩

/-! ### position = start + sum of the commanded displacements -/

def HPrim.relative : HPrim → Bool
  | .go _ _ _ => true
  | .move _ _ _ _ => true
  | .setDefaultVelocity _ => true
  | .setDefaultHeight _ => true
  | .setLandingHeight _ => true
  | .wait _ => true
  | _ => false

/-- the displacement a primitive asks for -/
def HPrim.disp : HPrim → Q × Q × Q
  | .go dir d _ => hlGoVec dir d
  | .move dx dy dz _ => (dx, dy, dz)
  | _ => (0, 0, 0)

def sumDisp : List HPrim → Q × Q × Q
  | [] => (0, 0, 0)
  | p :: ps => (p.disp.1 + (sumDisp ps).1, p.disp.2.1 + (sumDisp ps).2.1, p.disp.2.2 + (sumDisp ps).2.2)

theorem hlPrim_relative (st : HStatic) (hsqrt : ∀ a, 0 < a → 0 < st.sqrt a) (s s' : HL) (p : HPrim) (hp : p.relative = true)
    (h : hlPrim st s p = (s', none)) :
    s'.x = s.x + p.disp.1 ∧ s'.y = s.y + p.disp.2.1 ∧ s'.z = s.z + p.disp.2.2 := by
  cases p with
  | go dir d v => exact hlMove_displacement st hsqrt s s' _ _ _ v h
  | move dx dy dz v => exact hlMove_displacement st hsqrt s s' _ _ _ v h
  | setDefaultVelocity v => simp only [hlPrim] at h; cases h; simp [HPrim.disp]
  | setDefaultHeight v => simp only [hlPrim] at h; cases h; simp [HPrim.disp]
  | setLandingHeight v => simp only [hlPrim] at h; cases h; simp [HPrim.disp]
  | wait d => simp only [hlPrim] at h; split at h <;> cases h; simp [HPrim.disp]
  | _ => simp [HPrim.relative] at hp

theorem hlBody_sum (st : HStatic) (hsqrt : ∀ a, 0 < a → 0 < st.sqrt a) :
    ∀ (ps : List HPrim) (s s' : HL), (∀ p ∈ ps, p.relative = true) → hlBody st s ps = (s', none) →
      s'.x = s.x + (sumDisp ps).1 ∧ s'.y = s.y + (sumDisp ps).2.1 ∧ s'.z = s.z + (sumDisp ps).2.2
  | [], s, s', _, h => by simp only [hlBody] at h; cases h; simp [sumDisp]
  | p :: ps, s, s', hrel, h => by
    simp only [hlBody] at h
    cases hp : hlPrim st s p with
    | mk s1 e1 =>
      rw [hp] at h
      cases e1 with
      | some e => simp at h
      | none =>
        simp only at h
        obtain ⟨a1, a2, a3⟩ := hlPrim_relative st hsqrt s s1 p (hrel p (by simp)) hp
        obtain ⟨b1, b2, b3⟩ := hlBody_sum st hsqrt ps s1 s' (fun q hq => hrel q (by simp [hq])) h
        simp only [sumDisp]
        refine ⟨by rw [b1, a1]; ring, by rw [b2, a2]; ring, by rw [b3, a3]; ring⟩

/-! ### leaving the context ends with the stop command -/

def HPrim.isLand : HPrim → Bool
  | .land _ _ => true
  | _ => false

theorem hlGoTo_flying (st : HStatic) (s : HL) (x y : Q) (z v : Option Q) : (hlGoTo st s x y z v).1.flying = s.flying := by
  unfold hlGoTo
  simp only
  split
  · split
    · rfl
    · split <;> rfl
  · rfl

theorem hlPrim_keeps_flying (st : HStatic) (s : HL) (p : HPrim) (hp : p.isLand = false) (hf : s.flying = true) :
    (hlPrim st s p).1.flying = true := by
  cases p with
  | go dir d v => simp only [hlPrim, hlMove]; rw [hlGoTo_flying]; exact hf
  | move dx dy dz v => simp only [hlPrim, hlMove]; rw [hlGoTo_flying]; exact hf
  | goTo x y z v => simp only [hlPrim]; rw [hlGoTo_flying]; exact hf
  | setDefaultVelocity v => exact hf
  | setDefaultHeight v => exact hf
  | setLandingHeight v => exact hf
  | takeOff h v => simp [hlPrim, hlTakeOff, hf]
  | land v lh => simp [HPrim.isLand] at hp
  | wait d => simp only [hlPrim]; split <;> exact hf
  | raise => exact hf

theorem hlBody_keeps_flying (st : HStatic) : ∀ (ps : List HPrim) (s : HL), (∀ p ∈ ps, p.isLand = false) → s.flying = true →
    (hlBody st s ps).1.flying = true
  | [], s, _, hf => hf
  | p :: ps, s, hl, hf => by
    simp only [hlBody]
    have h1 := hlPrim_keeps_flying st s p (hl p (by simp)) hf
    cases hp : hlPrim st s p with
    | mk s1 e1 =>
      rw [hp] at h1
      cases e1 with
      | some e => exact h1
      | none => exact hlBody_keeps_flying st ps s1 (fun q hq => hl q (by simp [hq])) h1

/-- with the `finally`, a landing from the flying state always ends with `stop` and clears the flag -/
theorem hlLand_stops (st : HStatic) (hfin : st.landFinally = true) (s : HL) (v lh : Option Q) (hf : s.flying = true) :
    (hlLand st s v lh).1.flying = false ∧ ∃ rest, (hlLand st s v lh).1.trace = ((hlLand st s v lh).1.now, HCmd.stop) :: rest := by
  unfold hlLand
  simp only [hf, if_true, hfin]
  split
  · exact ⟨rfl, _, rfl⟩
  · split
    · exact ⟨rfl, _, rfl⟩
    · exact ⟨rfl, _, rfl⟩

theorem hlAscend_flying (s : HL) (h v : Option Q) : (hlAscend s h v).1.flying = s.flying := by
  unfold hlAscend
  simp only
  split
  · rfl
  · split <;> rfl

theorem hlTakeOff_ok_flying (st : HStatic) (s s1 : HL) (h v : Option Q) (hok : hlTakeOff st s h v = (s1, none)) :
    s1.flying = true := by
  unfold hlTakeOff at hok
  split at hok
  · cases hok
  · split at hok
    · cases hok
    · have := hlAscend_flying { hlHold s with flying := true } h v
      rw [hok] at this
      exact this

theorem hlWith_stops (st : HStatic) (hfin : st.landFinally = true) (s s1 : HL) (body : List HPrim)
    (hin : hlTakeOff st s none none = (s1, none)) (hbody : ∀ p ∈ body, p.isLand = false) :
    (hlWith st s body).1.flying = false ∧ ∃ rest, (hlWith st s body).1.trace = ((hlWith st s body).1.now, HCmd.stop) :: rest := by
  have hf1 := hlTakeOff_ok_flying st s s1 none none hin
  have hf2 := hlBody_keeps_flying st body s1 hbody hf1
  have hl := hlLand_stops st hfin (hlBody st s1 body).1 none none hf2
  unfold hlWith
  rw [hin]
  simp only
  cases hb : hlBody st s1 body with
  | mk s2 eb =>
    rw [hb] at hl
    simp only
    cases hland : hlLand st s2 none none with
    | mk s3 e3 =>
      rw [hland] at hl
      cases e3 <;> exact hl

end CfVerif.C17

/-
Proofs/C17Inv — the invariant behind "MotionCommander always ends on the ground command":
preserved by every step of the commanding thread, of the set-point thread and of the clock.
-/
import CfVerif.Proofs.C17
namespace CfVerif.C17
open CfVerif CfVerif.Sched

/-- the repaired code: `land` cleans up in a `finally`, `take_off` lands when the ascent raises -/
def Fixed (st : Static) : Prop := st.landFinally = true ∧ st.takeoffGuarded = true

def TailOK : List Instr → Bool
  | [] => true
  | _ :: rest => noLate rest

/-- newest-first commander trace that is empty or ends with `stop, notify_setpoint_stop` -/
def Ended (tr : List (Q × Cmd)) : Prop :=
  tr = [] ∨ ∃ t t' rest, tr = (t', Cmd.notify) :: (t, Cmd.stop) :: rest

def headStage : List Instr → Option Stage
  | .cleanup s :: _ => some s
  | _ => none

/-- what the trace looks like while no set-point thread is running -/
def DeadOK (c : Cfg) : Prop :=
  match headStage c.code with
  | some .notify => ∃ t rest, c.trace = (t, Cmd.stop) :: rest
  | some .clear => ∃ t t' rest, c.trace = (t', Cmd.notify) :: (t, Cmd.stop) :: rest
  | some .join => True
  | some .stop => True
  | some .putTerm => Ended c.trace
  | none => Ended c.trace

structure Inv (c : Cfg) : Prop where
  safe : Safe c.flying c.code = true
  tail : TailOK c.code = true
  live : c.thr.alive = true → Ev.term ∉ c.thr.queue → c.flying = true ∧ G c.code = true ∧ noLate c.code = true
  term : c.thr.alive = true → Ev.term ∈ c.thr.queue → ∃ rest, c.code = .cleanup .join :: rest
  dead : c.thr.alive = false → DeadOK c

theorem noLate_tail {i : Instr} {l : List Instr} (h : noLate (i :: l) = true) : noLate l = true := by
  rw [noLate_cons] at h; simp only [Bool.and_eq_true] at h; exact h.2

theorem TailOK_of_noLate : ∀ (l : List Instr), noLate l = true → TailOK l = true
  | [], _ => rfl
  | _ :: _, h => noLate_tail h

/-- with no late cleanup stage at the head, `DeadOK` is just `Ended` -/
theorem DeadOK_of_noLate (c : Cfg) (hn : noLate c.code = true) (he : Ended c.trace) : DeadOK c := by
  unfold DeadOK
  cases hc : c.code with
  | nil => simpa [headStage] using he
  | cons i rest =>
    rw [hc, noLate_cons] at hn
    cases i with
    | cleanup s => cases s <;> simp_all [headStage, isLate]
    | _ => simpa [headStage] using he

theorem Ended_of_DeadOK (c : Cfg) (hs : headStage c.code = none) (h : DeadOK c) : Ended c.trace := by
  unfold DeadOK at h; rw [hs] at h; exact h

/-- an instruction that neither starts the cleanup nor is a no-op marker -/
def ordinary (i : Instr) : Prop := discharges i = false ∧ transparent i = false

theorem headStage_of_not_discharges {i : Instr} {rest : List Instr} (h : discharges i = false) :
    headStage (i :: rest) = none := by
  cases i <;> simp_all [headStage, discharges]

/-- pattern 1: the head instruction raises -/
theorem inv_raise (c : Cfg) (i : Instr) (rest : List Instr) (e : Err) (hc : c.code = i :: rest)
    (hi : ordinary i) (inv : Inv c) : Inv (raiseAt c e rest) := by
  have hsafe := inv.safe
  have htail := inv.tail
  rw [hc] at hsafe htail
  obtain ⟨f'', hs''⟩ := Safe_cons _ _ _ hsafe
  have hnl : noLate rest = true := htail
  refine ⟨?_, ?_, ?_, ?_, ?_⟩
  · exact unwind_Safe e _ rest f'' hs''
  · exact TailOK_of_noLate _ (unwind_noLate e rest hnl)
  · intro ha hq
    obtain ⟨hf, hg, _⟩ := inv.live ha hq
    rw [hc] at hg
    simp only [G, hi.1, hi.2, Bool.false_or, Bool.and_eq_true] at hg
    exact ⟨hf, (unwind_pu e rest hg.2).2, unwind_noLate e rest hnl⟩
  · intro ha hq
    obtain ⟨r, hr⟩ := inv.term ha hq
    rw [hc] at hr
    cases hr
    simp [ordinary, discharges] at hi
  · intro ha
    have hd := Ended_of_DeadOK c (by rw [hc]; exact headStage_of_not_discharges hi.1) (inv.dead ha)
    exact DeadOK_of_noLate (raiseAt c e rest) (unwind_noLate e rest hnl) hd

/-- pattern 2: the head instruction (not a cleanup stage) is replaced by late-free code; thread liveness, the
TERMINATE marker and the trace are untouched -/
theorem inv_advance (c c' : Cfg) (i : Instr) (rest : List Instr) (hc : c.code = i :: rest)
    (hi : headStage c.code = none)
    (hfl : c.flying = true → c'.flying = true) (htr : c'.trace = c.trace) (hal : c'.thr.alive = c.thr.alive)
    (hq : Ev.term ∈ c'.thr.queue ↔ Ev.term ∈ c.thr.queue)
    (hsafe : Safe c'.flying c'.code = true) (hnl : noLate c'.code = true)
    (hG : c.flying = true → G c.code = true → G c'.code = true) (inv : Inv c) : Inv c' := by
  refine ⟨hsafe, TailOK_of_noLate _ hnl, ?_, ?_, ?_⟩
  · intro ha hq'
    rw [hal] at ha
    obtain ⟨hf, hg, _⟩ := inv.live ha (fun h => hq' (hq.mpr h))
    exact ⟨hfl hf, hG hf hg, hnl⟩
  · intro ha hq'
    rw [hal] at ha
    obtain ⟨r, hr⟩ := inv.term ha (hq.mp hq')
    rw [hr] at hi
    simp [headStage] at hi
  · intro ha
    rw [hal] at ha
    have hd := Ended_of_DeadOK c hi (inv.dead ha)
    exact DeadOK_of_noLate c' hnl (htr ▸ hd)

theorem mem_append_sp (q : List Ev) (s : SP) : Ev.term ∈ q ++ [Ev.sp s] ↔ Ev.term ∈ q := by
  simp

/-- expansion of a primitive (ok case) keeps the invariant -/
theorem inv_expand (st : Static) (hf : Fixed st) (c : Cfg) (p : Prim) (rest is : List Instr)
    (hc : c.code = .prim p :: rest) (he : expand st c.flying p = .ok is) (inv : Inv c) :
    Inv { c with code := is ++ rest, tMain := c.now } := by
  have htail : noLate rest = true := by have := inv.tail; rw [hc] at this; exact this
  have hsafe := inv.safe
  rw [hc] at hsafe
  refine inv_advance c { c with code := is ++ rest, tMain := c.now } (.prim p) rest hc (by rw [hc]; rfl) (fun h => h) rfl rfl Iff.rfl
    ?_ ?_ ?_ inv
  · -- Safe
    show Safe c.flying (is ++ rest) = true
    cases hsp : p.special with
    | false =>
      have hb := expand_basic st c.flying p is hsp he
      have : Safe false rest = true := by
        cases p <;> first | (simpa [Safe] using hsafe) | (simp [Prim.special] at hsp)
      exact Safe_basic_append is rest _ hb this
    | true =>
      cases p with
      | land v =>
        simp only [expand] at he
        simp only [Safe] at hsafe
        split at he
        · cases he; simpa [Safe, hf.1] using hsafe
        · cases he; exact Safe_any _ _ hsafe
      | takeOff h v =>
        simp only [expand] at he
        simp only [Safe, Bool.and_eq_true] at hsafe
        split at he
        · cases he
        · split at he
          · cases he
          · cases he
            simp [Safe, G, pu, discharges, transparent, isHandler, hf.2, hsafe.1, hsafe.2]
      | _ => simp [Prim.special] at hsp
  · -- noLate
    show noLate (is ++ rest) = true
    rw [noLate_append, htail, Bool.and_true]
    cases hsp : p.special with
    | false => exact noLate_basic is (expand_basic st c.flying p is hsp he)
    | true =>
      cases p with
      | land v =>
        simp only [expand] at he
        split at he
        · cases he; cases st.landFinally <;> simp [noLate, isLate]
        · cases he; rfl
      | takeOff h v =>
        simp only [expand] at he
        split at he
        · cases he
        · split at he
          · cases he
          · cases he; cases st.takeoffGuarded <;> simp [noLate, isLate]
      | _ => simp [Prim.special] at hsp
  · -- G
    intro hfly hg
    show G (is ++ rest) = true
    rw [hc] at hg
    cases hsp : p.special with
    | false =>
      have hb := expand_basic st c.flying p is hsp he
      have hd : discharges (.prim p) = false := by cases p <;> first | rfl | (simp [Prim.special] at hsp)
      simp only [G, hd, transparent, Bool.false_or, Bool.and_eq_true] at hg
      exact (G_basic_append is rest hb hg.1 hg.2).1
    | true =>
      cases p with
      | land v =>
        simp only [expand, hfly, if_true] at he
        cases he
        simp [G, pu, discharges, transparent, isHandler, hf.1]
      | takeOff h v =>
        simp only [expand, hfly, if_true] at he
        cases he
      | _ => simp [Prim.special] at hsp

theorem ordinary_prim_of_error (st : Static) (fl : Bool) (p : Prim) (e : Err) (h : expand st fl p = .error e) :
    ordinary (.prim p) := by
  cases p with
  | land v => simp only [expand] at h; split at h <;> cases h
  | _ => exact ⟨rfl, rfl⟩

theorem Safe_rest_false {f : Bool} {i : Instr} {rest : List Instr} (h : Safe f (i :: rest) = true)
    (hi : ∀ v, i ≠ .param v) (hs : ∀ d, i ≠ .sleep d) (hst : i ≠ .startThread) (hsf : i ≠ .setFlying) :
    Safe false rest = true := by
  cases i with
  | prim p => cases p <;> first | (simpa [Safe] using h) | (simp [Safe] at h; exact h.2)
  | param v => exact absurd rfl (hi v)
  | sleep d => exact absurd rfl (hs d)
  | startThread => exact absurd rfl hst
  | setFlying => exact absurd rfl hsf
  | _ => simpa [Safe] using h

/-- every step of the commanding thread keeps the invariant (repaired code) -/
theorem inv_main (st : Static) (hf : Fixed st) (c c' : Cfg) (inv : Inv c) (h : stepMain st c = some c') : Inv c' := by
  cases hc : c.code with
  | nil => simp [stepMain, hc] at h
  | cons i rest =>
    have htail : noLate rest = true := by have := inv.tail; rw [hc] at this; exact this
    have hsafe := inv.safe
    rw [hc] at hsafe
    cases i with
    | prim p =>
      simp only [stepMain, hc] at h
      cases he : expand st c.flying p with
      | error e => rw [he] at h; cases h; exact inv_raise c _ rest e hc (ordinary_prim_of_error st _ p e he) inv
      | ok is => rw [he] at h; cases h; exact inv_expand st hf c p rest is hc he inv
    | setVel s =>
      simp only [stepMain, hc] at h
      split at h
      · cases h
        refine inv_advance c _ (.setVel s) rest hc (by rw [hc]; rfl) (fun h => h) rfl rfl (mem_append_sp _ _) ?_ htail ?_ inv
        · exact Safe_any _ _ (Safe_rest_false hsafe (by simp) (by simp) (by simp) (by simp))
        · intro _ hg; rw [hc] at hg; simp only [G, discharges, transparent, Bool.false_or, Bool.and_eq_true] at hg; exact hg.1
      · cases h; exact inv_raise c _ rest _ hc ⟨rfl, rfl⟩ inv
    | sleep d =>
      simp only [stepMain, hc] at h
      split at h
      · cases h; exact inv_raise c _ rest _ hc ⟨rfl, rfl⟩ inv
      · split at h
        · cases h
          refine inv_advance c _ (.sleep d) rest hc (by rw [hc]; rfl) (fun h => h) rfl rfl Iff.rfl ?_ htail ?_ inv
          · simpa [Safe] using hsafe
          · intro _ hg; rw [hc] at hg; simp only [G, discharges, transparent, Bool.false_or, Bool.and_eq_true] at hg; exact hg.1
        · cases h
    | param v =>
      simp only [stepMain, hc] at h
      cases h
      refine inv_advance c _ (.param v) rest hc (by rw [hc]; rfl) (fun h => h) rfl rfl Iff.rfl ?_ htail ?_ inv
      · simpa [Safe] using hsafe
      · intro _ hg; rw [hc] at hg; simp only [G, discharges, transparent, Bool.false_or, Bool.and_eq_true] at hg; exact hg.1
    | setFlying =>
      simp only [stepMain, hc] at h
      cases h
      refine inv_advance c _ .setFlying rest hc (by rw [hc]; rfl) (fun _ => rfl) rfl rfl Iff.rfl ?_ htail ?_ inv
      · simpa [Safe] using hsafe
      · intro _ hg; rw [hc] at hg; simp only [G, discharges, transparent, Bool.false_or, Bool.and_eq_true] at hg; exact hg.1
    | startThread =>
      simp only [stepMain, hc] at h
      cases h
      simp only [Safe, Bool.and_eq_true] at hsafe
      refine ⟨hsafe.2, TailOK_of_noLate _ htail, ?_, ?_, ?_⟩
      · intro _ _; exact ⟨hsafe.1.1, hsafe.1.2, htail⟩
      · intro _ hq; simp [Thr.fresh] at hq
      · intro ha; simp [Thr.fresh] at ha
    | readHeight v =>
      simp only [stepMain, hc] at h
      cases h
      refine inv_advance c _ (.readHeight v) rest hc (by rw [hc]; rfl) (fun h => h) rfl rfl Iff.rfl ?_ ?_ ?_ inv
      · have := Safe_rest_false hsafe (by simp) (by simp) (by simp) (by simp)
        exact Safe_any _ _ (by simpa [Safe] using this)
      · show noLate (_ :: rest) = true
        rw [noLate_cons, htail]; rfl
      · intro _ hg; rw [hc] at hg
        simpa [G, discharges, transparent] using hg
    | raise e =>
      simp only [stepMain, hc] at h
      cases h; exact inv_raise c _ rest _ hc ⟨rfl, rfl⟩ inv
    | enterEnd =>
      simp only [stepMain, hc] at h
      cases h
      refine inv_advance c _ .enterEnd rest hc (by rw [hc]; rfl) (fun h => h) rfl rfl Iff.rfl ?_ htail ?_ inv
      · exact Safe_any _ _ (Safe_rest_false hsafe (by simp) (by simp) (by simp) (by simp))
      · intro _ hg; rw [hc] at hg; simpa [G, discharges, transparent] using hg
    | takeoffExcept =>
      simp only [stepMain, hc] at h
      cases h
      refine inv_advance c _ .takeoffExcept rest hc (by rw [hc]; rfl) (fun h => h) rfl rfl Iff.rfl ?_ htail ?_ inv
      · exact Safe_any _ _ (Safe_rest_false hsafe (by simp) (by simp) (by simp) (by simp))
      · intro _ hg; rw [hc] at hg; simpa [G, discharges, transparent] using hg
    | exitCtx =>
      simp only [stepMain, hc] at h
      cases h
      refine inv_advance c _ .exitCtx rest hc (by rw [hc]; rfl) (fun h => h) rfl rfl Iff.rfl ?_ ?_ ?_ inv
      · have := Safe_rest_false hsafe (by simp) (by simp) (by simp) (by simp)
        exact Safe_any _ _ (by simpa [Safe] using this)
      · show noLate (_ :: rest) = true
        rw [noLate_cons, htail]; rfl
      · intro _ _; simp [G, discharges]
    | landFinally =>
      simp only [stepMain, hc] at h
      cases h
      refine inv_advance c _ .landFinally rest hc (by rw [hc]; rfl) (fun h => h) rfl rfl Iff.rfl ?_ ?_ ?_ inv
      · have := Safe_rest_false hsafe (by simp) (by simp) (by simp) (by simp)
        exact Safe_any _ _ (by simpa [Safe] using this)
      · show noLate (_ :: rest) = true
        rw [noLate_cons, htail]; rfl
      · intro _ _; simp [G, discharges]
    | cleanup s =>
      have hs' : Safe false rest = true := Safe_rest_false hsafe (by simp) (by simp) (by simp) (by simp)
      cases s with
      | putTerm =>
        simp only [stepMain, hc] at h
        cases h
        refine ⟨by simpa [Safe] using Safe_any _ _ hs', htail, ?_, ?_, ?_⟩
        · intro _ hq; simp at hq
        · intro _ _; exact ⟨rest, rfl⟩
        · intro _; simp [DeadOK, headStage]
      | join =>
        simp only [stepMain, hc] at h
        split at h
        · cases h
        · rename_i hal
          cases h
          refine ⟨by simpa [Safe] using Safe_any _ _ hs', htail, ?_, ?_, ?_⟩
          · intro ha; exact absurd ha hal
          · intro ha; exact absurd ha hal
          · intro _; simp [DeadOK, headStage]
      | stop =>
        simp only [stepMain, hc] at h
        cases h
        have hdead : c.thr.alive = false := by
          cases ha : c.thr.alive with
          | false => rfl
          | true =>
            by_cases hq : Ev.term ∈ c.thr.queue
            · obtain ⟨r, hr⟩ := inv.term ha hq; rw [hc] at hr; cases hr
            · have := (inv.live ha hq).2.2; rw [hc] at this; simp [noLate, isLate] at this
        refine ⟨by simpa [Safe] using Safe_any _ _ hs', htail, ?_, ?_, ?_⟩
        · intro ha; rw [hdead] at ha; cases ha
        · intro ha; rw [hdead] at ha; cases ha
        · intro _; simp [DeadOK, headStage]
      | notify =>
        simp only [stepMain, hc] at h
        cases h
        have hdead : c.thr.alive = false := by
          cases ha : c.thr.alive with
          | false => rfl
          | true =>
            by_cases hq : Ev.term ∈ c.thr.queue
            · obtain ⟨r, hr⟩ := inv.term ha hq; rw [hc] at hr; cases hr
            · have := (inv.live ha hq).2.2; rw [hc] at this; simp [noLate, isLate] at this
        have hd := inv.dead hdead
        simp only [DeadOK, hc, headStage] at hd
        obtain ⟨t, tr, htr⟩ := hd
        refine ⟨by simpa [Safe] using Safe_any _ _ hs', htail, ?_, ?_, ?_⟩
        · intro ha; rw [hdead] at ha; cases ha
        · intro ha; rw [hdead] at ha; cases ha
        · intro _; simp only [DeadOK, headStage]; exact ⟨t, c.now, tr, by rw [htr]⟩
      | clear =>
        simp only [stepMain, hc] at h
        cases h
        have hdead : c.thr.alive = false := by
          cases ha : c.thr.alive with
          | false => rfl
          | true =>
            by_cases hq : Ev.term ∈ c.thr.queue
            · obtain ⟨r, hr⟩ := inv.term ha hq; rw [hc] at hr; cases hr
            · have := (inv.live ha hq).2.2; rw [hc] at this; simp [noLate, isLate] at this
        have hd := inv.dead hdead
        simp only [DeadOK, hc, headStage] at hd
        obtain ⟨t, t', tr, htr⟩ := hd
        refine ⟨hs', TailOK_of_noLate _ htail, ?_, ?_, ?_⟩
        · intro ha; rw [hdead] at ha; cases ha
        · intro ha; rw [hdead] at ha; cases ha
        · intro _; exact DeadOK_of_noLate _ htail (Or.inr ⟨t, t', tr, htr⟩)

/-- a cleanup stage after `join` at the head of the code means that the set-point thread is gone -/
theorem late_dead (c : Cfg) (inv : Inv c) (s : Stage) (rest : List Instr) (hc : c.code = .cleanup s :: rest)
    (hs : s ≠ .putTerm) (hj : s ≠ .join) : c.thr.alive = false := by
  cases ha : c.thr.alive with
  | false => rfl
  | true =>
    by_cases hq : Ev.term ∈ c.thr.queue
    · obtain ⟨r, hr⟩ := inv.term ha hq; rw [hc] at hr; cases hr; exact absurd rfl hj
    · have := (inv.live ha hq).2.2; rw [hc] at this
      cases s <;> simp_all [noLate, isLate]

/-- every iteration of the set-point thread keeps the invariant -/
theorem inv_thr (st : Static) (c c' : Cfg) (inv : Inv c) (h : stepThr st c = some c') : Inv c' := by
  unfold stepThr at h
  split at h
  · rename_i ha
    split at h
    · -- TERMINATE
      rename_i q hq
      cases h
      refine ⟨inv.safe, inv.tail, ?_, ?_, ?_⟩
      · intro ha'; cases ha'
      · intro ha'; cases ha'
      · intro _
        obtain ⟨r, hr⟩ := inv.term ha (by rw [hq]; simp)
        simp [DeadOK, hr, headStage]
    · -- a new set-point
      rename_i s q hq
      cases h
      refine ⟨inv.safe, inv.tail, ?_, ?_, ?_⟩
      · intro _ hnt
        exact inv.live ha (by rw [hq]; simpa using hnt)
      · intro _ ht
        exact inv.term ha (by rw [hq]; simp; exact ht)
      · intro ha'; simp [ha] at ha'
    · -- timeout
      rename_i hq
      split at h
      · cases h
        refine ⟨inv.safe, inv.tail, ?_, ?_, ?_⟩
        · intro _ hnt; exact inv.live ha (by rw [hq]; simp)
        · intro _ ht; simp [hq] at ht
        · intro ha'; simp [ha] at ha'
      · cases h
  · cases h

/-- the passage of time keeps the invariant -/
theorem inv_clock (c c' : Cfg) (inv : Inv c) (h : stepClock c = some c') : Inv c' := by
  unfold stepClock at h
  split at h
  · cases h
  · have key : ∀ t : Q, Inv { c with now := t } := fun t => ⟨inv.safe, inv.tail, inv.live, inv.term, inv.dead⟩
    split at h
    · cases h; exact key _
    · cases h; exact key _
    · cases h; exact key _
    · cases h

theorem inv_step (st : Static) (hf : Fixed st) (c : Cfg) (t : Nat) (c' : Cfg) (inv : Inv c)
    (h : (machine st).step c t = some c') : Inv c' := by
  match t, h with
  | 0, h => exact inv_main st hf c c' inv h
  | 1, h => exact inv_thr st c c' inv h
  | 2, h => exact inv_clock c c' inv h
  | _ + 3, h => simp [machine] at h

/-! ### the initial configuration of `with MotionCommander(...) as mc: body` -/

theorem body_G : ∀ (body : List Prim), G (body.map Instr.prim ++ [.exitCtx]) = true ∧ pu (body.map Instr.prim ++ [.exitCtx]) = true
  | [] => by simp [G, pu, discharges, isHandler]
  | p :: ps => by
    obtain ⟨h1, h2⟩ := body_G ps
    simp [G, pu, h1, h2, isHandler]

theorem body_Safe : ∀ (body : List Prim), Safe false (body.map Instr.prim ++ [.exitCtx]) = true
  | [] => by simp [Safe]
  | p :: ps => by
    have ih := body_Safe ps
    have hg := (body_G ps).1
    cases p <;> simp [Safe, ih, hg]

theorem body_noLate : ∀ (body : List Prim), noLate (body.map Instr.prim ++ [.exitCtx]) = true
  | [] => by simp [noLate, isLate]
  | p :: ps => by
    have ih := body_noLate ps
    simp only [List.map_cons, List.cons_append, noLate_cons, ih, isLate]; rfl

theorem inv_init (body : List Prim) : Inv (initWith body) := by
  have hg := body_G body
  refine ⟨?_, ?_, ?_, ?_, ?_⟩
  · simp [initWith, Cfg.start, withCode, Safe, G, discharges, transparent, hg.1, body_Safe body]
  · simp [initWith, Cfg.start, withCode, TailOK, noLate_cons, isLate, body_noLate body]
  · intro ha; simp [initWith, Cfg.start, Thr.fresh] at ha
  · intro ha; simp [initWith, Cfg.start, Thr.fresh] at ha
  · intro _; simp [DeadOK, initWith, Cfg.start, withCode, headStage, Ended]

/-- the invariant holds after every interleaving -/
theorem inv_run (st : Static) (hf : Fixed st) (body : List Prim) (sch : List Nat) (c : Cfg)
    (h : run (machine st) (initWith body) sch = some c) : Inv c :=
  run_invariant (machine st) Inv (fun c t c' i hs => inv_step st hf c t c' i hs) sch _ c (inv_init body) h

/-- once the commanding thread has left, no set-point thread is running and the trace is empty or ends `stop, notify` -/
theorem finished_of_inv (c : Cfg) (inv : Inv c) (hc : c.code = []) : c.thr.alive = false ∧ Ended c.trace := by
  have hd : c.thr.alive = false := by
    cases ha : c.thr.alive with
    | false => rfl
    | true =>
      by_cases hq : Ev.term ∈ c.thr.queue
      · obtain ⟨r, hr⟩ := inv.term ha hq; rw [hc] at hr; cases hr
      · have := (inv.live ha hq).2.1; rw [hc] at this; simp [G] at this
  refine ⟨hd, ?_⟩
  have := inv.dead hd
  simpa [DeadOK, hc, headStage] using this

/-- a finished run with a dead thread is quiescent: nothing can happen any more -/
theorem quiescent (st : Static) (c : Cfg) (hc : c.code = []) (ha : c.thr.alive = false) :
    Stuck (machine st) c := by
  intro t
  match t with
  | 0 => simp [machine, stepMain, hc]
  | 1 => simp [machine, stepThr, ha]
  | 2 => simp [machine, stepClock, mainEnabled, thrEnabled, mainWake, hc, ha]
  | _ + 3 => simp [machine]

/-- while the commanding thread has not left, some step (its own, the thread's, or the clock's) is possible -/
theorem no_deadlock_aux (st : Static) (c : Cfg) (hc : c.code ≠ []) : ¬ Stuck (machine st) c := by
  intro hs
  have h0 := hs 0
  have h1 := hs 1
  have h2 := hs 2
  simp only [machine] at h0 h1 h2
  cases hcode : c.code with
  | nil => exact hc hcode
  | cons i rest =>
    have hme : mainEnabled c = false := by
      cases hm : mainEnabled c with
      | false => rfl
      | true =>
        exfalso
        unfold stepMain at h0
        rw [hcode] at h0
        unfold mainEnabled at hm
        rw [hcode] at hm
        cases i with
        | prim p => simp only at h0; split at h0 <;> cases h0
        | setVel s => simp only at h0; split at h0 <;> cases h0
        | sleep d =>
          simp only [Bool.or_eq_true, decide_eq_true_eq] at hm
          simp only at h0
          split at h0
          · cases h0
          · rename_i hd
            split at h0
            · cases h0
            · rename_i hw; cases hm with
              | inl h => exact hd h
              | inr h => exact hw h
        | cleanup s =>
          cases s with
          | join =>
            simp only [Bool.not_eq_true'] at hm
            simp only [hm] at h0
            cases h0
          | _ => cases h0
        | _ => cases h0
    unfold stepClock at h2
    cases hte : thrEnabled c with
    | true =>
      unfold thrEnabled at hte
      simp only [Bool.and_eq_true, Bool.or_eq_true, Bool.not_eq_true', decide_eq_true_eq] at hte
      unfold stepThr at h1
      simp only [hte.1, if_true] at h1
      cases hq : c.thr.queue with
      | nil =>
        rw [hq] at h1 hte
        simp only at h1
        cases hte.2 with
        | inl h => simp at h
        | inr h => simp only [h, if_true] at h1; cases h1
      | cons e q =>
        rw [hq] at h1
        cases e <;> cases h1
    | false =>
      simp only [hme, hte, Bool.or_self, Bool.false_eq_true, if_false] at h2
      cases ha : c.thr.alive with
      | true => rw [ha] at h2; split at h2 <;> simp_all
      | false =>
        rw [ha] at h2
        -- the thread is dead, so the commanding thread is blocked in a sleep (a join of a dead thread is enabled)
        unfold mainEnabled at hme
        rw [hcode] at hme
        unfold mainWake at h2
        rw [hcode] at h2
        cases i with
        | sleep d => cases h2
        | cleanup s => cases s <;> simp_all
        | _ => cases hme

end CfVerif.C17

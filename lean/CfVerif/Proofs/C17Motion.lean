/-
Proofs/C17Motion — what the blocking primitives command (velocity x duration = displacement) and how the
set-point thread's height evolves step by step.
-/
import CfVerif.Proofs.C17
namespace CfVerif.C17
open CfVerif CfVerif.Sched

/-! ### blocking primitives -/

theorem moveInstrs_ok (st : Static) (dx dy dz v : Q) (hv : v ≠ 0) (hd : st.sqrt (Gen.C17.mcMoveNorm2 dx dy dz) ≠ 0) :
    moveInstrs st dx dy dz v =
      .ok [.setVel ⟨v * dx / st.sqrt (Gen.C17.mcMoveNorm2 dx dy dz), v * dy / st.sqrt (Gen.C17.mcMoveNorm2 dx dy dz),
                    v * dz / st.sqrt (Gen.C17.mcMoveNorm2 dx dy dz), 0⟩,
           .sleep (st.sqrt (Gen.C17.mcMoveNorm2 dx dy dz) / v), .setVel stopSP] := by
  unfold moveInstrs
  simp only [hv, hd, if_false]

theorem moveInstrs_zero_velocity (st : Static) (dx dy dz : Q) : moveInstrs st dx dy dz 0 = .error .zeroDiv := by
  unfold moveInstrs; simp

theorem moveInstrs_zero_distance (st : Static) (dx dy dz v : Q) (hd : st.sqrt (Gen.C17.mcMoveNorm2 dx dy dz) = 0) :
    moveInstrs st dx dy dz v = .error .zeroDiv := by
  unfold moveInstrs; simp only [hd]; split <;> rfl

theorem scaled_product (v x D : Q) (hv : v ≠ 0) (hD : D ≠ 0) : v * x / D * (D / v) = x := by
  field_simp

theorem scaled_direction (v x D : Q) : v * x / D = v / D * x := by
  ring

theorem turnInstrs_ok (s : Side) (a r : Q) (hr : r ≠ 0) :
    turnInstrs s a r = .ok [.setVel (startTurnSP s r), .sleep (a / r), .setVel stopSP] := by
  unfold turnInstrs; simp only [hr, if_false]

theorem circleInstrs_ok (st : Static) (s : Side) (r v a : Q) (hv : v ≠ 0) (hc : circumference s r st.pi ≠ 0) :
    circleInstrs st s r v a =
      .ok [.setVel (startCircleSP s v (circleRateNum s v / circumference s r st.pi)),
           .sleep (circleDistance s r st.pi a / v), .setVel stopSP] := by
  unfold circleInstrs startCircleInstrs
  simp only [hv, hc, if_false, List.cons_append, List.nil_append]

/-! ### the height of the set-point thread, step by step -/

/-- the vertical velocity commanded last: the newest set-point still on the queue, else the one in force -/
def cmdVz : List Ev → Q → Q
  | [], v => v
  | .sp s :: q, _ => cmdVz q s.vz
  | .term :: q, v => cmdVz q v

theorem cmdVz_append_sp (q : List Ev) (v : Q) (s : SP) : cmdVz (q ++ [.sp s]) v = s.vz := by
  induction q generalizing v with
  | nil => rfl
  | cons e q ih => cases e <;> simp [cmdVz, ih]

theorem cmdVz_append_term (q : List Ev) (v : Q) : cmdVz (q ++ [.term]) v = cmdVz q v := by
  induction q generalizing v with
  | nil => rfl
  | cons e q ih => cases e <;> simp [cmdVz, ih]

theorem curZ_eq (t : Thr) (now : Q) : curZ t now = t.zBase + t.zVel * (now - t.zT) := rfl

/-- the clock: the height grows by (commanded vertical velocity) x (elapsed time); the queue is empty whenever time passes -/
theorem height_clock (c c' : Cfg) (h : stepClock c = some c') (ha : c.thr.alive = true) :
    c.thr.queue = [] ∧ c'.thr = c.thr ∧
    curZ c'.thr c'.now = curZ c.thr c.now + cmdVz c.thr.queue c.thr.zVel * (c'.now - c.now) := by
  unfold stepClock at h
  split at h
  · cases h
  · rename_i hen
    have hq : c.thr.queue = [] := by
      simp only [thrEnabled, ha, Bool.true_and, Bool.or_eq_true, not_or] at hen
      have := hen.2
      simp only [Bool.or_eq_true, not_or, Bool.not_eq_true', Bool.not_eq_eq_eq_not, Bool.not_true] at this
      cases hq : c.thr.queue with
      | nil => rfl
      | cons e q => rw [hq] at this; simp at this
    have key : ∀ t : Q, curZ c.thr t = curZ c.thr c.now + cmdVz c.thr.queue c.thr.zVel * (t - c.now) := by
      intro t; rw [hq]; simp only [curZ_eq, cmdVz]; ring
    split at h
    · cases h; exact ⟨hq, rfl, key _⟩
    · cases h; exact ⟨hq, rfl, key _⟩
    · cases h; exact ⟨hq, rfl, key _⟩
    · cases h

/-- the set-point thread: taking a new set-point or resending changes neither the height nor the commanded vertical
velocity, and the hover set-point it sends carries exactly the current height and the set-point in force -/
theorem height_thr (st : Static) (c c' : Cfg) (h : stepThr st c = some c') :
    c'.now = c.now ∧ curZ c'.thr c'.now = curZ c.thr c.now ∧
    cmdVz c'.thr.queue c'.thr.zVel = cmdVz c.thr.queue c.thr.zVel ∧
    (c'.trace = c.trace ∨
     c'.trace = (c.now, .hover c'.thr.hvx c'.thr.hvy c'.thr.hyaw (curZ c'.thr c'.now)) :: c.trace ∧
       c'.thr.hz = curZ c'.thr c'.now) := by
  unfold stepThr at h
  split at h
  · split at h
    · rename_i q hq
      cases h
      refine ⟨rfl, rfl, ?_, Or.inl rfl⟩
      simp [hq, cmdVz]
    · rename_i s q hq
      cases h
      refine ⟨rfl, ?_, ?_, Or.inr ⟨?_, ?_⟩⟩
      · simp only [curZ_eq]; ring
      · simp [hq, cmdVz]
      · simp only [curZ_eq]
      · simp only [curZ_eq]
    · rename_i hq
      split at h
      · cases h
        refine ⟨rfl, rfl, rfl, Or.inr ⟨rfl, rfl⟩⟩
      · cases h
  · cases h

/-- `_new_setpoint` re-bases UNCONDITIONALLY - also when the new vertical velocity equals the one in force: base height :=
current height, velocity := the set-point's, base time := now; so from then on the height is (height now) + vz x (time since) -/
theorem new_setpoint_rebases (st : Static) (c c' : Cfg) (s : SP) (q : List Ev) (ha : c.thr.alive = true)
    (hq : c.thr.queue = .sp s :: q) (h : stepThr st c = some c') :
    c'.thr.zBase = curZ c.thr c.now ∧ c'.thr.zVel = s.vz ∧ c'.thr.zT = c.now ∧ c'.thr.hz = curZ c.thr c.now ∧
    ∀ t, curZ c'.thr t = curZ c.thr c.now + s.vz * (t - c.now) := by
  unfold stepThr at h
  simp only [ha, if_true, hq] at h
  cases h
  refine ⟨rfl, rfl, rfl, ?_, fun t => rfl⟩
  simp only [curZ_eq]; ring

/-- the commanding thread: no time passes; except when it starts a (fresh) thread it changes the thread only by
queueing - a queued set-point replaces the commanded vertical velocity, the height is untouched -/
theorem height_main (st : Static) (c c' : Cfg) (h : stepMain st c = some c') :
    c'.now = c.now ∧
    ((∃ rest, c.code = .startThread :: rest ∧ c'.thr = Thr.fresh true (c.now + st.period)) ∨
     (curZ c'.thr c'.now = curZ c.thr c.now ∧
      ((∃ s rest, c.code = .setVel s :: rest ∧ c.flying = true ∧ cmdVz c'.thr.queue c'.thr.zVel = s.vz) ∨
       cmdVz c'.thr.queue c'.thr.zVel = cmdVz c.thr.queue c.thr.zVel))) := by
  cases hc : c.code with
  | nil => simp [stepMain, hc] at h
  | cons i rest =>
    cases i with
    | prim p =>
      simp only [stepMain, hc] at h
      split at h <;> (cases h; exact ⟨rfl, Or.inr ⟨rfl, Or.inr rfl⟩⟩)
    | setVel s =>
      simp only [stepMain, hc] at h
      split at h
      · rename_i hf
        cases h
        exact ⟨rfl, Or.inr ⟨rfl, Or.inl ⟨s, rest, rfl, hf, cmdVz_append_sp _ _ _⟩⟩⟩
      · cases h; exact ⟨rfl, Or.inr ⟨rfl, Or.inr rfl⟩⟩
    | sleep d =>
      simp only [stepMain, hc] at h
      split at h
      · cases h; exact ⟨rfl, Or.inr ⟨rfl, Or.inr rfl⟩⟩
      · split at h
        · cases h; exact ⟨rfl, Or.inr ⟨rfl, Or.inr rfl⟩⟩
        · cases h
    | startThread =>
      simp only [stepMain, hc] at h
      cases h; exact ⟨rfl, Or.inl ⟨rest, rfl, rfl⟩⟩
    | cleanup s =>
      cases s with
      | putTerm =>
        simp only [stepMain, hc] at h
        cases h; exact ⟨rfl, Or.inr ⟨rfl, Or.inr (cmdVz_append_term _ _)⟩⟩
      | join =>
        simp only [stepMain, hc] at h
        split at h
        · cases h
        · cases h; exact ⟨rfl, Or.inr ⟨rfl, Or.inr rfl⟩⟩
      | _ =>
        simp only [stepMain, hc] at h
        cases h; exact ⟨rfl, Or.inr ⟨rfl, Or.inr rfl⟩⟩
    | _ =>
      simp only [stepMain, hc] at h
      cases h; exact ⟨rfl, Or.inr ⟨rfl, Or.inr rfl⟩⟩

/-! ### a sleep of the commanding thread takes exactly its duration -/

theorem stepMain_tMain (st : Static) (c c' : Cfg) (h : stepMain st c = some c') : c'.tMain = c'.now ∧ c'.now = c.now := by
  cases hc : c.code with
  | nil => simp [stepMain, hc] at h
  | cons i rest =>
    cases i with
    | prim p =>
      simp only [stepMain, hc] at h
      split at h <;> (cases h; exact ⟨rfl, rfl⟩)
    | setVel s =>
      simp only [stepMain, hc] at h
      split at h <;> (cases h; exact ⟨rfl, rfl⟩)
    | sleep d =>
      simp only [stepMain, hc] at h
      split at h
      · cases h; exact ⟨rfl, rfl⟩
      · split at h
        · cases h; exact ⟨rfl, rfl⟩
        · cases h
    | cleanup s =>
      cases s with
      | join =>
        simp only [stepMain, hc] at h
        split at h
        · cases h
        · cases h; exact ⟨rfl, rfl⟩
      | _ =>
        simp only [stepMain, hc] at h
        cases h; exact ⟨rfl, rfl⟩
    | _ =>
      simp only [stepMain, hc] at h
      cases h; exact ⟨rfl, rfl⟩

/-- the clock never passes the end of the commanding thread's sleep -/
def SleepOK (c : Cfg) : Prop := ∀ d rest, c.code = .sleep d :: rest → 0 ≤ d → c.now ≤ c.tMain + d

theorem sleepOK_step (st : Static) (c : Cfg) (t : Nat) (c' : Cfg) (inv : SleepOK c) (h : (machine st).step c t = some c') :
    SleepOK c' := by
  match t, h with
  | 0, h =>
    obtain ⟨h1, _⟩ := stepMain_tMain st c c' h
    intro d rest _ hd
    rw [h1]; linarith
  | 1, h =>
    have h' : stepThr st c = some c' := h
    unfold stepThr at h'
    split at h'
    · split at h'
      · cases h'; exact inv
      · cases h'; exact inv
      · split at h'
        · cases h'; exact inv
        · cases h'
    · cases h'
  | 2, h =>
    have h' : stepClock c = some c' := h
    unfold stepClock at h'
    split at h'
    · cases h'
    · split at h'
      · rename_i a hw ha
        cases h'
        intro d rest hc hd
        have : a = c.tMain + d := by
          unfold mainWake at hw; rw [hc] at hw; simp only [Option.some.injEq] at hw; exact hw.symm
        show qmin a c.thr.deadline ≤ c.tMain + d
        rw [← this]
        unfold qmin; split
        · exact le_refl _
        · rename_i hle; exact le_of_lt (not_le.mp hle)
      · rename_i a hw ha
        cases h'
        intro d rest hc hd
        have : a = c.tMain + d := by
          unfold mainWake at hw; rw [hc] at hw; simp only [Option.some.injEq] at hw; exact hw.symm
        show a ≤ c.tMain + d
        rw [this]
      · rename_i hw ha
        cases h'
        intro d rest hc hd
        unfold mainWake at hw; rw [hc] at hw; cases hw
      · cases h'
  | _ + 3, h => simp [machine] at h

/-! ### end to end: what happens while the commanding thread sleeps inside a blocking primitive -/

theorem stepThr_frame (st : Static) (c c' : Cfg) (h : stepThr st c = some c') (hq : Ev.term ∉ c.thr.queue) :
    c'.code = c.code ∧ c'.tMain = c.tMain ∧ c'.flying = c.flying ∧ c'.thr.alive = true ∧ Ev.term ∉ c'.thr.queue := by
  unfold stepThr at h
  split at h
  · rename_i ha
    split at h
    · rename_i q hq'; rw [hq'] at hq; simp at hq
    · rename_i s q hq'
      cases h
      rw [hq'] at hq
      exact ⟨rfl, rfl, rfl, ha, fun hm => hq (by simp [hm])⟩
    · rename_i hq'
      split at h
      · cases h; exact ⟨rfl, rfl, rfl, ha, by rw [hq']; simp⟩
      · cases h
  · cases h

theorem stepClock_frame (c c' : Cfg) (h : stepClock c = some c') :
    c'.code = c.code ∧ c'.tMain = c.tMain ∧ c'.flying = c.flying ∧ c'.thr = c.thr ∧ c'.trace = c.trace := by
  unfold stepClock at h
  split at h
  · cases h
  · split at h <;> first | (cases h; exact ⟨rfl, rfl, rfl, rfl, rfl⟩) | cases h

/-- what is preserved while only the set-point thread and the clock run (the commanding thread sleeps) -/
structure Seg (c0 c : Cfg) : Prop where
  code : c.code = c0.code
  tMain : c.tMain = c0.tMain
  alive : c.thr.alive = true
  noterm : Ev.term ∉ c.thr.queue
  vz : cmdVz c.thr.queue c.thr.zVel = cmdVz c0.thr.queue c0.thr.zVel
  height : curZ c.thr c.now = curZ c0.thr c0.now + cmdVz c0.thr.queue c0.thr.zVel * (c.now - c0.now)
  sleep : SleepOK c

theorem seg_run (st : Static) (c0 : Cfg) : ∀ (sch : List Nat) (c c' : Cfg), (∀ t ∈ sch, t = 1 ∨ t = 2) → Seg c0 c →
    run (machine st) c sch = some c' → Seg c0 c'
  | [], c, c', _, hs, hr => by simp only [run, Option.some.injEq] at hr; exact hr ▸ hs
  | t :: ts, c, c', ht, hs, hr => by
    simp only [run] at hr
    cases hstep : (machine st).step c t with
    | none => rw [hstep] at hr; cases hr
    | some c1 =>
      rw [hstep] at hr
      refine seg_run st c0 ts c1 c' (fun t' ht' => ht t' (by simp [ht'])) ?_ hr
      have hsl := sleepOK_step st c t c1 hs.sleep hstep
      cases ht t (by simp) with
      | inl h1 =>
        subst h1
        have hstep' : stepThr st c = some c1 := hstep
        obtain ⟨f1, f2, _, f4, f5⟩ := stepThr_frame st c c1 hstep' hs.noterm
        obtain ⟨g1, g2, g3, _⟩ := height_thr st c c1 hstep'
        exact ⟨f1.trans hs.code, f2.trans hs.tMain, f4, f5, g3.trans hs.vz, by rw [g2, g1]; exact hs.height, hsl⟩
      | inr h2 =>
        subst h2
        have hstep' : stepClock c = some c1 := hstep
        obtain ⟨f1, f2, _, f4, _⟩ := stepClock_frame c c1 hstep'
        obtain ⟨g1, _, g3⟩ := height_clock c c1 hstep' hs.alive
        refine ⟨f1.trans hs.code, f2.trans hs.tMain, by rw [f4]; exact hs.alive, by rw [f4]; exact hs.noterm,
          by rw [f4]; exact hs.vz, ?_, hsl⟩
        rw [g3, hs.height, hs.vz]; ring

theorem sleep_segment (st : Static) (c : Cfg) (T : Q) (rest : List Instr) (hc : c.code = .sleep T :: rest) (hT : 0 ≤ T)
    (htm : c.tMain = c.now) (ha : c.thr.alive = true) (hq : Ev.term ∉ c.thr.queue)
    (sch : List Nat) (hsch : ∀ t ∈ sch, t = 1 ∨ t = 2) (c' c'' : Cfg)
    (hrun : run (machine st) c sch = some c') (hwake : stepMain st c' = some c'') :
    c''.code = rest ∧ c''.now = c.now + T ∧
    curZ c''.thr c''.now = curZ c.thr c.now + cmdVz c.thr.queue c.thr.zVel * T := by
  have h0 : Seg c c := ⟨rfl, rfl, ha, hq, rfl, by ring, fun d r _ hd => by rw [htm]; linarith⟩
  have hs := seg_run st c sch c c' hsch h0 hrun
  have hc' : c'.code = .sleep T :: rest := hs.code.trans hc
  have hle := hs.sleep T rest hc' hT
  simp only [stepMain, hc'] at hwake
  split at hwake
  · rename_i hneg; exact absurd hT (not_le.mpr hneg)
  · split at hwake
    · rename_i hge
      cases hwake
      have hnow : c'.now = c.now + T := by rw [← htm, ← hs.tMain]; exact le_antisymm hle hge
      refine ⟨rfl, hnow, ?_⟩
      show curZ c'.thr c'.now = _
      rw [hs.height, hnow]; ring
    · cases hwake

theorem sleepOK_run (st : Static) (code : List Instr) (sch : List Nat) (c : Cfg)
    (h : run (machine st) (Cfg.start code) sch = some c) : SleepOK c := by
  refine run_invariant (machine st) SleepOK (fun c t c' i hs => sleepOK_step st c t c' i hs) sch _ c ?_ h
  intro d rest _ hd
  show (0 : Q) ≤ 0 + d
  linarith

end CfVerif.C17

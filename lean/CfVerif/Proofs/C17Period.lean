/-
Proofs/C17Period — while the MotionCommander is flying, hover set-points are streamed at least every update period:
the invariant behind `hover_stream_period`.
-/
import CfVerif.Proofs.C17Inv
namespace CfVerif.C17
open CfVerif CfVerif.Sched

/-- no thread start in this code -/
def NS (l : List Instr) : Bool := l.all (fun i => i != .startThread)

/-- a thread start can only be the next thing the commanding thread does (after parameter calls / sleeps) -/
def StartOK : List Instr → Bool
  | [] => true
  | .startThread :: rest => NS rest
  | .param _ :: rest => StartOK rest
  | .sleep _ :: rest => StartOK rest
  | .setFlying :: rest => StartOK rest
  | _ :: rest => NS rest

theorem NS_cons (i : Instr) (l : List Instr) : NS (i :: l) = ((i != .startThread) && NS l) := by simp [NS]
theorem NS_append (a b : List Instr) : NS (a ++ b) = (NS a && NS b) := by simp [NS]

theorem StartOK_of_NS : ∀ (l : List Instr), NS l = true → StartOK l = true
  | [], _ => rfl
  | i :: rest, h => by
    rw [NS_cons] at h
    simp only [Bool.and_eq_true] at h
    cases i with
    | startThread => simp at h
    | param v => simpa [StartOK] using StartOK_of_NS rest h.2
    | sleep d => simpa [StartOK] using StartOK_of_NS rest h.2
    | setFlying => simpa [StartOK] using StartOK_of_NS rest h.2
    | _ => simpa [StartOK] using h.2

theorem StartOK_tail (i : Instr) (rest : List Instr) (h : StartOK (i :: rest) = true) : StartOK rest = true := by
  cases i with
  | param v => simpa [StartOK] using h
  | sleep d => simpa [StartOK] using h
  | setFlying => simpa [StartOK] using h
  | _ => exact StartOK_of_NS rest (by simpa [StartOK] using h)

theorem NS_unwind (e : Err) : ∀ (l : List Instr), NS l = true → NS (unwind e l).1 = true
  | [], _ => by simp [unwind, NS]
  | i :: rest, h => by
    rw [NS_cons] at h
    simp only [Bool.and_eq_true] at h
    cases i with
    | exitCtx => simp [unwind, NS_cons, h.2]
    | landFinally => simp [unwind, NS_cons, h.2]
    | takeoffExcept => simp [unwind, NS_cons, h.2]
    | enterEnd => simp [unwind, NS]
    | _ => simpa [unwind] using NS_unwind e rest h.2

theorem StartOK_unwind (e : Err) : ∀ (l : List Instr), StartOK l = true → NS (unwind e l).1 = true
  | [], _ => by simp [unwind, NS]
  | i :: rest, h => by
    cases i with
    | exitCtx => simp only [StartOK] at h; simp [unwind, NS_cons, h]
    | landFinally => simp only [StartOK] at h; simp [unwind, NS_cons, h]
    | takeoffExcept => simp only [StartOK] at h; simp [unwind, NS_cons, h]
    | enterEnd => simp [unwind, NS]
    | param v => simp only [StartOK] at h; simpa [unwind] using StartOK_unwind e rest h
    | sleep d => simp only [StartOK] at h; simpa [unwind] using StartOK_unwind e rest h
    | setFlying => simp only [StartOK] at h; simpa [unwind] using StartOK_unwind e rest h
    | _ => simp only [StartOK] at h; simpa [unwind] using NS_unwind e rest h

theorem NS_basic : ∀ (is : List Instr), is.all basic = true → NS is = true
  | [], _ => rfl
  | i :: is, hb => by
    simp only [List.all_cons, Bool.and_eq_true] at hb
    rw [NS_cons, NS_basic is hb.2]
    cases i <;> simp_all [basic]

/-- time-stamp condition for appending an event at time `t2` to a (newest first) trace -/
def gapHead (p : Q) (t2 : Q) : List (Q × Cmd) → Prop
  | (t1, .hover _ _ _ _) :: _ => t2 ≤ t1 + p
  | _ => True

/-- every commander call that directly follows a hover set-point comes at most `p` later -/
def GapOK (p : Q) : List (Q × Cmd) → Prop
  | [] => True
  | (t, _) :: rest => gapHead p t rest ∧ GapOK p rest

structure PInv (p : Q) (c : Cfg) : Prop where
  start : StartOK c.code = true
  nostart : c.thr.alive = true → NS c.code = true
  gaps : GapOK p c.trace
  dl : c.thr.alive = true → c.now ≤ c.thr.deadline ∧ gapHead p c.thr.deadline c.trace
  pend : c.thr.alive = false → (headStage c.code = some .join ∨ headStage c.code = some .stop) → gapHead p c.now c.trace

theorem gapHead_of_Ended (p t : Q) (tr : List (Q × Cmd)) (h : Ended tr) : gapHead p t tr := by
  obtain h | ⟨t1, t2, rest, h⟩ := h <;> (rw [h]; trivial)

/-- pattern: a step of the commanding thread that touches neither the clock, the trace nor the thread's liveness / deadline
and does not produce a `join` / `stop` stage at the head -/
theorem pinv_quiet (p : Q) (c c' : Cfg) (hn : c'.now = c.now) (htr : c'.trace = c.trace) (hal : c'.thr.alive = c.thr.alive)
    (hdl : c'.thr.deadline = c.thr.deadline) (hs : StartOK c'.code = true) (hns : c.thr.alive = true → NS c'.code = true)
    (hh : headStage c'.code ≠ some .join ∧ headStage c'.code ≠ some .stop) (pi : PInv p c) : PInv p c' := by
  refine ⟨hs, ?_, htr ▸ pi.gaps, ?_, ?_⟩
  · intro ha; rw [hal] at ha; exact hns ha
  · intro ha; rw [hal] at ha; rw [hn, hdl, htr]; exact pi.dl ha
  · intro _ h; cases h with
    | inl h => exact absurd h hh.1
    | inr h => exact absurd h hh.2

theorem headStage_append_basic (is rest : List Instr) (hb : is.all basic = true) (hr : headStage rest ≠ some .join ∧ headStage rest ≠ some .stop) :
    headStage (is ++ rest) ≠ some .join ∧ headStage (is ++ rest) ≠ some .stop := by
  cases is with
  | nil => exact hr
  | cons i is =>
    simp only [List.all_cons, Bool.and_eq_true] at hb
    cases i <;> simp_all [basic, headStage]

theorem headStage_noLate (l : List Instr) (h : noLate l = true) : headStage l ≠ some .join ∧ headStage l ≠ some .stop := by
  cases l with
  | nil => simp [headStage]
  | cons i rest =>
    rw [noLate_cons] at h
    cases i with
    | cleanup s => cases s <;> simp_all [headStage, isLate]
    | _ => simp [headStage]

theorem gapHead_mono (p t t' : Q) (tr : List (Q × Cmd)) (h : t ≤ t') (hg : gapHead p t' tr) : gapHead p t tr := by
  cases tr with
  | nil => trivial
  | cons e rest =>
    obtain ⟨t1, c⟩ := e
    cases c with
    | hover a b y z => exact le_trans h hg
    | _ => trivial

theorem expand_noLate (st : Static) (fl : Bool) (p : Prim) (is : List Instr) (he : expand st fl p = .ok is) : noLate is = true := by
  cases hsp : p.special with
  | false => exact noLate_basic is (expand_basic st fl p is hsp he)
  | true =>
    cases p with
    | land v =>
      simp only [expand] at he
      split at he
      · cases he; cases st.landFinally <;> simp [noLate, isLate]
      · cases he; rfl
    | takeOff h v =>
      simp only [expand] at he
      split at he
      · cases he
      · split at he
        · cases he
        · cases he; cases st.takeoffGuarded <;> simp [noLate, isLate]
    | _ => simp [Prim.special] at hsp

theorem expand_StartOK (st : Static) (fl : Bool) (p : Prim) (is rest : List Instr) (he : expand st fl p = .ok is)
    (hr : NS rest = true) : StartOK (is ++ rest) = true ∧ (fl = true → NS (is ++ rest) = true) := by
  cases hsp : p.special with
  | false =>
    have hb := NS_basic is (expand_basic st fl p is hsp he)
    have : NS (is ++ rest) = true := by rw [NS_append, hb, hr]; rfl
    exact ⟨StartOK_of_NS _ this, fun _ => this⟩
  | true =>
    cases p with
    | land v =>
      simp only [expand] at he
      split at he
      · cases he
        have : NS ([Instr.readHeight (velOf v), if st.landFinally = true then Instr.landFinally else Instr.cleanup Stage.putTerm] ++ rest) = true := by
          cases st.landFinally <;> simp [NS_cons, hr]
        exact ⟨StartOK_of_NS _ this, fun _ => this⟩
      · cases he; exact ⟨StartOK_of_NS _ hr, fun _ => hr⟩
    | takeOff h v =>
      simp only [expand] at he
      split at he
      · cases he
      · rename_i hfl
        split at he
        · cases he
        · cases he
          refine ⟨?_, fun h => absurd h hfl⟩
          cases st.takeoffGuarded <;> simp [StartOK, NS_cons, hr]
    | _ => simp [Prim.special] at hsp

/-- raising keeps the period invariant -/
theorem pinv_raise (p : Q) (c : Cfg) (i : Instr) (rest : List Instr) (e : Err) (hc : c.code = i :: rest) (inv : Inv c)
    (pi : PInv p c) : PInv p (raiseAt c e rest) := by
  have hs := pi.start
  rw [hc] at hs
  have hnl : noLate rest = true := by have := inv.tail; rw [hc] at this; exact this
  have hns := StartOK_unwind e rest (StartOK_tail i rest hs)
  exact pinv_quiet p c (raiseAt c e rest) rfl rfl rfl rfl (StartOK_of_NS _ hns) (fun _ => hns)
    (headStage_noLate _ (unwind_noLate e rest hnl)) pi

theorem NS_tail_of_StartOK {i : Instr} {rest : List Instr} (h : StartOK (i :: rest) = true)
    (h1 : ∀ v, i ≠ .param v) (h2 : ∀ d, i ≠ .sleep d) (h3 : i ≠ .setFlying) : NS rest = true := by
  cases i with
  | param v => exact absurd rfl (h1 v)
  | sleep d => exact absurd rfl (h2 d)
  | setFlying => exact absurd rfl h3
  | _ => simpa [StartOK] using h

/-- every step of the commanding thread keeps the period invariant -/
theorem pinv_main (st : Static) (hp : 0 ≤ st.period) (c c' : Cfg) (inv : Inv c) (pi : PInv st.period c)
    (h : stepMain st c = some c') : PInv st.period c' := by
  cases hc : c.code with
  | nil => simp [stepMain, hc] at h
  | cons i rest =>
    have hnl : noLate rest = true := by have := inv.tail; rw [hc] at this; exact this
    have hs := pi.start
    rw [hc] at hs
    have hst := StartOK_tail i rest hs
    have hnsA : c.thr.alive = true → NS rest = true := by
      intro ha; have := pi.nostart ha; rw [hc, NS_cons] at this; simp only [Bool.and_eq_true] at this; exact this.2
    have hhr := headStage_noLate rest hnl
    cases i with
    | prim p =>
      simp only [stepMain, hc] at h
      cases he : expand st c.flying p with
      | error e => rw [he] at h; cases h; exact pinv_raise _ c _ rest e hc inv pi
      | ok is =>
        rw [he] at h; cases h
        have hr : NS rest = true := NS_tail_of_StartOK hs (by simp) (by simp) (by simp)
        obtain ⟨h1, h2⟩ := expand_StartOK st c.flying p is rest he hr
        refine pinv_quiet _ c _ rfl rfl rfl rfl h1 ?_ ?_ pi
        · intro ha
          by_cases hq : Ev.term ∈ c.thr.queue
          · obtain ⟨r, hr'⟩ := inv.term ha hq; rw [hc] at hr'; cases hr'
          · exact h2 (inv.live ha hq).1
        · exact headStage_noLate _ (by rw [noLate_append, expand_noLate st _ p is he, hnl]; rfl)
    | setVel s =>
      simp only [stepMain, hc] at h
      split at h
      · cases h
        exact pinv_quiet _ c _ rfl rfl rfl rfl hst hnsA hhr pi
      · cases h; exact pinv_raise _ c _ rest _ hc inv pi
    | sleep d =>
      simp only [stepMain, hc] at h
      split at h
      · cases h; exact pinv_raise _ c _ rest _ hc inv pi
      · split at h
        · cases h; exact pinv_quiet _ c _ rfl rfl rfl rfl hst hnsA hhr pi
        · cases h
    | param v =>
      simp only [stepMain, hc] at h
      cases h; exact pinv_quiet _ c _ rfl rfl rfl rfl hst hnsA hhr pi
    | setFlying =>
      simp only [stepMain, hc] at h
      cases h; exact pinv_quiet _ c _ rfl rfl rfl rfl hst hnsA hhr pi
    | startThread =>
      simp only [stepMain, hc] at h
      cases h
      have hdead : c.thr.alive = false := by
        cases ha : c.thr.alive with
        | false => rfl
        | true => have := pi.nostart ha; rw [hc] at this; simp [NS] at this
      have hr : NS rest = true := by simpa [StartOK] using hs
      have hE : Ended c.trace := Ended_of_DeadOK c (by rw [hc]; rfl) (inv.dead hdead)
      refine ⟨hst, fun _ => hr, pi.gaps, ?_, ?_⟩
      · intro _
        refine ⟨?_, gapHead_of_Ended _ _ _ hE⟩
        show c.now ≤ c.now + st.period
        linarith
      · intro ha; simp [Thr.fresh] at ha
    | readHeight v =>
      simp only [stepMain, hc] at h
      cases h
      have hr : NS rest = true := NS_tail_of_StartOK hs (by simp) (by simp) (by simp)
      have : NS (Instr.prim (.go .down c.thr.hz (some v)) :: rest) = true := by rw [NS_cons, hr]; rfl
      exact pinv_quiet _ c _ rfl rfl rfl rfl (StartOK_of_NS _ this) (fun _ => this) (by simp [headStage]) pi
    | raise e =>
      simp only [stepMain, hc] at h
      cases h; exact pinv_raise _ c _ rest _ hc inv pi
    | enterEnd =>
      simp only [stepMain, hc] at h
      cases h; exact pinv_quiet _ c _ rfl rfl rfl rfl hst hnsA hhr pi
    | takeoffExcept =>
      simp only [stepMain, hc] at h
      cases h; exact pinv_quiet _ c _ rfl rfl rfl rfl hst hnsA hhr pi
    | exitCtx =>
      simp only [stepMain, hc] at h
      cases h
      have hr : NS rest = true := NS_tail_of_StartOK hs (by simp) (by simp) (by simp)
      have : NS (Instr.prim (.land none) :: rest) = true := by rw [NS_cons, hr]; rfl
      exact pinv_quiet _ c _ rfl rfl rfl rfl (StartOK_of_NS _ this) (fun _ => this) (by simp [headStage]) pi
    | landFinally =>
      simp only [stepMain, hc] at h
      cases h
      have hr : NS rest = true := NS_tail_of_StartOK hs (by simp) (by simp) (by simp)
      have : NS (Instr.cleanup .putTerm :: rest) = true := by rw [NS_cons, hr]; rfl
      exact pinv_quiet _ c _ rfl rfl rfl rfl (StartOK_of_NS _ this) (fun _ => this) (by simp [headStage]) pi
    | cleanup s =>
      have hr : NS rest = true := NS_tail_of_StartOK hs (by simp) (by simp) (by simp)
      have hcons : ∀ s', NS (Instr.cleanup s' :: rest) = true := fun s' => by rw [NS_cons, hr]; rfl
      cases s with
      | putTerm =>
        simp only [stepMain, hc] at h
        cases h
        refine ⟨StartOK_of_NS _ (hcons _), fun _ => hcons _, pi.gaps, pi.dl, ?_⟩
        intro ha _
        have hd := inv.dead ha
        simp only [DeadOK, hc, headStage] at hd
        exact gapHead_of_Ended _ _ _ hd
      | join =>
        simp only [stepMain, hc] at h
        split at h
        · cases h
        · rename_i hal
          cases h
          have hal' : c.thr.alive = false := by simpa using hal
          refine ⟨StartOK_of_NS _ (hcons _), fun _ => hcons _, pi.gaps, pi.dl, ?_⟩
          intro _ _
          exact pi.pend hal' (Or.inl (by rw [hc]; rfl))
      | stop =>
        simp only [stepMain, hc] at h
        cases h
        have hdead := late_dead c inv .stop rest hc (by simp) (by simp)
        refine ⟨StartOK_of_NS _ (hcons _), fun _ => hcons _, ?_, ?_, ?_⟩
        · exact ⟨pi.pend hdead (Or.inr (by rw [hc]; rfl)), pi.gaps⟩
        · intro ha; rw [hdead] at ha; cases ha
        · intro _ hh; simp [headStage] at hh
      | notify =>
        simp only [stepMain, hc] at h
        cases h
        have hdead := late_dead c inv .notify rest hc (by simp) (by simp)
        have hd := inv.dead hdead
        simp only [DeadOK, hc, headStage] at hd
        obtain ⟨t, tr, htr⟩ := hd
        refine ⟨StartOK_of_NS _ (hcons _), fun _ => hcons _, ?_, ?_, ?_⟩
        · refine ⟨?_, pi.gaps⟩
          rw [htr]; trivial
        · intro ha; rw [hdead] at ha; cases ha
        · intro _ hh; simp [headStage] at hh
      | clear =>
        simp only [stepMain, hc] at h
        cases h
        exact pinv_quiet _ c _ rfl rfl rfl rfl hst hnsA hhr pi

/-- every iteration of the set-point thread keeps the period invariant -/
theorem pinv_thr (st : Static) (hp : 0 ≤ st.period) (c c' : Cfg) (pi : PInv st.period c)
    (h : stepThr st c = some c') : PInv st.period c' := by
  unfold stepThr at h
  split at h
  · rename_i ha
    obtain ⟨hd1, hd2⟩ := pi.dl ha
    have hnow : gapHead st.period c.now c.trace := gapHead_mono _ _ _ _ hd1 hd2
    split at h
    · cases h
      exact ⟨pi.start, fun ha' => (by cases ha'), pi.gaps, fun ha' => (by cases ha'), fun _ _ => hnow⟩
    · cases h
      refine ⟨pi.start, fun _ => pi.nostart ha, ⟨hnow, pi.gaps⟩, ?_, ?_⟩
      · intro _
        refine ⟨?_, le_refl _⟩
        show c.now ≤ c.now + st.period
        linarith
      · intro ha'; simp [ha] at ha'
    · split at h
      · cases h
        refine ⟨pi.start, fun _ => pi.nostart ha, ⟨hnow, pi.gaps⟩, ?_, ?_⟩
        · intro _
          refine ⟨?_, le_refl _⟩
          show c.now ≤ c.now + st.period
          linarith
        · intro ha'; simp [ha] at ha'
      · cases h
  · cases h

theorem qmin_le_right (a b : Q) : qmin a b ≤ b := by
  unfold qmin; split
  · assumption
  · exact le_refl _

/-- the passage of time keeps the period invariant: the clock never passes the set-point thread's deadline -/
theorem pinv_clock (p : Q) (c c' : Cfg) (pi : PInv p c) (h : stepClock c = some c') : PInv p c' := by
  unfold stepClock at h
  split at h
  · cases h
  · rename_i hen
    have hme : mainEnabled c = false := by
      cases hm : mainEnabled c with
      | false => rfl
      | true => simp [hm] at hen
    have hpend : ∀ t : Q, c.thr.alive = false → (headStage c.code = some .join ∨ headStage c.code = some .stop) → gapHead p t c.trace := by
      intro t ha hh
      exfalso
      unfold mainEnabled at hme
      cases hc : c.code with
      | nil => rw [hc] at hh; simp [headStage] at hh
      | cons i rest =>
        rw [hc] at hme hh
        cases i with
        | cleanup s => cases s <;> simp_all [headStage]
        | _ => simp [headStage] at hh
    split at h
    · rename_i a ha
      cases h
      exact ⟨pi.start, pi.nostart, pi.gaps, fun _ => ⟨qmin_le_right _ _, (pi.dl ha).2⟩, fun ha' => (by simp [ha] at ha')⟩
    · rename_i a ha
      cases h
      exact ⟨pi.start, pi.nostart, pi.gaps, fun ha' => (by simp [ha] at ha'), fun ha' hh => hpend _ ha' hh⟩
    · rename_i ha
      cases h
      exact ⟨pi.start, pi.nostart, pi.gaps, fun _ => ⟨le_refl _, (pi.dl ha).2⟩, fun ha' => (by simp [ha] at ha')⟩
    · cases h

theorem pinv_init (p : Q) (body : List Prim) : PInv p (initWith body) := by
  have hns : NS (Instr.enterEnd :: (body.map Instr.prim ++ [Instr.exitCtx])) = true := by
    simp [NS]
  refine ⟨?_, ?_, trivial, ?_, ?_⟩
  · simp only [initWith, Cfg.start, withCode, StartOK]; exact hns
  · intro ha; simp [initWith, Cfg.start, Thr.fresh] at ha
  · intro ha; simp [initWith, Cfg.start, Thr.fresh] at ha
  · intro _ _; trivial

/-- both invariants hold after every interleaving -/
theorem pinv_run (st : Static) (hf : Fixed st) (hp : 0 ≤ st.period) (body : List Prim) (sch : List Nat) (c : Cfg)
    (h : run (machine st) (initWith body) sch = some c) : Inv c ∧ PInv st.period c := by
  refine run_invariant (machine st) (fun c => Inv c ∧ PInv st.period c) ?_ sch _ c ⟨inv_init body, pinv_init _ body⟩ h
  intro c t c' ⟨i, pi⟩ hs
  refine ⟨inv_step st hf c t c' i hs, ?_⟩
  match t, hs with
  | 0, hs => exact pinv_main st hp c c' i pi hs
  | 1, hs => exact pinv_thr st hp c c' pi hs
  | 2, hs => exact pinv_clock _ c c' pi hs
  | _ + 3, hs => simp [machine] at hs

end CfVerif.C17

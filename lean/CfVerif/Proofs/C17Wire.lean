/-
Proofs/C17Wire — composition of the C17 trace theorems with C08's packet theorems: what the firmware decodes from the
packets that the real `Commander` / `HighLevelCommander` emit for the calls in the MotionCommander / PositionHlCommander
traces.  `enc : Q → C08.Num` stands for the Python number object that carries a model rational (a float with its
binary64 pattern and its binary32 conversion, or an int): the double arithmetic itself is outside both models.
-/
import CfVerif.Props.C08
import CfVerif.Model.C17
namespace CfVerif.C17
open CfVerif

/-- Python `0` / `False` where the API packs a float: converts to +0.0 -/
def intZeroF : C08.Num := .i 0 (.bits 0)

/-- the `Commander` call behind each entry of the MotionCommander trace:
`send_hover_setpoint(*[vx, vy, yawrate, z])`, `send_stop_setpoint()`, `send_notify_setpoint_stop()` (default 0 ms) -/
def mcCall (enc : Q → C08.Num) : Cmd → C08.Call
  | .hover vx vy yaw z => .hover (enc vx) (enc vy) (enc yaw) (enc z)
  | .stop => .stopSetpoint
  | .notify => .notifyStop (C08.ki 0)

/-- the `HighLevelCommander` call behind each entry of the PositionHlCommander trace: `takeoff(height, duration_s)`,
`land(landing_height, duration_s)` (defaults `group_mask=ALL_GROUPS=0`, `yaw=0.0`), `go_to(x, y, z, 0, duration_s)`
(defaults `relative=False, linear=False, group_mask=0`), `stop()`; the controller selection is a parameter write -/
def hlCall (enc : Q → C08.Num) : HCmd → Option C08.Call
  | .takeoff h dur => some (.hlTakeoff (enc h) (enc dur) (C08.ki 0) (some (enc 0)))
  | .land h dur => some (.hlLand (enc h) (enc dur) (C08.ki 0) (some (enc 0)))
  | .goTo x y z _ dur => some (.hlGoTo (enc x) (enc y) (enc z) intZeroF (enc dur) (C08.ki 0) (C08.ki 0) (C08.ki 0))
  | .stop => some (.hlStop (C08.ki 0))
  | .controller _ => none

/-- one packet, decoded by the firmware of that protocol version to what the arguments denote -/
def Decodes (ver : Int) (c : C08.Call) (ps : List C08.Packet) : Prop :=
  ∃ p, ps = [p] ∧ p.data.length ≤ 30 ∧ (C08.expected? ver c).isSome ∧ C08.Fw.decode ver p.header p.data = C08.expected? ver c

theorem mc_emit_decodes (enc : Q → C08.Num) (ver : Int) (cmd : Cmd) (ps : List C08.Packet)
    (h : C08.emit ver (mcCall enc cmd) = .ok ps) : Decodes ver (mcCall enc cmd) ps := by
  have hpre : (mcCall enc cmd).Pre ver := by cases cmd <;> trivial
  rcases C08.emit_decodes ver _ ps h hpre with h1 | ⟨_, _, a, b, c, d, e, f, g, h', hc⟩
  · exact h1
  · cases cmd <;> cases hc

theorem hl_emit_decodes (enc : Q → C08.Num) (ver : Int) (cmd : HCmd) (call : C08.Call) (hcall : hlCall enc cmd = some call)
    (ps : List C08.Packet) (h : C08.emit ver call = .ok ps) : Decodes ver call ps := by
  have hpre : call.Pre ver := by cases cmd <;> simp only [hlCall, Option.some.injEq] at hcall <;> first | (subst hcall; trivial) | cases hcall
  rcases C08.emit_decodes ver _ ps h hpre with h1 | ⟨_, _, a, b, c, d, e, f, g, h', hc⟩
  · exact h1
  · cases cmd <;> simp only [hlCall, Option.some.injEq] at hcall <;> first | (subst hcall; cases hc) | cases hcall

/-- what the hover arguments denote for the firmware: on BOTH sides of the protocol switch the yaw rate the firmware uses
is the binary32 value of the caller's yaw rate, sign included (for a float yaw rate; the Python int 0 arrives as -0.0
on the legacy side) -/
theorem hover_expected (ver : Int) (vx vy yaw z : C08.Num) (hy : yaw.isIntZero = false) :
    C08.expected? ver (.hover vx vy yaw z) =
      (do pure (C08.Fw.Cmd.hover (← C08.f32? vx) (← C08.f32? vy) (← C08.f32? yaw) (← C08.f32? z))) := by
  simp only [C08.expected?, C08.legacyYaw?, hy]
  split <;> rfl

theorem stop_notify_expected (ver : Int) :
    C08.expected? ver .stopSetpoint = some .stop ∧
    C08.expected? ver (.notifyStop (C08.ki 0)) = some (.notifySetpointsStop 0) := ⟨rfl, rfl⟩

/-- the final `stop, notify_setpoint_stop` are each one packet that every firmware version decodes as such -/
theorem stop_notify_wire (ver : Int) :
    (∃ p, C08.emit ver .stopSetpoint = .ok [p] ∧ C08.Fw.decode ver p.header p.data = some .stop) ∧
    (∃ p, C08.emit ver (.notifyStop (C08.ki 0)) = .ok [p] ∧ C08.Fw.decode ver p.header p.data = some (.notifySetpointsStop 0)) := by
  obtain ⟨p1, h1⟩ := C08.emit_complete ver .stopSetpoint (by rw [(stop_notify_expected ver).1]; rfl)
  obtain ⟨p2, h2⟩ := C08.emit_complete ver (.notifyStop (C08.ki 0)) (by rw [(stop_notify_expected ver).2]; rfl)
  refine ⟨⟨p1, h1, ?_⟩, ⟨p2, h2, ?_⟩⟩
  · rcases C08.emit_decodes ver _ _ h1 trivial with ⟨p, hp, _, _, hd⟩ | ⟨hn, _⟩
    · cases hp; rw [hd]; rfl
    · cases hn
  · rcases C08.emit_decodes ver _ _ h2 trivial with ⟨p, hp, _, _, hd⟩ | ⟨hn, _⟩
    · cases hp; rw [hd]; rfl
    · cases hn

/-- what the high-level calls denote: absolute (not relative), non-linear go-to to (x, y, z) with yaw +0.0 and the duration;
take-off / landing to the height with yaw 0.0 and the duration; all groups.  Before protocol version 8 the go-to has no `linear` field. -/
theorem hl_expected (enc : Q → C08.Num) (ver : Int) (x y z w dur h : Q) :
    C08.expected? ver (.hlGoTo (enc x) (enc y) (enc z) intZeroF (enc dur) (C08.ki 0) (C08.ki 0) (C08.ki 0)) =
      (if ver < 8 then (do pure (C08.Fw.Cmd.hlGoTo 0 0 (← C08.f32? (enc x)) (← C08.f32? (enc y)) (← C08.f32? (enc z)) 0 (← C08.f32? (enc dur))))
       else (do pure (C08.Fw.Cmd.hlGoTo2 0 0 0 (← C08.f32? (enc x)) (← C08.f32? (enc y)) (← C08.f32? (enc z)) 0 (← C08.f32? (enc dur))))) ∧
    C08.expected? ver (.hlTakeoff (enc h) (enc dur) (C08.ki 0) (some (enc w))) =
      (do pure (C08.Fw.Cmd.hlTakeoff2 0 (← C08.f32? (enc h)) (← C08.f32? (enc w)) false (← C08.f32? (enc dur)))) ∧
    C08.expected? ver (.hlLand (enc h) (enc dur) (C08.ki 0) (some (enc w))) =
      (do pure (C08.Fw.Cmd.hlLand2 0 (← C08.f32? (enc h)) (← C08.f32? (enc w)) false (← C08.f32? (enc dur)))) ∧
    C08.expected? ver (.hlStop (C08.ki 0)) = some (.hlStop 0) := by
  refine ⟨?_, ?_, ?_, rfl⟩
  · simp only [C08.expected?]
    split <;> simp [C08.uint?, C08.ki, C08.f32?, intZeroF, C08.Num.conv]
  · simp [C08.expected?, C08.uint?, C08.ki]
  · simp [C08.expected?, C08.uint?, C08.ki]

end CfVerif.C17

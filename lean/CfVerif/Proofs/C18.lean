/- Proofs/C18 — helper lemmas for Props/C18. -/
import CfVerif.Model.C18
import CfVerif.Base.StructLemmas
namespace CfVerif.C18
open CfVerif

theorem fmt_wire : parseFmt! Gen.C18.wireFmt = [.B, .B] := by decide
theorem fmt_unwire : parseFmt! Gen.C18.unwireFmt = [.B, .B] := by decide
theorem fmt_sock_write : parseFmt! Gen.C18.sockWriteFmt = [.H] := by decide
theorem fmt_sock_read : parseFmt! Gen.C18.sockReadFmt = [.H] := by decide

/-! ### codec -/

def hdrCheck (s d f : Nat) (l : Bool) : Bool :=
  match wireHdr s d f l Gen.C18.cpxVersion with
  | .ok [a, b] =>
    match unwireHdr [a, b] with
    | .ok (s', d', f', l') => s' == s && d' == d && f' == f && l' == l
    | _ => false
  | _ => false

/-- the finite core of the codec round trip: all header combinations, by kernel evaluation -/
theorem hdr_all : ∀ s ∈ Gen.C18.targetValues, ∀ d ∈ Gen.C18.targetValues, ∀ f ∈ Gen.C18.functionValues,
    ∀ l : Bool, hdrCheck s d f l = true := by decide +kernel

theorem hdr_roundtrip {s d f : Nat} {l : Bool} (h : hdrCheck s d f l = true) :
    ∃ a b : UInt8, wireHdr s d f l Gen.C18.cpxVersion = .ok [a, b] ∧ unwireHdr [a, b] = .ok (s, d, f, l) := by
  unfold hdrCheck at h
  split at h
  · rename_i a b hw
    split at h
    · rename_i s' d' f' l' hu
      simp only [Bool.and_eq_true, beq_iff_eq] at h
      obtain ⟨⟨⟨rfl, rfl⟩, rfl⟩, rfl⟩ := h
      exact ⟨a, b, hw, hu⟩
    · cases h
  · cases h

theorem unwire_wire_aux (p : Packet) (hs : p.src ∈ Gen.C18.targetValues) (hd : p.dst ∈ Gen.C18.targetValues)
    (hf : p.fn ∈ Gen.C18.functionValues) :
    ∃ bs, wire p Gen.C18.cpxVersion = .ok bs ∧ bs.length = p.data.length + 2 ∧ unwire bs = .ok p := by
  obtain ⟨a, b, hw, hu⟩ := hdr_roundtrip (hdr_all p.src hs p.dst hd p.fn hf p.last)
  refine ⟨[a, b] ++ p.data, ?_, ?_, ?_⟩
  · unfold wire; rw [hw]
  · simp
  · unfold unwire
    have : ([a, b] ++ p.data).take 2 = [a, b] := by simp
    rw [this, hu]; simp

theorem unpack_BB (a b : UInt8) : unpack [.B, .B] [a, b] = .ok [.int a.toNat, .int b.toNat] := by
  simp [unpack, Code.size, Code.takesVal, unpackOne, leVal, bind, Except.bind, pure, Except.pure]

theorem version_rejected_aux (a b : UInt8) (rest : List UInt8)
    (hver : Gen.C18.verExpr b.toNat ≠ Gen.C18.cpxVersion) :
    unwire (a :: b :: rest) = .error .version := by
  simp only [unwire, List.take, unwireHdr, fmt_unwire, unpack_BB]
  simp [hver]

/-! ### re-assembly -/

theorem readData_spec : ∀ (s : Sock) (n : Nat) (a b : List UInt8), (∀ c ∈ s, c ≠ []) →
    s.flatten = a ++ b → a.length = n →
    ∃ s', readData n s = .ok (a, s') ∧ s'.flatten = b ∧ (∀ c ∈ s', c ≠ [])
  | s, 0, a, b, hne, hcat, hlen => by
    have : a = [] := List.eq_nil_of_length_eq_zero hlen
    subst this
    exact ⟨s, by cases s <;> simp [readData], by simpa using hcat, hne⟩
  | [], n + 1, a, b, _, hcat, hlen => by
    simp at hcat
    rw [hcat.1] at hlen; cases hlen
  | c :: s, n + 1, a, b, hne, hcat, hlen => by
    simp only [List.flatten_cons] at hcat
    by_cases hc : c.length ≤ n + 1
    · -- the whole segment is consumed; `c` is a prefix of `a`
      have hca : c = a.take c.length := by
        have := congrArg (List.take c.length) hcat
        rw [List.take_left', List.take_append_of_le_length (by omega)] at this
        · exact this
        · rfl
      have hrest : s.flatten = a.drop c.length ++ b := by
        have := congrArg (List.drop c.length) hcat
        rw [List.drop_left', List.drop_append_of_le_length (by omega)] at this
        · exact this
        · rfl
      obtain ⟨s', h1, h2, h3⟩ := readData_spec s (n + 1 - c.length) (a.drop c.length) b
        (fun x hx => hne x (List.mem_cons_of_mem _ hx)) hrest (by simp; omega)
      refine ⟨s', ?_, h2, h3⟩
      rw [readData, if_pos hc, h1]
      congr 2
      conv => rhs; rw [← List.take_append_drop c.length a]
      rw [← hca]
    · -- the segment is larger than what is asked for: take a prefix, leave the remainder
      have hc' : n + 1 < c.length := by omega
      have ha : a = c.take (n + 1) := by
        have := congrArg (List.take (n + 1)) hcat
        rw [List.take_append_of_le_length (by omega), List.take_left' hlen] at this
        exact this.symm
      have hb : b = c.drop (n + 1) ++ s.flatten := by
        have := congrArg (List.drop (n + 1)) hcat
        rw [List.drop_append_of_le_length (by omega), List.drop_left' hlen] at this
        exact this.symm
      refine ⟨c.drop (n + 1) :: s, ?_, ?_, ?_⟩
      · rw [readData, if_neg hc, ha]
      · simp [hb]
      · intro x hx
        rcases List.mem_cons.1 hx with rfl | hx
        · intro h0
          have := congrArg List.length h0
          simp at this; omega
        · exact hne x (List.mem_cons_of_mem _ hx)

theorem pack_H (n : Nat) {pre} (h : pack [.H] [.int (n : Int)] = .ok pre) : n < 65536 ∧ pre = leBytes 2 n := by
  have hp : pack [.H] [.int (n : Int)] = (do let a ← packOne .H (.int n); let r ← pack [] []; pure (a ++ r)) := rfl
  rw [hp] at h
  have hq : packOne .H (.int (n:Int)) = packUnsigned 2 n := rfl
  rw [hq] at h
  cases ha : packUnsigned 2 (n : Int) with
  | error e => rw [ha] at h; cases h
  | ok a =>
    rw [ha] at h
    obtain ⟨_, _, h2, rfl⟩ := packUnsigned_ok ha
    simp only [pack, pure, Except.pure, bind, Except.bind] at h
    cases h
    exact ⟨by simpa using h2, by simp⟩

theorem frame_ok {p : Packet} {f : List UInt8} (hf : frame p = .ok f) (hs : p.src ∈ Gen.C18.targetValues)
    (hd : p.dst ∈ Gen.C18.targetValues) (hfn : p.fn ∈ Gen.C18.functionValues) :
    ∃ w, wire p Gen.C18.cpxVersion = .ok w ∧ w.length = p.data.length + 2 ∧ unwire w = .ok p ∧
      p.data.length + 2 < 65536 ∧ f = leBytes 2 (p.data.length + 2) ++ w := by
  obtain ⟨w, hw, hwl, hu⟩ := unwire_wire_aux p hs hd hfn
  refine ⟨w, hw, hwl, hu, ?_⟩
  unfold frame at hf
  rw [fmt_sock_write, hw] at hf
  cases hpre : pack [Code.H] [Val.int ((p.data.length + 2 : Nat) : Int)] with
  | error e => rw [hpre] at hf; cases hf
  | ok pre =>
    rw [hpre] at hf
    cases hf
    obtain ⟨h1, rfl⟩ := pack_H _ hpre
    exact ⟨h1, rfl⟩

theorem unpack_H (bs : List UInt8) (h : bs.length = 2) : unpack [.H] bs = .ok [.int (leVal bs)] := by
  simp [unpack, Code.size, Code.takesVal, unpackOne, h, bind, Except.bind, pure, Except.pure]
  have : bs.drop 2 = [] := by apply List.drop_eq_nil_of_le; omega
  simp [this, unpack, List.take_of_length_le (by omega : bs.length ≤ 2)]

theorem readPacket_spec (p : Packet) (f : List UInt8) (hf : frame p = .ok f)
    (hs : p.src ∈ Gen.C18.targetValues) (hd : p.dst ∈ Gen.C18.targetValues) (hfn : p.fn ∈ Gen.C18.functionValues)
    (s : Sock) (hne : ∀ c ∈ s, c ≠ []) (rest : List UInt8) (hcat : s.flatten = f ++ rest) :
    ∃ s', (readPacket s).1 = .ok (p, s') ∧ s'.flatten = rest ∧ (∀ c ∈ s', c ≠ []) := by
  obtain ⟨w, _, hwl, hu, hlt, rfl⟩ := frame_ok hf hs hd hfn
  rw [List.append_assoc] at hcat
  obtain ⟨s1, h1, h1f, h1n⟩ := readData_spec s 2 _ _ hne hcat (by simp)
  obtain ⟨s2, h2, h2f, h2n⟩ := readData_spec s1 (p.data.length + 2) _ _ h1n h1f hwl
  refine ⟨s2, ?_, h2f, h2n⟩
  have hv : leVal (leBytes 2 (p.data.length + 2)) = p.data.length + 2 := leVal_leBytes_of_lt (by omega)
  simp only [readPacket, h1, fmt_sock_read, unpack_H _ (leBytes_length 2 _), hv]
  have : (((p.data.length + 2 : Nat) : Int)).toNat = p.data.length + 2 := Int.toNat_natCast _
  simp only [this, h2, hu]

/-- `frames` are the byte strings `SocketTransport.writePacket` produced for `ps`, in order -/
inductive Framed : List Packet → List (List UInt8) → Prop
  | nil : Framed [] []
  | cons {p f ps fs} : frame p = .ok f → Framed ps fs → Framed (p :: ps) (f :: fs)

theorem reassembly_aux : ∀ (ps : List Packet),
    (∀ p ∈ ps, p.src ∈ Gen.C18.targetValues ∧ p.dst ∈ Gen.C18.targetValues ∧ p.fn ∈ Gen.C18.functionValues) →
    ∀ (frames : List (List UInt8)), Framed ps frames →
    ∀ (chunks : Sock), (∀ c ∈ chunks, c ≠ []) → ∀ (rest : List UInt8),
    chunks.flatten = frames.flatten ++ rest →
    ∃ s', readPackets ps.length chunks = .ok (ps, s') ∧ s'.flatten = rest
  | [], _, frames, hf, chunks, _, rest, hcat => by
    cases hf
    exact ⟨chunks, rfl, by simpa using hcat⟩
  | p :: ps, hv, frames, hf, chunks, hne, rest, hcat => by
    cases hf with
    | cons hfp hfs =>
      rename_i f fs
      simp only [List.flatten_cons, List.append_assoc] at hcat
      have hvp := hv p (List.mem_cons_self ..)
      obtain ⟨s1, h1, h1f, h1n⟩ := readPacket_spec p f hfp hvp.1 hvp.2.1 hvp.2.2 chunks hne _ hcat
      obtain ⟨s2, h2, h2f⟩ := reassembly_aux ps (fun q hq => hv q (List.mem_cons_of_mem _ hq)) fs hfs s1 h1n rest h1f
      refine ⟨s2, ?_, h2f⟩
      have hrp : readPacket chunks = (.ok (p, s1), (readPacket chunks).2) := by rw [← h1]
      rw [List.length_cons, readPackets, hrp]
      simp only [h2]

/-! ### router -/

theorem has_put (q : Queues) (g t f : Nat) : (q.put g t).has f = q.has f := by
  induction q with
  | nil => rfl
  | cons e q ih => simp only [Queues.put, Queues.has, ih]; split <;> simp_all

theorem get_put_same (q : Queues) (f t : Nat) (h : q.has f = true) : (q.put f t).get f = q.get f ++ [t] := by
  induction q with
  | nil => simp [Queues.has] at h
  | cons e q ih =>
    simp only [Queues.put, Queues.get]
    by_cases he : (e.1 == f) = true
    · simp [he]
    · have hq : Queues.has q f = true := by simpa [Queues.has, he] using h
      simp [he, ih hq]

theorem get_put_other (q : Queues) (g f t : Nat) (h : g ≠ f) : (q.put g t).get f = q.get f := by
  induction q with
  | nil => rfl
  | cons e q ih =>
    simp only [Queues.put, Queues.get, ih]
    by_cases hg : (e.1 == g) = true
    · have : ¬ e.1 = f := by intro hh; simp at hg; exact h (hg ▸ hh)
      simp [hg, this]
    · simp [hg]

theorem get_of_not_has (q : Queues) (f : Nat) (h : q.has f = false) : q.get f = [] := by
  induction q with
  | nil => rfl
  | cons e q ih =>
    simp only [Queues.has, Bool.or_eq_false_iff] at h
    simp [Queues.get, h.1, ih h.2]

theorem has_append (q : Queues) (g f : Nat) : (q ++ [(g, [])]).has f = (q.has f || g == f) := by
  induction q with
  | nil => simp [Queues.has]
  | cons e q ih => simp [Queues.has, ih, Bool.or_assoc]

theorem get_append (q : Queues) (g f : Nat) : (q ++ [(g, [])]).get f = q.get f := by
  induction q with
  | nil => simp [Queues.get]
  | cons e q ih => simp [Queues.get, ih]
def tagsFor (f : Nat) (ops : List ROp) : List Nat :=
  ops.filterMap fun
    | .pkt g t => if g = f then some t else none
    | .reg _ => none

/-- what a receiver of function `f` must find in its queue: the tags of the packets for `f` that
arrived after `f`'s queue was created (first `reg f`), in arrival order -/
def expectedQueue (f : Nat) (ops : List ROp) : List Nat := tagsFor f (ops.dropWhile (· ≠ .reg f))

theorem router_inv (ops : List ROp) (f : Nat) : ∀ q : Queues,
    (ops.foldl routerStep q).get f = if q.has f then q.get f ++ tagsFor f ops else expectedQueue f ops := by
  induction ops with
  | nil => intro q; by_cases h : q.has f <;> simp [h, tagsFor, expectedQueue, get_of_not_has]
  | cons op ops ih =>
    intro q
    rw [List.foldl_cons, ih]
    cases op with
    | reg g =>
      by_cases hg : q.has g
      · simp only [routerStep, hg, if_true]
        by_cases hf : q.has f
        · simp [hf, tagsFor]
        · have hgf : g ≠ f := by rintro rfl; exact hf hg
          have : (ROp.reg g ≠ ROp.reg f) := by simpa using hgf
          simp [hf, expectedQueue, this]
      · simp only [routerStep, hg]
        by_cases hgf : g = f
        · subst hgf
          have hg' : q.has g = false := by simpa using hg
          simp [has_append, hg', get_append, expectedQueue, tagsFor, get_of_not_has _ _ hg']
        · by_cases hf : q.has f
          · simp [has_append, hf, get_append, tagsFor]
          · have : (ROp.reg g ≠ ROp.reg f) := by simpa using hgf
            simp [has_append, hf, hgf, expectedQueue, this]
    | pkt g t =>
      have hne : (ROp.pkt g t ≠ ROp.reg f) := by simp
      by_cases hg : q.has g
      · simp only [routerStep, hg, if_true, has_put]
        by_cases hf : q.has f
        · by_cases hgf : g = f
          · subst hgf; simp [hf, get_put_same _ _ _ hg, tagsFor]
          · simp [hf, get_put_other _ _ _ _ hgf, tagsFor, hgf]
        · simp [hf, expectedQueue, hne]
      · simp only [routerStep, hg]
        by_cases hf : q.has f
        · have hgf : g ≠ f := by rintro rfl; exact hg hf
          simp [hf, tagsFor, hgf]
        · simp [hf, expectedQueue, hne]

/-! ### router read loop -/

/-- the packets among the read results, as router operations -/
def okOps : List (Except Err Packet) → List ROp
  | [] => []
  | .ok p :: rest => .pkt p.fn (pktTag p) :: okOps rest
  | .error _ :: rest => okOps rest

theorem routerReads_all_caught (handlers : List String) (hall : handlers.contains "Exception" = true) :
    ∀ (reads : List (Except Err Packet)) (q : Queues),
      routerReads handlers reads q = ((okOps reads).foldl routerStep q, true)
  | [], q => rfl
  | .ok p :: rest, q => by
    simp only [routerReads, okOps, List.foldl_cons]
    exact routerReads_all_caught handlers hall rest _
  | .error e :: rest, q => by
    simp only [routerReads, okOps, handlerCatches, hall, Bool.true_or, if_true]
    exact routerReads_all_caught handlers hall rest q

/-! ### CRTP header fields (finite: all 256 header bytes) -/

theorem crtp_fields : ∀ h : Fin 256, Gen.C18.crtpHeaderExpr h.val = (h.val ||| 0x0C) ∧
    Gen.C18.crtpPortExpr h.val = h.val / 16 ∧ Gen.C18.crtpChanExpr h.val = h.val % 4 := by decide +kernel

/-! ### several links in one process -/

theorem worldFold_link (ops : List (Nat × ROp)) (i : Nat) : ∀ w : World,
    (ops.foldl worldStep w) i = (opsOf i ops).foldl routerStep (w i) := by
  induction ops with
  | nil => intro w; rfl
  | cons op ops ih =>
    intro w
    rw [List.foldl_cons, ih]
    by_cases h : op.1 = i
    · simp [opsOf, worldStep, h]
    · have hb : (op.1 == i) = false := by simpa using h
      have h' : ¬ i = op.1 := fun e => h e.symm
      simp [opsOf, hb, worldStep, h']

end CfVerif.C18

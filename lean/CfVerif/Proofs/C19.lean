/-
Proofs/C19: helper lemmas for the C19 theorems (Props/C19).  Core Lean only.

`MainStep` / `ThrStep` characterise the enabled steps of the model; every invariant is proved by cases on
them and lifted to ALL schedules with `Sched.run_invariant` (induction on the schedule).
-/
import CfVerif.Model.C19
namespace CfVerif.C19
open CfVerif CfVerif.Sched

/-! ## What the proofs assume about the regenerated constants -/
theorem gen_errIndex : Gen.C19.errIndex = 0 := by decide
theorem gen_reporterInitFlag : Gen.C19.reporterInitFlag = false := by decide
theorem gen_reportFlagValue : Gen.C19.reportFlagValue = true := by decide
theorem gen_openSetsFlag : Gen.C19.openSetsFlag = true := by decide
theorem gen_closeSetsFlag : Gen.C19.closeSetsFlag = false := by decide
theorem gen_scfConnectedSets : Gen.C19.scfConnectedSets = true := by decide
theorem gen_scfFailedSets : Gen.C19.scfFailedSets = false := by decide
theorem gen_scfDisconnectedSets : Gen.C19.scfDisconnectedSets = false := by decide
theorem gen_openGuardInTry : Gen.C19.openGuardInTry = false := by decide
theorem gen_initIsOpen : Gen.C19.initIsOpen = false := by decide
theorem gen_scfInitIsOpen : Gen.C19.scfInitIsOpen = false := by decide

@[simp] theorem upd_same {α} (f : Nat → α) (i : Nat) (x : α) : upd f i x i = x := by simp [upd]
theorem upd_other {α} (f : Nat → α) (i j : Nat) (x : α) (h : j ≠ i) : upd f i x j = f j := by simp [upd, h]

/-! ## The enabled steps, as relations -/

inductive MainStep (p : Params) (c : Cfg) : Cfg → Prop
  | spawn (k u m a) : c.main = .starting k → p.cfs[k]? = some (u, m) → processArgs p.args u = .ok a →
      MainStep p c { c with thr := upd c.thr k (.ready a), main := .starting (k + 1) }
  | keyErr (k u m x) : c.main = .starting k → p.cfs[k]? = some (u, m) → processArgs p.args u = .error x →
      MainStep p c { c with main := .psDone (some x) }
  | startEnd (k) : c.main = .starting k → p.cfs[k]? = none → MainStep p c { c with main := .joining 0 }
  | joinOne (k kv r) : c.main = .joining k → p.cfs[k]? = some kv → c.thr k = .done r →
      MainStep p c { c with main := .joining (k + 1) }
  | joinEnd (k) : c.main = .joining k → p.cfs[k]? = none → MainStep p c { c with main := .checking }
  | checkNone : c.main = .checking → c.flag = false → MainStep p c { c with main := .psDone none }
  | checkErr (e) : c.main = .checking → c.flag = true → c.errors[Gen.C19.errIndex]? = some e →
      MainStep p c { c with main := .psDone (some (.chained e)) }
  | checkIdx : c.main = .checking → c.flag = true → c.errors[Gen.C19.errIndex]? = none →
      MainStep p c { c with main := .psDone (some .indexError) }
  | donePS (r) : c.main = .psDone r → p.kind = .parallelSafe → MainStep p c { c with main := .finished r }
  | donePar (r) : c.main = .psDone r → p.kind = .parallel → MainStep p c { c with main := .finished none }
  | doneOpenOk : c.main = .psDone none → p.kind = .openLinks →
      MainStep p c { c with swarmOpen := Gen.C19.openSetsFlag, main := .finished none }
  | doneOpenErr (x) : c.main = .psDone (some x) → p.kind = .openLinks → MainStep p c { c with main := .closing 0 x }
  | closeOne (k x u m) : c.main = .closing k x → p.cfs[k]? = some (u, m) →
      MainStep p c { c with mem := upd c.mem k (if c.mem k then Gen.C19.scfDisconnectedSets else c.mem k),
                            trace := c.trace ++ [.closeCall u (c.mem k)], main := .closing (k + 1) x }
  | closeEnd (k x) : c.main = .closing k x → p.cfs[k]? = none →
      MainStep p c { c with swarmOpen := Gen.C19.closeSetsFlag, main := .finished (some x) }

theorem stepMain_sound {p : Params} {c c' : Cfg} (h : stepMain p c = some c') : MainStep p c c' := by
  unfold stepMain at h
  split at h
  next k hm =>
    split at h
    next hk => cases h; exact .startEnd k hm hk
    next u m hk =>
      split at h
      next x hx => cases h; exact .keyErr k u m x hm hk hx
      next a ha => cases h; exact .spawn k u m a hm hk ha
  next k hm =>
    split at h
    next hk => cases h; exact .joinEnd k hm hk
    next kv hk =>
      split at h
      next r hr => cases h; exact .joinOne k kv r hm hk hr
      next => cases h
  next hm =>
    split at h
    next hf =>
      split at h
      next e he => cases h; exact .checkErr e hm hf he
      next he => cases h; exact .checkIdx hm hf he
    next hf => cases h; exact .checkNone hm (by simpa using hf)
  next r hm =>
    split at h
    next hk => cases h; exact .donePS r hm hk
    next hk => cases h; exact .donePar r hm hk
    next hk =>
      split at h
      next => cases h; exact .doneOpenOk hm hk
      next x => cases h; exact .doneOpenErr x hm hk
  next k x hm =>
    split at h
    next hk => cases h; exact .closeEnd k x hm hk
    next u m hk => cases h; exact .closeOne k x u m hm hk
  next => cases h

inductive ThrStep (p : Params) (c : Cfg) (i : Nat) : Cfg → Prop
  | call (u m a) : p.cfs[i]? = some (u, m) → c.thr i = .ready a →
      ThrStep p c i { c with thr := upd c.thr i (.running a), trace := c.trace ++ [.call u m a] }
  | ret (u m a o) : p.cfs[i]? = some (u, m) → c.thr i = .running a → p.act.finish u a (c.mem i) = (none, o) →
      ThrStep p c i { c with thr := upd c.thr i (.done none), mem := upd c.mem i o, trace := c.trace ++ [.ret u] }
  | raise (u m a e o) : p.cfs[i]? = some (u, m) → c.thr i = .running a → p.act.finish u a (c.mem i) = (some e, o) →
      ThrStep p c i { c with thr := upd c.thr i (.failed e), mem := upd c.mem i o, trace := c.trace ++ [.raised u e] }
  | flag (u m e) : p.cfs[i]? = some (u, m) → c.thr i = .failed e →
      ThrStep p c i { c with thr := upd c.thr i (.flagged e), flag := Gen.C19.reportFlagValue }
  | append (u m e) : p.cfs[i]? = some (u, m) → c.thr i = .flagged e →
      ThrStep p c i { c with thr := upd c.thr i (.done (some e)), errors := c.errors ++ [e] }

theorem stepThr_sound {p : Params} {c c' : Cfg} {i : Nat} (h : stepThr p c i = some c') : ThrStep p c i c' := by
  unfold stepThr at h
  split at h
  next => cases h
  next u m hk =>
    split at h
    next a ha => cases h; exact .call u m a hk ha
    next a ha =>
      split at h
      next o ho => cases h; exact .ret u m a o hk ha ho
      next e o ho => cases h; exact .raise u m a e o hk ha ho
    next e he => cases h; exact .flag u m e hk he
    next e he => cases h; exact .append u m e hk he
    next => cases h

/-- a step of the machine is a main step (thread id 0) or a member-thread step -/
theorem step_cases {p : Params} {c c' : Cfg} {t : Nat} (h : (machine p).step c t = some c') :
    (t = 0 ∧ MainStep p c c') ∨ (∃ i, t = i + 1 ∧ ThrStep p c i c') := by
  cases t with
  | zero => exact .inl ⟨rfl, stepMain_sound h⟩
  | succ i => exact .inr ⟨i, rfl, stepThr_sound h⟩

theorem lt_of_getElem?_eq_some {α} {l : List α} {i : Nat} {x : α} (h : l[i]? = some x) : i < l.length := by
  rcases Nat.lt_or_ge i l.length with hlt | hge
  · exact hlt
  · rw [List.getElem?_eq_none hge] at h; cases h

theorem mem_of_getElem?_eq_some {α} {l : List α} {i : Nat} {x : α} (h : l[i]? = some x) : x ∈ l :=
  List.mem_of_getElem? h

/-! ## Shape invariant: which threads exist / have finished at each point of main's program -/

/-- every member has an entry in the argument dictionary (or the dictionary is None / empty) -/
def ArgsOk (p : Params) : Prop := ∀ u m, (u, m) ∈ p.cfs → ∃ a, processArgs p.args u = .ok a

/-- every member thread has finished -/
def AllDone (p : Params) (c : Cfg) : Prop := ∀ i, i < p.cfs.length → ∃ r, c.thr i = .done r

/-- main is past the join loop (or took the KeyError exit) -/
def PastJoin : MainPc → Prop
  | .starting _ => False
  | .joining _ => False
  | _ => True

structure Shape (p : Params) (c : Cfg) : Prop where
  beyond : ∀ i, p.cfs.length ≤ i → c.thr i = .idle
  start : ∀ k, c.main = .starting k → k ≤ p.cfs.length ∧ (∀ i, k ≤ i → c.thr i = .idle) ∧ (∀ i, i < k → c.thr i ≠ .idle)
  join : ∀ k, c.main = .joining k → (∀ i, i < p.cfs.length → c.thr i ≠ .idle) ∧ (∀ i, i < k → ∃ r, c.thr i = .done r)
  after : PastJoin c.main → AllDone p c ∨ ¬ ArgsOk p

theorem shape_init (p : Params) (st : SwarmState) : Shape p (init st) where
  beyond := fun _ _ => rfl
  start := fun k hk => by
    simp only [init, MainPc.starting.injEq] at hk
    subst hk
    exact ⟨Nat.zero_le _, fun _ _ => rfl, fun i hi => absurd hi (Nat.not_lt_zero i)⟩
  join := fun k hk => by simp [init] at hk
  after := fun h => by simp [init, PastJoin] at h

theorem shape_step (p : Params) (c : Cfg) (t : Nat) (c' : Cfg) (I : Shape p c) (h : (machine p).step c t = some c') :
    Shape p c' := by
  rcases step_cases h with ⟨_, hm⟩ | ⟨i, _, ht⟩
  · cases hm with
    | spawn k u m a hm hk ha =>
      obtain ⟨hle, hidle, hnon⟩ := I.start k hm
      have hlt := lt_of_getElem?_eq_some hk
      refine ⟨?_, ?_, ?_, ?_⟩
      · intro i hi; simp only [upd]; split
        · omega
        · exact I.beyond i hi
      · intro k' hk'
        simp only [MainPc.starting.injEq] at hk'
        subst hk'
        refine ⟨hlt, ?_, ?_⟩
        · intro i hi; simp only [upd]; split
          · omega
          · exact hidle i (by omega)
        · intro i hi; simp only [upd]; split
          · simp
          · exact hnon i (by omega)
      · intro k' hk'; simp at hk'
      · intro hp; simp [PastJoin] at hp
    | keyErr k u m x hm hk hx =>
      refine ⟨I.beyond, ?_, ?_, ?_⟩
      · intro k' hk'; simp at hk'
      · intro k' hk'; simp at hk'
      · intro _
        right
        intro hok
        obtain ⟨a, ha⟩ := hok u m (mem_of_getElem?_eq_some hk)
        rw [ha] at hx; cases hx
    | startEnd k hm hk =>
      obtain ⟨hle, hidle, hnon⟩ := I.start k hm
      have hge : p.cfs.length ≤ k := by
        rcases Nat.lt_or_ge k p.cfs.length with hlt | hge
        · rw [List.getElem?_eq_getElem hlt] at hk; cases hk
        · exact hge
      refine ⟨I.beyond, ?_, ?_, ?_⟩
      · intro k' hk'; simp at hk'
      · intro k' hk'
        simp only [MainPc.joining.injEq] at hk'
        subst hk'
        exact ⟨fun i hi => hnon i (by omega), fun i hi => absurd hi (Nat.not_lt_zero i)⟩
      · intro hp; simp [PastJoin] at hp
    | joinOne k kv r hm hk hr =>
      obtain ⟨hnon, hdone⟩ := I.join k hm
      refine ⟨I.beyond, ?_, ?_, ?_⟩
      · intro k' hk'; simp at hk'
      · intro k' hk'
        simp only [MainPc.joining.injEq] at hk'
        subst hk'
        refine ⟨hnon, fun i hi => ?_⟩
        rcases Nat.lt_or_ge i k with hlt | hge
        · exact hdone i hlt
        · have : i = k := by omega
          subst this; exact ⟨r, hr⟩
      · intro hp; simp [PastJoin] at hp
    | joinEnd k hm hk =>
      obtain ⟨hnon, hdone⟩ := I.join k hm
      have hge : p.cfs.length ≤ k := by
        rcases Nat.lt_or_ge k p.cfs.length with hlt | hge
        · rw [List.getElem?_eq_getElem hlt] at hk; cases hk
        · exact hge
      refine ⟨I.beyond, ?_, ?_, ?_⟩
      · intro k' hk'; simp at hk'
      · intro k' hk'; simp at hk'
      · intro _; left; intro i hi; exact hdone i (by omega)
    | checkNone hm _ | checkErr _ hm _ _ | checkIdx hm _ _ | donePS _ hm _ | donePar _ hm _ | doneOpenOk hm _
    | doneOpenErr _ hm _ | closeOne _ _ _ _ hm _ | closeEnd _ _ hm _ =>
      have hp : PastJoin c.main := by rw [hm]; trivial
      refine ⟨I.beyond, ?_, ?_, ?_⟩
      · intro k' hk'; simp at hk'
      · intro k' hk'; simp at hk'
      · intro _; exact I.after hp
  · -- a member-thread step: main is unchanged, thread i moves between non-idle states and is not done before
    have key : c'.main = c.main ∧ (∀ j, j ≠ i → c'.thr j = c.thr j) ∧ c.thr i ≠ .idle ∧ c'.thr i ≠ .idle ∧
        (∀ r, c.thr i ≠ .done r) ∧ i < p.cfs.length := by
      cases ht with
      | call u m a hk ha => exact ⟨rfl, fun j hj => upd_other _ _ _ _ hj, by simp [ha], by simp, by simp [ha], lt_of_getElem?_eq_some hk⟩
      | ret u m a o hk ha _ => exact ⟨rfl, fun j hj => upd_other _ _ _ _ hj, by simp [ha], by simp, by simp [ha], lt_of_getElem?_eq_some hk⟩
      | raise u m a e o hk ha _ => exact ⟨rfl, fun j hj => upd_other _ _ _ _ hj, by simp [ha], by simp, by simp [ha], lt_of_getElem?_eq_some hk⟩
      | flag u m e hk ha => exact ⟨rfl, fun j hj => upd_other _ _ _ _ hj, by simp [ha], by simp, by simp [ha], lt_of_getElem?_eq_some hk⟩
      | append u m e hk ha => exact ⟨rfl, fun j hj => upd_other _ _ _ _ hj, by simp [ha], by simp, by simp [ha], lt_of_getElem?_eq_some hk⟩
    obtain ⟨hmain, hother, hci, hci', hnd, hlt⟩ := key
    refine ⟨?_, ?_, ?_, ?_⟩
    · intro j hj
      have : j ≠ i := by omega
      rw [hother j this]; exact I.beyond j hj
    · intro k hk
      rw [hmain] at hk
      obtain ⟨hle, hidle, hnon⟩ := I.start k hk
      refine ⟨hle, ?_, ?_⟩
      · intro j hj
        by_cases hji : j = i
        · subst hji; exact absurd (hidle j hj) hci
        · rw [hother j hji]; exact hidle j hj
      · intro j hj
        by_cases hji : j = i
        · subst hji; exact hci'
        · rw [hother j hji]; exact hnon j hj
    · intro k hk
      rw [hmain] at hk
      obtain ⟨hnon, hdone⟩ := I.join k hk
      refine ⟨?_, ?_⟩
      · intro j hj
        by_cases hji : j = i
        · subst hji; exact hci'
        · rw [hother j hji]; exact hnon j hj
      · intro j hj
        by_cases hji : j = i
        · subst hji; obtain ⟨r, hr⟩ := hdone j hj; exact absurd hr (hnd r)
        · rw [hother j hji]; exact hdone j hj
    · intro hp
      rw [hmain] at hp
      rcases I.after hp with hall | hno
      · obtain ⟨r, hr⟩ := hall i hlt
        exact absurd hr (hnd r)
      · exact .inr hno

theorem shape_exec {p : Params} {st : SwarmState} {sch : List Nat} {c : Cfg} (h : exec p st sch = some c) : Shape p c :=
  run_invariant (machine p) (Shape p) (shape_step p) sch (init st) c (shape_init p st) h

end CfVerif.C19

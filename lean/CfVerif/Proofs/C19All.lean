/-
Proofs/C19All: the invariants of Proofs/C19Inv lifted to ALL schedules (induction on the schedule via
`Sched.run_invariant`), deadlock freedom, the termination measure, and the thread-free operations
(sequential, Swarm.__init__).  Core Lean only.
-/
import CfVerif.Proofs.C19Inv
namespace CfVerif.C19
open CfVerif CfVerif.Sched

structure AllInv (p : Params) (m0 : Nat → Bool) (c : Cfg) : Prop where
  shape : Shape p c
  args : ArgsInv p c
  rep : Rep c
  kind : ClKind p c
  res : Res p c
  out : Out p m0 c
  cl : Cl p c

/-- every configuration reachable under ANY interleaving satisfies all invariants -/
theorem allInv_exec {p : Params} (hargs : ArgsOk p) {st : SwarmState} {sch : List Nat} {c : Cfg}
    (h : exec p st sch = some c) : AllInv p st.mem c := by
  refine run_invariant (machine p) (AllInv p st.mem) ?_ sch (init st) c ?_ h
  · intro c t c' I hs
    exact ⟨shape_step p c t c' I.shape hs, argsInv_step p c t c' I.args hs, rep_step p c t c' I.shape I.rep hs,
      clKind_step p c t c' I.kind hs, res_step p hargs c t c' I.shape I.rep I.kind I.res hs,
      out_step p hargs st.mem c t c' I.shape I.args I.out hs, cl_step p hargs c t c' I.shape I.cl hs⟩
  · exact ⟨shape_init p st, argsInv_init p st, rep_init st, clKind_init p st, res_init p st, out_init p st, cl_init p st⟩

theorem loc_exec {p : Params} (hnd : (p.cfs.map Prod.fst).Nodup) {st : SwarmState} {sch : List Nat} {c : Cfg}
    (h : exec p st sch = some c) : Loc p c := by
  have := run_invariant (machine p) (fun c => Shape p c ∧ ArgsInv p c ∧ Loc p c) (by
    intro c t c' I hs
    exact ⟨shape_step p c t c' I.1 hs, argsInv_step p c t c' I.2.1 hs, loc_step p hnd c t c' I.1 I.2.1 I.2.2 hs⟩)
    sch (init st) c ⟨shape_init p st, argsInv_init p st, loc_init p st⟩ h
  exact this.2.2

/-- `parallel` never lets an exception out - for every argument dictionary, including malformed ones -/
theorem par_exec {p : Params} (hk : p.kind = .parallel) {st : SwarmState} {sch : List Nat} {c : Cfg}
    (h : exec p st sch = some c) : ∀ r, c.main = .finished r → r = none := by
  have := run_invariant (machine p) (fun c => ClKind p c ∧ ∀ r, c.main = .finished r → r = none) (by
    intro c t c' I hs
    refine ⟨clKind_step p c t c' I.1 hs, ?_⟩
    rcases step_cases hs with ⟨_, hm⟩ | ⟨i, _, ht⟩
    · cases hm with
      | donePS r hm hk' => rw [hk] at hk'; cases hk'
      | donePar r hm hk' => intro r' hr; simp only [MainPc.finished.injEq] at hr; exact hr.symm
      | doneOpenOk hm hk' => rw [hk] at hk'; cases hk'
      | closeEnd k x hm hk' => have := I.1 k x hm; rw [hk] at this; cases this
      | _ => intro r' hr; simp_all
    · intro r hr; rw [thrStep_main ht] at hr; exact I.2 r hr)
    sch (init st) c ⟨clKind_init p st, by intro r hr; simp [init] at hr⟩ h
  exact this.2

/-- every event in the trace belongs to a member of the swarm -/
theorem trace_uris_exec {p : Params} {st : SwarmState} {sch : List Nat} {c : Cfg} (h : exec p st sch = some c) :
    ∀ ev, ev ∈ c.trace → ∃ (i : Nat) (m : Member), p.cfs[i]? = some (ev.uri, m) := by
  refine run_invariant (machine p) (fun c => ∀ ev, ev ∈ c.trace → ∃ (i : Nat) (m : Member), p.cfs[i]? = some (ev.uri, m)) ?_ sch (init st) c ?_ h
  · intro c t c' I hs
    rcases step_cases hs with ⟨_, hm⟩ | ⟨i, _, ht⟩
    · cases hm with
      | closeOne k x u m hm hk =>
        intro ev hev
        simp only [List.mem_append, List.mem_singleton] at hev
        rcases hev with hev | hev
        · exact I ev hev
        · subst hev; exact ⟨k, m, hk⟩
      | _ => exact I
    · cases ht with
      | call u m a hk ha =>
        intro ev hev
        simp only [List.mem_append, List.mem_singleton] at hev
        rcases hev with hev | hev
        · exact I ev hev
        · subst hev; exact ⟨i, m, hk⟩
      | ret u m a o hk ha _ =>
        intro ev hev
        simp only [List.mem_append, List.mem_singleton] at hev
        rcases hev with hev | hev
        · exact I ev hev
        · subst hev; exact ⟨i, m, hk⟩
      | raise u m a e o hk ha _ =>
        intro ev hev
        simp only [List.mem_append, List.mem_singleton] at hev
        rcases hev with hev | hev
        · exact I ev hev
        · subst hev; exact ⟨i, m, hk⟩
      | flag u m e hk ha => exact I
      | append u m e hk ha => exact I
  · intro ev hev; simp [init] at hev

/-! ## Deadlock freedom -/

theorem stepMain_enabled {p : Params} {c : Cfg} (hj : ∀ k, c.main ≠ .joining k) (hf : ∀ r, c.main ≠ .finished r) :
    ∃ c', stepMain p c = some c' := by
  unfold stepMain
  split
  · split
    · exact ⟨_, rfl⟩
    · split <;> exact ⟨_, rfl⟩
  · next k hm => exact absurd hm (hj k)
  · split
    · split <;> exact ⟨_, rfl⟩
    · exact ⟨_, rfl⟩
  · split
    · exact ⟨_, rfl⟩
    · exact ⟨_, rfl⟩
    · split <;> exact ⟨_, rfl⟩
  · split <;> exact ⟨_, rfl⟩
  · next r hm => exact absurd hm (hf r)

theorem stepThr_enabled {p : Params} {c : Cfg} {i : Nat} {kv : Uri × Member} (hk : p.cfs[i]? = some kv)
    (hidle : c.thr i ≠ .idle) (hdone : ∀ r, c.thr i ≠ .done r) : ∃ c', stepThr p c i = some c' := by
  unfold stepThr
  obtain ⟨u, m⟩ := kv
  rw [hk]
  simp only
  cases ht : c.thr i with
  | idle => exact absurd ht hidle
  | ready a => exact ⟨_, rfl⟩
  | running a =>
    simp only
    split <;> exact ⟨_, rfl⟩
  | failed e => exact ⟨_, rfl⟩
  | flagged e => exact ⟨_, rfl⟩
  | done r => exact absurd ht (hdone r)

/-- In every configuration reachable under any interleaving in which the swarm-wide call has not finished, some
thread can take a step: the join and the error collection cannot deadlock. -/
theorem no_deadlock_aux {p : Params} {st : SwarmState} {sch : List Nat} {c : Cfg} (h : exec p st sch = some c)
    (hf : ∀ r, c.main ≠ .finished r) : ∃ t c', (machine p).step c t = some c' := by
  have S := shape_exec h
  by_cases hj : ∃ k, c.main = .joining k
  · obtain ⟨k, hm⟩ := hj
    cases hk : p.cfs[k]? with
    | none =>
      refine ⟨0, { c with main := .checking }, ?_⟩
      simp [machine, step, stepMain, hm, hk]
    | some kv =>
      by_cases hd : ∃ r, c.thr k = .done r
      · obtain ⟨r, hr⟩ := hd
        refine ⟨0, { c with main := .joining (k + 1) }, ?_⟩
        simp [machine, step, stepMain, hm, hk, hr]
      · have hidle := (S.join k hm).1 k (lt_of_getElem?_eq_some hk)
        obtain ⟨c', hc'⟩ := stepThr_enabled (c := c) hk hidle (fun r hr => hd ⟨r, hr⟩)
        exact ⟨k + 1, c', hc'⟩
  · obtain ⟨c', hc'⟩ := stepMain_enabled (p := p) (c := c) (fun k hm => hj ⟨k, hm⟩) hf
    exact ⟨0, c', hc'⟩

/-! ## Termination: a measure that every step decreases -/

def thrMeasure : ThrPc → Nat
  | .idle => 0 | .ready _ => 4 | .running _ => 3 | .failed _ => 2 | .flagged _ => 1 | .done _ => 0

def mainMeasure (n : Nat) : MainPc → Nat
  | .starting k => 6 * (n - k) + 2 * n + 7
  | .joining k => (n - k) + n + 6
  | .checking => n + 5
  | .psDone _ => n + 4
  | .closing k _ => (n - k) + 2
  | .finished _ => 0

def sumTo (f : Nat → Nat) : Nat → Nat
  | 0 => 0
  | n + 1 => sumTo f n + f n

def measure (p : Params) (c : Cfg) : Nat :=
  mainMeasure p.cfs.length c.main + sumTo (fun i => thrMeasure (c.thr i)) p.cfs.length

theorem sumTo_congr {f g : Nat → Nat} {n : Nat} (h : ∀ j, j < n → g j = f j) : sumTo g n = sumTo f n := by
  induction n with
  | zero => rfl
  | succ n ih => simp only [sumTo]; rw [ih (fun j hj => h j (by omega)), h n (by omega)]

theorem sumTo_upd {f g : Nat → Nat} {n i : Nat} (hi : i < n) (h : ∀ j, j ≠ i → g j = f j) :
    sumTo g n + f i = sumTo f n + g i := by
  induction n with
  | zero => omega
  | succ n ih =>
    simp only [sumTo]
    by_cases hin : i = n
    · subst hin
      rw [sumTo_congr (f := f) (g := g) (fun j hj => h j (by omega))]; omega
    · have := ih (by omega); rw [h n (fun hh => hin hh.symm)]; omega

theorem none_ge {α} {l : List α} {k : Nat} (h : l[k]? = none) : l.length ≤ k := by
  rcases Nat.lt_or_ge k l.length with hlt | hge
  · rw [List.getElem?_eq_getElem hlt] at h; cases h
  · exact hge

theorem measure_decreases (p : Params) (c : Cfg) (t : Nat) (c' : Cfg) (h : (machine p).step c t = some c') :
    measure p c' < measure p c := by
  rcases step_cases h with ⟨_, hm⟩ | ⟨i, _, ht⟩
  · cases hm with
    | spawn k u m a hm hk ha =>
      have hlt := lt_of_getElem?_eq_some hk
      have hs := sumTo_upd (f := fun i => thrMeasure (c.thr i)) (g := fun i => thrMeasure (upd c.thr k (.ready a) i))
        (n := p.cfs.length) (i := k) hlt (fun j hj => by simp [upd, hj])
      have h4 : thrMeasure (ThrPc.ready a) = 4 := rfl
      simp only [upd_same, h4] at hs
      simp only [measure, hm, mainMeasure]
      omega
    | keyErr k u m x hm hk hx => simp only [measure, hm, mainMeasure]; omega
    | startEnd k hm hk => have := none_ge hk; simp only [measure, hm, mainMeasure]; omega
    | joinOne k kv r hm hk hr => have := lt_of_getElem?_eq_some hk; simp only [measure, hm, mainMeasure]; omega
    | joinEnd k hm hk => have := none_ge hk; simp only [measure, hm, mainMeasure]; omega
    | checkNone hm _ => simp only [measure, hm, mainMeasure]; omega
    | checkErr e hm _ _ => simp only [measure, hm, mainMeasure]; omega
    | checkIdx hm _ _ => simp only [measure, hm, mainMeasure]; omega
    | donePS r hm hk => simp only [measure, hm, mainMeasure]; omega
    | donePar r hm hk => simp only [measure, hm, mainMeasure]; omega
    | doneOpenOk hm hk => simp only [measure, hm, mainMeasure]; omega
    | doneOpenErr x hm hk => simp only [measure, hm, mainMeasure]; omega
    | closeOne k x u m hm hk => have := lt_of_getElem?_eq_some hk; simp only [measure, hm, mainMeasure]; omega
    | closeEnd k x hm hk => simp only [measure, hm, mainMeasure]; omega
  · have key : ∀ (x : ThrPc), thrMeasure x < thrMeasure (c.thr i) → i < p.cfs.length →
        measure p { c with thr := upd c.thr i x } < measure p c := by
      intro x hx hlt
      have hs := sumTo_upd (f := fun j => thrMeasure (c.thr j)) (g := fun j => thrMeasure (upd c.thr i x j))
        (n := p.cfs.length) (i := i) hlt (fun j hj => by simp [upd, hj])
      simp only [upd_same] at hs
      simp only [measure]
      omega
    cases ht with
    | call u m a hk ha => exact key _ (by rw [ha]; simp [thrMeasure]) (lt_of_getElem?_eq_some hk)
    | ret u m a o hk ha _ => exact key _ (by rw [ha]; simp [thrMeasure]) (lt_of_getElem?_eq_some hk)
    | raise u m a e o hk ha _ => exact key _ (by rw [ha]; simp [thrMeasure]) (lt_of_getElem?_eq_some hk)
    | flag u m e hk ha => exact key _ (by rw [ha]; simp [thrMeasure]) (lt_of_getElem?_eq_some hk)
    | append u m e hk ha => exact key _ (by rw [ha]; simp [thrMeasure]) (lt_of_getElem?_eq_some hk)

theorem measure_init (p : Params) (st : SwarmState) : measure p (init st) = 8 * p.cfs.length + 7 := by
  have : ∀ n, sumTo (fun _ => thrMeasure ThrPc.idle) n = 0 := by
    intro n; induction n with
    | zero => rfl
    | succ n ih => simp only [sumTo, ih]; rfl
  simp only [measure, init, mainMeasure, this]; omega

/-! ## sequential -/

/-- the member's own dictionary entry (as `argsOf`, for a bare dictionary) -/
def argsOfD (d : ArgsDict) (u : Uri) : List Arg :=
  match processArgs d u with
  | .ok a => a
  | .error _ => []

theorem argsOf_eq_argsOfD (p : Params) (u : Uri) : argsOf p u = argsOfD p.args u := rfl

/-- the two events of an action that runs to completion -/
def okBlock (d : ArgsDict) (kv : Uri × Member) : List Ev := [.call kv.1 kv.2 (argsOfD d kv.1), .ret kv.1]

theorem sequentialGo_spec (d : ArgsDict) (f : Uri → List Arg → Option Err) :
    ∀ (cfs : List (Uri × Member)) (tr : List Ev), (∀ kv, kv ∈ cfs → ∃ a, processArgs d kv.1 = .ok a) →
    ∃ j, j ≤ cfs.length ∧ (∀ i kv, i < j → cfs[i]? = some kv → f kv.1 (argsOfD d kv.1) = none) ∧
      ((j = cfs.length ∧ sequentialGo d f cfs tr = (tr ++ ((cfs.take j).map (okBlock d)).flatten, none)) ∨
       (∃ u m e, cfs[j]? = some (u, m) ∧ f u (argsOfD d u) = some e ∧
          sequentialGo d f cfs tr =
            (tr ++ ((cfs.take j).map (okBlock d)).flatten ++ [.call u m (argsOfD d u), .raised u e], some (.user e)))) := by
  intro cfs
  induction cfs with
  | nil => intro tr _; exact ⟨0, Nat.le_refl _, fun i kv hi => absurd hi (Nat.not_lt_zero i), .inl ⟨rfl, by simp [sequentialGo]⟩⟩
  | cons kv rest ih =>
    intro tr hok
    obtain ⟨u, m⟩ := kv
    obtain ⟨a, ha⟩ := hok (u, m) (List.mem_cons_self)
    have hao : argsOfD d u = a := by simp [argsOfD, ha]
    cases hf : f u a with
    | some e =>
      refine ⟨0, Nat.zero_le _, fun i kv hi => absurd hi (Nat.not_lt_zero i), .inr ⟨u, m, e, rfl, by rw [hao]; exact hf, ?_⟩⟩
      simp [sequentialGo, ha, hf, hao]
    | none =>
      obtain ⟨j, hj, hnone, hcase⟩ := ih (tr ++ [.call u m a, .ret u]) (fun kv hkv => hok kv (List.mem_cons_of_mem _ hkv))
      refine ⟨j + 1, by simp only [List.length_cons]; omega, ?_, ?_⟩
      · intro i kv hi hkv
        cases i with
        | zero => simp only [List.getElem?_cons_zero, Option.some.injEq] at hkv; subst hkv; rw [hao]; exact hf
        | succ i => simp only [List.getElem?_cons_succ] at hkv; exact hnone i kv (by omega) hkv
      · rcases hcase with ⟨hjl, hseq⟩ | ⟨u', m', e, hj', hfe, hseq⟩
        · left
          refine ⟨by simp only [List.length_cons]; omega, ?_⟩
          simp only [sequentialGo, ha, hf, hseq, List.take_succ_cons, List.map_cons, List.flatten_cons, okBlock, hao]
          simp
        · right
          refine ⟨u', m', e, by simpa using hj', hfe, ?_⟩
          simp only [sequentialGo, ha, hf, hseq, List.take_succ_cons, List.map_cons, List.flatten_cons, okBlock, hao]
          simp

/-! ## Swarm.__init__: the `_cfs` dictionary -/

theorem dictSet_keys (d : List (Uri × Member)) (u : Uri) (m : Member) :
    (dictSet d u m).map Prod.fst = if d.any (fun kv => kv.1 == u) then d.map Prod.fst else d.map Prod.fst ++ [u] := by
  unfold dictSet
  split
  · rw [List.map_map]
    apply List.map_congr_left
    intro kv _
    simp only [Function.comp]
    split
    · next h => simpa using (beq_iff_eq.mp h).symm
    · rfl
  · simp

theorem dictSet_nodup (d : List (Uri × Member)) (u : Uri) (m : Member) (h : (d.map Prod.fst).Nodup) :
    ((dictSet d u m).map Prod.fst).Nodup := by
  rw [dictSet_keys]
  split
  · exact h
  · next hany =>
    rw [List.nodup_append]
    refine ⟨h, by simp, ?_⟩
    intro a ha b hb
    simp only [List.mem_singleton] at hb
    subst hb
    intro hab
    subst hab
    apply hany
    simp only [List.mem_map] at ha
    obtain ⟨kv, hkv, hfst⟩ := ha
    exact List.any_eq_true.mpr ⟨kv, hkv, by simpa using hfst⟩

theorem mkSwarmGo_nodup : ∀ (us : List Uri) (k : Nat) (d : List (Uri × Member)), (d.map Prod.fst).Nodup →
    ((mkSwarmGo us k d).map Prod.fst).Nodup := by
  intro us
  induction us with
  | nil => intro k d h; exact h
  | cons u us ih => intro k d h; exact ih (k + 1) (dictSet d u k) (dictSet_nodup d u k h)

/-- the `_cfs` dictionary has one entry per distinct URI -/
theorem mkSwarm_nodup_aux (uris : List Uri) : ((mkSwarm uris).map Prod.fst).Nodup :=
  mkSwarmGo_nodup uris 0 [] List.nodup_nil

theorem mkSwarmGo_of_nodup : ∀ (us : List Uri) (k : Nat) (d : List (Uri × Member)), us.Nodup →
    (∀ u, u ∈ us → u ∉ d.map Prod.fst) → mkSwarmGo us k d = d ++ us.zipIdx k := by
  intro us
  induction us with
  | nil => intro k d _ _; simp [mkSwarmGo]
  | cons u us ih =>
    intro k d hnd hdis
    have hnotin : u ∉ d.map Prod.fst := hdis u List.mem_cons_self
    have hany : d.any (fun kv => kv.1 == u) = false := by
      rw [Bool.eq_false_iff]
      intro h
      obtain ⟨kv, hkv, hfst⟩ := List.any_eq_true.mp h
      exact hnotin (List.mem_map.mpr ⟨kv, hkv, by simpa using hfst⟩)
    have hds : dictSet d u k = d ++ [(u, k)] := by simp [dictSet, hany]
    rw [List.nodup_cons] at hnd
    simp only [mkSwarmGo, hds]
    rw [ih (k + 1) (d ++ [(u, k)]) hnd.2 ?_]
    · simp [List.zipIdx_cons]
    · intro v hv hmem
      simp only [List.map_append, List.map_cons, List.map_nil, List.mem_append, List.mem_singleton] at hmem
      rcases hmem with hmem | hmem
      · exact hdis v (List.mem_cons_of_mem _ hv) hmem
      · subst hmem; exact hnd.1 hv

/-- for distinct URIs the dictionary lists them in the given order, member k being the k-th constructed object -/
theorem mkSwarm_of_nodup_aux (uris : List Uri) (h : uris.Nodup) : mkSwarm uris = uris.zipIdx := by
  have := mkSwarmGo_of_nodup uris 0 [] h (fun u _ => by simp)
  simpa [mkSwarm] using this

/-! ## Histories of calls on one Swarm: what each call does to the persistent state -/

theorem closeLinksGo_spec : ∀ (cfs : List (Uri × Member)) (k : Nat) (mem : Nat → Bool) (tr : List Ev),
    (∀ i, k ≤ i → i < k + cfs.length → (closeLinksGo cfs k mem tr).1 i = false) ∧
    (∀ i, i < k → (closeLinksGo cfs k mem tr).1 i = mem i) := by
  intro cfs
  induction cfs with
  | nil => intro k mem tr; exact ⟨fun i h1 h2 => by simp at h2; omega, fun i _ => rfl⟩
  | cons kv rest ih =>
    intro k mem tr
    obtain ⟨u, m⟩ := kv
    simp only [closeLinksGo]
    obtain ⟨h1, h2⟩ := ih (k + 1) (upd mem k (if mem k then Gen.C19.scfDisconnectedSets else mem k)) (tr ++ [.closeCall u (mem k)])
    constructor
    · intro i hki hi
      simp only [List.length_cons] at hi
      by_cases hik : i = k
      · subst hik
        rw [h2 i (by omega)]
        simp only [upd_same, gen_scfDisconnectedSets]
        cases mem i <;> rfl
      · exact h1 i (by omega) (by omega)
    · intro i hi
      rw [h2 i (by omega), upd_other _ _ _ _ (by omega)]

/-- close_links: every link is closed and the swarm is marked closed -/
theorem closeLinks_spec (cfs : List (Uri × Member)) (st : SwarmState) :
    (closeLinks cfs st).1.isOpen = false ∧ ∀ i, i < cfs.length → (closeLinks cfs st).1.mem i = false := by
  have := (closeLinksGo_spec cfs 0 st.mem []).1
  refine ⟨gen_closeSetsFlag, fun i hi => ?_⟩
  simpa [closeLinks] using this i (Nat.zero_le i) (by omega)

/-- a swarm-wide call with a user action changes neither `_is_open` nor any link flag -/
theorem user_exec_state {cfs : List (Uri × Member)} {kind : Kind} (hk : kind ≠ .openLinks) {d : ArgsDict}
    {f : Uri → List Arg → Option Err} {st : SwarmState} {sch : List Nat} {c : Cfg}
    (h : exec ⟨cfs, kind, d, .user f⟩ st sch = some c) : c.swarmOpen = st.isOpen ∧ ∀ i, c.mem i = st.mem i := by
  have := run_invariant (machine ⟨cfs, kind, d, .user f⟩)
    (fun c => ClKind ⟨cfs, kind, d, .user f⟩ c ∧ c.swarmOpen = st.isOpen ∧ ∀ i, c.mem i = st.mem i) (by
    intro c t c' I hs
    refine ⟨clKind_step _ c t c' I.1 hs, ?_⟩
    rcases step_cases hs with ⟨_, hm⟩ | ⟨i, _, ht⟩
    · cases hm with
      | doneOpenOk hm hk' => exact absurd hk' hk
      | closeOne k x u m hm hk' => exact absurd (I.1 k x hm) hk
      | closeEnd k x hm hk' => exact absurd (I.1 k x hm) hk
      | _ => exact I.2
    · cases ht with
      | ret u m a o hk' ha hfin =>
        simp only [Action.finish, Prod.mk.injEq] at hfin
        refine ⟨I.2.1, fun j => ?_⟩
        simp only [upd]; split
        · next heq => subst heq; rw [← hfin.2]; exact I.2.2 j
        · exact I.2.2 j
      | raise u m a e o hk' ha hfin =>
        simp only [Action.finish, Prod.mk.injEq] at hfin
        refine ⟨I.2.1, fun j => ?_⟩
        simp only [upd]; split
        · next heq => subst heq; rw [← hfin.2]; exact I.2.2 j
        · exact I.2.2 j
      | call u m a hk' ha => exact I.2
      | flag u m e hk' ha => exact I.2
      | append u m e hk' ha => exact I.2)
    sch (init st) c ⟨clKind_init _ st, rfl, fun _ => rfl⟩ h
  exact this.2

end CfVerif.C19

/-
Proofs/C19Inv: the invariants behind the C19 theorems (reporter, results, member link flags, local traces),
each preserved by every enabled step; lifted to all schedules in Proofs/C19All.  Core Lean only.
-/
import CfVerif.Proofs.C19
namespace CfVerif.C19
open CfVerif CfVerif.Sched

/-! ## Arguments held by a started thread are the member's own dictionary entry -/
def ArgsInv (p : Params) (c : Cfg) : Prop :=
  ∀ i u m a, p.cfs[i]? = some (u, m) → (c.thr i = .ready a ∨ c.thr i = .running a) → processArgs p.args u = .ok a

theorem argsInv_init (p : Params) (st : SwarmState) : ArgsInv p (init st) := by
  intro i u m a _ h; simp [init] at h

theorem argsInv_step (p : Params) (c : Cfg) (t : Nat) (c' : Cfg) (I : ArgsInv p c) (h : (machine p).step c t = some c') :
    ArgsInv p c' := by
  rcases step_cases h with ⟨_, hm⟩ | ⟨i, _, ht⟩
  · cases hm with
    | spawn k u m a hm hk ha =>
      intro i u' m' a' hi hs
      simp only [upd] at hs
      split at hs
      · next heq => subst heq; rw [hk] at hi; cases hi; simp at hs; subst hs; exact ha
      · exact I i u' m' a' hi hs
    | _ => exact I
  · cases ht <;> (intro j u' m' a' hj hs; simp only [upd] at hs; grind [ArgsInv])

/-! ## The reporter: flag and error list versus thread states -/
structure Rep (c : Cfg) : Prop where
  flag_iff : c.flag = true ↔ ∃ i e, c.thr i = .flagged e ∨ c.thr i = .done (some e)
  errors_iff : ∀ e, e ∈ c.errors ↔ ∃ i, c.thr i = .done (some e)

theorem rep_init (st : SwarmState) : Rep (init st) where
  flag_iff := by simp [init, gen_reporterInitFlag]
  errors_iff := by simp [init]

theorem rep_step (p : Params) (c : Cfg) (t : Nat) (c' : Cfg) (S : Shape p c) (R : Rep c)
    (h : (machine p).step c t = some c') : Rep c' := by
  obtain ⟨hf, he⟩ := R
  rcases step_cases h with ⟨_, hm⟩ | ⟨i, _, ht⟩
  · cases hm with
    | spawn k u m a hm hk ha =>
      have hidle : c.thr k = .idle := (S.start k hm).2.1 k (Nat.le_refl k)
      constructor
      · simp only [upd]; grind
      · intro e; simp only [upd]; grind
    | _ => exact ⟨hf, he⟩
  · cases ht with
    | call u m a hk ha => constructor <;> (simp only [upd]; grind)
    | ret u m a o hk ha hfin => constructor <;> (simp only [upd]; grind)
    | raise u m a e o hk ha hfin => constructor <;> (simp only [upd]; grind)
    | flag u m e hk ha => constructor <;> (simp only [upd, gen_reportFlagValue]; grind)
    | append u m e hk ha => constructor <;> (simp only [upd, List.mem_append, List.mem_singleton]; grind)

/-! ## Results: what main holds after the error check is right w.r.t. the finished threads -/

/-- `r` is the correct outcome of parallel_safe for the finished threads of `c`: no exception iff no thread's
action raised; otherwise the generic exception chained from an error that one of the threads raised. -/
def Correct (c : Cfg) : Option Exc → Prop
  | none => ∀ i e, c.thr i ≠ .done (some e)
  | some x => ∃ e i, x = .chained e ∧ c.thr i = .done (some e)

structure Res (p : Params) (c : Cfg) : Prop where
  psDone : ∀ r, c.main = .psDone r → Correct c r
  closing : ∀ k x, c.main = .closing k x → Correct c (some x)
  finished : ∀ r, c.main = .finished r → p.kind ≠ .parallel → Correct c r
  finishedPar : ∀ r, c.main = .finished r → p.kind = .parallel → r = none

theorem thrStep_main {p : Params} {c c' : Cfg} {i : Nat} (ht : ThrStep p c i c') : c'.main = c.main := by
  cases ht <;> rfl

/-- `close_links` is only run by open_links -/
def ClKind (p : Params) (c : Cfg) : Prop := ∀ k x, c.main = .closing k x → p.kind = .openLinks

theorem clKind_init (p : Params) (st : SwarmState) : ClKind p (init st) := by
  intro k x h; simp [init] at h

theorem clKind_step (p : Params) (c : Cfg) (t : Nat) (c' : Cfg) (K : ClKind p c) (h : (machine p).step c t = some c') :
    ClKind p c' := by
  rcases step_cases h with ⟨_, hm⟩ | ⟨i, _, ht⟩
  · cases hm <;> (intro k' x' hk'; simp_all [ClKind]) <;> grind
  · intro k x hk; rw [thrStep_main ht] at hk; exact K k x hk

theorem res_init (p : Params) (st : SwarmState) : Res p (init st) := by
  constructor <;> (intros; simp_all [init])

/-- a member-thread step is impossible once every thread is done -/
theorem thrStep_not_allDone {p : Params} {c c' : Cfg} {i : Nat} (ht : ThrStep p c i c') (hall : AllDone p c) : False := by
  cases ht with
  | call u m a hk ha => obtain ⟨r, hr⟩ := hall i (lt_of_getElem?_eq_some hk); rw [ha] at hr; cases hr
  | ret u m a o hk ha _ => obtain ⟨r, hr⟩ := hall i (lt_of_getElem?_eq_some hk); rw [ha] at hr; cases hr
  | raise u m a e o hk ha _ => obtain ⟨r, hr⟩ := hall i (lt_of_getElem?_eq_some hk); rw [ha] at hr; cases hr
  | flag u m e hk ha => obtain ⟨r, hr⟩ := hall i (lt_of_getElem?_eq_some hk); rw [ha] at hr; cases hr
  | append u m e hk ha => obtain ⟨r, hr⟩ := hall i (lt_of_getElem?_eq_some hk); rw [ha] at hr; cases hr

theorem allDone_of_past {p : Params} {c : Cfg} (hargs : ArgsOk p) (S : Shape p c) (hp : PastJoin c.main) : AllDone p c := by
  rcases S.after hp with h | h
  · exact h
  · exact absurd hargs h

theorem res_step (p : Params) (hargs : ArgsOk p) (c : Cfg) (t : Nat) (c' : Cfg) (S : Shape p c) (R : Rep c)
    (K : ClKind p c) (Q : Res p c) (h : (machine p).step c t = some c') : Res p c' := by
  rcases step_cases h with ⟨_, hm⟩ | ⟨i, _, ht⟩
  · cases hm with
    | spawn k u m a hm hk ha => constructor <;> (intros; simp_all)
    | keyErr k u m x hm hk hx =>
      obtain ⟨a, ha⟩ := hargs u m (mem_of_getElem?_eq_some hk)
      rw [ha] at hx; cases hx
    | startEnd k hm hk => constructor <;> (intros; simp_all)
    | joinOne k kv r hm hk hr => constructor <;> (intros; simp_all)
    | joinEnd k hm hk => constructor <;> (intros; simp_all)
    | checkNone hm hflag =>
      have hnone : Correct c none := by
        intro i e hd
        have : c.flag = true := R.flag_iff.mpr ⟨i, e, .inr hd⟩
        rw [hflag] at this; cases this
      constructor
      · intro r hr; simp only [MainPc.psDone.injEq] at hr; subst hr; exact hnone
      · intro k x hk; simp at hk
      · intro r hr; simp at hr
      · intro r hr; simp at hr
    | checkErr e hm hflag he =>
      have hmem : e ∈ c.errors := List.mem_of_getElem? he
      obtain ⟨i, hi⟩ := (R.errors_iff e).mp hmem
      constructor
      · intro r hr; simp only [MainPc.psDone.injEq] at hr; subst hr; exact ⟨e, i, rfl, hi⟩
      · intro k x hk; simp at hk
      · intro r hr; simp at hr
      · intro r hr; simp at hr
    | checkIdx hm hflag he =>
      exfalso
      have hall := allDone_of_past hargs S (by rw [hm]; trivial)
      obtain ⟨i, e, hie⟩ := R.flag_iff.mp hflag
      have hlt : i < p.cfs.length := by
        rcases Nat.lt_or_ge i p.cfs.length with hlt | hge
        · exact hlt
        · have := S.beyond i hge; rcases hie with h1 | h1 <;> (rw [this] at h1; cases h1)
      obtain ⟨r, hr⟩ := hall i hlt
      have hd : c.thr i = .done (some e) := by
        rcases hie with h1 | h1
        · rw [hr] at h1; cases h1
        · exact h1
      have hmem : e ∈ c.errors := (R.errors_iff e).mpr ⟨i, hd⟩
      rw [gen_errIndex] at he
      cases hc : c.errors with
      | nil => rw [hc] at hmem; cases hmem
      | cons x xs => rw [hc] at he; simp at he
    | donePS r hm hk =>
      have := Q.psDone r hm
      constructor
      · intro r' hr; simp at hr
      · intro k x hk'; simp at hk'
      · intro r' hr _; simp only [MainPc.finished.injEq] at hr; subst hr; exact this
      · intro r' hr hk'; rw [hk] at hk'; cases hk'
    | donePar r hm hk =>
      constructor
      · intro r' hr; simp at hr
      · intro k x hk'; simp at hk'
      · intro r' hr hk'; exact absurd hk hk'
      · intro r' hr _; simp only [MainPc.finished.injEq] at hr; exact hr.symm
    | doneOpenOk hm hk =>
      have := Q.psDone none hm
      constructor
      · intro r' hr; simp at hr
      · intro k x hk'; simp at hk'
      · intro r' hr _; simp only [MainPc.finished.injEq] at hr; subst hr; exact this
      · intro r' hr hk'; rw [hk] at hk'; cases hk'
    | doneOpenErr x hm hk =>
      have := Q.psDone (some x) hm
      constructor
      · intro r' hr; simp at hr
      · intro k x' hk'; simp only [MainPc.closing.injEq] at hk'; obtain ⟨_, rfl⟩ := hk'; exact this
      · intro r' hr; simp at hr
      · intro r' hr; simp at hr
    | closeOne k x u m hm hk =>
      have := Q.closing k x hm
      constructor
      · intro r' hr; simp at hr
      · intro k' x' hk'; simp only [MainPc.closing.injEq] at hk'; obtain ⟨_, rfl⟩ := hk'; exact this
      · intro r' hr; simp at hr
      · intro r' hr; simp at hr
    | closeEnd k x hm hk =>
      have := Q.closing k x hm
      constructor
      · intro r' hr; simp at hr
      · intro k' x' hk'; simp at hk'
      · intro r' hr _; simp only [MainPc.finished.injEq] at hr; subst hr; exact this
      · intro r' hr hk'; rw [K k x hm] at hk'; cases hk'
  · have hmain := thrStep_main ht
    have hno : ¬ PastJoin c.main := fun hp => thrStep_not_allDone ht (allDone_of_past hargs S hp)
    constructor
    · intro r hr; rw [hmain] at hr; exact absurd (by rw [hr]; trivial) hno
    · intro k x hk; rw [hmain] at hk; exact absurd (by rw [hk]; trivial) hno
    · intro r hr; rw [hmain] at hr; exact absurd (by rw [hr]; trivial) hno
    · intro r hr; rw [hmain] at hr; exact absurd (by rw [hr]; trivial) hno

/-! ## Outcomes: what each action did is what the action function says for this member and its own arguments -/

/-- the member's own entry of the argument dictionary (`[]` when there is no dictionary) -/
def argsOf (p : Params) (u : Uri) : List Arg :=
  match processArgs p.args u with
  | .ok a => a
  | .error _ => []

/-- outcome recorded in a thread state: `some none` returned, `some (some e)` raised e, `none` not finished -/
def resultOf : ThrPc → Option (Option Err)
  | .failed e => some (some e)
  | .flagged e => some (some e)
  | .done r => some r
  | _ => none

/-- main has not (yet) run close_links -/
def NoClose : MainPc → Prop
  | .closing _ _ => False
  | .finished (some _) => False
  | _ => True

structure Out (p : Params) (m0 : Nat → Bool) (c : Cfg) : Prop where
  pre : ∀ i, resultOf (c.thr i) = none → c.mem i = m0 i
  res : ∀ i u m r, p.cfs[i]? = some (u, m) → resultOf (c.thr i) = some r → (p.act.finish u (argsOf p u) (m0 i)).1 = r
  post : NoClose c.main → ∀ i u m r, p.cfs[i]? = some (u, m) → resultOf (c.thr i) = some r →
    c.mem i = (p.act.finish u (argsOf p u) (m0 i)).2

theorem out_init (p : Params) (st : SwarmState) : Out p st.mem (init st) := by
  constructor <;> (intros; simp_all [init, resultOf])

theorem argsOf_eq {p : Params} {u : Uri} {a : List Arg} (h : processArgs p.args u = .ok a) : argsOf p u = a := by
  simp [argsOf, h]

theorem out_step (p : Params) (hargs : ArgsOk p) (m0 : Nat → Bool) (c : Cfg) (t : Nat) (c' : Cfg) (S : Shape p c)
    (A : ArgsInv p c) (O : Out p m0 c) (h : (machine p).step c t = some c') : Out p m0 c' := by
  obtain ⟨hpre, hres, hpost⟩ := O
  rcases step_cases h with ⟨_, hm⟩ | ⟨i, _, ht⟩
  · cases hm with
    | spawn k u m a hm hk ha =>
      have hidle : c.thr k = .idle := (S.start k hm).2.1 k (Nat.le_refl k)
      have hnc : NoClose c.main := by rw [hm]; trivial
      refine ⟨?_, ?_, ?_⟩
      · intro i hi; simp only [upd] at hi; split at hi
        · next heq => subst heq; exact hpre i (by rw [hidle]; rfl)
        · exact hpre i hi
      · intro i u' m' r hi hr; simp only [upd] at hr; split at hr
        · simp [resultOf] at hr
        · exact hres i u' m' r hi hr
      · intro _ i u' m' r hi hr; simp only [upd] at hr; split at hr
        · simp [resultOf] at hr
        · exact hpost hnc i u' m' r hi hr
    | keyErr k u m x hm hk hx =>
      obtain ⟨a, ha⟩ := hargs u m (mem_of_getElem?_eq_some hk)
      rw [ha] at hx; cases hx
    | startEnd k hm hk => exact ⟨hpre, hres, fun _ => hpost (by rw [hm]; trivial)⟩
    | joinOne k kv r hm hk hr => exact ⟨hpre, hres, fun _ => hpost (by rw [hm]; trivial)⟩
    | joinEnd k hm hk => exact ⟨hpre, hres, fun _ => hpost (by rw [hm]; trivial)⟩
    | checkNone hm _ => exact ⟨hpre, hres, fun _ => hpost (by rw [hm]; trivial)⟩
    | checkErr e hm _ _ => exact ⟨hpre, hres, fun _ => hpost (by rw [hm]; trivial)⟩
    | checkIdx hm _ _ => exact ⟨hpre, hres, fun _ => hpost (by rw [hm]; trivial)⟩
    | donePS r hm hk =>
      refine ⟨hpre, hres, fun hn => hpost (by rw [hm]; trivial)⟩
    | donePar r hm hk => exact ⟨hpre, hres, fun _ => hpost (by rw [hm]; trivial)⟩
    | doneOpenOk hm hk => exact ⟨hpre, hres, fun _ => hpost (by rw [hm]; trivial)⟩
    | doneOpenErr x hm hk => exact ⟨hpre, hres, fun hn => absurd hn (by simp [NoClose])⟩
    | closeOne k x u m hm hk =>
      have hall := allDone_of_past hargs S (by rw [hm]; trivial)
      refine ⟨?_, hres, fun hn => absurd hn (by simp [NoClose])⟩
      intro i hi
      simp only [upd]; split
      · next heq =>
        subst heq
        obtain ⟨r, hr⟩ := hall i (lt_of_getElem?_eq_some hk)
        rw [hr] at hi; simp [resultOf] at hi
      · exact hpre i hi
    | closeEnd k x hm hk => exact ⟨hpre, hres, fun hn => absurd hn (by simp [NoClose])⟩
  · have hmain := thrStep_main ht
    have hnp : ¬ PastJoin c.main := fun hp => thrStep_not_allDone ht (allDone_of_past hargs S hp)
    have hnc : NoClose c.main := by
      cases hc : c.main <;> first | trivial | (exfalso; apply hnp; rw [hc]; trivial)
    cases ht with
    | call u m a hk ha =>
      refine ⟨?_, ?_, ?_⟩
      · intro j hj; simp only [upd] at hj; split at hj
        · next heq => subst heq; exact hpre j (by rw [ha]; rfl)
        · exact hpre j hj
      · intro j u' m' r hj hr; simp only [upd] at hr; split at hr
        · simp [resultOf] at hr
        · exact hres j u' m' r hj hr
      · intro _ j u' m' r hj hr; simp only [upd] at hr; split at hr
        · simp [resultOf] at hr
        · exact hpost hnc j u' m' r hj hr
    | ret u m a o hk ha hfin =>
      have hao := argsOf_eq (A i u m a hk (.inr ha))
      have hmi : c.mem i = m0 i := hpre i (by rw [ha]; rfl)
      refine ⟨?_, ?_, ?_⟩
      · intro j hj; simp only [upd] at hj ⊢; split at hj
        · simp [resultOf] at hj
        · next hne => simp only [hne, if_false]; exact hpre j hj
      · intro j u' m' r hj hr; simp only [upd] at hr; split at hr
        · next heq =>
          subst heq; rw [hk] at hj; cases hj
          simp only [resultOf, Option.some.injEq] at hr; subst hr
          rw [hao, ← hmi, hfin]
        · exact hres j u' m' r hj hr
      · intro _ j u' m' r hj hr; simp only [upd] at hr ⊢; split at hr
        · next heq =>
          subst heq; rw [hk] at hj; cases hj
          simp only [if_true]
          rw [hao, ← hmi, hfin]
        · next hne => simp only [hne, if_false]; exact hpost hnc j u' m' r hj hr
    | raise u m a e o hk ha hfin =>
      have hao := argsOf_eq (A i u m a hk (.inr ha))
      have hmi : c.mem i = m0 i := hpre i (by rw [ha]; rfl)
      refine ⟨?_, ?_, ?_⟩
      · intro j hj; simp only [upd] at hj ⊢; split at hj
        · simp [resultOf] at hj
        · next hne => simp only [hne, if_false]; exact hpre j hj
      · intro j u' m' r hj hr; simp only [upd] at hr; split at hr
        · next heq =>
          subst heq; rw [hk] at hj; cases hj
          simp only [resultOf, Option.some.injEq] at hr; subst hr
          rw [hao, ← hmi, hfin]
        · exact hres j u' m' r hj hr
      · intro _ j u' m' r hj hr; simp only [upd] at hr ⊢; split at hr
        · next heq =>
          subst heq; rw [hk] at hj; cases hj
          simp only [if_true]
          rw [hao, ← hmi, hfin]
        · next hne => simp only [hne, if_false]; exact hpost hnc j u' m' r hj hr
    | flag u m e hk ha =>
      refine ⟨?_, ?_, ?_⟩
      · intro j hj; simp only [upd] at hj; split at hj
        · simp [resultOf] at hj
        · exact hpre j hj
      · intro j u' m' r hj hr; simp only [upd] at hr; split at hr
        · next heq => subst heq; exact hres j u' m' r hj (by rw [ha]; exact hr)
        · exact hres j u' m' r hj hr
      · intro _ j u' m' r hj hr; simp only [upd] at hr; split at hr
        · next heq => subst heq; exact hpost hnc j u' m' r hj (by rw [ha]; exact hr)
        · exact hpost hnc j u' m' r hj hr
    | append u m e hk ha =>
      refine ⟨?_, ?_, ?_⟩
      · intro j hj; simp only [upd] at hj; split at hj
        · simp [resultOf] at hj
        · exact hpre j hj
      · intro j u' m' r hj hr; simp only [upd] at hr; split at hr
        · next heq => subst heq; exact hres j u' m' r hj (by rw [ha]; exact hr)
        · exact hres j u' m' r hj hr
      · intro _ j u' m' r hj hr; simp only [upd] at hr; split at hr
        · next heq => subst heq; exact hpost hnc j u' m' r hj (by rw [ha]; exact hr)
        · exact hpost hnc j u' m' r hj hr

/-! ## close_links inside open_links -/
structure Cl (p : Params) (c : Cfg) : Prop where
  closing : ∀ k x, c.main = .closing k x → ∀ i, i < k → c.mem i = false
  closed : ∀ x, c.main = .finished (some x) → p.kind = .openLinks →
    (∀ i, i < p.cfs.length → c.mem i = false) ∧ c.swarmOpen = false
  opened : c.main = .finished none → p.kind = .openLinks → c.swarmOpen = true

theorem cl_init (p : Params) (st : SwarmState) : Cl p (init st) := by
  constructor <;> (intros; simp_all [init])

theorem cl_step (p : Params) (hargs : ArgsOk p) (c : Cfg) (t : Nat) (c' : Cfg) (S : Shape p c) (Q : Cl p c)
    (h : (machine p).step c t = some c') : Cl p c' := by
  rcases step_cases h with ⟨_, hm⟩ | ⟨i, _, ht⟩
  · cases hm with
    | closeOne k x u m hm hk =>
      have := Q.closing k x hm
      refine ⟨?_, ?_, ?_⟩
      · intro k' x' hk' i hi
        simp only [MainPc.closing.injEq] at hk'
        obtain ⟨rfl, rfl⟩ := hk'
        simp only [upd, gen_scfDisconnectedSets]
        split
        · cases c.mem k <;> simp
        · exact this i (by omega)
      · intro x' hx; simp at hx
      · intro hx; simp at hx
    | closeEnd k x hm hk =>
      have := Q.closing k x hm
      have hge : p.cfs.length ≤ k := by
        rcases Nat.lt_or_ge k p.cfs.length with hlt | hge
        · rw [List.getElem?_eq_getElem hlt] at hk; cases hk
        · exact hge
      refine ⟨?_, ?_, ?_⟩
      · intro k' x' hk'; simp at hk'
      · intro x' _ _; exact ⟨fun i hi => this i (by omega), gen_closeSetsFlag⟩
      · intro hx; simp at hx
    | doneOpenOk hm hk =>
      refine ⟨?_, ?_, ?_⟩
      · intro k' x' hk'; simp at hk'
      · intro x' hx; simp at hx
      · intro _ _; exact gen_openSetsFlag
    | doneOpenErr x hm hk =>
      refine ⟨?_, ?_, ?_⟩
      · intro k' x' hk' i hi; simp only [MainPc.closing.injEq] at hk'; omega
      · intro x' hx; simp at hx
      · intro hx; simp at hx
    | donePS r hm hk =>
      refine ⟨?_, ?_, ?_⟩
      · intro k' x' hk'; simp at hk'
      · intro x' _ hk'; rw [hk] at hk'; cases hk'
      · intro _ hk'; rw [hk] at hk'; cases hk'
    | donePar r hm hk =>
      refine ⟨?_, ?_, ?_⟩
      · intro k' x' hk'; simp at hk'
      · intro x' _ hk'; rw [hk] at hk'; cases hk'
      · intro _ hk'; rw [hk] at hk'; cases hk'
    | spawn k u m a hm hk ha => constructor <;> (intros; simp_all)
    | keyErr k u m x hm hk hx => constructor <;> (intros; simp_all)
    | startEnd k hm hk => constructor <;> (intros; simp_all)
    | joinOne k kv r hm hk hr => constructor <;> (intros; simp_all)
    | joinEnd k hm hk => constructor <;> (intros; simp_all)
    | checkNone hm _ => constructor <;> (intros; simp_all)
    | checkErr e hm _ _ => constructor <;> (intros; simp_all)
    | checkIdx hm _ _ => constructor <;> (intros; simp_all)
  · have hmain := thrStep_main ht
    have hno : ¬ PastJoin c.main := fun hp => thrStep_not_allDone ht (allDone_of_past hargs S hp)
    refine ⟨?_, ?_, ?_⟩
    · intro k x hk; rw [hmain] at hk; exact absurd (by rw [hk]; trivial) hno
    · intro x hx; rw [hmain] at hx; exact absurd (by rw [hx]; trivial) hno
    · intro hx; rw [hmain] at hx; exact absurd (by rw [hx]; trivial) hno

/-! ## Local traces: the events of one member are exactly those of its own thread -/

/-- the action events (call / ret / raised) of member `u` in a trace, in order -/
def actEvents (u : Uri) (tr : List Ev) : List Ev := tr.filter (fun ev => ev.isAction && ev.uri == u)

/-- what a thread in state `t` has emitted so far -/
def localTrace (u : Uri) (m : Member) (a : List Arg) : ThrPc → List Ev
  | .idle => []
  | .ready _ => []
  | .running _ => [.call u m a]
  | .failed e => [.call u m a, .raised u e]
  | .flagged e => [.call u m a, .raised u e]
  | .done (some e) => [.call u m a, .raised u e]
  | .done none => [.call u m a, .ret u]

def Loc (p : Params) (c : Cfg) : Prop :=
  ∀ i u m, p.cfs[i]? = some (u, m) → actEvents u c.trace = localTrace u m (argsOf p u) (c.thr i)

theorem loc_init (p : Params) (st : SwarmState) : Loc p (init st) := by
  intro i u m _; simp [init, actEvents, localTrace]

theorem keys_inj {cfs : List (Uri × Member)} (hnd : (cfs.map Prod.fst).Nodup) {i j : Nat} {u : Uri} {m m' : Member}
    (hi : cfs[i]? = some (u, m)) (hj : cfs[j]? = some (u, m')) : i = j := by
  have hil := lt_of_getElem?_eq_some hi
  have h1 : (cfs.map Prod.fst)[i]? = some u := by simp [List.getElem?_map, hi]
  have h2 : (cfs.map Prod.fst)[j]? = some u := by simp [List.getElem?_map, hj]
  exact (List.getElem?_inj (by simpa using hil) hnd).mp (h1.trans h2.symm)

theorem actEvents_append (u : Uri) (tr : List Ev) (ev : Ev) :
    actEvents u (tr ++ [ev]) = actEvents u tr ++ (if ev.isAction && ev.uri == u then [ev] else []) := by
  simp only [actEvents, List.filter_append, List.filter_cons, List.filter_nil]

theorem loc_step (p : Params) (hnd : (p.cfs.map Prod.fst).Nodup) (c : Cfg) (t : Nat) (c' : Cfg) (S : Shape p c)
    (A : ArgsInv p c) (L : Loc p c) (h : (machine p).step c t = some c') : Loc p c' := by
  rcases step_cases h with ⟨_, hm⟩ | ⟨i, _, ht⟩
  · cases hm with
    | spawn k u m a hm hk ha =>
      have hidle : c.thr k = .idle := (S.start k hm).2.1 k (Nat.le_refl k)
      intro j u' m' hj
      have := L j u' m' hj
      simp only [upd]; split
      · next heq => subst heq; rw [hidle] at this; simpa [localTrace] using this
      · exact this
    | closeOne k x u m hm hk =>
      intro j u' m' hj
      have := L j u' m' hj
      simp only [actEvents_append, Ev.isAction, Bool.false_and]
      simpa using this
    | _ => exact L
  · cases ht with
    | call u m a hk ha =>
      have hao := argsOf_eq (A i u m a hk (.inl ha))
      intro j u' m' hj
      have := L j u' m' hj
      simp only [actEvents_append, Ev.isAction, Ev.uri, Bool.true_and, upd]
      by_cases hji : j = i
      · subst hji; rw [hk] at hj; cases hj
        rw [ha] at this
        simp [this, localTrace, hao]
      · have hne : u ≠ u' := fun he => hji (keys_inj hnd (he ▸ hj) hk)
        simp [hji, hne, this]
    | ret u m a o hk ha hfin =>
      intro j u' m' hj
      have := L j u' m' hj
      simp only [actEvents_append, Ev.isAction, Ev.uri, Bool.true_and, upd]
      by_cases hji : j = i
      · subst hji; rw [hk] at hj; cases hj
        rw [ha] at this
        simp [this, localTrace]
      · have hne : u ≠ u' := fun he => hji (keys_inj hnd (he ▸ hj) hk)
        simp [hji, hne, this]
    | raise u m a e o hk ha hfin =>
      intro j u' m' hj
      have := L j u' m' hj
      simp only [actEvents_append, Ev.isAction, Ev.uri, Bool.true_and, upd]
      by_cases hji : j = i
      · subst hji; rw [hk] at hj; cases hj
        rw [ha] at this
        simp [this, localTrace]
      · have hne : u ≠ u' := fun he => hji (keys_inj hnd (he ▸ hj) hk)
        simp [hji, hne, this]
    | flag u m e hk ha =>
      intro j u' m' hj
      have := L j u' m' hj
      simp only [upd]
      by_cases hji : j = i
      · subst hji; rw [ha] at this; simpa [localTrace] using this
      · simpa [hji] using this
    | append u m e hk ha =>
      intro j u' m' hj
      have := L j u' m' hj
      simp only [upd]
      by_cases hji : j = i
      · subst hji; rw [ha] at this; simpa [localTrace] using this
      · simpa [hji] using this

end CfVerif.C19

/- Proofs/C20: evaluation of the components of `parse_uri` on printed fields; helper lemmas for Props/C20. -/
import CfVerif.Proofs.C20Parse
set_option linter.unusedSimpArgs false
namespace CfVerif.C20
open CfVerif

theorem netlocLenBound_eq : Gen.C20.netlocLenBound = 10 := by decide

/-- a dongle id of fewer than ten digits is the device index -/
theorem dongleOf_digits (serials : List Str) (N : Str) (hne : N ≠ []) (hd : ∀ c ∈ N, isDigit c = true) (hlen : N.length < 10) :
    dongleOf serials N = .ok (decVal N) := by
  have h1 : N.all isDigit = true := by rw [List.all_eq_true]; exact hd
  have h2 : N.isEmpty = false := by cases N with
    | nil => exact absurd rfl hne
    | cons _ _ => rfl
  simp [dongleOf, netlocLenBound_eq, hlen, h1, h2]

theorem dongleOf_index (serials : List Str) (d : Nat) (h : d < 10 ^ 9) : dongleOf serials (natStr d) = .ok d := by
  have := dongleOf_digits serials (natStr d) (natStr_ne_nil d) (natStr_digits d) (by have := natStr_length (k := 8) h; omega)
  rwa [decVal_natStr] at this

/-- any other dongle id is looked up, upper-cased, among the serial numbers -/
theorem dongleOf_serial (serials : List Str) (N : Str) (i : Nat) (hN : ¬ (N.length < 10 ∧ N ≠ [] ∧ ∀ c ∈ N, isDigit c = true))
    (hi : indexOf? (N.map upperAscii) serials = some i) : dongleOf serials N = .ok i := by
  have : (decide (N.length < Gen.C20.netlocLenBound) && (!N.isEmpty && N.all isDigit)) = false := by
    rw [netlocLenBound_eq]
    cases hb : (decide (N.length < 10) && (!N.isEmpty && N.all isDigit)) with
    | false => rfl
    | true =>
      exfalso; apply hN
      simp only [Bool.and_eq_true, decide_eq_true_eq, Bool.not_eq_true', List.all_eq_true] at hb
      exact ⟨hb.1, by intro e; subst e; simp at hb, hb.2.2⟩
  simp [dongleOf, this, hi]

theorem rateOf_text (r : Rate) : rateOf r.text = r.value := by cases r <;> decide

theorem rateLimitOf_nil : rateLimitOf [] = .ok none := by decide
theorem parseQsl_nil : parseQsl [] = .ok [] := by decide

theorem unquote_noPercent : ∀ s : Str, (∀ c ∈ s, c ≠ '%') → unquote s = .ok s
  | [], _ => rfl
  | [_], _ => rfl
  | [_, _], _ => rfl
  | c :: a :: b :: rest, h => by
    have hc : c ≠ '%' := h c (by simp)
    have ih := unquote_noPercent (a :: b :: rest) (fun d hd => h d (by simp [hd]))
    simp [unquote, hc, ih, Except.map]

theorem plusToSpace_noPlus (s : Str) (h : ∀ c ∈ s, c ≠ '+') : plusToSpace s = s := by
  unfold plusToSpace
  induction s with
  | nil => rfl
  | cons c s ih => simp [h c (by simp), ih (fun d hd => h d (by simp [hd]))]


theorem qslField_optText (kv : Str × Str) (h : OptOk kv) : qslField (optText kv) = .ok (some kv) := by
  obtain ⟨h1, h2, h3⟩ := h
  have hs : splitFirst '=' (optText kv) = (kv.1, some kv.2) := splitFirst_append _ _ _ (fun c hc => (h1 c hc).2.2.1)
  have u1 := unquote_noPercent kv.1 (fun c hc => (h1 c hc).2.2.2.2)
  have u2 := unquote_noPercent kv.2 (fun c hc => (h2 c hc).2.2.2.2)
  have p1 := plusToSpace_noPlus kv.1 (fun c hc => (h1 c hc).2.2.2.1)
  have p2 := plusToSpace_noPlus kv.2 (fun c hc => (h2 c hc).2.2.2.1)
  simp [qslField, hs, h3, p1, p2, u1, u2]

theorem optText_noAmp (kv : Str × Str) (h : OptOk kv) : ∀ c ∈ optText kv, c ≠ '&' := by
  intro c hc
  unfold optText at hc
  rcases List.mem_append.mp hc with hc | hc
  · exact (h.1 c hc).2.1
  · rcases List.mem_cons.mp hc with rfl | hc
    · decide
    · exact (h.2.1 c hc).2.1

theorem qslFields_split : ∀ (opts : List (Str × Str)), opts ≠ [] → (∀ kv ∈ opts, OptOk kv) →
    qslFields (splitOn '&' (queryText opts)) = .ok opts
  | [], h, _ => absurd rfl h
  | [kv], _, h => by
    have hk := h kv (by simp)
    simp [queryText, splitOn_noSep '&' _ (optText_noAmp kv hk), qslFields, qslField_optText kv hk]
  | kv :: kv2 :: rest, _, h => by
    have hk := h kv (by simp)
    have ih := qslFields_split (kv2 :: rest) (by simp) (fun x hx => h x (by simp [hx]))
    simp only [queryText]
    rw [splitOn_append '&' _ _ (optText_noAmp kv hk)]
    simp only [qslFields, qslField_optText kv hk]
    rw [ih]

theorem optText_ne_nil (kv : Str × Str) : optText kv ≠ [] := by unfold optText; simp

theorem queryText_ne_nil : ∀ (opts : List (Str × Str)), opts ≠ [] → queryText opts ≠ []
  | [], h => absurd rfl h
  | [kv], _ => optText_ne_nil kv
  | kv :: _ :: _, _ => by simp [queryText, optText]

/-- `parse_qsl` reads back the options of a query written without escapes -/
theorem parseQsl_queryText (opts : List (Str × Str)) (h : ∀ kv ∈ opts, OptOk kv) : parseQsl (queryText opts) = .ok opts := by
  cases opts with
  | nil => rfl
  | cons kv rest =>
    have hne := queryText_ne_nil (kv :: rest) (by simp)
    simp only [parseQsl, hne, if_false]
    exact qslFields_split _ (by simp) h


/-! ### character classes -/

theorem alnum_chars {c : Char} (h : (48 ≤ c.toNat ∧ c.toNat ≤ 57) ∨ (65 ≤ c.toNat ∧ c.toNat ≤ 90) ∨ (97 ≤ c.toNat ∧ c.toNat ≤ 122)) :
    NetlocChar c ∧ OptChar c := by
  have ne : ∀ d : Char, d.toNat < 48 ∨ (57 < d.toNat ∧ d.toNat < 65) ∨ (90 < d.toNat ∧ d.toNat < 97) ∨ 122 < d.toNat → c ≠ d :=
    fun d hd => char_ne_of_toNat (by omega)
  have hascii : isAscii c = true := by simp [isAscii]; omega
  have hunsafe : unsafeChar c = false := by
    simp [unsafeChar, ne '\t' (by decide), ne '\r' (by decide), ne '\n' (by decide)]
  have hdelim : netlocDelim c = false := by
    simp [netlocDelim, ne '/' (by decide), ne '?' (by decide), ne '#' (by decide)]
  exact ⟨⟨⟨hascii, hunsafe, hdelim⟩, ne '[' (by decide), ne ']' (by decide)⟩,
    ⟨hascii, hunsafe, ne '#' (by decide)⟩, ne '&' (by decide), ne '=' (by decide), ne '+' (by decide), ne '%' (by decide)⟩

theorem digit_chars {c : Char} (h : isDigit c = true) : NetlocChar c ∧ OptChar c :=
  alnum_chars (Or.inl (isDigit_iff.mp h))

theorem isHex_range {c : Char} (h : IsHex c) :
    (48 ≤ c.toNat ∧ c.toNat ≤ 57) ∨ (65 ≤ c.toNat ∧ c.toNat ≤ 90) ∨ (97 ≤ c.toNat ∧ c.toNat ≤ 122) := by
  unfold IsHex hexVal? at h
  have e : c.toNat = c.val.toNat := rfl
  split at h
  · rename_i hc
    simp only [Char.le_def, UInt32.le_iff_toNat_le] at hc
    have h0 : ('0' : Char).val.toNat = 48 := by decide
    have h9 : ('9' : Char).val.toNat = 57 := by decide
    omega
  · split at h
    · rename_i _ hc
      simp only [Char.le_def, UInt32.le_iff_toNat_le] at hc
      have h0 : ('a' : Char).val.toNat = 97 := by decide
      have h9 : ('f' : Char).val.toNat = 102 := by decide
      omega
    · split at h
      · rename_i _ _ hc
        simp only [Char.le_def, UInt32.le_iff_toNat_le] at hc
        have h0 : ('A' : Char).val.toNat = 65 := by decide
        have h9 : ('F' : Char).val.toNat = 70 := by decide
        omega
      · simp at h

theorem hex_chars {c : Char} (h : IsHex c) : NetlocChar c ∧ OptChar c := alnum_chars (isHex_range h)

theorem rate_chars (r : Rate) : r.text ≠ [] ∧ ∀ c ∈ r.text, FieldChar c := by cases r <;> decide

/-! ### `interpret` on successful components -/

theorem rateLimitOf_of_fields {q : Str} {fields : List (Str × Str)} (h : parseQsl q = .ok fields) :
    rateLimitOf q = match qsFirst Gen.C20.rateLimitKey.toList fields with
      | none => .ok none
      | some v => (pyInt v).map some := by
  simp only [rateLimitOf, h]
  cases qsFirst Gen.C20.rateLimitKey.toList fields <;> rfl

def rateOfSegs : List Str → Nat
  | _ :: r :: _ => rateOf r
  | _ => Gen.C20.datarateDefault

def channelOfSegs : List Str → Except Err Int
  | [] => .ok Gen.C20.channelDefault
  | c :: _ => pyInt c

def addrOfSegs : List Str → Except Err (List Nat)
  | _ :: _ :: a :: _ => addrOf a
  | _ => .ok Gen.C20.addressDefault

theorem interpret_ok {serials : List Str} {N : Str} {segs : List Str} {q : Str} {fields : List (Str × Str)}
    {devid : Nat} {ch : Int} {addr : List Nat} {lim : Option Int}
    (hq : parseQsl q = .ok fields) (hd : dongleOf serials N = .ok devid)
    (hc : channelOfSegs segs = .ok ch) (ha : addrOfSegs segs = .ok addr)
    (hl : rateLimitOf q = .ok lim) :
    interpret serials N segs q = .ok ⟨devid, ch, rateOfSegs segs, addr, lim⟩ := by
  unfold interpret rateOfSegs
  rcases segs with _ | ⟨c, _ | ⟨r, _ | ⟨a, t⟩⟩⟩ <;>
    simp only [channelOfSegs, addrOfSegs] at hc ha <;>
    simp [hq, hd, hc, ha, hl, bind, Except.bind, pure, Except.pure]

/-- master lemma: a URI written with `mkUri` whose components parse, parses to those components -/
theorem parse_fields {serials : List Str} {dongle : Str} {devid : Nat} (hdc : ∀ c ∈ dongle, NetlocChar c)
    (hdp : dongleOf serials dongle = .ok devid)
    {segs : List Str} (hs : ∀ s ∈ segs, s ≠ [] ∧ ∀ c ∈ s, FieldChar c) (trailing : Bool)
    {query : Option Str} (hq : ∀ q, query = some q → ∀ c ∈ q, QueryChar c)
    {fields : List (Str × Str)} (hf : parseQsl (query.getD []) = .ok fields)
    {ch : Int} {addr : List Nat} {lim : Option Int}
    (hc : channelOfSegs segs = .ok ch) (ha : addrOfSegs segs = .ok addr)
    (hl : rateLimitOf (query.getD []) = .ok lim) :
    parseUri serials (mkUri dongle segs trailing query) = .ok ⟨devid, ch, rateOfSegs segs, addr, lim⟩ := by
  rw [parseUri_mkUri serials dongle segs trailing query hdc hs hq]
  exact interpret_ok hf hdp hc ha hl

theorem rateLimitKey_eq : Gen.C20.rateLimitKey.toList = "rate_limit".toList := by decide

theorem optChar_query {c : Char} (h : OptChar c) : QueryChar c := h.1

theorem queryText_chars : ∀ (opts : List (Str × Str)), (∀ kv ∈ opts, OptOk kv) → ∀ c ∈ queryText opts, QueryChar c
  | [], _ => by intro c hc; simp [queryText] at hc
  | [kv], h => by
    intro c hc
    have hk := h kv (by simp)
    simp only [queryText, optText, List.mem_append, List.mem_cons] at hc
    rcases hc with hc | rfl | hc
    · exact (hk.1 c hc).1
    · decide
    · exact (hk.2.1 c hc).1
  | kv :: kv2 :: rest, h => by
    intro c hc
    have hk := h kv (by simp)
    have ih := queryText_chars (kv2 :: rest) (fun x hx => h x (by simp [hx]))
    simp only [queryText, optText, List.mem_append, List.mem_cons] at hc
    rcases hc with (hc | rfl | hc) | rfl | hc
    · exact (hk.1 c hc).1
    · decide
    · exact (hk.2.1 c hc).1
    · decide
    · exact ih c hc

theorem natStr_optOk (key : Str) (hk : ∀ c ∈ key, OptChar c) (l : Nat) : OptOk (key, natStr l) :=
  ⟨hk, fun c hc => (digit_chars (natStr_digits l c hc)).2, natStr_ne_nil l⟩

theorem rateLimit_key_chars : ∀ c ∈ "rate_limit".toList, OptChar c := by decide

theorem limitQuery_eq (l : Nat) : limitQuery (some l) = some (queryText [("rate_limit".toList, natStr l)]) := by
  have : "rate_limit=".toList = "rate_limit".toList ++ ['='] := by decide
  simp [limitQuery, queryText, optText, this]

/-- what `parse_uri` reads from the query written by `limitQuery` -/
theorem limitQuery_spec (limit : Option Nat) (hl : ∀ l, limit = some l → l < 10 ^ 4300) :
    (∀ q, limitQuery limit = some q → ∀ c ∈ q, QueryChar c) ∧
    (∃ fields, parseQsl ((limitQuery limit).getD []) = .ok fields) ∧
    rateLimitOf ((limitQuery limit).getD []) = .ok (limit.map Int.ofNat) := by
  cases limit with
  | none => exact ⟨fun q h => by simp [limitQuery] at h, ⟨[], rfl⟩, rateLimitOf_nil⟩
  | some l =>
    have hok : ∀ kv ∈ [("rate_limit".toList, natStr l)], OptOk kv := by
      intro kv hkv; simp at hkv; subst hkv; exact natStr_optOk _ rateLimit_key_chars l
    have hp := parseQsl_queryText _ hok
    refine ⟨?_, ?_, ?_⟩
    · intro q hq; rw [limitQuery_eq] at hq; injection hq with hq; subst hq; exact queryText_chars _ hok
    · rw [limitQuery_eq]; exact ⟨_, hp⟩
    · rw [limitQuery_eq]
      simp only [Option.getD_some]
      rw [rateLimitOf_of_fields hp]
      have hint := pyInt_natStr (n := l) (k := 4299) (hl l rfl) (by decide)
      simp [qsFirst, rateLimitKey_eq, hint, Except.map]

/-! ### error paths -/

theorem interpret_dongle_err {serials : List Str} {N : Str} {segs : List Str} {q : Str} {fields : List (Str × Str)} {e : Err}
    (hq : parseQsl q = .ok fields) (hd : dongleOf serials N = .error e) : interpret serials N segs q = .error e := by
  unfold interpret
  simp [hq, hd, bind, Except.bind]

theorem interpret_chan_err {serials : List Str} {N : Str} {segs : List Str} {q : Str} {fields : List (Str × Str)} {devid : Nat} {e : Err}
    (hq : parseQsl q = .ok fields) (hd : dongleOf serials N = .ok devid) (hc : channelOfSegs segs = .error e) :
    interpret serials N segs q = .error e := by
  unfold interpret
  rcases segs with _ | ⟨c, t⟩ <;> simp only [channelOfSegs] at hc <;> simp [hq, hd, hc, bind, Except.bind, pure, Except.pure]

theorem interpret_addr_err {serials : List Str} {N : Str} {segs : List Str} {q : Str} {fields : List (Str × Str)} {devid : Nat} {ch : Int} {e : Err}
    (hq : parseQsl q = .ok fields) (hd : dongleOf serials N = .ok devid) (hc : channelOfSegs segs = .ok ch)
    (ha : addrOfSegs segs = .error e) : interpret serials N segs q = .error e := by
  unfold interpret
  rcases segs with _ | ⟨c, _ | ⟨r, _ | ⟨a, t⟩⟩⟩ <;> simp only [channelOfSegs, addrOfSegs] at hc ha <;>
    simp [hq, hd, hc, ha, bind, Except.bind, pure, Except.pure]

theorem unpack5_long (b0 b1 b2 b3 b4 b5 : UInt8) (r : List UInt8) :
    unpack [.B, .B, .B, .B, .B] (b0 :: b1 :: b2 :: b3 :: b4 :: b5 :: r) = .error .structError := by
  simp [unpack, Code.size, Code.takesVal, unpackOne, leVal, bind, Except.bind, pure, Except.pure]

theorem pad_str_long (A : Str) (h : 10 ≤ A.length) : pyFormat Gen.C20.addrPadFmt [.str A] = .ok A := by
  rw [pad_str]; simp [Nat.sub_eq_zero_of_le h]

/-- an address of 11 or more hex digits is rejected: odd length by `unhexlify`, even length by `struct.unpack` -/
theorem addrOf_long (A : Str) (h11 : 11 ≤ A.length) (hh : ∀ c ∈ A, IsHex c) :
    addrOf A = .error (if A.length % 2 = 1 then .valueError else .structError) := by
  unfold addrOf addrFrom
  rw [pad_str_long A (by omega)]
  by_cases hodd : A.length % 2 = 1
  · have := ofHexChars_odd (A.length / 2) A (by omega)
    simp [unhexlify, this, hodd]
  · have hlen : A.length = 2 * (A.length / 2) := by omega
    have h1 := ofHexChars_even (A.length / 2) A hlen hh
    have h2 := hexPairs_length (A.length / 2) A hlen
    simp only [unhexlify, h1, addrUnpack_spec, hodd, if_false]
    have h6 : 6 ≤ ((hexPairs A).map UInt8.ofNat).length := by simp [h2]; omega
    match hm : (hexPairs A).map UInt8.ofNat, h6 with
    | b0 :: b1 :: b2 :: b3 :: b4 :: b5 :: r, _ => simp [unpack5_long]

/-! ### the property theorems (stated in Props/C20) -/

theorem Dongle.chars {serials : List Str} {s : Str} {i : Nat} (h : Dongle serials s i) : ∀ c ∈ s, NetlocChar c :=
  match h with
  | .index d _ => fun c hc => (digit_chars (natStr_digits d c hc)).1
  | .digits _ _ hd _ => fun c hc => (digit_chars (hd c hc)).1
  | .serial _ _ hc _ _ => hc

theorem Dongle.parses {serials : List Str} {s : Str} {i : Nat} (h : Dongle serials s i) : dongleOf serials s = .ok i :=
  match h with
  | .index d hd => dongleOf_index serials d hd
  | .digits s hne hd hlen => dongleOf_digits serials s hne hd hlen
  | .serial _ _ _ hnot hidx => dongleOf_serial serials _ _ hnot hidx

theorem parse_print_aux (serials : List Str) (dongle : Str) (devid : Nat) (hd : Dongle serials dongle devid)
    (ch : Nat) (hch : ch ≤ 125) (rate : Rate)
    (A : Str) (hA1 : 1 ≤ A.length) (hA10 : A.length ≤ 10) (hhex : ∀ c ∈ A, IsHex c)
    (limit : Option Nat) (hl : ∀ l, limit = some l → l < 10 ^ 4300) :
    parseUri serials (printUri dongle ch rate A limit) =
      .ok ⟨devid, ch, rate.value, beBytes5 (hexValue A), limit.map Int.ofNat⟩ := by
  obtain ⟨hq, ⟨fields, hf⟩, hlim⟩ := limitQuery_spec limit hl
  have hs : ∀ s ∈ [natStr ch, rate.text, A], s ≠ [] ∧ ∀ c ∈ s, FieldChar c := by
    intro s hs
    simp only [List.mem_cons, List.mem_nil_iff, or_false] at hs
    rcases hs with rfl | rfl | rfl
    · exact ⟨natStr_ne_nil ch, fun c hc => (digit_chars (natStr_digits ch c hc)).1.1⟩
    · exact rate_chars rate
    · exact ⟨by intro e; subst e; simp at hA1, fun c hc => (hex_chars (hhex c hc)).1.1⟩
  have hc : channelOfSegs [natStr ch, rate.text, A] = .ok (ch : Int) :=
    pyInt_natStr (n := ch) (k := 2) (by omega) (by decide)
  have ha : addrOfSegs [natStr ch, rate.text, A] = .ok (beBytes5 (hexValue A)) := addrOf_hex A hA1 hA10 hhex
  have := parse_fields hd.chars hd.parses hs false hq hf hc ha hlim
  simpa [printUri, rateOfSegs, rateOf_text] using this

theorem parse_print_query_options_aux (serials : List Str) (dongle : Str) (devid : Nat) (hd : Dongle serials dongle devid)
    (ch : Nat) (hch : ch ≤ 125) (rate : Rate)
    (A : Str) (hA1 : 1 ≤ A.length) (hA10 : A.length ≤ 10) (hhex : ∀ c ∈ A, IsHex c)
    (pre post : List (Str × Str)) (hpre : ∀ kv ∈ pre, OptOk kv ∧ kv.1 ≠ "rate_limit".toList) (hpost : ∀ kv ∈ post, OptOk kv)
    (l : Nat) (hl : l < 10 ^ 4300) :
    parseUri serials (mkUri dongle [natStr ch, rate.text, A] false
        (some (queryText (pre ++ ("rate_limit".toList, natStr l) :: post)))) =
      .ok ⟨devid, ch, rate.value, beBytes5 (hexValue A), some l⟩ := by
  have hok : ∀ kv ∈ pre ++ ("rate_limit".toList, natStr l) :: post, OptOk kv := by
    intro kv hkv
    rcases List.mem_append.mp hkv with h | h
    · exact (hpre kv h).1
    · rcases List.mem_cons.mp h with rfl | h
      · exact natStr_optOk _ rateLimit_key_chars l
      · exact hpost kv h
  have hp := parseQsl_queryText _ hok
  have hfirst : qsFirst "rate_limit".toList (pre ++ ("rate_limit".toList, natStr l) :: post) = some (natStr l) := by
    induction pre with
    | nil => simp [qsFirst]
    | cons kv pre ih =>
      have hne := (hpre kv (by simp)).2
      obtain ⟨k, v⟩ := kv
      simp only [List.cons_append, qsFirst, hne, if_false]
      exact ih (fun x hx => hpre x (by simp [hx])) (fun x hx => hok x (by simp at hx ⊢; right; exact hx)) 
        (parseQsl_queryText _ (fun x hx => hok x (by simp at hx ⊢; right; exact hx)))
  have hlim : rateLimitOf (queryText (pre ++ ("rate_limit".toList, natStr l) :: post)) = .ok (some (l : Int)) := by
    rw [rateLimitOf_of_fields hp, rateLimitKey_eq, hfirst]
    simp [pyInt_natStr (n := l) (k := 4299) hl (by decide), Except.map]
  have hs : ∀ s ∈ [natStr ch, rate.text, A], s ≠ [] ∧ ∀ c ∈ s, FieldChar c := by
    intro s hs
    simp only [List.mem_cons, List.mem_nil_iff, or_false] at hs
    rcases hs with rfl | rfl | rfl
    · exact ⟨natStr_ne_nil ch, fun c hc => (digit_chars (natStr_digits ch c hc)).1.1⟩
    · exact rate_chars rate
    · exact ⟨by intro e; subst e; simp at hA1, fun c hc => (hex_chars (hhex c hc)).1.1⟩
  have hc : channelOfSegs [natStr ch, rate.text, A] = .ok (ch : Int) :=
    pyInt_natStr (n := ch) (k := 2) (by omega) (by decide)
  have ha : addrOfSegs [natStr ch, rate.text, A] = .ok (beBytes5 (hexValue A)) := addrOf_hex A hA1 hA10 hhex
  have := parse_fields hd.chars hd.parses hs false (query := some _) (fun q hq => by injection hq with hq; subst hq; exact queryText_chars _ hok)
    (fields := _) hp hc ha hlim
  simpa [rateOfSegs, rateOf_text] using this

theorem channelDefault_eq : Gen.C20.channelDefault = 2 := by decide
theorem datarateDefault_eq : Gen.C20.datarateDefault = 2 := by decide
theorem addressDefault_eq : Gen.C20.addressDefault = [0xE7, 0xE7, 0xE7, 0xE7, 0xE7] := by decide

theorem chan_field (ch : Nat) (_hch : ch ≤ 125) : natStr ch ≠ [] ∧ ∀ c ∈ natStr ch, FieldChar c :=
  ⟨natStr_ne_nil ch, fun c hc => (digit_chars (natStr_digits ch c hc)).1.1⟩

theorem defaults_aux (serials : List Str) (dongle : Str) (devid : Nat) (hd : Dongle serials dongle devid)
    (ch : Nat) (hch : ch ≤ 125) (rate : Rate) (limit : Option Nat) (hl : ∀ l, limit = some l → l < 10 ^ 4300) (trailing : Bool) :
    parseUri serials (mkUri dongle [] trailing (limitQuery limit)) =
      .ok ⟨devid, 2, 2, [0xE7, 0xE7, 0xE7, 0xE7, 0xE7], limit.map Int.ofNat⟩ ∧
    parseUri serials (mkUri dongle [natStr ch] trailing (limitQuery limit)) =
      .ok ⟨devid, ch, 2, [0xE7, 0xE7, 0xE7, 0xE7, 0xE7], limit.map Int.ofNat⟩ ∧
    parseUri serials (mkUri dongle [natStr ch, rate.text] trailing (limitQuery limit)) =
      .ok ⟨devid, ch, rate.value, [0xE7, 0xE7, 0xE7, 0xE7, 0xE7], limit.map Int.ofNat⟩ := by
  obtain ⟨hq, ⟨fields, hf⟩, hlim⟩ := limitQuery_spec limit hl
  have hint : pyInt (natStr ch) = .ok (ch : Int) := pyInt_natStr (n := ch) (k := 2) (by omega) (by decide)
  refine ⟨?_, ?_, ?_⟩
  · have := parse_fields hd.chars hd.parses (segs := []) (by simp) trailing hq hf (ch := Gen.C20.channelDefault)
      (addr := Gen.C20.addressDefault) rfl rfl hlim
    simpa [rateOfSegs, channelDefault_eq, datarateDefault_eq, addressDefault_eq] using this
  · have hs : ∀ s ∈ [natStr ch], s ≠ [] ∧ ∀ c ∈ s, FieldChar c := by
      intro s hs; simp at hs; subst hs; exact chan_field ch hch
    have := parse_fields hd.chars hd.parses hs trailing hq hf (ch := ch) (addr := Gen.C20.addressDefault) hint rfl hlim
    simpa [rateOfSegs, datarateDefault_eq, addressDefault_eq] using this
  · have hs : ∀ s ∈ [natStr ch, rate.text], s ≠ [] ∧ ∀ c ∈ s, FieldChar c := by
      intro s hs
      simp only [List.mem_cons, List.mem_nil_iff, or_false] at hs
      rcases hs with rfl | rfl
      · exact chan_field ch hch
      · exact rate_chars rate
    have := parse_fields hd.chars hd.parses hs trailing hq hf (ch := ch) (addr := Gen.C20.addressDefault) hint rfl hlim
    simpa [rateOfSegs, rateOf_text, addressDefault_eq] using this

theorem full_fields (ch : Nat) (hch : ch ≤ 125) (rate : Rate) (A : Str) (hA1 : 1 ≤ A.length) (hfc : ∀ c ∈ A, FieldChar c) :
    ∀ s ∈ [natStr ch, rate.text, A], s ≠ [] ∧ ∀ c ∈ s, FieldChar c := by
  intro s hs
  simp only [List.mem_cons, List.mem_nil_iff, or_false] at hs
  rcases hs with rfl | rfl | rfl
  · exact chan_field ch hch
  · exact rate_chars rate
  · exact ⟨by intro e; subst e; simp at hA1, hfc⟩

theorem trailing_slash_aux (serials : List Str) (dongle : Str) (devid : Nat) (hd : Dongle serials dongle devid)
    (ch : Nat) (hch : ch ≤ 125) (rate : Rate)
    (A : Str) (hA1 : 1 ≤ A.length) (hA10 : A.length ≤ 10) (hhex : ∀ c ∈ A, IsHex c)
    (limit : Option Nat) (hl : ∀ l, limit = some l → l < 10 ^ 4300) :
    parseUri serials (mkUri dongle [natStr ch, rate.text, A] true (limitQuery limit)) =
      .ok ⟨devid, ch, rate.value, beBytes5 (hexValue A), limit.map Int.ofNat⟩ := by
  obtain ⟨hq, ⟨fields, hf⟩, hlim⟩ := limitQuery_spec limit hl
  have hs := full_fields ch hch rate A hA1 (fun c hc => (hex_chars (hhex c hc)).1.1)
  have hc : channelOfSegs [natStr ch, rate.text, A] = .ok (ch : Int) :=
    pyInt_natStr (n := ch) (k := 2) (by omega) (by decide)
  have ha : addrOfSegs [natStr ch, rate.text, A] = .ok (beBytes5 (hexValue A)) := addrOf_hex A hA1 hA10 hhex
  have := parse_fields hd.chars hd.parses hs true hq hf hc ha hlim
  simpa [rateOfSegs, rateOf_text] using this

theorem no_rate_limit_aux (serials : List Str) (dongle : Str) (devid : Nat) (hd : Dongle serials dongle devid)
    (ch : Nat) (hch : ch ≤ 125) (rate : Rate)
    (A : Str) (hA1 : 1 ≤ A.length) (hA10 : A.length ≤ 10) (hhex : ∀ c ∈ A, IsHex c)
    (opts : List (Str × Str)) (hopts : ∀ kv ∈ opts, OptOk kv ∧ kv.1 ≠ "rate_limit".toList) :
    parseUri serials (mkUri dongle [natStr ch, rate.text, A] false (some (queryText opts))) =
      .ok ⟨devid, ch, rate.value, beBytes5 (hexValue A), none⟩ := by
  have hok : ∀ kv ∈ opts, OptOk kv := fun kv h => (hopts kv h).1
  have hp := parseQsl_queryText _ hok
  have hfirst : qsFirst "rate_limit".toList opts = none := by
    induction opts with
    | nil => rfl
    | cons kv r ih =>
      have hne := (hopts kv (by simp)).2
      obtain ⟨k, v⟩ := kv
      simp only [qsFirst, hne, if_false]
      exact ih (fun x hx => hopts x (by simp [hx])) (fun x hx => hok x (by simp [hx])) (parseQsl_queryText _ (fun x hx => hok x (by simp [hx])))
  have hlim : rateLimitOf (queryText opts) = .ok none := by
    rw [rateLimitOf_of_fields hp, rateLimitKey_eq, hfirst]
  have hs := full_fields ch hch rate A hA1 (fun c hc => (hex_chars (hhex c hc)).1.1)
  have hc : channelOfSegs [natStr ch, rate.text, A] = .ok (ch : Int) :=
    pyInt_natStr (n := ch) (k := 2) (by omega) (by decide)
  have ha : addrOfSegs [natStr ch, rate.text, A] = .ok (beBytes5 (hexValue A)) := addrOf_hex A hA1 hA10 hhex
  have := parse_fields hd.chars hd.parses hs false (query := some _)
    (fun q hq => by injection hq with hq; subst hq; exact queryText_chars _ hok) (fields := _) hp hc ha hlim
  simpa [rateOfSegs, rateOf_text] using this

theorem long_address_aux (serials : List Str) (dongle : Str) (devid : Nat) (hd : Dongle serials dongle devid)
    (ch : Nat) (hch : ch ≤ 125) (rate : Rate) (A : Str) (h11 : 11 ≤ A.length) (hhex : ∀ c ∈ A, IsHex c)
    (limit : Option Nat) (hl : ∀ l, limit = some l → l < 10 ^ 4300) :
    parseUri serials (printUri dongle ch rate A limit) = .error (if A.length % 2 = 1 then .valueError else .structError) := by
  obtain ⟨hq, ⟨fields, hf⟩, _⟩ := limitQuery_spec limit hl
  have hs := full_fields ch hch rate A (by omega) (fun c hc => (hex_chars (hhex c hc)).1.1)
  have hc : channelOfSegs [natStr ch, rate.text, A] = .ok (ch : Int) :=
    pyInt_natStr (n := ch) (k := 2) (by omega) (by decide)
  unfold printUri
  rw [parseUri_mkUri serials dongle _ false _ hd.chars hs hq]
  exact interpret_addr_err hf hd.parses hc (addrOf_long A h11 hhex)

theorem bad_channel_aux (serials : List Str) (dongle : Str) (devid : Nat) (hd : Dongle serials dongle devid)
    (segs : List Str) (hs : ∀ s ∈ segs, s ≠ [] ∧ ∀ c ∈ s, FieldChar c) (trailing : Bool)
    (limit : Option Nat) (hl : ∀ l, limit = some l → l < 10 ^ 4300)
    (C : Str) (hC : C ≠ [] ∧ ∀ c ∈ C, FieldChar c) (e : Err) (hbad : pyInt C = .error e) :
    parseUri serials (mkUri dongle (C :: segs) trailing (limitQuery limit)) = .error e := by
  obtain ⟨hq, ⟨fields, hf⟩, _⟩ := limitQuery_spec limit hl
  have hs' : ∀ s ∈ C :: segs, s ≠ [] ∧ ∀ c ∈ s, FieldChar c := by
    intro s h; rcases List.mem_cons.mp h with rfl | h
    · exact hC
    · exact hs s h
  rw [parseUri_mkUri serials dongle _ trailing _ hd.chars hs' hq]
  exact interpret_chan_err hf hd.parses hbad

theorem unknown_dongle_aux (serials : List Str) (N : Str) (hN : ∀ c ∈ N, NetlocChar c)
    (hnot : ¬ (N.length < 10 ∧ N ≠ [] ∧ ∀ c ∈ N, isDigit c = true)) (hidx : indexOf? (N.map upperAscii) serials = none)
    (segs : List Str) (hs : ∀ s ∈ segs, s ≠ [] ∧ ∀ c ∈ s, FieldChar c) (trailing : Bool)
    (limit : Option Nat) (hl : ∀ l, limit = some l → l < 10 ^ 4300) :
    parseUri serials (mkUri N segs trailing (limitQuery limit)) = .error .exception := by
  obtain ⟨hq, ⟨fields, hf⟩, _⟩ := limitQuery_spec limit hl
  rw [parseUri_mkUri serials N _ trailing _ hN hs hq]
  apply interpret_dongle_err hf
  have : (decide (N.length < Gen.C20.netlocLenBound) && (!N.isEmpty && N.all isDigit)) = false := by
    rw [netlocLenBound_eq]
    cases hb : (decide (N.length < 10) && (!N.isEmpty && N.all isDigit)) with
    | false => rfl
    | true =>
      exfalso; apply hnot
      simp only [Bool.and_eq_true, decide_eq_true_eq, Bool.not_eq_true', List.all_eq_true] at hb
      exact ⟨hb.1, by intro e; subst e; simp at hb, hb.2.2⟩
  simp [dongleOf, this, hidx]

theorem short_address_aux (serials : List Str) (dongle : Str) (devid : Nat) (hd : Dongle serials dongle devid)
    (ch : Nat) (hch : ch ≤ 125) (rate : Rate)
    (A : Str) (hA1 : 1 ≤ A.length) (hA10 : A.length ≤ 10) (hhex : ∀ c ∈ A, IsHex c)
    (limit : Option Nat) (hl : ∀ l, limit = some l → l < 10 ^ 4300) :
    parseUri serials (printUri dongle ch rate A limit) =
      parseUri serials (printUri dongle ch rate (List.replicate (10 - A.length) '0' ++ A) limit) := by
  rw [parse_print_aux serials dongle devid hd ch hch rate A hA1 hA10 hhex limit hl,
    parse_print_aux serials dongle devid hd ch hch rate (List.replicate (10 - A.length) '0' ++ A) (by simp; omega) (by simp; omega)
      (by
        intro c hc
        rcases List.mem_append.mp hc with hc | hc
        · rw [(List.mem_replicate.mp hc).2]; exact isHex_zero
        · exact hhex c hc) limit hl, hexValue_zeros]

end CfVerif.C20

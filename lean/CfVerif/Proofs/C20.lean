/- Proofs/C20: helper lemmas for Props/C20. -/
import CfVerif.Model.C20
namespace CfVerif.C20
open CfVerif

end CfVerif.C20

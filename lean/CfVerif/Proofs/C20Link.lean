/- Proofs/C20Link: scheme guards, `connect`/`get_link_driver` dispatch, `open_link`. -/
import CfVerif.Proofs.C20Scan
set_option linter.unusedSimpArgs false
namespace CfVerif.C20
open CfVerif

/-! ### scheme guards -/

def litItems (p : Str) : List Item := p.map (fun c => Item.one [(c, c)])

theorem charSet_single (c x : Char) : CharSet.mem [(c, c)] x = decide (x = c) := by
  simp only [CharSet.mem, List.any_cons, List.any_nil, Bool.or_false]
  by_cases h : x = c
  · subst h; simp [Char.le_def]
  · have : ¬ (c ≤ x ∧ x ≤ c) := fun ⟨h1, h2⟩ => h (Char.ext (UInt32.le_antisymm (Char.le_def.mp h2) (Char.le_def.mp h1)))
    simp only [h, decide_false, Bool.and_eq_false_iff, decide_eq_false_iff_not]
    by_cases h1 : c ≤ x
    · right; exact fun h2 => this ⟨h1, h2⟩
    · left; exact h1

theorem matchItems_lits (p : Str) (rest : List Item) (s : Str) :
    matchItems (litItems p ++ rest) s = match dropPrefix? p s with
      | some t => matchItems rest t
      | none => false := by
  induction p generalizing s with
  | nil => rfl
  | cons c p ih =>
    cases s with
    | nil => rfl
    | cons x t =>
      simp only [litItems, List.map, List.cons_append, matchItems, charSet_single, dropPrefix?]
      by_cases h : x = c
      · subst h; simp [litItems] at ih; simp [ih]
      · have h' : ¬ c = x := fun e => h e.symm
        simp [h, h']

theorem dropPrefix_isSome (p s : Str) : (dropPrefix? p s).isSome = isPrefix p s := by
  induction p generalizing s with
  | nil => rfl
  | cons c p ih =>
    cases s with
    | nil => rfl
    | cons x t =>
      simp only [dropPrefix?, isPrefix]
      by_cases h : c = x
      · simp [h, ih]
      · simp [h]

theorem matchItems_lits_only (p : Str) (s : Str) : matchItems (litItems p) s = isPrefix p s := by
  have := matchItems_lits p [] s
  simp only [List.append_nil] at this
  rw [this, ← dropPrefix_isSome]
  cases dropPrefix? p s <;> simp [matchItems]

/-- the literal scheme prefix each driver looks for -/
def schemeOf : Drv → Str
  | .radio => ['r', 'a', 'd', 'i', 'o', ':', '/', '/']
  | .usb => ['u', 's', 'b', ':', '/', '/']
  | .serial => ['s', 'e', 'r', 'i', 'a', 'l', ':', '/', '/']
  | .udp => ['u', 'd', 'p', ':', '/', '/']
  | .prrt => ['p', 'r', 'r', 't', ':', '/', '/']
  | .tcp => ['t', 'c', 'p', ':', '/', '/']

def usbTail : List Item := [.plus [('0', '9')], .eol]

/-- what the guard texts extracted from the six drivers say -/
theorem guards_spec : Drv.guards .radio = [.startswith (schemeOf .radio)] ∧
    Drv.guards .usb = [.search (litItems (schemeOf .usb) ++ usbTail), .search (litItems (schemeOf .usb) ++ usbTail)] ∧
    Drv.guards .serial = [.search (litItems (schemeOf .serial))] ∧ Drv.guards .udp = [.search (litItems (schemeOf .udp))] ∧
    Drv.guards .prrt = [.search (litItems (schemeOf .prrt))] ∧ Drv.guards .tcp = [.search (litItems (schemeOf .tcp))] := by
  decide

theorem claims_prefix_iff (d : Drv) (hd : d ≠ .usb) (uri : Str) : claims d uri = isPrefix (schemeOf d) uri := by
  obtain ⟨h1, _, h3, h4, h5, h6⟩ := guards_spec
  cases d with
  | usb => exact absurd rfl hd
  | radio => simp [claims, h1, Guard.passes]
  | serial => simp [claims, h3, Guard.passes, matchItems_lits_only]
  | udp => simp [claims, h4, Guard.passes, matchItems_lits_only]
  | prrt => simp [claims, h5, Guard.passes, matchItems_lits_only]
  | tcp => simp [claims, h6, Guard.passes, matchItems_lits_only]

theorem claims_usb (uri : Str) : claims .usb uri = match dropPrefix? (schemeOf .usb) uri with
    | some t => matchItems usbTail t
    | none => false := by
  simp [claims, guards_spec.2.1, Guard.passes, matchItems_lits]

theorem claims_prefix (d : Drv) (uri : Str) (h : claims d uri = true) : isPrefix (schemeOf d) uri = true := by
  by_cases hd : d = .usb
  · subst hd
    rw [claims_usb] at h
    rw [← dropPrefix_isSome]
    cases hp : dropPrefix? (schemeOf .usb) uri with
    | none => rw [hp] at h; cases h
    | some t => rfl
  · rwa [claims_prefix_iff d hd] at h

theorem isPrefix_two {a b : Char} {p s : Str} (h : isPrefix (a :: b :: p) s = true) : s.take 2 = [a, b] := by
  match s, h with
  | [], h => simp [isPrefix] at h
  | [_], h => simp [isPrefix] at h
  | x :: y :: t, h =>
    simp only [isPrefix, Bool.and_eq_true, decide_eq_true_eq] at h
    simp [h.1, h.2.1]

theorem one_driver_aux (uri : Str) (d1 d2 : Drv) (h1 : claims d1 uri = true) (h2 : claims d2 uri = true) : d1 = d2 := by
  have p1 := claims_prefix d1 uri h1
  have p2 := claims_prefix d2 uri h2
  cases d1 <;> cases d2 <;> first | rfl | (exfalso; have e1 := isPrefix_two p1; have e2 := isPrefix_two p2; rw [e1] at e2; revert e2; decide)

theorem plusK_all (p : Char → Bool) (k : Str → Bool) (hk : k [] = true) :
    ∀ (s : Str), s ≠ [] → (∀ c ∈ s, p c = true) → plusK p k s = true
  | [], h, _ => absurd rfl h
  | [c], _, h => by simp [plusK, h c (by simp), hk]
  | c :: d :: t, _, h => by
    have ih := plusK_all p k hk (d :: t) (by simp) (fun x hx => h x (by simp [hx]))
    simp only [plusK, h c (by simp), Bool.true_and, Bool.or_eq_true]
    right; exact ih

theorem digit_in_set {c : Char} (h : isDigit c = true) : CharSet.mem [('0', '9')] c = true := by
  simpa [CharSet.mem, isDigit] using h

theorem scheme_claimed_aux (rest : Str) :
    claims .radio (schemeOf .radio ++ rest) = true ∧ claims .serial (schemeOf .serial ++ rest) = true ∧
    claims .udp (schemeOf .udp ++ rest) = true ∧ claims .prrt (schemeOf .prrt ++ rest) = true ∧
    claims .tcp (schemeOf .tcp ++ rest) = true ∧ ∀ n : Nat, claims .usb (schemeOf .usb ++ natStr n) = true := by
  refine ⟨?_, ?_, ?_, ?_, ?_, ?_⟩
  · rw [claims_prefix_iff _ (by decide)]; exact isPrefix_append _ _
  · rw [claims_prefix_iff _ (by decide)]; exact isPrefix_append _ _
  · rw [claims_prefix_iff _ (by decide)]; exact isPrefix_append _ _
  · rw [claims_prefix_iff _ (by decide)]; exact isPrefix_append _ _
  · rw [claims_prefix_iff _ (by decide)]; exact isPrefix_append _ _
  · intro n
    rw [claims_usb, dropPrefix_append]
    exact plusK_all _ _ (by decide) (natStr n) (natStr_ne_nil n) (fun c hc => digit_in_set (natStr_digits n c hc))

/-! ### `connect` answers `WrongUriType` exactly when the guard fails -/

theorem parseQsl_err {q : Str} {e : Err} (h : parseQsl q = .error e) : e = .outOfModel := by
  unfold parseQsl at h
  split at h
  · cases h
  · generalize splitOn '&' q = l at h
    induction l generalizing e with
    | nil => cases h
    | cons nv r ih =>
      simp only [qslFields] at h
      split at h
      · cases h
      · cases h
      · injection h with h; exact h.symm

theorem pyInt_err {s : Str} {e : Err} (h : pyInt s = .error e) : e = .valueError := by
  unfold pyInt at h
  split at h
  rename_i neg body _
  split at h
  · injection h with h; exact h.symm
  · split at h
    · injection h with h; exact h.symm
    · cases h

theorem dongleOf_err {serials : List Str} {n : Str} {e : Err} (h : dongleOf serials n = .error e) : e = .exception := by
  unfold dongleOf at h
  split at h
  · cases h
  · split at h
    · cases h
    · injection h with h; exact h.symm

theorem renderSegs_err : ∀ {segs : List Seg} {args : List FArg} {e : Err}, renderSegs segs args = .error e → e ≠ .wrongUriType
  | [], _, _, h => by cases h
  | .lit c :: r, args, e, h => by
    simp only [renderSegs] at h
    cases hr : renderSegs r args with
    | error e' => rw [hr] at h; simp [Except.map] at h; subst h; exact renderSegs_err hr
    | ok v => rw [hr] at h; simp [Except.map] at h
  | .field _ :: _, [], e, h => by simp only [renderSegs] at h; injection h with h; subst h; decide
  | .field sp :: r, a :: args, e, h => by
    simp only [renderSegs] at h
    cases hf : formatField sp a with
    | error e' =>
      rw [hf] at h; injection h with h; subst h
      unfold formatField at hf
      split at hf <;> split at hf <;> cases hf <;> decide
    | ok v =>
      rw [hf] at h
      cases hr : renderSegs r args with
      | error e' => rw [hr] at h; simp [Except.map] at h; subst h; exact renderSegs_err hr
      | ok v => rw [hr] at h; simp [Except.map] at h

theorem addrFrom_err {p u : String} {a : FArg} {e : Err} (h : addrFrom p u a = .error e) : e ≠ .wrongUriType := by
  unfold addrFrom at h
  split at h
  · rename_i e' hp; injection h with h; subst h; exact renderSegs_err hp
  · split at h
    · rename_i e' hu; injection h with h; subst h
      unfold unhexlify at hu; split at hu
      · cases hu
      · injection hu with hu; subst hu; decide
    · split at h
      · injection h with h; subst h; decide
      · split at h
        · cases h
        · injection h with h; subst h; decide

theorem rateLimitOf_err {q : Str} {e : Err} (h : rateLimitOf q = .error e) : e ≠ .wrongUriType := by
  unfold rateLimitOf at h
  split at h
  · rename_i e' hq; injection h with h; subst h; rw [parseQsl_err hq]; decide
  · split at h
    · cases h
    · rename_i v _
      cases hp : pyInt v with
      | error e' => rw [hp] at h; simp [Except.map] at h; subst h; rw [pyInt_err hp]; decide
      | ok _ => rw [hp] at h; simp [Except.map] at h

theorem interpret_err {serials : List Str} {n : Str} {segs : List Str} {q : Str} {e : Err}
    (h : interpret serials n segs q = .error e) : e ≠ .wrongUriType := by
  cases hq : parseQsl q with
  | error e1 =>
    have : interpret serials n segs q = .error e1 := by unfold interpret; simp [hq, bind, Except.bind]
    rw [this] at h; injection h with h; subst h; rw [parseQsl_err hq]; decide
  | ok fields =>
    cases hd : dongleOf serials n with
    | error e1 =>
      rw [interpret_dongle_err hq hd] at h; injection h with h; subst h; rw [dongleOf_err hd]; decide
    | ok devid =>
      cases hc : channelOfSegs segs with
      | error e1 =>
        rw [interpret_chan_err hq hd hc] at h; injection h with h; subst h
        have : e1 = .valueError := by
          rcases segs with _ | ⟨c, t⟩
          · simp [channelOfSegs] at hc
          · exact pyInt_err hc
        rw [this]; decide
      | ok ch =>
        cases ha : addrOfSegs segs with
        | error e1 =>
          rw [interpret_addr_err hq hd hc ha] at h; injection h with h; subst h
          rcases segs with _ | ⟨c, _ | ⟨r, _ | ⟨a, t⟩⟩⟩ <;> simp only [addrOfSegs] at ha <;> first | cases ha | exact addrFrom_err ha
        | ok addr =>
          cases hl : rateLimitOf q with
          | error e1 =>
            have : interpret serials n segs q = .error e1 := by
              unfold interpret
              rcases segs with _ | ⟨c, _ | ⟨r, _ | ⟨a, t⟩⟩⟩ <;> simp only [channelOfSegs, addrOfSegs] at hc ha <;>
                simp [hq, hd, hc, ha, hl, bind, Except.bind, pure, Except.pure]
            rw [this] at h; injection h with h; subst h; exact rateLimitOf_err hl
          | ok lim => rw [interpret_ok hq hd hc ha hl] at h; cases h

theorem parseUri_err_of_prefix {serials : List Str} {uri : Str} {e : Err} (hp : isPrefix radioPrefix uri = true)
    (h : parseUri serials uri = .error e) : e ≠ .wrongUriType := by
  unfold parseUri parseUriWith at h
  simp only [hp, Bool.not_true, Bool.false_eq_true, if_false] at h
  split at h
  · injection h with h; subst h; decide
  · split at h
    · rename_i e' hu
      injection h with h; subst h
      unfold urlsplitRadio at hu
      simp only at hu
      split at hu
      · injection hu with hu; subst hu; decide
      · split at hu
        · injection hu with hu; subst hu; decide
        · cases hu
    · exact interpret_err h

theorem radioPrefix_scheme : radioPrefix = schemeOf .radio := by decide

theorem connect_wrong_iff (env : Env) (d : Drv) (uri : Str) :
    connect env d uri = .error .wrongUriType ↔ claims d uri = false := by
  constructor
  · intro h
    cases hc : claims d uri with
    | false => rfl
    | true =>
      exfalso
      unfold connect at h
      simp only [hc, Bool.not_true, Bool.false_eq_true, if_false] at h
      cases d with
      | radio =>
        simp only at h
        split at h
        · rename_i e' hp
          injection h with h; subst h
          have hpre : isPrefix radioPrefix uri = true := by
            rw [radioPrefix_scheme]; rwa [claims_prefix_iff _ (by decide)] at hc
          exact parseUri_err_of_prefix hpre hp rfl
        · split at h <;> cases h
      | usb =>
        simp only at h
        split at h
        · rename_i e' hp; injection h with h; subst h; have := pyInt_err hp; cases this
        · split at h <;> cases h
      | serial =>
        simp only at h
        split at h
        · cases h
        · split at h
          · split at h <;> cases h
          · cases h
      | udp => simp only at h; split at h <;> cases h
      | prrt => simp only at h; split at h <;> cases h
      | tcp => simp only at h; split at h <;> cases h
  · intro h
    unfold connect
    simp [h]

/-! ### `get_link_driver` -/

theorem getLinkDriver_none_aux (env : Env) (uri : Str) : ∀ (cls : List Drv), (∀ d ∈ cls, claims d uri = false) →
    getLinkDriver env cls uri = .ok none
  | [], _ => rfl
  | d :: r, h => by
    have hw := (connect_wrong_iff env d uri).mpr (h d (by simp))
    simp only [getLinkDriver, hw]
    exact getLinkDriver_none_aux env uri r (fun x hx => h x (by simp [hx]))

theorem getLinkDriver_picks_aux (env : Env) (uri : Str) (d : Drv) (hc : claims d uri = true) :
    ∀ (cls : List Drv), d ∈ cls → getLinkDriver env cls uri = (connect env d uri).map (fun c => some (d, c))
  | [], h => by simp at h
  | d0 :: r, h => by
    by_cases hd : d0 = d
    · subst hd
      have hnw : connect env d0 uri ≠ .error .wrongUriType := fun e => by
        have := (connect_wrong_iff env d0 uri).mp e; rw [hc] at this; cases this
      unfold getLinkDriver
      cases hcn : connect env d0 uri with
      | ok c => simp [Except.map]
      | error e =>
        cases e <;> first | exact absurd hcn hnw | simp [Except.map]
    · have hmem : d ∈ r := by
        rcases List.mem_cons.mp h with e | e
        · exact absurd e.symm hd
        · exact e
      have hnc : claims d0 uri = false := by
        cases h0 : claims d0 uri with
        | false => rfl
        | true => exact absurd (one_driver_aux uri d0 d h0 hc) hd
      have hw := (connect_wrong_iff env d0 uri).mpr hnc
      simp only [getLinkDriver, hw]
      exact getLinkDriver_picks_aux env uri d hc r hmem

/-! ### `open_link` -/

def failedCount (evs : List Event) : Nat :=
  (evs.filter (fun e => match e with | .failedNoDriver _ => true | .failedException _ => true | _ => false)).length

theorem openLink_no_driver (env : Env) (cls : List Drv) (prev s c : Bool) (uri : Str) (h : getLinkDriver env cls uri = .ok none) :
    openLink env cls prev s c uri = { events := [.requested uri, .failedNoDriver uri], escaped := none, link := .none } := by
  unfold openLink; simp [h]

theorem openLink_driver_raises (env : Env) (cls : List Drv) (s c : Bool) (uri : Str) (e : Err)
    (h : getLinkDriver env cls uri = .error e) :
    openLink env cls false s c uri = { events := [.requested uri, .failedException uri], escaped := none, link := .none } := by
  unfold openLink; simp [h]

theorem openLink_escape (env : Env) (cls : List Drv) (prev s c : Bool) (uri : Str)
    (h : (openLink env cls prev s c uri).escaped ≠ none) : c = true ∧ (prev = true ∨ s = true) := by
  unfold openLink at h
  cases hg : getLinkDriver env cls uri with
  | error e =>
    simp only [hg] at h
    cases prev <;> cases c <;> simp at h ⊢
  | ok r =>
    cases r with
    | none => simp [hg] at h
    | some p =>
      obtain ⟨d, cn⟩ := p
      simp only [hg] at h
      cases s <;> cases c <;> simp at h ⊢

theorem openLink_failed_le_one (env : Env) (cls : List Drv) (prev s c : Bool) (uri : Str) :
    failedCount (openLink env cls prev s c uri).events ≤ 1 := by
  unfold openLink
  cases hg : getLinkDriver env cls uri with
  | error e => cases prev <;> cases c <;> simp [failedCount]
  | ok r =>
    cases r with
    | none => simp [failedCount]
    | some p =>
      obtain ⟨d, cn⟩ := p
      cases s <;> cases c <;> simp [failedCount]

end CfVerif.C20

/- Proofs/C20Parse: `parse_uri` on a URI written with `mkUri` reads back exactly the fields that were written. -/
import CfVerif.Proofs.C20Str
set_option linter.unusedSimpArgs false
namespace CfVerif.C20
open CfVerif

theorem radioPrefix_eq : radioPrefix = ['r', 'a', 'd', 'i', 'o', ':', '/', '/'] := by decide
theorem radioLit_eq : "radio://".toList = ['r', 'a', 'd', 'i', 'o', ':', '/', '/'] := by decide

theorem fieldChar_ne_slash {c : Char} (h : FieldChar c) : c ≠ '/' := by
  intro e; subst e; revert h; decide
theorem fieldChar_ne_hash {c : Char} (h : FieldChar c) : c ≠ '#' := by
  intro e; subst e; revert h; decide
theorem fieldChar_ne_qmark {c : Char} (h : FieldChar c) : c ≠ '?' := by
  intro e; subst e; revert h; decide

/-- the path fields are read back from a path written with `pathOf` -/
theorem splitOn_path_aux (tl : Str) (htl : tl = [] ∨ tl = ['/']) :
    ∀ (r : List Str) (s : Str), (∀ c ∈ s, c ≠ '/') → (∀ t ∈ r, t ≠ [] ∧ ∀ c ∈ t, c ≠ '/') → s ≠ [] →
      (splitOn '/' (s ++ (r.flatMap (fun t => '/' :: t) ++ tl))).filter (fun t => !t.isEmpty) = s :: r := by
  intro r
  induction r with
  | nil =>
    intro s hs _ hne
    rcases htl with rfl | rfl
    · simp [splitOn_noSep '/' s hs, hne]
    · have : splitOn '/' (s ++ ['/']) = [s, []] := by
        rw [splitOn_append '/' s [] hs]; rfl
      simp [this, hne]
  | cons t r ih =>
    intro s hs hr hne
    have ht := hr t (by simp)
    have := ih t ht.2 (fun u hu => hr u (by simp [hu])) ht.1
    have hs' : (!s.isEmpty) = true := by simp [hne]
    simp only [List.flatMap_cons, List.cons_append, List.append_assoc]
    rw [splitOn_append '/' s _ hs, List.filter_cons_of_pos (p := fun (t : Str) => !t.isEmpty) hs']
    rw [this]

theorem pathSegments_pathOf (segs : List Str) (trailing : Bool) (h : ∀ t ∈ segs, t ≠ [] ∧ ∀ c ∈ t, c ≠ '/') :
    pathSegments (pathOf segs trailing) = segs := by
  unfold pathSegments pathOf
  have htl : (if trailing = true then ['/'] else []) = [] ∨ (if trailing = true then ['/'] else []) = ['/'] := by
    cases trailing <;> simp
  cases segs with
  | nil =>
    cases trailing <;> simp [splitOn]
  | cons s r =>
    have hs := h s (by simp)
    have := splitOn_path_aux _ htl r s hs.2 (fun u hu => h u (by simp [hu])) hs.1
    simp only [List.flatMap_cons, List.cons_append, List.append_assoc]
    simp only [splitOn, if_true, List.filter_cons, List.isEmpty_nil, Bool.not_true]
    simpa using this

theorem mem_pathOf {segs : List Str} {trailing : Bool} {c : Char} (h : c ∈ pathOf segs trailing) :
    c = '/' ∨ ∃ s ∈ segs, c ∈ s := by
  unfold pathOf at h
  rcases List.mem_append.mp h with h | h
  · rw [List.mem_flatMap] at h
    obtain ⟨s, hs, hc⟩ := h
    rcases List.mem_cons.mp hc with rfl | hc
    · exact Or.inl rfl
    · exact Or.inr ⟨s, hs, hc⟩
  · cases trailing <;> simp at h
    exact Or.inl h

theorem pathOf_head (segs : List Str) (trailing : Bool) :
    pathOf segs trailing = [] ∨ ∃ t, pathOf segs trailing = '/' :: t := by
  unfold pathOf
  cases segs with
  | nil => cases trailing <;> simp
  | cons s r => right; exact ⟨s ++ (r.flatMap (fun s => '/' :: s) ++ if trailing = true then ['/'] else []), by simp⟩

/-- `urlparse` reads back netloc, path and query of a URI written with `mkUri` -/
theorem urlsplitRadio_mkUri (netloc : Str) (segs : List Str) (trailing : Bool) (query : Option Str)
    (hn : ∀ c ∈ netloc, NetlocChar c) (hs : ∀ s ∈ segs, s ≠ [] ∧ ∀ c ∈ s, FieldChar c)
    (hq : ∀ q, query = some q → ∀ c ∈ q, QueryChar c) :
    urlsplitRadio (mkUri netloc segs trailing query) =
      .ok { netloc := netloc, path := pathOf segs trailing, query := query.getD [], fragment := [] } := by
  -- characters of the three parts
  have hpath : ∀ c ∈ pathOf segs trailing, unsafeChar c = false ∧ c ≠ '#' ∧ c ≠ '?' := by
    intro c hc
    rcases mem_pathOf hc with rfl | ⟨s, hs', hcs⟩
    · decide
    · have := (hs s hs').2 c hcs
      exact ⟨this.2.1, fieldChar_ne_hash this, fieldChar_ne_qmark this⟩
  have hquery : ∀ c ∈ queryOf query, unsafeChar c = false ∧ c ≠ '#' := by
    intro c hc
    cases query with
    | none => simp [queryOf] at hc
    | some q =>
      rcases List.mem_cons.mp hc with rfl | hc
      · decide
      · have := hq q rfl c hc; exact ⟨this.2.1, this.2.2⟩
  have hfilter : (mkUri netloc segs trailing query).filter (fun c => !unsafeChar c) = mkUri netloc segs trailing query := by
    apply filter_eq_self
    intro c hc
    unfold mkUri at hc
    simp only [List.mem_append] at hc
    rcases hc with ((hc | hc) | hc) | hc
    · rw [radioLit_eq] at hc; revert c; decide
    · simp [(hn c hc).1.2.1]
    · simp [(hpath c hc).1]
    · simp [(hquery c hc).1]
  have hdrop : (mkUri netloc segs trailing query).drop 8 = netloc ++ (pathOf segs trailing ++ queryOf query) := by
    unfold mkUri; rw [radioLit_eq]; simp
  have hstop : (pathOf segs trailing ++ queryOf query) = [] ∨
      ∃ c t, (pathOf segs trailing ++ queryOf query) = c :: t ∧ (!netlocDelim c) = false := by
    rcases pathOf_head segs trailing with h | ⟨t, h⟩
    · rw [h]
      cases query with
      | none => left; rfl
      | some q => right; exact ⟨'?', q, rfl, by decide⟩
    · right; rw [h]; exact ⟨'/', _, rfl, by decide⟩
  have hnet := takeWhile_append_stop (p := fun c => !netlocDelim c) netloc _ (fun c hc => by simp [(hn c hc).1.2.2]) hstop
  have hlb : netloc.contains '[' = false := by
    rw [List.contains_eq_mem]; simp; intro h; exact (hn _ h).2.1 rfl
  have hrb : netloc.contains ']' = false := by
    rw [List.contains_eq_mem]; simp; intro h; exact (hn _ h).2.2 rfl
  have hfrag : splitFirst '#' (pathOf segs trailing ++ queryOf query) = (pathOf segs trailing ++ queryOf query, none) := by
    apply splitFirst_noSep
    intro c hc
    rcases List.mem_append.mp hc with hc | hc
    · exact (hpath c hc).2.1
    · exact (hquery c hc).2
  have hqs : splitFirst '?' (pathOf segs trailing ++ queryOf query) = (pathOf segs trailing, query) := by
    cases query with
    | none => simp only [queryOf, List.append_nil]; exact splitFirst_noSep _ _ (fun c hc => (hpath c hc).2.2)
    | some q => simp only [queryOf]; exact splitFirst_append _ _ _ (fun c hc => (hpath c hc).2.2)
  unfold urlsplitRadio
  simp only [hfilter, hdrop, hnet.1, hnet.2, hlb, hrb, hfrag, hqs]
  simp

theorem mkUri_ascii (netloc : Str) (segs : List Str) (trailing : Bool) (query : Option Str)
    (hn : ∀ c ∈ netloc, NetlocChar c) (hs : ∀ s ∈ segs, s ≠ [] ∧ ∀ c ∈ s, FieldChar c)
    (hq : ∀ q, query = some q → ∀ c ∈ q, QueryChar c) :
    (mkUri netloc segs trailing query).all isAscii = true := by
  rw [List.all_eq_true]
  intro c hc
  unfold mkUri at hc
  simp only [List.mem_append] at hc
  rcases hc with ((hc | hc) | hc) | hc
  · rw [radioLit_eq] at hc; revert c; decide
  · exact (hn c hc).1.1
  · rcases mem_pathOf hc with rfl | ⟨s, hs', hcs⟩
    · decide
    · exact ((hs s hs').2 c hcs).1
  · cases query with
    | none => simp [queryOf] at hc
    | some q =>
      rcases List.mem_cons.mp hc with rfl | hc
      · decide
      · exact (hq q rfl c hc).1

/-- **Structure lemma.**  `parse_uri` applied to a URI written as `radio://<netloc>/<seg>/...[/][?<query>]` interprets
exactly that netloc, those path fields and that query. -/
theorem parseUri_mkUri (serials : List Str) (netloc : Str) (segs : List Str) (trailing : Bool) (query : Option Str)
    (hn : ∀ c ∈ netloc, NetlocChar c) (hs : ∀ s ∈ segs, s ≠ [] ∧ ∀ c ∈ s, FieldChar c)
    (hq : ∀ q, query = some q → ∀ c ∈ q, QueryChar c) :
    parseUri serials (mkUri netloc segs trailing query) = interpret serials netloc segs (query.getD []) := by
  have hp : isPrefix radioPrefix (mkUri netloc segs trailing query) = true := by
    unfold mkUri; rw [radioPrefix_eq, radioLit_eq, List.append_assoc, List.append_assoc]; exact isPrefix_append _ _
  have hseg := pathSegments_pathOf segs trailing (fun t ht => ⟨(hs t ht).1, fun c hc => fieldChar_ne_slash ((hs t ht).2 c hc)⟩)
  unfold parseUri parseUriWith
  simp only [hp, mkUri_ascii netloc segs trailing query hn hs hq, urlsplitRadio_mkUri netloc segs trailing query hn hs hq, hseg]
  simp

end CfVerif.C20

/- Proofs/C20Scan: hex printing, `str.format` on the scan formats, `scan_interface` / `scan_selected` results parse back. -/
import CfVerif.Proofs.C20
set_option linter.unusedSimpArgs false
namespace CfVerif.C20
open CfVerif

/-! ### hex printing -/

def hexValueRev : Str → Nat
  | [] => 0
  | c :: r => (hexVal? c).getD 0 + 16 * hexValueRev r

theorem hexValue_reverse (l : Str) : hexValue l.reverse = hexValueRev l := by
  unfold hexValue
  rw [List.foldl_reverse]
  induction l with
  | nil => rfl
  | cons c r ih => simp only [List.foldr, hexValueRev, ih]; omega

theorem hexDigit_val (u : Bool) {d : Nat} (h : d < 16) :
    hexVal? (if d < 10 then Nat.digitChar d else Char.ofNat ((if u then 'A'.toNat else 'a'.toNat) + d - 10)) = some d := by
  have key : ∀ (u : Bool) (d : Fin 16),
      hexVal? (if d.val < 10 then Nat.digitChar d.val else Char.ofNat ((if u then 'A'.toNat else 'a'.toNat) + d.val - 10)) = some d.val := by
    decide
  exact key u ⟨d, h⟩

theorem hexDigitsRev_val (u : Bool) : ∀ (fuel n : Nat), n < fuel → hexValueRev (hexDigitsRev u fuel n) = n := by
  intro fuel
  induction fuel with
  | zero => intro n h; omega
  | succ f ih =>
    intro n h
    unfold hexDigitsRev
    have hd := hexDigit_val u (Nat.mod_lt n (by decide : 16 > 0))
    by_cases h0 : n / 16 = 0
    · simp only [h0, if_true, hexValueRev, hd, Option.getD_some]; omega
    · have : n / 16 < f := by omega
      simp only [h0, if_false, hexValueRev, hd, Option.getD_some, ih _ this]; omega

theorem hexValue_natHex (u : Bool) (n : Nat) : hexValue (natHex u n) = n := by
  unfold natHex; rw [hexValue_reverse, hexDigitsRev_val u _ _ (Nat.lt_succ_self n)]

theorem hexDigitsRev_hex (u : Bool) : ∀ (fuel n : Nat), ∀ c ∈ hexDigitsRev u fuel n, IsHex c := by
  intro fuel
  induction fuel with
  | zero => intro n c h; simp [hexDigitsRev] at h
  | succ f ih =>
    intro n c h
    unfold hexDigitsRev at h
    simp only [List.mem_cons] at h
    rcases h with rfl | h
    · unfold IsHex; rw [hexDigit_val u (Nat.mod_lt n (by decide : 16 > 0))]; rfl
    · split at h
      · simp at h
      · exact ih _ c h

theorem natHex_hex (u : Bool) (n : Nat) : ∀ c ∈ natHex u n, IsHex c := by
  intro c h; unfold natHex at h; exact hexDigitsRev_hex u _ _ c (List.mem_reverse.mp h)

theorem natHex_ne_nil (u : Bool) (n : Nat) : natHex u n ≠ [] := by
  unfold natHex hexDigitsRev; simp

theorem hexDigitsRev_length (u : Bool) : ∀ (fuel n k : Nat), n < 16 ^ (k + 1) → (hexDigitsRev u fuel n).length ≤ k + 1 := by
  intro fuel
  induction fuel with
  | zero => intro n k _; simp [hexDigitsRev]
  | succ f ih =>
    intro n k h
    unfold hexDigitsRev
    by_cases h0 : n / 16 = 0
    · simp [h0]
    · simp only [h0, if_false, List.length_cons]
      cases k with
      | zero => omega
      | succ k =>
        have : n / 16 < 16 ^ (k + 1) := by
          rw [Nat.pow_succ] at h; omega
        have := ih (n / 16) k this
        omega

theorem natHex_length (u : Bool) {n k : Nat} (h : n < 16 ^ (k + 1)) : (natHex u n).length ≤ k + 1 := by
  unfold natHex; rw [List.length_reverse]; exact hexDigitsRev_length u _ _ _ h

/-! ### `str.format` on the scan formats -/

def lits (s : String) : List Seg := s.toList.map Seg.lit

theorem renderSegs_lits (p : Str) (rest : List Seg) (args : List FArg) :
    renderSegs (p.map Seg.lit ++ rest) args = (renderSegs rest args).map (p ++ ·) := by
  induction p with
  | nil => cases h : renderSegs rest args <;> simp [h, Except.map]
  | cons c p ih =>
    simp only [List.map, List.cons_append, renderSegs, ih]
    cases h : renderSegs rest args <;> simp [h, Except.map]

def rateOfValue? (v : Nat) : Option Rate := if v = 0 then some .r250K else if v = 1 then some .r1M else if v = 2 then some .r2M else none

/-- the shape of the six scan format strings -/
def scanFmtSpec (r : Rate) (withAddr : Bool) : List Seg :=
  ['r', 'a', 'd', 'i', 'o', ':', '/', '/', '0', '/'].map Seg.lit ++ [Seg.field {}] ++ ('/' :: r.text).map Seg.lit ++
    (if withAddr then ['/'].map Seg.lit ++ [Seg.field { ty := some 'X' }] else [])

theorem scanPlain_spec : Gen.C20.scanPlain.map (fun e => (rateOfValue? e.1, parseFormat! e.2.1, e.2.2)) =
    [(some .r250K, scanFmtSpec .r250K false, ["chan"]), (some .r1M, scanFmtSpec .r1M false, ["chan"]), (some .r2M, scanFmtSpec .r2M false, ["chan"])] := by
  decide

theorem scanAddressed_spec : Gen.C20.scanAddressed.map (fun e => (rateOfValue? e.1, parseFormat! e.2.1, e.2.2)) =
    [(some .r250K, scanFmtSpec .r250K true, ["chan", "address"]), (some .r1M, scanFmtSpec .r1M true, ["chan", "address"]),
     (some .r2M, scanFmtSpec .r2M true, ["chan", "address"])] := by
  decide

theorem renderSegs_lits_only (p : Str) (args : List FArg) : renderSegs (p.map Seg.lit) args = .ok p := by
  have := renderSegs_lits p [] args
  simp only [List.append_nil] at this
  rw [this]; simp [renderSegs, Except.map]

theorem intStr_nat (c : Nat) : intStr (c : Int) = natStr c := rfl

theorem padTo_zero (d : Char) (s : Str) : padTo {} d s = s := by
  simp [padTo]
theorem padTo_zeroX (d : Char) (s : Str) : padTo { ty := some 'X' } d s = s := by
  simp [padTo]

theorem mkUri_two (n a b : Str) :
    mkUri n [a, b] false none = ['r', 'a', 'd', 'i', 'o', ':', '/', '/'] ++ (n ++ ('/' :: a ++ '/' :: b)) := by
  unfold mkUri
  rw [radioLit_eq]
  unfold pathOf queryOf
  simp only [List.flatMap_cons, List.flatMap_nil, Bool.false_eq_true, if_false, List.append_nil, List.append_assoc, List.cons_append]

theorem mkUri_three (n a b c : Str) :
    mkUri n [a, b, c] false none = ['r', 'a', 'd', 'i', 'o', ':', '/', '/'] ++ (n ++ ('/' :: a ++ '/' :: b ++ '/' :: c)) := by
  unfold mkUri
  rw [radioLit_eq]
  unfold pathOf queryOf
  simp only [List.flatMap_cons, List.flatMap_nil, Bool.false_eq_true, if_false, List.append_nil, List.append_assoc, List.cons_append]

theorem render_scan_plain (r : Rate) (c : Nat) (extra : List FArg) :
    renderSegs (scanFmtSpec r false) (.int c :: extra) = .ok (mkUri ['0'] [natStr c, r.text] false none) := by
  unfold scanFmtSpec
  simp only [Bool.false_eq_true, if_false, List.append_nil, List.append_assoc]
  rw [renderSegs_lits]
  simp only [List.singleton_append, renderSegs, formatField]
  rw [renderSegs_lits_only]
  simp only [intStr_nat, padTo_zero, Except.map, mkUri_two]
  simp

theorem natAbs_cast (a : Nat) : (a : Int).natAbs = a := Int.natAbs_natCast a

theorem render_scan_addr (r : Rate) (c : Nat) (a : Nat) :
    renderSegs (scanFmtSpec r true) [.int c, .int a] = .ok (mkUri ['0'] [natStr c, r.text, natHex true a] false none) := by
  unfold scanFmtSpec
  simp only [if_true, List.append_assoc]
  rw [renderSegs_lits]
  simp only [List.singleton_append, renderSegs, formatField]
  rw [renderSegs_lits, renderSegs_lits]
  have hneg : ¬ ((a : Int) < 0) := by omega
  simp only [renderSegs, formatField, intStr_nat, padTo_zero, padTo_zeroX, hneg, if_false, natAbs_cast, Except.map, mkUri_three]
  simp

/-! ### `scan_interface` -/

theorem scanPad_spec : parseFormat! Gen.C20.scanAddrPadFmt = [.field { fill := '0', align := some '>', width := 10, ty := some 'X' }] := by decide
theorem scanUnpack_spec : parseFmt! Gen.C20.scanAddrUnpackFmt = [.B, .B, .B, .B, .B] := by decide

/-- the address programmed into the radio for a scan: the five bytes of the number, most significant first -/
theorem scanSetAddress_spec (a : Nat) (h : a < 2 ^ 40) : scanSetAddress a = .ok (beBytes5 a) := by
  unfold scanSetAddress addrFrom
  have hneg : ¬ ((a : Int) < 0) := by omega
  have hlen10 : (natHex true a).length ≤ 10 := natHex_length true (k := 9) (by omega)
  have hpad : pyFormat Gen.C20.scanAddrPadFmt [.int a] = .ok (List.replicate (10 - (natHex true a).length) '0' ++ natHex true a) := by
    simp [pyFormat, scanPad_spec, renderSegs, formatField, padTo, Except.map, hneg, natAbs_cast]
  rw [hpad]
  have hlen : (List.replicate (10 - (natHex true a).length) '0' ++ natHex true a).length = 10 := by simp; omega
  have hhex : ∀ c ∈ List.replicate (10 - (natHex true a).length) '0' ++ natHex true a, IsHex c := by
    intro c hc
    rcases List.mem_append.mp hc with hc | hc
    · rw [(List.mem_replicate.mp hc).2]; exact isHex_zero
    · exact natHex_hex true a c hc
  have := addr_of_ten Gen.C20.scanAddrUnpackFmt scanUnpack_spec _ hlen hhex
  rw [hexValue_zeros, hexValue_natHex] at this
  exact this

theorem mapExcept_ok {α β} (f : α → Except Err β) (g : α → β) : ∀ (l : List α), (∀ a ∈ l, f a = .ok (g a)) → mapExcept f l = .ok (l.map g)
  | [], _ => rfl
  | a :: r, h => by
    simp [mapExcept, h a (by simp), mapExcept_ok f g r (fun x hx => h x (by simp [hx]))]

theorem defaultAddrInt_eq : Gen.C20.defaultAddrInt = 0xE7E7E7E7E7 := by decide

theorem rateOfValue?_some {v : Nat} {r : Rate} (h : rateOfValue? v = some r) : v = r.value := by
  unfold rateOfValue? at h
  split at h
  · injection h with h; subst h; assumption
  · split at h
    · injection h with h; subst h; assumption
    · split at h
      · injection h with h; subst h; assumption
      · cases h

theorem scanPass_plain (e : Nat × String × List String) (r : Rate) (hf : parseFormat! e.2.1 = scanFmtSpec r false)
    (hargs : e.2.2 = ["chan"]) (addr : Int) (chans : List Nat) :
    scanPass e addr (chans.map Int.ofNat) = .ok (chans.map (fun c => mkUri ['0'] [natStr c, r.text] false none)) := by
  unfold scanPass
  have := mapExcept_ok (fun c => pyFormat e.2.1 (e.2.2.map (scanArg c addr)))
    (fun (c : Int) => mkUri ['0'] [natStr c.toNat, r.text] false none) (chans.map Int.ofNat) (by
      intro c hc
      obtain ⟨n, _, rfl⟩ := List.mem_map.mp hc
      simp only [pyFormat, hf, hargs, List.map, scanArg, if_true]
      exact render_scan_plain r n [])
  rw [this]
  simp [List.map_map, Function.comp_def]

theorem scanPass_addr (e : Nat × String × List String) (r : Rate) (hf : parseFormat! e.2.1 = scanFmtSpec r true)
    (hargs : e.2.2 = ["chan", "address"]) (a : Nat) (chans : List Nat) :
    scanPass e a (chans.map Int.ofNat) = .ok (chans.map (fun c => mkUri ['0'] [natStr c, r.text, natHex true a] false none)) := by
  unfold scanPass
  have := mapExcept_ok (fun c => pyFormat e.2.1 (e.2.2.map (scanArg c a)))
    (fun (c : Int) => mkUri ['0'] [natStr c.toNat, r.text, natHex true a] false none) (chans.map Int.ofNat) (by
      intro c hc
      obtain ⟨n, _, rfl⟩ := List.mem_map.mp hc
      have h2 : ("address" = "chan") = False := by decide
      simp only [pyFormat, hf, hargs, List.map, scanArg, if_true, h2, if_false]
      exact render_scan_addr r n a)
  rw [this]
  simp [List.map_map, Function.comp_def]

theorem scan_interface_aux (address : Option Nat) (ha : ∀ a, address = some a → a < 2 ^ 40) (f0 f1 f2 : List Nat) :
    scanInterface (address.map Int.ofNat) [f0.map Int.ofNat, f1.map Int.ofNat, f2.map Int.ofNat] =
      .ok [(Rate.r250K.value, f0.map (scanUri address .r250K)), (Rate.r1M.value, f1.map (scanUri address .r1M)),
           (Rate.r2M.value, f2.map (scanUri address .r2M))] := by
  have hplain : ∀ addr : Int, scanPasses addr Gen.C20.scanPlain [f0.map Int.ofNat, f1.map Int.ofNat, f2.map Int.ofNat] =
      .ok [(Rate.r250K.value, f0.map (fun c => mkUri ['0'] [natStr c, Rate.r250K.text] false none)),
           (Rate.r1M.value, f1.map (fun c => mkUri ['0'] [natStr c, Rate.r1M.text] false none)),
           (Rate.r2M.value, f2.map (fun c => mkUri ['0'] [natStr c, Rate.r2M.text] false none))] := by
    intro addr
    obtain ⟨e0, e1, e2, hg⟩ : ∃ e0 e1 e2, Gen.C20.scanPlain = [e0, e1, e2] := ⟨_, _, _, rfl⟩
    have h := scanPlain_spec
    rw [hg] at h ⊢
    · 
      simp only [List.map, List.cons.injEq, Prod.mk.injEq, and_true] at h
      obtain ⟨⟨h0r, h0f, h0a⟩, ⟨h1r, h1f, h1a⟩, ⟨h2r, h2f, h2a⟩⟩ := h
      simp [scanPasses, scanPass_plain e0 _ h0f h0a, scanPass_plain e1 _ h1f h1a, scanPass_plain e2 _ h2f h2a,
        rateOfValue?_some h0r, rateOfValue?_some h1r, rateOfValue?_some h2r]
  have haddr : ∀ a : Nat, scanPasses a Gen.C20.scanAddressed [f0.map Int.ofNat, f1.map Int.ofNat, f2.map Int.ofNat] =
      .ok [(Rate.r250K.value, f0.map (fun c => mkUri ['0'] [natStr c, Rate.r250K.text, natHex true a] false none)),
           (Rate.r1M.value, f1.map (fun c => mkUri ['0'] [natStr c, Rate.r1M.text, natHex true a] false none)),
           (Rate.r2M.value, f2.map (fun c => mkUri ['0'] [natStr c, Rate.r2M.text, natHex true a] false none))] := by
    intro a
    obtain ⟨e0, e1, e2, hg⟩ : ∃ e0 e1 e2, Gen.C20.scanAddressed = [e0, e1, e2] := ⟨_, _, _, rfl⟩
    have h := scanAddressed_spec
    rw [hg] at h ⊢
    · 
      simp only [List.map, List.cons.injEq, Prod.mk.injEq, and_true] at h
      obtain ⟨⟨h0r, h0f, h0a⟩, ⟨h1r, h1f, h1a⟩, ⟨h2r, h2f, h2a⟩⟩ := h
      simp [scanPasses, scanPass_addr e0 _ h0f h0a, scanPass_addr e1 _ h1f h1a, scanPass_addr e2 _ h2f h2a,
        rateOfValue?_some h0r, rateOfValue?_some h1r, rateOfValue?_some h2r]
  cases address with
  | none =>
    simp only [scanInterface, Option.map_none, if_true, Option.getD_none, hplain]
    simp [scanUri, scanPlainAddr]
  | some a =>
    have hset := scanSetAddress_spec a (ha a rfl)
    have hiff : ((a : Int) = (Gen.C20.defaultAddrInt : Int)) ↔ a = 0xE7E7E7E7E7 := by rw [defaultAddrInt_eq]; omega
    simp only [scanInterface, Option.map_some, Option.getD_some, Int.ofNat_eq_natCast, hset, Except.map, hiff]
    by_cases hdef : a = 0xE7E7E7E7E7
    · simp only [hdef, decide_true, if_true, hplain]
      simp [scanUri, scanPlainAddr]
    · simp only [hdef, decide_false, Bool.false_eq_true, if_false, haddr]
      simp [scanUri, scanPlainAddr, hdef]

theorem natStr_zero : natStr 0 = ['0'] := by decide

theorem scan_parse_back_aux (serials : List Str) (address : Option Nat) (ha : ∀ a, address = some a → a < 2 ^ 40)
    (r : Rate) (c : Nat) (hc : c ≤ 125) :
    parseUri serials (scanUri address r c) = .ok ⟨0, c, r.value, scannedAddr address, none⟩ := by
  have hd : Dongle serials ['0'] 0 := natStr_zero ▸ Dongle.index 0 (by decide)
  have hplainCase : parseUri serials (mkUri ['0'] [natStr c, r.text] false none) =
      .ok ⟨0, c, r.value, [0xE7, 0xE7, 0xE7, 0xE7, 0xE7], none⟩ := by
    have := (defaults_aux serials ['0'] 0 hd c hc r none (by simp) false).2.2
    simpa [limitQuery] using this
  unfold scanUri
  by_cases hp : scanPlainAddr address = true
  · simp only [hp, if_true, List.append_nil]
    rw [hplainCase]
    cases address with
    | none => rfl
    | some a =>
      simp only [scanPlainAddr, decide_eq_true_eq] at hp
      subst hp; rfl
  · cases address with
    | none => simp [scanPlainAddr] at hp
    | some a =>
      have ha' := ha a rfl
      simp only [hp, if_false, Option.getD_some]
      have := parse_print_aux serials ['0'] 0 hd c hc r (natHex true a)
        (by have := natHex_ne_nil true a; cases h : natHex true a with
          | nil => exact absurd h this
          | cons _ _ => simp)
        (natHex_length true (k := 9) (by omega)) (natHex_hex true a) none (by simp)
      simpa [printUri, limitQuery, hexValue_natHex, scannedAddr] using this

/-! ### `scan_selected` -/

theorem dropPrefix_append (p s : Str) : dropPrefix? p (p ++ s) = some s := by
  induction p with
  | nil => rfl
  | cons c p ih => simp [dropPrefix?, ih]

theorem isDigit_slash : isDigit '/' = false := by decide

theorem scanSelGroups_spec (d c : Nat) (r : Rate) :
    scanSelGroups (mkUri (natStr d) [natStr c, r.text] false none) = .ok (some (natStr c), some r.text) := by
  rw [mkUri_two]
  have hpre : "radio://".toList = ['r', 'a', 'd', 'i', 'o', ':', '/', '/'] := radioLit_eq
  unfold scanSelGroups
  rw [hpre, dropPrefix_append]
  simp only [List.cons_append]
  have h1 := takeWhile_append_stop (p := isDigit) (natStr d) ('/' :: (natStr c ++ '/' :: r.text)) (natStr_digits d)
    (Or.inr ⟨'/', _, rfl, isDigit_slash⟩)
  have h2 := takeWhile_append_stop (p := isDigit) (natStr c) ('/' :: r.text) (natStr_digits c)
    (Or.inr ⟨'/', _, rfl, isDigit_slash⟩)
  have hne1 : (natStr d).isEmpty = false := by
    cases h : natStr d with
    | nil => exact absurd h (natStr_ne_nil d)
    | cons _ _ => rfl
  have hne2 : (natStr c).isEmpty = false := by
    cases h : natStr c with
    | nil => exact absurd h (natStr_ne_nil c)
    | cons _ _ => rfl
  simp only [h1.1, h1.2, hne1, Bool.false_eq_true, if_false, List.cons_append, h2.1, h2.2, hne2, ne_eq, not_true_eq_false, decide_false, Bool.or_self]
  have hg6 : (if isPrefix "/250K".toList ('/' :: r.text) = true then some "250K".toList
      else if isPrefix "/1M".toList ('/' :: r.text) = true then some "1M".toList
      else if isPrefix "/2M".toList ('/' :: r.text) = true then some "2M".toList else none) = some r.text := by
    cases r <;> decide
  rw [hg6]

theorem scanSel_spec : Gen.C20.scanSelRegex = "^radio://([0-9]+)((/([0-9]+))(/(250K|1M|2M))?)?" ∧
    Gen.C20.scanSelRateTable = [("uri_data.group(6)", "250K", 0), ("uri_data.group(6)", "1M", 1), ("uri_data.group(6)", "2M", 2)] ∧
    Gen.C20.scanSelRateDefault = 2 ∧ Gen.C20.scanSelNameTable = [(2, "2M"), (0, "250K"), (1, "1M")] ∧
    parseFormat! Gen.C20.scanSelFmt = ['r', 'a', 'd', 'i', 'o', ':', '/', '/', '0', '/'].map Seg.lit ++ [Seg.field {}, Seg.lit '/', Seg.field {}] := by
  decide

theorem scanSelEntry_spec (d c : Nat) (hc : c ≤ 125) (r : Rate) :
    scanSelEntry (mkUri (natStr d) [natStr c, r.text] false none) = .ok ((c : Int), r.value) := by
  unfold scanSelEntry
  rw [scanSelGroups_spec]
  simp only [pyInt_natStr (n := c) (k := 2) (by omega) (by decide), scanSel_spec.2.1, scanSel_spec.2.2.1]
  have hrate : List.foldl (fun acc (e : String × String × Nat) => if some r.text = some e.2.1.toList then e.2.2 else acc) 2
      [("uri_data.group(6)", "250K", 0), ("uri_data.group(6)", "1M", 1), ("uri_data.group(6)", "2M", 2)] = r.value := by
    cases r <;> decide
  rw [hrate]

theorem scanSelReport_spec (c : Nat) (r : Rate) :
    scanSelReport ((c : Int), r.value) = .ok (mkUri ['0'] [natStr c, r.text] false none) := by
  unfold scanSelReport pyFormat
  rw [scanSel_spec.2.2.2.2, scanSel_spec.2.2.2.1, renderSegs_lits, mkUri_two]
  have hname : (List.foldl (fun acc (t : Nat × String) => if r.value = t.1 then t.2 else acc) Gen.C20.scanSelNameDefault
      [(2, "2M"), (0, "250K"), (1, "1M")]).toList = r.text := by cases r <;> decide
  simp only [hname, renderSegs, formatField, intStr_nat, padTo_zero, Except.map]
  simp

end CfVerif.C20

/- Proofs/C20Str: lemmas about the Python string helpers of Model/C20 (split, strip, decimal and hex printing/parsing). -/
import CfVerif.Spec.C20
set_option linter.unusedSimpArgs false
namespace CfVerif.C20
open CfVerif

/-! ### characters -/

theorem isDigit_iff {c : Char} : isDigit c = true ↔ 48 ≤ c.toNat ∧ c.toNat ≤ 57 := by
  simp only [isDigit, Bool.and_eq_true, decide_eq_true_eq, Char.le_def, UInt32.le_iff_toNat_le]
  exact Iff.rfl

theorem char_ne_of_toNat {c d : Char} (h : c.toNat ≠ d.toNat) : c ≠ d := fun e => h (e ▸ rfl)

theorem digitChar_toNat {d : Nat} (h : d < 10) : (Nat.digitChar d).toNat = 48 + d := by
  have : ∀ d : Fin 10, (Nat.digitChar d.val).toNat = 48 + d.val := by decide
  exact this ⟨d, h⟩

theorem isDigit_digitChar {d : Nat} (h : d < 10) : isDigit (Nat.digitChar d) = true := by
  rw [isDigit_iff, digitChar_toNat h]; omega

theorem digitVal_digitChar {d : Nat} (h : d < 10) : digitVal (Nat.digitChar d) = d := by
  simp only [digitVal, digitChar_toNat h]; decide +revert

/-! ### split -/

theorem splitOn_noSep (sep : Char) (s : Str) (h : ∀ c ∈ s, c ≠ sep) : splitOn sep s = [s] := by
  induction s with
  | nil => rfl
  | cons c s ih =>
    have hc : c ≠ sep := h c (by simp)
    have := ih (fun d hd => h d (by simp [hd]))
    simp [splitOn, hc, this]

theorem splitOn_append (sep : Char) (a b : Str) (h : ∀ c ∈ a, c ≠ sep) :
    splitOn sep (a ++ sep :: b) = a :: splitOn sep b := by
  induction a with
  | nil => simp [splitOn]
  | cons c s ih =>
    have hc : c ≠ sep := h c (by simp)
    have := ih (fun d hd => h d (by simp [hd]))
    simp [splitOn, hc, this]

theorem splitFirst_noSep (sep : Char) (s : Str) (h : ∀ c ∈ s, c ≠ sep) : splitFirst sep s = (s, none) := by
  induction s with
  | nil => rfl
  | cons c s ih =>
    have hc : c ≠ sep := h c (by simp)
    have := ih (fun d hd => h d (by simp [hd]))
    simp [splitFirst, hc, this]

theorem splitFirst_append (sep : Char) (a b : Str) (h : ∀ c ∈ a, c ≠ sep) :
    splitFirst sep (a ++ sep :: b) = (a, some b) := by
  induction a with
  | nil => simp [splitFirst]
  | cons c s ih =>
    have hc : c ≠ sep := h c (by simp)
    have := ih (fun d hd => h d (by simp [hd]))
    simp [splitFirst, hc, this]

theorem takeWhile_append_stop {p : Char → Bool} (a b : Str) (ha : ∀ c ∈ a, p c = true)
    (hb : b = [] ∨ ∃ c t, b = c :: t ∧ p c = false) : (a ++ b).takeWhile p = a ∧ (a ++ b).dropWhile p = b := by
  induction a with
  | nil =>
    rcases hb with rfl | ⟨c, t, rfl, hc⟩
    · simp
    · simp [List.takeWhile, List.dropWhile, hc]
  | cons c s ih =>
    have hc : p c = true := ha c (by simp)
    have := ih (fun d hd => ha d (by simp [hd]))
    simp [List.takeWhile, List.dropWhile, hc, this]

theorem dropWhile_eq_self {p : Char → Bool} (s : Str) (h : s = [] ∨ ∃ c t, s = c :: t ∧ p c = false) : s.dropWhile p = s := by
  rcases h with rfl | ⟨c, t, rfl, hc⟩
  · rfl
  · simp [List.dropWhile, hc]

theorem filter_eq_self {p : Char → Bool} (s : Str) (h : ∀ c ∈ s, p c = true) : s.filter p = s := by
  rw [List.filter_eq_self]; exact h

theorem isPrefix_append (p s : Str) : isPrefix p (p ++ s) = true := by
  induction p with
  | nil => simp [isPrefix]
  | cons c p ih => simp [isPrefix, ih]

/-! ### decimal -/

/-- value of a least-significant-first digit string -/
def decValRev : Str → Nat
  | [] => 0
  | c :: r => digitVal c + 10 * decValRev r

theorem decVal_reverse (l : Str) : decVal l.reverse = decValRev l := by
  unfold decVal
  rw [List.foldl_reverse]
  induction l with
  | nil => rfl
  | cons c r ih => simp only [List.foldr, decValRev, ih]; omega

theorem decDigitsRev_val : ∀ (fuel n : Nat), n < fuel → decValRev (decDigitsRev fuel n) = n := by
  intro fuel
  induction fuel with
  | zero => intro n h; omega
  | succ f ih =>
    intro n h
    unfold decDigitsRev
    by_cases h0 : n / 10 = 0
    · simp only [h0, if_true, decValRev, digitVal_digitChar (Nat.mod_lt n (by decide))]; omega
    · have : n / 10 < f := by omega
      simp only [h0, if_false, decValRev, digitVal_digitChar (Nat.mod_lt n (by decide)), ih _ this]; omega

theorem decVal_natStr (n : Nat) : decVal (natStr n) = n := by
  unfold natStr; rw [decVal_reverse, decDigitsRev_val _ _ (Nat.lt_succ_self n)]

theorem decDigitsRev_digits : ∀ (fuel n : Nat), ∀ c ∈ decDigitsRev fuel n, isDigit c = true := by
  intro fuel
  induction fuel with
  | zero => intro n c h; simp [decDigitsRev] at h
  | succ f ih =>
    intro n c h
    unfold decDigitsRev at h
    simp only [List.mem_cons] at h
    rcases h with rfl | h
    · exact isDigit_digitChar (Nat.mod_lt n (by decide))
    · split at h
      · simp at h
      · exact ih _ c h

theorem natStr_digits (n : Nat) : ∀ c ∈ natStr n, isDigit c = true := by
  intro c h; unfold natStr at h; exact decDigitsRev_digits _ _ c (List.mem_reverse.mp h)

theorem natStr_ne_nil (n : Nat) : natStr n ≠ [] := by
  unfold natStr decDigitsRev; simp

theorem decDigitsRev_length : ∀ (fuel n k : Nat), n < 10 ^ (k + 1) → (decDigitsRev fuel n).length ≤ k + 1 := by
  intro fuel
  induction fuel with
  | zero => intro n k _; simp [decDigitsRev]
  | succ f ih =>
    intro n k h
    unfold decDigitsRev
    by_cases h0 : n / 10 = 0
    · simp [h0]
    · simp only [h0, if_false, List.length_cons]
      cases k with
      | zero => omega
      | succ k =>
        have : n / 10 < 10 ^ (k + 1) := by
          rw [Nat.pow_succ] at h; omega
        have := ih (n / 10) k this
        omega

theorem natStr_length {n k : Nat} (h : n < 10 ^ (k + 1)) : (natStr n).length ≤ k + 1 := by
  unfold natStr; rw [List.length_reverse]; exact decDigitsRev_length _ _ _ h

/-! ### `int()` on a string of digits -/

theorem isDigit_not_space {c : Char} (h : isDigit c = true) : pySpace c = false := by
  rw [isDigit_iff] at h
  have h1 : c ≠ ' ' := char_ne_of_toNat (by simp; omega)
  simp [pySpace, h1]; omega

theorem stripSpace_eq_self (s : Str) (h : ∀ c ∈ s, pySpace c = false) : stripSpace s = s := by
  have h1 : s.dropWhile pySpace = s := by
    cases s with
    | nil => rfl
    | cons c t => simp [List.dropWhile, h c (by simp)]
  have h2 : s.reverse.dropWhile pySpace = s.reverse := by
    cases hs : s.reverse with
    | nil => rfl
    | cons c t =>
      have : c ∈ s := by rw [← List.mem_reverse, hs]; simp
      simp [List.dropWhile, h c this]
  simp [stripSpace, h1, h2]

theorem splitSign_of_digit (c : Char) (r : Str) (h : isDigit c = true) : splitSign (c :: r) = (false, c :: r) := by
  rw [isDigit_iff] at h
  have h1 : c ≠ '+' := char_ne_of_toNat (by simp; omega)
  have h2 : c ≠ '-' := char_ne_of_toNat (by simp; omega)
  unfold splitSign
  split
  · rename_i heq; simp at heq; exact absurd heq.1 h1
  · rename_i heq; simp at heq; exact absurd heq.1 h2
  · rfl

theorem isDigit_ne_underscore {c : Char} (h : isDigit c = true) : c ≠ '_' := by
  rw [isDigit_iff] at h
  exact char_ne_of_toNat (by simp; omega)

theorem scanDigits_digits (s : Str) (h : ∀ c ∈ s, isDigit c = true) :
    scanDigits decDigit? true s = some (s.map digitVal) := by
  induction s with
  | nil => rfl
  | cons c s ih =>
    have hc := h c (by simp)
    have := ih (fun d hd => h d (by simp [hd]))
    simp [scanDigits, isDigit_ne_underscore hc, decDigit?, hc, this]

theorem scanDigits_digits_ne (c : Char) (s : Str) (h : ∀ d ∈ c :: s, isDigit d = true) :
    scanDigits decDigit? false (c :: s) = some ((c :: s).map digitVal) := by
  have hc := h c (by simp)
  have := scanDigits_digits s (fun d hd => h d (by simp [hd]))
  simp [scanDigits, isDigit_ne_underscore hc, decDigit?, hc, this]

theorem digitsVal_map (s : Str) : digitsVal 10 (s.map digitVal) = decVal s := by
  simp [digitsVal, decVal, List.foldl_map]

/-- `int(s)` of a non-empty string of at most 4300 ASCII digits is its decimal value -/
theorem pyInt_digits (s : Str) (hne : s ≠ []) (h : ∀ c ∈ s, isDigit c = true) (hlen : s.length ≤ maxStrDigits) :
    pyInt s = .ok (decVal s : Nat) := by
  cases s with
  | nil => exact absurd rfl hne
  | cons c r =>
    have hs : stripSpace (c :: r) = c :: r := stripSpace_eq_self _ (fun d hd => isDigit_not_space (h d hd))
    have hlen' : ¬ (r.length + 1 > maxStrDigits) := by simpa using hlen
    simp only [pyInt, hs, splitSign_of_digit c r (h c (by simp)), scanDigits_digits_ne c r h, List.length_map,
      List.length_cons, hlen', if_false, digitsVal_map]
    simp

theorem pyInt_natStr {n k : Nat} (h : n < 10 ^ (k + 1)) (hk : k + 1 ≤ maxStrDigits) : pyInt (natStr n) = .ok (n : Int) := by
  have := pyInt_digits (natStr n) (natStr_ne_nil n) (natStr_digits n) (Nat.le_trans (natStr_length h) hk)
  rwa [decVal_natStr] at this

/-! ### hex -/

theorem hexVal?_lt {c : Char} {v : Nat} (h : hexVal? c = some v) : v < 16 := by
  unfold hexVal? at h
  split at h
  · rename_i hc
    simp only [Char.le_def, UInt32.le_iff_toNat_le] at hc
    injection h with h; subst h
    have : c.toNat = c.val.toNat := rfl
    have h0 : ('0' : Char).val.toNat = 48 := by decide
    have h9 : ('9' : Char).val.toNat = 57 := by decide
    have : ('0' : Char).toNat = 48 := by decide
    omega
  · split at h
    · rename_i _ hc
      simp only [Char.le_def, UInt32.le_iff_toNat_le] at hc
      injection h with h; subst h
      have : c.toNat = c.val.toNat := rfl
      have h0 : ('a' : Char).val.toNat = 97 := by decide
      have h9 : ('f' : Char).val.toNat = 102 := by decide
      have : ('a' : Char).toNat = 97 := by decide
      omega
    · split at h
      · rename_i _ _ hc
        simp only [Char.le_def, UInt32.le_iff_toNat_le] at hc
        injection h with h; subst h
        have : c.toNat = c.val.toNat := rfl
        have h0 : ('A' : Char).val.toNat = 65 := by decide
        have h9 : ('F' : Char).val.toNat = 70 := by decide
        have : ('A' : Char).toNat = 65 := by decide
        omega
      · cases h

/-- big-endian bytes denoted by an even-length hex string -/
def hexPairs : Str → List Nat
  | a :: b :: r => (16 * (hexVal? a).getD 0 + (hexVal? b).getD 0) :: hexPairs r
  | _ => []

theorem ofHexChars_even : ∀ (n : Nat) (s : Str), s.length = 2 * n → (∀ c ∈ s, IsHex c) →
    ofHexChars s = some ((hexPairs s).map UInt8.ofNat) := by
  intro n
  induction n with
  | zero => intro s h _; cases s with
    | nil => rfl
    | cons _ _ => simp at h
  | succ n ih =>
    intro s h hh
    match s, h with
    | a :: b :: r, h =>
      have ha : IsHex a := hh a (by simp)
      have hb : IsHex b := hh b (by simp)
      have hr := ih r (by simp at h; omega) (fun c hc => hh c (by simp [hc]))
      unfold IsHex at ha hb
      obtain ⟨x, hx⟩ := Option.isSome_iff_exists.mp ha
      obtain ⟨y, hy⟩ := Option.isSome_iff_exists.mp hb
      simp [ofHexChars, hexPairs, hx, hy, hr]

theorem ofHexChars_odd : ∀ (n : Nat) (s : Str), s.length = 2 * n + 1 → ofHexChars s = none := by
  intro n
  induction n with
  | zero => intro s h; match s, h with
    | [_], _ => rfl
  | succ n ih =>
    intro s h
    match s, h with
    | a :: b :: r, h =>
      have hr := ih r (by simp at h; omega)
      simp only [ofHexChars, hr]
      cases hexVal? a <;> cases hexVal? b <;> rfl

theorem hexPairs_length : ∀ (n : Nat) (s : Str), s.length = 2 * n → (hexPairs s).length = n := by
  intro n
  induction n with
  | zero => intro s h; cases s with
    | nil => rfl
    | cons _ _ => simp at h
  | succ n ih =>
    intro s h
    match s, h with
    | a :: b :: r, h => simp [hexPairs, ih r (by simp at h; omega)]

theorem hexValue_zeros (k : Nat) (s : Str) : hexValue (List.replicate k '0' ++ s) = hexValue s := by
  unfold hexValue
  rw [List.foldl_append]
  congr 1
  induction k with
  | zero => rfl
  | succ k ih => simp only [List.replicate_succ, List.foldl_cons]; rw [show (16 * 0 + (hexVal? '0').getD 0) = 0 by decide]; exact ih

/-! ### addresses -/

theorem list_len10 {α} (l : List α) (h : l.length = 10) : ∃ a b c d e f g i j k, l = [a, b, c, d, e, f, g, i, j, k] := by
  match l, h with
  | [a, b, c, d, e, f, g, i, j, k], _ => exact ⟨a, b, c, d, e, f, g, i, j, k, rfl⟩

theorem hexPairs_ten (s : Str) (h : s.length = 10) (hh : ∀ c ∈ s, IsHex c) : hexPairs s = beBytes5 (hexValue s) := by
  obtain ⟨a, b, c, d, e, f, g, i, j, k, rfl⟩ := list_len10 s h
  have hv : ∀ x ∈ [a, b, c, d, e, f, g, i, j, k], (hexVal? x).getD 0 < 16 := by
    intro x hx
    have := hh x hx
    unfold IsHex at this
    obtain ⟨v, hv⟩ := Option.isSome_iff_exists.mp this
    rw [hv]; exact hexVal?_lt hv
  have ha := hv a (by simp); have hb := hv b (by simp); have hc := hv c (by simp); have hd := hv d (by simp)
  have he := hv e (by simp); have hf := hv f (by simp); have hg := hv g (by simp); have hi := hv i (by simp)
  have hj := hv j (by simp); have hk := hv k (by simp)
  simp only [hexPairs, hexValue, beBytes5, List.foldl_cons, List.foldl_nil]
  generalize (hexVal? a).getD 0 = A at *
  generalize (hexVal? b).getD 0 = B at *
  generalize (hexVal? c).getD 0 = C at *
  generalize (hexVal? d).getD 0 = D at *
  generalize (hexVal? e).getD 0 = E at *
  generalize (hexVal? f).getD 0 = F at *
  generalize (hexVal? g).getD 0 = G at *
  generalize (hexVal? i).getD 0 = I at *
  generalize (hexVal? j).getD 0 = J at *
  generalize (hexVal? k).getD 0 = K at *
  simp only [List.cons.injEq, and_true]
  refine ⟨?_, ?_, ?_, ?_, ?_⟩ <;> omega

theorem addrPad_spec : parseFormat! Gen.C20.addrPadFmt = [.field {fill := '0', align := some '>', width := 10, ty := none}] := by decide

theorem addrUnpack_spec : parseFmt! Gen.C20.addrUnpackFmt = [.B, .B, .B, .B, .B] := by decide

theorem unpack5 (b0 b1 b2 b3 b4 : UInt8) : unpack [.B, .B, .B, .B, .B] [b0, b1, b2, b3, b4] =
    .ok [.int b0.toNat, .int b1.toNat, .int b2.toNat, .int b3.toNat, .int b4.toNat] := by
  simp [unpack, Code.size, Code.takesVal, unpackOne, leVal, bind, Except.bind, pure, Except.pure]

theorem isHex_zero : IsHex '0' := by decide

theorem pad_str (A : Str) : pyFormat Gen.C20.addrPadFmt [.str A] = .ok (List.replicate (10 - A.length) '0' ++ A) := by
  simp [pyFormat, addrPad_spec, renderSegs, formatField, padTo, Except.map]

theorem ofNat_toNat_of_lt {p : Nat} (h : p < 256) : (UInt8.ofNat p).toNat = p := by
  simp [UInt8.toNat_ofNat']; omega

theorem beBytes5_lt (n : Nat) : ∀ p ∈ beBytes5 n, p < 256 := by
  intro p hp
  simp only [beBytes5, List.mem_cons, List.mem_nil_iff, or_false] at hp
  rcases hp with rfl | rfl | rfl | rfl | rfl <;> omega

/-- hex string of exactly ten digits: unhexlify + unpack give its five bytes, most significant first -/
theorem addr_of_ten (fmt : String) (hf : parseFmt! fmt = [.B, .B, .B, .B, .B]) (s : Str) (h : s.length = 10) (hh : ∀ c ∈ s, IsHex c) :
    (match unhexlify s with
    | .error e => .error e
    | .ok bytes =>
      match unpack (parseFmt! fmt) bytes with
      | .error _ => .error .structError
      | .ok vals => match valsToNats vals with
        | some l => .ok l
        | none => .error .structError) = (.ok (beBytes5 (hexValue s)) : Except Err (List Nat)) := by
  have h1 := ofHexChars_even 5 s h hh
  have h2 := hexPairs_ten s h hh
  have hlt := beBytes5_lt (hexValue s)
  rw [h2] at h1
  simp only [unhexlify, h1, hf]
  simp only [beBytes5] at hlt ⊢
  simp only [List.map, unpack5, valsToNats, Option.map]
  simp only [List.mem_cons, List.mem_nil_iff, or_false] at hlt
  have e0 := ofNat_toNat_of_lt (hlt _ (Or.inl rfl))
  have e1 := ofNat_toNat_of_lt (hlt _ (Or.inr (Or.inl rfl)))
  have e2 := ofNat_toNat_of_lt (hlt _ (Or.inr (Or.inr (Or.inl rfl))))
  have e3 := ofNat_toNat_of_lt (hlt _ (Or.inr (Or.inr (Or.inr (Or.inl rfl)))))
  have e4 := ofNat_toNat_of_lt (hlt _ (Or.inr (Or.inr (Or.inr (Or.inr rfl)))))
  simp [e0, e1, e2, e3, e4]
  omega

/-- a shortened address is zero-padded on the left; the bytes come out most significant first -/
theorem addrOf_hex (A : Str) (h1 : 1 ≤ A.length) (h10 : A.length ≤ 10) (hh : ∀ c ∈ A, IsHex c) :
    addrOf A = .ok (beBytes5 (hexValue A)) := by
  unfold addrOf addrFrom
  rw [pad_str]
  have hlen : (List.replicate (10 - A.length) '0' ++ A).length = 10 := by simp; omega
  have hhex : ∀ c ∈ List.replicate (10 - A.length) '0' ++ A, IsHex c := by
    intro c hc
    rcases List.mem_append.mp hc with hc | hc
    · rw [(List.mem_replicate.mp hc).2]; exact isHex_zero
    · exact hh c hc
  have := addr_of_ten Gen.C20.addrUnpackFmt addrUnpack_spec _ hlen hhex
  rw [hexValue_zeros] at this
  exact this


end CfVerif.C20

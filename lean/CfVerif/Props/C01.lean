/-
Props/C01 — property theorems for C01 (radio link: exactly once, in order, despite loss).
Helper lemmas are in Proofs/C01*.  Every theorem is about Model/C01 (the driver thread, regenerated
constants and bit expressions from Gen/C01) and, for the closed-system theorems, Spec/C01 (peer + channel).
-/
import CfVerif.Proofs.C01
namespace CfVerif.C01
open CfVerif

/-! ## Gen obligations: what the hand-written model assumes about the current source -/

theorem gen_init_frame : bytesOfNats Gen.C01.initFrame ≠ [] := by decide
theorem gen_bits_init : Gen.C01.initUp ≤ 1 ∧ Gen.C01.initDown ≤ 1 ∧ Gen.C01.confirmUp ≤ 1 ∧ Gen.C01.confirmDown ≤ 1 := by decide
theorem gen_thread_init : Gen.C01.initSafelink = "False" ∧ Gen.C01.initRetry = "_nr_of_retries" ∧
    Gen.C01.initNeedsResending = "True" ∧ Gen.C01.setRetriesBody = "global _nr_of_retries; _nr_of_retries = nr_of_retries" := by decide
theorem gen_send_packet_safe :
    Gen.C01.safeSendArgs = ["packet"] ∧
    Gen.C01.flipDownCond = "resp and resp.ack and len(resp.data) and (resp.data[0] & 4 == self._curr_down << 2)" ∧
    Gen.C01.flipDownBody = "self._curr_down = 1 - self._curr_down" ∧
    Gen.C01.flipUpCond = "resp and resp.ack" ∧
    Gen.C01.flipUpBody = "self._curr_up = 1 - self._curr_up" := by decide
theorem gen_negotiation :
    Gen.C01.safelinkCond = "resp and resp.data and (tuple(resp.data) == (255, 5, 1))" ∧
    Gen.C01.confirmSafelink = "True" ∧ Gen.C01.needsResendingExpr = "not self._has_safelink" := by decide
theorem gen_loop :
    Gen.C01.loopOrder = ["send", "none", "nack", "reset", "data", "get", "build"] ∧
    Gen.C01.sendSafe = "ackStatus = self._send_packet_safe(self._radio, dataOut)" ∧
    Gen.C01.sendRaw = "ackStatus = self._radio.send_packet(dataOut)" ∧
    Gen.C01.noneBody = "continue" ∧ Gen.C01.nackCond = "ackStatus.ack is False" ∧
    Gen.C01.retryDecr = "self._retry_before_disconnect - 1" ∧
    Gen.C01.retryErrCond = "self._retry_before_disconnect == 0 and self._link_error_callback is not None" ∧
    Gen.C01.retryErrMsg = "Too many packets lost" ∧ Gen.C01.retryReset = "_nr_of_retries" ∧
    Gen.C01.dataCond = "len(data) > 0" ∧ Gen.C01.inPacketArgs = ["data[0]", "list(data[1:])"] ∧
    Gen.C01.inQueuePut = ["self._in_queue.put(inPacket)"] ∧ Gen.C01.outQueueGetArgs = ["True", "waitTime"] ∧
    Gen.C01.outPacketCond = "outPacket" ∧ Gen.C01.frameHeaderAppend = ["outPacket.header"] := by decide
theorem gen_queues : Gen.C01.outQueueSize = 1 ∧ Gen.C01.inQueueCtor = "queue.Queue()" ∧
    Gen.C01.sendPutArgs = ["pk", "True", "2"] ∧ Gen.C01.sendReturns = ["True", "False"] := by decide
theorem gen_crazyradio : Gen.C01.statusCond = "data[0] != 0" ∧ Gen.C01.ackPayload = "data[1:]" ∧
    Gen.C01.noStatusBody = "ackIn.retry = self.arc" ∧
    Gen.C01.ackDefaults = "ack = False; powerDet = False; retry = 0; data = ()" := by decide

/-! ## Facts about the driver thread alone (any answers from the radio, any application behaviour) -/

/-- The model's totalised branches are unreachable: `dataOut` is never empty (so `packet[0]` never raises)
and the one-bit counters only ever hold 0 or 1 (so `1 - x` on `Nat` is Python's `1 - x`). -/
theorem model_side_conditions (n : Nat) (ops : List Op) :
    let h := ((Host.init n).run ops).1
    h.out ≠ [] ∧ h.curUp ≤ 1 ∧ h.curDown ≤ 1 := by
  have := hostInv_run (hostInv_init n gen_init_frame gen_bits_init.1 gen_bits_init.2.1)
    gen_bits_init.2.2.1 gen_bits_init.2.2.2 ops
  exact ⟨this.out, this.up, this.down⟩

/-- `needs_resending` is true until the negotiation loop has finished and from then on equals
"safelink was not enabled". -/
theorem needs_resending_eq (n : Nat) (ops : List Op) :
    let h := ((Host.init n).run ops).1
    (h.negLeft ≠ 0 → h.needsResending = true) ∧ (h.negLeft = 0 → h.needsResending = !h.safelink) := by
  have := hostInv_run (hostInv_init n gen_init_frame gen_bits_init.1 gen_bits_init.2.1)
    gen_bits_init.2.2.1 gen_bits_init.2.2.2 ops
  exact ⟨fun hn => (this.neg hn).2, this.done⟩

/-! ## Non-vacuity -/

example : (((Host.init 3).run [.tx (.resp ⟨false, false, 0, []⟩), .tx (.resp ⟨true, false, 0, [0xff, 0x05, 0x01]⟩)]).1.negLeft = 0) := by decide

end CfVerif.C01

/-
Props/C01 — property theorems for C01 (radio link: exactly once, in order, despite loss).
Helper lemmas are in Proofs/C01*.  Every theorem is about Model/C01 (the driver thread, regenerated
constants and bit expressions from Gen/C01) and, for the closed-system theorems, Spec/C01 (peer + channel).
-/
import CfVerif.Proofs.C01Thm
namespace CfVerif.C01
open CfVerif

/-! ## Gen obligations: what the hand-written model assumes about the current source -/

theorem gen_init_frame : bytesOfNats Gen.C01.initFrame ≠ [] := by decide
theorem gen_bits_init : Gen.C01.initUp ≤ 1 ∧ Gen.C01.initDown ≤ 1 ∧ Gen.C01.confirmUp ≤ 1 ∧ Gen.C01.confirmDown ≤ 1 := by decide
theorem gen_thread_init : Gen.C01.initSafelink = "False" ∧ Gen.C01.initRetry = "_nr_of_retries" ∧
    Gen.C01.initNeedsResending = "True" ∧ Gen.C01.setRetriesBody = "global _nr_of_retries; _nr_of_retries = nr_of_retries" := by decide
theorem gen_send_packet_safe :
    Gen.C01.safeSendArgs = ["packet"] ∧
    Gen.C01.flipDownCond = "resp and resp.ack and len(resp.data) and (resp.data[0] & 4 == self._curr_down << 2)" ∧
    Gen.C01.flipDownBody = "self._curr_down = 1 - self._curr_down" ∧
    Gen.C01.flipUpCond = "resp and resp.ack" ∧
    Gen.C01.flipUpBody = "self._curr_up = 1 - self._curr_up" := by decide
theorem gen_negotiation :
    Gen.C01.safelinkCond = "resp and resp.data and (tuple(resp.data) == (255, 5, 1))" ∧
    Gen.C01.confirmSafelink = "True" ∧ Gen.C01.needsResendingExpr = "not self._has_safelink" := by decide
theorem gen_loop :
    Gen.C01.loopOrder = ["send", "none", "nack", "reset", "data", "get", "build"] ∧
    Gen.C01.sendSafe = "ackStatus = self._send_packet_safe(self._radio, dataOut)" ∧
    Gen.C01.sendRaw = "ackStatus = self._radio.send_packet(dataOut)" ∧
    Gen.C01.noneBody = "continue" ∧ Gen.C01.nackCond = "ackStatus.ack is False" ∧
    Gen.C01.retryDecr = "self._retry_before_disconnect - 1" ∧
    Gen.C01.retryErrCond = "self._retry_before_disconnect == 0 and self._link_error_callback is not None" ∧
    Gen.C01.retryErrMsg = "Too many packets lost" ∧ Gen.C01.retryReset = "_nr_of_retries" ∧
    Gen.C01.dataCond = "len(data) > 0" ∧ Gen.C01.inPacketArgs = ["data[0]", "list(data[1:])"] ∧
    Gen.C01.inQueuePut = ["self._in_queue.put(inPacket)"] ∧ Gen.C01.outQueueGetArgs = ["True", "waitTime"] ∧
    Gen.C01.outPacketCond = "outPacket" ∧ Gen.C01.frameHeaderAppend = ["outPacket.header"] := by decide
theorem gen_queues : Gen.C01.outQueueSize = 1 ∧ Gen.C01.inQueueCtor = "queue.Queue()" ∧
    Gen.C01.sendPutArgs = ["pk", "True", "2"] ∧ Gen.C01.sendReturns = ["True", "False"] := by decide
theorem gen_crazyradio : Gen.C01.statusCond = "data[0] != 0" ∧ Gen.C01.ackPayload = "data[1:]" ∧
    Gen.C01.noStatusBody = "ackIn.retry = self.arc" ∧
    Gen.C01.ackDefaults = "ack = False; powerDet = False; retry = 0; data = ()" := by decide

/-- The handshake constants fit the peer: the request is what the peer recognises as the safelink control packet
(with a non-zero enable byte), the expected echo is the request itself, and the counters the host starts from after
confirmation (0, 0) differ from the ones the peer resets to (1, 1), so that the first data frame is fresh. -/
theorem gen_safelink_handshake : GenOk := genOk

/-! ## The driver thread alone (ANY answers from the radio, ANY application behaviour) -/

/-- The model's totalised branches are unreachable: `dataOut` is never empty (so `packet[0]` never raises)
and the one-bit counters only ever hold 0 or 1 (so `1 - x` on `Nat` is Python's `1 - x`). -/
theorem model_side_conditions (n : Nat) (ops : List Op) :
    let h := ((Host.init n).run ops).1
    h.out ≠ [] ∧ h.curUp ≤ 1 ∧ h.curDown ≤ 1 := by
  have := hostInv_run (hostInv_init n gen_init_frame gen_bits_init.1 gen_bits_init.2.1)
    gen_bits_init.2.2.1 gen_bits_init.2.2.2 ops
  exact ⟨this.out, this.up, this.down⟩

/-- `needs_resending` is true until the negotiation loop has finished and from then on equals
"safelink was not enabled". -/
theorem needs_resending_eq (n : Nat) (ops : List Op) :
    let h := ((Host.init n).run ops).1
    (h.negLeft ≠ 0 → h.needsResending = true) ∧ (h.negLeft = 0 → h.needsResending = !h.safelink) := by
  have := hostInv_run (hostInv_init n gen_init_frame gen_bits_init.1 gen_bits_init.2.1)
    gen_bits_init.2.2.1 gen_bits_init.2.2.2 ops
  exact ⟨fun hn => (this.neg hn).2, this.done⟩

/-- Safelink is used only if the peer confirmed it during link start-up: the thread is in safelink mode iff one of
the answers to its (at most `Gen.safelinkAttempts` = 10) negotiation requests was the exact echo; and while it is not
in safelink mode it transmits frames unmodified. -/
theorem safelink_only_if_confirmed (n : Nat) (ops : List Op) :
    let h := ((Host.init n).run ops).1
    (h.safelink = true ↔ (negAnswers (Host.init n) ops).any isEcho = true) ∧
    (negAnswers (Host.init n) ops).length ≤ Gen.C01.safelinkAttempts ∧
    (h.safelink = false → h.frameOut = h.out) := by
  have hi := hostInv_init n gen_init_frame gen_bits_init.1 gen_bits_init.2.1
  have := safelink_run hi (by decide) gen_bits_init.2.2.1 gen_bits_init.2.2.2 ops
  refine ⟨?_, this.2, fun hs => by simp [Host.frameOut, hs]⟩
  show ((Host.init n).run ops).1.safelink = true ↔ _
  rw [this.1]
  simp [Host.init]

/-- A link error is reported exactly when the configured number of consecutive transmissions go unacknowledged, the
count restarting at every acknowledgement: over any run in which the radio always answers, the sequence of
"'Too many packets lost' was reported at this data-loop transmission" is what the rule `specErrs n` computes from
the sequence of acknowledgement flags.  (Holds for every `n`; for `n = 0` nothing is ever reported.) -/
theorem link_error_iff (n : Nat) (ops : List Op) (hops : ∀ op ∈ ops, op.Answered) :
    (dataTrace (Host.init n) ops).map (·.2) = specErrs n 0 ((dataTrace (Host.init n) ops).map (·.1)) :=
  trace_spec (Host.init n) 0 rfl (by simp [Host.init]) ops hops

/-- `Crazyradio.send_packet`'s reading of the dongle's status byte: bit 0 = acknowledged, bit 1 = power detector,
high nibble = retry count, rest of the reply = ack payload; a zero status byte means "no ack". -/
theorem ack_status_decoding (s : UInt8) (rest : Bytes) (arc : Nat) :
    (s ≠ 0 → decodeUsb (some (s :: rest)) arc =
      .ok (.resp { ack := s.toNat % 2 = 1, powerDet := s.toNat / 2 % 2 = 1, retry := s.toNat / 16, data := rest })) ∧
    decodeUsb (some (0 :: rest)) arc = .ok (.resp { ack := false, powerDet := false, retry := arc, data := [] }) ∧
    decodeUsb none arc = .ok .none := by
  refine ⟨fun hs => ?_, rfl, rfl⟩
  have h := status_fields ⟨s.toNat, s.toNat_lt⟩
  simp only at h
  have hs' : s.toNat ≠ 0 := fun h0 => hs (by rw [u8_eq s, h0]; rfl)
  simp only [decodeUsb, hs', ne_eq, not_false_eq_true, if_true, h.1, h.2.1, h.2.2]

/-- The channel as the driver sees it: whatever the status byte's other bits, a transmission is reported as
acknowledged iff its outcome was `ok`, and then the ack payload is handed over unchanged. -/
theorem acked_iff_ok (st : UInt8) (o : Outcome) (payload : Bytes) :
    ∃ a, decodeUsb (some (usbReply st o payload)) 0 = .ok (.resp a) ∧ (a.ack = true ↔ o = .ok) ∧
      (o = .ok → a.data = payload) ∧ (o ≠ .ok → a.data = []) := by
  by_cases ho : o = .ok
  · subst ho
    obtain ⟨a, h1, h2, h3⟩ := decode_ok st payload
    exact ⟨a, h1, by simp [h2], fun _ => h3, fun h => absurd rfl h⟩
  · obtain ⟨a, h1, h2, h3⟩ := decode_lost st o ho payload
    exact ⟨a, h1, by simp [h2, ho], fun h => absurd h ho, fun _ => h3⟩

/-! ## The closed system: driver ∥ lossy channel ∥ safelink peer (Spec/C01; the peer is an ASSUMPTION)

`ops` is any interleaving of application submissions (incl. a blocked one and its timeout), packets queued by the
Crazyflie, and transmissions with their outcome `ok | upLost | ackLost`.  `SysOp.WF`: the application submits no
safelink control frame, the Crazyflie queues no empty packet.  The peer starts in ANY state of its counters
(`Peer.Fresh`: only its logs are empty). -/

/-- Uplink: the non-null packets handed to the Crazyflie are, at every moment, a prefix of the packets accepted by
`RadioDriver.send_packet` (same order, none duplicated, none skipped; header bits 3..2 are link-layer bits), whatever
was lost so far; and three acknowledged idle transmissions later they are ALL of them. -/
theorem uplink_exactly_once_in_order (n : Nat) (p : Peer) (hp : p.Fresh) (ops : List SysOp) (wf : ∀ op ∈ ops, op.WF) :
    let s := (Sys.init n p).run ops
    s.host.safelink = true →
      upView s.peer.rxq <+: upView ((accepted s.evs).map Pkt.frame) ∧
      ∀ x y z : UInt8 × UInt8, let s' := s.run (okRun [x, y, z])
        upView s'.peer.rxq = upView ((accepted s'.evs).map Pkt.frame) := by
  intro s hs
  have inv := dataInv_of_safelink n p hp ops wf hs
  exact ⟨up_prefix inv, fun x y z => up_drained inv x y z⟩

/-- Downlink: the non-idle packets that came out of `receive_packet` are, at every moment, a prefix of the packets the
Crazyflie queued for the host (same order, none duplicated, none skipped); and after one more acknowledged transmission
than there are packets still pending in the peer they are ALL of them. -/
theorem downlink_exactly_once_in_order (n : Nat) (p : Peer) (hp : p.Fresh) (ops : List SysOp) (wf : ∀ op ∈ ops, op.WF) :
    let s := (Sys.init n p).run ops
    s.host.safelink = true →
      downView (received s.evs) <+: downView (p.txq ++ queuedBy ops) ∧
      ∀ l : List (UInt8 × UInt8), s.peer.txq.length + 1 ≤ l.length → let s' := s.run (okRun l)
        downView (received s'.evs) = downView (p.txq ++ queuedBy ops) := by
  intro s hs
  have inv := dataInv_of_safelink n p hp ops wf hs
  have hq : s.peer.queued = p.txq ++ queuedBy ops := by
    have := run_queued (Sys.init n p) ops
    rw [show (Sys.init n p).peer.queued = p.txq by simp [Sys.init, Peer.queued, hp.2.1]] at this
    exact this
  refine ⟨hq ▸ dn_prefix inv, fun l hl => ?_⟩
  have h1 := dn_drained inv l hl
  have h2 := run_queued s (okRun l)
  have h3 := queuedBy_okRun l
  simp only at h1 ⊢
  rw [h1, h2, h3, List.append_nil, hq]

/-- In the closed system the driver is in safelink mode only if the peer is. -/
theorem safelink_confirmed_by_peer (n : Nat) (p : Peer) (hp : p.Fresh) (ops : List SysOp) (wf : ∀ op ∈ ops, op.WF) :
    let s := (Sys.init n p).run ops
    s.host.safelink = true → s.peer.safelink = true := by
  intro s hs
  exact (dataInv_of_safelink n p hp ops wf hs).ps

/-! ## Several links sharing one Crazyradio (`RadioManager` / `_SharedRadio`) -/

theorem gen_shared_radio :
    Gen.C01.openInstanceStmts = ["instance_id = self._next_instance_id", "self._rsp_queues[instance_id] = rsp_queue",
      "self._next_instance_id += 1"] ∧ Gen.C01.nextInstanceInit = "0" ∧
    Gen.C01.instanceCtorArgs = ["instance_id", "self._cmd_queue", "rsp_queue"] ∧
    Gen.C01.sharedDel = ["del self._rsp_queues[command[0]]"] ∧
    Gen.C01.sharedAckPut = ["self._rsp_queues[command[0]].put(ack)"] ∧
    Gen.C01.instanceSendGet = ["self._rsp_queue.get()"] := by decide

/-- Whatever the order in which links on one dongle are opened and closed, the answer to a live link's transmission is
put into that link's own response queue, and no two live links share an instance id.  Hence every link runs the
single-link protocol of the theorems above on its own sequence of transmissions and answers. -/
theorem acks_routed_to_sender (ops : List ShOp) :
    let l := Links.init.run ops
    (∀ p ∈ l.live, l.sh.route p.2 = some p.1) ∧
    (∀ p ∈ l.live, ∀ p' ∈ l.live, p.2 = p'.2 → p.1 = p'.1) := by
  have h : LinksInv (Links.init.run ops) := linksInv_run (by intro p hp; cases hp) ops
  refine ⟨fun p hp => (h p hp).2, fun p hp p' hp' e => ?_⟩
  have h1 := (h p hp).2
  have h2 := (h p' hp').2
  rw [e, h2] at h1
  simpa using h1.symm

/-! ## Non-vacuity: concrete instances -/

example : (Links.init.run [.open 0, .open 1, .close 0, .open 2]).live = [(2, 2), (1, 1)] := by decide


/-- the 12-operation run used below: all three outcomes, two submissions (the second one blocks), one downlink packet -/
def demoOps : List SysOp :=
  [.xmit .ackLost 0x20 0x40, .xmit .ok 0x30 0x41, .sub ⟨0x3C, [1, 2]⟩, .sub ⟨0x4D, [3]⟩, .queue [0x5C, 9],
   .xmit .ok 0 0x42, .xmit .ackLost 0 0x43, .xmit .upLost 0 0x44, .xmit .ok 0 0x45, .xmit .ok 0 0x46, .xmit .ok 0 0x47]

example : Peer.init.Fresh := ⟨rfl, rfl, by simp [Peer.init]⟩
example : ∀ op ∈ demoOps, op.WF := by decide
example : ((Sys.init 3 Peer.init).run demoOps).host.safelink = true := by decide +kernel
example : ((Sys.init 3 Peer.init).run demoOps).peer.rxq = [[0xF3], [0x3C, 1, 2], [0x41, 3], [0xFF]] := by decide +kernel
example : upView ((Sys.init 3 Peer.init).run demoOps).peer.rxq = [[0x30, 1, 2], [0x41, 3]] := by decide +kernel
example : downView (received ((Sys.init 3 Peer.init).run demoOps).evs) = [[0x50, 9]] := by decide +kernel
example : (dataTrace (Host.init 2) [.tx (.resp ⟨true, false, 0, [0xff, 5, 1]⟩), .tx (.resp ⟨false, false, 0, []⟩),
    .tx (.resp ⟨false, false, 0, []⟩), .tx (.resp ⟨false, false, 0, []⟩), .tx (.resp ⟨true, false, 0, [0xF3, 1, 7]⟩),
    .tx (.resp ⟨false, false, 0, []⟩)]) = [(false, false), (false, true), (false, false), (true, false), (false, false)] := by
  decide +kernel
example : specErrs 2 0 [false, false, false, true, false, false] = [false, true, false, false, false, true] := by decide
example : (negAnswers (Host.init 3) [.tx (.resp ⟨false, false, 0, []⟩), .tx (.resp ⟨true, false, 0, [0xff, 5, 1]⟩),
    .tx (.resp ⟨true, false, 0, [0xF3, 1, 7]⟩)]).any isEcho = true := by decide +kernel

/-- Why `SysOp.WF` is needed: a control-shaped application packet (port 15, channel 3, first data byte 5, 2 data bytes)
is swallowed by the peer model's link layer (and resets its counters), so it is accepted but never delivered. -/
example :
    let s := (Sys.init 100 Peer.init).run
      [.xmit .ok 1 1, .sub ⟨0xFF, [5, 1]⟩, .xmit .ok 1 1, .xmit .ok 1 1, .xmit .ok 1 1, .xmit .ok 1 1]
    s.host.safelink = true ∧ accepted s.evs = [⟨0xFF, [5, 1]⟩] ∧ upView s.peer.rxq = [] := by decide +kernel

/-! ## Limit of the guarantee (an observation, not a violation: the exactly-once clauses are about safelink mode)

If the peer accepts the safelink request on all ten attempts but every echo is lost, the driver falls back to plain
mode (`needs_resending = True`, so the upper layer retries) while the peer model is in safelink mode with counters (1, 1).
cflib's packets carry header bits 3..2 = 11, so the peer model treats every one of them as a repeat: nothing is
delivered although every transmission is acknowledged, and no link error is reported. -/
example :
    let s := (Sys.init 100 Peer.init).run
      (List.replicate 10 (.xmit .ackLost 0 0) ++ [.sub ⟨0x3C, [1]⟩, .xmit .ok 1 1, .xmit .ok 1 1, .xmit .ok 1 1])
    s.host.safelink = false ∧ s.host.needsResending = true ∧ s.peer.safelink = true ∧ s.peer.rxq = [] ∧
    accepted s.evs = [⟨0x3C, [1]⟩] ∧ lossReports s.evs = 0 := by decide +kernel

end CfVerif.C01

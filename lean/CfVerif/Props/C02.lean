/-
Props/C02: Connection lifecycle is well-formed and never hangs under any link fault.
(only the property theorems, the obligations on the regenerated source facts, and non-vacuity examples)
-/
import CfVerif.Proofs.C02
namespace CfVerif.C02
open Gen.C02

/-! ## Obligations on what was regenerated from the source (Tie A) -/

/-- `Crazyflie.state` only ever takes the three values of the model's `St` -/
theorem state_assignments : stateAssignments = ["State.CONNECTED", "State.DISCONNECTED", "State.INITIALIZED"] := by decide
theorem state_codes_distinct : [stDisconnected, stInitialized, stConnected, stSetupFinished].Nodup := by decide
/-- `_link_error_cb`: close the link, forget it, fan out by state, end in DISCONNECTED -/
theorem err_prelude : errPrelude = ["self.link.close()", "self.link = None"] := by decide
theorem err_post : errPost = ["self.state = State.DISCONNECTED"] := by decide

/-! ## Link error fan-out (clauses "connection_failed before the first packet", "exactly one disconnected and
then one connection_lost after it") -/

/-- what `_link_error_cb` signals, in every state; afterwards the object is DISCONNECTED without a link -/
theorem link_error_outputs (s : S) :
    ((linkErrorCb s).2 = match s.st with
      | .init => [.linkFailed, .cb .failed]
      | .conn => [.linkFailed, .cb .disconnected, .cb .lost]
      | .disc => [.linkFailed, .cb .discLinkError]) ∧
    (linkErrorCb s).1.st = .disc ∧ (linkErrorCb s).1.link = false := by
  cases h : s.st <;>
    simp [linkErrorCb, h, errCallers_init, errCallers_conn, errCallers_disc, callAll, callByName, andThen, pureS, emit,
      disconnectedCall]

end CfVerif.C02

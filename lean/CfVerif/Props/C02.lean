/-
Props/C02: Connection lifecycle is well-formed and never hangs under any link fault.
(only the property theorems, the obligations on the regenerated source facts, and non-vacuity examples)

Layer M1 (this section): the sequential protocol.  `run d Sys.init ops` executes an arbitrary sequence of
user/environment operations (open, deliver a packet, run a worker, link error from the driver's thread, link
error from the sending thread, close, blocking open, blocking close) on one `Crazyflie`+`SyncCrazyflie` object
connected to an arbitrary device `d` (any table sizes); `usage` restricts the sequence to what the property
quantifies over (one user thread; a link is opened only when none is open; only an existing driver reports errors).
-/
import CfVerif.Proofs.C02
import CfVerif.Proofs.C02Live
import CfVerif.Proofs.C02SyncA
import CfVerif.Proofs.C02SyncB
import CfVerif.Proofs.C02SyncC
import CfVerif.Proofs.C02SyncD
import CfVerif.Proofs.C02SyncE
namespace CfVerif.C02
open Gen.C02

/-! ## Obligations on what was regenerated from the source (Tie A) -/

/-- `Crazyflie.state` only ever takes the three values of the model's `St` -/
theorem state_assignments : stateAssignments = ["State.CONNECTED", "State.DISCONNECTED", "State.INITIALIZED"] := by decide
theorem state_codes_distinct : [stDisconnected, stInitialized, stConnected, stSetupFinished].Nodup := by decide
/-- `_link_error_cb`: close the link, forget it, fan out by state (table `errFanout`, used by the model), end in DISCONNECTED -/
theorem err_prelude : errPrelude = ["self.link.close()", "self.link = None"] := by decide
theorem err_post : errPost = ["self.state = State.DISCONNECTED"] := by decide
/-- `open_link`: requested first, INITIALIZED before the driver is created, the first-packet callback before the set-up starts -/
theorem open_seq : openSeq = ["connection_requested.call", "self.state = State.", "self.link_uri = ", "get_link_driver",
    "connection_failed.call", "self.incoming.start()", "add_callback(self._check_for_initial_packet_cb)",
    "_start_connection_setup()", "self.link.close()", "self.link = None", "connection_failed.call"] := by decide
/-- `close_link`: set-point, close, forget the link, `disconnected`, DISCONNECTED -/
theorem close_seq : closeSeq = ["send_setpoint", "self.link.close()", "self.link = None", "self.disconnected.call",
    "self.state = State."] ∧ closeStates = ["State.DISCONNECTED"] ∧
    closeGuards = ["self.link is not None", "self.link is not None"] := by decide
theorem first_packet_seq : firstPacketSeq = ["self.state = State.CONNECTED", "self.link_established.call(self.link_uri)",
    "self.packet_received.remove_callback(self._check_for_initial_packet_cb)"] := by decide
/-- the set-up chain platform → log → memories → parameters → `connected` → values → `fully_connected` -/
theorem setup_chain : setupChain = [
    "_start_connection_setup -> platform.fetch_platform_informations(_platform_info_fetched)",
    "_platform_info_fetched -> log.refresh_toc(_log_toc_updated_cb)",
    "_log_toc_updated_cb -> mem.refresh(_mems_updated_cb)",
    "_mems_updated_cb -> param.refresh_toc(_param_toc_updated_cb)",
    "_param_toc_updated_cb -> connected.call() ; param.request_update_of_all_params()",
    "_all_parameters_updated -> fully_connected.call()"] ∧ allUpdatedHook = ["self._all_parameters_updated"] := by decide
/-- loop conditions of the TOC fetcher, the memory enumeration and the extended-type fetcher -/
theorem loop_conditions :
    tocCompares = ["self.nbr_of_items > 0", "ident != self.requested_index", "self.requested_index < self.nbr_of_items - 1"] ∧
    memCompares = ["self.nbr_of_mems > 0", "self.nbr_of_mems - 1 >= self._fetch_id"] ∧
    extCompares = ["self._req_param == var_id", "self._count == 0"] ∧
    paramAllUpdatedCond = ["self._check_if_all_updated()", "not self.is_updated"] := by decide
/-- how completion of the parameter download is decided: `_check_if_all_updated` WALKS the table — every element must
have a value in `param.values` (a per-parameter set, not a count) — and `_param_updated` stores exactly there -/
theorem completion_test_walks_the_table :
    checkAllUpdatedBody = ["for g in self.toc.toc:\n    if g not in self.values:\n        return False\n    for n in self.toc.toc[g]:\n        if n not in self.values[g]:\n            return False", "return True"] := by rfl
theorem param_updated_stores :
    paramUpdatedStores = ["self.values[element.group] = {}", "self.values[element.group][element.name] = value_s"] := by rfl
/-- what `disconnected` / `connection_requested` reset in the parameter subsystem -/
theorem param_resets : paramDisconnected = ["self.param_updater.close()", "self.toc = Toc()", "self.values = {}"] ∧
    paramConnectionRequested = ["self.is_updated = False", "self.toc = Toc()", "self.values = {}"] ∧
    updaterCloseSeq = ["self.request_queue.get(block=False)", "self.wait_lock.release()"] := by decide
/-- the callbacks of `SyncCrazyflie` -/
theorem sync_callbacks :
    syncConnected = ["self._is_link_open = True", "self._connect_event.set()"] ∧
    syncConnectionFailed = ["self._is_link_open = False", "self._connect_event.set()"] ∧
    syncDisconnected.take 3 = ["self._remove_callbacks()", "self._is_link_open = False", "self._disconnect_event.set()"] ∧
    syncAddCallbacks = ["connected:self._connected", "connection_failed:self._connection_failed",
      "disconnected:self._disconnected", "fully_connected:self._all_params_updated"] := by decide
theorem sync_open_close_seq :
    syncOpenSeq = ["raise Exception('Link already open')", "self._add_callbacks()", "self._connect_event = Event()",
      "self.cf.open_link(", "self._connect_event.wait()", "self._connect_event = None", "self._remove_callbacks()",
      "raise Exception(self._error_message)"] ∧
    syncOpenGuards = ["self.is_link_open()", "not self._is_link_open"] ∧
    syncCloseSeq = ["self._disconnect_event = Event()", "self.cf.close_link()", "self._disconnect_event.wait()",
      "self._disconnect_event = None"] ∧ syncCloseGuards = ["self.is_link_open()"] := by decide

/-- REPAIRS the theorems below depend on (they fail to build on a tree where the defect is present):
D1 `SyncCrazyflie._disconnected` wakes a waiting `open_link`; D21 TOC / extended-type fetchers of an aborted
attempt unregister on `disconnected`. -/
theorem repaired_D1 : syncDisconnectedSetsConnectEvent = true ∧ Sys.init.w.fixD1 = true := by decide
theorem repaired_D21 : tocFetcherAbortsOnDisconnect = true ∧ extFetcherAbortsOnDisconnect = true ∧
    Sys.init.c.fixD21 = true := by decide
/-- an aborted TocFetcher that is still in the dispatcher's snapshot cannot run its finished callback -/
theorem aborted_fetcher_cannot_finish : abortedTocFetcherCannotFinish = true ∧ Sys.init.c.fixAbort = true := by decide
/-- D28: the completion test of the parameter download is evaluated only once connected (the table is complete) -/
theorem repaired_D28 : allUpdatedRequiresConnected = true ∧ Sys.init.c.fixUpd = true := by decide
/-- D29: the extended-type fetcher only accepts answers to its own request (command byte checked) -/
theorem repaired_D29 : extCbChecksCommand = true ∧ Sys.init.c.fixExtCmd = true := by decide
/-- D26: the first-packet callback ignores a packet whose link was closed by an earlier callback -/
theorem repaired_D26 : firstPacketCbChecksLink = true ∧ Sys.init.c.fixFirst = true := by decide

/-! ## M1 theorems -/

/-- **trace_wf**: for every device and every operation sequence, the trace of operations and callbacks is accepted
by the specification automaton `WF` (Spec/C02): requested, then failed or a prefix of established, connected, fully;
link failure before the first packet ⇒ exactly `connection_failed`, after it ⇒ exactly `disconnected` then
`connection_lost`; every `close_link` ⇒ exactly one `disconnected` of its own; nothing of an attempt after it ended;
blocking calls return only when connected / raise only when the attempt is over; nothing is left owed. -/
theorem trace_wf (d : Dev) (ops : List Op) (hu : usage d Sys.init ops = true) : WF (run d Sys.init ops).2 := by
  have := (run_sound d ops Sys.init (sinv_init d) hu).2
  exact ⟨_, this, rfl⟩

example : usage ⟨true, 2, 1, [true, false]⟩ Sys.init
    [.syncOpen .failing, .syncOpen .ok, .deliver, .deliver, .arm, .deliver, .open .failing, .open .missing, .syncOpen .ok,
     .deliver, .err, .close] = true := by decide

/-- **fault_inside_open_link**: the link fails while `get_link_driver()` / `connect()` has not yet returned (reported by
the driver synchronously or from its own thread): in every state the application sees exactly `connection_requested`
then `connection_failed`, the object is DISCONNECTED, and — whatever the wrapper state allowed by `usage` — a blocking
`SyncCrazyflie.open_link` raises in the same operation (it is covered by `trace_wf` / `sync_open_returns`; this is
the explicit statement).  The error between `connect()` returning and the first packet is `err` in state
INITIALIZED (`link_error_outputs`). -/
theorem fault_inside_open_link (s : S) :
    (openLink .failing s).2 = [.cb .requested, .linkFailed, .cb .failed] ∧
    (openLink .failing s).1.st = .disc ∧ (openLink .failing s).1.dead = true := by
  simp [openLink, linkErrorCb_eq, send, emit, andThen, pureS]

theorem sync_open_raises_on_fault_inside_open_link (d : Dev) :
    (step d Sys.init (.syncOpen .failing)).2 = [.cb .requested, .linkFailed, .cb .failed, .openRaised] ∧
    (step d Sys.init (.syncOpen .failing)).1.w.waitOpen = false := by
  constructor <;> rfl

/-- **connected_only_when_tables_complete**: whenever an operation (other than a dispatch with an in-callback action, for
which see `in_callback_action`) signals `connected`, all `nLog` log entries, all
`nPar` parameter entries and the extended type of every extended parameter have been received in this attempt. -/
theorem connected_only_when_tables_complete (d : Dev) (ops : List Op) (op : Op)
    (hu : usage d Sys.init (ops ++ [op]) = true) (hop : op.isAct = false) :
    Out.cb .connected ∈ (step d (run d Sys.init ops).1 op).2 →
      complete d (step d (run d Sys.init ops).1 op).1.c := by
  rw [usage_append] at hu
  simp only [Bool.and_eq_true, usage, Bool.and_true] at hu
  have hs := (run_sound d ops Sys.init (sinv_init d) hu.1).1
  have hc := core_shape d _ op hs hu.2
  intro hm
  rw [step_eq] at hm ⊢
  exact hc.2.2.1 hop (stepW_cb_mem _ _ _ _ hm)

/-- **fully_only_when_all_values**: whenever an operation signals `fully_connected` — a read reply, or an unsolicited
value-updated notification for any parameter, at any point of any history that may also contain duplicated / late read
replies (`Op.inject`) — every parameter of the device's table has a value in `param.values` at that moment (the per-
parameter SET `vals` is what the completion test walks, not a count), and by `trace_wf` `connected` came before. -/
theorem fully_only_when_all_values (d : Dev) (ops : List Op) (op : Op)
    (hu : usage d Sys.init (ops ++ [op]) = true) (hop : op.isAct = false) :
    Out.cb .fully ∈ (step d (run d Sys.init ops).1 op).2 →
      allVals d (step d (run d Sys.init ops).1 op).1.c := by
  rw [usage_append] at hu
  simp only [Bool.and_eq_true, usage, Bool.and_true] at hu
  have hs := (run_sound d ops Sys.init (sinv_init d) hu.1).1
  have hc := core_shape d _ op hs hu.2
  intro hm
  rw [step_eq] at hm ⊢
  exact hc.2.2.2 hop (stepW_cb_mem _ _ _ _ hm)

/-- **in_callback_action** (sub-packet granularity): `close_link` or a link error performed from INSIDE an all-packet
or port callback while packet k is being dispatched — after the dispatcher took its snapshot, before the fetchers'
callbacks — for every k and every history: `trace_wf` covers these operations (`closeCalled` owes exactly one
`disconnected`, nothing of the attempt follows it); and any `connected` / `fully_connected` in such an operation was
signalled by the normal handling of that packet BEFORE the action, with complete tables / all values in the state the
callbacks saw — an aborted fetcher that still receives the completing packet does not advance the set-up. -/
theorem in_callback_action (d : Dev) (ops : List Op) (pos : Pos) (a : Act)
    (hu : usage d Sys.init ops = true) :
    let s := (run d Sys.init ops).1
    (Out.cb .connected ∈ (step d s (.deliverAct pos a)).2 →
      Out.cb .connected ∈ (deliver d s.c).2 ∧ complete d (deliver d s.c).1) ∧
    (Out.cb .fully ∈ (step d s (.deliverAct pos a)).2 →
      Out.cb .fully ∈ (deliver d s.c).2 ∧ allVals d (deliver d s.c).1) ∧
    -- if a packet was dispatched, the attempt is over afterwards
    (phase (deliverAct d pos a s.c).1 = .idle ∨ (deliverAct d pos a s.c).2 = []) := by
  intro s
  have hs := (run_sound d ops Sys.init (sinv_init d) hu).1
  have hdel := deliver_core d s.c hs.core
  have hfa := hs.core.fixedAbort
  refine ⟨fun hm => ?_, fun hm => ?_, ?_⟩
  · rw [step_eq] at hm
    have := deliverAct_cb d pos a s.c hfa hs.core.fixedFirst .connected (Or.inl rfl) (stepW_cb_mem _ _ _ _ hm)
    exact ⟨this, hdel.2.2.1 this⟩
  · rw [step_eq] at hm
    have := deliverAct_cb d pos a s.c hfa hs.core.fixedFirst .fully (Or.inr rfl) (stepW_cb_mem _ _ _ _ hm)
    exact ⟨this, hdel.2.2.2 this⟩
  · have hm := (deliverAct_core d pos a s.c hs.core).2
    have key : ∀ (a : Act) (ph : Ph), ∀ sh ∈ shapesAct a ph, sh.2 = .idle ∨ sh.1 = [] := by
      intro a ph; cases a <;> cases ph <;> decide
    exact key a _ _ hm

/-- `is_connected()` is cleared on every `disconnected` — `close_link` and link errors alike — and set just before
`connected` (what the model's `connTs` assumes; a session that ended in ANY way leaves no stale "connected") -/
theorem connected_ts_cleared_on_every_disconnected :
    connectedTsClearedOnDisconnected = true ∧ connectedTsSetBeforeConnected = true := by decide

/-- **is_connected_only_while_connected**: after every history — sessions ending by close_link, by a link error from the
driver's or a sending thread, from inside a callback, by a failing driver, in any order, with extra packets — `is_connected()`
is true only while a link is open and `connected` has been signalled for the CURRENT attempt; in particular the guard
of the parameter completion test (D28) is never stale in a later attempt. -/
theorem is_connected_only_while_connected (d : Dev) (ops : List Op) (hu : usage d Sys.init ops = true) :
    (run d Sys.init ops).1.c.connTs = true →
      (run d Sys.init ops).1.c.link = true ∧ (phase (run d Sys.init ops).1.c).isConnected = true :=
  connTs_phase d _ (run_sound d ops Sys.init (sinv_init d) hu).1.core

/-- **sync_open_returns / sync_close_returns**: after every operation sequence, a `SyncCrazyflie.open_link` that is
still blocked belongs to an attempt that is still in progress (link open, `connected` not yet signalled): as soon as
the attempt ends — link error from either thread, `close_link`, `connection_failed` — or connects, the call has
returned or raised.  `SyncCrazyflie.close_link` is never left blocked. -/
theorem sync_open_returns (d : Dev) (ops : List Op) (hu : usage d Sys.init ops = true) :
    let s := (run d Sys.init ops).1
    (s.w.waitOpen = true → s.c.link = true ∧ (phase s.c = .req ∨ phase s.c = .est)) ∧ s.w.waitClose = false := by
  have hs := (run_sound d ops Sys.init (sinv_init d) hu).1
  have hw := wOk_wait _ _ hs.wrap
  refine ⟨fun h => ?_, hw.2⟩
  have hp := hw.1 h
  refine ⟨?_, hp⟩
  have hlk := phase_linked hs.core
  rcases hp with hp | hp <;> rw [hp] at hlk <;> simp [Ph.linked] at hlk <;> exact hlk.1

/-- **fault_reaches_disconnected**: a link error (from the driver's thread, in any state) and `close_link` leave
the object DISCONNECTED without a link, in that one operation. -/
theorem fault_reaches_disconnected (s : S) :
    (linkErrorCb s).1.st = .disc ∧ (linkErrorCb s).1.link = false ∧
    (closeLink s).1.st = .disc ∧ (closeLink s).1.link = false := by
  refine ⟨?_, ?_, ?_, ?_⟩
  · rw [linkErrorCb_eq]; cases s.st <;> rfl
  · rw [linkErrorCb_eq]; cases s.st <;> rfl
  · simp [closeLink, andThen, pureS, disconnectedCall, emit]
  · simp [closeLink, andThen, pureS, disconnectedCall, emit]

/-- what `_link_error_cb` signals, in every state -/
theorem link_error_outputs (s : S) :
    (linkErrorCb s).2 = match s.st with
      | .init => [.linkFailed, .cb .failed]
      | .conn => [.linkFailed, .cb .disconnected, .cb .lost]
      | .disc => [.linkFailed, .cb .discLinkError] := by
  rw [linkErrorCb_eq]; cases s.st <;> rfl

/-- **reconnectable** (structural half): after ANY history that ends without a link, opening again puts the
`Crazyflie` object into exactly the state a fresh object is in after `open_link` — except for the inert last
`_lock_pattern` of the parameter thread (only compared while its lock is held) and the position of the re-registered
first-packet callback behind the application's callbacks (`cbLate`; with D26 repaired it only decides whether an
in-callback close of the first packet is preceded by `link_established`) — and the wrapper into its initial state.  All theorems above hold from there, as from any reachable state. -/
theorem reconnectable (d : Dev) (ops : List Op) (hu : usage d Sys.init ops = true) :
    let s := (run d Sys.init ops).1
    s.c.link = false → s.c.armed = false →
      s.w = { fixD1 := true } ∧
      (openLink .ok s.c).1 = { (openLink .ok S.init).1 with upd := { q := [], locked := false, pat := s.c.upd.pat },
                                                            cbLate := s.c.cbLate || !s.c.initCb } ∧
      (openLink .ok s.c).2 = (openLink .ok S.init).2 := by
  intro s hl ha
  have hs := (run_sound d ops Sys.init (sinv_init d) hu).1
  have hw := hs.wrap
  rw [phase_down _ hl] at hw
  exact ⟨wOk_idle _ hw, reopen_eq d _ hs.core hl ha⟩

/-- **handshake_completes** (progress; "in bounded time" as bounded steps; the second half of "can connect again" and of
"a blocking open returns"): from the state after ANY history in which a live link is open and no fault is pending, at most
`pot d c + 1` fault-free scheduling rounds (the dispatcher handles a packet, then a worker runs) bring the object to
the connected stage — `connected` has been signalled (`phase` is `con`/`ful`) — and a blocked
`SyncCrazyflie.open_link` has returned.  `pot` is explicit: 3 + the table sizes + twice the number of extended
parameters + 7 at the start of an attempt. -/
theorem handshake_completes (d : Dev) (ops : List Op) (hu : usage d Sys.init ops = true) :
    let s := (run d Sys.init ops).1
    s.c.link = true → s.c.dead = false → s.c.armed = false →
      ∃ n, n ≤ pot d s.c + 1 ∧
        (phase (run d s (pumpOps n)).1.c).isConnected = true ∧ (run d s (pumpOps n)).1.w.waitOpen = false := by
  intro s hl hd ha
  have hs := (run_sound d ops Sys.init (sinv_init d) hu).1
  obtain ⟨n, hn, hc, hl', hd', hst⟩ := pumpN_reaches_up d (pot d s.c) s.c (Nat.le_refl _) hs.core hl hd ha
  refine ⟨n, hn, ?_⟩
  have hs' := (run_sound d (pumpOps n) s hs (usage_pumpOps d n s)).1
  have hcore := run_pumpOps_core d n s
  have hph : (phase (run d s (pumpOps n)).1.c).isConnected = true := by
    rw [hcore]
    rcases hc.linkSt hl' hd' with ⟨_, _, h3⟩ | ⟨h1, _⟩
    · rw [hst] at h3; cases h3
    · simp only [phase, hl', h1, hst, if_true]; split <;> rfl
  refine ⟨hph, ?_⟩
  have hw := (wOk_wait _ _ hs'.wrap).1
  cases hwo : (run d s (pumpOps n)).1.w.waitOpen
  · rfl
  · rcases hw hwo with h | h <;> rw [h] at hph <;> cases hph

example : pot ⟨true, 2, 1, [true, false]⟩ (openLink .ok S.init).1 = 15 := by decide

/-! ## The unrepaired code (counterexamples; the same scripts are replayed on the real code by `search()`) -/

/-- the object as the UNREPAIRED code builds it -/
def unrepairedD1 : Sys := { c := { fixD21 := true, fixAbort := true, fixFirst := true, fixUpd := true, fixExtCmd := true }, w := { fixD1 := false } }
def unrepairedD21 : Sys := { c := { fixD21 := false, fixAbort := true, fixFirst := true, fixUpd := true, fixExtCmd := true }, w := { fixD1 := true } }

/-- D1: `SyncCrazyflie.open_link`, one packet, link error: the attempt is over, the call is blocked for ever. -/
theorem sync_open_hangs_counterexample :
    ¬ (∀ (d : Dev) (ops : List Op), usage d unrepairedD1 ops = true →
        (run d unrepairedD1 ops).1.w.waitOpen = true → (run d unrepairedD1 ops).1.c.link = true) := by
  intro h
  exact absurd (h ⟨true, 0, 0, [true]⟩ [.syncOpen .ok, .deliver, .err] (by decide) (by decide)) (by decide)

/-- D21: link error while the extended type of the only parameter is being fetched, then a second attempt on the
same object: the stale fetcher and the new one both signal `connected`; the trace is not well formed. -/
def staleFetcherOps : List Op :=
  [.open .ok, .deliver, .deliver, .deliver, .deliver, .deliver, .deliver, .deliver, .work, .err,
   .open .ok, .deliver, .deliver, .deliver, .deliver, .deliver, .deliver, .deliver, .work, .deliver]

theorem stale_fetcher_counterexample :
    usage ⟨true, 0, 0, [true]⟩ unrepairedD21 staleFetcherOps = true ∧
    wfRun {} (run ⟨true, 0, 0, [true]⟩ unrepairedD21 staleFetcherOps).2 = none := by decide

/-- an aborted TocFetcher that could still finish (the guard removed): `close_link` from a port callback during the
dispatch of the packet that completes the parameter TOC: `connected` is delivered after `disconnected`. -/
def abortedFetcherFinishes : Sys := { c := { fixD21 := true, fixAbort := false, fixFirst := true, fixUpd := true, fixExtCmd := true }, w := { fixD1 := true } }

theorem aborted_fetcher_counterexample :
    usage ⟨true, 0, 0, [false]⟩ abortedFetcherFinishes
      [.open .ok, .deliver, .deliver, .deliver, .deliver, .deliver, .deliver, .deliverAct .port .close] = true ∧
    wfRun {} (run ⟨true, 0, 0, [false]⟩ abortedFetcherFinishes
      [.open .ok, .deliver, .deliver, .deliver, .deliver, .deliver, .deliver, .deliverAct .port .close]).2 = none := by decide

/-- D26: second connection on the same object, `close_link` from the application's all-packet callback while the first
packet is dispatched: the re-registered first-packet callback runs afterwards and signals `link_established` after
`disconnected`. -/
def unrepairedD26 : Sys := { c := { fixD21 := true, fixAbort := true, fixFirst := false, fixUpd := true, fixExtCmd := true }, w := { fixD1 := true } }

theorem late_first_packet_cb_counterexample :
    usage ⟨true, 0, 0, []⟩ unrepairedD26 [.open .ok, .deliver, .close, .open .ok, .deliverAct .allPkt .close] = true ∧
    wfRun {} (run ⟨true, 0, 0, []⟩ unrepairedD26 [.open .ok, .deliver, .close, .open .ok, .deliverAct .allPkt .close]).2 = none := by
  decide

/-- D28: a value-updated notification for parameter 0 while the parameter TOC is being downloaded (entry 0 of 2
received): the completion test walks the partial table and `fully_connected` is signalled before `connected`. -/
def unrepairedD28 : Sys := { c := { fixD21 := true, fixAbort := true, fixFirst := true, fixUpd := false, fixExtCmd := true }, w := { fixD1 := true } }

theorem early_fully_connected_counterexample :
    usage ⟨true, 0, 0, [false, false]⟩ unrepairedD28
      [.open .ok, .deliver, .deliver, .deliver, .deliver, .deliver, .deliver, .deliver, .inject (.upd 0)] = true ∧
    wfRun {} (run ⟨true, 0, 0, [false, false]⟩ unrepairedD28
      [.open .ok, .deliver, .deliver, .deliver, .deliver, .deliver, .deliver, .deliver, .inject (.upd 0)]).2 = none := by decide

/-- D29: a value-updated notification for the parameter whose extended type is being fetched is taken for the answer:
`connected` is signalled although the extended type has not been received. -/
def unrepairedD29 : Sys :=
  { c := { fixD21 := true, fixAbort := true, fixFirst := true, fixUpd := true, fixExtCmd := false }, w := { fixD1 := true } }

theorem ext_type_confusion_counterexample :
    let d : Dev := ⟨true, 0, 0, [true]⟩
    let ops : List Op := [.open .ok, .deliver, .deliver, .deliver, .deliver, .deliver, .deliver, .deliver, .work]
    usage d unrepairedD29 (ops ++ [.inject (.upd 0)]) = true ∧
    Out.cb .connected ∈ (step d (run d unrepairedD29 ops).1 (.inject (.upd 0))).2 ∧
    (step d (run d unrepairedD29 ops).1 (.inject (.upd 0))).1.c.extGot = 0 ∧ d.extIds.length = 1 := by decide

/-- the same script on the repaired model is fine (and `trace_wf` covers every script) -/
example : (wfRun {} (run ⟨true, 0, 0, [true]⟩ Sys.init staleFetcherOps).2).isSome = true := by decide

/-! ## Layer M2: locks, joins, thread death (Model/C02Sync on the interleaving semantics of Base/Sched)

Threads: user, dispatcher, radio driver, parameter updater, latency ping, retry timer.  Resources: `_send_lock`,
`wait_lock`, the memory write lock, join(ping), join(radio), and the racy reads of `cf.link`.  A scenario fixes
where the driver reports its (single) error — from its own thread or from inside `send_packet` of one of the sending
threads — what the user thread does (nothing, `close_link`, a memory write, both) and which further thread runs
concurrently; `Sched.run` then ranges over EVERY interleaving of the atomic steps of all these threads. -/

namespace M2
open CfVerif.Sched

/-- the code of this tree has the repairs D2 (lock released in `finally`, error handled after the release, no
self-join), D3, D4, D22 the model's programs are built from -/
theorem repaired_D2_D3_D4_D22 : Fix.ofSource = Fix.repaired := by decide

/-- the scenarios proved (each: every interleaving of its threads) -/
def scenarios : List Scenario :=
  [ ⟨.upd, .idle, []⟩, ⟨.disp, .idle, []⟩, ⟨.timer, .idle, []⟩, ⟨.userMem, .memWrite, []⟩, ⟨.ping, .idle, [tUpd]⟩,
    ⟨.ping, .close, []⟩, ⟨.radio, .memWrite, []⟩, ⟨.radio, .idle, [tUpd]⟩, ⟨.none, .close, [tDisp]⟩, ⟨.radio, .close, []⟩ ]

theorem checked : ∀ sc ∈ scenarios, check Fix.ofSource sc 4000 200 = true := by
  intro sc h
  simp only [scenarios, List.mem_cons, List.not_mem_nil, or_false] at h
  rcases h with h | h | h | h | h | h | h | h | h | h <;> subst h
  · exact chk_A0
  · exact chk_A1
  · exact chk_A2
  · exact chk_A3
  · exact chk_A4
  · exact chk_B0
  · exact chk_B1
  · exact chk_C0
  · exact chk_D0
  · exact chk_E0

/-- **no_thread_death**: after every interleaving, no thread has died (no exception escaped a `run()`):
not the dispatcher on the `link is None` race (D3), not the parameter threads on the double release (D4), not the
ping thread joining itself (D2). -/
theorem no_thread_death (sc : Scenario) (hsc : sc ∈ scenarios) (sch : List Nat) (c : Cfg)
    (h : Sched.run (machine (progs Fix.ofSource sc)) Cfg.init sch = some c) : noDeath c = true :=
  (check_sound _ (progs_length _ _) _ _ (checked sc hsc) sch c h).1

/-- **no_deadlock**: after every interleaving, the quiescent disconnected state — every thread has ended or is
parked outside all locks, no lock is held, the link is gone, the state is DISCONNECTED — is still reachable:
no thread is blocked for ever on `_send_lock`, `wait_lock`, the memory lock, join(ping) or join(radio). -/
theorem no_deadlock (sc : Scenario) (hsc : sc ∈ scenarios) (sch : List Nat) (c : Cfg)
    (h : Sched.run (machine (progs Fix.ofSource sc)) Cfg.init sch = some c) :
    ∃ sch' c', Sched.run (machine (progs Fix.ofSource sc)) c sch' = some c' ∧ goal (progs Fix.ofSource sc) c' = true :=
  (check_sound _ (progs_length _ _) _ _ (checked sc hsc) sch c h).2.2

/-- **disconnected_in_bounded_steps**: from every configuration reached by any interleaving, fair (round-robin)
scheduling reaches the quiescent disconnected state within 200 atomic steps. -/
theorem disconnected_in_bounded_steps (sc : Scenario) (hsc : sc ∈ scenarios) (sch : List Nat) (c : Cfg)
    (h : Sched.run (machine (progs Fix.ofSource sc)) Cfg.init sch = some c) :
    drive (progs Fix.ofSource sc) 200 0 c = true :=
  (check_sound _ (progs_length _ _) _ _ (checked sc hsc) sch c h).2.1

/-- every thread is blocked (or has ended) and the goal is not reached -/
def deadlocked (P : Progs) (c : Cfg) : Bool := threads.all (fun t => (stepT P c t).isNone) && !goal P c

/-! ### the unrepaired code (schedules replayed on the real threads under the virtual scheduler by `search()`) -/

/-- D2: the parameter thread's transmission fails; `_link_error_cb` runs under `_send_lock` and joins the ping
thread, which waits for that lock. -/
theorem send_lock_deadlock_counterexample :
    (Sched.run (machine (progs Fix.unrepaired ⟨.upd, .idle, []⟩)) Cfg.init [3, 3, 3, 3, 3, 3, 2, 3, 3, 3, 3, 3, 3, 4, 3]).map (fun c => deadlocked (progs Fix.unrepaired ⟨.upd, .idle, []⟩) c) = some true := by decide

/-- D2: the ping thread's own transmission fails: `Latency.stop()` joins the current thread, RuntimeError. -/
theorem ping_self_join_counterexample :
    (Sched.run (machine (progs Fix.unrepaired ⟨.ping, .idle, []⟩)) Cfg.init [4, 4, 4, 4, 4, 2, 4, 4, 4, 4, 4, 4, 4, 4]).map (fun c => !noDeath c) = some true := by decide

/-- D3: `close_link` sets `cf.link = None` between the dispatcher's two reads: AttributeError. -/
theorem dispatcher_death_counterexample :
    (Sched.run (machine (progs Fix.unrepaired ⟨.none, .close, [tDisp]⟩)) Cfg.init [0, 0, 0, 0, 0, 1, 2, 0, 0, 1]).map (fun c => !noDeath c) = some true := by decide

/-- D4: `close()` releases `wait_lock` between the parameter thread's acquire and its own release: RuntimeError. -/
theorem updater_death_counterexample :
    (Sched.run (machine (progs Fix.unrepaired ⟨.none, .close, [tUpd]⟩)) Cfg.init [0, 0, 0, 0, 0, 2, 0, 0, 3, 0, 3, 3]).map (fun c => !noDeath c) = some true := by decide

/-- D22: the link error reported for a memory write re-acquires the non-reentrant memory lock in the same thread. -/
theorem mem_lock_self_deadlock_counterexample :
    (Sched.run (machine (progs Fix.unrepaired ⟨.userMem, .memWrite, []⟩)) Cfg.init [0, 0, 0, 0, 0, 2, 0, 0, 0, 0, 4]).map (fun c => deadlocked (progs Fix.unrepaired ⟨.userMem, .memWrite, []⟩) c) = some true := by decide

end M2

end CfVerif.C02

/-
Props/C03 — property theorems for C03 (downloaded log and parameter tables equal the device tables).
Helper lemmas are in Proofs/C03*.  Every theorem is about Model/C03, whose command ids, struct formats,
index expressions, type tables and masks are regenerated from /repo (Gen/C03); the device, its tables and
the adversarial network are Spec/C03.
-/
import CfVerif.Proofs.C03Obj
namespace CfVerif.C03
open CfVerif

/-! ## Gen obligations: what the hand-written model assumes about the current source -/

theorem gen_cb_chan : Gen.C03.cbChan = "packet.channel" := by decide
theorem gen_cb_compares : Gen.C03.cbCompares = ["chan != 0", "self.state == GET_TOC_INFO", "self.nbr_of_items > 0",
    "self.state == GET_TOC_ELEMENT", "ident != self.requested_index", "self.requested_index < self.nbr_of_items - 1"] := by decide
theorem gen_cb_ident : Gen.C03.cbIdentExprs = ["struct.unpack(...)[0]", "payload[0]"] ∧
    Gen.C03.cbAugAssigns = ["self.requested_index += 1"] := by decide
theorem gen_request : Gen.C03.reqTupleV2 = ["CMD_TOC_ITEM_V2", "index & 255", "index >> 8 & 255"] ∧
    Gen.C03.reqTupleV1 = ["CMD_TOC_ELEMENT", "index"] ∧
    Gen.C03.startTuples = ["(CMD_TOC_INFO_V2,)", "(CMD_TOC_INFO,)"] ∧ Gen.C03.tocTocChannel = 0 := by decide
theorem gen_toc_lookup : Gen.C03.tocSplitCalls = ["complete_name.split('.')"] ∧
    Gen.C03.tocByIdCompares = ["self.toc[group][name].ident == ident"] ∧
    Gen.C03.tocByCompleteHandlers = ["ValueError"] := by decide
theorem gen_log_elem : Gen.C03.logNaming = "data[1:]" ∧ Gen.C03.logZt = "bytearray((0,))" ∧
    Gen.C03.logGroupExpr = "naming[:naming.find(zt)].decode('ISO-8859-1')" ∧
    Gen.C03.logNameExpr = "naming[naming.find(zt) + 1:-1].decode('ISO-8859-1')" ∧
    Gen.C03.logCtypeExpr = "LogTocElement.get_cstring_from_id(data[0])" ∧
    Gen.C03.logPytypeExpr = "LogTocElement.get_unpack_string_from_id(data[0])" := by decide
theorem gen_param_elem : Gen.C03.paramGroupExpr = "strs[0]" ∧ Gen.C03.paramNameExpr = "strs[1]" ∧
    Gen.C03.paramStrsExprs = ["struct.unpack('s' * len(data[1:]), data[1:])", "s.split('\\x00')"] ∧
    Gen.C03.paramCtypeExpr = "self.types[metadata & 15][0]" ∧ Gen.C03.paramPytypeExpr = "self.types[metadata & 15][1]" ∧
    Gen.C03.paramAccessAssigns = ["self.access = ParamTocElement.RO_ACCESS", "self.access = ParamTocElement.RW_ACCESS"] ∧
    Gen.C03.paramInitDefaults = ["self.extended = False", "self.ident = ident", "self.persistent = False"] := by decide
theorem gen_ext : Gen.C03.extIdArgs = ["pk.data[1:3]"] ∧ Gen.C03.extRunArgs = ["pk.data[1:3]"] ∧
    Gen.C03.extRunFmt = Gen.C03.extIdFmt ∧ Gen.C03.extTypeExpr = "pk.data[3]" ∧
    Gen.C03.extCbGuard = "pk.channel == MISC_CHANNEL and pk.data[0] == MISC_GET_EXTENDED_TYPE" ∧
    Gen.C03.extCbCompares = ["pk.channel == MISC_CHANNEL", "pk.data[0] == MISC_GET_EXTENDED_TYPE", "self._req_param == var_id",
      "extended_type == ParamTocElement.EXTENDED_PERSISTENT", "self._count == 0", "self._done_callback is not None"] ∧
    Gen.C03.extCbAug = ["self._count -= 1"] ∧
    Gen.C03.extCbMark = ["self._toc.get_element_by_id(var_id).mark_persistent()"] ∧
    Gen.C03.extReqArgs = ["MISC_GET_EXTENDED_TYPE", "element.ident"] ∧
    Gen.C03.extReqCount = ["self._count = len(elements)"] ∧
    Gen.C03.refreshIfTests = ["len(extended_elements) > 0", "element.is_extended()"] := by decide

theorem gen_platform : Gen.C03.platCrtCompares = ["pk.channel == LINKSERVICE_SOURCE", "pk.data[:18].decode('utf8') == 'Bitcraze Crazyflie'"] ∧
    Gen.C03.platCbCompares = ["pk.channel == VERSION_COMMAND", "pk.data[0] == VERSION_GET_PROTOCOL"] ∧
    Gen.C03.platVersionExprs = ["pk.data[1]"] := by decide
/-- D31 repaired: the stored continuation is cleared before it is called (extractor: `_reports_once`).
On the unrepaired tree this obligation is false and `setup_started_once` does not apply to the code. -/
theorem gen_platform_reports_once : Gen.C03.platReportsOnce = true := by decide
/-- the library's type tables agree with the firmware's on every type byte (256 cases each, kernel-evaluated) -/
theorem gen_type_tables : logTableOk = true ∧ paramTableOk = true := ⟨logTableOk_true, paramTableOk_true⟩

/-! ## Element decoding: type byte and the two NUL-terminated strings -/

/-- Every legal log table entry (C strings of any length, each of the eight log types) is decoded to the
device's group, name, index and C type. -/
theorem log_element_decoded (i : Nat) (it : Item) (h : it.WfLog) :
    decodeLog i (itemBytes it) = .ok (specLog i it) := decodeLog_item i it h

/-- Every legal parameter table entry (all eleven type codes, with any combination of the read-only,
extended and unused flag bits) is decoded to the device's group, name, index, C type, access and
extended flag. -/
theorem param_element_decoded (i : Nat) (it : Item) (h : it.WfParam) :
    decodeParam i (itemBytes it) = .ok (specParam i it) := decodeParam_item i it h

example : (⟨7, [0x70, 0x6d], [0x76, 0x62, 0x61, 0x74]⟩ : Item).WfLog := by decide   -- float pm.vbat
example : (⟨0x58, [0x72, 0x69, 0x6e, 0x67], [0x65, 0x66, 0x66]⟩ : Item).WfParam := by decide   -- ro+extended uint8 ring.eff

/-! ## The download under an adversarial network

`Sys` (Spec/C03) is the closed system: the fetcher, the device's TOC server, and a pool that keeps every
reply generated so far.  A schedule is any list of choices `reply i` (deliver pool entry `i`, again if the
adversary likes: duplicates, stale and delayed replies in any order) and `other chan data` (any packet on
another channel of the port).  `Dev.bound` is 65536 entries for the current and 256 for the legacy generation. -/

/-- **fetched_eq_device.**  For every table (any size below the generation's bound, incl. 0, 255, 256, 257),
every CRC and trailing info bytes, both generations, and EVERY delivery schedule: whenever the fetcher has
finished, its dictionary is exactly the one obtained by adding the device's entries 0..n-1 in order, the
finished callback ran exactly once, and the device was asked for the info and then for every index once, in
order; and as long as it has not finished the callback has not run. -/
theorem fetched_eq_device (dec : Nat → Bytes → Except PyErr Elem) (spec : Nat → Item → Elem) (d : Dev)
    (hn : d.items.length < d.bound) (hc : d.crc < 4294967296)
    (hdec : ∀ i it, d.items[i]? = some it → dec i (itemBytes it) = .ok (spec i it))
    (s0 : Sys) (h0 : Sys.init d = some s0) (cs : List Choice) :
    let s := Sys.run dec d s0 cs
    (s.f.st = .done → s.f.toc = tocOf (specElems spec d.items) ∧ s.finished = 1 ∧
        s.sent = d.infoReq :: (List.range d.items.length).map d.itemReq) ∧
    (s.f.st ≠ .done → s.finished = 0) := by
  have hi := run_inv d dec spec hn hc hdec s0 (init_inv d spec s0 h0) cs
  constructor
  · intro hd
    cases hi with
    | info hst => rw [hst] at hd; cases hd
    | element hst => rw [hst] at hd; cases hd
    | done hst htoc hfin hsent => exact ⟨htoc, hfin, hsent⟩
    | aborted hst => rw [hst] at hd; cases hd
  · intro hnd
    cases hi with
    | info _ _ _ hfin => exact hfin
    | element _ _ _ _ _ hfin => exact hfin
    | done hst => exact absurd hst hnd
    | aborted _ hfin => exact hfin

/-- the download can always start (the info request is well-formed) -/
theorem download_starts (d : Dev) : ∃ s0, Sys.init d = some s0 := init_some d

/-- the log table: `fetched_eq_device` with the real `LogTocElement` decoder and the firmware's log types -/
theorem log_fetched_eq_device (d : Dev) (hn : d.items.length < d.bound) (hc : d.crc < 4294967296)
    (hwf : ∀ it ∈ d.items, it.WfLog) (s0 : Sys) (h0 : Sys.init d = some s0) (cs : List Choice) :
    let s := Sys.run decodeLog d s0 cs
    (s.f.st = .done → s.f.toc = tocOf (specElems specLog d.items) ∧ s.finished = 1 ∧
        s.sent = d.infoReq :: (List.range d.items.length).map d.itemReq) ∧
    (s.f.st ≠ .done → s.finished = 0) :=
  fetched_eq_device decodeLog specLog d hn hc
    (fun i it h => decodeLog_item i it (hwf it (List.mem_of_getElem? h))) s0 h0 cs

/-- the parameter table, with the real `ParamTocElement` decoder -/
theorem param_fetched_eq_device (d : Dev) (hn : d.items.length < d.bound) (hc : d.crc < 4294967296)
    (hwf : ∀ it ∈ d.items, it.WfParam) (s0 : Sys) (h0 : Sys.init d = some s0) (cs : List Choice) :
    let s := Sys.run decodeParam d s0 cs
    (s.f.st = .done → s.f.toc = tocOf (specElems specParam d.items) ∧ s.finished = 1 ∧
        s.sent = d.infoReq :: (List.range d.items.length).map d.itemReq) ∧
    (s.f.st ≠ .done → s.finished = 0) :=
  fetched_eq_device decodeParam specParam d hn hc
    (fun i it h => decodeParam_item i it (hwf it (List.mem_of_getElem? h))) s0 h0 cs

/-- **stale_info_ignored.**  While elements are being fetched, a duplicated or delayed info reply changes
nothing and sends nothing: read as an item reply its index is the table size, which is never requested. -/
theorem stale_info_ignored (dec : Nat → Bytes → Except PyErr Elem) (d : Dev) (f : Fetcher)
    (hv : f.v2 = d.v2) (hst : f.st = .element) (hn : d.items.length < d.bound) (hreq : f.req < d.items.length) :
    f.onPacket dec 0 d.info = .ok ⟨f, [], false⟩ :=
  onPacket_element_info d dec f hv hst hn hreq

/-- a stale (or early) item reply for any other index is ignored as well -/
theorem stale_item_ignored (dec : Nat → Bytes → Except PyErr Elem) (d : Dev) (f : Fetcher)
    (hv : f.v2 = d.v2) (hst : f.st = .element) (j : Nat) (hj : j < d.bound) (hne : j ≠ f.req) :
    f.onPacket dec 0 (d.item j) = .ok ⟨f, [], false⟩ :=
  onPacket_element_stale d dec f hv hst j hj hne

/-- **progress / completion.**  From every state reachable under any schedule, the awaited reply is in the
pool, and - unless the link was lost (`disconnect`) - some continuation of at most n+1 deliveries finishes the
download (so a network that eventually delivers the awaited reply cannot keep the download from completing). -/
theorem fetch_completes (dec : Nat → Bytes → Except PyErr Elem) (spec : Nat → Item → Elem) (d : Dev)
    (hn : d.items.length < d.bound) (hc : d.crc < 4294967296)
    (hdec : ∀ i it, d.items[i]? = some it → dec i (itemBytes it) = .ok (spec i it))
    (s0 : Sys) (h0 : Sys.init d = some s0) (cs : List Choice)
    (hlink : (Sys.run dec d s0 cs).f.st ≠ .aborted) :
    ∃ more : List Choice, more.length ≤ d.items.length + 1 ∧
      (Sys.run dec d (Sys.run dec d s0 cs) more).f.st = .done := by
  have hi := run_inv d dec spec hn hc hdec s0 (init_inv d spec s0 h0) cs
  refine completes d dec spec hn hc hdec (d.items.length + 1) _ hi hlink ?_
  unfold Sys.remaining
  split <;> omega

/-! ## What the fetched dictionary contains, and the three lookup paths -/

/-- **table content.**  For a table with pairwise different group.name entries the dictionary built by the
download has exactly the device's entries: entry `i` is found under its (group, name) and under its index,
and nothing else is found by name, by index, or by iterating. -/
theorem toc_eq_device_table (spec : Nat → Item → Elem) (hspec : SpecOk spec) (items : List Item)
    (hu : UniqueNames items) :
    let t := tocOf (specElems spec items)
    (∀ i it, items[i]? = some it → t.get it.group it.name = some (spec i it) ∧ t.byId i = some (spec i it)) ∧
    (∀ g n e, t.get g n = some e → ∃ i it, items[i]? = some it ∧ e = spec i it ∧ it.group = g ∧ it.name = n) ∧
    (∀ i e, t.byId i = some e → ∃ it, items[i]? = some it ∧ e = spec i it) ∧
    (∀ e, e ∈ t.elems ↔ ∃ i it, items[i]? = some it ∧ e = spec i it) := by
  have hp := specElems_pairwise spec hspec items hu
  have hid := specElems_ident_inj spec hspec items
  refine ⟨?_, ?_, ?_, ?_⟩
  · intro i it h
    have hm : spec i it ∈ specElems spec items := (mem_specElems spec items _).mpr ⟨i, it, h, rfl⟩
    have h1 := get_foldl_mem (specElems spec items) [] hp _ hm
    have h2 := byId_tocOf (specElems spec items) hp hid _ hm
    rw [(hspec i it).2.1, (hspec i it).2.2] at h1
    rw [(hspec i it).1] at h2
    exact ⟨h1, h2⟩
  · intro g n e h
    obtain ⟨he, hg, hn⟩ := get_tocOf_some _ hp g n e h
    obtain ⟨i, it, hit, rfl⟩ := (mem_specElems spec items e).mp he
    exact ⟨i, it, hit, rfl, by rw [← (hspec i it).2.1]; exact hg, by rw [← (hspec i it).2.2]; exact hn⟩
  · intro i e h
    obtain ⟨he, hi⟩ := byId_tocOf_some _ hp i e h
    obtain ⟨j, it, hit, rfl⟩ := (mem_specElems spec items e).mp he
    rw [(hspec j it).1] at hi
    subst hi
    exact ⟨it, hit, rfl⟩
  · intro e
    rw [mem_elems_tocOf _ hp, mem_specElems]

/-- **lookup_agree.**  Lookup by complete name, by (group, name) and by index return the same element for
every entry whose group and name contain no dot; and for arbitrary dot-free `g`, `n` the complete-name
lookup of `g.n` is the (group, name) lookup. -/
theorem lookup_agree (spec : Nat → Item → Elem) (hspec : SpecOk spec) (items : List Item) (hu : UniqueNames items) :
    let t := tocOf (specElems spec items)
    (∀ i it, items[i]? = some it → DotFree it.group → DotFree it.name →
      t.byCompleteName (it.group ++ 46 :: it.name) = some (spec i it) ∧
      t.get it.group it.name = some (spec i it) ∧ t.byId i = some (spec i it)) ∧
    (∀ g n, DotFree g → DotFree n → t.byCompleteName (g ++ 46 :: n) = t.get g n) := by
  have hp := specElems_pairwise spec hspec items hu
  have hid := specElems_ident_inj spec hspec items
  have hc := toc_eq_device_table spec hspec items hu
  refine ⟨?_, fun g n hg hn => byCompleteName_tocOf _ hp hid g n hg hn⟩
  intro i it h hg hn
  obtain ⟨h1, h2⟩ := hc.1 i it h
  exact ⟨by rw [byCompleteName_tocOf _ hp hid _ _ hg hn]; exact h1, h1, h2⟩

/-- a complete name without a dot, or with more than one, finds nothing (the `ValueError` of the
two-element unpacking is caught) -/
theorem complete_name_arity (t : Toc) (s : Bytes) (h : (splitDot s).length ≠ 2) : t.byCompleteName s = none := by
  unfold Toc.byCompleteName
  split
  · rename_i g n hs; rw [hs] at h; exact absurd rfl h
  · rfl

/-! ## The `Toc` object over every history of mutations and installs

A `Toc` object changes by `add_element`, `clear()` and by direct assignment of its dictionary (how `TocFetcher`
installs a table found in the cache); lookups may happen at any point in between (before the download, on the
still empty table, during it, after it).  The model's object state is the dictionary alone - which is what the
code has: `gen_toc_object`. -/

theorem gen_toc_object : Gen.C03.tocAttrs = ["self.toc"] ∧ Gen.C03.tocLookupWrites = [] ∧
    Gen.C03.tocClearBody = ["self.toc = {}"] ∧
    Gen.C03.cacheFetch = ["cache_data = self._toc_cache.fetch(self._crc)"] ∧
    Gen.C03.cacheInstall = ["self.toc.toc = cache_data"] ∧ Gen.C03.cacheTests = ["cache_data"] := by decide

/-- what was added, cleared, installed (or looked up) before a table is installed has no influence afterwards -/
theorem history_before_install_irrelevant (pre post : List TocOp) (t : Toc) :
    tocAfter (pre ++ TocOp.install t :: post) = post.foldl TocOp.apply t := by
  unfold tocAfter
  rw [List.foldl_append, List.foldl_cons]
  rfl

/-- **lookup agreement over all histories.**  After ANY history of `add_element` / `clear()` / installs of
well-formed dictionaries (keys unique, each element under its own group and name - what a download produces and
what the cache stores), if the idents in the table are pairwise different then at that point: every stored
element is found under its (group, name), under its index and (dot-free names) under its complete name; and
whatever one lookup path returns, the others return too. -/
theorem lookups_agree_after_any_history (ops : List TocOp) (hinst : ∀ t, TocOp.install t ∈ ops → t.WF)
    (hid : (tocAfter ops).IdentsNodup) :
    let t := tocAfter ops
    (∀ e ∈ t.elems, t.get e.group e.name = some e ∧ t.byId e.ident = some e ∧
      (DotFree e.group → DotFree e.name → t.byCompleteName (e.group ++ 46 :: e.name) = some e)) ∧
    (∀ g n e, t.get g n = some e → e ∈ t.elems ∧ e.group = g ∧ e.name = n ∧ t.byId e.ident = some e) ∧
    (∀ i e, t.byId i = some e → e.ident = i ∧ t.get e.group e.name = some e) ∧
    (∀ g n, DotFree g → DotFree n → t.byCompleteName (g ++ 46 :: n) = t.get g n) := by
  intro t
  have hwf : t.WF := tocAfter_wf ops hinst [] ⟨List.nodup_nil, by intro x hx; cases hx⟩
  refine ⟨?_, ?_, ?_, fun g n hg hn => wf_byCompleteName t hwf hid g n hg hn⟩
  · intro e he
    refine ⟨wf_get_of_mem t hwf e he, byId_of_mem t hid e he, ?_⟩
    intro hg hn
    rw [wf_byCompleteName t hwf hid _ _ hg hn]
    exact wf_get_of_mem t hwf e he
  · intro g n e h
    obtain ⟨he, hg, hn⟩ := wf_get_some t hwf g n e h
    exact ⟨he, hg, hn, byId_of_mem t hid e he⟩
  · intro i e h
    obtain ⟨he, hi⟩ := byId_some t i e h
    exact ⟨hi, wf_get_of_mem t hwf e he⟩

/-- the dictionary a download builds is well-formed (so it may be cached and installed later) -/
theorem downloaded_table_wf (es : List Elem) : (tocOf es).WF := by
  have h : ∀ t0 : Toc, (es.map TocOp.add).foldl TocOp.apply t0 = es.foldl Toc.add t0 := by
    induction es with
    | nil => intro t0; rfl
    | cons e r ih => intro t0; simp only [List.map_cons, List.foldl_cons]; exact ih _
  have := tocAfter_wf (es.map TocOp.add) (by intro t ht; simp at ht) [] ⟨List.nodup_nil, by intro x hx; cases hx⟩
  rw [h] at this; exact this

/-! ## Cache hit: the table is installed instead of downloaded -/

/-- without a cached table the cache-aware callback is the plain one -/
theorem cache_miss_is_download (dec : Nat → Bytes → Except PyErr Elem) (f : Fetcher) (chan : Nat) (data : Bytes) :
    f.onPacketC dec (fun _ => none) chan data = f.onPacket dec chan data := by
  unfold Fetcher.onPacketC
  split
  · rename_i h; simp [Fetcher.onPacket, h]
  · split
    · rename_i hst
      split
      · rename_i e he
        unfold Fetcher.onPacket
        simp [*]
      · rfl
    · rfl

/-- **cache hit.**  In GET_TOC_INFO, when the cache holds a non-empty table for the CRC the device reports, the
info reply alone finishes the download: that table is installed (whatever the holder contained or was asked
before), nothing is requested, the finished callback runs, the callbacks are removed. -/
theorem cache_hit_installs (dec : Nat → Bytes → Except PyErr Elem) (d : Dev) (f : Fetcher)
    (hv : f.v2 = d.v2) (hst : f.st = .info) (hn : d.items.length < d.bound) (hc : d.crc < 4294967296)
    (cache : Nat → Option Toc) (g : Bytes × List (Bytes × Elem)) (t : Toc) (hhit : cache d.crc = some (g :: t)) :
    f.onPacketC dec cache 0 d.info =
      .ok ⟨{ f with nbr := d.items.length, crc := d.crc, toc := g :: t, st := .done }, [], true⟩ := by
  unfold Fetcher.onPacketC
  have hi := info_unpackInfo d hn hc
  simp only [Gen.C03.payloadDrop] at hi ⊢
  simp only [ne_eq, not_true_eq_false, if_false, hst, hv, hi, hhit]

/-! ## Persistence markers -/

/-- fix D29: a misc-channel packet that is not an extended-type answer - in particular the unsolicited
value-updated notification `01 id16 value` for the very parameter whose answer is awaited - leaves the fetcher
unchanged (or raises IndexError when empty, which the dispatcher swallows) -/
theorem notification_ignored_by_ext_fetcher (x : ExtF) (data : Bytes) (h : data.head? ≠ some 2) :
    x.onPacket 3 data = .ok x ∨ ∃ e, x.onPacket 3 data = .error e := xonPacket_notext x data h

/-- **persistent_marks_eq_device.**  `refresh_done` queries exactly the extended parameters; under EVERY
schedule of worker iterations, (re-)deliveries of any extended-type reply generated so far, packets on other
channels, ANY other misc-channel packets (`XChoice.misc`: value-updated notifications for awaited and other
parameters, other misc replies, empty packets) and a disconnect at any point, the done callback (-> `connected`) runs at most once, and when it has run the table is the
downloaded one with `persistent` set on exactly the extended parameters the device reports as persistent
(group, name, index, type, access unchanged). -/
theorem persistent_marks_eq_device (toc0 : Toc) (hnd : (toc0.elems.map (·.ident)).Nodup)
    (hsz : ∀ e ∈ toc0.elems, e.ident < 65536) (pers : Nat → Bool)
    (x0 : ExtF) (hx : refreshDone toc0 = .ok (some x0)) (cs : List XChoice) :
    let s := XSys.run pers ⟨x0, [], []⟩ cs
    s.x.done ≤ 1 ∧
    (s.x.done = 1 → s.x.toc = toc0.mapElems
      (fun e => if e.extended && pers e.ident then { e with persistent := true } else e)) := by
  have hE : ∀ j ∈ extIdents toc0, j < 65536 := by
    intro j hj
    simp only [extIdents, List.mem_map, List.mem_filter] at hj
    obtain ⟨e, ⟨he, _⟩, rfl⟩ := hj
    exact hsz e he
  have hmem : ∀ j ∈ extIdents toc0, j ∈ toc0.elems.map (·.ident) := by
    intro j hj
    simp only [extIdents, List.mem_map, List.mem_filter] at hj ⊢
    obtain ⟨e, ⟨he, _⟩, rfl⟩ := hj
    exact ⟨e, he, rfl⟩
  exact xinv_result toc0 pers hnd _ (xrun_inv _ toc0 pers hnd hE hmem _ (xinit_inv toc0 pers x0 hx) cs)

/-- progress of the extended-type phase: from every state reachable under any schedule, some continuation
(worker iterations and deliveries of the awaited replies) runs the done callback, unless the link was lost
before: `connected` is not prevented by duplicates or stale replies. -/
theorem ext_phase_completes (toc0 : Toc) (hnd : (toc0.elems.map (·.ident)).Nodup)
    (hsz : ∀ e ∈ toc0.elems, e.ident < 65536) (pers : Nat → Bool)
    (x0 : ExtF) (hx : refreshDone toc0 = .ok (some x0)) (cs : List XChoice)
    (hlink : (XSys.run pers ⟨x0, [], []⟩ cs).x.active = true ∨ (XSys.run pers ⟨x0, [], []⟩ cs).x.done = 1) :
    ∃ more : List XChoice, ((XSys.run pers ⟨x0, [], []⟩ cs).run pers more).x.done = 1 := by
  have hE : ∀ j ∈ extIdents toc0, j < 65536 := by
    intro j hj
    simp only [extIdents, List.mem_map, List.mem_filter] at hj
    obtain ⟨e, ⟨he, _⟩, rfl⟩ := hj
    exact hsz e he
  have hmem : ∀ j ∈ extIdents toc0, j ∈ toc0.elems.map (·.ident) := by
    intro j hj
    simp only [extIdents, List.mem_map, List.mem_filter] at hj ⊢
    obtain ⟨e, ⟨he, _⟩, rfl⟩ := hj
    exact ⟨e, he, rfl⟩
  have hi := xrun_inv _ toc0 pers hnd hE hmem _ (xinit_inv toc0 pers x0 hx) cs
  obtain ⟨more, _, h⟩ := xcompletes _ toc0 pers hnd hE hmem _ _ hi hlink (Nat.le_refl _)
  exact ⟨more, h⟩

/-- **the parameter table when `connected` is signalled.**  Download (`param_fetched_eq_device`) followed by the
extended-type phase: for a table with pairwise different names, under every schedule, once the done callback
has run every device entry `i` is found under its (group, name) with the device's index, type, access and
extended flag, and `persistent` is true exactly if the entry is extended and the device reports it persistent. -/
theorem param_table_when_connected (items : List Item) (hn : items.length ≤ 65536) (hu : UniqueNames items)
    (pers : Nat → Bool) (x0 : ExtF) (hx : refreshDone (tocOf (specElems specParam items)) = .ok (some x0))
    (cs : List XChoice) :
    let s := XSys.run pers ⟨x0, [], []⟩ cs
    s.x.done = 1 → ∀ i it, items[i]? = some it →
      s.x.toc.get it.group it.name =
        some { specParam i it with persistent := (specParam i it).extended && pers i } ∧
      (s.x.toc.elems.map (·.ident)).Perm (List.range items.length) := by
  intro s hdone i it hit
  have hnd := tocOf_idents_nodup specParam specParam_ok items hu
  have hp := specElems_pairwise specParam specParam_ok items hu
  have hsz : ∀ e ∈ (tocOf (specElems specParam items)).elems, e.ident < 65536 := by
    intro e he
    obtain ⟨j, jt, hj, rfl⟩ := (mem_specElems specParam items e).mp ((mem_elems_tocOf _ hp e).mp he)
    have : j < items.length := by
      rcases Nat.lt_or_ge j items.length with h | h
      · exact h
      · rw [List.getElem?_eq_none h] at hj; cases hj
    show j < 65536
    omega
  have hres := (persistent_marks_eq_device _ hnd hsz pers x0 hx cs).2 hdone
  have hget := (toc_eq_device_table specParam specParam_ok items hu).1 i it hit
  constructor
  · show s.x.toc.get it.group it.name = _
    rw [hres, mapElems_get, hget.1]
    simp only [Option.map_some, Option.some.injEq]
    cases h : ((specParam i it).extended && pers i) <;> simp_all [specParam]
  · show (s.x.toc.elems.map (·.ident)).Perm _
    rw [hres, mapElems_elems, List.map_map]
    have h1 : (fun e : Elem => e.ident) ∘ (fun e => if (e.extended && pers e.ident) = true then { e with persistent := true } else e)
        = fun e => e.ident := by
      funext e; simp only [Function.comp]; split <;> rfl
    rw [h1]
    have := (elems_tocOf_perm _ hp).map (·.ident)
    rw [specElems_idents specParam specParam_ok] at this
    exact this

/-- without extended parameters there is no query phase: `connected` follows the download directly -/
theorem no_extended_no_queries (toc0 : Toc) (h : ∀ e ∈ toc0.elems, e.extended = false) :
    refreshDone toc0 = .ok none := by
  unfold refreshDone
  have : toc0.elems.filter (·.extended) = [] := by
    rw [List.filter_eq_nil_iff]; intro e he; simp [h e he]
  simp [this]

/-- what the marked table looks like from outside: every lookup returns the downloaded element with the
device's persistence flag, and iteration order is unchanged -/
theorem marked_table_lookups (f : Elem → Elem) (t : Toc) (g n : Bytes) :
    (t.mapElems f).get g n = (t.get g n).map f ∧ (t.mapElems f).elems = t.elems.map f :=
  ⟨mapElems_get f t g n, mapElems_elems f t⟩

/-! ## Abort on disconnect (fix D21): a lost or closed link ends the download for good

`disconnect` is a possible step of every schedule above (`Choice.disconnect`, `XChoice.disconnect`), so
`fetched_eq_device` and `persistent_marks_eq_device` already say: a download interrupted by a disconnect never
signals completion.  The theorems below say what the objects do afterwards. -/

theorem gen_disconnect : Gen.C03.tocStartRegs = ["self.cf.add_port_callback(self.port, self._new_packet_cb)",
      "self.cf.disconnected.add_callback(self._disconnected)"] ∧
    Gen.C03.tocDisconnectedBody = ["self.cf.disconnected.remove_callback(self._disconnected)",
      "self.cf.remove_port_callback(self.port, self._new_packet_cb)"] ∧
    Gen.C03.tocFinishedRemovals = ["self.cf.disconnected.remove_callback(self._disconnected)",
      "self.cf.remove_port_callback(self.port, self._new_packet_cb)"] ∧
    Gen.C03.extInitRegs = ["self._cf.add_port_callback(CRTPPort.PARAM, self._new_packet_cb)",
      "self._cf.disconnected.add_callback(self._disconnected)"] ∧
    Gen.C03.extDisconnectedBody = ["self._req_param = -1", "self._close()"] ∧
    Gen.C03.extCloseRemovals = ["self._cf.disconnected.remove_callback(self._disconnected)",
      "self._cf.remove_port_callback(CRTPPort.PARAM, self._new_packet_cb)"] := by decide

/-- after `disconnect` no callback of the fetcher remains registered, and whatever is delivered to it
afterwards (the dispatcher would not even call it) changes nothing, sends nothing, signals nothing -/
theorem disconnect_unregisters (dec : Nat → Bytes → Except PyErr Elem) (f : Fetcher) (chan : Nat) (data : Bytes) :
    f.disconnect.registered = false ∧
    f.disconnect.onPacket dec chan data = .ok ⟨f.disconnect, [], false⟩ := by
  have hreg : f.disconnect.registered = false := by
    unfold Fetcher.disconnect
    cases h : f.registered
    · simpa using h
    · simp [Fetcher.registered]
  refine ⟨hreg, ?_⟩
  cases hst : f.disconnect.st with
  | info => simp [Fetcher.registered, hst] at hreg
  | element => simp [Fetcher.registered, hst] at hreg
  | done => exact onPacket_done dec _ chan data hst
  | aborted => exact onPacket_aborted dec _ chan data hst

/-- **a download aborted by a disconnect stays silent**: under every schedule before and after the
disconnect, if the download had not finished when the link was lost, it never signals completion, sends no
further request and its state no longer changes (duplicated or late replies of the old session included). -/
theorem aborted_download_is_silent (dec : Nat → Bytes → Except PyErr Elem) (d : Dev) (s1 : Sys)
    (hnd : s1.f.st ≠ .done) (cs : List Choice) :
    Sys.run dec d (s1.step dec d .disconnect) cs = s1.step dec d .disconnect ∧
    (s1.step dec d .disconnect).finished = s1.finished ∧ (s1.step dec d .disconnect).sent = s1.sent ∧
    (s1.step dec d .disconnect).f.registered = false := by
  have hst : (s1.step dec d .disconnect).f.st = .aborted := by
    show s1.f.disconnect.st = .aborted
    unfold Fetcher.disconnect Fetcher.registered
    cases h : s1.f.st
    · simp
    · simp
    · exact absurd h hnd
    · simp [h]
  have hinert : ∀ (s : Sys), s.f.st = .aborted → ∀ c, s.step dec d c = s := by
    intro s hs c
    cases c with
    | reply i =>
      simp only [Sys.step]
      split
      · exact deliver_noop dec d s 0 _ (onPacket_aborted dec s.f 0 _ hs)
      · rfl
    | other chan data =>
      simp only [Sys.step]
      split
      · rfl
      · exact deliver_noop dec d s chan data (onPacket_aborted dec s.f chan data hs)
    | disconnect =>
      simp only [Sys.step]
      have : s.f.disconnect = s.f := by simp [Fetcher.disconnect, Fetcher.registered, hs]
      rw [this]
  refine ⟨?_, rfl, rfl, by simp [Fetcher.registered, hst]⟩
  induction cs with
  | nil => rfl
  | cons c cs ih =>
    show Sys.run dec d ((s1.step dec d .disconnect).step dec d c) cs = _
    rw [hinert _ hst c]; exact ih

/-- **a new download behaves as from the start**: fetcher objects of earlier, disconnected (or finished)
downloads on the same port do not react to the packets of the new one - the port behaves exactly as if the
new fetcher were alone (same state, same requests, same completion signal). -/
theorem stale_fetchers_do_not_interfere (dec : Nat → Bytes → Except PyErr Elem) (old : List Fetcher)
    (hold : ∀ g ∈ old, g.registered = false) (f : Fetcher) (chan : Nat) (data : Bytes) :
    dispatchAll dec chan data (old ++ [f]) =
      match f.onPacket dec chan data with
      | .ok r => (old ++ [r.f], r.sends, if r.finished then 1 else 0)
      | .error _ => (old ++ [f], [], 0) := by
  induction old with
  | nil =>
    simp only [List.nil_append, dispatchAll]
    cases f.onPacket dec chan data <;> simp
  | cons g gs ih =>
    have hg : g.onPacket dec chan data = .ok ⟨g, [], false⟩ := by
      have hr := hold g List.mem_cons_self
      cases hst : g.st with
      | info => simp [Fetcher.registered, hst] at hr
      | element => simp [Fetcher.registered, hst] at hr
      | done => exact onPacket_done dec g chan data hst
      | aborted => exact onPacket_aborted dec g chan data hst
    have := ih (fun x hx => hold x (List.mem_cons_of_mem _ hx))
    simp only [List.cons_append, dispatchAll, this, hg]
    cases f.onPacket dec chan data <;> simp

/-- the extended-type fetcher after a `disconnect` during its phase: unregistered, nothing outstanding, nothing
queued, lock free; no packet and no worker iteration changes it any more, it sends nothing and never calls the
done callback -/
theorem ext_disconnect_aborts (pers : Nat → Bool) (s : XSys) (ha : s.x.active = true) (cs : List XChoice) :
    let s' := s.step pers .disconnect
    s'.x.active = false ∧ s'.x.reqParam = none ∧ s'.x.queue = [] ∧ s'.x.locked = false ∧ s'.x.done = s.x.done ∧
    XSys.run pers s' cs = s' := by
  intro s'
  have hx : s'.x = { s.x with reqParam := none, queue := [], locked := false, active := false } := by
    show s.x.disconnect = _
    simp [ExtF.disconnect, ha]
  refine ⟨by rw [hx], by rw [hx], by rw [hx], by rw [hx], by rw [hx], ?_⟩
  have hinert : ∀ (t : XSys), t.x.active = false → t.x.queue = [] → ∀ c, t.step pers c = t := by
    intro t hta htq c
    cases c with
    | reply i =>
      simp only [XSys.step]
      split
      · unfold XSys.deliver; rw [xonPacket_inactive t.x 3 _ hta]
      · rfl
    | other chan data =>
      simp only [XSys.step]
      split
      · rfl
      · unfold XSys.deliver; rw [xonPacket_inactive t.x chan data hta]
    | worker =>
      simp only [XSys.step]
      have : t.x.worker = none := by unfold ExtF.worker; rw [htq]
      rw [this]
    | misc data =>
      simp only [XSys.step]
      split
      · rfl
      · unfold XSys.deliver; rw [xonPacket_inactive t.x 3 data hta]
    | disconnect =>
      simp only [XSys.step]
      have : t.x.disconnect = t.x := by simp [ExtF.disconnect, hta]
      rw [this]
  have h1 : s'.x.active = false := by rw [hx]
  have h2 : s'.x.queue = [] := by rw [hx]
  induction cs with
  | nil => rfl
  | cons c cs ih =>
    show XSys.run pers (s'.step pers c) cs = s'
    rw [hinert s' h1 h2 c]; exact ih

/-! ## The step that starts the download (PlatformService), fix D31 -/

/-- **setup_started_once** (repaired code).  Whatever packets arrive on the platform and link-control
ports — duplicated, stale, malformed — the connection setup (log reset + table download) is continued at
most once per `fetch_platform_informations`. -/
theorem setup_started_once (pks : List (Nat × Nat × Bytes)) : (Platform.runG true pks).started ≤ 1 := by
  have h := platform_run_inv pks Platform.fetch rfl
  unfold PlatInv at h
  unfold Platform.runG
  rw [h]
  split <;> omega

/-- **D31, unrepaired code**: a second copy of the protocol-version reply continues the setup a second
time (the log table is reset and downloaded again while `connected` is signalled from the first pass). -/
theorem setup_started_once_live_counterexample :
    ¬ (∀ pks, (Platform.runG false pks).started ≤ 1) := by
  intro h
  exact absurd (h [(13, 1, [0, 10]), (13, 1, [0, 10])]) (by decide)

/-- the protocol generation is chosen from the device's version: after the version reply `00 v` the stored
version is `v`, and the fetcher uses the current generation iff `v >= 4` (the firmware's threshold) -/
theorem version_is_devices (p : Platform) (v : UInt8) (rest : Bytes) :
    ∃ q, p.onPacket 13 1 (0 :: v :: rest) = .ok q ∧ q.version = v.toNat := by
  unfold Platform.onPacket Platform.onPacketG Platform.cont
  refine ⟨_, rfl, ?_⟩
  cases p.pending <;> rfl
theorem gen_v2_threshold : Gen.C03.v2MinProtocol = 4 ∧
    Gen.C03.useV2Expr = "self.cf.platform.get_protocol_version() >= 4" := by decide

/-- any number of (duplicated) reset replies after one `refresh_toc` start exactly one log `TocFetcher` -/
theorem log_fetcher_started_once (s : LogStart) (n : Nat) :
    ((List.replicate (n + 1) ()).foldl (fun t _ => t.onResetReply) s.refresh).fetchers = s.fetchers + 1 := by
  have h : ∀ (m : Nat) (t : LogStart), t.tocSet = true →
      ((List.replicate m ()).foldl (fun t _ => t.onResetReply) t) = t := by
    intro m
    induction m with
    | zero => intro t _; rfl
    | succ m ih =>
      intro t ht
      rw [List.replicate_succ, List.foldl_cons]
      have : t.onResetReply = t := by simp [LogStart.onResetReply, ht]
      rw [this]; exact ih t ht
  rw [List.replicate_succ, List.foldl_cons]
  have h1 : s.refresh.onResetReply = { tocSet := true, fetchers := s.fetchers + 1 } := by
    simp [LogStart.onResetReply, LogStart.refresh]
  rw [h1, h n _ rfl]
theorem gen_log_reset_guard : Gen.C03.logResetGuard = "not self.toc" ∧
    Gen.C03.logRefreshTocAssign = ["self.toc = None"] := by decide

/-! ## Non-vacuity: concrete instances -/

/-- a 2-entry V2 log table; the info reply is delivered three times, item 0 twice (once late) -/
def exDev : Dev := ⟨true, [⟨7, [0x70, 0x6d], [0x76]⟩, ⟨5, [0x70, 0x6d], [0x77]⟩], 0xdeadbeef, [16, 128]⟩
example : exDev.items.length < exDev.bound ∧ exDev.crc < 4294967296 ∧ (∀ it ∈ exDev.items, it.WfLog) ∧
    UniqueNames exDev.items := by
  refine ⟨by decide, by decide, by decide, ?_⟩
  unfold UniqueNames; decide
example : (Sys.init exDev).map (fun s0 =>
    let s := Sys.run decodeLog exDev s0 [.reply 0, .reply 0, .other 1 [5, 0, 0], .reply 1, .reply 0, .reply 1, .reply 2, .reply 1]
    (s.f.st, s.finished, s.sent, s.f.toc.elems.map (·.ident))) =
    some (.done, 1, [[3], [2, 0, 0], [2, 1, 0]], [0, 1]) := by decide
/-- an empty table finishes on the info reply alone -/
example : (Sys.init ⟨false, [], 7, []⟩).map (fun s0 => (Sys.run decodeLog ⟨false, [], 7, []⟩ s0 [.reply 0]).f.st) = some .done := by
  decide
/-- two extended parameters (idents 0 and 2), the device says only 2 is persistent; stale reply re-delivered;
value-updated notifications for the awaited parameters (value bytes 1 and 0) arrive while their answers are awaited -/
def exToc : Toc := tocOf [specParam 0 ⟨0x18, [0x61], [0x62]⟩, specParam 1 ⟨0x08, [0x61], [0x63]⟩, specParam 2 ⟨0x58, [0x64], [0x62]⟩]
example : ((refreshDone exToc).toOption.bind id).map (fun x0 =>
    let s := XSys.run (· == 2) ⟨x0, [], []⟩ [.worker, .misc [1, 0, 0, 1], .worker, .reply 0, .reply 0, .worker, .misc [1, 2, 0, 0],
      .misc [], .reply 0, .reply 1, .reply 1]
    (s.x.done, s.x.toc.elems.map (·.persistent))) = some (1, [false, false, true]) := by decide
/-- D21, the unrepaired behaviour for comparison: a fetcher whose download was interrupted but which was NOT
disconnected still answers the info reply of the next session - the item request goes out twice; after
`disconnect` only the new fetcher asks. -/
theorem undisconnected_fetcher_interferes :
    (dispatchAll decodeLog 0 exDev.info
      [⟨.info, 0, 0, 0, true, []⟩, ⟨.info, 0, 0, 0, true, []⟩]).2.1 = [[2, 0, 0], [2, 0, 0]] ∧
    (dispatchAll decodeLog 0 exDev.info
      [(⟨.info, 0, 0, 0, true, []⟩ : Fetcher).disconnect, ⟨.info, 0, 0, 0, true, []⟩]).2.1 = [[2, 0, 0]] := by
  decide
/-- a download interrupted by a disconnect after the first item: later replies are ignored, nothing is signalled -/
example : (Sys.init exDev).map (fun s0 =>
    let s := Sys.run decodeLog exDev s0 [.reply 0, .reply 1, .disconnect, .reply 2, .reply 1, .reply 0]
    (s.f.st, s.finished, s.sent.length, s.f.registered)) = some (.aborted, 0, 3, false) := by decide
example : (Platform.runG true [(15, 1, magic), (13, 1, [0, 10]), (13, 1, [0, 10])]).started = 1 := by decide

end CfVerif.C03

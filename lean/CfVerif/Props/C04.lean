/-
Props/C04 - property theorems for C04 (parameter writes and reads are typed correctly and never cross-attributed).
Helper lemmas are in Proofs/C04*.  Every theorem is about Model/C04 (host) and Spec/C04 (device, closed system), whose
constants, formats, slice lengths and reply-routing mechanism are regenerated from /repo (Gen/C04).
`S2F` is CPython's `float(str)` (only reached when a *string* is passed for a float-typed parameter).
-/
import CfVerif.Proofs.C04Sess
namespace CfVerif.C04
open CfVerif

variable (S2F : List Char → Except PyErr Nat)

/-! ## Gen obligations: what the hand-written model assumes about the current source -/

/-- misc replies: one self-removing port callback per request which compares the command byte AND the 16-bit parameter
id of the reply (fix D5); the dispatcher iterates over a snapshot of its callback list (fix D7) -/
theorem gen_misc_routing : Gen.C04.miscRouting = 1 ∧ Gen.C04.dispatchSnapshot = true ∧
    Gen.C04.getDefaultMatch = ["pk.channel == MISC_CHANNEL", "pk.data[0] == MISC_GET_DEFAULT_VALUE", "struct.unpack('<H', pk.data[1:3])[0] == element.ident"] ∧
    Gen.C04.getStateMatch = ["pk.channel == MISC_CHANNEL", "pk.data[0] == MISC_PERSISTENT_GET_STATE", "struct.unpack('<H', pk.data[1:3])[0] == element.ident"] ∧
    Gen.C04.storeMatch = ["pk.channel == MISC_CHANNEL", "pk.data[0] == MISC_PERSISTENT_STORE", "struct.unpack('<H', pk.data[1:3])[0] == element.ident"] ∧
    Gen.C04.clearMatch = ["pk.channel == MISC_CHANNEL", "pk.data[0] == MISC_PERSISTENT_CLEAR", "struct.unpack('<H', pk.data[1:3])[0] == element.ident"] :=
  ⟨rfl, rfl, rfl, rfl, rfl, rfl⟩
/-- channels and misc commands are those of the firmware protocol (DESIGN Appendix D) -/
theorem gen_channels : Gen.C04.TOC_CHANNEL = 0 ∧ Gen.C04.READ_CHANNEL = 1 ∧ Gen.C04.WRITE_CHANNEL = 2 ∧ Gen.C04.MISC_CHANNEL = 3 := by
  decide
theorem gen_misc_commands : Gen.C04.MISC_VALUE_UPDATED = 1 ∧ Gen.C04.MISC_GET_EXTENDED_TYPE = 2 ∧ Gen.C04.MISC_PERSISTENT_STORE = 3 ∧
    Gen.C04.MISC_PERSISTENT_GET_STATE = 4 ∧ Gen.C04.MISC_PERSISTENT_CLEAR = 5 ∧ Gen.C04.MISC_GET_DEFAULT_VALUE = 6 ∧ Gen.C04.ENOENT = 2 := by
  decide
/-- the type table gives every numeric type code one little-endian item of the firmware's width and kind, and the float
test of `set_value` selects exactly float and double -/
theorem gen_type_table (t : NumType) : (typeFmt t.code).isSome = true ∧ parseFmt! (fmtOf t.code) = [t.structCode] ∧
    ((fmtOf t.code == "<f") = (t == .f32)) ∧ ((fmtOf t.code == "<d") = (t == .f64)) := type_table t
/-- `set_value`: the order of the refusals and of the enqueue, the conversions and the packed expressions -/
theorem gen_set_value :
    Gen.C04.setRefusalTests = ["not element", "element.access == ParamTocElement.RO_ACCESS"] ∧
    Gen.C04.setRefusalRaises = ["KeyError", "AttributeError"] ∧ Gen.C04.setRefusalSends = [] ∧
    Gen.C04.setLastStatement = "self.param_updater.request_param_setvalue(pk)" ∧
    Gen.C04.setElseUpdaterCalls = ["self.param_updater.request_param_setvalue(pk)"] ∧
    Gen.C04.setFloatTest = "element.pytype == '<f' or element.pytype == '<d'" ∧
    Gen.C04.setConversions = ["value_nr = float(value)", "value_nr = int(value)"] ∧
    Gen.C04.setPackArgs = ["'<H'|varid", "'<B'|varid", "element.pytype|value_nr"] ∧
    Gen.C04.setV2Test = "self._useV2" ∧ Gen.C04.RO_ACCESS = 1 := by decide

/-- the updater thread: `get`, then `acquire`, then transmit; the three lock-pattern and release-pattern slices; the status
byte of a V2 read reply is cut out; `release()` is guarded by `try` only on the read/write path; the pattern is disarmed
(`_lock_pattern = None`) on both paths when an answer is accepted -/
theorem gen_updater :
    Gen.C04.runCalls = ["self.request_queue.get()", "self.wait_lock.acquire()",
      "self.cf.send_packet(pk, expected_reply=tuple(self._lock_pattern))", "self.cf.send_packet(pk, expected_reply=tuple(pk.data[:1]))",
      "self.wait_lock.release()"] ∧
    Gen.C04.runTests = ["not self._should_close", "self.cf.link", "self._useV2", "pk.channel == MISC_CHANNEL"] ∧
    (Gen.C04.patLenMisc = 3 ∧ Gen.C04.patLenV2 = 2 ∧ Gen.C04.patLenV1 = 1 ∧ Gen.C04.relLenMisc = 3 ∧ Gen.C04.relLenV2 = 2 ∧ Gen.C04.relLenV1 = 1) ∧
    Gen.C04.cbStrip = ["pk.data[:2] + pk.data[3:]"] ∧
    Gen.C04.cbCalls = ["self.updated_callback(pk)", "self.wait_lock.release()", "self.updated_callback(pk)", "self.wait_lock.release()"] ∧
    Gen.C04.cbTryBodies = ["self.wait_lock.release()"] ∧
    Gen.C04.cbComparesCore = ["pk.channel == READ_CHANNEL", "pk.channel == WRITE_CHANNEL", "pk.channel == READ_CHANNEL",
      "self._lock_pattern == release_pattern", "pk.channel == MISC_CHANNEL", "command == MISC_VALUE_UPDATED",
      "self._lock_pattern == release_pattern"] ∧
    Gen.C04.cbPatternAssigns = ["None", "None"] ∧
    Gen.C04.updaterInitPortCb = ["self.cf.add_port_callback(CRTPPort.PARAM, self._new_packet_cb)"] :=
  ⟨rfl, rfl, gen_lens, rfl, rfl, rfl, rfl, rfl, rfl⟩

/-- `_param_updated`: where the index and the value are read from, what is cached, and when "all updated" is signalled
(connected, every value fetched, not signalled before) -/
theorem gen_param_updated :
    Gen.C04.updatedIdIndex = ["1", "0"] ∧
    Gen.C04.updatedVarId = ["struct.unpack('<H', pk.data[id_index:id_index + 2])[0]", "pk.data[0]"] ∧
    Gen.C04.updatedUnpacks = ["'<H'|pk.data[id_index:id_index + 2]", "element.pytype|pk.data[id_index + 2:]", "element.pytype|pk.data[1:]"] ∧
    Gen.C04.updatedValueStr = ["value.__str__()"] ∧ Gen.C04.updatedStore = ["value_s"] ∧
    Gen.C04.updatedCompleteTest = ["self.cf.is_connected()", "self._check_if_all_updated()", "not self.is_updated"] ∧
    Gen.C04.updatedCompleteBody = ["self.is_updated = True", "self._initialized.set()", "self.all_updated.call()"] ∧
    Gen.C04.updatedCalls = ["self.param_update_callbacks[complete_name].call(complete_name, value_s)",
      "self.group_update_callbacks[element.group].call(complete_name, value_s)", "self.all_update_callback.call(complete_name, value_s)",
      "self.all_updated.call()", "self._initialized.set()"] :=
  ⟨rfl, rfl, rfl, rfl, rfl, rfl, rfl, rfl⟩

/-- reads: index width from the protocol version at call time; misc requests: `<BH` command, index; registration tests -/
theorem gen_requests :
    Gen.C04.readPackArgs = ["'<H'|var_id", "'<B'|var_id"] ∧
    Gen.C04.readUseV2 = ["self._useV2 = self.cf.platform.get_protocol_version() >= 4"] ∧
    parseFmt! Gen.C04.miscReqFmt = [.B, .H] ∧
    Gen.C04.getDefaultReqArgs = ["MISC_GET_DEFAULT_VALUE", "element.ident"] ∧ Gen.C04.getStateReqArgs = ["MISC_PERSISTENT_GET_STATE", "element.ident"] ∧
    Gen.C04.storeReqArgs = ["MISC_PERSISTENT_STORE", "element.ident"] ∧ Gen.C04.clearReqArgs = ["MISC_PERSISTENT_CLEAR", "element.ident"] ∧
    Gen.C04.getDefaultRegisterTest = "" ∧ Gen.C04.getStateRegisterTest = "" ∧
    Gen.C04.storeRegisterTest = "callback is not None" ∧ Gen.C04.clearRegisterTest = "callback is not None" ∧
    Gen.C04.getDefaultGuards = [] ∧ Gen.C04.getStateGuards = ["not element.is_persistent()"] ∧
    Gen.C04.storeGuards = ["not element", "not element.is_persistent()"] ∧ Gen.C04.clearGuards = ["not element.is_persistent()"] :=
  ⟨rfl, rfl, gen_misc_fmt, rfl, rfl, rfl, rfl, rfl, rfl, rfl, rfl, rfl, rfl, rfl, rfl⟩

/-- the reply handlers: status / ENOENT tests and where the values are unpacked from -/
theorem gen_handlers :
    Gen.C04.getDefaultHandlerCompares.drop 3 = ["pk.data[3] == errno.ENOENT"] ∧
    Gen.C04.getDefaultHandlerUnpacks.drop 1 = ["element.pytype|pk.data[3:]"] ∧
    Gen.C04.getStateHandlerCompares.drop 3 = ["pk.data[3] == errno.ENOENT", "pk.data[3] == 1"] ∧
    Gen.C04.getStateHandlerUnpacks.drop 1 = ["element.pytype|pk.data[4:]", "f'<{just_type * 2}'|pk.data[4:]"] ∧
    Gen.C04.storeHandlerCompares.drop 3 = ["pk.data[3] == 0"] ∧ Gen.C04.clearHandlerCompares.drop 3 = ["pk.data[3] == 0"] :=
  ⟨rfl, rfl, rfl, rfl, rfl, rfl⟩

/-! ## Clause 1a: the bytes of a write -/

/-- Setting an integer-typed parameter (any of the eight integer type codes) to an in-range value queues exactly one
packet on the write channel: the parameter's index (2 bytes little-endian for protocol >= 4, else 1 byte) followed by
the value in two's-complement little-endian in the width of the parameter's declared type. -/
theorem set_value_wire_int (h : Host) (cn : List Nat) (e : Elem) (t : NumType) (v : Int) (inCb : Bool)
    (hinit : h.initialized = true) (hl : elemByName h.toc cn = some e) (hrw : e.ro = false)
    (ht : e.tcode = t.code) (hint : t.isFloat = false) (hid : e.ident < 256 ^ idWidth h.useV2) (hv : t.InRange v) :
    let p : Pkt := { chan := 2, data := leBytes (idWidth h.useV2) e.ident ++ encodeInt t.width v }
    setValue S2F h cn (.int v) inCb = (enqueue h p, [.enq p none]) := by
  intro p
  have hp : setValuePkt S2F h cn (.int v) = .ok p := by
    rw [setValuePkt_elem S2F h cn e _ hl hrw hid, Elem.fmt_eq, ht, valueBytes_int S2F t hint]
    simp only [pyInt, hv, if_true]
    rfl
  simp only [setValue, gate, hinit, if_true, hp]

/-! ## Clause 1b: after the device's reply, cache, `get_value` and the update callbacks carry the device's value -/

/-- `set_roundtrip`.  In an idle, fully connected system let `e` be a writable parameter of any of the ten numeric types,
known to the device under the same index and type.  For ANY Python value `x` that `set_value` accepts for that type
(`vb` = its bytes in the declared type), the call, the two updater steps and the delivery of the device's reply:
transmit exactly one packet, `index ++ vb` on the write channel; the device's value becomes `vb`; `vb` is the encoding
of a value `val` of the declared type (and `struct.unpack` of `vb` gives `val` back); `get_value` returns `val`; the update
callbacks invoked are exactly the `fanout` of `val` (each registration once, `fanout_each_once`); the system is idle again. -/
theorem set_roundtrip (s : Sys) (e : Elem) (t : NumType) (dp : DevParam) (hr : WriteReady s e t dp) (x : PyVal)
    (vb : List UInt8) (hvb : valueBytes S2F e.fmt x = .ok vb) (thread : Nat) :
    ∃ s' outs val,
      Sys.run S2F Variant.code s [.api thread (.setValue [e.group, e.name] x false), .updGet, .updSend, .deliver] = some (s', outs) ∧
      txsOf outs = [{ chan := 2, data := leBytes (idWidth s.dev.v2) e.ident ++ vb }] ∧
      s'.dev = s.dev.setValue e.ident vb ∧
      unpack1 e.fmt vb = .ok val ∧ pack [t.structCode] [val] = .ok vb ∧
      getValue s'.host [e.group, e.name] false = (s'.host, [.ret val]) ∧
      updatesOf outs = fanout s.host e.group e.name val ∧
      s'.Idle ∧ s'.down = [] :=
  write_roundtrip S2F Variant.code gen_misc_routing.1 gen_misc_routing.2.1 s e t dp hr x vb hvb thread

/-- reads (`request_param_update`, also what fills the cache at connection): one packet `index` on the read channel; the
device answers `index [status] value`; the status byte of the current protocol generation is removed before decoding; the cache
and the update callbacks carry the device's value -/
theorem read_roundtrip_sys (s : Sys) (e : Elem) (t : NumType) (dp : DevParam) (hr : ReadReady s e t dp) (thread : Nat) :
    ∃ s' outs val,
      Sys.run S2F Variant.code s [.api thread (.requestUpdate [e.group, e.name]), .updGet, .updSend, .deliver] = some (s', outs) ∧
      txsOf outs = [{ chan := 1, data := leBytes (idWidth s.dev.v2) e.ident }] ∧
      rxdsOf outs = [{ chan := 1, data := leBytes (idWidth s.dev.v2) e.ident ++ (if s.dev.v2 then [0] else []) ++ dp.value }] ∧
      s'.dev = s.dev ∧ unpack1 e.fmt dp.value = .ok val ∧ getVal s'.host.values e.group e.name = some val ∧
      updatesOf outs = fanout s.host e.group e.name val ∧ s'.Idle ∧ s'.down = [] :=
  read_roundtrip S2F Variant.code gen_misc_routing.1 gen_misc_routing.2.1 s e t dp hr thread

/-- a double too large for binary32 written to a `float` parameter raises `OverflowError`; nothing is queued -/
theorem float_overflow_raises (h : Host) (cn : List Nat) (e : Elem) (b : Nat) (inCb : Bool)
    (hinit : h.initialized = true) (hl : elemByName h.toc cn = some e) (hrw : e.ro = false) (ht : e.tcode = NumType.f32.code)
    (hid : e.ident < 256 ^ idWidth h.useV2) (hov : f64ToF32 b = .error .overflow) :
    setValue S2F h cn (.flt b) inCb = (h, [.raised .overflow]) := by
  have hp : setValuePkt S2F h cn (.flt b) = .error .overflow := by
    rw [setValuePkt_elem S2F h cn e _ hl hrw hid, Elem.fmt_eq, ht, valueBytes_f32]
    simp only [pyFloat, hov]
  simp only [setValue, gate, hinit, if_true, hp]

/-- ... in particular for every integer type and every in-range integer `v`: the bytes are `v` in two's complement of the
type's width and the cached / announced value is `v` -/
theorem set_roundtrip_int (s : Sys) (e : Elem) (t : NumType) (dp : DevParam) (hr : WriteReady s e t dp) (hint : t.isFloat = false)
    (v : Int) (hv : t.InRange v) (thread : Nat) :
    ∃ s' outs,
      Sys.run S2F Variant.code s [.api thread (.setValue [e.group, e.name] (.int v) false), .updGet, .updSend, .deliver] = some (s', outs) ∧
      txsOf outs = [{ chan := 2, data := leBytes (idWidth s.dev.v2) e.ident ++ encodeInt t.width v }] ∧
      s'.dev = s.dev.setValue e.ident (encodeInt t.width v) ∧
      getValue s'.host [e.group, e.name] false = (s'.host, [.ret (.int v)]) ∧
      updatesOf outs = fanout s.host e.group e.name (.int v) ∧ s'.Idle := by
  have hvb : valueBytes S2F e.fmt (.int v) = .ok (encodeInt t.width v) := by
    rw [Elem.fmt_eq, hr.ty, valueBytes_int S2F t hint]; simp only [pyInt, hv, if_true]
  obtain ⟨s', outs, val, h1, h2, h3, h4, _, h6, h7, h8, _⟩ := set_roundtrip S2F s e t dp hr (.int v) _ hvb thread
  have hval : val = .int v := by
    have hv2 := hvb
    rw [Elem.fmt_eq, hr.ty] at hv2
    obtain ⟨_, val', hd', _, hn⟩ := valueBytes_roundtrip S2F t (.int v) _ hv2
    obtain ⟨n, hn1, _, hn3, _⟩ := hn hint
    simp only [pyInt, Except.ok.injEq] at hn1
    subst hn1
    rw [Elem.fmt_eq, hr.ty, hd'] at h4
    rw [← Except.ok.inj h4, hn3]
  subst hval
  exact ⟨s', outs, h1, h2, h3, h6, h7, h8⟩

/-- every registered update callback is called exactly once per registration that covers the parameter (its name, its
group, everything), with the parameter's name and the new value; `Caller` keeps registrations duplicate-free -/
theorem fanout_each_once (h : Host) (g n : Nat) (v : Val) (cb : Nat) :
    (fanout h g n v).count (.update cb [g, n] v) = h.nameCbs.count (g, n, cb) + h.groupCbs.count (g, cb) + h.allCbs.count cb ∧
    (∀ x ∈ fanout h g n v, ∃ c, x = .update c [g, n] v) := by
  refine ⟨fanout_count h g n v cb, ?_⟩
  intro x hx
  simp only [fanout, List.mem_append, List.mem_map] at hx
  rcases hx with (⟨y, _, rfl⟩ | ⟨y, _, rfl⟩) | ⟨y, _, rfl⟩ <;> exact ⟨_, rfl⟩

theorem registrations_nodup (h : Host) (g n : Option Nat) (cb : Nat)
    (hn : h.nameCbs.Nodup ∧ h.groupCbs.Nodup ∧ h.allCbs.Nodup) :
    (addCb h g n cb).nameCbs.Nodup ∧ (addCb h g n cb).groupCbs.Nodup ∧ (addCb h g n cb).allCbs.Nodup := by
  unfold addCb
  repeat' split
  all_goals first
    | exact hn
    | exact ⟨addUnique_nodup _ hn.1, hn.2.1, hn.2.2⟩
    | exact ⟨hn.1, addUnique_nodup _ hn.2.1, hn.2.2⟩
    | exact ⟨hn.1, hn.2.1, addUnique_nodup _ hn.2.2⟩

/-! ## Clause 2: refusal without transmission, range errors -/

/-- An unknown parameter is refused with `KeyError`, a read-only one with `AttributeError`; nothing is queued and the
state is unchanged (so nothing is ever transmitted for the call). -/
theorem refused_without_tx (h : Host) (cn : List Nat) (x : PyVal) (inCb : Bool) (hinit : h.initialized = true) :
    (elemByName h.toc cn = none → setValue S2F h cn x inCb = (h, [.raised .keyError])) ∧
    (∀ e, elemByName h.toc cn = some e → e.ro = true → setValue S2F h cn x inCb = (h, [.raised .attributeError])) := by
  constructor
  · intro hn
    simp only [setValue, gate, hinit, if_true, setValuePkt, hn]
  · intro e he hro
    simp only [setValue, gate, hinit, if_true, setValuePkt, he, hro]

/-- A value outside the range of the parameter's integer type raises `struct.error`; it is never wrapped, nothing is
queued and the state is unchanged. -/
theorem out_of_range_raises (h : Host) (cn : List Nat) (e : Elem) (t : NumType) (v : Int) (inCb : Bool)
    (hinit : h.initialized = true) (hl : elemByName h.toc cn = some e) (hrw : e.ro = false)
    (ht : e.tcode = t.code) (hint : t.isFloat = false) (hid : e.ident < 256 ^ idWidth h.useV2) (hv : ¬ t.InRange v) :
    setValue S2F h cn (.int v) inCb = (h, [.raised .structError]) := by
  have hp : setValuePkt S2F h cn (.int v) = .error .structError := by
    rw [setValuePkt_elem S2F h cn e _ hl hrw hid, Elem.fmt_eq, ht, valueBytes_int S2F t hint]
    simp only [pyInt, hv, if_false]
  simp only [setValue, gate, hinit, if_true, hp]

/-- Whatever is passed, a `set_value` call that raises has changed nothing and queued nothing. -/
theorem set_value_raise_unchanged (h : Host) (cn : List Nat) (x : PyVal) (inCb : Bool) (er : PyErr) (o : List Out) (h' : Host)
    (hr : setValue S2F h cn x inCb = (h', o)) (hmem : Out.raised er ∈ o) : h' = h ∧ o = [.raised er] := by
  unfold setValue at hr
  split at hr
  · cases hr; simp only [List.mem_singleton] at hmem; subst hmem; exact ⟨rfl, rfl⟩
  · split at hr
    · cases hr; simp only [List.mem_singleton, Out.raised.injEq] at hmem; subst hmem; exact ⟨rfl, rfl⟩
    · cases hr; simp at hmem

/-! ## Clause 3: one request at a time, in issue order, each answered before the next is sent -/

theorem code_variant : Variant.code = { routing := 1, snap := true } := by
  simp only [Variant.code, gen_misc_routing.1, gen_misc_routing.2.1]

/-- The closed system: real `Param` code (model) + device + packets in flight, started with nothing queued or outstanding.
For EVERY event list - API calls from any number of threads (`Ev.api thread call`), the two steps of the updater thread,
deliveries by the incoming-packet thread after arbitrary delays, firmware-side value changes with or without
notification, in any interleaving:
1. the requests transmitted so far, followed by the one the updater holds and the queue, are exactly the requests issued,
   in issue order (nothing lost, duplicated or reordered);
2. transmissions and lock releases alternate, starting with a transmission, and each release happens while handling a
   packet that answers the outstanding request: request n+1 is sent only after the reply to request n was delivered;
3. the k-th reply delivered answers the k-th request transmitted (unsolicited notifications never count as replies). -/
theorem one_outstanding_fifo (s0 : Sys) (h0 : s0.Idle) (evs : List Ev) (s : Sys) (outs : List Out)
    (hrun : Sys.run S2F Variant.code s0 evs = some (s, outs)) :
    txsOf outs ++ s.host.cur.toList ++ s.host.queue = (enqsOf outs).map Prod.fst ∧
    (altRun s0.dev.v2 none (obsOf outs)).isSome = true ∧
    answersZip s0.dev.v2 (txsOf outs) (solicited (rxdsOf outs)) = true := by
  obtain ⟨hi0, _⟩ := Inv.init h0
  rw [code_variant] at hrun
  obtain ⟨A, G, W, hi, _⟩ := run_inv S2F _ rfl rfl evs s0 [] [] [] [] hi0 s outs hrun
  simp only [List.nil_append] at hi
  refine ⟨?_, ?_, hi.ans⟩
  · rw [hi.enq, List.map_append, hi.gq, hi.txs]; simp
  · obtain ⟨st, h1, _⟩ := hi.alt
    rw [h1]; rfl

/-! ## Clause 4: attribution of replies -/

/-- Every persistent-store/clear/get-state/default-value reply is handed exactly once to the handler registered by the
request it answers, and to no other: the caller callbacks invoked during a run are exactly what the handler of the k-th
issued request does with the k-th delivered reply (k = 1, 2, ...; requests without handler - reads, writes, store/clear
without callback - consume their reply silently), in that order, and nothing else.  By `one_outstanding_fifo` the k-th
delivered reply is the device's answer to the k-th issued request.

PARTIAL: holds under `DistinctAlong` - in every visited state the registered reply callbacks and the callback-less
unanswered misc requests have pairwise distinct (command, parameter).  Without it the statement is false for the
repaired code (`reply_attribution_duplicates_counterexample`, finding D5b). The full statement is the same without `hd`. -/
theorem reply_attribution_partial (s0 : Sys) (h0 : s0.Idle) (evs : List Ev) (s : Sys) (outs : List Out)
    (hrun : Sys.run S2F Variant.code s0 evs = some (s, outs)) (hd : DistinctAlong S2F Variant.code s0 [] evs) :
    miscCallsOf outs = expectedMisc (enqsOf outs) (solicited (rxdsOf outs)) := by
  obtain ⟨hi0, ha0⟩ := Inv.init h0
  rw [code_variant] at hrun hd
  obtain ⟨A, G, W, hi, ha⟩ := run_inv S2F _ rfl rfl evs s0 [] [] [] [] hi0 s outs hrun
  simp only [List.nil_append] at hi ha
  rw [(ha ha0 hd).misc, hi.enq, expectedMisc_append_unmatched A G _ hi.rx]

/-! ## Duplicated, late and stale replies: the open system

`EvX` adds `inject p` to the events: the incoming-packet thread dispatches an ARBITRARY packet at an arbitrary moment - the
second answer to a request that was retransmitted on a `needs_resending` link, an answer delayed past later traffic, garbage. -/

/-- For every history of the open system: FIFO of requests as before; `_lock_pattern` is armed exactly while `wait_lock` is
held (so an idle updater has no pattern); transmissions and releases alternate and a release only happens while handling a
packet that carries the index (misc: command + index) armed by the outstanding request - hence every transmitted request is
accepted as answered AT MOST ONCE, whatever is duplicated or replayed. -/
theorem open_lock_discipline (s0 : Sys) (h0 : s0.Idle) (evs : List EvX) (s : Sys) (outs : List Out)
    (hrun : Sys.runX S2F Variant.code s0 evs = some (s, outs)) :
    txsOf outs ++ s.host.cur.toList ++ s.host.queue = (enqsOf outs).map Prod.fst ∧
    (altRunM s0.dev.v2 none (obsOf outs)).isSome = true ∧
    s.host.pattern.isSome = s.host.lockHeld := by
  rw [code_variant] at hrun
  have hi := runX_invO S2F _ rfl rfl evs s0 [] (InvO.init h0) s outs hrun
  simp only [List.nil_append] at hi
  obtain ⟨st, h1, _⟩ := hi.alt
  exact ⟨hi.fifo, by rw [h1]; rfl, hi.lock⟩

/-- ANY state: a read/write-channel packet whose index bytes are not the armed pattern changes nothing and calls nobody -/
theorem unmatched_reply_ignored (h : Host) (p : Pkt) (hc : p.chan = 1 ∨ p.chan = 2)
    (hne : h.pattern ≠ some (relPattern h.updV2 p)) : rx Variant.code h p = (h, [.rxd p]) :=
  rx_unmatched Variant.code gen_misc_routing.1 gen_misc_routing.2.1 h p hc hne

/-- Nothing outstanding: after ANY history of the open system, when the updater is idle every read/write-channel packet
(duplicate, late, stale, forged) is ignored - cache, lock and callbacks untouched. -/
theorem stale_reply_ignored_when_idle (s0 : Sys) (h0 : s0.Idle) (evs : List EvX) (s : Sys) (outs : List Out)
    (hrun : Sys.runX S2F Variant.code s0 evs = some (s, outs)) (hidle : s.host.lockHeld = false)
    (p : Pkt) (hc : p.chan = 1 ∨ p.chan = 2) : rx Variant.code s.host p = (s.host, [.rxd p]) := by
  obtain ⟨_, _, hl⟩ := open_lock_discipline S2F s0 h0 evs s outs hrun
  apply unmatched_reply_ignored s.host p hc
  rw [hidle] at hl
  intro hp; rw [hp] at hl; cases hl

/-- Something else outstanding: after ANY history, while request `req` is outstanding a read/write-channel packet that does
not carry `req`'s index is ignored - in particular it neither releases the updater nor reaches any callback. -/
theorem reply_for_other_request_ignored (s0 : Sys) (h0 : s0.Idle) (evs : List EvX) (s : Sys) (outs : List Out)
    (hrun : Sys.runX S2F Variant.code s0 evs = some (s, outs)) (req : Pkt)
    (hout : altRunM s0.dev.v2 none (obsOf outs) = some (some req))
    (p : Pkt) (hc : p.chan = 1 ∨ p.chan = 2) (hm : Matches s0.dev.v2 req p = false) :
    rx Variant.code s.host p = (s.host, [.rxd p]) := by
  rw [code_variant] at hrun
  have hi := runX_invO S2F _ rfl rfl evs s0 [] (InvO.init h0) s outs hrun
  simp only [List.nil_append] at hi
  obtain ⟨st, h1, _, h3⟩ := hi.alt
  rw [hout] at h1
  have hpat := h3 req (Option.some.inj h1).symm
  apply unmatched_reply_ignored s.host p hc
  rw [hpat, hi.updV2]
  intro heq
  have hne3 : p.chan ≠ 3 := by rcases hc with h | h <;> omega
  have : Matches s0.dev.v2 req p = true := by
    unfold Matches
    rw [if_neg hne3, Option.some.inj heq]
    simp
  rw [this] at hm; cases hm

/-- Each update callback exactly once per answered request: in ANY state a read/write-channel packet either is ignored
(nothing changes, no callback), or raises inside the updater's callback before anything changed, or it matched the armed
pattern - then `_param_updated` runs exactly once (`fo` = one fan-out, `fanout_each_once`) and the updater is released, which
by `open_lock_discipline` happens at most once per transmitted request. -/
theorem update_callbacks_once_per_answer (h : Host) (p : Pkt) (hc : p.chan = 1 ∨ p.chan = 2) :
    rx Variant.code h p = (h, [.rxd p]) ∨
    (∃ e, rx Variant.code h p = (h, [.rxd p, .cbError e])) ∨
    (h.pattern = some (relPattern h.updV2 p) ∧ ∃ h1 fo, paramUpdated h (stripStatus h.updV2 p) = .ok (h1, fo) ∧
      rx Variant.code h p = (release h1, .rxd p :: (fo ++ [.released p]))) :=
  rx_rw_cases Variant.code gen_misc_routing.1 gen_misc_routing.2.1 h p hc

/-! ## The registration lifecycle of the reply handlers (sequential histories included)

A misc request registers its one-shot handler when it is issued; the handler must be gone once the request is answered,
whatever the reply says - otherwise it would be handed the replies to LATER requests for the same parameter, which need not
overlap with it at all. -/

/-- Tie A: in each of the four `new_packet_cb` closures every path taken after a matching reply - the early `return` of the
ENOENT test and the normal end - runs `remove_port_callback` (extracted by path analysis; the model's handlers use these flags) -/
theorem gen_handler_unregisters : Gen.C04.getDefaultEnoentUnreg = true ∧ Gen.C04.getDefaultEndUnreg = true ∧
    Gen.C04.getStateEnoentUnreg = true ∧ Gen.C04.getStateEndUnreg = true ∧ Gen.C04.storeEndUnreg = true ∧ Gen.C04.clearEndUnreg = true :=
  gen_unreg

/-- every reply variant the device can give (`ReplyOK`: ENOENT or any body whose first byte is 2 - which covers default values
starting with 2 -, the default value, not-stored + default, stored + default + stored value, a status byte): the handler calls
the caller's callback exactly once and unregisters itself -/
theorem handler_done_on_every_reply (e : Pending) (t : NumType) (ht : e.tcode = t.code) (hne : e.noElem = false)
    (hrid : (e.kind = .getDefault ∨ e.kind = .getState) → e.rid.isSome = true)
    (body : List UInt8) (hok : ReplyOK e.kind t.width body) (p : Pkt) (hd : p.data = e.key ++ body) :
    (handleMisc e p).2 = true ∧ (∀ r, e.rid = some r → ∃ res, (handleMisc e p).1 = [.misc r e.cn res]) :=
  handleMisc_done e t ht hne hrid body hok p hd

/-- For every history of the closed system in which host table and device agree on index and numeric type (`TocOK`), device
values have the width of their type (`DevWF`, `TypedSetsAlong`), and overlapping requests satisfy `DistinctAlong`
(vacuous for sequential histories): after the run the registered handlers are EXACTLY the handlers of the requests whose
reply has not been delivered yet.  A request that has been answered - with any reply variant - has no handler left. -/
theorem answered_requests_have_no_handler (s0 : Sys) (h0 : s0.Idle) (htoc : TocOK s0.host.toc s0.dev) (hwf : DevWF s0.dev)
    (evs : List Ev) (s : Sys) (outs : List Out) (hrun : Sys.run S2F Variant.code s0 evs = some (s, outs))
    (hd : DistinctAlong S2F Variant.code s0 [] evs) (hts : TypedSetsAlong S2F Variant.code s0 evs) :
    handlersOf s.host.pending = (unanswered outs).filterMap Prod.snd := by
  obtain ⟨hi0, ha0⟩ := Inv.init h0
  have hT0 : AttT s0 [] [] :=
    { toc := htoc, devwf := hwf, pendEq := (by rw [h0.pending]; rfl),
      typed := (fun x hx _ _ => nomatch hx), inflight := (fun req rep hw _ _ _ _ _ => nomatch hw) }
  rw [code_variant] at hrun hd hts
  obtain ⟨A, G, W, hi, hall⟩ := run_all S2F _ rfl rfl evs s0 [] [] [] [] hi0 s outs hrun
  simp only [List.nil_append] at hi hall
  rw [hi.unanswered]
  exact (hall ha0 hT0 hd hts).2.pendEq

/-- ... and then no later packet is delivered to it: with no handler registered (the never-firing leftovers of
`get_default_value(<unknown name>)` aside) dispatching ANY packet calls no misc callback -/
theorem no_handler_no_delivery (h : Host) (hn : handlersOf h.pending = []) (q : Pkt) :
    miscCallsOf (rx Variant.code h q).2 = [] := by
  have hall : ∀ e ∈ h.pending, e.noElem = true := by
    intro e he
    by_cases hne : e.noElem = true
    · exact hne
    · have : e ∈ handlersOf h.pending := List.mem_filter.mpr ⟨he, by simpa using hne⟩
      rw [hn] at this; cases this
  unfold rx
  rcases hu : updaterRx h q with ⟨h1, o1, p1⟩
  obtain ⟨sq, nio, _, _, _⟩ := updaterRx_spec hu
  simp only
  rw [miscRx_snap Variant.code gen_misc_routing.1 gen_misc_routing.2.1]
  have hnf : ∀ e ∈ h1.pending, oneShotMatches true e p1 ≠ .ok true := by
    intro e he hf
    rw [sq.pending] at he
    have hne := hall e he
    unfold oneShotMatches at hf
    repeat' split at hf
    all_goals first | (cases hf; done) | simp_all
  obtain ⟨o2, hsn, q2⟩ := oneShotSnap_nofire (p := p1) h1.pending h1 [] hnf
  rw [hsn]
  obtain ⟨_, _, _, _, r5⟩ := rx_proj (p := q) nio (fun x hx => quiet_noCtl (q2 x (by simpa using hx)))
  simp only [List.nil_append] at r5 ⊢
  rw [r5]
  exact (quiet_proj q2).2.2.2.2

/-! ## Re-entrant callbacks: the callback of a misc request calls the API again from inside the reply dispatch

`Scripts`: what each caller callback does when it is called - a list of further API calls (for the same or other parameters,
any request kind), executed where the handler calls the callback: after the reply was decoded, before the handler unregisters
itself, inside the dispatch of that packet.  `Sys.runS` is the closed system with such callbacks. -/

/-- Tie A: in every handler the caller's callback runs BEFORE `remove_port_callback` (the model orders them this way; an
exception escaping the callback therefore leaves the handler registered) -/
theorem gen_callback_before_unregister : Gen.C04.unregAfterCallback = true := by decide

/-- a nested delivery is the plain delivery followed by the API calls of the callback that ran: the handler registered for a
request issued from inside the dispatch of packet k never sees packet k (snapshot dispatch) -/
theorem nested_delivery_is_flat {v2 : Bool} (sc : Scripts) (p4 : Bool) {h1 : Host} {p : Pkt} {x : Pkt × Option Pending}
    {G1 : List (Pkt × Option Pending)} (hwf : ReqWF v2 x) (hch : p.chan = x.1.chan)
    (hbody : x.1.chan = 3 → ∃ body, p.data = x.1.data ++ body)
    (hsub : ((x :: G1).filterMap Prod.snd).Sublist h1.pending) (hkd : KeysDistinct h1.pending (x :: G1))
    (hclean : ∀ e, Out.cbError e ∉ (oneShotSnapS S2F Variant.code p4 sc true p h1.pending h1 []).2) :
    FlatOf S2F Variant.code p4 sc h1 p :=
  snapS_flat S2F Variant.code gen_misc_routing.1 p4 sc hwf hch hbody hsub hkd hclean

/-- For EVERY history of the closed system with re-entrant callbacks (any scripts, nested to any depth over time) in which no
callback raises and overlapping requests satisfy `DistinctAlongS`: requests - including those issued from inside a dispatch,
at the moment their callback runs - go on the wire in issue order, one at a time, each answered before the next; and the misc
callbacks invoked are exactly what the handler of the k-th issued request does with the k-th delivered reply. -/
theorem nested_fifo_and_attribution (sc : Scripts) (s0 : Sys) (h0 : s0.Idle) (evs : List Ev) (s : Sys) (outs : List Out)
    (hrun : Sys.runS S2F Variant.code sc s0 evs = some (s, outs)) (hd : DistinctAlongS S2F Variant.code sc s0 [] evs)
    (hclean : ∀ er, Out.cbError er ∉ outs) :
    txsOf outs ++ s.host.cur.toList ++ s.host.queue = (enqsOf outs).map Prod.fst ∧
    (altRun s0.dev.v2 none (obsOf outs)).isSome = true ∧
    answersZip s0.dev.v2 (txsOf outs) (solicited (rxdsOf outs)) = true ∧
    miscCallsOf outs = expectedMisc (enqsOf outs) (solicited (rxdsOf outs)) := by
  obtain ⟨hi0, ha0⟩ := Inv.init h0
  rw [code_variant] at hrun hd
  obtain ⟨A, G, W, hi, ha⟩ := runS_inv S2F _ rfl rfl sc evs s0 [] [] [] [] hi0 ha0 s outs hrun hd hclean
  simp only [List.nil_append] at hi ha
  refine ⟨?_, ?_, hi.ans, ?_⟩
  · rw [hi.enq, List.map_append, hi.gq, hi.txs]; simp
  · obtain ⟨st, h1, _⟩ := hi.alt
    rw [h1]; rfl
  · rw [ha.misc, hi.enq, expectedMisc_append_unmatched A G _ hi.rx]

/-! ## The retransmission path (`Crazyflie.send_packet` on a `needs_resending` link)

`SysR` adds `_answer_patterns`, the retry timers and `_check_for_answers`; a timer is two events (`expire`: it woke up and can no
longer be cancelled; `timerRun`: its callback calls `send_packet(resend=True, retry_timer=itself)`), so the answer and the
next request may come in between.  The transmit / arm conditions are the ones extracted from the source (`Gen.C04.sendTransmits`,
`sendArms`). -/

/-- the extracted guard: a retry whose timer is not the one registered for the pattern (the answer came, or a NEWER request
registered its own timer under the same pattern) neither transmits nor re-arms; the registered one does both; a first
transmission always goes out and arms a timer exactly on `needs_resending` links -/
theorem gen_retry_guard :
    (∀ lo he nr pe : Bool, Gen.C04.sendTransmits lo he true nr pe false = false ∧ Gen.C04.sendArms lo he true nr pe false = false) ∧
    (∀ he nr pe : Bool, Gen.C04.sendTransmits true he true nr pe true = true ∧ Gen.C04.sendArms true he true nr pe true = true) ∧
    (∀ he nr pe ti : Bool, Gen.C04.sendTransmits true he false nr pe ti = true ∧ Gen.C04.sendArms true he false nr pe ti = (he && nr)) ∧
    Gen.C04.retryFreshPattern = "(pk.header,) + expected_reply" ∧ Gen.C04.retryResendPattern = "expected_reply" ∧
    Gen.C04.updaterExpectedReply = ["tuple(self._lock_pattern)", "tuple(pk.data[:1])"] ∧
    Gen.C04.checkCompares = ["len(self._answer_patterns) > 0", "len(p) <= len(data)", "p == data[0:len(p)]",
      "len(match) >= len(longest_match)", "len(longest_match) > 0"] ∧
    Gen.C04.checkFinalBody = ["self._answer_patterns[longest_match].cancel()", "del self._answer_patterns[longest_match]"] ∧
    Gen.C04.retryCalls = ["self.send_packet(pk, expected_reply=pattern, resend=True, timeout=timeout, retry_timer=timer)"] :=
  ⟨gen_guard_stale, gen_guard_live, gen_fresh, rfl, rfl, rfl, rfl, rfl, rfl⟩

/-- What reaches the wire, for EVERY history of the system with retransmission (API calls from any thread, updater steps,
deliveries, injected duplicates, timer expiries and timer callbacks in any order, `needs_resending` on or off): first
transmissions and accepted answers alternate, and every RETRANSMISSION repeats the request that is outstanding at that
moment - never a request whose answer was accepted, and never an older request while a newer one with the same
(channel, index) pattern is outstanding.  The only excuse is an answer accepted from the other channel before (a stale
or forged packet, finding D5c), after which `altRunR` no longer constrains retransmissions. -/
theorem retransmit_only_outstanding (s0 : SysR) (h0 : s0.base.Idle) (hp : s0.pats = []) (evs : List EvR)
    (s : SysR) (outs : List Out) (w : List ObsR) (hrun : SysR.run S2F Variant.code s0 evs = some (s, outs, w)) :
    (altRunR s0.base.dev.v2 (none, false) w).isSome = true := by
  rw [code_variant] at hrun
  have hi := runR_invR S2F _ rfl rfl evs s0 [] [] (InvR.init h0 hp) s outs w hrun
  obtain ⟨st, x, h1, _⟩ := hi.r
  simp only [List.nil_append] at h1
  rw [h1]; rfl

/-! ## The code before the fix (D5) and what remains after it (D5b) -/

def noS2F : List Char → Except PyErr Nat := fun _ => .error .other
/-- three persistent `uint8_t` parameters with defaults 10, 20, 30 -/
def cxDev : Dev := { v2 := true, params := [⟨8, [1], false, true, [10], none⟩, ⟨8, [2], false, true, [20], none⟩, ⟨8, [3], false, true, [30], none⟩] }
def cxToc : List Elem := [⟨0, 1, 0, 8, false, true⟩, ⟨1, 1, 1, 8, false, true⟩, ⟨2, 1, 2, 8, false, true⟩]
def cxSys : Sys := { host := { Host.init cxToc true with updV2 := true, initialized := true, isUpdated := true }, dev := cxDev, down := [] }
/-- one request goes out, is answered and the answer is delivered -/
def pump : List Ev := [.updGet, .updSend, .deliver]

/-- 1e39 does not fit binary32 -/
example : f64ToF32 0x48078287F49C4A1D = .error .overflow := by decide +kernel
example : cxSys.Idle := ⟨rfl, rfl, rfl, rfl, rfl, rfl, rfl, rfl⟩

/-- what the callers' callbacks are told during a run -/
def miscRun (v : Variant) (evs : List Ev) : Option (List Out) := (Sys.run noS2F v cxSys evs).map fun r => miscCallsOf r.2
/-- ... and what they must be told -/
def miscSpec (v : Variant) (evs : List Ev) : Option (List Out) :=
  (Sys.run noS2F v cxSys evs).map fun r => expectedMisc (enqsOf r.2) (solicited (rxdsOf r.2))

def threeDefaults : List Ev :=
  [.api 0 (.getDefault [1, 0] 100), .api 0 (.getDefault [1, 1] 101), .api 0 (.getDefault [1, 2] 102)] ++ pump ++ pump ++ pump

/-- D5, the code before the fix (callbacks match the command byte only; live-list dispatch): with three default-value
queries outstanding the third caller is told the default of the FIRST parameter (10 instead of 30) -/
theorem reply_attribution_counterexample :
    miscRun { routing := 0, snap := false } threeDefaults =
      some [.misc 100 [1, 0] (.dflt (some (.int 10))), .misc 102 [1, 2] (.dflt (some (.int 10))), .misc 101 [1, 1] (.dflt (some (.int 20)))] ∧
    miscSpec { routing := 0, snap := false } threeDefaults =
      some [.misc 100 [1, 0] (.dflt (some (.int 10))), .misc 101 [1, 1] (.dflt (some (.int 20))), .misc 102 [1, 2] (.dflt (some (.int 30)))] := by
  decide +kernel

/-- the repaired code attributes them correctly -/
example : miscRun Variant.code threeDefaults = miscSpec Variant.code threeDefaults ∧
    distinctAlongB noS2F Variant.code cxSys [] threeDefaults = true := by decide +kernel

def stateStoreState : List Ev :=
  [.api 0 (.getState [1, 0] 100), .api 1 (.store [1, 0] (some 101)), .api 0 (.getState [1, 0] 102)] ++ pump ++ pump ++ pump

/-- D5b, the repaired code without the side condition: `persistent_get_state(p); persistent_store(p); persistent_get_state(p)`
issued together - both state callbacks fire on the first reply ("not stored"), the last reply reaches nobody -/
theorem reply_attribution_duplicates_counterexample :
    miscRun Variant.code stateStoreState =
      some [.misc 100 [1, 0] (.state (some (false, .int 10, none))), .misc 102 [1, 0] (.state (some (false, .int 10, none))),
            .misc 101 [1, 0] (.status true)] ∧
    miscSpec Variant.code stateStoreState =
      some [.misc 100 [1, 0] (.state (some (false, .int 10, none))), .misc 101 [1, 0] (.status true),
            .misc 102 [1, 0] (.state (some (true, .int 10, some (.int 1))))] ∧
    distinctAlongB noS2F Variant.code cxSys [] stateStoreState = false := by
  decide +kernel

/-- one update callback (id 7) registered for everything -/
def cxSys7 : Sys := { cxSys with host := { cxSys.host with allCbs := [7] } }
def runX7 (evs : List EvX) : Option (List Out × List (List UInt8) × List Out) :=
  (Sys.runX noS2F Variant.code cxSys7 evs).map fun r =>
    (updatesOf r.2, r.1.dev.params.map (·.value), (getValue r.1.host [1, 0] false).2)

def set10 : List EvX := ([Ev.api 0 (.setValue [1, 0] (.int 10) false)] ++ pump).map EvX.ev
/-- the answer to `set_value(p0, 10)`, delivered once more -/
def dup10 : EvX := .inject ⟨2, [0, 0, 10]⟩

/-- duplicate while idle, and while a request for ANOTHER parameter is outstanding: one callback per `set_value`, cache = device -/
example : runX7 (set10 ++ [dup10]) = some ([.update 7 [1, 0] (.int 10)], [[10], [2], [3]], [.ret (.int 10)]) := by decide +kernel
example : runX7 (set10 ++ [.ev (.api 0 (.setValue [1, 1] (.int 6) false)), .ev .updGet, .ev .updSend, dup10, .ev .deliver]) =
    some ([.update 7 [1, 0] (.int 10), .update 7 [1, 1] (.int 6)], [[10], [6], [3]], [.ret (.int 10)]) := by decide +kernel
example : Matches true ⟨2, [1, 0, 6]⟩ ⟨2, [0, 0, 10]⟩ = false := by decide

/-- D5c (known finding, not repairable without sequence numbers in the protocol): a duplicate of the answer to
`set_value(p0, 10)` arriving while `set_value(p0, 20)` is outstanding carries the same index and is accepted as ITS answer:
the callback is told 10 again, the cache says 10 while the device has 20, and the real answer is then ignored. -/
theorem stale_same_id_counterexample :
    runX7 (set10 ++ [.ev (.api 0 (.setValue [1, 0] (.int 20) false)), .ev .updGet, .ev .updSend, dup10, .ev .deliver]) =
      some ([.update 7 [1, 0] (.int 10), .update 7 [1, 0] (.int 10)], [[20], [2], [3]], [.ret (.int 10)]) := by
  decide +kernel

/-! ## Re-entrant callbacks, concretely -/

/-- the state callback (id 1) of `persistent_get_state(p0)` stores p0 and asks for its state again (callbacks 2 and 3) -/
def reScripts : Scripts := fun r => if r = 1 then [.store [1, 0] (some 2), .getState [1, 0] 3] else []
def miscRunS (v : Variant) (evs : List Ev) : Option (List Out) := (Sys.runS noS2F v reScripts cxSys evs).map fun r => miscCallsOf r.2
def reEvs : List Ev := [.api 0 (.getState [1, 0] 1)] ++ pump ++ pump ++ pump

/-- snapshot dispatch (the code): every callback once, with the reply to its own request; the second query sees "stored" -/
example : miscRunS Variant.code reEvs =
    some [.misc 1 [1, 0] (.state (some (false, .int 10, none))), .misc 2 [1, 0] (.status true),
          .misc 3 [1, 0] (.state (some (true, .int 10, some (.int 1))))] := by decide +kernel
/-- live-list dispatch (D7 undone): the handler registered DURING the dispatch of the first reply consumes that old reply
("not stored") before its own request was even transmitted -/
theorem live_dispatch_reentrant_counterexample :
    miscRunS { routing := 1, snap := false } reEvs =
      some [.misc 1 [1, 0] (.state (some (false, .int 10, none))), .misc 3 [1, 0] (.state (some (false, .int 10, none))),
            .misc 2 [1, 0] (.status true)] := by decide +kernel

/-! ## Sequential requests, concretely -/

/-- the host believes p0 persistent, the device does not: `persistent_get_state` is answered ENOENT -/
def cxSysE : Sys := { cxSys with dev := { cxDev with params := [⟨8, [1], false, false, [10], none⟩, ⟨8, [2], false, true, [2], none⟩, ⟨8, [3], false, true, [30], none⟩] } }
def miscRunE (evs : List Ev) : Option (List Out × List Pending) :=
  (Sys.run noS2F Variant.code cxSysE evs).map fun r => (miscCallsOf r.2, r.1.host.pending)

/-- ENOENT, then the same query again (sequential), then a default value whose first byte is 2, twice: each callback once, no
handler left -/
example : miscRunE ([.api 0 (.getState [1, 0] 1)] ++ pump ++ [.api 0 (.getState [1, 0] 2)] ++ pump ++
      [.api 0 (.getDefault [1, 1] 3)] ++ pump ++ [.api 0 (.getDefault [1, 1] 4)] ++ pump ++ [.api 0 (.store [1, 0] (some 5))] ++ pump) =
    some ([.misc 1 [1, 0] (.state none), .misc 2 [1, 0] (.state none), .misc 3 [1, 1] (.dflt none), .misc 4 [1, 1] (.dflt none),
           .misc 5 [1, 0] (.status false)], []) := by decide +kernel
example : TocOK cxSys.host.toc cxSys.dev ∧ ReplyOK .getState 1 [2] ∧ ReplyOK .getState 1 [1, 10, 7] ∧ ReplyOK .getDefault 2 [2, 0] := by
  refine ⟨?_, Or.inl rfl, Or.inr ⟨1, [10, 7], rfl, Or.inl ⟨rfl, rfl⟩⟩, Or.inl rfl⟩
  intro el hel
  simp only [cxSys, Host.init, cxToc, List.mem_cons, List.mem_singleton, List.not_mem_nil, or_false] at hel
  rcases hel with rfl | rfl | rfl <;> exact ⟨by decide, ⟨1, rfl, by decide, by decide⟩, _, rfl, rfl⟩

/-! ## The retransmission path, concretely -/

def cxSysR : SysR := { base := cxSys, nr := true, pats := [], timers := [] }
def wireR (evs : List EvR) : Option (List ObsR × List TState) :=
  (SysR.run noS2F Variant.code cxSysR evs).map fun r => (r.2.2, r.1.timers.map (·.state))
def sendR (v : Int) : List EvR := [.x (.ev (.api 0 (.setValue [1, 0] (.int v) false))), .x (.ev .updGet), .x (.ev .updSend)]

/-- the interleaving: the answer to `set 5` arrives after its timer expired but before the callback ran; `set 7` (same
pattern) is transmitted and arms its own timer; then the stale callback runs: nothing goes on the wire -/
example : wireR (sendR 5 ++ [.expire 0, .x (.ev .deliver)] ++ sendR 7 ++ [.timerRun 0, .x (.ev .deliver)]) =
    some ([.tx ⟨2, [0, 0, 5]⟩, .rel ⟨2, [0, 0, 5]⟩, .tx ⟨2, [0, 0, 7]⟩, .rel ⟨2, [0, 0, 7]⟩], [.done, .cancelled]) := by decide +kernel
/-- a legitimate retransmission: no answer yet when the callback runs -/
example : wireR (sendR 5 ++ [.expire 0, .timerRun 0, .x (.ev .deliver)]) =
    some ([.tx ⟨2, [0, 0, 5]⟩, .retx ⟨2, [0, 0, 5]⟩, .rel ⟨2, [0, 0, 5]⟩], [.done, .cancelled]) := by decide +kernel

/-! ## Non-vacuity -/

example : WriteReady cxSys ⟨0, 1, 0, 8, false, true⟩ .u8 ⟨8, [1], false, true, [10], none⟩ :=
  ⟨⟨rfl, rfl, rfl, rfl, rfl, rfl, rfl, rfl⟩, rfl, rfl, rfl, by decide, by decide, rfl, rfl, by decide, rfl, rfl, rfl⟩
example : (Sys.run noS2F Variant.code cxSys [.api 7 (.setValue [1, 0] (.int 200) false), .updGet, .updSend, .deliver]).map
    (fun r => (txsOf r.2, r.1.dev.params.map (·.value), (getValue r.1.host [1, 0] false).2)) =
    some ([⟨2, [0, 0, 200]⟩], [[200], [2], [3]], [.ret (.int 200)]) := by decide +kernel
/-- 1.5 as a double written to a `float` parameter: bytes of 1.5f -/
example : valueBytes noS2F (fmtOf NumType.f32.code) (.flt 0x3FF8000000000000) = .ok [0, 0, 0xC0, 0x3F] := by decide +kernel
/-- a run that satisfies the side condition of `reply_attribution_partial`, with three requests outstanding together -/
example : distinctAlongB noS2F Variant.code cxSys []
    ([.api 0 (.getDefault [1, 0] 1), .api 1 (.getState [1, 1] 2), .api 2 (.store [1, 2] none), .devSet 1 [9] true] ++ pump ++ pump ++ [.deliver] ++ pump)
    = true := by decide +kernel


def exToc : List Elem := [⟨0, 1, 1, 0x08, false, true⟩, ⟨1, 1, 2, 0x01, false, false⟩, ⟨2, 2, 1, 0x06, true, false⟩]
def exHost : Host := { Host.init exToc true with initialized := true }

example : elemByName exHost.toc [1, 2] = some ⟨1, 1, 2, 0x01, false, false⟩ ∧ NumType.i16.InRange (-2) := by decide
example : setValue (fun _ => .error .other) exHost [1, 2] (.int (-2)) false =
    (enqueue exHost ⟨2, [1, 0, 0xfe, 0xff]⟩, [.enq ⟨2, [1, 0, 0xfe, 0xff]⟩ none]) := by decide
example : setValue (fun _ => .error .other) exHost [1, 2] (.int 32768) false = (exHost, [.raised .structError]) := by decide
example : setValue (fun _ => .error .other) exHost [2, 1] (.int 1) false = (exHost, [.raised .attributeError]) := by decide
example : setValue (fun _ => .error .other) exHost [7] (.int 1) false = (exHost, [.raised .keyError]) := by decide

/-! ## Several connections of one Crazyflie object (`close_link` / `open_link` to a device with ANOTHER parameter table)

The `Param` and `_ParamUpdater` objects outlive a connection.  Tie A pins ALL their attributes and what the two reset points do;
the model's `Host.reconnect` keeps exactly what the code keeps. -/

/-- every attribute of `Param` and of `_ParamUpdater`, what `_connection_requested` / `_disconnected` / `close()` reset, and that
`_param_updated` finds the element in the CURRENT table and reads no other state: the per-connection attributes (`toc`, `values`,
`is_updated`, `_initialized`, `_useV2`) are reset or recomputed for every connection, the others are the callbacks registered by
name, the objects themselves, and the updater's `_lock_pattern` / `_useV2` (`Host.reconnect`) -/
theorem gen_session_state :
    Gen.C04.paramAttrs = ["_initialized", "_useV2", "all_update_callback", "all_updated", "cf", "group_update_callbacks", "is_updated",
      "param_update_callbacks", "param_updater", "toc", "values"] ∧
    Gen.C04.updatedElement = ["self.toc.get_element_by_id(var_id)"] ∧
    Gen.C04.updatedReads = ["_check_if_all_updated", "_initialized", "_useV2", "all_update_callback", "all_updated", "cf",
      "group_update_callbacks", "is_updated", "param_update_callbacks", "toc", "values"] ∧
    Gen.C04.updatedStores = ["is_updated"] ∧
    Gen.C04.connReqStores = ["self.is_updated = False", "self.toc = Toc()", "self.values = {}"] ∧
    Gen.C04.connReqCalls = ["self._initialized.clear"] ∧
    Gen.C04.disconnStores = ["self.toc = Toc()", "self.values = {}"] ∧ Gen.C04.disconnCalls = ["self.param_updater.close"] ∧
    Gen.C04.updaterAttrs = ["_lock_pattern", "_should_close", "_useV2", "cf", "daemon", "request_queue", "updated_callback", "wait_lock"] ∧
    Gen.C04.updaterCloseStores = [] ∧ Gen.C04.updaterCloseCalls = ["self.request_queue.get", "self.wait_lock.release"] :=
  ⟨rfl, rfl, rfl, rfl, rfl, rfl, rfl, rfl, rfl, rfl, rfl⟩

/-- NO LEAK between connections: what a value packet (fetch reply, write answer, value-updated notification) makes the library
decode, cache and report after a reconnection is the same whatever the earlier connections were - their tables, cached values,
requests; it is determined by the NEW table and the callbacks registered by name -/
theorem reconnect_forgets_previous_connections (h1 h2 : Host) (hn : h1.nameCbs = h2.nameCbs) (hg : h1.groupCbs = h2.groupCbs)
    (ha : h1.allCbs = h2.allCbs) (toc : List Elem) (v2 : Bool) (p : Pkt) :
    (paramUpdated (h1.reconnect toc v2) p).map (fun r => (r.1.valueView, r.2)) =
      (paramUpdated (h2.reconnect toc v2) p).map (fun r => (r.1.valueView, r.2)) :=
  reconnect_no_leak h1 h2 hn hg ha toc v2 p

/-- a connection closed while nothing is outstanding leaves the objects ready: the next connection starts `Idle` for ITS device -/
theorem next_connection_starts_idle {s : Sys} (h : s.Idle) (toc : List Elem) (d : Dev) (hv : d.v2 = s.dev.v2) :
    (s.reconnect toc d).Idle := reconnect_idle h toc d hv

/-- the history space with reconnections: in every life of one object - any number of connections, each to a device with its own
table and values, each closed while nothing was outstanding - EVERY connection is a history from an `Idle` state of its own
device; so wire order = queue order, one request outstanding, k-th reply answers k-th request hold on every connection (as do
`reply_attribution_partial`, `answered_requests_have_no_handler`, `set_roundtrip`, `read_roundtrip_sys`, ... which are stated for
such histories) -/
theorem every_connection_fifo (s0 : Sys) (h0 : s0.Idle) (evs : List Ev) (rest : List (List Elem × Dev × List Ev))
    (l : List (Sys × Sys × List Out)) (hrun : Sys.runLife S2F Variant.code s0 evs rest = some l)
    (hgen : ∀ x ∈ rest, x.2.1.v2 = s0.dev.v2) (hclosed : ∀ x ∈ l.dropLast, x.2.1.Idle) :
    ∀ x ∈ l, x.1.Idle ∧
      txsOf x.2.2 ++ x.2.1.host.cur.toList ++ x.2.1.host.queue = (enqsOf x.2.2).map Prod.fst ∧
      (altRun x.1.dev.v2 none (obsOf x.2.2)).isSome = true ∧
      answersZip x.1.dev.v2 (txsOf x.2.2) (solicited (rxdsOf x.2.2)) = true := by
  intro x hx
  have hc := code_variant
  obtain ⟨hi, evs', hr⟩ := life_sessions S2F Variant.code (by rw [hc]) (by rw [hc]) rest s0 evs l h0 hrun hgen hclosed x hx
  exact ⟨hi, one_outstanding_fifo S2F x.1 hi evs' x.2.1 x.2.2 hr⟩

/-- non-vacuity: the same parameter (group 1, name 0) is uint8 at index 0 on the first device and int16 at index 2 on the second;
the read on each connection reports that connection's value in that connection's type -/
def cxToc2 : List Elem := [⟨0, 1, 1, 8, false, true⟩, ⟨1, 1, 2, 8, false, true⟩, ⟨2, 1, 0, 1, false, true⟩]
def cxDev2 : Dev := { v2 := true, params := [⟨8, [7], false, true, [10], none⟩, ⟨8, [9], false, true, [20], none⟩, ⟨1, [0xFE, 0xFF], false, true, [0, 0], none⟩] }
def readP0 : List Ev := [.api 0 (.requestUpdate [1, 0]), .updGet, .updSend, .deliver]
example : ((Sys.runLife noS2F Variant.code cxSys7 readP0 [(cxToc2, cxDev2, readP0)]).map fun l =>
      l.map fun x => (txsOf x.2.2, updatesOf x.2.2)) =
    some [([{ chan := 1, data := [0, 0] }], [.update 7 [1, 0] (.int 1)]), ([{ chan := 1, data := [2, 0] }], [.update 7 [1, 0] (.int (-2))])] := by
  decide +kernel


end CfVerif.C04

/-
Props/C05 — property theorems for C05 (log blocks are created as configured; log data decodes to device
values).  Helper lemmas: Proofs/C05*.  Model: Model/C05 (constants, type table, bit expressions, formats
from Gen/C05, regenerated from /repo on every run).  Device side: Spec/C05.
-/
import CfVerif.Proofs.C05
namespace CfVerif.C05
open CfVerif Spec

/-! ## Gen obligations: what the hand-written model assumes about the current source -/

-- LogVariable / LogTocElement
theorem gen_types_single_code : Gen.C05.types.all (fun e =>
    match parseFmt e.2.2.1 with | some [c] => c.size == e.2.2.2 && c.takesVal | _ => false) = true := by decide
theorem gen_id_from_cstring : Gen.C05.idFromCStringCompares = ["LogTocElement.types[key][0] == name"] := by decide
theorem gen_logvar_init : Gen.C05.logVarInitCompares = ["len(storedAs) == 0"] ∧
    Gen.C05.logVarInitAssigns = ["self.fetch_as=LogTocElement.get_id_from_cstring(fetchAs)",
      "self.stored_as=LogTocElement.get_id_from_cstring(storedAs)", "self.address=address", "self.type=varType"] ∧
    Gen.C05.isTocVariable = ["return self.type == LogVariable.TOC_TYPE"] ∧ Gen.C05.tocType ≠ Gen.C05.memType := by decide
-- LogConfig
theorem gen_conf_init : Gen.C05.confInit = ["self.id=0", "self.cf=None", "self.useV2=False", "self._added=False",
    "self._started=False", "self.pending=False", "self.valid=False", "self.variables=[]", "self.default_fetch_as=[]",
    "self.err_no=0"] := by decide
theorem gen_add_variable : Gen.C05.addVariableTests = ["fetch_as"] ∧
    Gen.C05.addVariableCalls = ["self.variables.append(LogVariable(name, fetch_as))", "self.default_fetch_as.append(name)"] ∧
    Gen.C05.addMemoryCalls = ["self.variables.append(LogVariable(name, fetch_as, LogVariable.MEM_TYPE, stored_as, address))"] := by decide
theorem gen_flag_setters :
    Gen.C05.setaddedBody = ["if added != self._added:\n    self.added_cb.call(self, added)", "self._added = added"] ∧
    Gen.C05.setstartedBody = ["if started != self._started:\n    self.started_cb.call(self, started)", "self._started = started"] := by decide
theorem gen_cmd_select :
    Gen.C05.cmdCreateBlock = ["if self.useV2:\n    return CMD_CREATE_BLOCK_V2\nelse:\n    return CMD_CREATE_BLOCK"] ∧
    Gen.C05.cmdAppendBlock = ["if self.useV2:\n    return CMD_APPEND_BLOCK_V2\nelse:\n    return CMD_APPEND_BLOCK"] := by decide
theorem gen_setup_elements :
    Gen.C05.setupLoop = "i in range(next_to_add, len(self.variables))" ∧
    Gen.C05.setupCompares = ["var.is_toc_variable() is False", "pk.available_data_size() >= size_to_add"] ∧
    Gen.C05.setupAppends = ["struct.pack('<B', var.get_storage_and_fetch_byte())", "struct.pack('<I', var.address)",
      "var.get_storage_and_fetch_byte()", "element_id & 255", "element_id >> 8 & 255", "element_id"] ∧
    Gen.C05.setupReturns = ["(False, i)", "(True, i)"] ∧
    Gen.C05.elementIdSource = "self.cf.log.toc.get_element_id(var.name)" := by decide
theorem gen_packet_size : Gen.C05.availableExpr = "return self.MAX_DATA_SIZE - self.get_data_size()" ∧
    Gen.C05.dataSizeExpr = "return len(self._data)" := by decide
/-- the arithmetic the create/append splitting relies on: two id bytes are tested for, the dangling type byte
still fits (`MAX_DATA_SIZE mod 3 ≠ 2`), every packet takes at least one variable, and the limit is the
30 bytes of the property statement -/
theorem gen_split_arith : Gen.C05.sizeToAdd = 2 ∧ Gen.C05.maxDataSize % 3 ≠ 2 ∧ 7 ≤ Gen.C05.maxDataSize ∧
    Gen.C05.maxDataSize ≤ 30 := by decide
theorem gen_create :
    Gen.C05.createTests = ["pending < Log.MAX_BLOCKS", "not is_done", "block.pending or block.added or block.started",
      "num_variables + len(self.variables) > Log.MAX_VARIABLES"] ∧
    Gen.C05.createData = ["(command, self.id)"] ∧
    Gen.C05.createSends = ["self.cf.send_packet(pk, expected_reply=(command, self.id))"] ∧
    Gen.C05.createAug = ["pending += 1", "num_variables += len(block.variables)", "self.pending += 1"] := by decide
theorem gen_start_stop_delete :
    Gen.C05.startTests = ["self.cf.link is not None", "self._added is False"] ∧
    Gen.C05.startData = ["(CMD_START_LOGGING, self.id, self.period)"] ∧
    Gen.C05.startSends = ["self.cf.send_packet(pk, expected_reply=(CMD_START_LOGGING, self.id))"] ∧
    Gen.C05.stopTests = ["self.cf.link is not None", "self.id is None"] ∧
    Gen.C05.stopData = ["(CMD_STOP_LOGGING, self.id)"] ∧
    Gen.C05.stopSends = ["self.cf.send_packet(pk, expected_reply=(CMD_STOP_LOGGING, self.id))"] ∧
    Gen.C05.deleteTests = ["self.cf.link is not None", "self.id is None"] ∧
    Gen.C05.deleteData = ["(CMD_DELETE_BLOCK, self.id)"] ∧
    Gen.C05.deleteSends = ["self.cf.send_packet(pk, expected_reply=(CMD_DELETE_BLOCK, self.id))"] := by decide
theorem gen_unpack :
    Gen.C05.unpackStructs = ["unpackstring log_data[data_index:data_index + size]"] ∧
    Gen.C05.unpackAssigns = ["size=LogTocElement.get_size_from_id(var.fetch_as)", "name=var.name",
      "unpackstring=LogTocElement.get_unpack_string_from_id(var.fetch_as)",
      "value=struct.unpack(unpackstring, log_data[data_index:data_index + size])[0]", "ret_data[name]=value"] ∧
    Gen.C05.unpackAug = ["data_index += size"] ∧
    Gen.C05.unpackCalls = ["self.data_received_cb.call(timestamp, ret_data, self)"] := by decide
-- Log.add_config (as repaired by fixes/D6-c05.patch: a resolved name is removed from default_fetch_as)
theorem gen_add_config :
    Gen.C05.addConfigTests = ["not self.cf.link", "not var", "var.is_toc_variable()",
      "self.toc.get_element_by_complete_name(var.name) is None",
      "size <= LogConfig.MAX_LEN and (logconf.period > 0 and logconf.period < 255)"] ∧
    Gen.C05.addConfigLoops = ["name in list(logconf.default_fetch_as)", "var in logconf.variables"] ∧
    Gen.C05.resolveCalls = ["logconf.add_variable(name, var.ctype)", "logconf.default_fetch_as.remove(name)"] ∧
    Gen.C05.addConfigAug = ["size += LogTocElement.get_size_from_id(var.fetch_as)"] ∧
    Gen.C05.addConfigRaises = ["KeyError", "KeyError", "AttributeError"] := by decide
theorem gen_accept_reject :
    Gen.C05.acceptBody = ["logconf.valid = True", "logconf.cf = self.cf", "logconf.id = self._config_id_counter",
      "logconf.useV2 = self._useV2", "self._config_id_counter = (self._config_id_counter + 1) % 255",
      "self.log_blocks.append(logconf)", "self.block_added_cb.call(logconf)"] ∧
    Gen.C05.rejectBody = ["logconf.valid = False", "raise AttributeError"] := by decide
theorem gen_log_misc :
    Gen.C05.findBlock = ["for block in self.log_blocks:\n    if block.id == id:\n        return block", "return None"] ∧
    Gen.C05.resetBody = ["self.log_blocks = []", "self._send_reset_packet()"] ∧
    Gen.C05.resetData = ["(CMD_RESET_LOGGING,)"] ∧
    Gen.C05.refreshAssigns = ["self._useV2=self.cf.platform.get_protocol_version() >= 4", "self.toc=None"] := by decide
-- Log._new_packet_cb
theorem gen_rx_tests : Gen.C05.rxTests = ["chan == CHAN_SETTINGS", "cmd == CMD_CREATE_BLOCK or cmd == CMD_CREATE_BLOCK_V2",
    "block is not None", "error_status == 0 or error_status == errno.EEXIST", "not block.added", "cmd == CMD_START_LOGGING",
    "error_status == 0", "block", "block", "cmd == CMD_STOP_LOGGING", "error_status == 0", "block", "cmd == CMD_DELETE_BLOCK",
    "error_status == 0 or error_status == errno.ENOENT", "block", "cmd == CMD_RESET_LOGGING", "not self.toc",
    "chan == CHAN_LOGDATA", "block is not None"] := by decide
theorem gen_rx_effects :
    Gen.C05.rxAssigns = ["cmd=packet.data[0]", "payload=packet.data[1:]", "error_status=payload[1]", "logdata=packet.data[4:]",
      "block.added=True", "block.pending=False", "block.err_no=error_status", "self.log_blocks=[]"] ∧
    Gen.C05.rxData = ["(CMD_START_LOGGING, id, block.period)"] ∧
    Gen.C05.rxCalls = ["block.added_cb.call(False)", "block.error_cb.call(block, msg)", "block.started_cb.call(self, False)",
      "block.unpack_log_data(logdata, timestamp)"] ∧
    Gen.C05.rxFlagWrites = ["0:block.added = True", "1:block.started = True", "2:block.started = False",
      "3:block.started = False", "4:block.added = False"] ∧
    Gen.C05.tsArgs = ["packet.data[1:4]"] := by decide
/-- the sequential `if cmd == …` tests of `_new_packet_cb` are mutually exclusive, and the two channel tests too -/
theorem gen_cmds_distinct : [Gen.C05.cmdCreate, Gen.C05.cmdCreateV2, Gen.C05.cmdStart, Gen.C05.cmdStop, Gen.C05.cmdDelete,
    Gen.C05.cmdReset].Nodup ∧ Gen.C05.chanSettings ≠ Gen.C05.chanLogdata := by decide
/-- the model and the device agree on command numbers and errno values -/
theorem gen_wire_constants : Gen.C05.cmdCreate = 0 ∧ Gen.C05.cmdCreateV2 = 6 ∧ Gen.C05.cmdAppend = 1 ∧ Gen.C05.cmdAppendV2 = 7 ∧
    Gen.C05.cmdStart = 3 ∧ Gen.C05.cmdStop = 4 ∧ Gen.C05.cmdDelete = 2 ∧ Gen.C05.cmdReset = 5 ∧
    Gen.C05.chanSettings = 1 ∧ Gen.C05.chanLogdata = 2 ∧ Gen.C05.errnoEEXIST = 17 ∧ Gen.C05.errnoENOENT = 2 := by decide
-- SyncLogger
set_option maxRecDepth 8000 in
theorem gen_synclogger :
    Gen.C05.slConnectBody = ["if self._is_connected: ;     raise Exception('Already connected')",
      "self._cf.disconnected.add_callback(self._disconnected)",
      "for config in self._log_config: ;     self._cf.log.add_config(config) ;     config.data_received_cb.add_callback(self._log_callback) ;     config.start()",
      "self._is_connected = True"] ∧
    Gen.C05.slDisconnectBody = ["if self._is_connected: ;     for config in self._log_config: ;         config.stop() ;         config.delete() ;         config.data_received_cb.remove_callback(self._log_callback) ;     self._cf.disconnected.remove_callback(self._disconnected) ;     self._is_connected = False"] ∧
    Gen.C05.slNextBody = ["if not self._is_connected: ;     raise StopIteration", "data = self._queue.get()",
      "if data == self.DISCONNECT_EVENT: ;     self._queue.empty() ;     raise StopIteration", "return data"] ∧
    Gen.C05.slLog_callbackBody = ["self._queue.put((ts, data, logblock))"] ∧
    Gen.C05.slDisconnectedBody = ["self.disconnect()", "self._queue.put(self.DISCONNECT_EVENT)"] := by decide

/-! ## Clause 1: a configuration is accepted iff … ; nothing is sent for a rejected one -/

/-- `Log.add_config` on a connected Log with a downloaded table accepts the configuration (no exception)
iff every default-typed name and every typed TOC variable exists in the table, the period satisfies
10 ms ≤ period < 2550 ms (`0 < int(ms/10) < 255`) and the payload of the resolved variable list is at most
26 bytes.  Either way it hands nothing to `send_packet`.  When accepted the configuration is valid, bound to
the Crazyflie, has the next id and is appended to `log_blocks`; when rejected it is marked invalid, stays
unbound (if it was) and `log_blocks` is unchanged. -/
theorem accept_iff (st : St) (h : Nat) (c : Conf) (toc : Toc) (ms : Int)
    (hc : st.conf? h = some c) (hlink : st.link = true) (htoc : st.toc = some toc)
    (hwf : TocWF toc) (hvw : VarsWF c.variables) (hp : c.period = periodOf ms) :
    ∃ r, addConfig st h = some r ∧ NoTx r.outs ∧ (r.err = none ↔ Acceptable toc c ms) ∧
      (r.err = none →
        r.st.conf? h = some { c with variables := c.variables ++ resolvedVars toc c.defaults, defaults := [],
                                     valid := true, hasCf := true, id := st.counter, useV2 := st.useV2 } ∧
        r.st.blocks = st.blocks ++ [h] ∧ r.outs = [.blockAdded h]) ∧
      (r.err ≠ none → r.outs = [] ∧ r.st.blocks = st.blocks ∧
        ∃ c', r.st.conf? h = some c' ∧ c'.valid = false ∧ c'.hasCf = c.hasCf) :=
  addConfig_spec st h c toc ms hc hlink htoc hwf hvw hp

/-- Without a link `add_config` does nothing at all. -/
theorem add_config_without_link (st : St) (h : Nat) (c : Conf) (hc : st.conf? h = some c) (hl : st.link = false) :
    addConfig st h = some { st := st } := by
  simp [addConfig, addConfigWith, hc, hl]

/-- A configuration that was never accepted (not bound to a Crazyflie) cannot transmit: `start`, `stop`
and `delete` raise before building a packet. -/
theorem rejected_sends_nothing (st : St) (h : Nat) (c : Conf) (hc : st.conf? h = some c) (hcf : c.hasCf = false) :
    start st h = some { st := st, err := some .attributeError } ∧
    stop st h = some { st := st, err := some .attributeError } ∧
    delete st h = some { st := st, err := some .attributeError } := by
  simp [start, stop, delete, simpleCmd, hc, hcf]

/-! ## Clause 2: the block-creation messages (current protocol) enumerate exactly the variables -/

/-- For every list of TOC variables with 16-bit idents (any length, so every split point) and every block
id, the V2 create loop raises nothing and sends `m :: ms` where: every message is at most 30 bytes; the first
starts with (CREATE_V2, id) and every later one with (APPEND_V2, id); and the firmware's view of the
messages — ⌊(len-2)/3⌋ (logType, id16) entries each, a trailing partial entry ignored — concatenated is
exactly the variable list, once each, in order, with the table's ident and `stored<<4 | fetch`. -/
theorem create_enumerates (toc : Toc) (id : Nat) (hid : id < 256) (vars : List LVar) (hg : ∀ v ∈ vars, GoodVar toc v) :
    ∃ m ms, createLoop (some toc) true id Gen.C05.cmdAppendV2 (vars.length + 1) Gen.C05.cmdCreateV2 vars
        = (txs id Gen.C05.cmdCreateV2 Gen.C05.cmdAppendV2 (m :: ms), none) ∧
      (∀ x ∈ m :: ms, x.length ≤ 30) ∧
      HasHeader Gen.C05.cmdCreateV2 id m ∧ (∀ x ∈ ms, HasHeader Gen.C05.cmdAppendV2 id x) ∧
      ((m :: ms).map fwEntries).flatten = vars.map (entryOf toc) ∧
      (∀ v ∈ vars, fwFetch (entryOf toc v).1 = v.fetch ∧ fwStored (entryOf toc v).1 = v.stored ∧
        toc.elementId v.name = some (entryOf toc v).2) := by
  obtain ⟨hS, hM, hM7, hM30⟩ := gen_split_arith
  obtain ⟨m, ms, h1, h2, h3, h4, h5⟩ :=
    createLoop_spec toc id Gen.C05.cmdAppendV2 hid (by decide) hS hM hM7 (vars.length + 1) vars Gen.C05.cmdCreateV2
      (by decide) (by omega) hg
  refine ⟨m, ms, h1, fun x hx => Nat.le_trans (h2 x hx) hM30, h3, h4, h5, ?_⟩
  intro v hv
  have g := hg v hv
  obtain ⟨_, t1, t2⟩ := tb_table v.fetch g.2.1 v.stored g.2.2.1
  exact ⟨t1, t2, g.elementId⟩

/-! ## Non-vacuity -/

def exToc : Toc := [⟨0, 0, "uint8_t"⟩, ⟨1, 300, "float"⟩, ⟨2, 2, "FP16"⟩]
def exConf : Conf := { period := periodOf 100, variables := [⟨1, 2, 7, true, 0⟩], defaults := [0, 2] }
def exSt : St := { confs := [exConf], link := true, toc := some exToc, useV2 := true }

example : TocWF exToc := by unfold TocWF; decide
example : VarsWF exConf.variables := by unfold VarsWF; decide
example : GoodVar exToc ⟨1, 2, 7, true, 0⟩ := ⟨rfl, by decide, by decide, 300, by decide, by decide⟩
example : (addConfig exSt 0).map (·.err) = some none := by decide
example : ((addConfig exSt 0).bind fun r => r.st.conf? 0).map (·.variables) =
    some [⟨1, 2, 7, true, 0⟩, ⟨0, 1, 1, true, 0⟩, ⟨2, 8, 8, true, 0⟩] := by decide
/-- 10 one-byte variables: 9 entries + a dangling type byte (30 bytes), then 1 entry in an append message -/
example : (createLoop (some ((List.range 10).map fun k => ⟨k, k, "uint8_t"⟩)) true 1 7 11 6
    ((List.range 10).map fun k => ⟨k, 1, 1, true, 0⟩)).1.map (fun o => match o with | .tx d _ => d.length | _ => 0) = [30, 5] := by decide

end CfVerif.C05
